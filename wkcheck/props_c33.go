package main

import (
	"fmt"
	"go/types"
	"sort"
	"strings"

	"golang.org/x/tools/go/ssa"
)

func init() {
	const dir = "internal/runtime/presence/directory.go"
	const exp = "internal/runtime/presence/expiry_index.go"
	register(&PropSpec{
		ID:        "C33",
		Pkgs:      []string{"./internal/runtime/presence"},
		Technique: "static analysis: SSA edge-dominance guards (target fence, tombstone/owner-sequence admission, TTL comparison), who-may-mutate confinement of the slot maps, monotone map-element updates, enumerated map iterations with sort-before-return, shard lock held at every slot access",
		Explain:   "Decides the structural clauses of the presence fence: (R1) every Directory method taking a RouteTarget touches an authority slot only on the validateTargetLocked==nil edge, validateTargetLocked returns exactly shard.slots[target.HashSlot] and only behind sameAuthorityIdentity, which compares every identity field of RouteTarget; the slot maps and the slot mutators are written/called only from the enumerated functions; (R2) every store to tombstoneSeq[k]/ownerSeq[k] is behind new >= old on the same element and the elements are never deleted; register/touch/commit admit a route (upsert, pending insert, ownerSeq update) only behind OwnerSeq > tombstone (or no tombstone) and OwnerSeq >= ownerSeq of the route's own identity key; unregister removes an active route only if its OwnerSeq <= the unregister sequence; (R3) every map iteration in the package is enumerated, and those that collect routes/keys into a slice pass sortRoutes/sort.Slice on the returned value before returning; the order compares all identity fields; (R4) shard.slots and every slot field access or slot method call outside the …Locked methods happens with the owning shard's mutex held (write mode for mutations); (R5) expiry removes a route only behind Before(Unix(bucket.seenUnix)+ttl, now) for the bucket that currently indexes the key, buckets are keyed by the route's own last-seen second, the heap is a min-heap on seenUnix, and touch never lowers LastSeenUnix of an existing route. NOT decided: equivalence with a reference model over operation sequences, container/heap semantics (trusted), the owner-side online.Registry (not slot-fenced), that callers pass a target whose HashSlot is the hash of the UID, behaviour of EndpointsByTargets' second pass beyond being gated by the Err recorded in the first pass.",
		Run:       c33,
		Mutants: []Mutant{
			{Name: "validate-skips-identity", File: dir, Old: "if slot == nil || !sameAuthorityIdentity(slot.target, target) {", New: "if slot == nil {", Expect: "C33/R1-fence*"},
			{Name: "identity-ignores-term", File: dir, Old: "\t\tleft.LeaderTerm == right.LeaderTerm &&\n", New: "", Expect: "C33/R1-fence*"},
			{Name: "touch-ignores-fence-error", File: dir, Old: "\tslot, err := d.validateTargetLocked(shard, target)\n\tif err != nil {\n\t\treturn err\n\t}\n\tfor _, route := range routes {", New: "\tslot, err := d.validateTargetLocked(shard, target)\n\tif err != nil && slot == nil {\n\t\treturn err\n\t}\n\tfor _, route := range routes {", Expect: "C33/R1-fence*"},
			{Name: "abort-before-validate", File: dir, Old: "\tslot, err := d.validateTargetLocked(shard, target)\n\tif err != nil {\n\t\treturn err\n\t}\n\tif _, ok := slot.pending[token]; !ok {", New: "\tslot, err := d.validateTargetLocked(shard, target)\n\tif slot == nil {\n\t\treturn err\n\t}\n\tif _, ok := slot.pending[token]; !ok {", Expect: "C33/R1-fence*"},
			{Name: "register-tombstone-nonstrict", File: dir, Old: "if tombstone, ok := s.tombstoneSeq[key]; ok && route.OwnerSeq <= tombstone {\n\t\treturn RegisterResult{}, ErrStaleRoute", New: "if tombstone, ok := s.tombstoneSeq[key]; ok && route.OwnerSeq < tombstone {\n\t\treturn RegisterResult{}, ErrStaleRoute", Expect: "C33/R2-seq*"},
			{Name: "touch-skips-tombstone", File: dir, Old: "if tombstone, ok := s.tombstoneSeq[key]; ok && route.OwnerSeq <= tombstone {\n\t\treturn\n\t}", New: "if tombstone, ok := s.tombstoneSeq[key]; ok && route.OwnerSeq <= tombstone && route.OwnerSeq == 0 {\n\t\treturn\n\t}", Expect: "C33/R2-seq*"},
			{Name: "commit-skips-tombstone", File: dir, Old: "if tombstone, ok := s.tombstoneSeq[key]; ok && pending.route.OwnerSeq <= tombstone {\n\t\tdelete(s.pending, token)\n\t\treturn ErrStaleRoute\n\t}", New: "", Expect: "C33/R2-seq*"},
			{Name: "unregister-lowers-tombstone", File: dir, Old: "if ownerSeq > slot.tombstoneSeq[key] {\n\t\tslot.tombstoneSeq[key] = ownerSeq\n\t}", New: "slot.tombstoneSeq[key] = ownerSeq", Expect: "C33/R2-seq*"},
			{Name: "unregister-no-tombstone", File: dir, Old: "if ownerSeq > slot.tombstoneSeq[key] {\n\t\tslot.tombstoneSeq[key] = ownerSeq\n\t}", New: "", Expect: "C33/R2-seq*"},
			{Name: "unregister-removes-newer", File: dir, Old: "if existing, ok := slot.active[key]; ok && existing.OwnerSeq <= ownerSeq {", New: "if existing, ok := slot.active[key]; ok {", Expect: "C33/R2-seq*"},
			{Name: "lookup-unsorted", File: dir, Old: "\tsortRoutes(routes)\n\treturn routes\n", New: "\treturn routes\n", Expect: "C33/R3-order*"},
			{Name: "order-ignores-boot", File: dir, Old: "\tif left.ownerBootID != right.ownerBootID {\n\t\treturn left.ownerBootID < right.ownerBootID\n\t}\n", New: "", Expect: "C33/R3-order*"},
			{Name: "lookup-write-lock-dropped", File: dir, Old: "\tshard := d.shard(target.HashSlot)\n\tshard.mu.Lock()\n\tdefer shard.mu.Unlock()\n\n\tslot, err := d.validateTargetLocked(shard, target)\n\tif err != nil {\n\t\treturn err\n\t}\n\treturn slot.commitRouteLocked(token)", New: "\tshard := d.shard(target.HashSlot)\n\tshard.mu.RLock()\n\tdefer shard.mu.RUnlock()\n\n\tslot, err := d.validateTargetLocked(shard, target)\n\tif err != nil {\n\t\treturn err\n\t}\n\treturn slot.commitRouteLocked(token)", Expect: "C33/R4-lock*"},
			{Name: "expire-unlocked", File: dir, Old: "\t\tshard.mu.Lock()\n\t\tfor _, slot := range shard.slots {\n\t\t\tslotResult := slot.expireLocked(now, ttl)", New: "\t\tshard.mu.RLock()\n\t\tfor _, slot := range shard.slots {\n\t\t\tslotResult := slot.expireLocked(now, ttl)", Expect: "C33/R4-lock*"},
			{Name: "expire-ttl-inverted", File: exp, Old: "if !time.Unix(bucket.seenUnix, 0).Add(ttl).Before(now) {", New: "if time.Unix(bucket.seenUnix, 0).Add(ttl).Before(now) {", Expect: "C33/R5-expiry*"},
			{Name: "expire-ignores-ttl", File: exp, Old: "if !time.Unix(bucket.seenUnix, 0).Add(ttl).Before(now) {", New: "if !time.Unix(bucket.seenUnix, 0).Before(now) {", Expect: "C33/R5-expiry*"},
			{Name: "expire-stale-bucket", File: exp, Old: "\t\t\t\tif s.expiryByKey[key] != bucket {\n\t\t\t\t\tcontinue\n\t\t\t\t}\n", New: "", Expect: "C33/R5-expiry*"},
			{Name: "heap-max-first", File: exp, Old: "return h[i].seenUnix < h[j].seenUnix", New: "return h[i].seenUnix > h[j].seenUnix", Expect: "C33/R5-expiry*"},
			{Name: "touch-lowers-last-seen", File: dir, Old: "if route.LastSeenUnix < existing.LastSeenUnix {", New: "if route.LastSeenUnix > existing.LastSeenUnix {", Expect: "C33/R5-expiry*"},
			{Name: "new-writer-elsewhere", File: dir, Old: "\tdelete(shard.slots, hashSlot)\n}", New: "\tif slot := shard.slots[hashSlot]; slot != nil {\n\t\tclear(slot.tombstoneSeq)\n\t}\n\tdelete(shard.slots, hashSlot)\n}", Expect: "C33/R1-confine*"},
		},
	})
}

const c33P = "internal/runtime/presence."

func c33(c *Ctx) {
	slotT := c.lookupType(c33P + "authoritySlot")
	targetT := c.lookupType(c33P + "RouteTarget")
	if slotT == nil || targetT == nil {
		c.add("anchor", "anchor", c33P+"authoritySlot/RouteTarget", Undecided, "", "anchored types not found")
		return
	}
	slotUse := InstrFn{"authority-slot use", func(in ssa.Instruction) bool { return c33SlotUse(in, slotT) != nil }}

	// ---- R1: the target fence -------------------------------------------
	const fenceOK = c33P + "Directory.validateTargetLocked(*)#1 == nil"
	installers := map[string]string{
		c33P + "Directory.BecomeAuthority":      "installs the authority identity; not fenced by design",
		c33P + "Directory.validateTarget":       "is the fence",
		c33P + "Directory.validateTargetLocked": "is the fence",
	}
	nFenced := 0
	for _, fn := range c.Fns(c33P + "Directory.*") {
		name := c.P.Name(fn)
		if strings.Contains(name, "$") || installers[name] != "" {
			continue
		}
		takesTarget := false
		for _, p := range fn.Params {
			if sameNamed(p.Type(), targetT) {
				takesTarget = true
			}
		}
		if !takesTarget {
			continue
		}
		nFenced++
		c.Guard("R1-fence", fn, slotUse, fenceOK)
		c.CallShape("R1-fence", fn, c33P+"Directory.validateTargetLocked",
			c33P+"Directory.validateTargetLocked(d, "+c33P+"Directory.shard(d, target.HashSlot), target)")
	}
	if nFenced < 7 {
		c.add("vacuity", "R1-fence", "fenced-methods", Undecided, "", fmt.Sprintf("only %d Directory methods take a RouteTarget, hand-confirmed 7", nFenced))
	}
	byTargets := c.Fn(c33P + "Directory.EndpointsByTargets")
	c.Guard("R1-fence", byTargets, slotUse, fenceOK+" || *.Err == nil")
	c.StoreShape("R1-fence", byTargets, "*.Err", c33P+"Directory.validateTargetLocked(*)#1", c33P+"ErrNotLeader")
	c.CallShape("R1-fence", byTargets, c33P+"Directory.validateTargetLocked", c33P+"Directory.validateTargetLocked(d, d.shards[*], *.Target)")

	vtl := c.Fn(c33P + "Directory.validateTargetLocked")
	c.Guard("R1-fence", vtl, RetNil{},
		"shard.slots[target.HashSlot] != nil",
		c33P+"sameAuthorityIdentity(shard.slots[target.HashSlot].target, target) == true",
		"d.localNodeID == 0 || target.LeaderNodeID == d.localNodeID",
	)
	c33RetShape(c, "R1-fence", vtl, 0, "nil", "shard.slots[target.HashSlot]")
	c.Guard("R1-fence", vtl, RetNot{Idx: 0, Globs: []string{"nil"}}, c33P+"sameAuthorityIdentity(*) == true")
	same := c.Fn(c33P + "sameAuthorityIdentity")
	for _, f := range []string{"HashSlot", "SlotID", "LeaderNodeID", "LeaderTerm", "ConfigEpoch"} {
		c.GuardTrue("R1-fence", same, 0, "left."+f+" == right."+f)
	}
	if same != nil {
		c.Cover("R1-fence", []*ssa.Function{same}, c33P+"RouteTarget", map[string]string{
			"RouteRevision":  "routing-table revision observed by the caller; refreshed by BecomeAuthority, not part of the authority identity",
			"AuthorityEpoch": "local observation sequence, documented as diagnostics only",
		})
	}
	become := c.Fn(c33P + "Directory.BecomeAuthority")
	c.Guard("R1-fence", become, StoreTo{Addr: "*.slots[*].target"},
		c33P+"sameAuthorityIdentity(*.slots[target.HashSlot].target, target) == true",
		"target.RouteRevision >= *.slots[target.HashSlot].target.RouteRevision")
	c.StoreShape("R1-fence", become, "*.slots[*]", c33P+"newAuthoritySlot(target)")

	// who may mutate the slot state
	const (
		upsert   = c33P + "authoritySlot.upsertActiveLocked"
		remove   = c33P + "authoritySlot.removeActiveLocked"
		register = c33P + "authoritySlot.registerLocked"
		commit   = c33P + "authoritySlot.commitRouteLocked"
		touch    = c33P + "authoritySlot.touchLocked"
		expire   = c33P + "authoritySlot.expireLocked"
		unreg    = c33P + "Directory.UnregisterRoute"
	)
	c33ConfineMap(c, "R1-confine", c33P+"authoritySlot.active", map[string][]string{"set": {upsert}, "delete": {remove}})
	c33ConfineMap(c, "R1-confine", c33P+"authoritySlot.byUID", map[string][]string{"set": {upsert}, "delete": {remove}})
	c33ConfineMap(c, "R1-confine", c33P+"authoritySlot.pending", map[string][]string{"set": {register}, "delete": {commit, c33P + "Directory.AbortRoute", unreg}})
	c33ConfineMap(c, "R1-confine", c33P+"authoritySlot.ownerSeq", map[string][]string{"set": {register, touch, unreg}})
	c33ConfineMap(c, "R1-confine", c33P+"authoritySlot.tombstoneSeq", map[string][]string{"set": {unreg}})
	c33ConfineMap(c, "R1-confine", c33P+"directoryShard.slots", map[string][]string{"set": {c33P + "Directory.BecomeAuthority"}, "delete": {c33P + "Directory.LoseAuthority"}})
	c.ConfineStores("R1-confine", c33P+"authoritySlot.target", false, c33P+"Directory.BecomeAuthority")
	for _, f := range []string{"active", "byUID", "pending", "ownerSeq", "tombstoneSeq"} {
		c.ConfineStores("R1-confine", c33P+"authoritySlot."+f, true, c33P+"newAuthoritySlot")
	}
	c.ConfineCalls("R1-confine", upsert, 4, register, commit, touch)
	c.ConfineCalls("R1-confine", remove, 4, upsert, commit, expire, unreg)
	c.ConfineCalls("R1-confine", register, 1, c33P+"Directory.RegisterRoute")
	c.ConfineCalls("R1-confine", commit, 1, c33P+"Directory.CommitRoute")
	c.ConfineCalls("R1-confine", touch, 1, c33P+"Directory.TouchRoutes")
	c.ConfineCalls("R1-confine", expire, 1, c33P+"Directory.ExpireRoutesDetailed")

	// ---- R2: owner-sequence tombstones ----------------------------------
	c33MonoMap(c, "R2-seq", c33P+"authoritySlot.tombstoneSeq", 1)
	c33MonoMap(c, "R2-seq", c33P+"authoritySlot.ownerSeq", 3)
	seqMaps := []*types.Var{c.Field(c33P + "authoritySlot.tombstoneSeq"), c.Field(c33P + "authoritySlot.ownerSeq")}
	for _, a := range []struct {
		fn     string
		origin string // where the admitted route comes from
	}{
		{register, "route"}, {touch, "route"}, {commit, "s.pending[token]#0.route"},
	} {
		fn := c.Fn(a.fn)
		if fn == nil {
			continue
		}
		// R = the route handed to upsertActiveLocked (back-reference: rendered once, reused in every guard)
		R, ok := c33UniqueArg(c, "R2-seq", fn, upsert, 1)
		if !ok {
			continue
		}
		admit := OneOf{CallTo{upsert}, StoreTo{Addr: "s.pending[*]"}, StoreTo{Addr: "s.ownerSeq[*]"}}
		// R may be rooted in a local (commit: the looked-up pending entry); it is a back-reference
		// resolved from the call argument, so the guards name it ‹admitted›, not by identifier.
		refs := map[string]string{"admitted": R}
		c33GuardRef(c, "R2-seq", fn, admit, refs,
			"s.tombstoneSeq[*]#1 == false || ‹admitted›.OwnerSeq > s.tombstoneSeq[*]#0",
			"‹admitted›.OwnerSeq >= s.ownerSeq[*]",
		)
		// every tombstoneSeq/ownerSeq element touched is the one of R's own identity key
		c33MapKeysAre(c, "R2-seq", fn, seqMaps, c33P+"makeRouteIdentityKey("+R+")", c33P+"makeRouteIdentityKey(‹admitted›)")
		c33OriginIs(c, "R2-seq", fn, upsert, 1, a.origin)
		if a.fn != commit { // commit consults the fence but does not advance ownerSeq
			c.StoreShape("R2-seq", fn, "s.ownerSeq[*]", R+".OwnerSeq")
		}
	}
	c.StoreShape("R2-seq", c.Fn(register), "alloc:pendingRoute.route", "route")
	c.Guard("R2-seq", c.Fn(commit), CallTo{upsert}, "s.pending[token]#1 == true")
	// the sequence checks are on the route that is stored: normalisation only fills LastSeenUnix
	c33OnlyStoresTo(c, "R2-seq", c.Fn(c33P+"normalizeRouteSeen"), "route", "route.LastSeenUnix")
	c33RetShape(c, "R2-seq", c.Fn(c33P+"normalizeRouteSeen"), 0, "route")
	unregFn := c.Fn(unreg)
	if K, ok := c33UniqueArg(c, "R2-seq", unregFn, remove, 1); ok {
		E, _ := c33UniqueArg(c, "R2-seq", unregFn, remove, 2)
		c33GuardRef(c, "R2-seq", unregFn, CallTo{remove}, map[string]string{"removed": E}, "‹removed›.OwnerSeq <= ownerSeq", "*.active["+K+"]#1 == true")
		c33OriginIs(c, "R2-seq", unregFn, remove, 1, c33P+"makeIdentityKey(identity)")
		c33OriginIs(c, "R2-seq", unregFn, remove, 2, "*.active["+K+"]#0")
		c.StoreShape("R2-seq", unregFn, "*.tombstoneSeq["+K+"]", "ownerSeq")
		c.StoreShape("R2-seq", unregFn, "*.ownerSeq["+K+"]", "ownerSeq")
		c33MapKeysAre(c, "R2-seq", unregFn, seqMaps, c33P+"makeIdentityKey(identity)", "")
		c.Guard("R2-seq", unregFn, CallTo{"delete(*.pending, *)"},
			c33P+"makeRouteIdentityKey(*.route) == "+K, "*.route.OwnerSeq <= ownerSeq")
	}
	for _, mk := range []struct{ fn, src string }{{"makeRouteIdentityKey", "route"}, {"makeIdentityKey", "identity"}} {
		fn := c.Fn(c33P + mk.fn)
		c.LiteralComplete("R2-seq", fn, c33P+"identityKey", nil, nil)
		c.StoreShape("R2-seq", fn, "alloc:identityKey.uid", mk.src+".UID")
		c.StoreShape("R2-seq", fn, "alloc:identityKey.ownerNodeID", mk.src+".OwnerNodeID")
		c.StoreShape("R2-seq", fn, "alloc:identityKey.ownerBootID", mk.src+".OwnerBootID")
		c.StoreShape("R2-seq", fn, "alloc:identityKey.sessionID", mk.src+".SessionID")
	}

	// ---- R3: deterministic lookup order ---------------------------------
	sorted := "collects into a slice that is sorted before it is returned (decided below)"
	c33MapRanges(c, "R3-order", map[string]string{
		c33P + "authoritySlot.endpointsByUIDLocked": sorted,
		c33P + "Directory.EndpointsByTargets":       sorted,
		c33P + "authoritySlot.conflictsLocked":      sorted,
		unreg:                                       "deletes matching pending tokens only (order-insensitive)",
		c33P + "Directory.ExpireRoutesDetailed":     "sums per-slot counters (commutative)",
		c33P + "Directory.Snapshot":                 "writes a map keyed by the iteration key and sums (order-insensitive)",
		expire:                                      "removes every qualifying key of a due bucket and counts (order-insensitive)",
	})
	ebu := c.Fn(c33P + "authoritySlot.endpointsByUIDLocked")
	c33SortedReturn(c, "R3-order", ebu, 0, c33P+"sortRoutes")
	c33SortedReturn(c, "R3-order", c.Fn(c33P+"authoritySlot.conflictsLocked"), 0, "sort.Slice")
	c.FollowedBy("R3-order", byTargets, StoreTo{Addr: "make([]Route, *)[*]"}, CallTo{c33P + "sortRoutes(make([]Route, *)[*:*])"})
	for _, n := range []string{"Directory.EndpointsByUID", "Directory.EndpointsByUIDs"} {
		fn := c.Fn(c33P + n)
		c.Guard("R3-order", fn, RetNil{}, "after: "+c33P+"authoritySlot.endpointsByUIDLocked || len(uids) <= *")
	}
	c.CallShape("R3-order", c.Fn(c33P+"Directory.EndpointsByUIDs"), "append", "append(*, "+c33P+"authoritySlot.endpointsByUIDLocked(*, uids[*]))")
	sr := c.Fn(c33P + "sortRoutes")
	c.Guard("R3-order", sr, AnyRet{}, "len(routes) < 2 || after: sort.Slice(routes, closure:"+c33P+"sortRoutes$1)")
	c.CallShape("R3-order", c.Fn(c33P+"sortRoutes$1"), c33P+"lessIdentityKey",
		c33P+"lessIdentityKey("+c33P+"makeRouteIdentityKey(*[i]), "+c33P+"makeRouteIdentityKey(*[j]))")
	c.CallShape("R3-order", c.Fn(c33P+"authoritySlot.conflictsLocked$1"), c33P+"lessIdentityKey", c33P+"lessIdentityKey(*[i], *[j])")
	less := c.Fn(c33P + "lessIdentityKey")
	if less != nil {
		c.Cover("R3-order", []*ssa.Function{less}, c33P+"identityKey", nil)
		for _, f := range []string{"uid", "sessionID", "ownerNodeID", "ownerBootID"} {
			c.Guard("R3-order", less, Ret{Idx: 0, Glob: "(left." + f + " < right." + f + ")"}, "left."+f+" != right."+f)
		}
		c33RetShape(c, "R3-order", less, 0, "false", "(left.uid < right.uid)", "(left.sessionID < right.sessionID)", "(left.ownerNodeID < right.ownerNodeID)", "(left.ownerBootID < right.ownerBootID)")
	}

	// ---- R4: shard lock --------------------------------------------------
	c.Lockset("R4-lock", LockSpec{
		Struct:     c33P + "directoryShard",
		Mutex:      "mu",
		Fields:     []string{"slots"},
		ReadsToo:   true,
		AssumeHeld: []string{c33P + "Directory.validateTargetLocked"},
		Exempt:     []string{c33P + "NewDirectory"}, // constructor: not shared yet
	})
	c33SlotAccessLocked(c, "R4-lock", slotT, map[string]bool{
		c33P + "authoritySlot.endpointsByUIDLocked": true, // read-only slot methods (RLock suffices)
	})

	// ---- R5: TTL expiry --------------------------------------------------
	expFn := c.Fn(expire)
	const due = "time.Time.Before(time.Time.Add(time.Unix(*.seenUnix, 0), ttl), now) == true"
	c.Guard("R5-expiry", expFn, OneOf{CallTo{remove}, CallTo{"container/heap.Pop"}, CallTo{"delete(s.expiryByKey, *)"}},
		due, "ttl > 0", "time.Time.IsZero(now) == false", "len(s.expiryHeap) > 0")
	if K, ok := c33UniqueArg(c, "R5-expiry", expFn, remove, 1); ok {
		// B = the bucket the key's index entry is compared with; it must be the bucket whose age was tested
		B := c33ComparedWith(expFn, "s.expiryByKey["+K+"]")
		if B == "" {
			c.add("guard", "R5-expiry", c.P.Name(expFn)+"#bucket-membership-test", Violated, c.P.Pos(expFn.Pos()), "expireLocked no longer compares s.expiryByKey[key] with the due bucket before removing the route")
		} else {
			c.Guard("R5-expiry", expFn, OneOf{CallTo{remove}, CallTo{"delete(s.expiryByKey, *)"}}, "s.expiryByKey["+K+"] == "+B)
			c.Guard("R5-expiry", expFn, CallTo{remove}, "time.Time.Before(time.Time.Add(time.Unix("+B+".seenUnix, 0), ttl), now) == true")
			c33OriginIs(c, "R5-expiry", expFn, remove, 1, "next(range("+B+".keys))#1")
		}
		c.Guard("R5-expiry", expFn, CallTo{remove}, "s.active["+K+"]#1 == true")
		c33OriginIs(c, "R5-expiry", expFn, remove, 2, "s.active["+K+"]#0")
		c.CallShape("R5-expiry", expFn, "delete", "delete(s.expiryByKey, "+K+")", "delete(s.expiryBySeen, *.seenUnix)")
	}
	c33RetShape(c, "R5-expiry", c.Fn(c33P+"expiryBucketHeap.Less"), 0, "(h[i].seenUnix < h[j].seenUnix)")
	sched := c.Fn(c33P + "authoritySlot.scheduleExpiryLocked")
	seen := c33P + "routeSeenUnix(route)"
	c.StoreShape("R5-expiry", sched, "alloc:expiryBucket.seenUnix", seen)
	c.StoreShape("R5-expiry", sched, "s.expiryBySeen[*]", "alloc:expiryBucket")
	c.StoreShape("R5-expiry", sched, "s.expiryBySeen["+seen+"]", "alloc:expiryBucket")
	c.StoreShape("R5-expiry", sched, "s.expiryByKey[key]", "phi(s.expiryBySeen[*]|alloc:expiryBucket)")
	c.StoreShape("R5-expiry", sched, "phi(s.expiryBySeen[*]|alloc:expiryBucket).keys[key]", "zero:struct{}")
	c.Guard("R5-expiry", sched, CallTo{"container/heap.Push(s.expiryHeap, alloc:expiryBucket)"}, "s.expiryBySeen["+seen+"] == nil")
	c.Guard("R5-expiry", sched, AnyRet{}, "after: "+c33P+"authoritySlot.unscheduleExpiryLocked(s, key)")
	rsu := c.Fn(c33P + "routeSeenUnix")
	c33RetShape(c, "R5-expiry", rsu, 0, "route.LastSeenUnix", "route.ConnectedUnix")
	c.Guard("R5-expiry", rsu, Ret{Idx: 0, Glob: "route.ConnectedUnix"}, "route.LastSeenUnix == 0")
	up := c.Fn(upsert)
	c.FollowedBy("R5-expiry", up, StoreTo{Addr: "s.active[*]"}, CallTo{c33P + "authoritySlot.scheduleExpiryLocked(s, " + c33P + "makeRouteIdentityKey(route), route)"})
	c.StoreShape("R5-expiry", up, "s.active[*]", "route")
	c.StoreShape("R5-expiry", up, "s.active["+c33P+"makeRouteIdentityKey(route)]", "route")
	rm := c.Fn(remove)
	c.Guard("R5-expiry", rm, AnyRet{}, "after: "+c33P+"authoritySlot.unscheduleExpiryLocked(s, key)", "after: delete(s.active, key)")
	touchFn := c.Fn(touch)
	clamp := StoreTo{Addr: "route.LastSeenUnix"}
	if ins := instrsMatching(touchFn, clamp); touchFn != nil && len(ins) == 1 {
		E := Path(ins[0].(*ssa.Store).Val) // the existing route's LastSeenUnix (back-reference, named ‹active›.LastSeenUnix in the keys)
		base := strings.TrimSuffix(E, ".LastSeenUnix")
		refs := map[string]string{"active": base}
		if base == E {
			c.add("shape", "R5-expiry", c.P.Name(touchFn)+"#clamp-source", Violated, c.P.InstrPos(ins[0]), "LastSeenUnix is clamped to "+E+", not to the LastSeenUnix of the existing active route")
		} else {
			c33GuardOrPass(c, "R5-expiry", touchFn, CallTo{upsert}, "s.active[*]#1 == false || route.LastSeenUnix >= ‹active›.LastSeenUnix", clamp, refs)
			c33GuardRef(c, "R5-expiry", touchFn, clamp, refs, "route.LastSeenUnix < ‹active›.LastSeenUnix")
			// ‹active› is the route currently stored under the touched route's own identity key
			want := []string{"s.active[" + c33P + "makeRouteIdentityKey(route)]#0", "s.active[*]#0"}
			var srcBad []string
			srcs := instrsMatching(touchFn, StoreTo{Addr: base})
			if len(srcs) == 0 && globAny(want, base) {
				// ‹active› is a read-only local (or no local at all): it renders as the lookup itself
				c.add("shape", "R5-expiry", c.P.Name(touchFn)+"#clamp-source", Held, c.P.InstrPos(ins[0]), "LastSeenUnix is clamped to the LastSeenUnix of "+base)
				srcs = nil
				want = nil
			}
			for _, in := range srcs {
				if st, ok := in.(*ssa.Store); !ok || !globAny(want, Path(st.Val)) {
					srcBad = append(srcBad, c.P.InstrPos(in))
				}
			}
			switch construct := c.P.Name(touchFn) + "#clamp-source"; {
			case want == nil: // decided above
			case len(srcs) == 0:
				c.add("shape", "R5-expiry", construct, Undecided, c.P.InstrPos(ins[0]), "the value LastSeenUnix is clamped to ("+E+") is never assigned (vacuous)")
			case len(srcBad) > 0:
				c.add("shape", "R5-expiry", construct, Violated, srcBad[0], fmt.Sprintf("LastSeenUnix is clamped to %s, which is assigned something other than %v at %s", E, want, strings.Join(srcBad, ", ")))
			default:
				c.add("shape", "R5-expiry", construct, Held, c.P.InstrPos(srcs[0]), fmt.Sprintf("%d assignment(s) of the clamp source, all from %v", len(srcs), want))
			}
		}
	} else if touchFn != nil {
		c.add("shape", "R5-expiry", c.P.Name(touchFn)+"#clamp", Violated, c.P.Pos(touchFn.Pos()), fmt.Sprintf("expected exactly one store clamping route.LastSeenUnix up to the existing route's value, found %d", len(ins)))
	}
	c.Min("R1-confine", 17)
}

// ---------------------------------------------------------------------------
// helpers (C33-private)

// c33Origin looks through a local that is assigned exactly once: the value a load of it yields.
func c33Origin(v ssa.Value) ssa.Value {
	for i := 0; i < 4; i++ {
		u, ok := stripConv(v).(*ssa.UnOp)
		if !ok {
			return v
		}
		a, ok := u.X.(*ssa.Alloc)
		if !ok || a.Referrers() == nil {
			return v
		}
		var src ssa.Value
		n := 0
		for _, r := range *a.Referrers() {
			if st, ok := r.(*ssa.Store); ok && st.Addr == a {
				n++
				src = st.Val
			}
		}
		if n != 1 {
			return v
		}
		v = src
	}
	return v
}

func c33Calls(fn *ssa.Function, callee string) []*ssa.CallCommon {
	var out []*ssa.CallCommon
	for _, b := range fn.Blocks {
		for _, in := range b.Instrs {
			if ci, ok := in.(ssa.CallInstruction); ok && calleeName(ci.Common()) == callee {
				out = append(out, ci.Common())
			}
		}
	}
	return out
}

// c33UniqueArg: the rendering of argument idx (receiver = 0) shared by every call of callee in fn.
// Used as a back-reference so that rules do not depend on local variable names.
func c33UniqueArg(c *Ctx, rule string, fn *ssa.Function, callee string, idx int) (string, bool) {
	if fn == nil {
		return "", false
	}
	out := ""
	for _, cc := range c33Calls(fn, callee) {
		args := callArgs(cc)
		if idx >= len(args) {
			continue
		}
		p := Path(args[idx])
		if out != "" && out != p {
			c.add("shape", rule, fmt.Sprintf("%s#arg%d:%s", c.P.Name(fn), idx, callee), Violated, c.P.Pos(fn.Pos()), fmt.Sprintf("calls of %s pass different values (%s / %s)", callee, out, p))
			return "", false
		}
		out = p
	}
	if out == "" {
		c.add("shape", rule, fmt.Sprintf("%s#arg%d:%s", c.P.Name(fn), idx, callee), Undecided, c.P.Pos(fn.Pos()), "no call of "+callee+" found (vacuous)")
		return "", false
	}
	return out, true
}

// c33OriginIs: argument idx of every call of callee in fn is (possibly through a single-assignment
// local) a value rendering to one of globs.
func c33OriginIs(c *Ctx, rule string, fn *ssa.Function, callee string, idx int, globs ...string) {
	if fn == nil {
		return
	}
	var bad []string
	n := 0
	for _, cc := range c33Calls(fn, callee) {
		args := callArgs(cc)
		if idx >= len(args) {
			continue
		}
		n++
		direct, origin := Path(args[idx]), Path(c33Origin(args[idx]))
		// a field of a single-assignment struct local: resolve the base
		if fa, ok := c33FieldLoadBase(args[idx]); ok {
			origin = Path(c33Origin(fa.base)) + "." + fa.field
		}
		if !globAny(globs, origin) && !globAny(globs, direct) {
			bad = append(bad, origin)
		}
	}
	construct := fmt.Sprintf("%s#origin(arg%d of %s)∈%v", c.P.Name(fn), idx, callee, globs)
	switch {
	case n == 0:
		c.add("shape", rule, construct, Undecided, c.P.Pos(fn.Pos()), "no call found (vacuous)")
	case len(bad) > 0:
		c.add("shape", rule, construct, Violated, c.P.Pos(fn.Pos()), fmt.Sprintf("argument comes from %v, expected %v", bad, globs))
	default:
		c.add("shape", rule, construct, Held, c.P.Pos(fn.Pos()), fmt.Sprintf("%d call(s); argument %d originates from %v", n, idx, globs))
	}
}

type c33FieldOf struct {
	base  ssa.Value
	field string
}

// c33FieldLoadBase: v is a load of a field of a local struct variable: (load of that variable, field name).
func c33FieldLoadBase(v ssa.Value) (c33FieldOf, bool) {
	u, ok := stripConv(v).(*ssa.UnOp)
	if !ok {
		return c33FieldOf{}, false
	}
	fa, ok := u.X.(*ssa.FieldAddr)
	if !ok {
		return c33FieldOf{}, false
	}
	a, ok := fa.X.(*ssa.Alloc)
	if !ok {
		return c33FieldOf{}, false
	}
	// synthesize "load of the alloc" by reusing c33Origin on any existing load; fall back to the single store
	var src ssa.Value
	n := 0
	for _, r := range *a.Referrers() {
		if st, ok := r.(*ssa.Store); ok && st.Addr == a {
			n++
			src = st.Val
		}
	}
	if n != 1 {
		return c33FieldOf{}, false
	}
	return c33FieldOf{src, fieldName(fa.X.Type(), fa.Field)}, true
}

// c33MapKeysAre: every lookup / update / delete on the maps in fields fvs inside fn uses a key
// that is (possibly through a single-assignment local) the value rendering to want.
// label (if not empty) replaces want in the obligation key: want may mention a back-referenced local.
func c33MapKeysAre(c *Ctx, rule string, fn *ssa.Function, fvs []*types.Var, want, label string) {
	if fn == nil {
		return
	}
	n := 0
	var bad []string
	check := func(m, key ssa.Value, in ssa.Instruction) {
		for _, fv := range fvs {
			if fv != nil && c33IsFieldLoad(m, fv) {
				n++
				if got := Path(c33Origin(key)); got != want {
					bad = append(bad, fmt.Sprintf("%s[%s] at %s", fv.Name(), got, c.P.InstrPos(in)))
				}
			}
		}
	}
	for _, b := range fn.Blocks {
		for _, in := range b.Instrs {
			switch x := in.(type) {
			case *ssa.Lookup:
				check(x.X, x.Index, in)
			case *ssa.MapUpdate:
				check(x.Map, x.Key, in)
			case ssa.CallInstruction:
				cc := x.Common()
				if bi, ok := cc.Value.(*ssa.Builtin); ok && bi.Name() == "delete" && len(cc.Args) == 2 {
					check(cc.Args[0], cc.Args[1], in)
				}
			}
		}
	}
	if label == "" {
		label = want
	}
	construct := c.P.Name(fn) + "#sequence-map-keys=" + label
	switch {
	case n == 0:
		c.add("shape", rule, construct, Undecided, c.P.Pos(fn.Pos()), "no tombstoneSeq/ownerSeq access found (vacuous)")
	case len(bad) > 0:
		c.add("shape", rule, construct, Violated, c.P.Pos(fn.Pos()), fmt.Sprintf("sequence fence consulted/updated under a different key than %s: %s", want, strings.Join(bad, "; ")))
	default:
		c.add("shape", rule, construct, Held, c.P.Pos(fn.Pos()), fmt.Sprintf("%d tombstoneSeq/ownerSeq access(es), all keyed by %s", n, want))
	}
}

// c33ComparedWith: the rendering of the value that `lhs` is compared with (== / !=) in a branch of fn.
func c33ComparedWith(fn *ssa.Function, lhs string) string {
	if fn == nil {
		return ""
	}
	for _, b := range fn.Blocks {
		if len(b.Instrs) == 0 {
			continue
		}
		iff, ok := b.Instrs[len(b.Instrs)-1].(*ssa.If)
		if !ok {
			continue
		}
		bin, ok := iff.Cond.(*ssa.BinOp)
		if !ok || (bin.Op.String() != "==" && bin.Op.String() != "!=") {
			continue
		}
		if Path(bin.X) == lhs {
			return Path(bin.Y)
		}
		if Path(bin.Y) == lhs {
			return Path(bin.X)
		}
	}
	return ""
}

// c33SlotUse: the *authoritySlot value used by `in` (field access on it or passed to a call), or nil.
func c33SlotUse(in ssa.Instruction, slotT types.Type) ssa.Value {
	isSlotPtr := func(v ssa.Value) bool {
		_, ok := v.Type().Underlying().(*types.Pointer)
		return ok && sameNamed(v.Type(), slotT)
	}
	switch x := in.(type) {
	case *ssa.FieldAddr:
		if isSlotPtr(x.X) {
			return x.X
		}
	case ssa.CallInstruction:
		for _, a := range callArgs(x.Common()) {
			if isSlotPtr(a) {
				return a
			}
		}
	}
	return nil
}

func c33IsFieldLoad(v ssa.Value, fv *types.Var) bool {
	switch x := v.(type) {
	case *ssa.UnOp:
		fa, ok := x.X.(*ssa.FieldAddr)
		return ok && fieldVar(fa.X.Type(), fa.Field) == fv
	case *ssa.Field:
		return fieldVar(x.X.Type(), x.Field) == fv
	}
	return false
}

// c33MapOp classifies an instruction as a mutation of the map stored in struct field fv.
func c33MapOp(in ssa.Instruction, fv *types.Var) string {
	switch x := in.(type) {
	case *ssa.MapUpdate:
		if c33IsFieldLoad(x.Map, fv) {
			return "set"
		}
	case ssa.CallInstruction:
		cc := x.Common()
		if b, ok := cc.Value.(*ssa.Builtin); ok && len(cc.Args) > 0 && c33IsFieldLoad(cc.Args[0], fv) {
			switch b.Name() {
			case "delete", "clear":
				return b.Name()
			}
		}
	}
	return ""
}

// c33ConfineMap: the map in `field` is mutated (set/delete/clear) only by the functions
// allowed for that kind of mutation; a kind without an entry must not occur at all.
func c33ConfineMap(c *Ctx, rule, field string, allowed map[string][]string) {
	fv := c.Field(field)
	if fv == nil {
		return
	}
	where := map[string]int{}
	var bad []string
	badPos := ""
	for _, fn := range c.P.AllFuncs {
		for _, b := range fn.Blocks {
			for _, in := range b.Instrs {
				k := c33MapOp(in, fv)
				if k == "" {
					continue
				}
				name := c.P.Name(fn)
				where[k+"@"+name]++
				if !globAny(allowed[k], name) {
					bad = append(bad, fmt.Sprintf("%s in %s at %s", k, name, c.P.InstrPos(in)))
					if badPos == "" {
						badPos = c.P.InstrPos(in)
					}
				}
			}
		}
	}
	construct := "map-mutators:" + field
	var kinds []string
	for k, v := range allowed {
		kinds = append(kinds, k+"∈"+strings.Join(v, ","))
		for _, fn := range v {
			if where[k+"@"+fn] == 0 {
				bad = append(bad, fmt.Sprintf("enumerated %s site %s no longer mutates the map (stale table)", k, fn))
			}
		}
	}
	sort.Strings(kinds)
	if len(bad) > 0 {
		c.add("confine", rule, construct, Violated, badPos, fmt.Sprintf("map %s is mutated outside its enumerated sites [%s]: %s", field, strings.Join(kinds, "; "), strings.Join(bad, "; ")))
		return
	}
	c.add("confine", rule, construct, Held, "", fmt.Sprintf("mutations of %s only at the enumerated sites: %s", field, countsString(where)))
}

// c33MonoMap: every element store m[k] = v into the map field is reachable only
// through an edge establishing v >= m[k] (same map value and key renderings), i.e. elements never decrease.
func c33MonoMap(c *Ctx, rule, field string, min int) {
	fv := c.Field(field)
	if fv == nil {
		return
	}
	n := 0
	for _, fn := range c.P.AllFuncs {
		for _, b := range fn.Blocks {
			for _, in := range b.Instrs {
				mu, ok := in.(*ssa.MapUpdate)
				if !ok || !c33IsFieldLoad(mu.Map, fv) {
					continue
				}
				n++
				name := c.P.Name(fn)
				c.FuncsAnalysed[name] = true
				elem := Path(mu.Map) + "[" + Path(mu.Key) + "]"
				val := Path(mu.Value)
				construct := fmt.Sprintf("%s@%s#%s=%s", field, name, elem, val)
				g := guardSpec{atoms: []AtomSpec{{L: val, Op: ">=", R: elem}}}
				removed, descr := guardEdges(fn, g)
				c.EdgesRemoved += len(removed)
				limit := reachUnguarded(fn, removed, nil)
				if lim, ok := limit[b]; ok && indexIn(b, in) < lim {
					c.add("mono", rule, construct, Violated, c.P.InstrPos(in),
						fmt.Sprintf("store %s = %s in %s is reachable without %s >= %s: the fence element could go down", elem, val, name, val, elem))
					continue
				}
				c.add("mono", rule, construct, Held, c.P.InstrPos(in), "store dominated by "+strings.Join(dedup(descr), " / "))
			}
		}
	}
	if n < min {
		c.add("vacuity", rule, "stores:"+field, Undecided, "", fmt.Sprintf("%d element store(s) found, hand-confirmed minimum %d", n, min))
	}
}

// c33RetShape: every return of fn (outside the recover block) has result idx rendering to one of globs.
func c33RetShape(c *Ctx, rule string, fn *ssa.Function, idx int, globs ...string) {
	if fn == nil {
		return
	}
	name := c.P.Name(fn)
	n := 0
	var bad []string
	for _, in := range instrsMatching(fn, AnyRet{}) {
		ret := in.(*ssa.Return)
		if idx >= len(ret.Results) {
			continue
		}
		n++
		if s := Path(retOperand(ret, idx)); !globAny(globs, s) {
			bad = append(bad, s+" at "+c.P.InstrPos(in))
		}
	}
	construct := fmt.Sprintf("%s#retshape[%d]", name, idx)
	switch {
	case n == 0:
		c.add("shape", rule, construct, Undecided, c.P.Pos(fn.Pos()), "no return found (vacuous)")
	case len(bad) > 0:
		c.add("shape", rule, construct, Violated, c.P.Pos(fn.Pos()), fmt.Sprintf("%s returns a value outside %v: %s", name, globs, strings.Join(bad, "; ")))
	default:
		c.add("shape", rule, construct, Held, c.P.Pos(fn.Pos()), fmt.Sprintf("%d return(s), result %d always one of %v", n, idx, globs))
	}
}

// c33OnlyStoresTo: every store in fn goes to an address matching one of addrGlobs.
func c33OnlyStoresTo(c *Ctx, rule string, fn *ssa.Function, addrGlobs ...string) {
	if fn == nil {
		return
	}
	name := c.P.Name(fn)
	var bad []string
	n := 0
	for _, b := range fn.Blocks {
		for _, in := range b.Instrs {
			var addr string
			switch x := in.(type) {
			case *ssa.Store:
				addr = Path(x.Addr)
			case *ssa.MapUpdate:
				addr = Path(x.Map) + "[" + Path(x.Key) + "]"
			default:
				continue
			}
			n++
			if !globAny(addrGlobs, addr) {
				bad = append(bad, addr+" at "+c.P.InstrPos(in))
			}
		}
	}
	construct := name + "#stores-only:" + strings.Join(addrGlobs, ",")
	if len(bad) > 0 {
		c.add("shape", rule, construct, Violated, c.P.Pos(fn.Pos()), fmt.Sprintf("%s writes outside %v: %s", name, addrGlobs, strings.Join(bad, "; ")))
		return
	}
	c.add("shape", rule, construct, Held, c.P.Pos(fn.Pos()), fmt.Sprintf("%d store(s), all to %v", n, addrGlobs))
}

// c33MapRanges: every `range` over a map in the loaded presence package is an enumerated
// site (function → why its iteration order cannot leak); a new one fails.
func c33MapRanges(c *Ctx, rule string, table map[string]string) {
	var fns []*ssa.Function
	for _, fn := range c.P.AllFuncs {
		if strings.HasPrefix(c.P.Name(fn), c33P) {
			fns = append(fns, fn)
		}
	}
	c.MapRanges(rule, fns, table, nil, []string{c33P + "sortRoutes"})
}

// c33SortedReturn: every return of fn whose result idx is not nil returns a value that
// was passed (SSA identity, through a local's load) to sortCallee on every path from the entry.
func c33SortedReturn(c *Ctx, rule string, fn *ssa.Function, idx int, sortCallee string) {
	if fn == nil {
		return
	}
	name := c.P.Name(fn)
	construct := fmt.Sprintf("%s#sorted-return[%d]:%s", name, idx, sortCallee)
	// resolve a value to its identity: loads of a local alloc count as the alloc itself
	ident := func(v ssa.Value) ssa.Value {
		if u, ok := v.(*ssa.UnOp); ok {
			if a, ok := u.X.(*ssa.Alloc); ok {
				return a
			}
		}
		return v
	}
	sortedVals := map[ssa.Value][]ssa.Instruction{}
	for _, b := range fn.Blocks {
		for _, in := range b.Instrs {
			call, ok := in.(*ssa.Call)
			if !ok || calleeName(&call.Call) != sortCallee || len(call.Call.Args) == 0 {
				continue
			}
			a := ident(stripConv(c33StripIface(call.Call.Args[0])))
			sortedVals[a] = append(sortedVals[a], in)
		}
	}
	n := 0
	var bad []string
	for _, in := range instrsMatching(fn, AnyRet{}) {
		ret := in.(*ssa.Return)
		if idx >= len(ret.Results) {
			continue
		}
		v := ret.Results[idx]
		if k, ok := v.(*ssa.Const); ok && k.Value == nil {
			continue
		}
		n++
		calls := sortedVals[ident(stripConv(v))]
		if len(calls) == 0 {
			bad = append(bad, "returned value "+Path(v)+" is never passed to "+sortCallee+" at "+c.P.InstrPos(in))
			continue
		}
		// must-pass: remove nothing, barrier = the sort calls on this value
		barrier := map[ssa.Instruction]bool{}
		for _, sc := range calls {
			barrier[sc] = true
		}
		if c33ReachWithout(fn, in, barrier) {
			bad = append(bad, "a path reaches the return at "+c.P.InstrPos(in)+" without sorting the returned slice")
		}
	}
	switch {
	case n == 0:
		c.add("determ", rule, construct, Undecided, c.P.Pos(fn.Pos()), "no non-nil return (vacuous)")
	case len(bad) > 0:
		c.add("determ", rule, construct, Violated, c.P.Pos(fn.Pos()), strings.Join(bad, "; "))
	default:
		c.add("determ", rule, construct, Held, c.P.Pos(fn.Pos()), fmt.Sprintf("%d non-nil return(s), each returns the very slice passed to %s on every path", n, sortCallee))
	}
}

func c33StripIface(v ssa.Value) ssa.Value {
	if mi, ok := v.(*ssa.MakeInterface); ok {
		return mi.X
	}
	return v
}

// c33ReachWithout: can `target` be reached from the entry without executing a barrier instruction?
func c33ReachWithout(fn *ssa.Function, target ssa.Instruction, barrier map[ssa.Instruction]bool) bool {
	seen := map[*ssa.BasicBlock]bool{fn.Blocks[0]: true}
	work := []*ssa.BasicBlock{fn.Blocks[0]}
	for len(work) > 0 {
		b := work[len(work)-1]
		work = work[:len(work)-1]
		blocked := false
		for _, in := range b.Instrs {
			if in == target {
				return true
			}
			if barrier[in] {
				blocked = true
				break
			}
		}
		if blocked {
			continue
		}
		for _, s := range b.Succs {
			if !seen[s] {
				seen[s] = true
				work = append(work, s)
			}
		}
	}
	return false
}

// c33GuardOrPass: every instruction matching eff is reachable only through an edge
// establishing guard, or after executing an instruction matching pass (e.g. a clamping store).
// ‹name› placeholders in guard are back-references resolved through refs (see c33GuardRef).
func c33GuardOrPass(c *Ctx, rule string, fn *ssa.Function, eff Effect, guard string, pass Effect, refs map[string]string) {
	if fn == nil {
		return
	}
	name := c.P.Name(fn)
	construct := name + "#" + eff.String() + "⇐" + guard + " || pass: " + pass.String()
	guard = c33Deref(guard, refs)
	effs := instrsMatching(fn, eff)
	if len(effs) == 0 {
		c.add("guard", rule, construct, Undecided, c.P.Pos(fn.Pos()), "no instruction matches the effect (vacuous)")
		return
	}
	removed, descr := guardEdges(fn, parseGuard(guard))
	c.EdgesRemoved += len(removed)
	passes := instrsMatching(fn, pass)
	barrier := map[ssa.Instruction]bool{}
	for _, p := range passes {
		barrier[p] = true
	}
	// reachability with removed edges and barrier instructions
	type lim = int
	limit := map[*ssa.BasicBlock]lim{}
	seen := map[*ssa.BasicBlock]bool{fn.Blocks[0]: true}
	work := []*ssa.BasicBlock{fn.Blocks[0]}
	for len(work) > 0 {
		b := work[len(work)-1]
		work = work[:len(work)-1]
		cut := -1
		for i, in := range b.Instrs {
			if barrier[in] {
				cut = i
				break
			}
		}
		if cut >= 0 {
			limit[b] = cut
			continue
		}
		limit[b] = len(b.Instrs)
		for si, s := range b.Succs {
			if removed[edge{b, si}] || seen[s] {
				continue
			}
			seen[s] = true
			work = append(work, s)
		}
	}
	var bad []string
	for _, e := range effs {
		if l, ok := limit[e.Block()]; ok && indexIn(e.Block(), e) < l {
			bad = append(bad, c.P.InstrPos(e))
		}
	}
	if len(bad) > 0 {
		c.add("guard", rule, construct, Violated, bad[0], fmt.Sprintf("%q in %s is reachable without %q and without passing %q (at %s)", eff.String(), name, guard, pass.String(), strings.Join(bad, ", ")))
		return
	}
	c.add("guard", rule, construct, Held, c.P.InstrPos(effs[0]), fmt.Sprintf("%d effect site(s); %d guard edge(s) [%s], %d pass instruction(s); no unguarded path", len(effs), len(removed), strings.Join(dedup(descr), "; "), len(passes)))
}

func c33Deref(s string, refs map[string]string) string {
	for k, v := range refs {
		s = strings.ReplaceAll(s, "‹"+k+"›", v)
	}
	return s
}

// c33GuardRef is c.Guard for guards that mention values the caller resolved structurally (call
// arguments, stored values: SSA identity). A guard names such a value ‹name›; for matching the
// placeholder is replaced by refs[name] (the value's rendering in fn), the obligation key keeps the
// placeholder. The rule therefore does not depend on the identifier of any local variable.
func c33GuardRef(c *Ctx, rule string, fn *ssa.Function, eff Effect, refs map[string]string, guards ...string) {
	if fn == nil {
		return
	}
	name := c.P.Name(fn)
	c.FuncsAnalysed[name] = true
	effs := instrsMatching(fn, eff)
	if len(effs) == 0 {
		c.add("guard", rule, name+"#"+eff.String(), Undecided, c.P.Pos(fn.Pos()), "no instruction matches the effect (vacuous)")
		return
	}
	for _, gs := range guards {
		construct := name + "#" + eff.String() + "⇐" + gs
		real := c33Deref(gs, refs)
		if strings.Contains(real, "‹") {
			c.add("guard", rule, construct, Undecided, c.P.InstrPos(effs[0]), "guard uses a back-reference that was not resolved")
			continue
		}
		g := parseGuard(real)
		removed, descr := guardEdges(fn, g)
		c.EdgesRemoved += len(removed)
		limit := reachUnguarded(fn, removed, g.afters)
		var bad []string
		for _, e := range effs {
			if lim, ok := limit[e.Block()]; ok && indexIn(e.Block(), e) < lim {
				bad = append(bad, c.P.InstrPos(e))
			}
		}
		if len(bad) > 0 {
			c.add("guard", rule, construct, Violated, bad[0], fmt.Sprintf("effect %q in %s reachable without guard %q at %s", eff.String(), name, real, strings.Join(bad, ", ")))
			continue
		}
		c.add("guard", rule, construct, Held, c.P.InstrPos(effs[0]), fmt.Sprintf("%d effect site(s); %d guard edge(s) removed [%s]; no unguarded path from entry (back-references %v)", len(effs), len(removed), strings.Join(dedup(descr), "; "), refs))
	}
}

// c33SlotOrigin: the shard (rendered path) an authority-slot pointer was obtained from.
func c33SlotOrigin(v ssa.Value) (string, bool) {
	switch x := v.(type) {
	case *ssa.Extract:
		switch t := x.Tuple.(type) {
		case *ssa.Call:
			if calleeName(&t.Call) == c33P+"Directory.validateTargetLocked" && len(t.Call.Args) >= 2 {
				return Path(t.Call.Args[1]), true
			}
		case *ssa.Next: // for _, slot := range shard.slots
			if r, ok := t.Iter.(*ssa.Range); ok {
				return c33SlotsBase(r.X)
			}
		case *ssa.Lookup:
			return c33SlotsBase(t.X)
		}
	case *ssa.Lookup:
		return c33SlotsBase(x.X)
	case *ssa.Phi:
		var out string
		for _, e := range x.Edges {
			s, ok := c33SlotOrigin(e)
			if !ok || (out != "" && s != out) {
				return "", false
			}
			out = s
		}
		return out, out != ""
	}
	return "", false
}

func c33SlotsBase(m ssa.Value) (string, bool) {
	if u, ok := m.(*ssa.UnOp); ok {
		if fa, ok := u.X.(*ssa.FieldAddr); ok && fieldName(fa.X.Type(), fa.Field) == "slots" {
			return Path(fa.X), true
		}
	}
	return "", false
}

// c33SlotAccessLocked: outside the authoritySlot methods (which run under their caller's
// lock) every use of an authority slot happens while the mutex of the shard the slot was
// taken from is held; mutations (field writes, calls of non-read-only slot methods) need the write lock.
func c33SlotAccessLocked(c *Ctx, rule string, slotT types.Type, readOnly map[string]bool) {
	n, funcs := 0, 0
	var bad []string
	badPos := ""
	for _, fn := range c.P.AllFuncs {
		name := c.P.Name(fn)
		if strings.HasPrefix(name, c33P+"authoritySlot.") || name == c33P+"newAuthoritySlot" {
			continue
		}
		var uses []ssa.Instruction
		for _, b := range fn.Blocks {
			for _, in := range b.Instrs {
				if c33SlotUse(in, slotT) != nil {
					uses = append(uses, in)
				}
			}
		}
		if len(uses) == 0 {
			continue
		}
		funcs++
		c.FuncsAnalysed[name] = true
		entry := lockState{}
		if name == c33P+"Directory.validateTargetLocked" {
			entry["shard.mu"] = 'R' // caller holds at least the read lock (call sites decided by the lockset rule)
		}
		held := heldAt(fn, entry)
		for _, in := range uses {
			n++
			v := c33SlotUse(in, slotT)
			origin, ok := c33SlotOrigin(v)
			if !ok {
				bad = append(bad, fmt.Sprintf("%s: cannot tell which shard slot %s came from at %s", name, Path(v), c.P.InstrPos(in)))
				continue
			}
			write := false
			switch x := in.(type) {
			case *ssa.FieldAddr:
				write = isWriteUse(x)
			case ssa.CallInstruction:
				write = !readOnly[calleeName(x.Common())]
			}
			mode, ok := held[in][origin+".mu"]
			switch {
			case !ok:
				bad = append(bad, fmt.Sprintf("%s uses slot %s without holding %s.mu (held: %s) at %s", name, Path(v), origin, lsString(held[in]), c.P.InstrPos(in)))
			case write && mode != 'W':
				bad = append(bad, fmt.Sprintf("%s mutates slot %s under a read lock on %s.mu at %s", name, Path(v), origin, c.P.InstrPos(in)))
			}
			if len(bad) > 0 && badPos == "" {
				badPos = c.P.InstrPos(in)
			}
		}
	}
	construct := "slot-access-under-shard-lock"
	switch {
	case len(bad) > 0:
		c.add("lockset", rule, construct, Violated, badPos, strings.Join(bad, "; "))
	case n < 20:
		c.add("lockset", rule, construct, Undecided, "", fmt.Sprintf("only %d slot uses found outside the slot methods (hand-confirmed ≥ 20)", n))
	default:
		c.add("lockset", rule, construct, Held, "", fmt.Sprintf("%d slot use(s) in %d function(s), each with the owning shard's mutex held in the required mode", n, funcs))
	}
}
