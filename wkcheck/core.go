package main

import (
	"encoding/json"
	"fmt"
	"os"
	"path/filepath"
	"sort"
	"strings"
	"time"

	"golang.org/x/tools/go/ssa"
)

type Status string

const (
	Held      Status = "held"
	Exception Status = "exception"
	Violated  Status = "violated"
	Undecided Status = "undecided"
)

// Oblig is one decided rule instance. Key = Prop/Rule/Construct — never a line number.
type Oblig struct {
	Prop      string `json:"property"`
	Rule      string `json:"rule"`
	Construct string `json:"construct"`
	Status    Status `json:"status"`
	Pos       string `json:"pos,omitempty"`
	Detail    string `json:"detail,omitempty"`
	Engine    string `json:"engine,omitempty"`
}

func (o Oblig) Key() string { return o.Prop + "/" + o.Rule + "/" + o.Construct }

type PropSpec struct {
	ID        string
	Pkgs      []string // package patterns analysed in the quick tier
	Technique string   // a few words naming the deciding method (MANIFEST technique)
	Explain   string   // clause decided / not decided (goes to evidence.coverage.explanation)
	Assume    []string
	Run       func(c *Ctx)
	Mutants   []Mutant // stored breaking edits (self-test, thorough tier)
}

// Mutant is a textual edit applied through packages.Config.Overlay: the
// variant must still type-check and the named rule must report a violation.
type Mutant struct {
	Name   string
	File   string // relative to /repo
	Old    string
	New    string
	Expect string // glob on obligation key that must become violated/undecided; "!silent" = a behaviour-preserving edit on which NO obligation may fail
	Nth    int    // which occurrence of Old (0 = must be unique)
}

var registry = map[string]*PropSpec{}

func register(p *PropSpec) { registry[p.ID] = p }

type Ctx struct {
	Prop   string
	Tier   string
	P      *Program
	Obligs []Oblig
	// statistics
	FuncsAnalysed map[string]bool
	CallSites     int
	EdgesRemoved  int
	seenKeys      map[string]int
	minCounts     []minCount
	cidx          *callIndex
}

type minCount struct {
	rule string
	min  int
}

func newCtx(prop, tier string, p *Program) *Ctx {
	return &Ctx{Prop: prop, Tier: tier, P: p, FuncsAnalysed: map[string]bool{}, seenKeys: map[string]int{}}
}

func (c *Ctx) add(engine, rule, construct string, st Status, pos, detail string) {
	o := Oblig{Prop: c.Prop, Rule: rule, Construct: construct, Status: st, Pos: pos, Detail: detail, Engine: engine}
	k := o.Key()
	c.seenKeys[k]++
	if n := c.seenKeys[k]; n > 1 {
		o.Construct = fmt.Sprintf("%s~%d", construct, n)
	}
	c.Obligs = append(c.Obligs, o)
}

// Min asserts that rule `rule` produced at least n obligations (anti-vacuity).
func (c *Ctx) Min(rule string, n int) { c.minCounts = append(c.minCounts, minCount{rule, n}) }

func (c *Ctx) finalize() {
	for _, mc := range c.minCounts {
		n := 0
		for _, o := range c.Obligs {
			if o.Rule == mc.rule || strings.HasPrefix(o.Rule, mc.rule+".") {
				n++
			}
		}
		// the hand-confirmed count is an anti-vacuity floor, not an exact census: folding two identical expressions
		// into one temporary, or merging two guards, legitimately removes an instance or two. The rule is reported
		// as (near-)vacuous when fewer than two thirds of the confirmed instances are left.
		if floor := (2*mc.min + 2) / 3; n < floor {
			c.add("vacuity", mc.rule, "min-instances", Undecided, "", fmt.Sprintf("rule matched %d instances, hand-confirmed count is %d (floor %d): anchors moved or rule went vacuous", n, mc.min, floor))
		}
	}
}

// Fn resolves a function by short name; an unresolved anchor is an undecided obligation.
func (c *Ctx) Fn(name string) *ssa.Function {
	fn := c.P.Funcs[name]
	if fn == nil {
		c.add("anchor", "anchor", name, Undecided, "", "anchored function not found in the loaded program (renamed/moved? update the rule table)")
		return nil
	}
	c.FuncsAnalysed[name] = true
	return fn
}

// Fns resolves a glob to ≥1 functions.
func (c *Ctx) Fns(pat string) []*ssa.Function {
	fns := c.P.FuncsMatching(pat)
	if len(fns) == 0 {
		c.add("anchor", "anchor", pat, Undecided, "", "no function matches anchored pattern")
	}
	for _, f := range fns {
		c.FuncsAnalysed[c.P.Name(f)] = true
	}
	return fns
}

// ---------------------------------------------------------------------------
// Evidence / findings / output

type KnownFinding struct {
	Property  string `json:"property"`
	Key       string `json:"key"`
	WhatFails string `json:"what_fails"`
	Status    string `json:"status"` // known | fixed
	Commit    string `json:"commit,omitempty"`
}

func loadKnownFindings(verifDir string) []KnownFinding {
	var out []KnownFinding
	b, err := os.ReadFile(filepath.Join(verifDir, "known_findings.json"))
	if err != nil {
		return nil
	}
	var doc struct {
		Findings []KnownFinding `json:"findings"`
	}
	if json.Unmarshal(b, &doc) == nil {
		out = doc.Findings
	}
	return out
}

type runResult struct {
	Prop       string
	Tier       string
	Obligs     []Oblig
	Violations []Oblig
	Known      []Oblig
	Wall       float64
	Ctx        *Ctx
	LoadErr    error
	SelfTest   []selfTestResult
}

func writeEvidence(verifDir string, spec *PropSpec, r *runResult, seed int) error {
	counts := map[Status]int{}
	rules := map[string]bool{}
	distinct := map[string]bool{}
	engines := map[string]int{}
	for _, o := range r.Obligs {
		counts[o.Status]++
		rules[o.Rule] = true
		distinct[o.Rule+"|"+strings.SplitN(o.Construct, "#", 2)[0]] = true
		engines[o.Engine]++
	}
	var samples []any
	step := 1
	if len(r.Obligs) > 24 {
		step = len(r.Obligs) / 24
	}
	for i := 0; i < len(r.Obligs); i += step {
		o := r.Obligs[i]
		samples = append(samples, map[string]any{"key": o.Key(), "status": o.Status, "pos": o.Pos, "detail": o.Detail, "engine": o.Engine})
		if len(samples) >= 30 {
			break
		}
	}
	for _, o := range r.Violations {
		samples = append(samples, map[string]any{"key": o.Key(), "status": o.Status, "pos": o.Pos, "detail": o.Detail, "engine": o.Engine})
	}
	if len(samples) == 0 {
		samples = append(samples, map[string]any{"note": "no obligations were generated", "load_error": fmt.Sprint(r.LoadErr)})
	}
	var fnames []string
	pkgN := 0
	patterns := []string{}
	callSites, edges := 0, 0
	if r.Ctx != nil {
		for f := range r.Ctx.FuncsAnalysed {
			fnames = append(fnames, f)
		}
		sort.Strings(fnames)
		if r.Ctx.P != nil {
			pkgN = len(r.Ctx.P.Pkgs)
			patterns = r.Ctx.P.Patterns
		}
		callSites, edges = r.Ctx.CallSites, r.Ctx.EdgesRemoved
	}
	var ruleNames []string
	for k := range rules {
		ruleNames = append(ruleNames, k)
	}
	sort.Strings(ruleNames)
	cov := map[string]any{
		"explanation":         spec.Explain,
		"evaluations":         len(r.Obligs),
		"distinct_nontrivial": len(distinct),
		"rule":                "one evaluation = one rule instance (obligation) decided on the SSA/CFG of /repo's current working tree, keyed property/rule/construct; distinct_nontrivial counts distinct (rule, function-or-field construct) pairs; anchors, vacuity and load failures count as undecided and fail the check",
		"samples":             samples,
		"obligations":         len(r.Obligs),
		"discharged":          counts[Held] + counts[Exception],
		"held":                counts[Held],
		"exceptions":          counts[Exception],
		"violated":            counts[Violated],
		"undecided":           counts[Undecided],
		"known_findings":      len(r.Known),
		"rules":               ruleNames,
		"engines":             engines,
		"packages_loaded":     pkgN,
		"package_patterns":    patterns,
		"functions_analysed":  fnames,
		"call_sites_examined": callSites,
		"guard_edges_removed": edges,
		"checker_cmd":         fmt.Sprintf("bin/wkcheck --property %s --tier %s", r.Prop, r.Tier),
		"exhaustive":          false,
	}
	if len(r.SelfTest) > 0 {
		cov["self_test_mutants"] = r.SelfTest
	}
	if r.LoadErr != nil {
		cov["load_error"] = r.LoadErr.Error()
	}
	assume := append([]string{
		"go/types + go/ssa (x/tools v0.50.0) model the program faithfully; dependencies are type-checked from export data",
		"edge-dominance is decided per function on the SSA CFG; a guard taken in an earlier loop iteration counts for a later one",
		"the rule tables (anchored functions, guard operand shapes, exception lists) were confirmed by reading the code at the pinned commit",
	}, spec.Assume...)
	ev := map[string]any{
		"property_id": r.Prop,
		"tier":        r.Tier,
		"seed":        seed,
		"level":       "other",
		"coverage":    cov,
		"assumptions": assume,
		"wall_s":      r.Wall,
		"violations":  len(r.Violations),
	}
	b, err := json.MarshalIndent(ev, "", " ")
	if err != nil {
		return err
	}
	dir := filepath.Join(verifDir, "evidence")
	if err := os.MkdirAll(dir, 0o755); err != nil {
		return err
	}
	return os.WriteFile(filepath.Join(dir, r.Prop+".json"), append(b, '\n'), 0o644)
}

// runProperty loads what the property needs and decides all its obligations.
func runProperty(spec *PropSpec, tier string, overlay map[string][]byte) *runResult {
	t0 := time.Now()
	r := &runResult{Prop: spec.ID, Tier: tier}
	pats := spec.Pkgs
	if tier == "thorough" {
		pats = []string{"./..."}
	}
	p, err := LoadProgram(pats, overlay)
	if err != nil {
		r.LoadErr = err
		r.Obligs = []Oblig{{Prop: spec.ID, Rule: "load", Construct: "program", Status: Undecided, Detail: err.Error(), Engine: "load"}}
		r.Wall = time.Since(t0).Seconds()
		return r
	}
	c := newCtx(spec.ID, tier, p)
	defer dropThreadInfos(p.SSA)
	func() {
		defer func() {
			if x := recover(); x != nil {
				c.add("panic", "analyser", "panic", Undecided, "", fmt.Sprintf("analyser panic: %v", x))
			}
		}()
		spec.Run(c)
		c.finalize()
	}()
	r.Ctx = c
	r.Obligs = c.Obligs
	sort.SliceStable(r.Obligs, func(i, j int) bool { return r.Obligs[i].Key() < r.Obligs[j].Key() })
	r.Wall = time.Since(t0).Seconds()
	return r
}

func classify(r *runResult, known []KnownFinding) {
	r.Violations, r.Known = nil, nil
	for _, o := range r.Obligs {
		if o.Status != Violated && o.Status != Undecided {
			continue
		}
		matched := false
		if o.Status == Violated {
			for _, k := range known {
				if k.Status == "known" && k.Property == o.Prop && k.Key == o.Key() {
					matched = true
					o.Detail = k.WhatFails
					r.Known = append(r.Known, o)
					break
				}
			}
		}
		if !matched {
			r.Violations = append(r.Violations, o)
		}
	}
}

type ssaFunction = ssa.Function
