package main

import (
	"fmt"
	"go/token"
	"go/types"
	"sort"
	"strings"

	"golang.org/x/tools/go/ssa"
)

func init() {
	const core = "pkg/gateway/core/"
	register(&PropSpec{
		ID:        "C28",
		Pkgs:      []string{"./pkg/gateway/core", "./pkg/workqueue", "./internal/access/gateway"},
		Technique: "static analysis: path-sensitive typestate pairing (admission / reservation tokens, one ack per SEND), same-critical-section admission fence, SSA edge-dominance guards, depends-only slices (shard index, caller ctx) and call/field confinement",
		Explain: "Decides the structural clauses behind one-SENDACK-per-SEND in the gateway. (1) sendExecutor.submit tests closed and takes admitted.Add(1) in one admissionMu section, every `return false` after that releases exactly the tokens it holds (completeAdmission / consume / consumeShard) and `return true` keeps them; the mailbox handler releases the reservations and registers a deferred loop with one completeAdmission per item before dispatching; a refused SEND closes the session and a SEND is never also dispatched synchronously. " +
			"(2) drain raises closed under admissionMu before it starts the single waiter, closed is never reset, drained is closed only after admitted.Wait(), the mailbox is closed only after <-drained, and the caller's ctx of drain/DrainSends reaches nothing but the final select (a deadline cannot cancel admitted work). " +
			"(3) The shard index depends only on the session (id / conn id) and the shard count, one index value is used for reservation, mailbox hash and rollback, and the ShardedMailbox single-drain/FIFO rules of C37 hold. " +
			"(4) Ack indexing: batch items carry their batch index, reply token and frame; in Handler.OnSendBatch a completion slot is written at most once (index range + !ready), a sendack is written only for a ready head with context and frame taken at the same index and the head then advances, success requires every slot ready; handleSend writes at most one sendack and every non-error return passes it; the ack copies ClientSeq/ClientMsgNo from its SEND. " +
			"NOT decided: ack order and exactly-once as observable behaviour, the window slicing in dispatchMailboxBatch, session write-queue ordering, handler latency/timeouts, liveness of the drain.",
		Run: c28,
		Mutants: []Mutant{
			{Name: "submit-admit-outside-lock", File: core + "async_send.go", Old: "\te.admitted.Add(1)\n\te.admissionMu.Unlock()\n\tshard :=", New: "\te.admissionMu.Unlock()\n\te.admitted.Add(1)\n\tshard :=", Expect: "C28/R2-fence*"},
			{Name: "submit-reject-keeps-admission", File: core + "async_send.go", Old: "\tif !e.reserve() {\n\t\te.completeAdmission()\n\t\treturn false\n\t}", New: "\tif !e.reserve() {\n\t\treturn false\n\t}", Expect: "C28/R1-tokens*"},
			{Name: "submit-mailbox-error-keeps-shard", File: core + "async_send.go", Old: "\t\te.consumeShard(shard, 1)\n\t\te.consume(1)\n\t\te.completeAdmission()\n\t\treturn false", New: "\t\te.consume(1)\n\t\te.completeAdmission()\n\t\treturn false", Expect: "C28/R1-tokens*"},
			{Name: "submit-accept-despite-error", File: core + "async_send.go", Old: "\t\te.consumeShard(shard, 1)\n\t\te.consume(1)\n\t\te.completeAdmission()\n\t\treturn false\n\t}\n\treturn true", New: "\t\te.consumeShard(shard, 1)\n\t\te.consume(1)\n\t\te.completeAdmission()\n\t}\n\treturn true", Expect: "C28/R1-tokens*"},
			{Name: "handler-complete-not-deferred", File: core + "async_send.go", Old: "\tdefer func() {\n\t\tfor range batch.Items {\n\t\t\te.completeAdmission()\n\t\t}\n\t}()\n\te.dispatchMailboxBatch(batch.Items)", New: "\te.dispatchMailboxBatch(batch.Items)\n\tfor range batch.Items {\n\t\te.completeAdmission()\n\t}", Expect: "C28/R1-handler*"},
			{Name: "drain-close-flag-unlocked", File: core + "async_send.go", Old: "\te.admissionMu.Lock()\n\te.closed.Store(true)\n\te.admissionMu.Unlock()\n\te.drainOnce.Do", New: "\te.closed.Store(true)\n\te.drainOnce.Do", Expect: "C28/R2-fence*"},
			{Name: "drain-ctx-cancels-mailbox", File: core + "async_send.go", Old: "\tcase <-ctx.Done():\n\t\treturn ctx.Err()\n\t}\n}\n\nfunc (e *sendExecutor) completeAdmission()", New: "\tcase <-ctx.Done():\n\t\t_ = e.mailbox.Close(ctx)\n\t\treturn ctx.Err()\n\t}\n}\n\nfunc (e *sendExecutor) completeAdmission()", Expect: "C28/R3-*"},
			{Name: "close-mailbox-before-drained", File: core + "async_send.go", Old: "\t\t\t<-e.drained\n\t\t\t_ = e.mailbox.Close(context.Background())", New: "\t\t\t_ = e.mailbox.Close(context.Background())\n\t\t\t<-e.drained", Expect: "C28/R3-close*"},
			{Name: "drained-closed-before-wait", File: core + "async_send.go", Old: "\t\t\te.admitted.Wait()\n\t\t\tclose(e.drained)", New: "\t\t\tclose(e.drained)\n\t\t\te.admitted.Wait()", Expect: "C28/R3-close*"},
			{Name: "shard-by-channel", File: core + "server.go", Old: "func asyncSendShardIndex(state *sessionState, _ frame.Frame, shards int) int {\n\tif shards <= 1 {\n\t\treturn 0\n\t}\n", New: "func asyncSendShardIndex(state *sessionState, f frame.Frame, shards int) int {\n\tif shards <= 1 {\n\t\treturn 0\n\t}\n\tif send, ok := f.(*frame.SendPacket); ok && send != nil && len(send.ChannelID) > 0 {\n\t\treturn int(send.ChannelID[0]) % shards\n\t}\n", Expect: "C28/R4-shard*"},
			{Name: "refused-send-not-closed", File: core + "server.go", Old: "\ts.observeAsyncSendQueue(queue)\n\tstate.close(gatewaytypes.CloseReasonAsyncDispatchQueueFull, gatewaytypes.ErrAsyncDispatchQueueFull)", New: "\ts.observeAsyncSendQueue(queue)", Expect: "C28/R1-refused*"},
			{Name: "send-dispatched-twice", File: core + "server.go", Old: "\t\t\ts.dispatchSendFrameAsync(state, replyToken, send)\n\t\t\tcontinue\n", New: "\t\t\ts.dispatchSendFrameAsync(state, replyToken, send)\n", Expect: "C28/R1-refused*"},
			{Name: "batch-item-index-constant", File: core + "server.go", Old: "\t\t\tIndex:      i,\n", New: "\t\t\tIndex:      len(batch) - 1 - i,\n", Expect: "C28/R6-items*"},
			{Name: "ack-slot-rewritten", File: "internal/access/gateway/batch.go", Old: "if index < 0 || index >= len(completions) || completions[index].ready {", New: "if index < 0 || index >= len(completions) {", Expect: "C28/R6-ack*"},
			{Name: "ack-frame-from-other-index", File: "internal/access/gateway/batch.go", Old: "h.writeSendack(&contexts[head], items[head].Frame,", New: "h.writeSendack(&contexts[head], items[index].Frame,", Expect: "C28/R6-ack*"},
			{Name: "ack-unready-head-written", File: "internal/access/gateway/batch.go", Old: "for head := heads[key]; head >= 0 && completions[head].ready; head = heads[key] {", New: "for head := heads[key]; head >= 0; head = heads[key] {", Expect: "C28/R6-ack*"},
			{Name: "single-send-double-ack", File: "internal/access/gateway/handler.go", Old: "\t\th.logMissingRequestContext(ctx, pkt, sendackSourceSingleMissingRequestContext)\n\t\treturn h.writeSendack(", New: "\t\th.logMissingRequestContext(ctx, pkt, sendackSourceSingleMissingRequestContext)\n\t\t_ = h.writeSendack(ctx, pkt, message.SendResult{Reason: message.ReasonSystemError}, sendackSourceSingleMissingRequestContext, sendackErrorClassMissingRequestContext, sendTraceFields{})\n\t\treturn h.writeSendack(", Expect: "C28/R6-single*"},
		},
	})
}

// c28FieldCalls lists calls whose callee matches calleeGlob and whose receiver is the
// value loaded from the pointer field "pkg/path.T.F".
func (c *Ctx) c28FieldCalls(field, calleeGlob string) []callSite {
	var out []callSite
	for _, s := range c.callSites(calleeGlob) {
		args := s.in.Common().Args
		if len(args) == 0 {
			continue
		}
		u, ok := args[0].(*ssa.UnOp)
		if !ok || u.Op != token.MUL {
			continue
		}
		fa, ok := u.X.(*ssa.FieldAddr)
		if ok && c26IsField(fa, field) {
			out = append(out, s)
		}
	}
	return out
}

func (c *Ctx) c28ConfineFieldCalls(rule, field, calleeGlob string, min int, allowed ...string) {
	sites := c.c28FieldCalls(field, calleeGlob)
	construct := "callers:" + calleeGlob + "@" + field
	var bad []string
	where := map[string]int{}
	for _, s := range sites {
		name := c.P.Name(s.fn)
		where[name]++
		if !globAny(allowed, name) && !globAny(allowed, rootName(name)) {
			bad = append(bad, name+" at "+c.P.InstrPos(s.in))
		}
	}
	switch {
	case len(bad) > 0:
		c.add("confine", rule, construct, Violated, "", fmt.Sprintf("%s on %s is called outside %v: %s", calleeGlob, field, allowed, strings.Join(bad, "; ")))
	case len(sites) < min:
		c.add("confine", rule, construct, Undecided, "", fmt.Sprintf("%d call site(s), hand-confirmed minimum %d", len(sites), min))
	default:
		c.add("confine", rule, construct, Held, "", fmt.Sprintf("%d call site(s), all inside %v: %s", len(sites), allowed, countsString(where)))
	}
}

// c28CtxConfined: the parameter (a context.Context) is used only for nil tests and as the
// receiver of the listed methods; it is never passed to a call, stored, or captured.
func (c *Ctx) c28CtxConfined(rule string, fn *ssa.Function, param string, methods ...string) {
	if fn == nil {
		return
	}
	fname := c.P.Name(fn)
	construct := fname + "#ctx-confined:" + param
	var root ssa.Value
	for _, p := range fn.Params {
		if p.Name() == param {
			root = p
		}
	}
	if root == nil {
		c.add("cover", rule, construct, Undecided, c.P.Pos(fn.Pos()), "parameter "+param+" not found")
		return
	}
	var bad []string
	seen := map[ssa.Value]bool{}
	uses := 0
	var walk func(v ssa.Value)
	walk = func(v ssa.Value) {
		if seen[v] {
			return
		}
		seen[v] = true
		refs := v.Referrers()
		if refs == nil {
			return
		}
		for _, r := range *refs {
			switch x := r.(type) {
			case *ssa.DebugRef:
			case *ssa.Phi:
				walk(x)
			case *ssa.ChangeInterface:
				walk(x)
			case *ssa.BinOp:
				if x.Op != token.EQL && x.Op != token.NEQ {
					bad = append(bad, "used in "+Path(x)+" at "+c.P.InstrPos(r))
				}
			case *ssa.Store:
				if a, ok := x.Addr.(*ssa.Alloc); ok && x.Val == v {
					// spilled parameter / local copy: follow loads, refuse capture
					if ar := a.Referrers(); ar != nil {
						for _, rr := range *ar {
							switch y := rr.(type) {
							case *ssa.UnOp:
								walk(y)
							case *ssa.Store, *ssa.DebugRef:
							default:
								bad = append(bad, fmt.Sprintf("its variable escapes (%T) at %s", y, c.P.InstrPos(rr)))
							}
						}
					}
				} else {
					bad = append(bad, "stored to "+Path(x.Addr)+" at "+c.P.InstrPos(r))
				}
			case ssa.CallInstruction:
				cc := x.Common()
				if cc.IsInvoke() && cc.Value == v && globAny(methods, cc.Method.Name()) {
					uses++
					continue
				}
				bad = append(bad, "passed to "+calleeName(cc)+" at "+c.P.InstrPos(r))
			default:
				bad = append(bad, fmt.Sprintf("used by %T at %s", r, c.P.InstrPos(r)))
			}
		}
	}
	walk(root)
	if len(bad) > 0 {
		sort.Strings(bad)
		c.add("cover", rule, construct, Violated, c.P.Pos(fn.Pos()), fmt.Sprintf("caller context %s of %s reaches more than its own wait: %s", param, fname, strings.Join(bad, "; ")))
		return
	}
	if uses == 0 {
		c.add("cover", rule, construct, Undecided, c.P.Pos(fn.Pos()), "the context is never used (vacuous)")
		return
	}
	c.add("cover", rule, construct, Held, c.P.Pos(fn.Pos()), fmt.Sprintf("%s is only nil-tested and used as receiver of %v (%d call(s)); it is not passed on, stored or captured", param, methods, uses))
}

// c28DependsOnly: every branch condition and every returned value of fn is computed
// only from constants, the listed parameters (and fields/loads of them) and the listed callees.
func (c *Ctx) c28DependsOnly(rule string, fn *ssa.Function, params []string, callees []string) {
	if fn == nil {
		return
	}
	fname := c.P.Name(fn)
	construct := fname + "#depends-only:" + strings.Join(params, ",")
	var bad []string
	seen := map[ssa.Value]bool{}
	var walk func(v ssa.Value)
	walk = func(v ssa.Value) {
		if v == nil || seen[v] {
			return
		}
		seen[v] = true
		switch x := v.(type) {
		case *ssa.Const:
		case *ssa.Parameter:
			if !globAny(params, x.Name()) {
				bad = append(bad, "parameter "+x.Name())
			}
		case *ssa.Phi:
			for _, e := range x.Edges {
				walk(e)
			}
		case *ssa.BinOp:
			walk(x.X)
			walk(x.Y)
		case *ssa.UnOp:
			walk(x.X)
		case *ssa.FieldAddr:
			walk(x.X)
		case *ssa.Field:
			walk(x.X)
		case *ssa.Convert:
			walk(x.X)
		case *ssa.ChangeType:
			walk(x.X)
		case *ssa.Extract:
			walk(x.Tuple)
		case *ssa.Call:
			name := calleeName(&x.Call)
			if !globAny(callees, name) {
				bad = append(bad, "call "+name+" at "+c.P.InstrPos(x))
				return
			}
			for _, a := range callArgs(&x.Call) {
				walk(a)
			}
		default:
			bad = append(bad, fmt.Sprintf("%s (%T)", Path(v), v))
		}
	}
	nret := 0
	for _, b := range fn.Blocks {
		for _, in := range b.Instrs {
			switch x := in.(type) {
			case *ssa.If:
				walk(x.Cond)
			case *ssa.Return:
				nret++
				for _, r := range x.Results {
					walk(r)
				}
			case *ssa.Store, *ssa.MapUpdate, *ssa.Send, *ssa.Go, *ssa.Defer:
				bad = append(bad, fmt.Sprintf("side effect %T at %s", in, c.P.InstrPos(in)))
			}
		}
	}
	bad = dedupAll(bad)
	if len(bad) > 0 || nret == 0 {
		c.add("cover", rule, construct, Violated, c.P.Pos(fn.Pos()), fmt.Sprintf("%s depends on more than %v + %v: %s", fname, params, callees, strings.Join(bad, "; ")))
		return
	}
	c.add("cover", rule, construct, Held, c.P.Pos(fn.Pos()), fmt.Sprintf("all %d return(s) and every branch depend only on %v, constants and %v", nret, params, callees))
}

func c28(c *Ctx) {
	const G = "pkg/gateway/core"
	const E = G + ".sendExecutor"
	const MB = "pkg/workqueue.ShardedMailbox"
	submit := c.Fn(E + ".submit")
	drain := c.Fn(E + ".drain")
	drainWait := c.Fn(E + ".drain$1$1")
	handle := c.Fn(E + ".handleMailboxBatch")
	handleDefer := c.Fn(E + ".handleMailboxBatch$1")
	closeMB := c.Fn(E + ".closeMailboxAfterDrain$1$1")
	stop := c.Fn(E + ".stop")

	// ---- R2: admission fence
	load := CallTo{"sync/atomic.Bool.Load(e.closed)"}
	add := CallTo{"sync.WaitGroup.Add(e.admitted, 1)"}
	c.SameSection("R2-fence", submit, "e.admissionMu", load, add)
	c.Guard("R2-fence", submit, add, "!sync/atomic.Bool.Load(e.closed)")
	c.Guard("R2-fence", submit, CallTo{MB + ".SubmitHash"}, "!sync/atomic.Bool.Load(e.closed)", "after: sync.WaitGroup.Add(e.admitted, 1)")
	c.c26Held("R2-fence", drain, CallTo{"sync/atomic.Bool.Store(e.closed, true)"}, "e.admissionMu", 'W')
	sites := c.AtomicOps("R2-fence", E+".closed", []string{"Load", "Store"}, nil)
	for _, s := range sites {
		if s.method == "Store" && c.P.Name(s.fn) != E+".drain" {
			c.add("confine", "R2-fence", "closed.Store@"+c.P.Name(s.fn), Violated, c.P.InstrPos(s.call), "sendExecutor.closed is stored outside drain")
		}
	}
	c.CallShape("R2-fence", drain, "sync/atomic.Bool.Store", "sync/atomic.Bool.Store(e.closed, true)")
	c.c26MethodSites("R2-fence", E+".admitted", map[string][]string{
		"Add":  {E + ".submit"},
		"Done": {E + ".completeAdmission"},
		"Wait": {E + ".drain$1$1"},
	})

	// ---- R1: token pairing in submit
	const (
		tA = 1 << iota // admitted.Add(1) outstanding
		tQ             // global queue slot reserved
		tS             // shard slot reserved
	)
	c.c26Typestate("R1-tokens", "after admitted.Add(1): `return false` holds no token (completeAdmission / consume / consumeShard each exactly once for what was taken), `return true` keeps all three", c26TSpec{fn: submit,
		onEdge: func(st int, from *ssa.BasicBlock, succ int) int {
			if ok, val := c26CallEdge(from, succ, E+".reserve"); ok && val {
				if st&tQ != 0 {
					return c26Bad
				}
				return st | tQ
			}
			if ok, val := c26CallEdge(from, succ, E+".reserveShard"); ok && val {
				if st&tS != 0 {
					return c26Bad
				}
				return st | tS
			}
			return st
		},
		step: func(st int, in ssa.Instruction) int {
			take := func(bit int) int {
				if st&bit == 0 {
					return c26Bad
				}
				return st &^ bit
			}
			switch {
			case add.Match(in):
				if st&tA != 0 {
					return c26Bad
				}
				return st | tA
			case (CallTo{E + ".completeAdmission"}).Match(in):
				return take(tA)
			case (CallTo{E + ".consume"}).Match(in):
				return take(tQ)
			case (CallTo{E + ".consumeShard"}).Match(in):
				return take(tS)
			}
			return st
		},
		exit: func(st int, ret *ssa.Return) bool {
			if (Ret{0, "true"}).Match(ret) {
				return st != tA|tQ|tS
			}
			return st != 0
		},
	}, "tokens balanced on every exit")
	c.Guard("R1-tokens", submit, Ret{0, "true"}, MB+".SubmitHash(*) == nil")
	shardExpr := G + ".asyncSendShardIndex(state, send, e.shards)"
	c.CallShape("R1-tokens", submit, G+".asyncSendShardIndex", shardExpr)
	if submit != nil {
		n := len(instrsMatching(submit, CallTo{G + ".asyncSendShardIndex"}))
		construct := c.P.Name(submit) + "#one-shard-index"
		if n == 1 {
			c.add("shape", "R1-tokens", construct, Held, c.P.Pos(submit.Pos()), "exactly one asyncSendShardIndex call: equal renderings below denote one SSA value")
		} else {
			c.add("shape", "R1-tokens", construct, Violated, c.P.Pos(submit.Pos()), fmt.Sprintf("expected exactly one asyncSendShardIndex call in submit, found %d (reservation, mailbox hash and rollback could use different shards)", n))
		}
	}
	c.CallShape("R1-tokens", submit, E+".reserveShard", E+".reserveShard(e, "+shardExpr+")")
	c.CallShape("R1-tokens", submit, E+".consumeShard", E+".consumeShard(e, "+shardExpr+", 1)")
	c.CallShape("R1-tokens", submit, E+".consume", E+".consume(e, 1)")
	c.CallShape("R1-tokens", submit, MB+".SubmitHash", MB+".SubmitHash(e.mailbox, *, "+shardExpr+", *)")
	c.StoreShape("R1-tokens", submit, "*asyncDispatchTask.state", "state")
	c.StoreShape("R1-tokens", submit, "*asyncDispatchTask.replyToken", "replyToken")
	c.StoreShape("R1-tokens", submit, "*asyncDispatchTask.frame", G+".cloneAsyncSendFrame(send, *)")
	c.c28ConfineFieldCalls("R1-tokens", E+".mailbox", MB+".SubmitHash", 1, E+".submit")
	c.c28ConfineFieldCalls("R1-tokens", E+".mailbox", MB+".Submit", 0)
	c.CallShape("R1-tokens", c.Fn(E+".completeAdmission"), "sync.WaitGroup.Done", "sync.WaitGroup.Done(e.admitted)")
	c.Guard("R1-tokens", c.Fn(E+".reserve"), Ret{0, "true"}, "e.queued < e.capacity")
	c.c26GuardPS("R1-tokens", c.Fn(E+".reserveShard"), Ret{0, "true"}, "sync/atomic.Int64.CompareAndSwap(*) == true")

	// the mailbox handler gives back the reservations and completes one admission per item, also on panic
	complete := CallTo{E + ".completeAdmission"}
	c.c26Typestate("R1-handler", "the deferred per-item completeAdmission loop is registered before the batch is dispatched", c26TSpec{fn: handle,
		step: func(st int, in ssa.Instruction) int {
			switch {
			case c37IsDeferOf(in, E+".handleMailboxBatch$1"):
				return 1
			case (CallTo{E + ".dispatchMailboxBatch"}).Match(in):
				if st != 1 {
					return c26Bad
				}
				return 2
			}
			return st
		},
		exit: func(st int, ret *ssa.Return) bool { return st == 1 },
	}, "defer registered, then dispatch")
	c.Guard("R1-handler", handle, AnyRet{}, "e == nil || len(batch.Items) == 0 || after: "+E+".dispatchMailboxBatch")
	c.CallShape("R1-handler", handle, E+".consumeShard", E+".consumeShard(e, batch.Shard, len(batch.Items))")
	c.CallShape("R1-handler", handle, E+".consume", E+".consume(e, len(batch.Items))")
	c.CallShape("R1-handler", handle, E+".dispatchMailboxBatch", E+".dispatchMailboxBatch(e, batch.Items)")
	isLoopEdge := func(from *ssa.BasicBlock, succ int) (bool, bool) {
		a, ok := c37EdgeAtom(from, succ)
		if !ok {
			return false, false
		}
		if (AtomSpec{L: "*", Op: "<", R: "len(batch.Items)"}).Satisfies(a) {
			return true, true
		}
		if (AtomSpec{L: "*", Op: ">=", R: "len(batch.Items)"}).Satisfies(a) {
			return true, false
		}
		return false, false
	}
	c.c26Typestate("R1-handler", "exactly one completeAdmission per iteration of the range over batch.Items", c26TSpec{fn: handleDefer,
		onEdge: func(st int, from *ssa.BasicBlock, succ int) int {
			if ok, enter := isLoopEdge(from, succ); ok {
				if st != 0 {
					return c26Bad
				}
				if enter {
					return 1
				}
			}
			return st
		},
		step: func(st int, in ssa.Instruction) int {
			if complete.Match(in) {
				if st != 1 {
					return c26Bad
				}
				return 0
			}
			return st
		},
		exit: func(st int, ret *ssa.Return) bool { return st != 0 },
	}, "one completion per item")
	c.Guard("R1-handler", handleDefer, AnyRet{}, "* >= len(batch.Items)")
	c.ConfineCalls("R1-handler", E+".completeAdmission", 4, E+".submit", E+".handleMailboxBatch")
	c.c26DeferInEntryAfterGuards("R1-handler", c.Fn(E+".dispatchBatchSafely"), E+".dispatchBatchSafely$1", E+".dispatchBatch")

	// a refused SEND ends the session; an accepted one is not dispatched a second time
	dsa := c.Fn(G + ".Server.dispatchSendFrameAsync")
	c.c26GuardPS("R1-refused", dsa, AnyRet{}, "s == nil || "+G+".asyncRuntime.submitSend(*) == true || after: "+G+".sessionState.close")
	c.CallShape("R1-refused", dsa, G+".asyncRuntime.submitSend", G+".asyncRuntime.submitSend(*, state, replyToken, send)")
	c.CallShape("R1-refused", c.Fn(G+".asyncRuntime.submitSend"), E+".submit", E+".submit(r.send, state, replyToken, sendFrame)")
	inbound := c.Fn(G + ".Server.dispatchInboundFrames")
	c.Guard("R1-refused", inbound, CallTo{G + ".Server.dispatchFrame"}, "!"+G+".isSendPacket(*)#1")
	c.Guard("R1-refused", inbound, CallTo{G + ".Server.dispatchSendFrameAsync"}, G+".isSendPacket(*)#1 == true")
	c.ConfineCalls("R1-refused", E+".submit", 1, G+".asyncRuntime.submitSend")
	c.ConfineCalls("R1-refused", G+".asyncRuntime.submitSend", 1, G+".Server.dispatchSendFrameAsync")

	// ---- R3: drain / close order and the caller's deadline
	c.Guard("R3-close", drain, CallTo{"sync.Once.Do"}, "after: sync/atomic.Bool.Store(e.closed, true)")
	c.CallShape("R3-close", drain, "sync.Once.Do", "sync.Once.Do(e.drainOnce, closure:"+E+".drain$1)")
	c.Guard("R3-close", drainWait, CallTo{"close(e.drained)"}, "after: sync.WaitGroup.Wait(e.admitted)")
	c.c26ConfineChan("R3-close", E+".drained", "close", 1, E+".drain")
	c.c26MustPass("order", "R3-close", closeMB, CallTo{MB + ".Close"}, nil, func(in ssa.Instruction) bool {
		u, ok := in.(*ssa.UnOp)
		return ok && u.Op == token.ARROW && Path(u.X) == "e.drained"
	}, "<-e.drained")
	c.c28ConfineFieldCalls("R3-close", E+".mailbox", MB+".Close", 1, E+".closeMailboxAfterDrain")
	c.CallShape("R3-close", closeMB, MB+".Close", MB+".Close(e.mailbox, context.Background())")
	c.c26Typestate("R3-close", "drain returns nil only on the <-e.drained arm", c26TSpec{fn: drain,
		onEdge: func(st int, from *ssa.BasicBlock, succ int) int {
			if c26ArmIs(from, succ, false, "e.drained") {
				return 1
			}
			if a, ok := c37EdgeAtom(from, succ); ok && ((AtomSpec{L: "e", Op: "==", R: "nil"}).Satisfies(a) || (AtomSpec{L: "e.mailbox", Op: "==", R: "nil"}).Satisfies(a)) {
				return 1
			}
			return st
		},
		exit: func(st int, ret *ssa.Return) bool { return (RetNil{}).Match(ret) && st != 1 },
	}, "nil ⇒ drained")
	c.c28CtxConfined("R3-ctx", drain, "ctx", "Done", "Err")
	c.CallShape("R3-ctx", c.Fn(G+".asyncRuntime.drainSends"), E+".drain", E+".drain(r.send, ctx)")
	c.CallShape("R3-ctx", c.Fn(G+".Server.DrainSends"), G+".asyncRuntime.drainSends", G+".asyncRuntime.drainSends(*, *ctx*)")
	c.CallShape("R3-ctx", stop, E+".drain", E+".drain(e, context.WithTimeout(context.Background(), e.releaseTimeout)#0)")
	c.Guard("R3-ctx", stop, AnyRet{}, "after: "+E+".closeMailboxAfterDrain || e == nil || e.mailbox == nil")
	c.ConfineCalls("R3-ctx", E+".drain", 2, E+".stop", G+".asyncRuntime.drainSends")

	// ---- R4: per-session shard choice
	c.c28DependsOnly("R4-shard", c.Fn(G+".asyncSendShardIndex"), []string{"state", "shards"}, []string{"pkg/gateway/session.Session.ID"})
	c.StoreShape("R4-shard", c.Fn(G+".newSendExecutor"), "*ShardedMailboxConfig.Shards", "*.shards")

	// ---- R5: the mailbox itself (single drain per shard, FIFO hand-off): the C37 rules
	c37Mailbox(c, "pkg/workqueue")
	c.Min("R1-tokens", 16)
	c.Min("R1-handler", 9)
	c.Min("R2-fence", 8)
	c.Min("R3-close", 8)
	c.Min("R3-ctx", 6)

	// ---- R6: ack indexing
	sbi := c.Fn(G + ".Server.sendBatchItems")
	c.StoreShape("R6-items", sbi, "*SendBatchItem.ReplyToken", "*.replyToken")
	c.StoreShape("R6-items", sbi, "*SendBatchItem.Frame", "*.frame.(SendPacket)#0")
	c.StoreShape("R6-items", sbi, "*SendBatchItem.Index", "(phi(*) + 1)")
	c.CallShape("R6-items", sbi, G+".dispatcher.context", G+".dispatcher.context(*, *.state, *.replyToken, *)")
	c.Guard("R6-items", c.Fn(G+".Server.dispatchSendBatch"), CallTo{G + ".dispatcher.sendBatch"}, "len("+G+".Server.sendBatchItems(s, batch)) == len(batch)")
	db := c.Fn(E + ".dispatchBatch")
	c.CallShape("R6-items", db, G+".Server.dispatchFrame", G+".Server.dispatchFrame(e.server, *.state, *.replyToken, *.frame)")
	c.Guard("R6-items", db, CallTo{G + ".Server.dispatchFrame"}, "!"+G+".Server.dispatchSendBatch(e.server, batch)")

	const H = "internal/access/gateway"
	comp := c.Fn(H + ".Handler.OnSendBatch$1")
	slot := StoreTo{Addr: "*[index]"}
	c.Guard("R6-ack", comp, slot, "index >= 0", "index < len(*)", "!*[index].ready")
	c.StoreShape("R6-ack", comp, "completion.ready", "true")
	write := CallTo{H + ".Handler.writeSendack"}
	c.Guard("R6-ack", comp, write, "*[*].ready == true", "* >= 0")
	c.c28SameIndex("R6-ack", comp, H+".Handler.writeSendack")
	c.c26Typestate("R6-ack", "after a sendack is written the session head advances before the next write", c26TSpec{fn: comp,
		step: func(st int, in ssa.Instruction) int {
			switch {
			case write.Match(in):
				if st != 0 {
					return c26Bad
				}
				return 1
			case func() bool { _, ok := in.(*ssa.MapUpdate); return ok }():
				return 0
			}
			return st
		}}, "write → advance")
	c.ConfineCalls("R6-ack", H+".Handler.writeSendack", 4, H+".Handler.OnSendBatch$1", H+".Handler.handleSend")
	osb := c.Fn(H + ".Handler.OnSendBatch")
	if osb != nil {
		// success only after the final scan found every completion slot ready
		removed, _ := guardEdges(osb, parseGuard("len(items) == 0"))
		n := 0
		for _, b := range osb.Blocks {
			if len(b.Instrs) == 0 {
				continue
			}
			iff, ok := b.Instrs[len(b.Instrs)-1].(*ssa.If)
			if !ok {
				continue
			}
			bin, ok := iff.Cond.(*ssa.BinOp)
			if !ok || bin.Op != token.LSS {
				continue
			}
			call, ok := bin.Y.(*ssa.Call)
			if !ok || calleeName(&call.Call) != "len" {
				continue
			}
			sl, ok := call.Call.Args[0].Type().Underlying().(*types.Slice)
			if ok && typeBaseName(sl.Elem()) == "gatewayBatchSendack" {
				removed[edge{b, 1}] = true
				n++
			}
		}
		if n == 0 {
			c.add("guard", "R6-ack", c.P.Name(osb)+"#final-scan", Undecided, c.P.Pos(osb.Pos()), "no range loop over the completion slots found")
		}
		c.c26MustPass("guard", "R6-ack", osb, RetNil{}, removed, nil, "the exit edge of the scan over all completion slots (or an empty batch)")
	}
	hs := c.Fn(H + ".Handler.handleSend")
	c.c26Typestate("R6-single", "handleSend writes at most one sendack", c26TSpec{fn: hs,
		step: func(st int, in ssa.Instruction) int {
			if write.Match(in) {
				if st != 0 {
					return c26Bad
				}
				return 1
			}
			return st
		}}, "≤ 1 sendack per SEND")
	c.Guard("R6-single", hs, AnyRet{}, "after: "+H+".Handler.writeSendack || *.mapSendCommandWithPayload(*)#1 != nil || *.sendBatchOne(*)#3 != nil")
	c.CallShape("R6-single", hs, H+".Handler.writeSendack", H+".Handler.writeSendack(h, ctx, pkt, *)")
	ws := c.Fn(H + ".writeSendack")
	c.StoreShape("R6-single", ws, "*SendackPacket.ClientSeq", "*pkt.ClientSeq*")
	c.StoreShape("R6-single", ws, "*SendackPacket.ClientMsgNo", "*pkt.ClientMsgNo*")
	c.CallShape("R6-single", c.Fn(H+".Handler.writeSendack"), H+".writeSendack", H+".writeSendack(ctx, pkt, result)")
}

// c28SameIndex: in every call to callee, argument 1 (&contexts[i]) and argument 2
// (items[j].Frame) are indexed by the same SSA value.
func (c *Ctx) c28SameIndex(rule string, fn *ssa.Function, callee string) {
	if fn == nil {
		return
	}
	construct := c.P.Name(fn) + "#same-index:" + callee
	n := 0
	for _, in := range instrsMatching(fn, CallTo{callee}) {
		n++
		args := in.(ssa.CallInstruction).Common().Args
		idx := func(v ssa.Value) ssa.Value {
			for i := 0; i < 6; i++ {
				switch x := v.(type) {
				case *ssa.IndexAddr:
					return x.Index
				case *ssa.Index:
					return x.Index
				case *ssa.UnOp:
					v = x.X
				case *ssa.FieldAddr:
					v = x.X
				case *ssa.Field:
					v = x.X
				case *ssa.MakeInterface:
					v = x.X
				case *ssa.ChangeInterface:
					v = x.X
				default:
					return nil
				}
			}
			return nil
		}
		if len(args) < 3 {
			c.add("shape", rule, construct, Undecided, c.P.InstrPos(in), "unexpected argument count")
			return
		}
		a, b := idx(args[1]), idx(args[2])
		if a == nil || b == nil || a != b {
			c.add("shape", rule, construct, Violated, c.P.InstrPos(in), fmt.Sprintf("the context (%s) and the frame (%s) of a sendack are not taken at the same index", Path(args[1]), Path(args[2])))
			return
		}
	}
	if n == 0 {
		c.add("shape", rule, construct, Undecided, c.P.Pos(fn.Pos()), "no call found (vacuous)")
		return
	}
	c.add("shape", rule, construct, Held, c.P.Pos(fn.Pos()), fmt.Sprintf("%d call(s): context and frame are indexed by the same SSA value", n))
}

// c26DeferInEntryAfterGuards: fn registers `defer deferGlob` before it calls workGlob on every path.
func (c *Ctx) c26DeferInEntryAfterGuards(rule string, fn *ssa.Function, deferGlob, workGlob string) {
	c.c26Typestate(rule, "defer "+deferGlob+" is registered before "+workGlob+" runs", c26TSpec{fn: fn,
		step: func(st int, in ssa.Instruction) int {
			switch {
			case c37IsDeferOf(in, deferGlob):
				return 1
			case (CallTo{workGlob}).Match(in):
				if _, isDefer := in.(*ssa.Defer); !isDefer && st != 1 {
					return c26Bad
				}
			}
			return st
		}}, "recover handler in place before the work starts")
}
