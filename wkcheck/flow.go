package main

import (
	"fmt"
	"go/token"
	"sort"

	"golang.org/x/tools/go/ssa"
)

// flowEnd is where a forward def-use slice of a value ends.
type flowEnd struct {
	Kind string // call | if | return | store | send | cmp
	Name string // callee name / store path / comparison rendering
	Arg  int
	In   ssa.Instruction
}

func (e flowEnd) String() string {
	if e.Kind == "call" {
		return fmt.Sprintf("call %s#%d", e.Name, e.Arg)
	}
	if e.Name != "" {
		return e.Kind + " " + e.Name
	}
	return e.Kind
}

func baseAlloc(v ssa.Value) *ssa.Alloc {
	for {
		switch x := v.(type) {
		case *ssa.Alloc:
			return x
		case *ssa.FieldAddr:
			v = x.X
		case *ssa.IndexAddr:
			v = x.X
		case *ssa.Slice:
			v = x.X
		default:
			return nil
		}
	}
}

// forwardFlow follows v through value-preserving instructions (loads,
// conversions, slicing, arithmetic, phi, stores into local allocs and the
// loads from them, closure captures) and reports where it ends up.
// passThrough: callee globs whose result carries the argument on (e.g. "len", "append").
func forwardFlow(v ssa.Value, passThrough []string) []flowEnd {
	var ends []flowEnd
	seen := map[ssa.Value]bool{}
	var visit func(v ssa.Value)
	visit = func(v ssa.Value) {
		if v == nil || seen[v] {
			return
		}
		seen[v] = true
		refs := v.Referrers()
		if refs == nil {
			return
		}
		for _, r := range *refs {
			switch x := r.(type) {
			case *ssa.DebugRef:
			case *ssa.Store:
				if x.Val == v {
					if a := baseAlloc(x.Addr); a != nil && spilledParam(a) == nil {
						visit(a)
						continue
					}
					ends = append(ends, flowEnd{Kind: "store", Name: Path(x.Addr), In: r})
				}
				// v is the address being stored to: not a use of the value
			case *ssa.MapUpdate:
				ends = append(ends, flowEnd{Kind: "store", Name: Path(x.Map) + "[…]", In: r})
			case ssa.CallInstruction:
				cc := x.Common()
				name := calleeName(cc)
				args := callArgs(cc)
				idx := -1
				for i, a := range args {
					if a == v {
						idx = i
					}
				}
				if idx < 0 && cc.Value == v {
					continue // v is the function being called
				}
				if globAny(passThrough, name) {
					if val, ok := r.(ssa.Value); ok {
						visit(val)
						continue
					}
				}
				ends = append(ends, flowEnd{Kind: "call", Name: name, Arg: idx, In: r})
			case *ssa.If:
				ends = append(ends, flowEnd{Kind: "if", In: r})
			case *ssa.Return:
				ends = append(ends, flowEnd{Kind: "return", In: r})
			case *ssa.Send:
				ends = append(ends, flowEnd{Kind: "send", In: r})
			case *ssa.MakeClosure:
				if cf, ok := x.Fn.(*ssa.Function); ok {
					for i, bv := range x.Bindings {
						if bv == v && i < len(cf.FreeVars) {
							visit(cf.FreeVars[i])
						}
					}
				}
			case *ssa.BinOp:
				switch x.Op {
				case token.EQL, token.NEQ, token.LSS, token.LEQ, token.GTR, token.GEQ:
					ends = append(ends, flowEnd{Kind: "cmp", Name: Path(x), In: r})
					visit(x)
				default:
					visit(x)
				}
			case ssa.Value:
				visit(x)
			}
		}
	}
	visit(v)
	return ends
}

func flowEndNames(ends []flowEnd) []string {
	set := map[string]bool{}
	for _, e := range ends {
		set[e.String()] = true
	}
	var out []string
	for k := range set {
		out = append(out, k)
	}
	sort.Strings(out)
	return out
}

// fieldReads lists the FieldAddr/Field instructions of fn (and closures) selecting a field of struct type T.
func fieldReads(fns []*ssa.Function, sameT func(ssa.Value) bool) map[string][]ssa.Value {
	out := map[string][]ssa.Value{}
	for _, fn := range fns {
		for _, b := range fn.Blocks {
			for _, in := range b.Instrs {
				switch x := in.(type) {
				case *ssa.FieldAddr:
					if sameT(x.X) {
						out[fieldName(x.X.Type(), x.Field)] = append(out[fieldName(x.X.Type(), x.Field)], x)
					}
				case *ssa.Field:
					if sameT(x.X) {
						out[fieldName(x.X.Type(), x.Field)] = append(out[fieldName(x.X.Type(), x.Field)], x)
					}
				}
			}
		}
	}
	return out
}
