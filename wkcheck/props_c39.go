package main

import (
	"fmt"
	"go/token"
	"strings"

	"golang.org/x/tools/go/ssa"
)

// ---------------------------------------------------------------------------
// C39 — Hash-slot migration neither loses nor duplicates metadata writes (structural clauses).
// Uses the generic helpers of props_c12.go (c12GuardFrom, c12EdgeExcludes, c12Const) and
// props_c13.go (c13SingleBatch, c13FenceRules).

func init() {
	register(&PropSpec{
		ID:        "C39",
		Pkgs:      []string{"./pkg/slot/fsm", "./pkg/slot/multiraft", "./pkg/db/meta"},
		Technique: "static analysis: SSA edge-dominance (replay guards before apply, iteration-local 'mark before continue', publish after commit), SSA identity of the applied-delta record and of the one WriteBatch, ownership/fence guards, outbox staging shape",
		Explain: "Decides on stateMachine.ApplyBatch and its helpers: (R1) an applyDelta command reaches command.apply only behind 'record not already staged in this batch' and HasAppliedHashSlotDelta==false (error checked), and the record looked up, probed and marked is one and the same value built from (hash slot, source slot, source index); (R2) once the durable probe ran, the command can only proceed to the next step through MarkAppliedHashSlotDelta==nil staged into the same WriteBatch that carries the command, the in-batch replay set is updated, and markAppliedDeltas/forwardCommittedDeltas run only behind Commit==nil; applyDeltaCmd.apply refuses a hash-slot mismatch and nested deltas; (R3) ordinary commands reach apply only behind validateCommandHashSlots==nil (scoped) and a fenced hash slot skips the command without touching the batch; (R4) the outbox row and migration state of a source write are staged into the caller's WriteBatch (no other batch exists in the staging helpers), a forward is scheduled only after both were staged, skipping is confined to the enumerated phases, and outbox rows are deleted only for a matching source/target pair within the acknowledged range. " +
			"NOT decided: exactly-once in the target across replayed/reordered forwards as behaviour (retry of failed forwards, outbox replay after restart), correctness of the non-replicated runtime migration table that drives phases, snapshot + delta hand-over completeness, that the meta WriteBatch commit is atomic (trusted: pebble batch).",
		Run: c39,
		Mutants: c12OnlyMutants([]Mutant{
			{Name: "delta-skip-durable-replay-check", File: "pkg/slot/fsm/statemachine.go",
				Old:    "\t\t\tif applied {\n\t\t\t\tresults[i] = []byte(ApplyResultOK)\n\t\t\t\tcontinue\n\t\t\t}\n",
				New:    "\t\t\tif applied && len(cmds) > 1 {\n\t\t\t\tresults[i] = []byte(ApplyResultOK)\n\t\t\t\tcontinue\n\t\t\t}\n",
				Expect: "C39/R1-replay-guard/*"},
			{Name: "delta-skip-inbatch-replay-check", File: "pkg/slot/fsm/statemachine.go",
				Old:    "\t\t\tif _, ok := pendingDeltaRecords[appliedDeltaRecord]; ok {\n\t\t\t\tresults[i] = []byte(ApplyResultOK)\n\t\t\t\tcontinue\n\t\t\t}\n",
				New:    "",
				Expect: "C39/R1-replay-guard/*"},
			{Name: "delta-record-omits-source-index", File: "pkg/slot/fsm/statemachine.go",
				Old:    "\t\t\t\tSourceSlot:  uint64(applyDelta.SourceSlotID),\n\t\t\t\tSourceIndex: applyDelta.SourceIndex,\n\t\t\t}\n\t\t\tif _, ok := pendingDeltaRecords",
				New:    "\t\t\t\tSourceSlot:  uint64(applyDelta.SourceSlotID),\n\t\t\t}\n\t\t\tif _, ok := pendingDeltaRecords",
				Expect: "C39/R1-replay-key/*"},
			{Name: "delta-not-marked-applied", File: "pkg/slot/fsm/statemachine.go",
				Old:    "\t\tif shouldMarkAppliedDelta {\n\t\t\tif err := wb.MarkAppliedHashSlotDelta(appliedDeltaRecord); err != nil {\n\t\t\t\treturn nil, err\n\t\t\t}\n",
				New:    "\t\tif shouldMarkAppliedDelta && len(cmds) == 1 {\n\t\t\tif err := wb.MarkAppliedHashSlotDelta(appliedDeltaRecord); err != nil {\n\t\t\t\treturn nil, err\n\t\t\t}\n",
				Expect: "C39/R2-mark-with-command/*"},
			{Name: "delta-marked-in-own-batch", File: "pkg/slot/fsm/statemachine.go",
				Old:    "\t\t\tif err := wb.MarkAppliedHashSlotDelta(appliedDeltaRecord); err != nil {\n\t\t\t\treturn nil, err\n\t\t\t}\n",
				New:    "\t\t\tif err := m.db.MarkAppliedHashSlotDelta(ctx, appliedDeltaRecord); err != nil {\n\t\t\t\treturn nil, err\n\t\t\t}\n",
				Expect: "C39/R2-mark-with-command/*"},
			{Name: "forward-before-commit", File: "pkg/slot/fsm/statemachine.go",
				Old:    "\tstarted := time.Now()\n\terr := wb.Commit()\n",
				New:    "\tm.forwardCommittedDeltas(ctx, pendingForwardDeltas)\n\tstarted := time.Now()\n\terr := wb.Commit()\n",
				Expect: "C39/R2-publish-after-commit/*"},
			{Name: "delta-wrong-hashslot-accepted", File: "pkg/slot/fsm/migration_cmds.go",
				Old:    "func (c *applyDeltaCmd) apply(wb *metadb.WriteBatch, hashSlot uint16) error {\n\tif c.HashSlot != hashSlot {\n\t\treturn metadb.ErrInvalidArgument\n\t}\n",
				New:    "func (c *applyDeltaCmd) apply(wb *metadb.WriteBatch, hashSlot uint16) error {\n",
				Expect: "C39/R2-delta-apply/*"},
			{Name: "fenced-write-applied", File: "pkg/slot/fsm/statemachine.go",
				Old:    "\t\t\t\tif fenced {\n\t\t\t\t\tresults[i] = []byte(ApplyResultHashSlotFenced)\n\t\t\t\t\tcontinue commandLoop\n\t\t\t\t}\n",
				New:    "\t\t\t\tif fenced {\n\t\t\t\t\tresults[i] = []byte(ApplyResultHashSlotFenced)\n\t\t\t\t\tif applyHashSlot != hashSlot {\n\t\t\t\t\t\tcontinue commandLoop\n\t\t\t\t\t}\n\t\t\t\t}\n",
				Expect: "C39/R3-fence/*"},
			{Name: "outbox-skipped-while-switching", File: "pkg/slot/fsm/statemachine.go",
				Old:    "\tif !ok || (migration.phase != migrationPhaseDelta && migration.phase != migrationPhaseSwitching) {\n\t\treturn pendingForwardDelta{}, false, nil\n\t}\n\n\tstate, err := m.loadOrCreateMigrationState(ctx, wb, hashSlot, migration, pendingStates)\n\tif err != nil {\n\t\treturn pendingForwardDelta{}, false, err\n\t}\n\n\trow",
				New:    "\tif !ok || migration.phase != migrationPhaseDelta {\n\t\treturn pendingForwardDelta{}, false, nil\n\t}\n\n\tstate, err := m.loadOrCreateMigrationState(ctx, wb, hashSlot, migration, pendingStates)\n\tif err != nil {\n\t\treturn pendingForwardDelta{}, false, err\n\t}\n\n\trow",
				Expect: "C39/R4-outbox/*stageMigrationOutbox*"},
			{Name: "outbox-row-in-separate-batch", File: "pkg/slot/fsm/statemachine.go",
				Old:    "\tif err := wb.UpsertHashSlotMigrationOutbox(row); err != nil {\n\t\treturn pendingForwardDelta{}, false, err\n\t}\n\tstate.Phase = uint8(migration.phase)",
				New:    "\tif err := m.db.UpsertHashSlotMigrationOutbox(ctx, row); err != nil {\n\t\treturn pendingForwardDelta{}, false, err\n\t}\n\tstate.Phase = uint8(migration.phase)",
				Expect: "C39/R4-outbox/*stageMigrationOutbox*"},
			{Name: "ack-deletes-unsent-outbox", File: "pkg/slot/fsm/statemachine.go",
				Old:    "\tif state.SourceSlot != uint64(ack.SourceSlot) || state.TargetSlot != uint64(ack.TargetSlot) || ack.SourceIndex > state.LastOutboxIndex {\n\t\treturn nil\n\t}\n\tif ack.SourceIndex > state.LastAckedIndex {\n\t\tstate.LastAckedIndex = ack.SourceIndex\n\t}\n\tif err := wb.UpsertHashSlotMigrationState(state); err != nil {\n\t\treturn err\n\t}\n\tif err := wb.DeleteHashSlotMigrationOutbox(hashSlot, uint64(ack.SourceSlot)",
				New:    "\tif state.SourceSlot != uint64(ack.SourceSlot) || ack.SourceIndex > state.LastOutboxIndex {\n\t\treturn nil\n\t}\n\tif ack.SourceIndex > state.LastAckedIndex {\n\t\tstate.LastAckedIndex = ack.SourceIndex\n\t}\n\tif err := wb.UpsertHashSlotMigrationState(state); err != nil {\n\t\treturn err\n\t}\n\tif err := wb.DeleteHashSlotMigrationOutbox(hashSlot, uint64(ack.SourceSlot)",
				Expect: "C39/R4-outbox/*applyMigrationOutboxAck*"},
		}),
	})
}

func c39(c *Ctx) {
	ab := c.Fn(c13fsm + "stateMachine.ApplyBatch")
	apply := CallTo{c13fsm + "command.apply"}
	notDelta := " || *.(applyDeltaCmd)#1 == false"
	probe := "pkg/db/meta.DB.HasAppliedHashSlotDelta(*)"

	// ---- R1: replayed deltas never reach apply
	c.Guard("R1-replay-guard", ab, apply,
		"*[*AppliedHashSlotDelta]#1 == false"+notDelta,
		probe+"#0 == false"+notDelta,
		probe+"#1 == nil"+notDelta,
	)
	c12EdgeExcludes(c, "R1-replay-guard", ab, probe+"#0 == true", true, c13BatchTouch)
	c12EdgeExcludes(c, "R1-replay-guard", ab, "*[*AppliedHashSlotDelta]#1 == true", true, c13BatchTouch)
	c.LiteralComplete("R1-replay-key", ab, "pkg/db/meta.AppliedHashSlotDelta", []string{"HashSlot", "SourceSlot", "SourceIndex"}, nil)
	c.StoreShape("R1-replay-key", ab, "*AppliedHashSlotDelta.HashSlot", "*.stateMachine.resolveHashSlot(m, *)#0")
	c.StoreShape("R1-replay-key", ab, "*AppliedHashSlotDelta.SourceSlot", "*.(applyDeltaCmd)#0.SourceSlotID")
	c.StoreShape("R1-replay-key", ab, "*AppliedHashSlotDelta.SourceIndex", "*.(applyDeltaCmd)#0.SourceIndex")
	c39SameRecord(c, "R1-replay-key", ab)

	// ---- R2: the applied-delta record travels with the command, publication follows the commit
	markOK := "pkg/db/meta.WriteBatch.MarkAppliedHashSlotDelta(*) == nil"
	afterProbe := c12From{From: CallTo{"pkg/db/meta.DB.HasAppliedHashSlotDelta"}, Local: true}
	c12GuardFrom(c, "R2-mark-with-command", ab, afterProbe, CallTo{c13fsm + "stateMachine.stageMigrationMaintenanceForHashSlots"}, markOK)
	c12GuardFrom(c, "R2-mark-with-command", ab, afterProbe, StoreTo{Addr: "make([]command, *)[*]"}, markOK)
	c12GuardFrom(c, "R2-mark-with-command", ab, afterProbe, CallTo{"pkg/db/meta.WriteBatch.MarkAppliedHashSlotDelta"}, "*.command.apply(*) == nil")
	c.Guard("R2-mark-with-command", ab, StoreTo{Addr: "*[*AppliedHashSlotDelta*]"}, markOK)
	c13SingleBatch(c, "R2-mark-with-command", ab)
	c.ConfineCalls("R2-mark-with-command", "pkg/db/meta.DB.MarkAppliedHashSlotDelta", 0, "pkg/db/meta.*") // the unbatched variant is never used by the state machine
	c.ConfineCalls("R2-mark-with-command", "pkg/db/meta.ShardStore.MarkAppliedHashSlotDelta", 0, "pkg/db/meta.*")

	commitOK := "pkg/db/meta.WriteBatch.Commit(*) == nil"
	c.Guard("R2-publish-after-commit", ab, CallTo{c13fsm + "stateMachine.markAppliedDeltas"}, commitOK)
	c.Guard("R2-publish-after-commit", ab, CallTo{c13fsm + "stateMachine.forwardCommittedDeltas"}, commitOK)
	c.ConfineCalls("R2-publish-after-commit", c13fsm+"stateMachine.forwardCommittedDeltas", 1, c13fsm+"stateMachine.ApplyBatch")
	c.ConfineCalls("R2-publish-after-commit", c13fsm+"stateMachine.markAppliedDeltas", 1, c13fsm+"stateMachine.ApplyBatch")
	c39ConfineMapUpdates(c, "R2-publish-after-commit", c13fsm+"stateMachine.appliedDelta", c13fsm+"stateMachine.markAppliedDeltas")

	da := c.Fn(c13fsm + "applyDeltaCmd.apply")
	inner := OneOf{apply, CallTo{c13fsm + "hashSlotFilteredCommand.applyForHashSlot"}}
	c.Guard("R2-delta-apply", da, inner, "c.HashSlot == hashSlot", "*.decodeCommand(*)#1 == nil", "*.(applyDeltaCmd)#1 == false")
	c.CallShape("R2-delta-apply", da, c13fsm+"command.apply", "*(*.decodeCommand(c.OriginalCmd)#0, wb, hashSlot)")
	c.CallShape("R2-delta-apply", da, c13fsm+"hashSlotFilteredCommand.applyForHashSlot", "*(*, wb, hashSlot)")
	rh := c.Fn(c13fsm + "stateMachine.resolveHashSlot")
	c.Guard("R2-delta-apply", rh, Ret{0, "*.(applyDeltaCmd)#0.HashSlot"}, "*.HashSlot == cmd.HashSlot", "*.(applyDeltaCmd)#1 == true")

	// ---- R3: ordinary writes are refused by non-owners and by a fenced source
	c.Guard("R3-ownership", ab, apply,
		"*.stateMachine.resolveHashSlot(*)#1 == nil",
		"*.stateMachine.validateCommandHashSlots(*) == nil || *.(scopedHashSlotCommand)#1 == false")
	c.Guard("R3-ownership", rh, RetNil{},
		"m.ownedHashSlots[*]#1 == true || *.isSourceMigrationMaintenanceCommandData(*) == true || *.isApplyDeltaCommandData(*) == true")
	vh := c.Fn(c13fsm + "stateMachine.validateCommandHashSlots")
	c12EdgeExcludes(c, "R3-ownership", vh, "m.ownedHashSlots[*]#1 == false", false, RetNil{})
	c13FenceRules(c, "R3-fence", ab)
	imm := c.Fn(c13fsm + "isMigrationMaintenanceCommand")
	c39TypeSwitchTrueOnly(c, "R3-fence", imm, []string{"applyDeltaCmd", "enterFenceCmd", "ackMigrationOutboxCmd", "cleanupMigrationOutboxCmd"})

	// ---- R4: outbox rows are staged with the source write
	delta := c12Const(c, "pkg/slot/fsm", "migrationPhaseDelta")
	switching := c12Const(c, "pkg/slot/fsm", "migrationPhaseSwitching")
	so := c.Fn(c13fsm + "stateMachine.stageMigrationOutbox")
	for _, fn := range []string{"stateMachine.stageMigrationMaintenanceForHashSlots", "stateMachine.stageMigrationOutbox", "stateMachine.stageMigrationFence", "stateMachine.loadOrCreateMigrationState", "stateMachine.applyMigrationOutboxAck", "stateMachine.applyMigrationOutboxCleanup"} {
		c39BatchParamOnly(c, "R4-outbox", c.Fn(c13fsm+fn))
	}
	scheduled := Ret{1, "true"}
	c.Guard("R4-outbox", so, scheduled, "pkg/db/meta.WriteBatch.UpsertHashSlotMigrationOutbox(*) == nil", "pkg/db/meta.WriteBatch.UpsertHashSlotMigrationState(*) == nil", "*.stateMachine.loadOrCreateMigrationState(*)#1 == nil")
	skipped := InstrFn{"return _, false, nil", func(in ssa.Instruction) bool {
		r, ok := in.(*ssa.Return)
		return ok && len(r.Results) == 3 && Path(retOperand(r, 1)) == "false" && Path(retOperand(r, 2)) == "nil"
	}}
	skipAlt := "m == nil || *.(applyDeltaCmd)#1 == true || m.migrations[hashSlot]#1 == false || "
	c.Guard("R4-outbox", so, skipped, skipAlt+"*.phase != "+delta, skipAlt+"*.phase != "+switching)
	c.LiteralComplete("R4-outbox", so, "pkg/db/meta.HashSlotMigrationOutboxRow", []string{"HashSlot", "SourceSlot", "TargetSlot", "SourceIndex", "Data"}, nil)
	c.StoreShape("R4-outbox", so, "*HashSlotMigrationOutboxRow.SourceIndex", "cmd.Index")
	c.StoreShape("R4-outbox", so, "*HashSlotMigrationOutboxRow.Data", "append(nil, cmd.Data)")
	c.StoreShape("R4-outbox", so, "*HashSlotMigrationOutboxRow.HashSlot", "hashSlot")
	c.StoreShape("R4-outbox", so, "*HashSlotMigrationOutboxRow.TargetSlot", "*.target")
	c.StoreShape("R4-outbox", so, "*HashSlotMigrationOutboxRow.SourceSlot", "m.slot")
	c.StoreShape("R4-outbox", so, "*Command.Index", "cmd.Index")
	c.StoreShape("R4-outbox", so, "*Command.Data", "append(nil, cmd.Data)")
	c.StoreShape("R4-outbox", so, "*Command.HashSlot", "hashSlot")
	sm := c.Fn(c13fsm + "stateMachine.stageMigrationMaintenanceForHashSlots")
	c.CallShape("R4-outbox", sm, c13fsm+"stateMachine.stageMigrationOutbox", "*(m, ctx, wb, cmd, *, decoded, pendingStates)")
	c.ErrUsed("R4-outbox", []*ssa.Function{sm, so, c.Fn(c13fsm + "stateMachine.stageMigrationFence"), c.Fn(c13fsm + "stateMachine.loadOrCreateMigrationState")},
		[]string{"pkg/db/meta.WriteBatch.*", c13fsm + "stateMachine.stage*", c13fsm + "stateMachine.loadOrCreateMigrationState"}, nil)
	c.CallShape("R4-outbox", ab, c13fsm+"stateMachine.stageMigrationMaintenanceForHashSlots", "*(m, ctx, *, *, *.stateMachine.resolveHashSlot(m, *)#0, *.commandApplyHashSlots(*), *.decodeCommand(*.Data)#0, *)")

	// outbox rows disappear only when acknowledged by the matching pair within the sent range
	ack := c.Fn(c13fsm + "stateMachine.applyMigrationOutboxAck")
	c.Guard("R4-outbox", ack, CallTo{"pkg/db/meta.WriteBatch.DeleteHashSlotMigrationOutbox"},
		"ack.HashSlot == hashSlot", "ack.SourceSlot == m.slot",
		"*.SourceSlot == ack.SourceSlot", "*.TargetSlot == ack.TargetSlot", "ack.SourceIndex <= *.LastOutboxIndex",
		"pkg/db/meta.WriteBatch.UpsertHashSlotMigrationState(*) == nil")
	c.CallShape("R4-outbox", ack, "pkg/db/meta.WriteBatch.DeleteHashSlotMigrationOutbox", "*(wb, hashSlot, ack.SourceSlot, ack.TargetSlot, ack.SourceIndex)")
	cl := c.Fn(c13fsm + "stateMachine.applyMigrationOutboxCleanup")
	c.Guard("R4-outbox", cl, CallTo{"pkg/db/meta.WriteBatch.DeleteHashSlotMigrationState"},
		"*.SourceSlot == cleanup.SourceSlot", "*.TargetSlot == cleanup.TargetSlot", "*.LastOutboxIndex <= cleanup.ThroughIndex", "*.LastOutboxIndex != 0")
	c.Guard("R4-outbox", cl, CallTo{"pkg/db/meta.WriteBatch.DeleteHashSlotMigrationOutboxThrough"}, "cleanup.HashSlot == hashSlot", "cleanup.SourceSlot == m.slot")
	c.CallShape("R4-outbox", cl, "pkg/db/meta.WriteBatch.DeleteHashSlotMigrationOutboxThrough", "*(wb, hashSlot, cleanup.SourceSlot, cleanup.TargetSlot, cleanup.ThroughIndex)")
}

// c39SameRecord: the key of the in-batch replay lookup, the argument of the durable probe, the
// argument of MarkAppliedHashSlotDelta and the key added to the in-batch replay set are all loads of
// one AppliedHashSlotDelta local (zero-value phi arms of never-taken paths are ignored).
func c39SameRecord(c *Ctx, rule string, fn *ssa.Function) {
	if fn == nil {
		return
	}
	fname := c.P.Name(fn)
	construct := fname + "#one applied-delta record"
	var recs []*ssa.Alloc
	for _, b := range fn.Blocks {
		for _, in := range b.Instrs {
			if a, ok := in.(*ssa.Alloc); ok && typeBaseName(a.Type()) == "AppliedHashSlotDelta" {
				recs = append(recs, a)
			}
		}
	}
	if len(recs) != 1 {
		c.add("shape", rule, construct, Undecided, c.P.Pos(fn.Pos()), fmt.Sprintf("%d AppliedHashSlotDelta locals (expected 1)", len(recs)))
		return
	}
	rec := recs[0]
	var isRec func(v ssa.Value, depth int) bool
	isRec = func(v ssa.Value, depth int) bool {
		switch x := v.(type) {
		case *ssa.UnOp:
			return x.Op == token.MUL && x.X == ssa.Value(rec)
		case *ssa.Phi:
			if depth > 3 {
				return false
			}
			n := 0
			for _, e := range x.Edges {
				if k, ok := e.(*ssa.Const); ok && k.Value == nil {
					continue // zero value on paths that never use it
				}
				if !isRec(e, depth+1) {
					return false
				}
				n++
			}
			return n > 0
		}
		return false
	}
	uses := map[string]int{}
	var bad []string
	note := func(kind string, v ssa.Value, in ssa.Instruction) {
		uses[kind]++
		if !isRec(v, 0) {
			bad = append(bad, fmt.Sprintf("%s uses %s at %s", kind, Path(v), c.P.InstrPos(in)))
		}
	}
	for _, b := range fn.Blocks {
		for _, in := range b.Instrs {
			switch x := in.(type) {
			case *ssa.Lookup:
				if typeBaseName(x.Index.Type()) == "AppliedHashSlotDelta" {
					note("lookup", x.Index, in)
				}
			case *ssa.MapUpdate:
				if typeBaseName(x.Key.Type()) == "AppliedHashSlotDelta" {
					note("mapset", x.Key, in)
				}
			case ssa.CallInstruction:
				name := calleeName(x.Common())
				if name == "pkg/db/meta.DB.HasAppliedHashSlotDelta" || name == "pkg/db/meta.WriteBatch.MarkAppliedHashSlotDelta" {
					args := callArgs(x.Common())
					note(name[strings.LastIndex(name, ".")+1:], args[len(args)-1], in)
				}
			}
		}
	}
	switch {
	case len(bad) > 0:
		c.add("shape", rule, construct, Violated, c.P.Pos(fn.Pos()), "replay check and replay mark use different records: "+strings.Join(bad, "; "))
	case uses["lookup"] == 0 || uses["mapset"] == 0 || uses["HasAppliedHashSlotDelta"] == 0 || uses["MarkAppliedHashSlotDelta"] == 0:
		c.add("shape", rule, construct, Violated, c.P.Pos(fn.Pos()), fmt.Sprintf("a replay step is missing (sites found: %v)", uses))
	default:
		c.add("shape", rule, construct, Held, c.P.Pos(fn.Pos()), fmt.Sprintf("in-batch lookup, durable probe, mark and in-batch insert all use the same local (%v)", uses))
	}
}

// c39ConfineMapUpdates: entries are added to the map field only inside the allowed functions.
func c39ConfineMapUpdates(c *Ctx, rule, field string, allowed ...string) {
	fv := c.Field(field)
	if fv == nil {
		return
	}
	n := 0
	var bad []string
	for _, fn := range c.P.AllFuncs {
		for _, b := range fn.Blocks {
			for _, in := range b.Instrs {
				mu, ok := in.(*ssa.MapUpdate)
				if !ok {
					continue
				}
				u, ok := mu.Map.(*ssa.UnOp)
				if !ok {
					continue
				}
				fa, ok := u.X.(*ssa.FieldAddr)
				if !ok || fieldVar(fa.X.Type(), fa.Field) != fv {
					continue
				}
				n++
				if name := c.P.Name(fn); !globAny(allowed, name) && !globAny(allowed, rootName(name)) {
					bad = append(bad, name+" at "+c.P.InstrPos(in))
				}
			}
		}
	}
	construct := "mapupdates:" + field
	switch {
	case len(bad) > 0:
		c.add("confine", rule, construct, Violated, "", fmt.Sprintf("entries of %s are written outside %v: %s", field, allowed, strings.Join(bad, "; ")))
	case n == 0:
		c.add("confine", rule, construct, Undecided, "", "no map update found (vacuous)")
	default:
		c.add("confine", rule, construct, Held, "", fmt.Sprintf("%d map update site(s), all inside %v", n, allowed))
	}
}

// c39BatchParamOnly: fn creates no WriteBatch and every *meta.WriteBatch it passes on or stages into
// is its own wb parameter.
func c39BatchParamOnly(c *Ctx, rule string, fn *ssa.Function) {
	if fn == nil {
		return
	}
	fname := c.P.Name(fn)
	c.FuncsAnalysed[fname] = true
	construct := fname + "#stages only into the caller's batch"
	var wb *ssa.Parameter
	for _, p := range fn.Params {
		if strings.HasSuffix(p.Type().String(), "pkg/db/meta.WriteBatch") {
			wb = p
		}
	}
	if wb == nil {
		c.add("order", rule, construct, Violated, c.P.Pos(fn.Pos()), "the helper no longer receives the caller's WriteBatch")
		return
	}
	uses := 0
	var bad []string
	for _, b := range fn.Blocks {
		for _, in := range b.Instrs {
			ci, ok := in.(ssa.CallInstruction)
			if !ok {
				continue
			}
			name := calleeName(ci.Common())
			if name == "pkg/db/meta.DB.NewWriteBatch" {
				bad = append(bad, "creates a WriteBatch at "+c.P.InstrPos(in))
			}
			// unbatched writers of the meta DB commit on their own
			if strings.HasPrefix(name, "pkg/db/meta.DB.") || strings.HasPrefix(name, "pkg/db/meta.ShardStore.") {
				short := name[strings.LastIndex(name, ".")+1:]
				for _, pre := range []string{"Upsert", "Delete", "Mark", "Create", "Add", "Remove", "Import"} {
					if strings.HasPrefix(short, pre) {
						bad = append(bad, "writes through the unbatched "+name+" at "+c.P.InstrPos(in))
					}
				}
			}
			for _, a := range callArgs(ci.Common()) {
				if strings.HasSuffix(a.Type().String(), "pkg/db/meta.WriteBatch") {
					uses++
					if a != ssa.Value(wb) {
						bad = append(bad, renderCall(ci.Common(), 2, nil)+" at "+c.P.InstrPos(in))
					}
				}
			}
		}
	}
	switch {
	case len(bad) > 0:
		c.add("order", rule, construct, Violated, c.P.Pos(fn.Pos()), strings.Join(bad, "; "))
	case uses == 0:
		c.add("order", rule, construct, Undecided, c.P.Pos(fn.Pos()), "the batch parameter is never used")
	default:
		c.add("order", rule, construct, Held, c.P.Pos(fn.Pos()), fmt.Sprintf("%d use(s), all of the wb parameter; no own batch, no unbatched write", uses))
	}
}

// c39TypeSwitchTrueOnly: the bool function returns true exactly behind type tests for the listed types.
func c39TypeSwitchTrueOnly(c *Ctx, rule string, fn *ssa.Function, typesAllowed []string) {
	if fn == nil {
		return
	}
	fname := c.P.Name(fn)
	construct := fname + "#true only for " + strings.Join(typesAllowed, ",")
	seen := map[string]bool{}
	var bad []string
	for _, b := range fn.Blocks {
		for _, in := range b.Instrs {
			ta, ok := in.(*ssa.TypeAssert)
			if !ok {
				continue
			}
			n := typeBaseName(ta.AssertedType)
			seen[n] = true
			ok2 := false
			for _, t := range typesAllowed {
				if t == n {
					ok2 = true
				}
			}
			if !ok2 {
				bad = append(bad, n)
			}
		}
	}
	for _, t := range typesAllowed {
		if !seen[t] {
			bad = append(bad, "missing:"+t)
		}
	}
	var alts []string
	for _, t := range typesAllowed {
		alts = append(alts, "*.("+t+")#1 == true")
	}
	removed, _ := guardEdges(fn, parseGuard(strings.Join(alts, " || ")))
	limit := reachUnguarded(fn, removed, nil)
	for _, in := range instrsMatching(fn, Ret{0, "true"}) {
		if lim, ok := limit[in.Block()]; ok && indexIn(in.Block(), in) < lim {
			bad = append(bad, "unguarded return true at "+c.P.InstrPos(in))
		}
	}
	if len(bad) > 0 {
		c.add("guard", rule, construct, Violated, c.P.Pos(fn.Pos()), fmt.Sprintf("the set of command types exempt from the fence check changed: %v", bad))
		return
	}
	c.add("guard", rule, construct, Held, c.P.Pos(fn.Pos()), fmt.Sprintf("%d type tests, returns true only behind one of them", len(seen)))
}
