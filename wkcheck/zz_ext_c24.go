package main

import (
	"fmt"
	"go/types"
	"strings"

	"golang.org/x/tools/go/ssa"
)

// Extension rules for C24 found by seeded change C24-c (the gateway adapter reported the position of the
// drained bytes.Reader - i.e. the json.Decoder's read-ahead - as "consumed", so every message that followed
// the first one in the same buffer was thrown away by the gateway core and never bridged to a frame).
//
// The bridge is faithful per MESSAGE only if the adapter tells the core exactly where the bridged message
// ended. X1-consumed decides the structural clause
//
//	"the byte count Adapter.Decode reports is the extent of the ONE JSON value it bridged, and 0 when it
//	 bridged nothing"
//
// as five SSA value-identity facts (no source text, no local names; `in` is found as the []byte parameter):
//
//	(a) decoder-over-whole-input : the *json.Decoder handed to pkg/protocol/jsonrpc.Decode is built by
//	    json.NewDecoder over a bytes reader constructed from exactly the `in` parameter (not a sub-slice), and
//	    that reader is not consumed by anything else (only size queries are tolerated);
//	(b) decoder-used-once : that decoder instance is used for the one jsonrpc.Decode call, for InputOffset and for
//	    configuration only (a second Decode/Token/More/Buffered would move or bypass the offset);
//	(c) consumed-is-input-offset : every return that carries frames reports InputOffset() of THAT decoder instance,
//	    evaluated after the jsonrpc.Decode call; every return without frames reports the constant 0 (incomplete
//	    input must be retried with more bytes, an error must not discard anything);
//	(d) one-value : pkg/protocol/jsonrpc.Decode pulls exactly one value from its decoder (one Decoder.Decode call,
//	    not in a loop, no Token/More), so InputOffset is the end of the bridged message;
//	(e) mux-pass-through : wsmux.Adapter.Decode hands the `in` parameter to the selected adapter and returns that
//	    adapter's own (frames, consumed, err) triple, or (nil, 0, err).
//
// NOT decided: encoding/json's definition of InputOffset (trusted: "the input stream byte offset of the current
// decoder position", i.e. the end of the last decoded value, excluding read-ahead), and what the gateway core
// does with the count (`state.inbound = state.inbound[consumed:]`).
func init() {
	const gw = "pkg/gateway/protocol/jsonrpc/adapter.go"
	const mux = "pkg/gateway/protocol/wsmux/adapter.go"
	const codec = "pkg/protocol/jsonrpc/codec.go"
	extend("C24", nil, func(c *Ctx) {
		xc24Consumed(c, "X1-consumed")
		c.Min("X1-consumed", 5)
	},
		// the seeded change
		Mutant{Name: "x-consumed-is-reader-position", File: gw,
			Old: "int(decoder.InputOffset()), nil", New: "len(in) - reader.Len(), nil",
			Expect: "C24/X1-consumed/*Adapter.Decode#consumed-is-input-offset"},
		// sibling: "we parsed the buffer" - everything is reported consumed
		Mutant{Name: "x-consumed-is-whole-buffer", File: gw,
			Old: "int(decoder.InputOffset()), nil", New: "len(in), nil",
			Expect: "C24/X1-consumed/*Adapter.Decode#consumed-is-input-offset"},
		// sibling: an incomplete message is dropped instead of being retried with more bytes
		Mutant{Name: "x-incomplete-input-discarded", File: gw,
			Old: "\t\t\treturn nil, 0, nil\n", New: "\t\t\treturn nil, len(in), nil\n",
			Expect: "C24/X1-consumed/*Adapter.Decode#consumed-is-input-offset"},
		// sibling: the offset is taken from a decoder that did not decode the message
		Mutant{Name: "x-offset-of-other-decoder", File: gw,
			Old: "int(decoder.InputOffset()), nil", New: "int(json.NewDecoder(bytes.NewReader(in)).InputOffset()), nil",
			Expect: "C24/X1-consumed/*Adapter.Decode#consumed-is-input-offset"},
		// sibling: the decoder is advanced past the bridged message before the offset is read
		Mutant{Name: "x-decoder-advanced-after-message", File: gw,
			Old:    "\tif replyToken != \"\" {\n\t\ta.pushReplyToken(sess, replyToken)\n\t}\n\treturn []frame.Frame{f}",
			New:    "\tif replyToken != \"\" {\n\t\ta.pushReplyToken(sess, replyToken)\n\t}\n\t_ = decoder.More()\n\treturn []frame.Frame{f}",
			Expect: "C24/X1-consumed/*Adapter.Decode#decoder-used-once"},
		// sibling: the decoder starts inside the buffer, its offsets are not offsets into `in`
		Mutant{Name: "x-decoder-over-subslice", File: gw,
			Old: "reader := bytes.NewReader(in)", New: "reader := bytes.NewReader(bytes.TrimLeft(in, \" \\r\\n\\t\"))",
			Expect: "C24/X1-consumed/*Adapter.Decode#decoder-over-whole-input"},
		// sibling: the codec swallows a second value, InputOffset is no longer the end of the bridged message
		Mutant{Name: "x-codec-decodes-two-values", File: codec,
			Old: "\tmsgType, version, err := determineMessageType(&probe)\n", New: "\tif decoder.More() {\n\t\tvar trailer json.RawMessage\n\t\t_ = decoder.Decode(&trailer)\n\t}\n\tmsgType, version, err := determineMessageType(&probe)\n",
			Expect: "C24/X1-consumed/pkg/protocol/jsonrpc.Decode#one-value"},
		// sibling at the mux: the inner adapter's count is replaced
		Mutant{Name: "x-mux-reports-whole-buffer", File: mux,
			Old: "\treturn adapter.Decode(sess, in)", New: "\tframes, _, err := adapter.Decode(sess, in)\n\treturn frames, len(in), err",
			Expect: "C24/X1-consumed/*wsmux.Adapter.Decode#mux-pass-through"},
	)
}

func xc24BytesParam(fn *ssa.Function) *ssa.Parameter {
	var found *ssa.Parameter
	for _, p := range fn.Params {
		if s, ok := p.Type().Underlying().(*types.Slice); ok {
			if b, ok := s.Elem().Underlying().(*types.Basic); ok && b.Kind() == types.Uint8 {
				if found != nil {
					return nil
				}
				found = p
			}
		}
	}
	return found
}

func xc24StripIface(v ssa.Value) ssa.Value {
	for {
		v = stripConv(v)
		mi, ok := v.(*ssa.MakeInterface)
		if !ok {
			return v
		}
		v = mi.X
	}
}

// xc24StaticCall: v is a call of the function/method with that short name.
func xc24StaticCall(v ssa.Value, name string) *ssa.Call {
	call, ok := v.(*ssa.Call)
	if !ok || call.Call.IsInvoke() || calleeName(&call.Call) != name {
		return nil
	}
	return call
}

func xc24IsConstNil(v ssa.Value) bool {
	k, ok := v.(*ssa.Const)
	return ok && k.Value == nil
}

func xc24IsConstZero(v ssa.Value) bool {
	k, ok := stripConv(v).(*ssa.Const)
	if !ok || k.Value == nil {
		return false
	}
	u, isInt := constUint(k)
	return isInt && u == 0
}

func xc24InCycle(b *ssa.BasicBlock) bool {
	seen := map[*ssa.BasicBlock]bool{}
	work := append([]*ssa.BasicBlock(nil), b.Succs...)
	for len(work) > 0 {
		x := work[len(work)-1]
		work = work[:len(work)-1]
		if x == b {
			return true
		}
		if seen[x] {
			continue
		}
		seen[x] = true
		work = append(work, x.Succs...)
	}
	return false
}

// xc24Before: instruction a is executed before b on every path that reaches b.
func xc24Before(a, b ssa.Instruction) bool {
	if a.Block() == b.Block() {
		return indexIn(a.Block(), a) < indexIn(b.Block(), b)
	}
	return a.Block().Dominates(b.Block())
}

// decoder methods that neither move nor bypass the input offset
var xc24DecoderConfig = map[string]bool{
	"encoding/json.Decoder.UseNumber":             true,
	"encoding/json.Decoder.DisallowUnknownFields": true,
	"encoding/json.Decoder.InputOffset":           true,
}

func xc24Consumed(c *Ctx, rule string) {
	const J = "pkg/protocol/jsonrpc."
	const GA = "pkg/gateway/protocol/jsonrpc."
	const W = "pkg/gateway/protocol/wsmux."

	if fn := c.Fn(GA + "Adapter.Decode"); fn != nil {
		fname := c.P.Name(fn)
		pos := c.P.Pos(fn.Pos())
		in := xc24BytesParam(fn)
		var decodeCalls []*ssa.Call
		for _, b := range fn.Blocks {
			for _, ins := range b.Instrs {
				if call := xc24StaticCall2(ins, J+"Decode"); call != nil {
					decodeCalls = append(decodeCalls, call)
				}
			}
		}
		if in == nil || len(decodeCalls) != 1 || len(decodeCalls[0].Call.Args) != 1 {
			for _, k := range []string{"decoder-over-whole-input", "decoder-used-once", "consumed-is-input-offset"} {
				c.add("identity", rule, fname+"#"+k, Undecided, pos, fmt.Sprintf("cannot anchor the rule: need one []byte parameter and exactly one call of %sDecode(decoder) (found %d)", J, len(decodeCalls)))
			}
		} else {
			dcall := decodeCalls[0]
			D := stripConv(dcall.Call.Args[0])

			// (a) the decoder is json.NewDecoder(bytes.NewReader(in)) over the whole parameter
			why := ""
			var reader *ssa.Call
			if nd := xc24StaticCall(D, "encoding/json.NewDecoder"); nd == nil {
				why = "the decoder handed to " + J + "Decode is not created here by encoding/json.NewDecoder: " + Path(D)
			} else {
				src := xc24StripIface(nd.Call.Args[0])
				for _, ctor := range []string{"bytes.NewReader", "bytes.NewBuffer"} {
					if r := xc24StaticCall(src, ctor); r != nil {
						reader = r
					}
				}
				switch {
				case reader == nil:
					why = "the decoder does not read from a bytes reader built here: " + Path(src)
				case stripConv(reader.Call.Args[0]) != ssa.Value(in):
					why = fmt.Sprintf("the decoder reads from %s, not from the whole `%s` parameter: its offsets are not offsets into the buffer the core trims", Path(reader.Call.Args[0]), in.Name())
				}
			}
			if why == "" && reader.Referrers() != nil {
				for _, r := range *reader.Referrers() {
					switch x := r.(type) {
					case *ssa.MakeInterface, *ssa.DebugRef:
					case *ssa.Call:
						n := calleeName(&x.Call)
						if x.Call.IsInvoke() || !(strings.HasSuffix(n, ".Len") || strings.HasSuffix(n, ".Size")) || len(x.Call.Args) == 0 || x.Call.Args[0] != ssa.Value(reader) {
							why = "the reader under the decoder is also used by " + n + " at " + c.P.InstrPos(x) + " (bytes taken there are invisible to the decoder's offset)"
						}
					default:
						why = "the reader under the decoder escapes at " + c.P.InstrPos(r)
					}
				}
			}
			if why != "" {
				c.add("identity", rule, fname+"#decoder-over-whole-input", Violated, c.P.InstrPos(dcall), why)
			} else {
				c.add("identity", rule, fname+"#decoder-over-whole-input", Held, c.P.InstrPos(dcall), "the decoder is json.NewDecoder("+calleeName(&reader.Call)+"("+in.Name()+")): offset 0 of the decoder is offset 0 of the inbound buffer")
			}

			// (b) nothing else advances that decoder
			var bad []string
			if refs := D.Referrers(); refs != nil {
				for _, r := range *refs {
					if r == ssa.Instruction(dcall) {
						continue
					}
					switch x := r.(type) {
					case *ssa.DebugRef:
					case *ssa.Call:
						n := calleeName(&x.Call)
						if x.Call.IsInvoke() || !xc24DecoderConfig[n] || len(x.Call.Args) == 0 || stripConv(x.Call.Args[0]) != D {
							bad = append(bad, n+" at "+c.P.InstrPos(x))
						}
					default:
						bad = append(bad, fmt.Sprintf("%T at %s", r, c.P.InstrPos(r)))
					}
				}
			}
			if len(bad) > 0 {
				c.add("identity", rule, fname+"#decoder-used-once", Violated, c.P.InstrPos(dcall), "the decoder that decodes the bridged message is also used by: "+strings.Join(bad, "; ")+" - its InputOffset is then no longer the end of the ONE bridged message")
			} else {
				c.add("identity", rule, fname+"#decoder-used-once", Held, c.P.InstrPos(dcall), "the decoder instance is used by the one "+J+"Decode call, InputOffset and configuration only")
			}

			// (c) what is reported
			bad = nil
			nFrames, nEmpty := 0, 0
			for _, ins := range instrsMatching(fn, AnyRet{}) {
				ret := ins.(*ssa.Return)
				if len(ret.Results) != 3 {
					continue
				}
				r0, r1 := ret.Results[0], ret.Results[1]
				if xc24IsConstNil(r0) {
					nEmpty++
					if !xc24IsConstZero(r1) {
						bad = append(bad, fmt.Sprintf("return without frames at %s reports %s consumed (must be 0: nothing was bridged, so nothing may be discarded)", c.P.InstrPos(ret), Path(r1)))
					}
					continue
				}
				nFrames++
				off := xc24StaticCall(stripConv(r1), "encoding/json.Decoder.InputOffset")
				switch {
				case off == nil:
					bad = append(bad, fmt.Sprintf("return with frames at %s reports %s, which is not the InputOffset of the decoder that decoded the message (a reader position or buffer length includes the decoder's read-ahead: the messages after the first one are dropped)", c.P.InstrPos(ret), Path(r1)))
				case stripConv(off.Call.Args[0]) != D:
					bad = append(bad, fmt.Sprintf("return with frames at %s reports the InputOffset of %s, not of the decoder handed to %sDecode", c.P.InstrPos(ret), Path(off.Call.Args[0]), J))
				case !xc24Before(dcall, off):
					bad = append(bad, fmt.Sprintf("InputOffset at %s is not evaluated after the %sDecode call", c.P.InstrPos(off), J))
				}
			}
			switch {
			case nFrames == 0:
				c.add("identity", rule, fname+"#consumed-is-input-offset", Undecided, pos, "no return carries frames (vacuous)")
			case len(bad) > 0:
				c.add("identity", rule, fname+"#consumed-is-input-offset", Violated, pos, strings.Join(bad, "; "))
			default:
				c.add("identity", rule, fname+"#consumed-is-input-offset", Held, pos, fmt.Sprintf("%d return(s) with frames report InputOffset() of the decoding decoder, %d return(s) without frames report 0", nFrames, nEmpty))
			}
		}
	}

	// (d) the codec pulls one value
	if fn := c.Fn(J + "Decode"); fn != nil {
		fname := c.P.Name(fn)
		construct := fname + "#one-value"
		var dec *ssa.Parameter
		for _, p := range fn.Params {
			if typeBaseName(p.Type()) == "Decoder" {
				dec = p
			}
		}
		if dec == nil {
			c.add("identity", rule, construct, Undecided, c.P.Pos(fn.Pos()), "no *json.Decoder parameter")
		} else {
			var bad []string
			n := 0
			var uses []ssa.Instruction
			if refs := dec.Referrers(); refs != nil {
				uses = append(uses, *refs...)
			}
			// (a decoder captured by a closure is spilled to a cell: the Store below reports it)
			for _, r := range uses {
				switch x := r.(type) {
				case *ssa.DebugRef:
				case *ssa.Call:
					name := calleeName(&x.Call)
					switch {
					case !x.Call.IsInvoke() && name == "encoding/json.Decoder.Decode" && len(x.Call.Args) > 0 && x.Call.Args[0] == ssa.Value(dec):
						n++
						if xc24InCycle(x.Block()) {
							bad = append(bad, "Decoder.Decode at "+c.P.InstrPos(x)+" is inside a loop")
						}
					case !x.Call.IsInvoke() && xc24DecoderConfig[name]:
					default:
						bad = append(bad, "decoder also used by "+name+" at "+c.P.InstrPos(x))
					}
				default:
					bad = append(bad, fmt.Sprintf("decoder used by %T at %s", r, c.P.InstrPos(r)))
				}
			}
			if n != 1 {
				bad = append(bad, fmt.Sprintf("%d Decoder.Decode call sites (want exactly 1)", n))
			}
			if len(bad) > 0 {
				c.add("identity", rule, construct, Violated, c.P.Pos(fn.Pos()), "the codec does not pull exactly one JSON value from its decoder, so the decoder's InputOffset is not the end of the message that is bridged: "+strings.Join(dedup(bad), "; "))
			} else {
				c.add("identity", rule, construct, Held, c.P.Pos(fn.Pos()), "exactly one Decoder.Decode call on the parameter, not in a loop; no Token/More/Buffered")
			}
		}
	}

	// (e) the mux forwards buffer and count unchanged
	if fn := c.Fn(W + "Adapter.Decode"); fn != nil {
		fname := c.P.Name(fn)
		construct := fname + "#mux-pass-through"
		in := xc24BytesParam(fn)
		var bad []string
		nFwd := 0
		for _, ins := range instrsMatching(fn, AnyRet{}) {
			ret := ins.(*ssa.Return)
			if len(ret.Results) != 3 {
				continue
			}
			if xc24IsConstNil(ret.Results[0]) {
				if !xc24IsConstZero(ret.Results[1]) {
					bad = append(bad, fmt.Sprintf("return without frames at %s reports %s consumed", c.P.InstrPos(ret), Path(ret.Results[1])))
				}
				continue
			}
			var inner *ssa.Call
			ok := true
			for i, r := range ret.Results {
				ex, isEx := r.(*ssa.Extract)
				if !isEx || ex.Index != i {
					ok = false
					break
				}
				call, isCall := ex.Tuple.(*ssa.Call)
				if !isCall || (inner != nil && inner != call) {
					ok = false
					break
				}
				inner = call
			}
			switch {
			case !ok || inner == nil:
				bad = append(bad, fmt.Sprintf("return at %s is (%s, %s, …), not the selected adapter's own (frames, consumed, err) triple", c.P.InstrPos(ret), Path(ret.Results[0]), Path(ret.Results[1])))
			case !inner.Call.IsInvoke() || inner.Call.Method.Name() != "Decode":
				bad = append(bad, fmt.Sprintf("return at %s forwards %s, which is not an adapter's Decode", c.P.InstrPos(ret), calleeName(&inner.Call)))
			case in == nil || len(inner.Call.Args) != 2 || stripConv(inner.Call.Args[1]) != ssa.Value(in):
				bad = append(bad, fmt.Sprintf("the inner Decode at %s is not given the unmodified inbound buffer parameter, so its count is not a count into that buffer", c.P.InstrPos(inner)))
			default:
				nFwd++
			}
		}
		switch {
		case len(bad) > 0:
			c.add("identity", rule, construct, Violated, c.P.Pos(fn.Pos()), strings.Join(bad, "; "))
		case nFwd == 0:
			c.add("identity", rule, construct, Undecided, c.P.Pos(fn.Pos()), "no return forwards an inner adapter's Decode (vacuous)")
		default:
			c.add("identity", rule, construct, Held, c.P.Pos(fn.Pos()), fmt.Sprintf("%d return(s) forward the selected adapter's Decode(sess, in) triple unchanged; the others report 0", nFwd))
		}
	}
}

func xc24StaticCall2(ins ssa.Instruction, name string) *ssa.Call {
	v, ok := ins.(ssa.Value)
	if !ok {
		return nil
	}
	return xc24StaticCall(v, name)
}
