package main

// C37 extension (after wave-7 seed C37-b): batch identity. A function of the batch pool that is handed a batch
// (a parameter of type []boundedBatchPoolTask[T]) passes on — to the executor, to the cancel sweep, to the retry loop,
// to len() for the slot release — only THAT batch: the parameter variable itself (possibly grown in place through its
// address), never another slice value. Otherwise items pulled into one slice while the hand-off is retried are
// forgotten by the paths that still hold the other one (never run, never cancelled, slots leaked).

import (
	"fmt"
	"go/token"
	"go/types"
	"strings"

	"golang.org/x/tools/go/ssa"
)

func init() {
	extend("C37", nil, func(c *Ctx) {
		isBatch := func(t types.Type) bool {
			sl, ok := t.Underlying().(*types.Slice)
			return ok && strings.Contains(typeBaseName(sl.Elem()), "boundedBatchPoolTask")
		}
		n := 0
		for _, fn := range c.P.AllFuncs {
			if !strings.HasPrefix(c.P.Name(fn), "pkg/workqueue.BoundedBatchPool.") || fn.Parent() != nil {
				continue
			}
			var param *ssa.Parameter
			for _, p := range fn.Params {
				if isBatch(p.Type()) {
					param = p
				}
			}
			if param == nil {
				continue
			}
			// the variable the parameter lives in (spilled when its address is taken)
			var home *ssa.Alloc
			for _, r := range *param.Referrers() {
				if st, ok := r.(*ssa.Store); ok && st.Val == ssa.Value(param) {
					if a, ok := st.Addr.(*ssa.Alloc); ok {
						home = a
					}
				}
			}
			var isTheBatch func(v ssa.Value, d int) bool
			isTheBatch = func(v ssa.Value, d int) bool {
				if d > 6 {
					return false
				}
				switch x := v.(type) {
				case *ssa.Parameter:
					return x == param
				case *ssa.UnOp:
					return x.Op == token.MUL && home != nil && x.X == ssa.Value(home)
				case *ssa.Alloc:
					return x == home // &batch
				case *ssa.Slice:
					return isTheBatch(x.X, d+1)
				case *ssa.Phi:
					for _, e := range x.Edges {
						if !isTheBatch(e, d+1) {
							return false
						}
					}
					return len(x.Edges) > 0
				case *ssa.MakeInterface:
					return isTheBatch(x.X, d+1)
				}
				return false
			}
			var bad []string
			sites := 0
			for _, b := range fn.Blocks {
				for _, in := range b.Instrs {
					ci, ok := in.(ssa.CallInstruction)
					if !ok {
						continue
					}
					for _, a := range callArgs(ci.Common()) {
						t := a.Type()
						if p, isPtr := t.Underlying().(*types.Pointer); isPtr {
							t = p.Elem()
						}
						if mi, isMI := a.(*ssa.MakeInterface); isMI {
							t = mi.X.Type()
						}
						if !isBatch(t) {
							continue
						}
						sites++
						if !isTheBatch(a, 0) {
							bad = append(bad, fmt.Sprintf("%s receives %s at %s", calleeName(ci.Common()), Path(a), c.P.InstrPos(in)))
						}
					}
				}
			}
			if sites == 0 {
				continue
			}
			n++
			construct := c.P.Name(fn) + "#passes-on-only-its-own-batch"
			if len(bad) > 0 {
				c.add("flow", "X3-batch-identity", construct, Violated, c.P.Pos(fn.Pos()), "a different slice than the batch this function was handed is passed on (items held by one of the two are lost to the paths that use the other): "+strings.Join(bad, "; "))
			} else {
				c.add("flow", "X3-batch-identity", construct, Held, c.P.Pos(fn.Pos()), fmt.Sprintf("%d call argument(s) of batch type, all the function's own batch variable", sites))
			}
		}
		c.Min("X3-batch-identity", 3)
	},
		Mutant{Name: "x-executor-invokes-a-copy-of-the-batch", File: "pkg/workqueue/bounded_batch_pool.go",
			Old: "\t\terr := p.pool.Invoke(batch)\n", New: "\t\tready := append([]boundedBatchPoolTask[T](nil), batch...)\n\t\terr := p.pool.Invoke(ready)\n", Expect: "C37/X3-batch-identity/*submitToExecutor*"},
	)
}
