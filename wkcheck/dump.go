package main

import (
	"fmt"
	"strings"

	"golang.org/x/tools/go/ssa"
)

// dumpFunc prints the function in the checker's own vocabulary (what guard
// atoms, effects and calls look like), for writing and debugging rule tables.
func dumpFunc(p *Program, fn *ssa.Function) {
	fmt.Printf("== %s  (%s)\n", p.Name(fn), p.Pos(fn.Pos()))
	for _, b := range fn.Blocks {
		var succ []string
		for _, s := range b.Succs {
			succ = append(succ, fmt.Sprint(s.Index))
		}
		fmt.Printf(" b%d → [%s] %s\n", b.Index, strings.Join(succ, ","), b.Comment)
		for _, in := range b.Instrs {
			switch x := in.(type) {
			case *ssa.If:
				a, ok := condAtom(x.Cond, true)
				if ok {
					fmt.Printf("    if %s   [%s]\n", a, p.InstrPos(in))
				} else {
					fmt.Printf("    if <%s>\n", Path(x.Cond))
				}
			case *ssa.Store:
				fmt.Printf("    store %s = %s   [%s]\n", Path(x.Addr), Path(x.Val), p.InstrPos(in))
			case *ssa.MapUpdate:
				fmt.Printf("    mapset %s[%s] = %s\n", Path(x.Map), Path(x.Key), Path(x.Value))
			case *ssa.Return:
				var rs []string
				for i := range x.Results {
					rs = append(rs, Path(retOperand(x, i)))
				}
				fmt.Printf("    return %s   [%s]\n", strings.Join(rs, ", "), p.InstrPos(in))
			case ssa.CallInstruction:
				kind := "call"
				if _, ok := in.(*ssa.Defer); ok {
					kind = "defer"
				}
				if _, ok := in.(*ssa.Go); ok {
					kind = "go"
				}
				fmt.Printf("    %s %s   [%s]\n", kind, renderCall(x.Common(), 0, nil), p.InstrPos(in))
			case *ssa.Panic:
				fmt.Printf("    panic %s\n", Path(x.X))
			case *ssa.Send:
				fmt.Printf("    send %s <- %s\n", Path(x.Chan), Path(x.X))
			}
		}
	}
}
