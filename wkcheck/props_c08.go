package main

import (
	"fmt"
	"go/token"
	"go/types"
	"sort"
	"strings"

	"golang.org/x/tools/go/ssa"
)

const c08Pkg = "pkg/db/message"

func init() {
	const appendGo = "pkg/db/message/append.go"
	const filterGo = "pkg/db/message/idempotency_filter.go"
	const idemGo = "pkg/db/message/idempotency.go"
	const registryGo = "pkg/db/message/channel_registry.go"
	register(&PropSpec{
		ID:        "C08",
		Pkgs:      []string{"./pkg/db/message"},
		Technique: "static analysis: SSA edge-dominance guards on validateAppendRow's success returns, sibling agreement of the negative filter's add/probe bit expressions, loop-exhaustion guard on the filter rebuild, who-may-write/who-may-call confinement of the filter state and of the idempotency-index writers",
		Explain: "Decides the structural clause of (sender, client-msg-no) uniqueness inside pkg/db/message: every success return of validateAppendRow for a row that carries both keys lies behind the in-batch duplicate tests (rememberMessageID, rememberIdempotencyKey) and behind one of exactly three proofs - the AppendTrustedContiguous arm, a negative answer of the membership filter taken after ensureIdempotencyMembershipLoaded succeeded, or the durable lookupIdempotencyByKey read with no hit / a hit at the row's own sequence; only AppendStrict performs (and only the other modes skip) the global message-id read, and every accepted key is added to a loaded filter before returning. " +
			"The filter can only err towards 'may contain': bits are only OR-ed, add and mayContain use the same hash helper, the same bit/mask expressions and the same probe count, mayContain is the union of every layer add writes, seeds are set once; the loaded flag becomes true only after the iterator over the whole idempotency prefix was exhausted without error, and flag and filter are only copied/reset together (registry warm state). Every producer of rows for the commit owner validates them with validateAppendRow, and every other writer of idempotency keys (PutIdempotency, ReplaceRecoverySuffix, backup import) keeps a loaded filter current or invalidates the warm state. " +
			"NOT decided: that encodeMessageIdempotencyIndexKey and appendKeyCache.writeIdempotencyIndexKey produce identical bytes, maphash collision behaviour / false-positive rate, that callers of the trusted mode really pre-validated their rows, that appendMu is held (C07), behaviour across histories, cross-channel message-id uniqueness beyond the strict-mode read.",
		Run: c08,
		Mutants: []Mutant{
			{Name: "drop-inbatch-idempotency-test", File: appendGo,
				Old:    "if seen.rememberIdempotencyKey(key) {\n\t\treturn fmt.Errorf(\"%w: duplicate idempotency key\", dberrors.ErrConflict)\n\t}",
				New:    "seen.rememberIdempotencyKey(key)",
				Expect: "C08/R1-validate/*rememberIdempotencyKey*"},
			{Name: "server-allocated-skips-idempotency-read", File: appendGo,
				Old: "if mode == AppendTrustedContiguous {\n\t\t// A follower", New: "if mode != AppendStrict {\n\t\t// A follower",
				Expect: "C08/R1-validate/*"},
			{Name: "conflict-compare-weakened", File: appendGo,
				Old: "if ok && hit.MessageSeq != row.MessageSeq {", New: "if ok && hit.MessageSeq > row.MessageSeq {",
				Expect: "C08/R1-validate/*MessageSeq == row.MessageSeq*"},
			{Name: "negative-path-forgets-add", File: appendGo,
				Old:    "l.idempotencyMembership.add(scratch.idempotencyIndexKey)\n\t\tl.db.idempotencyNegativeFilterSkips.Add(1)",
				New:    "l.db.idempotencyNegativeFilterSkips.Add(1)",
				Expect: "C08/R1-validate/*after:*"},
			{Name: "ensure-error-ignored", File: appendGo,
				Old:    "if err := l.ensureIdempotencyMembershipLoaded(ctx); err != nil {\n\t\treturn err\n\t}",
				New:    "_ = l.ensureIdempotencyMembershipLoaded(ctx)",
				Expect: "C08/R1-validate/*ensureIdempotencyMembershipLoaded*"},
			{Name: "strict-lookup-and-instead-of-or", File: appendGo,
				Old: "if ok && (channelKey != l.key || existingSeq != row.MessageSeq) {", New: "if ok && (channelKey != l.key && existingSeq != row.MessageSeq) {",
				Expect: "C08/R1-validate/*lookupGlobalMessageIDByKey*"},
			{Name: "strict-lookup-skipped-for-strict", File: appendGo,
				Old: "if mode == AppendStrict {\n\t\tscratch.globalMessageIDKey", New: "if mode == AppendServerAllocatedMessageID {\n\t\tscratch.globalMessageIDKey",
				Expect: "C08/R1-validate/*lookupGlobalMessageIDByKey*"},
			{Name: "filter-add-sets-fewer-bits", File: filterGo,
				Old:    "for i := uint64(0); i < idempotencyMembershipHashCount; i++ {\n\t\tbit := (h1 + i*h2) & mask\n\t\tbits[bit>>6] |=",
				New:    "for i := uint64(0); i < idempotencyMembershipHashCount-1; i++ {\n\t\tbit := (h1 + i*h2) & mask\n\t\tbits[bit>>6] |=",
				Expect: "C08/R2-filter/*sibling*"},
			{Name: "filter-probe-and", File: filterGo,
				Old:    "return idempotencyMembershipLayerMayContain(f.primaryBits, h1, h2) ||\n\t\tidempotencyMembershipLayerMayContain(f.overflowBits, h1, h2)\n}",
				New:    "return idempotencyMembershipLayerMayContain(f.primaryBits, h1, h2) &&\n\t\tidempotencyMembershipLayerMayContain(f.overflowBits, h1, h2)\n}",
				Expect: "C08/R2-filter/*union*"},
			{Name: "filter-probe-forgets-overflow", File: filterGo,
				Old:    "return idempotencyMembershipLayerMayContain(f.primaryBits, h1, h2) ||\n\t\tidempotencyMembershipLayerMayContain(f.overflowBits, h1, h2)\n}",
				New:    "return idempotencyMembershipLayerMayContain(f.primaryBits, h1, h2)\n}",
				Expect: "C08/R2-filter/*union*"},
			{Name: "filter-bit-cleared", File: filterGo,
				Old: "bits[bit>>6] |= uint64(1) << (bit & 63)", New: "bits[bit>>6] = uint64(1) << (bit & 63)",
				Expect: "C08/R2-filter/*or-only*"},
			{Name: "filter-fresh-seed-per-call", File: filterGo,
				Old: "h1 := maphash.Bytes(idempotencyMembershipSeed1, key)", New: "h1 := maphash.Bytes(maphash.MakeSeed(), key)",
				Expect: "C08/R2-filter/*maphash.Bytes*"},
			{Name: "rebuild-stops-early", File: idemGo,
				Old:    "\t\tl.idempotencyMembership.add(iter.Key())\n\t}",
				New:    "\t\tl.idempotencyMembership.add(iter.Key())\n\t\tif l.idempotencyMembership.primaryAdds >= idempotencyMembershipPrimaryCapacity {\n\t\t\tbreak\n\t\t}\n\t}",
				Expect: "C08/R2-rebuild/*exhausted*"},
			{Name: "rebuild-ignores-iterator-error", File: idemGo,
				Old:    "\tif err := iter.Error(); err != nil {\n\t\treturn err\n\t}\n\tl.idempotencyMembershipLoaded = true",
				New:    "\tl.idempotencyMembershipLoaded = true",
				Expect: "C08/R2-rebuild/*Iter.Error*"},
			{Name: "warm-loaded-flag-from-leo-flag", File: registryGo,
				Old: "entry.idempotencyMembershipLoaded = warm.idempotencyMembershipLoaded", New: "entry.idempotencyMembershipLoaded = warm.loaded",
				Expect: "C08/R3-state/*"},
			{Name: "warm-flag-without-filter", File: registryGo,
				Old: "\t\t\tentry.idempotencyMembership = warm.idempotencyMembership\n", New: "",
				Expect: "C08/R3-state/*paired*"},
			{Name: "put-idempotency-skips-filter", File: "pkg/db/message/compat.go",
				Old:    "\tif s.log.idempotencyMembershipLoaded {\n\t\t// Adding before commit can only create a false positive if commit fails.\n\t\ts.log.idempotencyMembership.add(storageKey)\n\t}\n",
				New:    "",
				Expect: "C08/R4-writers/*PutIdempotency*"},
			{Name: "recovery-replace-skips-filter", File: "pkg/db/message/recovery_replace.go",
				Old: "\tif s.log.idempotencyMembershipLoaded {\n\t\tcache := s.log.appendKeyCache", New: "\tif false {\n\t\tcache := s.log.appendKeyCache",
				Expect: "C08/R4-writers/*ReplaceRecoverySuffix*"},
			{Name: "commit-rows-not-validated", File: "pkg/db/message/compat.go",
				Old:    "\tif err := s.validateRowsForAppendSeen(ctx, rows, mode, seen); err != nil {\n\t\treturn preparedCommitRows{}, err\n\t}\n\tprepared.rows = rows",
				New:    "\tprepared.rows = rows",
				Expect: "C08/R4-writers/*preparedCommitRows.rows*"},
		},
	})
}

// c08Const resolves a package-level constant to its exact value string.
func c08Const(c *Ctx, name string) string {
	pk := c.P.Pkgs[c08Pkg]
	if pk != nil {
		if k, ok := pk.Types.Scope().Lookup(name).(*types.Const); ok {
			return k.Val().ExactString()
		}
	}
	c.add("anchor", "anchor", c08Pkg+"."+name, Undecided, "", "anchored constant not found")
	return "<missing:" + name + ">"
}

func c08(c *Ctx) {
	p := c08Pkg + "."
	strict := c08Const(c, "AppendStrict")
	trusted := c08Const(c, "AppendTrustedContiguous")
	hashCount := c08Const(c, "idempotencyMembershipHashCount")

	// ---------------------------------------------------------------- R1
	val := c.Fn(p + "ChannelLog.validateAppendRow")
	noKey := `row.FromUID == "" || row.ClientMsgNo == ""`
	notStrict := "mode != " + strict
	isTrusted := "mode == " + trusted
	glk := "*.lookupGlobalMessageIDByKey(*)"
	ilk := "*.lookupIdempotencyByKey(*)"
	c.Guard("R1-validate", val, RetNil{},
		"*.messageRow.validate(row) == nil",
		"*.rememberMessageID(seen, row.MessageID) == false",
		// strict mode: the global message-id read succeeded and found nothing, or this very row
		notStrict+" || "+glk+"#3 == nil",
		notStrict+" || "+glk+"#2 == false || "+glk+"#0 == l.channelEntry.key",
		notStrict+" || "+glk+"#2 == false || "+glk+"#1 == row.MessageSeq",
		// rows with both keys: in-batch test, then one of the three proofs
		noKey+" || *.rememberIdempotencyKey(seen, *) == false",
		noKey+" || "+isTrusted+" || *.ensureIdempotencyMembershipLoaded(*) == nil",
		noKey+" || "+isTrusted+" || *.idempotencyMembershipFilter.mayContain(*) == false || "+ilk+"#2 == nil",
		noKey+" || "+isTrusted+" || *.idempotencyMembershipFilter.mayContain(*) == false || "+ilk+"#1 == false || *.MessageSeq == row.MessageSeq",
		// an accepted key is added to the filter unless the filter is not loaded (trusted arm only)
		noKey+" || *.idempotencyMembershipLoaded == false || after: *.idempotencyMembershipFilter.add",
	)
	// the filter is consulted only once it is known to cover the durable prefix
	c.Guard("R1-validate", val, CallTo{"*.idempotencyMembershipFilter.mayContain"}, "*.ensureIdempotencyMembershipLoaded(*) == nil", "mode != "+trusted)
	// the same storage key is probed, added and read back; it is derived from the row's own keys
	c.CallShape("R1-validate", val, "*.idempotencyMembershipFilter.mayContain", "*(l.channelEntry.idempotencyMembership, scratch.idempotencyIndexKey)")
	c.CallShape("R1-validate", val, "*.idempotencyMembershipFilter.add", "*(l.channelEntry.idempotencyMembership, scratch.idempotencyIndexKey)")
	c.CallShape("R1-validate", val, "*.lookupIdempotencyByKey", "*(l, ctx, *, scratch.idempotencyIndexKey)")
	c.StoreShape("R1-validate", val, "scratch.idempotencyIndexKey", "*.appendKeyCache.idempotencyIndexKeyTo(cache, scratch.idempotencyIndexKey, *.FromUID, *.ClientMsgNo)")
	c.CallShape("R1-validate", val, "*.lookupGlobalMessageIDByKey", "*(l, ctx, scratch.globalMessageIDKey)")
	c.StoreShape("R1-validate", val, "scratch.globalMessageIDKey", "*.appendKeyCache.globalMessageIDIndexKeyTo(cache, scratch.globalMessageIDKey, row.MessageID)")
	c.StoreShape("R1-validate", val, "*.FromUID", "row.FromUID")
	c.StoreShape("R1-validate", val, "*.ClientMsgNo", "row.ClientMsgNo")
	// in-batch memory: "seen before" is answered false only after the key was recorded
	c.Guard("R1-seen", c.Fn(p+"appendValidationSeen.rememberMessageID"), Ret{0, "false"}, "*.messageIDs[messageID]#1 == false")
	c.Guard("R1-seen", c.Fn(p+"appendValidationSeen.rememberIdempotencyKey"), Ret{0, "false"},
		"*.hasIdempotencyKey == false || *.firstIdempotencyKey != key",
		"*.hasIdempotencyKey == false || *.idempotencyKeys[key]#1 == false")
	// every row of an append walk is validated before it is handed to the stager
	walk := c.Fn(p + "ChannelLog.walkAppendRowsLocked")
	c.Guard("R1-walk", walk, CallTo{"dyn:onRow"}, "*.validateAppendRow(*) == nil")
	c.CallShape("R1-walk", walk, "*.validateAppendRow", "*(l, ctx, *, *, opts.Mode, *, *)")
	c.ConfineCalls("R1-walk", p+"ChannelLog.validateAppendRow", 2, p+"ChannelLog.walkAppendRowsLocked", p+"ChannelStore.validateRowsForAppendSeen")
	// the durable lookup answers "no hit" only when the key is absent
	c.Guard("R1-lookup", c.Fn(p+"ChannelLog.lookupIdempotencyByKey"), Ret{1, "*.Get(*)#1"}, "*.Get(*)#2 != nil || *.Get(*)#1 == false")

	// ---------------------------------------------------------------- R2 filter
	add := c.Fn(p + "idempotencyMembershipFilter.add")
	may := c.Fn(p + "idempotencyMembershipFilter.mayContain")
	layerAdd := c.Fn(p + "idempotencyMembershipLayerAdd")
	layerMay := c.Fn(p + "idempotencyMembershipLayerMayContain")
	hashes := c.Fn(p + "idempotencyMembershipHashes")
	c08SiblingBits(c, "R2-filter", layerAdd, layerMay)
	c08OrOnly(c, "R2-filter", layerAdd)
	c08Union(c, "R2-filter", add, may)
	c.Guard("R2-filter", layerMay, Ret{0, "false"}, "len(bits) == 0 || (bits[*] & *) == 0")
	c.Guard("R2-filter", layerMay, Ret{0, "true"}, "* >= "+hashCount)
	c.Guard("R2-filter", may, Ret{0, "false"}, "f == nil || len(f.primaryBits) == 0")
	c.Guard("R2-filter", add, AnyRet{}, "f == nil || *idempotencyMembershipLayerMayContain(*) == true || after: *idempotencyMembershipLayerAdd")
	hashShape := "*(f.*Bits, " + p + "idempotencyMembershipHashes(key)#0, " + p + "idempotencyMembershipHashes(key)#1)"
	c.CallShape("R2-filter", add, "*idempotencyMembershipLayer*", hashShape)
	c.CallShape("R2-filter", may, "*idempotencyMembershipLayer*", hashShape)
	c.CallShape("R2-filter", hashes, "hash/maphash.Bytes", "hash/maphash.Bytes("+p+"idempotencyMembershipSeed1, key)", "hash/maphash.Bytes("+p+"idempotencyMembershipSeed2, key)")
	c.Guard("R2-filter", hashes, AnyRet{}, "after: hash/maphash.Bytes")
	c08GlobalOnlyInit(c, "R2-filter", []string{"idempotencyMembershipSeed1", "idempotencyMembershipSeed2"})
	c.ConfineCalls("R2-filter", p+"idempotencyMembershipLayerAdd", 2, p+"idempotencyMembershipFilter.add")
	c.ConfineStores("R2-filter", p+"idempotencyMembershipFilter.primaryBits", true, p+"idempotencyMembershipFilter.add")
	c.ConfineStores("R2-filter", p+"idempotencyMembershipFilter.overflowBits", true, p+"idempotencyMembershipFilter.add")
	c.Guard("R2-filter", add, StoreTo{Addr: "f.primaryBits"}, "f.primaryBits == nil")
	c.Guard("R2-filter", add, StoreTo{Addr: "f.overflowBits"}, "f.overflowBits == nil")

	// ---------------------------------------------------------------- R2 rebuild
	ens := c.Fn(p + "ChannelLog.ensureIdempotencyMembershipLoaded")
	loadedTrue := StoreTo{Addr: "*.idempotencyMembershipLoaded", Val: "true"}
	c.Guard("R2-rebuild", ens, loadedTrue, "*.Iter.Error(*) == nil", "*.DB.NewIter(*)#1 == nil")
	c.Guard("R2-rebuild", ens, RetNil{}, "*.idempotencyMembershipLoaded == true || *.Iter.Error(*) == nil")
	c08LoopExhausted(c, "R2-rebuild", ens, loadedTrue)
	c.CallShape("R2-rebuild", ens, "*keycodec.NewPrefixSpan", "*(l.channelEntry.appendKeyCache.idempotencyIndexPrefix)")
	c.CallShape("R2-rebuild", ens, "*.DB.NewIter", "*(l.channelEntry.db.engine, alloc:Span, zero:IterOptions)")
	c.StoreShape("R2-rebuild", ens, "alloc:Span.Start", "*.Start")
	c.StoreShape("R2-rebuild", ens, "alloc:Span.End", "*.End")
	c.CallShape("R2-rebuild", ens, "*.idempotencyMembershipFilter.add", "*(l.channelEntry.idempotencyMembership, *.Iter.Key(*))")

	// ---------------------------------------------------------------- R3 state confinement
	acquire := p + "channelRegistry.acquire"
	retain := p + "channelRegistry.retainWarmLocked"
	c.ConfineStores("R3-state", p+"channelEntry.idempotencyMembershipLoaded", true, p+"ChannelLog.ensureIdempotencyMembershipLoaded", acquire, retain)
	c.ConfineStores("R3-state", p+"channelEntry.idempotencyMembership", true, acquire, retain)
	c.ConfineStores("R3-state", p+"channelWarmState.idempotencyMembershipLoaded", true, retain)
	c.ConfineStores("R3-state", p+"channelWarmState.idempotencyMembership", true, retain)
	c.StoreShape("R3-state", c.Fn(acquire), "*.idempotencyMembershipLoaded", "*.takeWarmLocked(*)#0.idempotencyMembershipLoaded")
	c.StoreShape("R3-state", c.Fn(retain), "*.idempotencyMembershipLoaded", "entry.idempotencyMembershipLoaded", "false")
	c08PairedCopy(c, "R3-state", c.Fn(acquire))
	c08PairedCopy(c, "R3-state", c.Fn(retain))

	// ---------------------------------------------------------------- R4 other writers of idempotency keys
	c.ConfineCalls("R4-writers", p+"channelEntry.stageIdempotencyIndexRow", 1, p+"channelEntry.stageMessageRow")
	c.ConfineCalls("R4-writers", p+"appendKeyCache.writeIdempotencyIndexKey", 2, p+"channelEntry.stageIdempotencyIndexRow", p+"appendKeyCache.idempotencyIndexKeyTo", p+"appendKeyCache.idempotencyIndexKey")
	c.ConfineCalls("R4-writers", p+"channelEntry.stageMessageRow", 4,
		p+"ChannelLog.prepareAndStageAppendLocked", // closure of the validated walk
		p+"channelEntry.stageMessageRows",
		p+"MessageDB.importBackupChannel", p+"MessageDB.importMessageBackupChannelStream") // restore into a detached entry after invalidateWarm
	c.ConfineCalls("R4-writers", p+"channelEntry.stageMessageRows", 2, p+"ChannelLog.ApplyFetch", p+"channelEntry.stageCommitRows")
	c.ConfineCalls("R4-writers", p+"channelEntry.stageCommitRows", 3,
		p+"commitPreparedRowsBatchResult", p+"commitPreparedCheckpointHWBatch*", p+"ChannelStore.ReplaceRecoverySuffix", p+"*ommit*heckpoint*")
	// ApplyFetch stages exactly the rows it validated (trusted arm keeps a loaded filter current)
	af := c.Fn(p + "ChannelLog.ApplyFetch")
	c.Guard("R4-writers", af, CallTo{"*.stageMessageRows"}, "*.prepareAppendRowsLocked(*)#2 == nil")
	c.CallShape("R4-writers", af, "*.stageMessageRows", "*(l.channelEntry, *, "+p+"ChannelLog.prepareAppendRowsLocked(*)#0)")
	// rows handed to the commit owner were validated by validateAppendRow
	c08FieldStoreGuard(c, "R4-writers", p+"preparedCommitRows.rows", 4,
		map[string]string{"append(target.rows, item.rows)": "mergePreparedCommitRows concatenates rows of two already prepared (validated) items of one batch"},
		"*.validateRowsForAppend(*) == nil || *.validateRowsForAppendSeen(*) == nil || *.validateRecoveryRows(*) == nil")
	vs := c.Fn(p + "ChannelStore.validateRowsForAppendSeen")
	c.Guard("R4-writers", vs, RetNil{}, "* >= len(rows)")
	c.c08IterGuard("R4-writers", vs, "*.validateAppendRow(*) == nil")
	c.CallShape("R4-writers", vs, "*.validateAppendRow", "*(s.log, ctx, *, seen, mode, *, *)")
	// recovery replacement validates its rows against everything that survives the cut (<= keepThrough)
	vr := c.Fn(p + "ChannelStore.validateRecoveryRows")
	noKey2 := `*.FromUID == "" || *.ClientMsgNo == ""`
	c.Guard("R4-writers", vr, RetNil{}, "* >= len(rows)")
	c.c08IterGuard("R4-writers", vr,
		"*.messageRow.validate(*) == nil",
		"*.rememberMessageID(seen, *.MessageID) == false",
		glk+"#3 == nil",
		glk+"#2 == false || "+glk+"#0 == s.log.channelEntry.key",
		glk+"#2 == false || "+glk+"#1 > keepThrough",
		noKey2+" || *.rememberIdempotencyKey(seen, *) == false",
		noKey2+" || "+ilk+"#2 == nil",
		noKey2+" || "+ilk+"#1 == false || *.MessageSeq > keepThrough",
	)
	// PutIdempotency writes a key without a row: a loaded filter learns it first
	put := c.Fn(p + "ChannelStore.PutIdempotency")
	c.Guard("R4-writers", put, CallTo{"*engine.Batch.Set"}, "*.idempotencyMembershipLoaded == false || after: *.idempotencyMembershipFilter.add")
	c.CallShape("R4-writers", put, "*.idempotencyMembershipFilter.add", "*(s.log.channelEntry.idempotencyMembership, "+p+"encodeMessageIdempotencyIndexKey(s.log.channelEntry.key, key.FromUID, key.ClientMsgNo))")
	// recovery replacement re-adds the replaced rows' keys after the commit
	rep := c.Fn(p + "ChannelStore.ReplaceRecoverySuffix")
	c.Guard("R4-writers", rep, RetNil{}, "*.idempotencyMembershipLoaded == false || * >= len(*.rows)")
	c.CallShape("R4-writers", rep, "*.idempotencyMembershipFilter.add", "*(s.log.channelEntry.idempotencyMembership, "+p+"appendKeyCache.idempotencyIndexKey(s.log.channelEntry.appendKeyCache, *.FromUID, *.ClientMsgNo))")
	// backup import bypasses validation: it must drop any warm filter first
	for _, n := range []string{"MessageDB.importBackupChannel", "MessageDB.importMessageBackupChannelStream"} {
		c.Guard("R4-writers", c.Fn(p+n), CallTo{"*.stageMessageRow"}, "after: *.channelRegistry.invalidateWarm")
	}

	c.Min("R1-validate", 20)
	c.Min("R2-filter", 17)
	c.Min("R2-rebuild", 9)
	c.Min("R3-state", 8)
	c.Min("R4-writers", 28)
}

// c08IterGuard: in every loop of fn, one full iteration (from the body's first
// block back to the loop header) is possible only through an edge that
// establishes the guard (or through an "after:" call). Unlike Guard, a fact
// established in an earlier iteration does not count for a later one.
func (c *Ctx) c08IterGuard(rule string, fn *ssa.Function, guards ...string) {
	if fn == nil {
		return
	}
	fname := c.P.Name(fn)
	type loop struct {
		head, body *ssa.BasicBlock
	}
	var loops []loop
	seenHead := map[*ssa.BasicBlock]bool{}
	for _, b := range fn.Blocks {
		for _, h := range b.Succs {
			if !h.Dominates(b) || seenHead[h] {
				continue
			}
			seenHead[h] = true
			for _, s := range h.Succs {
				if s != h && s.Dominates(b) {
					loops = append(loops, loop{h, s})
				}
			}
		}
	}
	if len(loops) == 0 {
		c.add("guard", rule, fname+"#iteration", Undecided, c.P.Pos(fn.Pos()), "no loop found (vacuous)")
		return
	}
	for _, gs := range guards {
		g := parseGuard(gs)
		removed, descr := guardEdges(fn, g)
		c.EdgesRemoved += len(removed)
		var bad []string
		for _, lp := range loops {
			seen := map[*ssa.BasicBlock]bool{lp.body: true}
			work := []*ssa.BasicBlock{lp.body}
			for len(work) > 0 {
				b := work[len(work)-1]
				work = work[:len(work)-1]
				if barrierIndex(b, g.afters) >= 0 {
					continue
				}
				for si, s := range b.Succs {
					if removed[edge{b, si}] {
						continue
					}
					if s == lp.head {
						bad = append(bad, c.P.InstrPos(b.Instrs[len(b.Instrs)-1]))
						continue
					}
					if !seen[s] && lp.body.Dominates(s) {
						seen[s] = true
						work = append(work, s)
					}
				}
			}
		}
		construct := fname + "#iteration⇐" + gs
		if len(bad) == 0 {
			c.add("guard", rule, construct, Held, c.P.Pos(fn.Pos()), fmt.Sprintf("%d loop(s); %d guard edge(s) removed [%s]; no iteration completes without the guard", len(loops), len(removed), strings.Join(dedup(descr), "; ")))
		} else {
			c.add("guard", rule, construct, Violated, bad[0], fmt.Sprintf("in %s a loop iteration can complete without %q (back-edges at %s)", fname, gs, strings.Join(dedup(bad), ", ")))
		}
	}
}

// c08Canon renders an expression structurally without a depth limit
// (registers only: parameters, constants, arithmetic, len, loads, index
// expressions; loop counters as φ with a back-reference marker).
func c08Canon(v ssa.Value, seen map[ssa.Value]bool) string {
	switch x := v.(type) {
	case *ssa.Parameter:
		return x.Name()
	case *ssa.Const:
		return constString(x)
	case *ssa.Convert:
		return c08Canon(x.X, seen)
	case *ssa.ChangeType:
		return c08Canon(x.X, seen)
	case *ssa.BinOp:
		return "(" + c08Canon(x.X, seen) + " " + x.Op.String() + " " + c08Canon(x.Y, seen) + ")"
	case *ssa.UnOp:
		if x.Op == token.MUL {
			return "*" + c08Canon(x.X, seen)
		}
		return x.Op.String() + c08Canon(x.X, seen)
	case *ssa.IndexAddr:
		return c08Canon(x.X, seen) + "[" + c08Canon(x.Index, seen) + "]"
	case *ssa.Phi:
		if seen[x] {
			return "φ↺"
		}
		seen[x] = true
		var parts []string
		for _, e := range x.Edges {
			parts = append(parts, c08Canon(e, seen))
		}
		delete(seen, x)
		sort.Strings(parts)
		return "φ(" + strings.Join(parts, "|") + ")"
	case *ssa.Call:
		if b, ok := x.Call.Value.(*ssa.Builtin); ok {
			var parts []string
			for _, a := range x.Call.Args {
				parts = append(parts, c08Canon(a, seen))
			}
			return b.Name() + "(" + strings.Join(parts, ",") + ")"
		}
	}
	return fmt.Sprintf("?%T:%s", v, Path(v))
}

// c08SiblingBits: the (word index, bit mask, loop bound) of the filter's
// writer and prober are structurally identical expressions over (bits, h1, h2).
func c08SiblingBits(c *Ctx, rule string, layerAdd, layerMay *ssa.Function) {
	if layerAdd == nil || layerMay == nil {
		return
	}
	type shape struct{ addr, mask string }
	loopConds := func(fn *ssa.Function) []string {
		var out []string
		for _, b := range fn.Blocks {
			if len(b.Instrs) == 0 {
				continue
			}
			iff, ok := b.Instrs[len(b.Instrs)-1].(*ssa.If)
			if !ok {
				continue
			}
			bo, ok := iff.Cond.(*ssa.BinOp)
			if !ok {
				continue
			}
			if _, isPhi := bo.X.(*ssa.Phi); isPhi {
				out = append(out, c08Canon(bo, map[ssa.Value]bool{}))
			}
		}
		sort.Strings(out)
		return out
	}
	var wr []shape
	for _, b := range layerAdd.Blocks {
		for _, in := range b.Instrs {
			st, ok := in.(*ssa.Store)
			if !ok {
				continue
			}
			ia, ok := st.Addr.(*ssa.IndexAddr)
			if !ok {
				continue
			}
			s := shape{addr: c08Canon(ia, map[ssa.Value]bool{})}
			if bo, ok := st.Val.(*ssa.BinOp); ok && bo.Op == token.OR {
				s.mask = c08Canon(bo.Y, map[ssa.Value]bool{})
			}
			wr = append(wr, s)
		}
	}
	var rd []shape
	for _, b := range layerMay.Blocks {
		for _, in := range b.Instrs {
			bo, ok := in.(*ssa.BinOp)
			if !ok || bo.Op != token.AND {
				continue
			}
			ld, ok := bo.X.(*ssa.UnOp)
			if !ok || ld.Op != token.MUL {
				continue
			}
			ia, ok := ld.X.(*ssa.IndexAddr)
			if !ok {
				continue
			}
			// only a test "(word & mask) == 0" that can answer "absent" counts as a probe
			probe := false
			if refs := bo.Referrers(); refs != nil {
				for _, r := range *refs {
					if cmp, ok := r.(*ssa.BinOp); ok && (cmp.Op == token.EQL || cmp.Op == token.NEQ) {
						if k, ok := cmp.Y.(*ssa.Const); ok && constString(k) == "0" {
							probe = true
						}
					}
				}
			}
			if probe {
				rd = append(rd, shape{c08Canon(ia, map[ssa.Value]bool{}), c08Canon(bo.Y, map[ssa.Value]bool{})})
			}
		}
	}
	construct := c.P.Name(layerAdd) + "~" + c.P.Name(layerMay) + "#sibling-bit-expressions"
	pos := c.P.Pos(layerAdd.Pos())
	la, lm := loopConds(layerAdd), loopConds(layerMay)
	switch {
	case len(wr) != 1 || len(rd) != 1:
		c.add("sibling", rule, construct, Undecided, pos, fmt.Sprintf("expected exactly one indexed word store in the writer and one (word & mask) == 0 probe in the reader, found %d/%d", len(wr), len(rd)))
	case wr[0].mask == "":
		c.add("sibling", rule, construct, Violated, pos, "the writer's word store is not of the form word | mask")
	case wr[0] != rd[0]:
		c.add("sibling", rule, construct, Violated, pos, fmt.Sprintf("writer sets %s with mask %s but the prober tests %s with mask %s", wr[0].addr, wr[0].mask, rd[0].addr, rd[0].mask))
	case len(la) != 1 || len(lm) != 1 || la[0] != lm[0]:
		c.add("sibling", rule, construct, Violated, pos, fmt.Sprintf("writer and prober iterate over different probe sequences: %v vs %v", la, lm))
	default:
		c.add("sibling", rule, construct, Held, pos, fmt.Sprintf("word %s, mask %s, loop %s identical in both", wr[0].addr, wr[0].mask, la[0]))
	}
}

// c08OrOnly: inside the filter implementation words are only ever OR-ed, and
// nothing else in the loaded packages stores into a word of a filter layer.
func c08OrOnly(c *Ctx, rule string, layerAdd *ssa.Function) {
	if layerAdd == nil {
		return
	}
	n := 0
	var bad []string
	for _, fn := range c.P.AllFuncs {
		for _, b := range fn.Blocks {
			for _, in := range b.Instrs {
				st, ok := in.(*ssa.Store)
				if !ok {
					continue
				}
				ia, ok := st.Addr.(*ssa.IndexAddr)
				if !ok {
					continue
				}
				ap := Path(ia)
				inLayer := fn == layerAdd
				if !inLayer && !glob("*.primaryBits[*", ap) && !glob("*.overflowBits[*", ap) {
					continue
				}
				n++
				ok2 := false
				if inLayer {
					if bo, isBin := st.Val.(*ssa.BinOp); isBin && bo.Op == token.OR {
						if ld, isLoad := bo.X.(*ssa.UnOp); isLoad && ld.Op == token.MUL {
							if ia2, isIA := ld.X.(*ssa.IndexAddr); isIA && c08Canon(ia2, map[ssa.Value]bool{}) == c08Canon(ia, map[ssa.Value]bool{}) {
								ok2 = true
							}
						}
					}
				}
				if !ok2 {
					bad = append(bad, c.P.Name(fn)+" at "+c.P.InstrPos(in))
				}
			}
		}
	}
	// clear() / copy() on a layer would also lose bits
	for _, cs := range c.callSites("c*") {
		name := calleeName(cs.in.Common())
		if name != "clear" && name != "copy" {
			continue
		}
		args := cs.in.Common().Args
		if len(args) > 0 {
			ap := Path(args[0])
			if glob("*.primaryBits*", ap) || glob("*.overflowBits*", ap) || (cs.fn == layerAdd) {
				bad = append(bad, name+"() in "+c.P.Name(cs.fn)+" at "+c.P.InstrPos(cs.in))
			}
		}
	}
	construct := c.P.Name(layerAdd) + "#or-only-word-stores"
	switch {
	case len(bad) > 0:
		c.add("shape", rule, construct, Violated, "", "a filter word is written other than by word |= mask (bits could be cleared → false negatives): "+strings.Join(bad, "; "))
	case n == 0:
		c.add("shape", rule, construct, Undecided, c.P.Pos(layerAdd.Pos()), "no word store found (vacuous)")
	default:
		c.add("shape", rule, construct, Held, c.P.Pos(layerAdd.Pos()), fmt.Sprintf("%d word store(s), each word[i] = word[i] | mask", n))
	}
}

// c08Union: mayContain answers false only if every layer that add writes
// answered false (result is a short-circuit OR over LayerMayContain calls).
func c08Union(c *Ctx, rule string, add, may *ssa.Function) {
	if add == nil || may == nil {
		return
	}
	construct := c.P.Name(may) + "#union-of-layers-written-by-add"
	pos := c.P.Pos(may.Pos())
	layers := map[string]bool{}
	for _, in := range instrsMatching(add, CallTo{"*idempotencyMembershipLayerAdd"}) {
		layers[Path(in.(ssa.CallInstruction).Common().Args[0])] = true
	}
	if len(layers) == 0 {
		c.add("shape", rule, construct, Undecided, pos, "add writes no layer (vacuous)")
		return
	}
	isProbe := func(v ssa.Value) (string, bool) {
		call, ok := v.(*ssa.Call)
		if !ok || !glob("*idempotencyMembershipLayerMayContain", calleeName(&call.Call)) {
			return "", false
		}
		return Path(call.Call.Args[0]), true
	}
	var bad []string
	nret := 0
	for _, in := range instrsMatching(may, AnyRet{}) {
		ret := in.(*ssa.Return)
		if len(ret.Results) != 1 {
			bad = append(bad, "unexpected result arity")
			continue
		}
		v := retOperand(ret, 0)
		if k, ok := v.(*ssa.Const); ok {
			if constString(k) == "false" {
				continue // guarded separately (nil / empty filter)
			}
			nret++
			continue
		}
		nret++
		// collect (value, predecessor block) pairs that can make the result false
		type src struct {
			v    ssa.Value
			from *ssa.BasicBlock
		}
		var srcs []src
		if phi, ok := v.(*ssa.Phi); ok {
			for i, e := range phi.Edges {
				srcs = append(srcs, src{e, phi.Block().Preds[i]})
			}
		} else {
			srcs = []src{{v, ret.Block()}}
		}
		for _, s := range srcs {
			if k, ok := s.v.(*ssa.Const); ok {
				if constString(k) != "true" {
					bad = append(bad, "a constant false flows into the result at "+c.P.InstrPos(ret))
				}
				continue
			}
			self, ok := isProbe(s.v)
			if !ok {
				bad = append(bad, "result depends on "+Path(s.v)+" which is not a layer probe")
				continue
			}
			for layer := range layers {
				if layer == self {
					continue
				}
				// the block delivering this probe's answer is reached only after `layer` answered false
				g := parseGuard("*idempotencyMembershipLayerMayContain(" + layer + ", *) == false")
				removed, _ := guardEdges(may, g)
				limit := reachUnguarded(may, removed, nil)
				if _, reach := limit[s.from]; reach {
					bad = append(bad, fmt.Sprintf("result can be the answer of layer %s alone without layer %s having answered false", self, layer))
				}
			}
		}
	}
	if nret == 0 {
		bad = append(bad, "no non-constant return")
	}
	if len(bad) > 0 {
		c.add("shape", rule, construct, Violated, pos, "mayContain is not the union of the layers add writes "+fmt.Sprint(keysOf(layers))+": "+strings.Join(dedup(bad), "; "))
		return
	}
	c.add("shape", rule, construct, Held, pos, fmt.Sprintf("result is false only when every layer of %v answered false", keysOf(layers)))
}

func keysOf(m map[string]bool) []string {
	var ks []string
	for k := range m {
		ks = append(ks, k)
	}
	sort.Strings(ks)
	return ks
}

// c08GlobalOnlyInit: the named package-level variables are stored only by the package initialiser.
func c08GlobalOnlyInit(c *Ctx, rule string, names []string) {
	want := map[string]bool{}
	for _, n := range names {
		want[n] = true
	}
	var bad []string
	seen := map[string]bool{}
	for _, fn := range c.P.AllFuncs {
		for _, b := range fn.Blocks {
			for _, in := range b.Instrs {
				st, ok := in.(*ssa.Store)
				if !ok {
					continue
				}
				g, ok := st.Addr.(*ssa.Global)
				if !ok || !want[g.Name()] || g.Pkg == nil || shortPkg(g.Pkg.Pkg.Path()) != c08Pkg {
					continue
				}
				seen[g.Name()] = true
				if fn.Name() != "init" || fn.Parent() != nil {
					bad = append(bad, g.Name()+" in "+c.P.Name(fn)+" at "+c.P.InstrPos(in))
				}
			}
		}
	}
	construct := "globals-set-once:" + strings.Join(names, ",")
	pk := c.P.SPkgs[c08Pkg]
	for _, n := range names {
		if pk == nil || pk.Members[n] == nil {
			c.add("anchor", "anchor", c08Pkg+"."+n, Undecided, "", "anchored global not found")
			return
		}
	}
	if len(bad) > 0 {
		c.add("confine", rule, construct, Violated, "", "hash seed reassigned after initialisation (earlier additions would no longer be found): "+strings.Join(bad, "; "))
		return
	}
	c.add("confine", rule, construct, Held, "", fmt.Sprintf("stored only by the package initialiser (%d of %d seen in loaded bodies)", len(seen), len(names)))
}

// c08LoopExhausted: eff is reachable only through the false edge of a loop
// condition that is the φ of Iter.First/Iter.Next results (iterator exhausted).
func c08LoopExhausted(c *Ctx, rule string, fn *ssa.Function, eff Effect) {
	if fn == nil {
		return
	}
	construct := c.P.Name(fn) + "#" + eff.String() + "⇐iterator exhausted"
	removed := map[edge]bool{}
	for _, b := range fn.Blocks {
		if len(b.Instrs) == 0 {
			continue
		}
		iff, ok := b.Instrs[len(b.Instrs)-1].(*ssa.If)
		if !ok {
			continue
		}
		phi, ok := iff.Cond.(*ssa.Phi)
		if !ok || len(phi.Edges) < 2 {
			continue
		}
		all := true
		var iter string
		for _, e := range phi.Edges {
			call, ok := e.(*ssa.Call)
			name := ""
			if ok {
				name = calleeName(&call.Call)
			}
			if !ok || !(glob("*engine.Iter.First", name) || glob("*engine.Iter.Next", name)) {
				all = false
				break
			}
			it := Path(call.Call.Args[0])
			if iter != "" && it != iter {
				all = false
				break
			}
			iter = it
		}
		if all {
			removed[edge{b, 1}] = true
		}
	}
	effs := instrsMatching(fn, eff)
	if len(effs) == 0 {
		c.add("guard", rule, construct, Undecided, c.P.Pos(fn.Pos()), "no instruction matches the effect (vacuous)")
		return
	}
	limit := reachUnguarded(fn, removed, nil)
	var bad []string
	for _, e := range effs {
		if lim, ok := limit[e.Block()]; ok && indexIn(e.Block(), e) < lim {
			bad = append(bad, c.P.InstrPos(e))
		}
	}
	if len(bad) > 0 {
		c.add("guard", rule, construct, Violated, bad[0], fmt.Sprintf("%s is reachable without the First/Next loop having run to exhaustion (%d exhaustion edge(s) found): a partially rebuilt filter would be trusted", eff.String(), len(removed)))
		return
	}
	c.add("guard", rule, construct, Held, c.P.InstrPos(effs[0]), fmt.Sprintf("%d site(s), each only behind the Iter.First/Iter.Next == false edge", len(effs)))
}

// c08PairedCopy: whenever fn copies X.idempotencyMembershipLoaded = Y.idempotencyMembershipLoaded it also
// copies X.idempotencyMembership = Y.idempotencyMembership (same X, Y) in the same block; a reset to false
// is paired with a reset of the filter or needs no pairing.
func c08PairedCopy(c *Ctx, rule string, fn *ssa.Function) {
	if fn == nil {
		return
	}
	const fl, ff = ".idempotencyMembershipLoaded", ".idempotencyMembership"
	construct := c.P.Name(fn) + "#paired-copy(loaded flag, filter)"
	n := 0
	var bad []string
	for _, b := range fn.Blocks {
		for _, in := range b.Instrs {
			st, ok := in.(*ssa.Store)
			if !ok {
				continue
			}
			ap, vp := Path(st.Addr), Path(st.Val)
			if !strings.HasSuffix(ap, fl) || !strings.HasSuffix(vp, fl) {
				continue
			}
			n++
			x, y := strings.TrimSuffix(ap, fl), strings.TrimSuffix(vp, fl)
			found := false
			for _, in2 := range b.Instrs {
				if st2, ok := in2.(*ssa.Store); ok && Path(st2.Addr) == x+ff && Path(st2.Val) == y+ff {
					if fa, ok := st.Addr.(*ssa.FieldAddr); ok {
						if fa2, ok := st2.Addr.(*ssa.FieldAddr); ok && fa.X == fa2.X {
							found = true
						}
					}
				}
			}
			if !found {
				bad = append(bad, fmt.Sprintf("%s = %s at %s has no sibling copy of the filter itself", ap, vp, c.P.InstrPos(in)))
			}
		}
	}
	switch {
	case len(bad) > 0:
		c.add("shape", rule, construct, Violated, c.P.Pos(fn.Pos()), "loaded flag travels without its filter (a 'loaded' empty filter answers 'absent' for stored keys): "+strings.Join(bad, "; "))
	case n == 0:
		c.add("shape", rule, construct, Undecided, c.P.Pos(fn.Pos()), "no flag copy found (vacuous)")
	default:
		c.add("shape", rule, construct, Held, c.P.Pos(fn.Pos()), fmt.Sprintf("%d flag copy/copies, each next to the copy of the filter between the same two objects", n))
	}
}

// c08FieldStoreGuard: in every loaded function, every store of a non-nil value to the field lies behind the guard.
func c08FieldStoreGuard(c *Ctx, rule, field string, min int, okVals map[string]string, guards ...string) {
	fv := c.Field(field)
	if fv == nil {
		return
	}
	byFn := map[*ssa.Function]map[ssa.Instruction]bool{}
	n := 0
	for _, s := range c.fieldStores(fv) {
		if k, ok := s.val.(*ssa.Const); ok && k.Value == nil {
			continue
		}
		if why, ok := okVals[Path(s.val)]; ok {
			c.add("guard", rule, c.P.Name(s.fn)+"#store "+field+" = "+Path(s.val), Exception, c.P.InstrPos(s.in), why)
			continue
		}
		if byFn[s.fn] == nil {
			byFn[s.fn] = map[ssa.Instruction]bool{}
		}
		byFn[s.fn][s.in] = true
		n++
	}
	if n < min {
		c.add("guard", rule, "stores:"+field, Undecided, "", fmt.Sprintf("%d non-nil store(s) found, hand-confirmed minimum %d", n, min))
	}
	for _, fn := range c.P.AllFuncs {
		set := byFn[fn]
		if set == nil {
			continue
		}
		c.Guard(rule, fn, InstrFn{"store " + field, func(in ssa.Instruction) bool { return set[in] }}, guards...)
	}
}
