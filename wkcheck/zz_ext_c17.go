package main

import (
	"fmt"
	"sort"
	"strings"

	"golang.org/x/tools/go/ssa"
)

// Extension rules for C17 found by seeded change C17-b.
//
// Clause: "the active-task slot of a channel is released only by the task that holds it".
// The active index is keyed by (channel id, channel type) only, so a delete of that key is correct only
// when the task row being rewritten is the holder. By R5 every stored active row holds the slot
// (it was staged behind ensureChannelMigrationActiveAvailable == nil together with Set(key, task id)),
// therefore the proof of ownership is: the STORED row of this very task id exists and is active.
//
//	X1-active-slot-release
//	  (a) every Batch.Delete of encodeChannelMigrationActiveIndexKey(…) in stageUpsertChannelMigrationTask is
//	      behind stored-row-exists, stored-row-IsActive and new-row-not-active;
//	  (b) the stored row that carries the proof is looked up with the identity of the task being written
//	      (same channel id, type and task id as the primary key), never another task's;
//	  (c) nobody else deletes that key: the Delete rendering is confined to stageUpsertChannelMigrationTask, the
//	      key constructors are called only by the enumerated functions, and no function that receives the
//	      key as an argument deletes anything.
func init() {
	const tb = "pkg/db/meta/table_channel_migration.go"
	extend("C17", nil, func(c *Ctx) {
		const p = "pkg/db/meta."
		const rule = "X1-active-slot-release"
		su := c.Fn(p + "Shard.stageUpsertChannelMigrationTask")
		key := p + "encodeChannelMigrationActiveIndexKey(*"
		del := CallTo{"pkg/db/internal/engine.Batch.Delete*(*" + key}
		stored := p + "Shard.getChannelMigrationTaskByKey(*)"
		c.c02Guard(rule, su, del, // φ-aware variant of Guard (props_c02.go): also reads `held := exists && existing.IsActive()`
			stored+"#1 == true",
			p+"ChannelMigrationTask.IsActive(*getChannelMigrationTaskByKey(*)#0) == true",
			p+"ChannelMigrationTask.IsActive(task) == false",
			stored+"#2 == nil")
		c.CallShape(rule, su, p+"Shard.getChannelMigrationTaskByKey",
			p+"Shard.getChannelMigrationTaskByKey(s, ctx, "+p+"Table.primaryRowKey("+p+"channelMigrationTable, s.hashSlot, "+
				p+"channelMigrationTaskPrimaryKey(task.ChannelID, task.ChannelType, task.TaskID))#0, task.ChannelID, task.ChannelType, task.TaskID)")
		// (c) confinement
		c.c15ConfineRender(rule, "pkg/db/internal/engine.Batch.Delete*(*encodeChannelMigrationActiveIndex*", 1, p+"Shard.stageUpsertChannelMigrationTask")
		c.ConfineCalls(rule, p+"encodeChannelMigrationActiveIndexKey", 4,
			p+"Shard.stageUpsertChannelMigrationTask", p+"Shard.GetActiveChannelMigrationTask",
			p+"Batch.CreateChannelMigrationTask", p+"WriteBatch.CreateChannelMigrationTask")
		c.ConfineCalls(rule, p+"encodeChannelMigrationActiveIndexPrefix", 2,
			p+"encodeChannelMigrationActiveIndexKey", p+"Shard.ListActiveChannelMigrationTasks")
		xc17KeyReceiversNeverDelete(c, rule, "encodeChannelMigrationActiveIndex")
		c.Min(rule, 9)
	},
		Mutant{Name: "x-terminal-rewrite-frees-foreign-slot", File: tb,
			Old: "} else if exists && existing.IsActive() {", New: "} else if exists {", Expect: "C17/X1-active-slot-release/*"},
		Mutant{Name: "x-any-terminal-write-frees-slot", File: tb,
			Old: "} else if exists && existing.IsActive() {", New: "} else {\n\t\t_ = existing", Expect: "C17/X1-active-slot-release/*"},
		Mutant{Name: "x-slot-freed-on-status-change", File: tb,
			Old: "} else if exists && existing.IsActive() {", New: "} else if exists && existing.Status != task.Status {", Expect: "C17/X1-active-slot-release/*"},
		Mutant{Name: "x-create-of-terminal-row-clears-slot", File: tb,
			Old:    "\t\treturn dberrors.ErrAlreadyExists\n\t}\n\treturn s.stageUpsertChannelMigrationTask(ctx, batch, task)\n}",
			New:    "\t\treturn dberrors.ErrAlreadyExists\n\t}\n\tif !task.IsActive() {\n\t\tif err := batch.Delete(encodeChannelMigrationActiveIndexKey(s.hashSlot, task.ChannelID, task.ChannelType)); err != nil {\n\t\t\treturn err\n\t\t}\n\t}\n\treturn s.stageUpsertChannelMigrationTask(ctx, batch, task)\n}",
			Expect: "C17/X1-active-slot-release/*"},
	)
}

// xc17KeyReceiversNeverDelete: a function of the loaded packages that is handed the active-index key as an
// argument (the key is then a parameter and no longer renders as its constructor) contains no Delete call.
func xc17KeyReceiversNeverDelete(c *Ctx, rule, keyCtor string) {
	byName := map[string]*ssa.Function{}
	for _, fn := range c.P.AllFuncs {
		byName[c.P.Name(fn)] = fn
	}
	receivers := map[string]*ssa.Function{}
	for _, fn := range c.P.AllFuncs {
		for _, b := range fn.Blocks {
			for _, in := range b.Instrs {
				ci, ok := in.(ssa.CallInstruction)
				if !ok {
					continue
				}
				callee := calleeName(ci.Common())
				target := byName[callee]
				if target == nil || !strings.HasPrefix(callee, "pkg/db/meta.") {
					continue
				}
				for _, a := range callArgs(ci.Common()) {
					if strings.Contains(Path(a), keyCtor) {
						receivers[callee] = target
					}
				}
			}
		}
	}
	var bad []string
	badPos := ""
	var names []string
	for name, fn := range receivers {
		names = append(names, name)
		for _, f := range WithClosures(fn) {
			for _, b := range f.Blocks {
				for _, in := range b.Instrs {
					ci, ok := in.(ssa.CallInstruction)
					if !ok {
						continue
					}
					cn := calleeName(ci.Common())
					if glob("*.Delete*", cn) || glob("*.delete*", cn) || glob("*.SingleDelete*", cn) {
						bad = append(bad, name+" calls "+cn+" at "+c.P.InstrPos(in))
						if badPos == "" {
							badPos = c.P.InstrPos(in)
						}
					}
				}
			}
		}
	}
	construct := "key-receivers-never-delete:" + keyCtor
	sort.Strings(names)
	if len(bad) > 0 {
		c.add("confine", rule, construct, Violated, badPos, "a function that receives the active-index key as an argument deletes a key (the release of the slot must stay behind the ownership proof in stageUpsertChannelMigrationTask): "+strings.Join(bad, "; "))
		return
	}
	c.add("confine", rule, construct, Held, "", fmt.Sprintf("%d function(s) receive the key as an argument %v; none contains a delete call", len(receivers), names))
}
