package main

import (
	"go/token"
	"fmt"
	"go/types"
	"sort"
	"strings"

	"golang.org/x/tools/go/ssa"
)

// LockSpec: fields of Struct are guarded by the mutex field Mutex of the same object.
type LockSpec struct {
	Struct string   // "pkg/path.T"
	Mutex  string   // mutex field name inside T ("mu"; embedded: "Mutex"/"RWMutex")
	Fields []string // guarded field names
	// Funcs to analyse (globs on short names); default: every function in the loaded packages that touches a guarded field.
	Funcs []string
	// AssumeHeld: functions (globs) analysed under the assumption that the lock of their
	// receiver / first parameter of type *T is held ("…Locked" helpers). Every call site must hold it.
	AssumeHeld []string
	// Exempt functions (constructors, single-threaded init), each with a reason in the rule table.
	Exempt []string
	// ReadsToo: reads need the lock as well (R or W). Writes always need W.
	ReadsToo bool
	// WriteNeedsW: with an RWMutex, writes under RLock are violations (default true when RWMutex).
}

type lockState map[string]byte // mutex path -> 'W' or 'R'

func (s lockState) clone() lockState {
	n := lockState{}
	for k, v := range s {
		n[k] = v
	}
	return n
}

func meet(a, b lockState) lockState {
	n := lockState{}
	for k, v := range a {
		if w, ok := b[k]; ok {
			if v == 'R' || w == 'R' {
				n[k] = 'R'
			} else {
				n[k] = 'W'
			}
		}
	}
	return n
}

func equalLS(a, b lockState) bool {
	if len(a) != len(b) {
		return false
	}
	for k, v := range a {
		if b[k] != v {
			return false
		}
	}
	return true
}

// lockOp classifies a call as a lock operation on a mutex path.
func lockOp(c *ssa.CallCommon) (path string, op string) {
	if c.IsInvoke() {
		return "", ""
	}
	fn, ok := c.Value.(*ssa.Function)
	if !ok || fn.Pkg == nil || fn.Pkg.Pkg.Path() != "sync" || len(c.Args) == 0 {
		return "", ""
	}
	if fn.Signature.Recv() == nil {
		return "", ""
	}
	recv := typeBaseName(fn.Signature.Recv().Type())
	if recv != "Mutex" && recv != "RWMutex" {
		return "", ""
	}
	switch fn.Name() {
	case "Lock", "Unlock", "RLock", "RUnlock":
		return Path(c.Args[0]), fn.Name()
	}
	return "", ""
}

func applyLockOp(st lockState, path, op string) {
	switch op {
	case "Lock":
		st[path] = 'W'
	case "RLock":
		if st[path] != 'W' {
			st[path] = 'R'
		}
	case "Unlock", "RUnlock":
		delete(st, path)
	}
}

// heldAt computes the must-held lock set before every instruction of fn.
func heldAt(fn *ssa.Function, entry lockState) map[ssa.Instruction]lockState {
	in := map[*ssa.BasicBlock]lockState{}
	if len(fn.Blocks) == 0 {
		return nil
	}
	in[fn.Blocks[0]] = entry.clone()
	out := map[*ssa.BasicBlock]lockState{}
	changed := true
	for iter := 0; changed && iter < 100; iter++ {
		changed = false
		for _, b := range fn.Blocks {
			var st lockState
			if b == fn.Blocks[0] {
				st = entry.clone()
			} else {
				first := true
				for _, p := range b.Preds {
					o, ok := out[p]
					if !ok {
						continue
					}
					if first {
						st = o.clone()
						first = false
					} else {
						st = meet(st, o)
					}
				}
				if first {
					continue // unreachable so far
				}
			}
			in[b] = st.clone()
			for _, ins := range b.Instrs {
				if call, ok := ins.(*ssa.Call); ok {
					if p, op := lockOp(&call.Call); op != "" {
						applyLockOp(st, p, op)
					}
				}
			}
			if old, ok := out[b]; !ok || !equalLS(old, st) {
				out[b] = st
				changed = true
			}
		}
	}
	res := map[ssa.Instruction]lockState{}
	for _, b := range fn.Blocks {
		st, ok := in[b]
		if !ok {
			continue
		}
		st = st.clone()
		for _, ins := range b.Instrs {
			res[ins] = st.clone()
			if call, ok := ins.(*ssa.Call); ok {
				if p, op := lockOp(&call.Call); op != "" {
					applyLockOp(st, p, op)
				}
			}
		}
	}
	return res
}

func (c *Ctx) lookupType(q string) types.Type {
	j := strings.LastIndex(q, ".")
	if j < 0 {
		return nil
	}
	pk := c.P.Pkgs[q[:j]]
	if pk == nil {
		return nil
	}
	obj := pk.Types.Scope().Lookup(q[j+1:])
	if obj == nil {
		return nil
	}
	return obj.Type()
}

func sameNamed(t types.Type, target types.Type) bool {
	if p, ok := t.Underlying().(*types.Pointer); ok {
		t = p.Elem()
	}
	tn, ok1 := t.(*types.Named)
	gn, ok2 := target.(*types.Named)
	if !ok1 || !ok2 {
		return false
	}
	return tn.Origin().Obj() == gn.Origin().Obj()
}

// isWriteUse: is the address fa used to write (store, map update/delete through it, append-assign)?
func isWriteUse(fa ssa.Value) bool {
	refs := fa.Referrers()
	if refs == nil {
		return false
	}
	for _, r := range *refs {
		switch x := r.(type) {
		case *ssa.Store:
			if x.Addr == fa {
				return true
			}
		case *ssa.UnOp: // load of a map/slice header then mutated
			if lr := x.Referrers(); lr != nil {
				for _, rr := range *lr {
					switch y := rr.(type) {
					case *ssa.MapUpdate:
						if y.Map == x {
							return true
						}
					case *ssa.Call:
						if b, ok := y.Call.Value.(*ssa.Builtin); ok && b.Name() == "delete" && len(y.Call.Args) > 0 && y.Call.Args[0] == ssa.Value(x) {
							return true
						}
					}
				}
			}
		case *ssa.FieldAddr, *ssa.IndexAddr:
			if isWriteUse(r.(ssa.Value)) {
				return true
			}
		}
	}
	return false
}

// Lockset decides the guarded-by rule for one struct.
func (c *Ctx) Lockset(rule string, spec LockSpec) {
	T := c.lookupType(spec.Struct)
	if T == nil {
		c.add("anchor", "anchor", spec.Struct, Undecided, "", "guarded struct not found")
		return
	}
	st, ok := T.Underlying().(*types.Struct)
	if !ok {
		c.add("anchor", "anchor", spec.Struct, Undecided, "", "not a struct")
		return
	}
	fieldIdx := map[int]string{}
	foundMu := false
	for i := 0; i < st.NumFields(); i++ {
		n := st.Field(i).Name()
		if n == spec.Mutex {
			foundMu = true
		}
		for _, f := range spec.Fields {
			if f == n {
				fieldIdx[i] = n
			}
		}
	}
	if !foundMu || len(fieldIdx) != len(spec.Fields) {
		c.add("anchor", "anchor", spec.Struct+"{"+spec.Mutex+";"+strings.Join(spec.Fields, ",")+"}", Undecided, "", "mutex or guarded field not found in struct")
		return
	}
	typeName := spec.Struct
	accesses, funcs := 0, 0
	type viol struct{ pos, msg string }
	var viols []viol
	perField := map[string]int{}
	for _, fn := range c.P.AllFuncs {
		name := c.P.Name(fn)
		if len(spec.Funcs) > 0 && !globAny(spec.Funcs, name) && !globAny(spec.Funcs, rootName(name)) {
			continue
		}
		if globAny(spec.Exempt, name) || globAny(spec.Exempt, rootName(name)) {
			continue
		}
		// find accesses first (cheap) to skip irrelevant functions
		type acc struct {
			in    ssa.Instruction
			base  ssa.Value
			field string
			write bool
		}
		var accs []acc
		var assumedCalls []*ssa.Call
		for _, b := range fn.Blocks {
			for _, in := range b.Instrs {
				switch x := in.(type) {
				case *ssa.FieldAddr:
					if f, ok := fieldIdx[x.Field]; ok && sameNamed(x.X.Type(), T) {
						if isFreshAlloc(x.X) {
							continue
						}
						accs = append(accs, acc{in, x.X, f, isWriteUse(x)})
					}
				case *ssa.Field:
					if f, ok := fieldIdx[x.Field]; ok && sameNamed(x.X.Type(), T) {
						accs = append(accs, acc{in, x.X, f, false})
					}
				case *ssa.Call:
					if callee, ok := x.Call.Value.(*ssa.Function); ok && len(spec.AssumeHeld) > 0 {
						if globAny(spec.AssumeHeld, funcShortName(callee)) {
							assumedCalls = append(assumedCalls, x)
						}
					}
				}
			}
		}
		if len(accs) == 0 && len(assumedCalls) == 0 {
			continue
		}
		funcs++
		c.FuncsAnalysed[name] = true
		entry := lockState{}
		if globAny(spec.AssumeHeld, name) || globAny(spec.AssumeHeld, rootName(name)) {
			// the lock of every *T parameter/receiver (and captured T) is assumed held
			for _, p := range fn.Params {
				if sameNamed(p.Type(), T) {
					entry[p.Name()+"."+spec.Mutex] = 'W'
				}
			}
			for _, fv := range fn.FreeVars {
				if sameNamed(fv.Type(), T) || isPtrTo(fv.Type(), T) {
					entry[fv.Name()+"."+spec.Mutex] = 'W'
				}
			}
		}
		held := heldAt(fn, entry)
		for _, a := range accs {
			if !a.write && !spec.ReadsToo {
				continue
			}
			accesses++
			perField[a.field]++
			key := Path(a.base) + "." + spec.Mutex
			mode, ok := held[a.in][key]
			if !ok {
				kind := "read"
				if a.write {
					kind = "write"
				}
				viols = append(viols, viol{c.P.InstrPos(a.in), fmt.Sprintf("%s of %s.%s in %s without holding %s (held: %s)", kind, typeName, a.field, name, key, lsString(held[a.in]))})
			} else if a.write && mode == 'R' {
				viols = append(viols, viol{c.P.InstrPos(a.in), fmt.Sprintf("write of %s.%s in %s under a read lock on %s", typeName, a.field, name, key)})
			}
		}
		for _, call := range assumedCalls {
			// find the *T argument
			for _, arg := range call.Call.Args {
				if sameNamed(arg.Type(), T) {
					accesses++
					key := Path(arg) + "." + spec.Mutex
					if _, ok := held[call][key]; !ok {
						viols = append(viols, viol{c.P.InstrPos(call), fmt.Sprintf("%s calls %s (requires %s held) without holding it (held: %s)", name, calleeName(&call.Call), key, lsString(held[call]))})
					}
					break
				}
			}
		}
	}
	construct := "guardedby:" + spec.Struct + "." + spec.Mutex + "{" + strings.Join(spec.Fields, ",") + "}"
	if len(viols) > 0 {
		var msgs []string
		for _, v := range viols {
			msgs = append(msgs, v.msg+" at "+v.pos)
		}
		c.add("lockset", rule, construct, Violated, viols[0].pos, strings.Join(msgs, "; "))
		return
	}
	if accesses == 0 {
		c.add("lockset", rule, construct, Undecided, "", "no access to a guarded field found (vacuous)")
		return
	}
	c.add("lockset", rule, construct, Held, "", fmt.Sprintf("%d access(es)/locked-helper call(s) in %d function(s), all with %s held in the required mode: %s", accesses, funcs, spec.Mutex, countsString(perField)))
}

func isPtrTo(t types.Type, target types.Type) bool {
	p, ok := t.Underlying().(*types.Pointer)
	if !ok {
		return false
	}
	return sameNamed(p.Elem(), target)
}

func lsString(s lockState) string {
	var ks []string
	for k, v := range s {
		ks = append(ks, k+":"+string(v))
	}
	sort.Strings(ks)
	if len(ks) == 0 {
		return "none"
	}
	return strings.Join(ks, ",")
}

// SameSection decides admission atomicity: in fn, every instruction matching
// `use` executes while mutex path `mu` is held continuously since an
// instruction matching `check` (no Unlock between them).
func (c *Ctx) SameSection(rule string, fn *ssa.Function, mu string, check, use Effect) {
	if fn == nil {
		return
	}
	fname := c.P.Name(fn)
	construct := fname + "#section(" + mu + "):" + check.String() + "…" + use.String()
	uses := instrsMatching(fn, use)
	if len(uses) == 0 {
		c.add("lockset", rule, construct, Undecided, c.P.Pos(fn.Pos()), "no instruction matches "+use.String()+" (vacuous)")
		return
	}
	held := heldAt(fn, lockState{})
	// dataflow: "check seen since the lock was last acquired" (must)
	type st = bool
	in := map[*ssa.BasicBlock]st{}
	out := map[*ssa.BasicBlock]st{}
	seenOut := map[*ssa.BasicBlock]bool{}
	step := func(s st, ins ssa.Instruction) st {
		if call, ok := ins.(*ssa.Call); ok {
			if p, op := lockOp(&call.Call); op != "" && glob(mu, p) {
				return false
			}
		}
		if check.Match(ins) {
			return true
		}
		return s
	}
	// A block that ends in `if ok` where ok is a bool phi of that block (`ok := a || b || c; if ok {`) is left
	// through its true edge only by the predecessors on which the phi can be true, and likewise for false: the
	// state on each outgoing edge is joined over the compatible predecessors only.
	outEdge := map[edge]st{}
	seenEdge := map[edge]bool{}
	predState := func(p, b *ssa.BasicBlock) (st, bool) {
		compat, isPhiIf := phiCondCompat(p)
		if !isPhiIf {
			return out[p], seenOut[p]
		}
		_ = compat
		v, any := false, false
		for si, sc := range p.Succs {
			if sc != b || !seenEdge[edge{p, si}] {
				continue
			}
			if !any {
				v, any = outEdge[edge{p, si}], true
			} else {
				v = v && outEdge[edge{p, si}]
			}
		}
		return v, any
	}
	join := func(b *ssa.BasicBlock, allow func(i int) bool) (st, bool) {
		s, first := false, true
		for i, p := range b.Preds {
			if allow != nil && !allow(i) {
				continue
			}
			ps, ok := predState(p, b)
			if !ok {
				continue
			}
			if first {
				s, first = ps, false
			} else {
				s = s && ps
			}
		}
		return s, !first
	}
	changed := true
	for iter := 0; changed && iter < 100; iter++ {
		changed = false
		for _, b := range fn.Blocks {
			s := false
			if b != fn.Blocks[0] {
				var ok bool
				if s, ok = join(b, nil); !ok {
					continue
				}
			}
			in[b] = s
			for _, ins := range b.Instrs {
				s = step(s, ins)
			}
			if !seenOut[b] || out[b] != s {
				seenOut[b] = true
				out[b] = s
				changed = true
			}
			if compat, isPhiIf := phiCondCompat(b); isPhiIf && b != fn.Blocks[0] {
				for si := range b.Succs {
					es, ok := join(b, func(i int) bool { return compat[si][i] })
					if !ok {
						continue
					}
					for _, ins := range b.Instrs {
						es = step(es, ins)
					}
					e := edge{b, si}
					if !seenEdge[e] || outEdge[e] != es {
						seenEdge[e] = true
						outEdge[e] = es
						changed = true
					}
				}
			}
		}
	}
	var bad []string
	for _, u := range uses {
		b := u.Block()
		s := in[b]
		for _, ins := range b.Instrs {
			if ins == u {
				break
			}
			s = step(s, ins)
		}
		lockHeld := false
		for k := range held[u] {
			if glob(mu, k) {
				lockHeld = true
			}
		}
		if !lockHeld || !s {
			bad = append(bad, c.P.InstrPos(u))
		}
	}
	if len(bad) > 0 {
		c.add("lockset", rule, construct, Violated, bad[0], fmt.Sprintf("in %s, %q is not in one critical section of %s with the preceding %q (sites: %s)", fname, use.String(), mu, check.String(), strings.Join(bad, ", ")))
		return
	}
	c.add("lockset", rule, construct, Held, c.P.InstrPos(uses[0]), fmt.Sprintf("%d site(s): check and use in one critical section of %s", len(uses), mu))
}

// phiCondCompat: b ends in an If whose condition is (the negation of) a bool phi of b itself; compat[si][i] tells
// whether predecessor i can leave b through successor si (a constant incoming value fixes the branch).
func phiCondCompat(b *ssa.BasicBlock) (compat [2][]bool, ok bool) {
	if len(b.Instrs) == 0 || len(b.Succs) != 2 {
		return compat, false
	}
	iff, isIf := b.Instrs[len(b.Instrs)-1].(*ssa.If)
	if !isIf {
		return compat, false
	}
	cond, neg := iff.Cond, false
	for {
		u, isNot := cond.(*ssa.UnOp)
		if !isNot || u.Op != token.NOT {
			break
		}
		cond, neg = u.X, !neg
	}
	phi, isPhi := cond.(*ssa.Phi)
	if !isPhi || phi.Block() != b {
		return compat, false
	}
	compat[0], compat[1] = make([]bool, len(b.Preds)), make([]bool, len(b.Preds))
	for i, e := range phi.Edges {
		k, isConst := e.(*ssa.Const)
		if !isConst {
			compat[0][i], compat[1][i] = true, true
			continue
		}
		t := (constString(k) == "true") != neg // truth of the tested condition
		compat[0][i], compat[1][i] = t, !t
	}
	return compat, true
}
