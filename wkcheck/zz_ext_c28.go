package main

import (
	"fmt"
	"go/constant"
	"go/token"
	"sort"
	"strings"

	"golang.org/x/tools/go/ssa"
)

// Extension rule for C28 found by seeded change C28-b.
//
// Clause: "each accepted SEND gets one SENDACK unless its session closes first" rests, for a drained
// batch, on two FOR-ALL loops over the batch:
//
//	(1) Server.dispatchSendBatch, error branch: when the batch handler failed no further SENDACK is
//	    written, so EVERY distinct session of the batch is closed through handleHandlerError;
//	(2) sendExecutor.dispatchBatch, fallback: when the batch was not handled as a batch EVERY task is
//	    dispatched through dispatchFrame (which acks or closes).
//
// A for-all over the batch is decided structurally (X1-batch-forall), per effect call site:
//
//	full-range      the enclosing loop runs an index from 0 in steps of 1 while index < len(<batch parameter>)
//	                and the element it works on is <batch parameter>[index];
//	no-early-exit   the only edge that leaves the loop is the header's exhaustion edge (no break, return,
//	                goto or panic out of the body: one task can never cut off the tasks behind it);
//	skips           every branch inside the body that goes to the next iteration without the effect is one
//	                of the enumerated exemptions (no session / session already handled in this batch);
//	dedup           the "already handled" set is a map made in this function that nobody else touches, it is
//	                keyed by the very value the effect receives, and every insertion is followed by the
//	                effect for that key before the iteration ends (so "seen" implies "handled");
//	entered         from the edge that establishes the trigger (handler error / batch not handled) every
//	                path reaches the loop before it can return.
//
// Loops are found from the CFG (dominator back edges), operands are matched by parameter names,
// resolved callees and field names only.
func init() {
	const G = "pkg/gateway/core"
	const srv = "pkg/gateway/core/server.go"
	const as = "pkg/gateway/core/async_send.go"
	extend("C28", nil, func(c *Ctx) {
		const rule = "X1-batch-forall"
		xc28ForAll(c, rule, xc28Spec{
			fn: c.Fn(G + ".Server.dispatchSendBatch"), label: "close-every-session-of-failed-batch",
			effect: CallTo{G + ".Server.handleHandlerError"}, seq: "batch", keyArg: 1,
			entry: G + ".dispatcher.sendBatch(*)#1 != nil",
			skips: []xc28Skip{
				{spec: "*.state == nil", reason: "a task without a session has nothing to close"},
				{dedup: true, reason: "the session was already closed for this batch"},
			},
		})
		xc28ForAll(c, rule, xc28Spec{
			fn: c.Fn(G + ".sendExecutor.dispatchBatch"), label: "dispatch-every-task-of-unbatched-batch",
			effect: CallTo{G + ".Server.dispatchFrame"}, seq: "batch", keyArg: -1,
			entry: "!" + G + ".Server.dispatchSendBatch(*)",
		})
		c.Min(rule, 9)
	},
		// the seeded bug: the de-duplication `continue` became `break`
		Mutant{Name: "x-failed-batch-stops-at-repeated-session", File: srv,
			Old: "if _, ok := seen[task.state]; ok {\n\t\t\t\tcontinue", New: "if _, ok := seen[task.state]; ok {\n\t\t\t\tbreak", Expect: "C28/X1-batch-forall/*no-early-exit*"},
		// siblings at the same mechanism
		Mutant{Name: "x-failed-batch-stops-at-sessionless-task", File: srv,
			Old: "\t\t\tif task.state == nil {\n\t\t\t\tcontinue\n\t\t\t}\n\t\t\tif _, ok := seen", New: "\t\t\tif task.state == nil {\n\t\t\t\treturn true\n\t\t\t}\n\t\t\tif _, ok := seen", Expect: "C28/X1-batch-forall/*no-early-exit*"},
		Mutant{Name: "x-failed-batch-closes-first-session-only", File: srv,
			Old: "\t\t\tif task.state == nil {\n\t\t\t\tcontinue\n\t\t\t}\n\t\t\tif _, ok := seen", New: "\t\t\tif task.state == nil || task.state != batch[0].state {\n\t\t\t\tcontinue\n\t\t\t}\n\t\t\tif _, ok := seen", Expect: "C28/X1-batch-forall/*skips*"},
		Mutant{Name: "x-failed-batch-skips-last-task", File: srv,
			Old: "\t\tseen := make(map[*sessionState]struct{}, len(batch))\n\t\tfor _, task := range batch {", New: "\t\tseen := make(map[*sessionState]struct{}, len(batch))\n\t\tfor _, task := range batch[:len(batch)-1] {", Expect: "C28/X1-batch-forall/*full-range*"},
		Mutant{Name: "x-failed-batch-marks-seen-without-closing", File: srv,
			Old: "\t\t\tseen[task.state] = struct{}{}\n\t\t\ts.handleHandlerError(task.state, err)", New: "\t\t\tseen[task.state] = struct{}{}\n\t\t\tif task.state.isClosed() {\n\t\t\t\tcontinue\n\t\t\t}\n\t\t\ts.handleHandlerError(task.state, err)", Expect: "C28/X1-batch-forall/*"},
		Mutant{Name: "x-failed-single-batch-not-closed", File: srv,
			Old: "\tif err != nil {\n\t\tseen := make(map[*sessionState]struct{}, len(batch))", New: "\tif err != nil && len(batch) > 1 {\n\t\tseen := make(map[*sessionState]struct{}, len(batch))", Expect: "C28/X1-batch-forall/*entered*"},
		Mutant{Name: "x-fallback-dispatch-stops-at-first-error", File: as,
			Old: "\t\t\te.server.handleHandlerError(task.state, err)\n\t\t}\n\t}\n}", New: "\t\t\te.server.handleHandlerError(task.state, err)\n\t\t\tbreak\n\t\t}\n\t}\n}", Expect: "C28/X1-batch-forall/*dispatchBatch*no-early-exit*"},
	)
}

type xc28Skip struct {
	spec   string // atom established on the skipping edge
	dedup  bool   // instead of spec: "<fresh map>[<effect key>] is present"
	reason string
}

type xc28Spec struct {
	fn     *ssa.Function
	label  string
	effect Effect
	seq    string // the parameter that is iterated
	keyArg int    // index (in the effect's argument list incl. receiver) of the per-element key used for de-duplication; -1: none
	entry  string // atom that triggers the loop
	skips  []xc28Skip
}

type xc28Loop struct {
	head *ssa.BasicBlock
	body map[*ssa.BasicBlock]bool
}

// xc28Loops: natural loops of fn (back edge = edge to a dominator), merged per header.
func xc28Loops(fn *ssa.Function) []*xc28Loop {
	by := map[*ssa.BasicBlock]*xc28Loop{}
	var out []*xc28Loop
	for _, b := range fn.Blocks {
		for _, h := range b.Succs {
			if !h.Dominates(b) {
				continue
			}
			l := by[h]
			if l == nil {
				l = &xc28Loop{head: h, body: map[*ssa.BasicBlock]bool{h: true}}
				by[h] = l
				out = append(out, l)
			}
			work := []*ssa.BasicBlock{b}
			for len(work) > 0 {
				x := work[len(work)-1]
				work = work[:len(work)-1]
				if l.body[x] {
					continue
				}
				l.body[x] = true
				work = append(work, x.Preds...)
			}
		}
	}
	return out
}

func xc28Innermost(loops []*xc28Loop, b *ssa.BasicBlock) *xc28Loop {
	var best *xc28Loop
	for _, l := range loops {
		if l.body[b] && (best == nil || len(l.body) < len(best.body)) {
			best = l
		}
	}
	return best
}

func xc28ConstIs(v ssa.Value, want int64) bool {
	k, ok := v.(*ssa.Const)
	if !ok || k.Value == nil || k.Value.Kind() != constant.Int {
		return false
	}
	return k.Int64() == want
}

// xc28FullRange: the loop counts an index 0,1,2,… while index < len(seq); returns the per-iteration index value.
func xc28FullRange(fn *ssa.Function, l *xc28Loop, seq string) (ssa.Value, string) {
	h := l.head
	if len(h.Instrs) == 0 {
		return nil, "the loop header has no condition"
	}
	iff, ok := h.Instrs[len(h.Instrs)-1].(*ssa.If)
	if !ok || len(h.Succs) != 2 {
		return nil, "the loop is not controlled by a bound test in its header (no `index < len(" + seq + ")` condition)"
	}
	bin, ok := iff.Cond.(*ssa.BinOp)
	if !ok || bin.Op != token.LSS {
		return nil, "the loop condition is " + Path(iff.Cond) + ", not `index < len(" + seq + ")`"
	}
	if !isParamName(fn, seq) || Path(bin.Y) != "len("+seq+")" {
		return nil, "the loop bound is " + Path(bin.Y) + ", not len(" + seq + ") of the whole batch parameter"
	}
	if !l.body[h.Succs[0]] || l.body[h.Succs[1]] {
		return nil, "the header's true edge does not enter the body / its false edge does not leave the loop"
	}
	var phi *ssa.Phi
	var start int64
	rangeForm := false
	switch x := bin.X.(type) {
	case *ssa.Phi:
		phi, start = x, 0
	case *ssa.BinOp:
		p, isPhi := x.X.(*ssa.Phi)
		if x.Op != token.ADD || !isPhi || !xc28ConstIs(x.Y, 1) {
			return nil, "the loop index is " + Path(bin.X) + ", not a counter"
		}
		phi, start, rangeForm = p, -1, true
	default:
		return nil, "the loop index is " + Path(bin.X) + ", not a counter"
	}
	if phi.Block() != h || len(phi.Edges) != len(h.Preds) {
		return nil, "the loop counter is not carried by the loop header"
	}
	for i, e := range phi.Edges {
		if l.body[h.Preds[i]] {
			if rangeForm {
				if e != bin.X {
					return nil, "the index is advanced by something other than +1 per iteration (" + Path(e) + ")"
				}
				continue
			}
			step, ok := e.(*ssa.BinOp)
			if !ok || step.Op != token.ADD || step.X != ssa.Value(phi) || !xc28ConstIs(step.Y, 1) {
				return nil, "the index is advanced by something other than +1 per iteration (" + Path(e) + ")"
			}
			continue
		}
		if !xc28ConstIs(e, start) {
			return nil, fmt.Sprintf("the index does not start at the first element (starts at %s)", Path(e))
		}
	}
	return bin.X, ""
}

// xc28EscapesWithout: starting after instruction index `from` of block b (or at the beginning of the
// successors), can control arrive at a `stop` block or leave `body` without executing an effect?
func xc28EscapesWithout(b *ssa.BasicBlock, from int, eff Effect, stop *ssa.BasicBlock, body map[*ssa.BasicBlock]bool) bool {
	for _, in := range b.Instrs[from:] {
		if eff.Match(in) {
			return false
		}
	}
	seen := map[*ssa.BasicBlock]bool{}
	work := append([]*ssa.BasicBlock(nil), b.Succs...)
	if len(b.Succs) == 0 {
		return true
	}
	for len(work) > 0 {
		x := work[len(work)-1]
		work = work[:len(work)-1]
		if x == stop || (body != nil && !body[x]) {
			return true
		}
		if seen[x] {
			continue
		}
		seen[x] = true
		hit := false
		for _, in := range x.Instrs {
			if eff.Match(in) {
				hit = true
				break
			}
		}
		if hit {
			continue
		}
		if len(x.Succs) == 0 {
			return true
		}
		work = append(work, x.Succs...)
	}
	return false
}

func xc28ForAll(c *Ctx, rule string, sp xc28Spec) {
	fn := sp.fn
	if fn == nil {
		return
	}
	name := c.P.Name(fn)
	key := func(part string) string { return name + "#forall:" + sp.label + ":" + part }
	var sites []ssa.Instruction
	for _, in := range instrsMatching(fn, sp.effect) {
		if _, ok := in.(*ssa.Call); ok {
			sites = append(sites, in)
		}
	}
	if len(sites) == 0 {
		c.add("forall", rule, key("site"), Undecided, c.P.Pos(fn.Pos()), fmt.Sprintf("no %s in %s: the for-all over the batch moved (update the rule table)", sp.effect, name))
		return
	}
	loops := xc28Loops(fn)
	// all sites must share one loop
	var loop *xc28Loop
	for _, s := range sites {
		l := xc28Innermost(loops, s.Block())
		if l == nil {
			c.add("forall", rule, key("full-range"), Violated, c.P.InstrPos(s), fmt.Sprintf("%s is not inside a loop over %s: only some tasks of the batch are covered", sp.effect, sp.seq))
			return
		}
		if loop != nil && l != loop {
			c.add("forall", rule, key("site"), Undecided, c.P.InstrPos(s), fmt.Sprintf("%s occurs in more than one loop of %s", sp.effect, name))
			return
		}
		loop = l
	}
	pos := c.P.InstrPos(sites[0])
	h := loop.head

	// ---- full-range
	idx, why := xc28FullRange(fn, loop, sp.seq)
	if why == "" {
		// the element worked on is seq[index]
		found := false
		for b := range loop.body {
			for _, in := range b.Instrs {
				switch x := in.(type) {
				case *ssa.IndexAddr:
					if x.Index == idx && Path(x.X) == sp.seq {
						found = true
					}
				case *ssa.Index:
					if x.Index == idx && Path(x.X) == sp.seq {
						found = true
					}
				}
			}
		}
		if !found {
			why = "no element " + sp.seq + "[index] is read with the loop's own index"
		}
	}
	if why != "" {
		c.add("forall", rule, key("full-range"), Violated, c.P.InstrPos(h.Instrs[len(h.Instrs)-1]),
			fmt.Sprintf("the loop around %s in %s does not run over the whole %s: %s. Tasks outside the iterated range get neither a SENDACK nor a close.", sp.effect, name, sp.seq, why))
	} else {
		c.add("forall", rule, key("full-range"), Held, pos, "index runs 0,1,… while index < len("+sp.seq+") and the body reads "+sp.seq+"[index]")
	}

	// ---- no-early-exit
	var exits []string
	var blocks []*ssa.BasicBlock
	for b := range loop.body {
		blocks = append(blocks, b)
	}
	sort.Slice(blocks, func(i, j int) bool { return blocks[i].Index < blocks[j].Index })
	for _, b := range blocks {
		if b == h {
			continue
		}
		for si, s := range b.Succs {
			if loop.body[s] {
				continue
			}
			cond := "unconditionally"
			if a, ok := c37EdgeAtom(b, si); ok {
				cond = "when " + a.String()
			}
			kind := "leaves the loop"
			if len(s.Instrs) > 0 {
				switch s.Instrs[len(s.Instrs)-1].(type) {
				case *ssa.Return:
					kind = "returns from " + name
				case *ssa.Panic:
					kind = "panics"
				}
			}
			exits = append(exits, fmt.Sprintf("%s %s [%s]", kind, cond, c.P.InstrPos(b.Instrs[len(b.Instrs)-1])))
		}
	}
	if len(exits) > 0 {
		c.add("forall", rule, key("no-early-exit"), Violated, pos,
			fmt.Sprintf("the loop over %s around %s in %s can be left before the last task: it %s. Every task behind that point is skipped: its session is neither acknowledged nor closed, so an accepted SEND waits for its SENDACK forever. Use `continue` to skip one task.", sp.seq, sp.effect, name, strings.Join(exits, "; ")))
	} else {
		c.add("forall", rule, key("no-early-exit"), Held, pos, fmt.Sprintf("%d body block(s); the only exit is the header's exhaustion edge", len(loop.body)-1))
	}

	// ---- skips: branches that reach the next iteration without the effect
	reach := map[*ssa.BasicBlock]bool{}
	var work []*ssa.BasicBlock
	for _, s := range sites {
		work = append(work, s.Block())
	}
	for len(work) > 0 {
		x := work[len(work)-1]
		work = work[:len(work)-1]
		if reach[x] {
			continue
		}
		reach[x] = true
		if x == h {
			continue // do not walk into the previous iteration
		}
		for _, p := range x.Preds {
			if loop.body[p] {
				work = append(work, p)
			}
		}
	}
	hasEffect := func(b *ssa.BasicBlock) bool {
		for _, in := range b.Instrs {
			if sp.effect.Match(in) {
				return true
			}
		}
		return false
	}
	var badSkips, okSkips []string
	dedupChecked := false
	for _, b := range blocks {
		if !reach[b] || hasEffect(b) || len(b.Succs) < 2 {
			continue
		}
		for si, s := range b.Succs {
			if !loop.body[s] {
				continue // exits are judged above
			}
			if s != h && reach[s] {
				continue
			}
			atom, ok := c37EdgeAtom(b, si)
			matched := ""
			for _, sk := range sp.skips {
				if sk.dedup {
					if msg, is := xc28DedupEdge(c, sp, loop, b, si, sites); is {
						dedupChecked = true
						if msg != "" {
							c.add("forall", rule, key("dedup"), Violated, c.P.InstrPos(b.Instrs[len(b.Instrs)-1]), msg)
						} else {
							c.add("forall", rule, key("dedup"), Held, c.P.InstrPos(b.Instrs[len(b.Instrs)-1]), "fresh private map keyed by the effect's own argument; every insertion is followed by the effect")
						}
						matched = sk.reason
						break
					}
					continue
				}
				if ok && parseAtomSpec(sk.spec).Satisfies(atom) {
					matched = sk.reason
					break
				}
			}
			if matched != "" {
				okSkips = append(okSkips, matched)
				continue
			}
			d := "an unrecognised condition"
			if ok {
				d = atom.String()
			}
			badSkips = append(badSkips, fmt.Sprintf("%s [%s]", d, c.P.InstrPos(b.Instrs[len(b.Instrs)-1])))
		}
	}
	if len(badSkips) > 0 {
		var allowed []string
		for _, sk := range sp.skips {
			allowed = append(allowed, sk.reason)
		}
		if len(allowed) == 0 {
			allowed = []string{"none"}
		}
		c.add("forall", rule, key("skips"), Violated, pos,
			fmt.Sprintf("in %s a task of the batch goes to the next iteration without %s when %s. Enumerated exemptions: %s. A task skipped for another reason gets neither SENDACK nor close.", name, sp.effect, strings.Join(badSkips, "; "), strings.Join(allowed, " / ")))
	} else {
		c.add("forall", rule, key("skips"), Held, pos, fmt.Sprintf("%d skipping branch(es), all enumerated %v", len(okSkips), okSkips))
	}
	for _, sk := range sp.skips {
		if sk.dedup && !dedupChecked {
			// the de-duplication disappeared: closing twice is idempotent, nothing to prove
			c.add("forall", rule, key("dedup"), Held, pos, "no de-duplication branch in the loop")
		}
	}

	// ---- entered: the trigger edge leads to the loop
	entry := parseAtomSpec(sp.entry)
	n := 0
	var leaks []string
	for _, b := range fn.Blocks {
		if loop.body[b] {
			continue
		}
		for si := range b.Succs {
			a, ok := c37EdgeAtom(b, si)
			if !ok || !entry.Satisfies(a) {
				continue
			}
			n++
			s := b.Succs[si]
			if s == h {
				continue
			}
			// can we get from s to a return without entering the loop header?
			if xc28ReturnsAvoiding(s, h) {
				leaks = append(leaks, c.P.InstrPos(b.Instrs[len(b.Instrs)-1]))
			}
		}
	}
	switch {
	case n == 0:
		c.add("forall", rule, key("entered"), Violated, pos, fmt.Sprintf("no branch of %s establishes exactly `%s` before the loop: the for-all runs under a different (narrower or unrelated) condition, so some failed batches are left without SENDACK and without close", name, sp.entry))
	case len(leaks) > 0:
		c.add("forall", rule, key("entered"), Violated, pos, fmt.Sprintf("after `%s` [%s] %s can return without running the loop over %s", sp.entry, strings.Join(leaks, ", "), name, sp.seq))
	default:
		c.add("forall", rule, key("entered"), Held, pos, fmt.Sprintf("%d edge(s) establish `%s`; each leads to the loop before any return", n, sp.entry))
	}
}

// xc28ReturnsAvoiding: a Return (or the end of a block without successors) is reachable from s without passing block `avoid`.
func xc28ReturnsAvoiding(s, avoid *ssa.BasicBlock) bool {
	seen := map[*ssa.BasicBlock]bool{}
	work := []*ssa.BasicBlock{s}
	for len(work) > 0 {
		x := work[len(work)-1]
		work = work[:len(work)-1]
		if x == avoid || seen[x] {
			continue
		}
		seen[x] = true
		if len(x.Succs) == 0 {
			if len(x.Instrs) > 0 {
				if _, isPanic := x.Instrs[len(x.Instrs)-1].(*ssa.Panic); isPanic {
					continue
				}
			}
			return true
		}
		work = append(work, x.Succs...)
	}
	return false
}

// xc28DedupEdge: is edge (b,si) "the effect's key is already in the handled-set"? If so, msg is "" when the
// set is sound (see file comment) or the reason it is not.
func xc28DedupEdge(c *Ctx, sp xc28Spec, loop *xc28Loop, b *ssa.BasicBlock, si int, sites []ssa.Instruction) (msg string, is bool) {
	if sp.keyArg < 0 || len(b.Instrs) == 0 {
		return "", false
	}
	iff, ok := b.Instrs[len(b.Instrs)-1].(*ssa.If)
	if !ok {
		return "", false
	}
	cond, truth := iff.Cond, si == 0
	for {
		u, ok := cond.(*ssa.UnOp)
		if !ok || u.Op != token.NOT {
			break
		}
		cond, truth = u.X, !truth
	}
	ext, ok := cond.(*ssa.Extract)
	if !ok || ext.Index != 1 || !truth {
		return "", false
	}
	lk, ok := ext.Tuple.(*ssa.Lookup)
	if !ok || !lk.CommaOk {
		return "", false
	}
	mk, ok := lk.X.(*ssa.MakeMap)
	if !ok {
		return "", false
	}
	// it is a "present in a local map" edge: from here on it must be sound
	var keys []string
	for _, s := range sites {
		args := s.(*ssa.Call).Call.Args
		if sp.keyArg >= len(args) {
			return "the effect has no argument " + fmt.Sprint(sp.keyArg), true
		}
		keys = append(keys, Path(args[sp.keyArg]))
	}
	if Path(lk.Index) != keys[0] {
		return fmt.Sprintf("the handled-set is looked up with %s but the effect is applied to %s: a task can be skipped because of a different session", Path(lk.Index), keys[0]), true
	}
	if loop.body[mk.Block()] {
		return "", true // a map made inside the iteration is always empty: the branch never skips
	}
	inserts := 0
	if mk.Referrers() != nil {
		for _, r := range *mk.Referrers() {
			switch x := r.(type) {
			case *ssa.Lookup, *ssa.DebugRef:
			case *ssa.MapUpdate:
				inserts++
				if !loop.body[x.Block()] {
					return "the handled-set is filled outside the loop: sessions are treated as handled that were never closed [" + c.P.InstrPos(x) + "]", true
				}
				if Path(x.Key) != keys[0] {
					return fmt.Sprintf("the handled-set is filled with %s, not with the value the effect is applied to (%s)", Path(x.Key), keys[0]), true
				}
				if xc28EscapesWithout(x.Block(), indexIn(x.Block(), x)+1, sp.effect, loop.head, loop.body) {
					return fmt.Sprintf("after the session is recorded as handled [%s] the iteration can end without %s: a later task of the same session is then skipped although the session was never closed", c.P.InstrPos(x), sp.effect), true
				}
			default:
				return "the handled-set is also used by " + strings.TrimSpace(r.String()) + ": its contents are not decided here", true
			}
		}
	}
	return "", true
}
