package main

import (
	"fmt"
	"go/token"
	"go/types"
	"sort"
	"strings"

	"golang.org/x/tools/go/ssa"
)

// Extension rules for C31 (online delivery preserves per-channel order and recipient coverage), added
// after three independently seeded bugs that the R1..R6 table did not see. All three break the
// recipient-coverage clause, each at a different mechanism:
//
//	X1-handoff   (seed a)  Online Delivery admission takes the plan WITHOUT cloning it: the caller of
//	                       *.EnqueueRecipientDeliveryPlan gives the storage of the plan's slice fields away.
//	                       After the hand-off the variable that held the plan must not write into that
//	                       storage again and must not keep it for the next plan: the slice field is
//	                       re-initialised from fresh storage (make / nil / a new literal) before the
//	                       variable is used again, on every path that continues after a successful enqueue.
//	X2-coverage  (seed b)  "pushed or reported offline" is decided by loops that must be TOTAL: the offline
//	                       scan visits every recipient of the target (each iteration either reports the
//	                       recipient or skips it because that very UID is online / already reported), the
//	                       online set is built from every resolved route, every target of the plan reaches
//	                       the offline scan unless its presence answer is missing/failed, and every resolved
//	                       route is grouped for push. None of these loops may be bypassed or left early:
//	                       the code after them is reachable only over the loop's exhaustion edge.
//	X3-classify  (seed c)  exact-route retry narrowing re-pushes exactly result.Retryable, so the owner side
//	                       must classify EVERY submitted route exactly once: the loop of pushOwnerLocal that
//	                       fills result.{Accepted,Retryable,Dropped} does so in every iteration, at most
//	                       once per iteration, has no exit but exhaustion, and the success return lies
//	                       behind that exhaustion edge.
//
// NOT decided here: that the failing return of the flush closure really stops the dispatcher (the parent
// propagates the error; checked by reading, one site), aliasing of the per-target Recipients windows
// (they are capacity-limited views of storage owned by the grouping, see the comment in
// dispatchRecipientPlans), and what a remote owner or the RPC adapter does with the classification.
func init() {
	const rt = "internal/runtime/delivery/runtime.go"
	const rc = "internal/runtime/channelappend/recipient.go"
	extend("C31", []string{"./internal/runtime/channelappend"}, func(c *Ctx) {
		// ---- X1: ownership transfer at admission ------------------------------------------
		xc31Handoff(c, "X1-handoff", "*.EnqueueRecipientDeliveryPlan", 1)

		// ---- X2: total coverage loops ------------------------------------------------------
		offline := c.Fn(c31D + "appendOfflineUIDs")
		xc31TotalLoop(c, "X2-coverage", offline, xc31LoopSpec{
			Over: "target.Recipients",
			Effect: InstrFn{"report recipient offline", func(in ssa.Instruction) bool {
				call, ok := c31IsAppend(in)
				return ok && xc31IsStringSlice(call.Type())
			}},
			Skip:   "*[*.UID]#1 == true", // that UID is in the online set / was reported before
			Finish: AnyRet{},
			Unless: "len(target.Recipients) == 0",
		})
		xc31TotalLoop(c, "X2-coverage", offline, xc31LoopSpec{
			Over: "routes",
			Effect: InstrFn{"mark route UID online", func(in ssa.Instruction) bool {
				mu, ok := in.(*ssa.MapUpdate)
				return ok && strings.HasSuffix(Path(mu.Key), ".UID")
			}},
		})
		pp := c.Fn(c31D + "Runtime.processPlan")
		if pp != nil {
			// the "no offline report wanted" exception is the nil-ness of the very set handed to the scan
			skip := "* >= len(*EndpointsByTargets(*)) || *EndpointsByTargets(*)[*].Err != nil"
			for _, ci := range c31Calls(pp, c31D+"appendOfflineUIDs") {
				if a := ci.Common().Args; len(a) == 4 {
					skip += " || " + Path(a[1]) + " == nil"
				}
			}
			xc31TotalLoop(c, "X2-coverage", pp, xc31LoopSpec{
				Over:   "plan.Targets",
				Effect: CallTo{c31D + "appendOfflineUIDs"},
				Skip:   skip,
				Finish: OneOf{CallTo{c31D + "Runtime.notifyOfflineSafely"}, CallTo{c31D + "runBoundedRuntime"}},
			})
			xc31TotalLoop(c, "X2-coverage", pp, xc31LoopSpec{
				Over: "*EndpointsByTargets(*)[*].Routes",
				Effect: InstrFn{"group route under its owner", func(in ssa.Instruction) bool {
					mu, ok := in.(*ssa.MapUpdate)
					return ok && c31IsRouteSlice(mu.Value.Type())
				}},
				Skip: "*.OwnerNodeID == 0 || " + c31D + "suppressSenderRoute(plan, *) == true",
			})
		}

		// ---- X3: every submitted route is classified exactly once ---------------------------
		xc31TotalLoop(c, "X3-classify", c.Fn(c31D+"Runtime.pushOwnerLocal"), xc31LoopSpec{
			Over:   "push.Routes",
			Effect: OneOf{StoreTo{Addr: "result.Accepted"}, StoreTo{Addr: "result.Retryable"}, StoreTo{Addr: "result.Dropped"}},
			Finish: RetNil{},
			Unless: "len(push.Routes) == 0",
		})
	},
		// ---- X1
		Mutant{Name: "x-next-plan-reuses-handed-off-targets", File: rc,
			Old:    "\t\tplan = onlinedelivery.RecipientDeliveryPlan{Mode: mode, Event: event, Targets: make([]onlinedelivery.RecipientTargetBatch, 0, planTargetCapacity)}\n\t\treturn nil\n",
			New:    "\t\tplan.Targets = plan.Targets[:0]\n\t\treturn nil\n",
			Expect: "C31/X1-handoff/*"},
		Mutant{Name: "x-plan-not-reset-after-handoff", File: rc,
			Old:    "\t\tplan = onlinedelivery.RecipientDeliveryPlan{Mode: mode, Event: event, Targets: make([]onlinedelivery.RecipientTargetBatch, 0, planTargetCapacity)}\n\t\treturn nil\n",
			New:    "\t\treturn nil\n",
			Expect: "C31/X1-handoff/*"},
		Mutant{Name: "x-next-plan-literal-keeps-old-array", File: rc,
			Old:    "\t\tplan = onlinedelivery.RecipientDeliveryPlan{Mode: mode, Event: event, Targets: make([]onlinedelivery.RecipientTargetBatch, 0, planTargetCapacity)}\n\t\treturn nil\n",
			New:    "\t\tplan = onlinedelivery.RecipientDeliveryPlan{Mode: mode, Event: event, Targets: plan.Targets[:0:cap(plan.Targets)]}\n\t\treturn nil\n",
			Expect: "C31/X1-handoff/*"},
		// ---- X2
		Mutant{Name: "x-offline-scan-fast-path-by-route-count", File: rt,
			Old:    "\tonline := make(map[string]struct{}, len(routes))\n",
			New:    "\tif len(routes) >= len(target.Recipients) {\n\t\treturn out\n\t}\n\tonline := make(map[string]struct{}, len(routes))\n",
			Expect: "C31/X2-coverage/*appendOfflineUIDs*target.Recipients*finish-after-exhaustion*"},
		Mutant{Name: "x-offline-scan-stops-at-first-reported", File: rt,
			Old:    "\t\tif _, ok := seen[recipient.UID]; ok {\n\t\t\tcontinue\n\t\t}",
			New:    "\t\tif _, ok := seen[recipient.UID]; ok {\n\t\t\tbreak\n\t\t}",
			Expect: "C31/X2-coverage/*appendOfflineUIDs*target.Recipients*no-early-exit"},
		Mutant{Name: "x-offline-scan-skips-when-routes-outnumber-recipients", File: rt,
			Old:    "\t\tif _, ok := seen[recipient.UID]; ok {\n\t\t\tcontinue\n\t\t}",
			New:    "\t\tif _, ok := seen[recipient.UID]; ok || len(routes) >= len(target.Recipients) {\n\t\t\tcontinue\n\t\t}",
			Expect: "C31/X2-coverage/*appendOfflineUIDs*target.Recipients*every-iteration"},
		Mutant{Name: "x-plan-stops-at-first-presence-error", File: rt,
			Old:    "\t\t\t\tfirstErr = newPlanFailure(PlanFailurePhasePresence, plan, i, 0, resolved[i].Err)\n\t\t\t}\n\t\t\tcontinue\n",
			New:    "\t\t\t\tfirstErr = newPlanFailure(PlanFailurePhasePresence, plan, i, 0, resolved[i].Err)\n\t\t\t}\n\t\t\tbreak\n",
			Expect: "C31/X2-coverage/*processPlan*plan.Targets*no-early-exit"},
		Mutant{Name: "x-route-grouping-stops-at-ownerless-route", File: rt,
			Old:    "\t\t\tif route.OwnerNodeID == 0 || suppressSenderRoute(plan, route) {\n\t\t\t\tcontinue\n\t\t\t}",
			New:    "\t\t\tif route.OwnerNodeID == 0 || suppressSenderRoute(plan, route) {\n\t\t\t\tbreak\n\t\t\t}",
			Expect: "C31/X2-coverage/*processPlan*Routes*no-early-exit"},
		// ---- X3
		Mutant{Name: "x-owner-push-stops-classifying-when-ctx-done", File: rt,
			Old:    "\t\t\tsetOwnerPushFailure(&failure, route, err)\n\t\t\tcontinue\n",
			New:    "\t\t\tsetOwnerPushFailure(&failure, route, err)\n\t\t\tbreak\n",
			Expect: "C31/X3-classify/*pushOwnerLocal*no-early-exit"},
		Mutant{Name: "x-owner-push-returns-partial-result-when-ctx-done", File: rt,
			Old:    "\t\t\tsetOwnerPushFailure(&failure, route, err)\n\t\t\tcontinue\n",
			New:    "\t\t\tsetOwnerPushFailure(&failure, route, err)\n\t\t\treturn result, nil\n",
			Expect: "C31/X3-classify/*pushOwnerLocal*finish-after-exhaustion*"},
		Mutant{Name: "x-owner-push-unbound-duplicate-unclassified", File: rt,
			Old:    "\t\t\tif !refreshed.Bound {\n\t\t\t\tresult.Dropped = append(result.Dropped, route)\n",
			New:    "\t\t\tif !refreshed.Bound {\n",
			Expect: "C31/X3-classify/*pushOwnerLocal*every-iteration"},
		Mutant{Name: "x-owner-push-invalid-route-classified-twice", File: rt,
			Old:    "\t\t\tsetOwnerPushFailure(&failure, route, ErrInvalidPlan)\n\t\t\tcontinue\n\t\t}\n\t\ttoken := bind.Tokens[i]\n",
			New:    "\t\t\tsetOwnerPushFailure(&failure, route, ErrInvalidPlan)\n\t\t}\n\t\ttoken := bind.Tokens[i]\n",
			Expect: "C31/X3-classify/*pushOwnerLocal*once-per-iteration"},
	)
}

func xc31IsStringSlice(t types.Type) bool {
	s, ok := t.Underlying().(*types.Slice)
	if !ok {
		return false
	}
	b, ok := s.Elem().Underlying().(*types.Basic)
	return ok && b.Kind() == types.String
}

func xc31IsConst(v ssa.Value, lit string) bool {
	k, ok := stripConv(v).(*ssa.Const)
	return ok && k.Value != nil && k.Value.ExactString() == lit
}

// ---------------------------------------------------------------------------
// total loops

// xc31LoopSpec describes a coverage loop `for i := range S` (or i = 0; i < len(S); i++).
type xc31LoopSpec struct {
	Over   string // glob on the rendering of S
	Effect Effect // what an iteration has to do for its element
	Skip   string // guard spec: facts under which an iteration may end without the effect ("" = none)
	Finish Effect // instructions that may run only after the loop ran to exhaustion (nil = not checked)
	Unless string // guard spec: facts under which Finish may be reached without the loop ("" = none)
}

type xc31Loop struct {
	head *ssa.BasicBlock
	body map[*ssa.BasicBlock]bool // natural loop, header included
	over string
}

// xc31Induction: x is the index of a full left-to-right sweep in the loop headed by h:
// range form (phi(-1|x)+1) or counting form phi(0|phi+1).
func xc31Induction(x ssa.Value, h *ssa.BasicBlock) bool {
	x = stripConv(x)
	if b, ok := x.(*ssa.BinOp); ok && b.Op == token.ADD && xc31IsConst(b.Y, "1") {
		phi, ok := b.X.(*ssa.Phi)
		if !ok || phi.Block() != h {
			return false
		}
		for _, e := range phi.Edges {
			if xc31IsConst(e, "-1") || e == ssa.Value(b) {
				continue
			}
			return false
		}
		return true
	}
	if phi, ok := x.(*ssa.Phi); ok && phi.Block() == h {
		for _, e := range phi.Edges {
			if xc31IsConst(e, "0") {
				continue
			}
			if b, ok := e.(*ssa.BinOp); ok && b.Op == token.ADD && b.X == ssa.Value(phi) && xc31IsConst(b.Y, "1") {
				continue
			}
			return false
		}
		return true
	}
	return false
}

// xc31Loops finds the loops of fn that sweep a slice whose rendering matches over from the first to
// the last element: header `if idx < len(S)` with idx a plain induction, true edge into the body.
func xc31Loops(fn *ssa.Function, over string) []xc31Loop {
	var out []xc31Loop
	for _, h := range fn.Blocks {
		if len(h.Instrs) == 0 || len(h.Succs) != 2 {
			continue
		}
		iff, ok := h.Instrs[len(h.Instrs)-1].(*ssa.If)
		if !ok {
			continue
		}
		bin, ok := iff.Cond.(*ssa.BinOp)
		if !ok || bin.Op != token.LSS {
			continue
		}
		arg, ok := c31IsLen(bin.Y)
		if !ok || !glob(over, Path(arg)) || !xc31Induction(bin.X, h) {
			continue
		}
		body := map[*ssa.BasicBlock]bool{h: true}
		var work []*ssa.BasicBlock
		for _, t := range h.Preds {
			if h.Dominates(t) && !body[t] {
				body[t] = true
				work = append(work, t)
			}
		}
		for len(work) > 0 {
			b := work[len(work)-1]
			work = work[:len(work)-1]
			for _, p := range b.Preds {
				if !body[p] {
					body[p] = true
					work = append(work, p)
				}
			}
		}
		if len(body) == 1 || !body[h.Succs[0]] || body[h.Succs[1]] {
			continue
		}
		out = append(out, xc31Loop{head: h, body: body, over: Path(arg)})
	}
	return out
}

func xc31BlockHas(b *ssa.BasicBlock, eff Effect) int {
	n := 0
	for _, in := range b.Instrs {
		if _, isDefer := in.(*ssa.Defer); !isDefer && eff.Match(in) {
			n++
		}
	}
	return n
}

// xc31TotalLoop decides, for every loop over spec.Over whose body contains spec.Effect:
//
//	#every-iteration   an iteration reaches the back edge only after the effect, or over a Skip edge;
//	#once-per-iteration no path inside one iteration executes the effect twice;
//	#no-early-exit     the only edge that leaves the loop is the exhaustion edge of the header
//	                   (no break, no return, no goto out of the body);
//	#finish-after-exhaustion  spec.Finish is reachable from the entry only over such an exhaustion
//	                   edge (or an Unless edge): nothing bypasses the loop.
func xc31TotalLoop(c *Ctx, rule string, fn *ssa.Function, spec xc31LoopSpec) {
	if fn == nil {
		return
	}
	name := c.P.Name(fn)
	c.FuncsAnalysed[name] = true
	key := name + "#loop(" + spec.Over + ")→" + spec.Effect.String()
	var loops []xc31Loop
	for _, l := range xc31Loops(fn, spec.Over) {
		for b := range l.body {
			if xc31BlockHas(b, spec.Effect) > 0 {
				loops = append(loops, l)
				break
			}
		}
	}
	if len(loops) == 0 {
		c.add("cover", rule, key, Undecided, c.P.Pos(fn.Pos()),
			fmt.Sprintf("no full sweep `for i := range %s` performing %q found (the loop moved, changed bounds or lost its effect)", spec.Over, spec.Effect.String()))
		return
	}
	skipEdges := map[edge]bool{}
	if spec.Skip != "" {
		skipEdges, _ = guardEdges(fn, parseGuard(spec.Skip))
	}
	var missed, twice, exits []string
	for _, l := range loops {
		h := l.head
		// every iteration
		seen := map[*ssa.BasicBlock]bool{h.Succs[0]: true}
		work := []*ssa.BasicBlock{h.Succs[0]}
		for len(work) > 0 {
			b := work[len(work)-1]
			work = work[:len(work)-1]
			if xc31BlockHas(b, spec.Effect) > 0 {
				continue
			}
			for si, s := range b.Succs {
				if skipEdges[edge{b, si}] || !l.body[s] {
					continue
				}
				if s == h {
					missed = append(missed, fmt.Sprintf("an iteration over %s can end without %q (back edge from the block at %s)", l.over, spec.Effect.String(), c.P.InstrPos(b.Instrs[len(b.Instrs)-1])))
					continue
				}
				if !seen[s] {
					seen[s] = true
					work = append(work, s)
				}
			}
		}
		// at most once per iteration
		for e := range l.body {
			k := xc31BlockHas(e, spec.Effect)
			if k == 0 || e == h {
				continue
			}
			if k > 1 {
				twice = append(twice, fmt.Sprintf("%q runs %d times in the block at %s", spec.Effect.String(), k, c.P.InstrPos(e.Instrs[0])))
			}
			seen := map[*ssa.BasicBlock]bool{}
			work := []*ssa.BasicBlock{e}
			for len(work) > 0 {
				b := work[len(work)-1]
				work = work[:len(work)-1]
				for _, s := range b.Succs {
					if s == h || !l.body[s] || seen[s] {
						continue
					}
					seen[s] = true
					if xc31BlockHas(s, spec.Effect) > 0 {
						twice = append(twice, fmt.Sprintf("one iteration over %s can perform %q twice (block at %s, then block at %s)", l.over, spec.Effect.String(), c.P.InstrPos(e.Instrs[0]), c.P.InstrPos(s.Instrs[0])))
						continue
					}
					work = append(work, s)
				}
			}
		}
		// no early exit
		for b := range l.body {
			for si, s := range b.Succs {
				if l.body[s] || (b == h && si == 1) {
					continue
				}
				exits = append(exits, fmt.Sprintf("the sweep over %s is left before its last element at %s", l.over, c.P.InstrPos(b.Instrs[len(b.Instrs)-1])))
			}
			if len(b.Succs) == 0 { // cannot happen in a natural loop; defensive
				exits = append(exits, "a block of the loop body ends the function")
			}
		}
	}
	c31Result(c, "cover", rule, key+":every-iteration", fn, len(loops), dedup(missed),
		fmt.Sprintf("%d loop(s): each iteration performs %q unless %q", len(loops), spec.Effect.String(), spec.Skip))
	c31Result(c, "cover", rule, key+":once-per-iteration", fn, len(loops), dedup(twice),
		fmt.Sprintf("%d loop(s): no iteration performs %q twice", len(loops), spec.Effect.String()))
	c31Result(c, "cover", rule, key+":no-early-exit", fn, len(loops), dedup(exits),
		fmt.Sprintf("%d loop(s): the body is left only over the exhaustion edge of the header", len(loops)))
	if spec.Finish == nil {
		return
	}
	removed := map[edge]bool{}
	var afters []string
	if spec.Unless != "" {
		g := parseGuard(spec.Unless)
		removed, _ = guardEdges(fn, g)
		afters = g.afters
	}
	for _, l := range loops {
		removed[edge{l.head, 1}] = true
	}
	limit := reachUnguarded(fn, removed, afters)
	n := 0
	var bad []string
	for _, b := range fn.Blocks {
		if b == fn.Recover {
			continue
		}
		for i, in := range b.Instrs {
			if _, isDefer := in.(*ssa.Defer); isDefer || !spec.Finish.Match(in) {
				continue
			}
			n++
			if lim, ok := limit[b]; ok && i < lim {
				bad = append(bad, fmt.Sprintf("%q at %s is reachable without the sweep over %s having reached its last element", spec.Finish.String(), c.P.InstrPos(in), spec.Over))
			}
		}
	}
	c31Result(c, "cover", rule, key+":finish-after-exhaustion⇒"+spec.Finish.String(), fn, n, dedup(bad),
		fmt.Sprintf("%d site(s) of %q lie behind the exhaustion edge of the sweep (or %q)", n, spec.Finish.String(), spec.Unless))
}

// ---------------------------------------------------------------------------
// ownership transfer

// xc31SliceFields: indexes of the slice-typed fields of the struct type t.
func xc31SliceFields(t types.Type) []int {
	if p, ok := t.Underlying().(*types.Pointer); ok {
		t = p.Elem()
	}
	st, ok := t.Underlying().(*types.Struct)
	if !ok {
		return nil
	}
	var out []int
	for i := 0; i < st.NumFields(); i++ {
		if _, ok := st.Field(i).Type().Underlying().(*types.Slice); ok {
			out = append(out, i)
		}
	}
	return out
}

// xc31Handoff: for every call of calleeGlob whose last argument is a struct value loaded from a
// variable (local, captured or reached through a pointer), the storage of that struct's slice fields
// belongs to the callee from the call on. Forward may-analysis of "the variable still names the
// handed-off array" per slice field:
//   - a store into the field (or of the whole struct) of a value built from fresh storage clears it;
//   - any other store into the field, and any element store through the field, while it is set is a
//     write into / a re-use of storage the caller no longer owns;
//   - a success return (nil error, or any return of a function without error result) while it is set
//     is refused when the variable outlives the function (captured variable, pointer parameter, field).
func xc31Handoff(c *Ctx, rule, calleeGlob string, minSites int) {
	sites := 0
	for _, fn := range c.P.AllFuncs {
		for _, ci := range c31Calls(fn, calleeGlob) {
			if _, ok := ci.(*ssa.Call); !ok {
				continue // go/defer of an enqueue: not a synchronous hand-off site
			}
			args := ci.Common().Args
			if len(args) == 0 {
				continue
			}
			sites++
			xc31HandoffSite(c, rule, fn, ci, args[len(args)-1])
		}
	}
	if sites < minSites {
		c.add("flow", rule, "handoff-sites:"+calleeGlob, Undecided, "", fmt.Sprintf("%d call site(s) of %s found, hand-confirmed ≥ %d (vacuous)", sites, calleeGlob, minSites))
	}
}

func xc31HandoffSite(c *Ctx, rule string, fn *ssa.Function, site ssa.CallInstruction, arg ssa.Value) {
	name := c.P.Name(fn)
	c.FuncsAnalysed[name] = true
	key := name + "#handoff:" + calleeName(site.Common())
	pos := c.P.InstrPos(site)
	ld, ok := stripConv(arg).(*ssa.UnOp)
	if !ok || ld.Op != token.MUL {
		switch stripConv(arg).(type) {
		case *ssa.Call, *ssa.Extract, *ssa.Parameter:
			c.add("flow", rule, key, Held, pos, "the plan handed off is a call result or the caller's own by-value parameter; the caller keeps no variable that names its storage")
		default:
			c.add("flow", rule, key, Undecided, pos, "the plan handed off ("+Path(arg)+") is not loaded from one variable; cannot follow its storage")
		}
		return
	}
	holder := ld.X
	fields := xc31SliceFields(holder.Type())
	if len(fields) == 0 || len(fields) > 8 {
		c.add("flow", rule, key, Held, pos, "the value handed off carries no slice storage of its own")
		return
	}
	bitOf := map[int]uint8{}
	all := uint8(0)
	for k, f := range fields {
		bitOf[f] = 1 << uint(k)
		all |= 1 << uint(k)
	}
	sameHolder := func(a ssa.Value) bool {
		if a == holder {
			return true
		}
		switch holder.(type) {
		case *ssa.Alloc, *ssa.FreeVar, *ssa.Parameter:
			return false
		}
		return Path(a) == Path(holder)
	}
	// fieldOfHolder: a is &holder.F for a tracked slice field F
	fieldOfHolder := func(a ssa.Value) (int, bool) {
		fa, ok := a.(*ssa.FieldAddr)
		if !ok || !sameHolder(fa.X) {
			return 0, false
		}
		_, tracked := bitOf[fa.Field]
		return fa.Field, tracked
	}
	// derived: the slice value v shares its array with holder.F (some tracked F)
	var derived func(v ssa.Value, depth int) (int, bool)
	derived = func(v ssa.Value, depth int) (int, bool) {
		if depth > 8 {
			return 0, false
		}
		switch x := stripConv(v).(type) {
		case *ssa.UnOp:
			if x.Op == token.MUL {
				if f, ok := fieldOfHolder(x.X); ok {
					return f, true
				}
			}
		case *ssa.Field:
			if u, ok := x.X.(*ssa.UnOp); ok && u.Op == token.MUL && sameHolder(u.X) {
				if _, tracked := bitOf[x.Field]; tracked {
					return x.Field, true
				}
			}
		case *ssa.Slice:
			return derived(x.X, depth+1)
		case *ssa.Phi:
			for _, e := range x.Edges {
				if f, ok := derived(e, depth+1); ok {
					return f, true
				}
			}
		case *ssa.Call:
			if b, ok := x.Call.Value.(*ssa.Builtin); ok && b.Name() == "append" && len(x.Call.Args) > 0 {
				return derived(x.Call.Args[0], depth+1)
			}
		}
		return 0, false
	}
	// fresh: the slice value v owns storage nobody else has seen
	var fresh func(v ssa.Value, depth int) bool
	fresh = func(v ssa.Value, depth int) bool {
		if depth > 8 {
			return false
		}
		switch x := stripConv(v).(type) {
		case *ssa.MakeSlice:
			return true
		case *ssa.Const:
			return x.Value == nil
		case *ssa.Slice:
			if a, ok := x.X.(*ssa.Alloc); ok && a.Heap {
				return true // slice literal: new array
			}
			return fresh(x.X, depth+1)
		case *ssa.Phi:
			for _, e := range x.Edges {
				if !fresh(e, depth+1) {
					return false
				}
			}
			return len(x.Edges) > 0
		case *ssa.Call:
			if b, ok := x.Call.Value.(*ssa.Builtin); ok && b.Name() == "append" && len(x.Call.Args) > 0 {
				return fresh(x.Call.Args[0], depth+1) // append(nil/fresh, …) copies
			}
		}
		return false
	}
	// freshStruct: which tracked fields of the struct value v are fresh (v is a constant zero value or a
	// load of a local that was assembled from field stores / whole stores that are fresh themselves).
	var freshStruct func(v ssa.Value, depth int) uint8
	freshStruct = func(v ssa.Value, depth int) uint8 {
		if depth > 3 {
			return 0
		}
		switch x := stripConv(v).(type) {
		case *ssa.Const:
			return all
		case *ssa.UnOp:
			a, ok := x.X.(*ssa.Alloc)
			if x.Op != token.MUL || !ok || a == holder || a.Referrers() == nil {
				return 0
			}
			ok8 := all
			for _, r := range *a.Referrers() {
				switch y := r.(type) {
				case *ssa.Store:
					if y.Addr == ssa.Value(a) {
						ok8 &= freshStruct(y.Val, depth+1)
					}
				case *ssa.FieldAddr:
					bit, tracked := bitOf[y.Field]
					if !tracked || y.Referrers() == nil {
						continue
					}
					for _, rr := range *y.Referrers() {
						if st, ok := rr.(*ssa.Store); ok && st.Addr == ssa.Value(y) && !fresh(st.Val, 0) {
							ok8 &^= bit
						}
					}
				}
			}
			return ok8
		}
		return 0
	}
	fname := func(f int) string { return Path(holder) + "." + fieldName(holder.Type(), f) }

	var bad, unsure []string
	step := func(st uint8, in ssa.Instruction, report bool) uint8 {
		if in == ssa.Instruction(site) {
			return all
		}
		switch x := in.(type) {
		case *ssa.Store:
			if f, ok := fieldOfHolder(x.Addr); ok {
				bit := bitOf[f]
				if fresh(x.Val, 0) {
					return st &^ bit
				}
				if st&bit != 0 && report {
					if _, d := derived(x.Val, 0); d {
						bad = append(bad, fmt.Sprintf("%s is set to %s at %s: the next plan is built in the array that was handed to %s", fname(f), Path(x.Val), c.P.InstrPos(in), calleeName(site.Common())))
					} else {
						unsure = append(unsure, fmt.Sprintf("%s is set to %s at %s after the hand-off; cannot tell whether that storage is fresh", fname(f), Path(x.Val), c.P.InstrPos(in)))
					}
				}
				return st
			}
			if sameHolder(x.Addr) {
				fr := freshStruct(x.Val, 0)
				if stale := st &^ fr; stale != 0 && report {
					for _, f := range fields {
						if stale&bitOf[f] != 0 {
							bad = append(bad, fmt.Sprintf("%s is replaced at %s by a value whose %s is not fresh storage (make / nil / new literal)", Path(holder), c.P.InstrPos(in), fieldName(holder.Type(), f)))
						}
					}
				}
				return st &^ fr // fields that are not provably fresh keep naming the handed-off array
			}
			if ia, ok := x.Addr.(*ssa.IndexAddr); ok && st != 0 {
				if f, d := derived(ia.X, 0); d && st&bitOf[f] != 0 && report {
					bad = append(bad, fmt.Sprintf("element store through %s at %s writes into the array that was handed to %s", fname(f), c.P.InstrPos(in), calleeName(site.Common())))
				}
			}
		case *ssa.Return:
			if st == 0 || !report {
				return st
			}
			outlives := true
			if a, ok := holder.(*ssa.Alloc); ok && a.Parent() == fn {
				outlives = false
			}
			success := RetNil{}.Match(x)
			if !success {
				hasErr := false
				for _, r := range x.Results {
					if isErrorType(r.Type()) {
						hasErr = true
					}
				}
				success = !hasErr
			}
			if outlives && success {
				for _, f := range fields {
					if st&bitOf[f] != 0 {
						bad = append(bad, fmt.Sprintf("success return at %s leaves %s naming the array that was handed to %s; the next plan will be built in it", c.P.InstrPos(in), fname(f), calleeName(site.Common())))
					}
				}
			}
		}
		return st
	}
	in := map[*ssa.BasicBlock]uint8{}
	reached := map[*ssa.BasicBlock]bool{fn.Blocks[0]: true}
	for iter := 0; iter < 64; iter++ {
		changed := false
		for _, b := range fn.Blocks {
			if !reached[b] || b == fn.Recover {
				continue
			}
			st := in[b]
			for _, ins := range b.Instrs {
				st = step(st, ins, false)
			}
			for _, s := range b.Succs {
				if !reached[s] || in[s]|st != in[s] {
					reached[s] = true
					in[s] |= st
					changed = true
				}
			}
		}
		if !changed {
			break
		}
	}
	for _, b := range fn.Blocks {
		if !reached[b] || b == fn.Recover {
			continue
		}
		st := in[b]
		for _, ins := range b.Instrs {
			st = step(st, ins, true)
		}
	}
	bad, unsure = dedup(bad), dedup(unsure)
	sort.Strings(bad)
	switch {
	case len(bad) > 0:
		c.add("flow", rule, key, Violated, pos, strings.Join(append(bad, unsure...), "; "))
	case len(unsure) > 0:
		c.add("flow", rule, key, Undecided, pos, strings.Join(unsure, "; "))
	default:
		var names []string
		for _, f := range fields {
			names = append(names, fname(f))
		}
		c.add("flow", rule, key, Held, pos, fmt.Sprintf("after the hand-off %s is re-initialised from fresh storage before any further store into it and before every success return", strings.Join(names, ", ")))
	}
}
