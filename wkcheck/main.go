package main

import (
	"encoding/json"
	"flag"
	"fmt"
	"os"
	"path/filepath"
	"sort"
	"strconv"
	"strings"
	"sync"
	"time"
)

type selfTestResult struct {
	Name   string `json:"name"`
	File   string `json:"file"`
	Result string `json:"result"` // fired | MISSED | stale | broken-build
	Fired  string `json:"fired,omitempty"`
}

func verifDir() string {
	if d := os.Getenv("VERIF_DIR"); d != "" {
		return d
	}
	exe, err := os.Executable()
	if err == nil {
		d := filepath.Dir(filepath.Dir(exe))
		if _, err := os.Stat(filepath.Join(d, "properties.jsonl")); err == nil {
			return d
		}
	}
	return "/verif"
}

func main() {
	prop := flag.String("property", "", "property id (C01…)")
	tier := flag.String("tier", "", "quick|thorough (default: $VERIF_TIER or quick)")
	all := flag.Bool("all", false, "run every registered property")
	replay := flag.String("replay", "", "replay file: re-decide the stored obligation on the current tree")
	list := flag.Bool("list", false, "list registered properties")
	selftest := flag.Bool("selftest", false, "run only the stored mutants of the property")
	verbose := flag.Bool("v", false, "print every obligation")
	dump := flag.String("dump", "", "debug: dump rendered SSA of the function with this short name (needs --property for package set or --pkgs)")
	pkgs := flag.String("pkgs", "", "debug: package patterns for --dump")
	repo := flag.String("repo", "", "repository root (default /repo)")
	manifest := flag.Bool("manifest", false, "print the registry as JSON for tools/genmanifest.py")
	flag.Parse()
	os.Setenv("PATH", "/opt/veriftools/go1.26.8/bin:"+os.Getenv("PATH"))
	os.Setenv("GOTOOLCHAIN", "local")
	if *repo != "" {
		repoDir = *repo
	}
	if *tier == "" {
		*tier = os.Getenv("VERIF_TIER")
	}
	if *tier != "thorough" {
		*tier = "quick"
	}
	seed, _ := strconv.Atoi(os.Getenv("VERIF_SEED"))
	vd := verifDir()

	if *manifest {
		out := map[string]map[string]string{}
		for id, s := range registry {
			out[id] = map[string]string{"explain": s.Explain, "technique": s.Technique}
		}
		b, _ := json.MarshalIndent(out, "", " ")
		fmt.Println(string(b))
		return
	}
	if *list {
		var ids []string
		for id := range registry {
			ids = append(ids, id)
		}
		sort.Strings(ids)
		for _, id := range ids {
			fmt.Println(id, registry[id].Pkgs)
		}
		return
	}
	if *dump != "" {
		pats := strings.Fields(*pkgs)
		if len(pats) == 0 && *prop != "" {
			pats = registry[*prop].Pkgs
		}
		p, err := LoadProgram(pats, nil)
		if err != nil {
			fmt.Println(err)
			os.Exit(2)
		}
		if strings.HasPrefix(*dump, "mapranges:") {
			dumpMapRanges(p, strings.TrimPrefix(*dump, "mapranges:"))
			return
		}
		for _, fn := range p.FuncsMatching(*dump) {
			dumpFunc(p, fn)
		}
		return
	}
	if *replay != "" {
		b, err := os.ReadFile(*replay)
		if err != nil {
			fmt.Println("cannot read replay file:", err)
			os.Exit(2)
		}
		var o Oblig
		if err := json.Unmarshal(b, &o); err != nil {
			fmt.Println("bad replay file:", err)
			os.Exit(2)
		}
		spec := registry[o.Prop]
		if spec == nil {
			fmt.Println("unknown property", o.Prop)
			os.Exit(2)
		}
		r := runProperty(spec, *tier, nil)
		for _, x := range r.Obligs {
			if x.Key() == o.Key() {
				fmt.Printf("%s %s\n  at %s\n  %s\n", x.Status, x.Key(), x.Pos, x.Detail)
				if x.Status == Violated || x.Status == Undecided {
					os.Exit(1)
				}
				return
			}
		}
		fmt.Println("obligation no longer exists on the current tree:", o.Key())
		os.Exit(1)
	}

	var ids []string
	if *all {
		for id := range registry {
			ids = append(ids, id)
		}
		sort.Strings(ids)
	} else if *prop != "" {
		ids = []string{*prop}
	} else {
		fmt.Println("usage: wkcheck --property Cnn [--tier quick|thorough] | --all | --replay file")
		os.Exit(2)
	}
	known := loadKnownFindings(vd)
	exit := 0
	for _, id := range ids {
		spec := registry[id]
		if spec == nil {
			fmt.Printf("property %s has no registered check\n", id)
			os.Exit(2)
		}
		t0 := time.Now()
		var r *runResult
		if *selftest {
			r = &runResult{Prop: id, Tier: *tier}
			r.SelfTest = runSelfTest(spec)
			for _, s := range r.SelfTest {
				fmt.Printf("  mutant %-40s %s %s\n", s.Name, s.Result, s.Fired)
			}
			continue
		}
		r = runProperty(spec, *tier, nil)
		classify(r, known)
		if *tier == "thorough" && len(r.Violations) == 0 && !renameLocals {
			// robustness self-check: decide everything again with every named local rendered under
			// another name; a rule that only holds under the current local names is a false alarm in waiting
			renameLocals = true
			rr := runProperty(spec, "quick", nil)
			renameLocals = false
			classify(rr, known)
			for _, o := range rr.Violations {
				b := Oblig{Prop: id, Rule: "self-test", Construct: "rename-locals:" + o.Rule + "/" + o.Construct, Status: Undecided, Engine: "selftest",
					Detail: "this obligation holds on the tree but not when the analysed functions' local variables are renamed: the rule depends on a local's name"}
				r.Obligs = append(r.Obligs, b)
				r.Violations = append(r.Violations, b)
			}
			r.SelfTest = append(r.SelfTest, selfTestResult{Name: "rename-all-locals", File: "(in-memory rendering)", Result: map[bool]string{true: "silent", false: "BRITTLE"}[len(rr.Violations) == 0]})
		}
		if *tier == "thorough" && len(spec.Mutants) > 0 && len(r.Violations) == 0 {
			r.SelfTest = append(r.SelfTest, runSelfTest(spec)...)
			for _, s := range r.SelfTest {
				if s.Result == "FALSE-ALARM" {
					o := Oblig{Prop: id, Rule: "self-test", Construct: s.Name, Status: Undecided, Engine: "selftest",
						Detail: "stored behaviour-preserving edit " + s.Name + " applied in memory makes " + s.Fired + " fail: the rule alarms on code where the property holds"}
					r.Obligs = append(r.Obligs, o)
					r.Violations = append(r.Violations, o)
				}
				if s.Result == "MISSED" {
					// a rule that no longer fires on its stored breaking edit is not trusted
					o := Oblig{Prop: id, Rule: "self-test", Construct: s.Name, Status: Undecided, Engine: "selftest",
						Detail: "stored breaking edit " + s.Name + " applied in memory still type-checks but no obligation matching its expectation fired"}
					r.Obligs = append(r.Obligs, o)
					r.Violations = append(r.Violations, o)
				}
			}
		}
		r.Wall = time.Since(t0).Seconds()
		if err := writeEvidence(vd, spec, r, seed); err != nil {
			fmt.Println("cannot write evidence:", err)
			exit = 1
		}
		held := 0
		for _, o := range r.Obligs {
			if o.Status == Held || o.Status == Exception {
				held++
			}
			if *verbose {
				fmt.Printf("  [%s] %s @%s\n      %s\n", o.Status, o.Key(), o.Pos, o.Detail)
			}
		}
		fmt.Printf("%s tier=%s obligations=%d held=%d violations=%d known=%d wall=%.1fs\n", id, *tier, len(r.Obligs), held, len(r.Violations), len(r.Known), r.Wall)
		for _, o := range r.Known {
			fmt.Printf("KNOWN-FINDING: property=%s %s [%s at %s]\n", id, o.Detail, o.Key(), o.Pos)
		}
		if len(r.Violations) > 0 {
			exit = 1
			rd := filepath.Join(vd, "replay")
			os.MkdirAll(rd, 0o755)
			for i, o := range r.Violations {
				path := filepath.Join(rd, fmt.Sprintf("%s-%d.json", id, i+1))
				b, _ := json.MarshalIndent(o, "", " ")
				os.WriteFile(path, b, 0o644)
				fmt.Printf("  %s: %s\n    at %s\n    %s\n", o.Status, o.Key(), o.Pos, o.Detail)
				fmt.Printf("VIOLATION property=%s replay=%s\n", id, path)
			}
		}
	}
	os.Exit(exit)
}

// runSelfTest applies each stored mutant in memory and checks the expected obligation fires.
func runSelfTest(spec *PropSpec) []selfTestResult {
	out := make([]selfTestResult, len(spec.Mutants))
	sem := make(chan struct{}, 5)
	var wg sync.WaitGroup
	for i, m := range spec.Mutants {
		wg.Add(1)
		sem <- struct{}{}
		go func(i int, m Mutant) {
			defer wg.Done()
			defer func() { <-sem }()
			out[i] = runOneMutant(spec, m)
		}(i, m)
	}
	wg.Wait()
	return out
}

func runOneMutant(spec *PropSpec, m Mutant) selfTestResult {
	var out []selfTestResult
	for _, m := range []Mutant{m} {
		res := selfTestResult{Name: m.Name, File: m.File}
		abs := filepath.Join(repoDir, m.File)
		src, err := os.ReadFile(abs)
		if err != nil {
			res.Result = "stale"
			out = append(out, res)
			continue
		}
		s := string(src)
		cnt := strings.Count(s, m.Old)
		if cnt == 0 || (m.Nth == 0 && cnt != 1) || m.Nth > cnt {
			res.Result = "stale"
			res.Fired = fmt.Sprintf("old text occurs %d times", cnt)
			out = append(out, res)
			continue
		}
		var mutated string
		if m.Nth == 0 {
			mutated = strings.Replace(s, m.Old, m.New, 1)
		} else {
			idx := -1
			off := 0
			for k := 0; k < m.Nth; k++ {
				j := strings.Index(s[off:], m.Old)
				idx = off + j
				off = idx + len(m.Old)
			}
			mutated = s[:idx] + m.New + s[idx+len(m.Old):]
		}
		r := runProperty(spec, "quick", map[string][]byte{abs: []byte(mutated)})
		if r.LoadErr != nil {
			res.Result = "broken-build"
			res.Fired = r.LoadErr.Error()
			out = append(out, res)
			continue
		}
		if m.Expect == "!silent" {
			// a behaviour-preserving edit: every obligation must still be decided and held
			res.Result = "silent"
			for _, o := range r.Obligs {
				if o.Status == Violated || o.Status == Undecided {
					res.Result = "FALSE-ALARM"
					res.Fired = o.Key()
					break
				}
			}
			out = append(out, res)
			continue
		}
		res.Result = "MISSED"
		for _, o := range r.Obligs {
			if (o.Status == Violated || o.Status == Undecided) && glob(m.Expect, o.Key()) {
				res.Result = "fired"
				res.Fired = o.Key()
				break
			}
		}
		out = append(out, res)
	}
	return out[0]
}
