package main

import (
	"fmt"
	"go/ast"
	"go/token"
	"go/types"
	"os"
	"sort"
	"strings"

	"golang.org/x/tools/go/callgraph"
	"golang.org/x/tools/go/packages"
	"golang.org/x/tools/go/ssa"
	"golang.org/x/tools/go/ssa/ssautil"
)

const modulePath = "github.com/WuKongIM/WuKongIM"

var repoDir = "/repo"

// Program is the type-checked, SSA-built view of /repo's current working tree.
type Program struct {
	Fset     *token.FileSet
	Pkgs     map[string]*packages.Package // by short path (module prefix stripped)
	SSA      *ssa.Program
	SPkgs    map[string]*ssa.Package
	Funcs    map[string]*ssa.Function // by short name
	AllFuncs []*ssa.Function          // source functions of root packages, sorted by short name
	names    map[*ssa.Function]string
	Roots    int
	Patterns []string
	cg       *callgraph.Graph
}

func shortPkg(path string) string {
	if path == modulePath {
		return "."
	}
	return strings.TrimPrefix(path, modulePath+"/")
}

func loadEnv() []string {
	env := []string{}
	for _, e := range os.Environ() {
		if strings.HasPrefix(e, "GOFLAGS=") || strings.HasPrefix(e, "GOWORK=") || strings.HasPrefix(e, "GOTOOLCHAIN=") ||
			strings.HasPrefix(e, "GOPROXY=") || strings.HasPrefix(e, "PATH=") || strings.HasPrefix(e, "GOSUMDB=") {
			continue
		}
		env = append(env, e)
	}
	env = append(env,
		"PATH=/opt/veriftools/go1.26.8/bin:"+os.Getenv("PATH"),
		"GOTOOLCHAIN=local", "GOPROXY=off", "GOWORK=off", "GOFLAGS=",
	)
	return env
}

// LoadProgram loads the given package patterns (relative to /repo) with full
// syntax and types, dependencies from export data, and builds SSA for them.
// overlay maps absolute file names to replacement contents (mutation self-test).
func LoadProgram(patterns []string, overlay map[string][]byte) (*Program, error) {
	cfg := &packages.Config{
		Mode:    packages.LoadSyntax | packages.NeedModule,
		Dir:     repoDir,
		Tests:   false,
		Env:     loadEnv(),
		Overlay: overlay,
	}
	pkgs, err := packages.Load(cfg, patterns...)
	if err != nil {
		return nil, fmt.Errorf("packages.Load: %v", err)
	}
	if len(pkgs) == 0 {
		return nil, fmt.Errorf("no packages matched %v", patterns)
	}
	var errs []string
	packages.Visit(pkgs, nil, func(p *packages.Package) {
		for _, e := range p.Errors {
			errs = append(errs, p.PkgPath+": "+e.Error())
		}
	})
	if len(errs) > 0 {
		sort.Strings(errs)
		if len(errs) > 8 {
			errs = errs[:8]
		}
		return nil, fmt.Errorf("load/type errors: %s", strings.Join(errs, "; "))
	}
	p := &Program{
		Pkgs:     map[string]*packages.Package{},
		SPkgs:    map[string]*ssa.Package{},
		Funcs:    map[string]*ssa.Function{},
		names:    map[*ssa.Function]string{},
		Roots:    len(pkgs),
		Patterns: patterns,
	}
	p.Fset = pkgs[0].Fset
	prog, spkgs := ssautil.Packages(pkgs, ssa.BuilderMode(0))
	p.SSA = prog
	for i, pk := range pkgs {
		if spkgs[i] == nil {
			return nil, fmt.Errorf("no SSA package for %s", pk.PkgPath)
		}
		if !strings.HasPrefix(pk.PkgPath, modulePath) {
			continue
		}
		p.Pkgs[shortPkg(pk.PkgPath)] = pk
		p.SPkgs[shortPkg(pk.PkgPath)] = spkgs[i]
	}
	prog.Build()
	for _, sp := range p.SPkgs {
		for _, m := range sp.Members {
			switch m := m.(type) {
			case *ssa.Function:
				p.addFunc(m)
			case *ssa.Type:
				p.addMethods(m.Type())
			}
		}
	}
	for name, fn := range p.Funcs {
		p.names[fn] = name
		p.AllFuncs = append(p.AllFuncs, fn)
	}
	sort.Slice(p.AllFuncs, func(i, j int) bool { return p.names[p.AllFuncs[i]] < p.names[p.AllFuncs[j]] })
	return p, nil
}

func (p *Program) addMethods(t types.Type) {
	named, ok := t.(*types.Named)
	if !ok {
		return
	}
	for i := 0; i < named.NumMethods(); i++ {
		m := named.Method(i)
		fn := p.SSA.FuncValue(m)
		if fn != nil {
			p.addFunc(fn)
		}
	}
}

func (p *Program) addFunc(fn *ssa.Function) {
	if fn.Syntax() == nil && !strings.HasPrefix(fn.Synthetic, "package init") {
		return
	}
	name := funcShortName(fn)
	if _, dup := p.Funcs[name]; dup {
		return
	}
	p.Funcs[name] = fn
	for i, anon := range fn.AnonFuncs {
		p.addAnon(anon, fmt.Sprintf("%s$%d", name, i+1))
	}
}

func (p *Program) addAnon(fn *ssa.Function, name string) {
	p.Funcs[name] = fn
	for i, anon := range fn.AnonFuncs {
		p.addAnon(anon, fmt.Sprintf("%s$%d", name, i+1))
	}
}

// funcShortName renders pkg/path.Func, pkg/path.T.Method (pointer-ness dropped),
// closures parent$k.
func funcShortName(fn *ssa.Function) string {
	if fn == nil {
		return "<nil>"
	}
	if fn.Parent() != nil {
		par := fn.Parent()
		for i, a := range par.AnonFuncs {
			if a == fn {
				return fmt.Sprintf("%s$%d", funcShortName(par), i+1)
			}
		}
		return funcShortName(par) + "$?"
	}
	if o := fn.Origin(); o != nil {
		fn = o
	}
	pkg := ""
	if fn.Pkg != nil {
		pkg = shortPkg(fn.Pkg.Pkg.Path())
	} else if fn.Object() != nil && fn.Object().Pkg() != nil {
		pkg = shortPkg(fn.Object().Pkg().Path())
	}
	if recv := fn.Signature.Recv(); recv != nil {
		return pkg + "." + typeBaseName(recv.Type()) + "." + fn.Name()
	}
	return pkg + "." + fn.Name()
}

func typeBaseName(t types.Type) string {
	for {
		switch tt := t.(type) {
		case *types.Pointer:
			t = tt.Elem()
			continue
		case *types.Named:
			return tt.Obj().Name()
		case *types.Alias:
			return tt.Obj().Name()
		case *types.TypeParam:
			return tt.Obj().Name()
		}
		return t.String()
	}
}

// objShortName renders a types.Func the same way as funcShortName.
func objShortName(f *types.Func) string {
	pkg := ""
	if f.Pkg() != nil {
		pkg = shortPkg(f.Pkg().Path())
	}
	sig, _ := f.Type().(*types.Signature)
	if sig != nil && sig.Recv() != nil {
		return pkg + "." + typeBaseName(sig.Recv().Type()) + "." + f.Name()
	}
	return pkg + "." + f.Name()
}

func (p *Program) Name(fn *ssa.Function) string {
	if n, ok := p.names[fn]; ok {
		return n
	}
	return funcShortName(fn)
}

func (p *Program) Pos(pos token.Pos) string {
	if !pos.IsValid() {
		return "?"
	}
	ps := p.Fset.Position(pos)
	return fmt.Sprintf("%s:%d", strings.TrimPrefix(ps.Filename, repoDir+"/"), ps.Line)
}

// InstrPos gives the best position for an instruction (falls back to the
// function's position for NoPos instructions).
func (p *Program) InstrPos(in ssa.Instruction) string {
	pos := in.Pos()
	if !pos.IsValid() {
		if v, ok := in.(ssa.Value); ok {
			_ = v
		}
		// search neighbours in the same block
		b := in.Block()
		if b != nil {
			idx := -1
			for i, x := range b.Instrs {
				if x == in {
					idx = i
				}
			}
			for d := 1; d < len(b.Instrs); d++ {
				for _, j := range []int{idx - d, idx + d} {
					if j >= 0 && j < len(b.Instrs) && b.Instrs[j].Pos().IsValid() {
						return p.Pos(b.Instrs[j].Pos())
					}
				}
			}
		}
		if in.Parent() != nil {
			return p.Pos(in.Parent().Pos())
		}
	}
	return p.Pos(pos)
}

// FuncsMatching returns source functions whose short name matches the glob,
// including closures when withClosures is set.
func (p *Program) FuncsMatching(pat string) []*ssa.Function {
	var out []*ssa.Function
	for _, fn := range p.AllFuncs {
		if glob(pat, p.names[fn]) {
			out = append(out, fn)
		}
	}
	return out
}

// WithClosures returns fn and all of its nested anonymous functions.
func WithClosures(fn *ssa.Function) []*ssa.Function {
	out := []*ssa.Function{fn}
	for _, a := range fn.AnonFuncs {
		out = append(out, WithClosures(a)...)
	}
	return out
}

// File returns the parsed file with the given path relative to /repo.
func (p *Program) File(rel string) (*packages.Package, *ast.File) {
	for _, pk := range p.Pkgs {
		for i, f := range pk.CompiledGoFiles {
			if strings.TrimPrefix(f, repoDir+"/") == rel && i < len(pk.Syntax) {
				return pk, pk.Syntax[i]
			}
		}
	}
	return nil, nil
}

// glob matches s against a pattern where '*' matches any run of characters.
func glob(pat, s string) bool {
	// fast paths
	if pat == "*" {
		return true
	}
	if !strings.Contains(pat, "*") {
		return pat == s
	}
	if strictGlob {
		return globBalanced(pat, s)
	}
	parts := strings.Split(pat, "*")
	if !strings.HasPrefix(s, parts[0]) {
		return false
	}
	s = s[len(parts[0]):]
	last := parts[len(parts)-1]
	mid := parts[1 : len(parts)-1]
	for _, m := range mid {
		i := strings.Index(s, m)
		if i < 0 {
			return false
		}
		s = s[i+len(m):]
	}
	return strings.HasSuffix(s, last)
}

func globAny(pats []string, s string) bool {
	for _, p := range pats {
		if glob(p, s) {
			return true
		}
	}
	return false
}
