package main

import (
	"fmt"
	"go/token"
	"go/types"
	"strings"

	"golang.org/x/tools/go/ssa"
)

func init() {
	register(&PropSpec{
		ID: "C10",
		Pkgs: []string{"./pkg/channel", "./pkg/channel/machine", "./pkg/channel/reactor", "./pkg/channel/worker", "./pkg/channel/store",
			"./pkg/db/message", "./pkg/cluster/channels", "./pkg/cluster", "./internal/infra/cluster"},
		Technique: "static analysis: SSA edge-dominance guards (trim decision, store read filter, SyncOnce filter), clamp analysis of the read request (barrier stores + guard edges on the request's MaxSeq/MinSeq), per-call-site classification of ChannelStore.ReadCommitted, who-may-call confinement of the trim chain, monotone-update classification of the retention fields",
		Explain: "Decides the structural clauses: (1) retentionTrimDecision returns true only behind throughSeq <= HW, <= CheckpointHW, <= LEO and, on a leader, <= minISRMatchOffset (a guarded running minimum over the ISR); that verdict, computed for the same request, is the only source of StoreRetentionTask.TrimAllowed; the worker, the store adapter and MessageDB reach physical deletion only behind TrimAllowed / an already adopted boundary, through a confined call chain that reads rows only up to throughSeq and deletes only what it read; the background GC applies exactly the slot-metadata boundary. " +
			"(2) every store to the reactor's RetentionThroughSeq / LocalRetentionThroughSeq / PhysicalRetentionThroughSeq and to MessageDB's RetentionState.Local/PhysicalRetentionThroughSeq is a guarded raise, a max, a fresh-state initialisation or an enumerated decode site, and every persisted retention row is a copy of the loaded row with fields raised. " +
			"(3) the store adapter appends a message only inside [MinSeq, MaxSeq]; channels.Service.readLocalCommitted reaches store.ReadCommitted only with MaxSeq clamped to the loaded committed watermark (HW, or LEO only when minISR <= 1), never left 0 (= unbounded) and - required, currently reported - only with a non-zero watermark, and with MinSeq raised to next(max(meta retention, local retention)); every other call site of ChannelStore.ReadCommitted is classified one by one (an unclassified site is a violation); ordinary read paths drop SyncOnce records. (4) unsigned seq-1 computations are guarded by seq != 0. " +
			"NOT decided: that the HW/LEO loaded is current under concurrent appends and trims, the value semantics of the pebble iterators, that callers outside the loaded packages honour the request bounds, the monotonicity of the authoritative (slot metadata) retention boundary in the quick tier (rule R2-meta runs only in the thorough tier).",
		Run: c10,
		// further breaking edits confirmed "fired" while authoring and removed to keep the self-test short: throughSeq > state.HW+1,
		// Role == RoleFollower on the ISR clause, readRows(..., 0, ...) in the trim, minISR <= 3 for the LEO cap,
		// dropped SyncOnce test in readLastOrdinaryCommitted, trim of rows from a second unbounded read.
		Mutants: []Mutant{
			{Name: "trim-ignores-checkpoint", File: "pkg/channel/reactor/retention.go", Old: "\tif throughSeq > state.CheckpointHW {\n\t\treturn false, ch.RetentionBlockedCheckpointLag\n\t}\n", New: "", Expect: "C10/R1-trim/*"},
			{Name: "isr-match-max-instead-of-min", File: "pkg/channel/reactor/retention.go", Old: "if i == 0 || match < min {", New: "if i == 0 || match > min {", Expect: "C10/R1-isr/*"},
			{Name: "trim-despite-checkpoint-lag", File: "pkg/channel/reactor/retention.go", Old: "r.submitStoreRetention(ctx, rc.state.ID, fence, req, trimAllowed, blockedReason)", New: "r.submitStoreRetention(ctx, rc.state.ID, fence, req, trimAllowed || blockedReason == ch.RetentionBlockedCheckpointLag, blockedReason)", Expect: "C10/R1-chain/*"},
			{Name: "gc-applies-beyond-meta-boundary", File: "pkg/cluster/channel_retention_physical.go", Old: "n.ApplyChannelRetentionBoundary(ctx, entry.ID, meta.RetentionThroughSeq, opts)", New: "n.ApplyChannelRetentionBoundary(ctx, entry.ID, meta.RetentionThroughSeq+1, opts)", Expect: "C10/R1-gc/*"},
			{Name: "worker-trims-unconditionally", File: "pkg/channel/worker/task.go", Old: "\tif payload.TrimAllowed {\n\t\ttrimmed, trimErr", New: "\tif payload.TrimAllowed || payload.BlockedReason == \"\" {\n\t\ttrimmed, trimErr", Expect: "C10/R1-chain/*"},
			{Name: "db-trim-beyond-adopted", File: "pkg/db/message/retention.go", Old: "\tif !adoptBoundary && throughSeq > state.LocalRetentionThroughSeq {\n\t\treturn RetentionTrimResult{}, dberrors.ErrCorruptState\n\t}\n", New: "", Expect: "C10/R1-db/*"},
			{Name: "retention-boundary-regress", File: "pkg/channel/reactor/retention.go", Old: "\tif req.ThroughSeq > rc.state.RetentionThroughSeq {\n\t\trc.state.RetentionThroughSeq = req.ThroughSeq\n\t}", New: "\trc.state.RetentionThroughSeq = req.ThroughSeq", Expect: "C10/R2-mono/*"},
			{Name: "db-local-boundary-regress", File: "pkg/db/message/compat.go", Old: "next.LocalRetentionThroughSeq = maxUint64(next.LocalRetentionThroughSeq, throughSeq)", New: "next.LocalRetentionThroughSeq = throughSeq", Expect: "C10/R2-mono/*"},
			{Name: "read-floor-dropped", File: "pkg/channel/store/channel_adapter.go", Old: "\t\tif req.MinSeq > 0 && msg.MessageSeq < req.MinSeq {\n\t\t\tif req.Reverse {\n\t\t\t\tnext = req.MinSeq - 1\n\t\t\t\tbreak\n\t\t\t}\n\t\t\tcontinue\n\t\t}", New: "\t\tif req.MinSeq > 0 && msg.MessageSeq < req.MinSeq && req.Reverse {\n\t\t\tnext = req.MinSeq - 1\n\t\t\tbreak\n\t\t}", Expect: "C10/R3-filter/*"},
			{Name: "read-cap-off-by-one", File: "pkg/channel/store/channel_adapter.go", Old: "if req.MaxSeq > 0 && msg.MessageSeq > req.MaxSeq {", New: "if req.MaxSeq > 0 && msg.MessageSeq > req.MaxSeq+1 {", Expect: "C10/R3-filter/*"},
			{Name: "read-cap-zero-unbounded", File: "pkg/cluster/channels/service.go", Old: "if request.MaxSeq == 0 || request.MaxSeq > committed {", New: "if request.MaxSeq > committed {", Expect: "C10/R3-cap/*#MaxSeq!=0"},
			{Name: "read-floor-uses-physical-boundary", File: "pkg/cluster/channels/service.go", Old: "request.MinSeq = maxUint64Value(request.MinSeq, nextSeq(maxUint64Value(retentionThroughSeq, retention.LocalRetentionThroughSeq)))", New: "request.MinSeq = maxUint64Value(request.MinSeq, nextSeq(maxUint64Value(retentionThroughSeq, retention.PhysicalRetentionThroughSeq)))", Expect: "C10/R3-cap/*#MinSeq*"},
			{Name: "sync-returns-synconce", File: "internal/infra/cluster/message_reader.go", Old: "\t\tif msg.SyncOnce {\n\t\t\tcontinue\n\t\t}\n\t\tout = append(out, message.SyncedMessage{", New: "\t\tout = append(out, message.SyncedMessage{", Expect: "C10/R3-synconce/*"},
			{Name: "endseq-underflow", File: "internal/infra/cluster/message_reader.go", Old: "if query.PullMode == message.PullModeUp && query.EndSeq > 0 {\n\t\treturn query.EndSeq - 1", New: "if query.PullMode == message.PullModeUp {\n\t\treturn query.EndSeq - 1", Expect: "C10/R4-usub/*"},
		},
	})
}

const (
	c10R  = "pkg/channel/reactor."
	c10W  = "pkg/channel/worker."
	c10S  = "pkg/channel/store."
	c10DB = "pkg/db/message."
	c10CH = "pkg/cluster/channels."
	c10IC = "internal/infra/cluster."
	c10M  = "pkg/channel/machine."
)

func c10(c *Ctx) {
	leader := c10Const(c, "pkg/channel", "RoleLeader")

	// ------------------------------------------------------------------ R1: physical trim gating
	decision := c.Fn(c10R + "retentionTrimDecision")
	c.GuardTrue("R1-trim", decision, 0,
		"throughSeq <= state.HW", "throughSeq <= state.CheckpointHW", "throughSeq <= state.LEO",
		"state.Role != "+leader+" || throughSeq <= "+c10R+"minISRMatchOffset(state)",
		"throughSeq != 0", "state != nil")
	c10RunningMin(c, "R1-isr", c.Fn(c10R+"minISRMatchOffset"))

	// the verdict is the only source of TrimAllowed, for the very boundary that was judged
	c10VerdictTied(c, "R1-chain", c.Fn(c10R+"Reactor.handleApplyRetentionBoundary"))
	c.ConfineCalls("R1-chain", c10R+"Reactor.submitStoreRetention", 1, c10R+"Reactor.handleApplyRetentionBoundary")
	if f := c.Fn(c10R + "Reactor.submitStoreRetention"); f != nil {
		c.StoreShape("R1-chain", f, "*StoreRetentionTask.TrimAllowed", "trimAllowed")
		c.StoreShape("R1-chain", f, "*StoreRetentionTask.ThroughSeq", "req.ThroughSeq")
	}
	c.ConfineStores("R1-chain", c10W+"StoreRetentionTask.TrimAllowed", true, c10R+"Reactor.submitStoreRetention")
	if f := c.Fn(c10W + "runStoreRetention"); f != nil {
		trim := CallTo{c10S + "ChannelStore.TrimMessagesThrough"}
		c.Guard("R1-chain", f, trim, "*.StoreRetention.TrimAllowed == true", c10S+"ChannelStore.AdoptRetentionBoundary(*)#1 == nil")
		c.CallShape("R1-chain", f, c10S+"ChannelStore.TrimMessagesThrough", c10S+"ChannelStore.TrimMessagesThrough(*, ctx, t.StoreRetention.ThroughSeq, *)")
		c.CallShape("R1-chain", f, c10S+"ChannelStore.AdoptRetentionBoundary", c10S+"ChannelStore.AdoptRetentionBoundary(*, ctx, t.StoreRetention.ThroughSeq, *)")
	}
	c.ConfineCalls("R1-chain", c10S+"ChannelStore.TrimMessagesThrough", 1, c10W+"runStoreRetention")

	// the background GC applies exactly the authoritative (slot metadata) boundary
	if f := c.Fn("pkg/cluster.Node.RunChannelRetentionGCOnce"); f != nil {
		apply := "pkg/cluster.Node.ApplyChannelRetentionBoundary"
		c.CallShape("R1-gc", f, apply, apply+"(n, ctx, *.ID, pkg/cluster.Node.GetChannelRuntimeMeta(*)#0.RetentionThroughSeq, *)", apply+"(n, ctx, *.ID, *.RetentionThroughSeq, *)")
		c.Guard("R1-gc", f, CallTo{apply}, "pkg/cluster.Node.GetChannelRuntimeMeta(*)#1 == nil", "*.RetentionThroughSeq != 0")
	}
	if f := c.Fn("pkg/cluster.Node.ApplyChannelRetentionBoundary"); f != nil {
		c.StoreShape("R1-gc", f, "*RetentionApplyRequest.ThroughSeq", "throughSeq")
	}

	// MessageDB: deletion only through the adopted boundary, rows read only up to throughSeq
	c.ConfineCalls("R1-db", c10DB+"ChannelLog.trimPrefixThroughLimit", 3,
		c10DB+"ChannelLog.TrimPrefixThrough", c10DB+"ChannelLog.TrimPrefixThroughLimit", c10DB+"ChannelStore.TrimMessagesThroughLimit")
	c.ConfineCalls("R1-db", c10DB+"ChannelStore.TrimMessagesThroughLimit", 2,
		c10S+"messageDBChannelStoreAdapter.TrimMessagesThrough", c10DB+"ChannelStore.TrimMessagesThrough")
	c.ConfineCalls("R1-db", c10DB+"ChannelLog.TrimPrefixThrough*", 0) // the boundary-adopting raw entry points have no production caller
	c.ConfineCalls("R1-db", c10DB+"ChannelStore.TrimMessagesThrough", 0)
	if f := c.Fn(c10DB + "ChannelStore.TrimMessagesThroughLimit"); f != nil {
		c.CallShape("R1-db", f, c10DB+"ChannelLog.trimPrefixThroughLimit", c10DB+"ChannelLog.trimPrefixThroughLimit(*, ctx, throughSeq, opts, false)")
	}
	if f := c.Fn(c10S + "messageDBChannelStoreAdapter.TrimMessagesThrough"); f != nil {
		c.CallShape("R1-db", f, c10DB+"ChannelStore.TrimMessagesThroughLimit", c10DB+"ChannelStore.TrimMessagesThroughLimit(*, ctx, throughSeq, *)")
	}
	if f := c.Fn(c10DB + "ChannelLog.trimPrefixThroughLimit"); f != nil {
		del := CallTo{c10DB + "ChannelLog.stageDeleteMessage"}
		c.Guard("R1-db", f, del, "adoptBoundary == true || throughSeq <= *.LocalRetentionThroughSeq", "throughSeq != 0",
			c10DB+"ChannelLog.readRows(*)#1 == nil")
		c.CallShape("R1-db", f, c10DB+"ChannelLog.readRows", c10DB+"ChannelLog.readRows(l, ctx, (*.PhysicalRetentionThroughSeq + 1), throughSeq, *)")
		// what is deleted is what was read
		c10DeletesWhatWasRead(c, "R1-db", f)
	}
	if f := c.Fn(c10DB + "readRowsRaw"); f != nil {
		c.Guard("R1-db", f, StoreTo{Addr: "*", Val: "alloc:messageRow"}, "maxSeq <= 0 || "+c10DB+"decodeMessageRowKey(*)#0 <= maxSeq")
	}

	// ------------------------------------------------------------------ R2: boundaries only move up
	for _, f := range []string{"RetentionThroughSeq", "LocalRetentionThroughSeq", "PhysicalRetentionThroughSeq"} {
		c10StateMono(c, "R2-mono", c10M+"ChannelState."+f)
	}
	c.ConfineCalls("R2-mono", c10R+"applyLoadedRetentionState", 2, c10R+"Reactor.completeApplyMetaStoreLoad", c10R+"Reactor.ensureChannel")
	for _, fn := range c.Fns(c10R + "Reactor.*") {
		if len(instrsMatching(fn, CallTo{c10R + "applyLoadedRetentionState"})) > 0 {
			c.CallShape("R2-mono", fn, c10R+"applyLoadedRetentionState", c10R+"applyLoadedRetentionState("+c10M+"NewChannelState(*), *)")
		}
	}
	dbMax := []string{c10DB + "maxUint64"}
	if f := c.Fn(c10DB + "maxUint64"); f != nil {
		c.Guard("R2-mono", f, Ret{0, "a"}, "a >= b")
		c.Guard("R2-mono", f, Ret{0, "b"}, "b >= a")
	}
	for _, f := range []string{"LocalRetentionThroughSeq", "PhysicalRetentionThroughSeq"} {
		c.Mono("R2-mono", c10DB+"RetentionState."+f, MonoOpts{MaxFuncs: dbMax, LiteralsToo: true, Scope: []string{c10DB + "*"},
			Resets: map[string]string{c10DB + "decodeRetentionState": "decode of the persisted row (validated by validateRetentionState)"}})
	}
	c10WritesRaisedCopy(c, "R2-mono")
	c.Min("R2-mono", 14)
	if c.Tier == "thorough" {
		c.Mono("R2-meta", "pkg/db/meta.ChannelRuntimeMeta.RetentionThroughSeq", MonoOpts{LiteralsToo: true,
			// the stored row is whatever the function loaded (a call result; a read-only local renders as that call)
			AlsoGuards: []string{"req.RetentionThroughSeq > *(*)#0.RetentionThroughSeq", "req.RetentionThroughSeq > *(*).RetentionThroughSeq"},
			ValueOK:    []string{"*(*)#0.RetentionThroughSeq", "*(*).RetentionThroughSeq"},
			Resets: map[string]string{
				"pkg/db/meta.*decode*":                     "row decode",
				"pkg/db/meta.*Column*":                     "row decode",
				"pkg/db/meta.channelRuntimeMetaFromRecord": "row decode",
				"pkg/slot/fsm.*":                           "command decode into a candidate that is resolved against the stored row",
				"pkg/slot/proxy.*":                         "wire decode",
				"internal/*":                               "construction of a candidate row / DTO",
				"pkg/cluster*":                             "construction of a candidate row / DTO",
				"pkg/controller*":                          "construction of a candidate row / DTO",
			}})
	}

	// ------------------------------------------------------------------ R3: reads stay inside [floor, committed]
	if f := c.Fn(c10S + "messageDBChannelStoreAdapter.ReadCommitted"); f != nil {
		c.Guard("R3-filter", f, CallTo{c10S + "fromDBMessage"},
			"req.MinSeq <= 0 || *.MessageSeq >= req.MinSeq",
			"req.MaxSeq <= 0 || *.MessageSeq <= req.MaxSeq")
	}
	for _, name := range []string{"maxUint64Value"} {
		if f := c.Fn(c10CH + name); f != nil {
			c.Guard("R3-cap", f, Ret{0, "left"}, "left >= right")
			c.Guard("R3-cap", f, Ret{0, "right"}, "right >= left")
		}
	}
	if f := c.Fn(c10CH + "nextSeq"); f != nil {
		c10RetShape(c, "R3-cap", f, 0, "seq", "(seq + 1)")
		c.Guard("R3-cap", f, Ret{0, "seq"}, "seq == 18446744073709551615")
	}
	c10ReadSites(c)

	// SyncOnce (recovery barrier / one-shot) records are dropped by the ordinary read paths
	if f := c.Fn(c10IC + "syncedMessagesFromChannel"); f != nil {
		c.Guard("R3-synconce", f, StoreTo{Addr: "*SyncedMessage.*"}, "!*.SyncOnce")
	}
	if f := c.Fn(c10CH + "readLastOrdinaryCommitted"); f != nil {
		c.Guard("R3-synconce", f, Ret{1, "true"}, "!*.SyncOnce")
	}
	if f := c.Fn(c10IC + "channelMessagePageFromRead"); f != nil {
		c.CallShape("R3-synconce", f, c10IC+"syncedMessagesFromChannel", c10IC+"syncedMessagesFromChannel(read.Messages)")
	}

	// ------------------------------------------------------------------ R4: unsigned seq-1
	for _, name := range []string{c10S + "messageDBChannelStoreAdapter.ReadCommitted", c10IC + "queryMaxSeq", c10IC + "managementReadCommittedRequest"} {
		c10USub(c, "R4-usub", c.Fn(name))
	}
	c.Min("R4-usub", 4)
}

// c10Const renders a package-level constant of a loaded package the way Path renders it.
func c10Const(c *Ctx, pkg, name string) string {
	if pk := c.P.Pkgs[pkg]; pk != nil {
		if k, ok := pk.Types.Scope().Lookup(name).(*types.Const); ok {
			return k.Val().ExactString()
		}
	}
	c.add("anchor", "anchor", pkg+"."+name, Undecided, "", "anchored constant not found")
	return "<missing:" + name + ">"
}

// c10RetShape: every return of fn has result idx rendering to one of shapes.
func c10RetShape(c *Ctx, rule string, fn *ssa.Function, idx int, shapes ...string) {
	if fn == nil {
		return
	}
	fname := c.P.Name(fn)
	construct := fmt.Sprintf("%s#retshape[%d]", fname, idx)
	n := 0
	for _, in := range instrsMatching(fn, AnyRet{}) {
		ret := in.(*ssa.Return)
		if idx >= len(ret.Results) {
			continue
		}
		n++
		if v := Path(retOperand(ret, idx)); !globAny(shapes, v) {
			c.add("shape", rule, construct, Violated, c.P.InstrPos(in), fmt.Sprintf("%s returns %s, expected one of %v", fname, v, shapes))
			return
		}
	}
	if n == 0 {
		c.add("shape", rule, construct, Undecided, c.P.Pos(fn.Pos()), "no return found (vacuous)")
		return
	}
	c.add("shape", rule, construct, Held, c.P.Pos(fn.Pos()), fmt.Sprintf("%d return(s), all of shape %v", n, shapes))
}

// c10Unreachable: can instruction `at` be reached from the entry of fn without crossing an edge that
// establishes one of atoms and without executing one of the barrier instructions?
func c10Reachable(fn *ssa.Function, at ssa.Instruction, atoms []AtomSpec, barriers map[ssa.Instruction]bool) (bool, []string) {
	removed, descr := guardEdges(fn, guardSpec{atoms: atoms})
	if len(atoms) == 0 {
		removed = map[edge]bool{}
	}
	seen := map[*ssa.BasicBlock]bool{fn.Blocks[0]: true}
	work := []*ssa.BasicBlock{fn.Blocks[0]}
	for len(work) > 0 {
		b := work[len(work)-1]
		work = work[:len(work)-1]
		blocked := false
		for _, in := range b.Instrs {
			if in == at {
				return true, descr
			}
			if barriers[in] {
				blocked = true
				break
			}
		}
		if blocked {
			continue
		}
		for si, s := range b.Succs {
			if removed[edge{b, si}] || seen[s] {
				continue
			}
			seen[s] = true
			work = append(work, s)
		}
	}
	return false, descr
}

// c10RunningMin: fn returns a loop-carried value M whose every update M := C is reachable only
// through `first iteration` or `C < M` (so M is the minimum of the candidates), the candidates
// being LEO (local node), the follower's Progress match, or the retention boundary fallback.
func c10RunningMin(c *Ctx, rule string, fn *ssa.Function) {
	if fn == nil {
		return
	}
	fname := c.P.Name(fn)
	c.FuncsAnalysed[fname] = true
	construct := fname + "#running-min"
	var m *ssa.Phi
	for _, in := range instrsMatching(fn, AnyRet{}) {
		ret := in.(*ssa.Return)
		if len(ret.Results) != 1 {
			continue
		}
		if p, ok := ret.Results[0].(*ssa.Phi); ok {
			if m != nil && m != p {
				c.add("shape", rule, construct, Undecided, c.P.InstrPos(in), "more than one loop-carried result")
				return
			}
			m = p
		} else if k, ok := ret.Results[0].(*ssa.Const); !ok || constString(k) != "0" {
			c.add("shape", rule, construct, Violated, c.P.InstrPos(in), fmt.Sprintf("%s returns %s, neither 0 nor the running minimum", fname, Path(ret.Results[0])))
			return
		}
	}
	if m == nil {
		c.add("shape", rule, construct, Undecided, c.P.Pos(fn.Pos()), "no loop-carried result found (the function changed shape)")
		return
	}
	updates := 0
	for i, e := range m.Edges {
		if e == ssa.Value(m) {
			continue
		}
		if k, ok := e.(*ssa.Const); ok && constString(k) == "0" {
			continue
		}
		updates++
		// candidate shape
		cand := Path(e)
		okShape := strings.HasPrefix(cand, "phi(") && strings.HasSuffix(cand, ")")
		hasMatch := false
		if okShape {
			for _, part := range splitTop(cand[4:len(cand)-1], "|") {
				switch {
				case part == "state.LEO", part == "state.RetentionThroughSeq":
				case glob("*.Match", part):
					hasMatch = true
				default:
					okShape = false
				}
			}
		}
		if !okShape || !hasMatch {
			c.add("shape", rule, construct, Violated, c.P.Pos(fn.Pos()), fmt.Sprintf("candidate %s is not {state.LEO | progress.Match | state.RetentionThroughSeq}", cand))
			return
		}
		atoms := []AtomSpec{{L: cand, Op: "<", R: Path(m)}, {L: "(phi(-1|*) + 1)", Op: "==", R: "0"}}
		removed, _ := guardEdges(fn, guardSpec{atoms: atoms})
		limit := reachUnguarded(fn, removed, nil)
		pred := m.Block().Preds[i]
		if _, reach := limit[pred]; reach {
			c.add("guard", rule, construct, Violated, c.P.Pos(fn.Pos()), fmt.Sprintf("in %s the running value is replaced by %s without a dominating `first iteration || candidate < current` test: the result is not the minimum ISR match", fname, cand))
			return
		}
	}
	if updates == 0 {
		c.add("shape", rule, construct, Violated, c.P.Pos(fn.Pos()), "the running value is never updated")
		return
	}
	// the loop ranges over the ISR
	isr := false
	for _, b := range fn.Blocks {
		if iff, ok := b.Instrs[len(b.Instrs)-1].(*ssa.If); ok {
			if a, ok := condAtom(iff.Cond, true); ok && a.Op == "<" && a.R == "len(state.ISR)" {
				isr = true
			}
		}
	}
	if !isr {
		c.add("shape", rule, construct, Violated, c.P.Pos(fn.Pos()), "the minimum is not taken over state.ISR")
		return
	}
	c.add("guard", rule, construct, Held, c.P.Pos(fn.Pos()), fmt.Sprintf("%d update edge(s), each behind `first iteration || candidate < current`; candidates are LEO / Progress match / retention fallback over state.ISR", updates))
}

// c10StateMono classifies every store to a retention field of machine.ChannelState.
func c10StateMono(c *Ctx, rule, field string) {
	fv := c.Field(field)
	if fv == nil {
		return
	}
	n := 0
	for _, s := range c.fieldStores(fv) {
		if s.literal {
			continue
		}
		n++
		name := c.P.Name(s.fn)
		c.FuncsAnalysed[name] = true
		vs := Path(s.val)
		construct := fmt.Sprintf("%s@%s#%s", field, name, vs)
		pos := c.P.InstrPos(s.in)
		fa := s.addr.(*ssa.FieldAddr)
		if call, ok := fa.X.(*ssa.Call); ok && calleeName(&call.Call) == c10M+"NewChannelState" {
			c.add("mono", rule, construct, Held, pos, "initialisation of a state fresh from NewChannelState (not yet published)")
			continue
		}
		if name == c10R+"applyLoadedRetentionState" {
			if p, ok := fa.X.(*ssa.Parameter); ok && p == s.fn.Params[0] {
				c.add("mono", rule, construct, Exception, pos, "load-from-store initialiser; R2-mono call-shape rule proves it is only applied to a state fresh from NewChannelState")
				continue
			}
		}
		if why, ok := c.monotoneStore(s, MonoOpts{}); ok {
			c.add("mono", rule, construct, Held, pos, why)
			continue
		}
		c.add("mono", rule, construct, Violated, pos,
			fmt.Sprintf("store %s = %s in %s is not behind e > F, not max(F,e) and not a fresh-state initialisation: the retention boundary could move backwards", Path(s.addr), vs, name))
	}
	if n == 0 {
		c.add("mono", rule, "stores:"+field, Undecided, "", "no store to the field found (vacuous)")
	}
}

// c10WritesRaisedCopy: in pkg/db/message every encodeRetentionState(x) that is persisted encodes
// either a parameter (validated caller-supplied state) or a value whose provenance is the row
// loaded from disk, copied into locals whose fields are then only raised (R2-mono) — directly or
// through a package function that returns such a copy.
func c10WritesRaisedCopy(c *Ctx, rule string) {
	for _, cs := range c.callSites(c10DB + "encodeRetentionState") {
		fname := c.P.Name(cs.fn)
		in := cs.in.(ssa.Instruction)
		pos := c.P.InstrPos(in)
		construct := fname + "#encodeRetentionState"
		arg := cs.in.Common().Args[0]
		isParam := false
		if _, ok := arg.(*ssa.Parameter); ok {
			isParam = true
		}
		if ld, ok := arg.(*ssa.UnOp); ok && ld.Op == token.MUL {
			if a, ok := ld.X.(*ssa.Alloc); ok && spilledParam(a) != nil {
				isParam = true
			}
		}
		switch {
		case isParam:
			c.add("shape", rule, construct, Exception, pos, "caller-supplied state (StoreRetentionState API), validated by validateRetentionState; it has no production caller (checked by R2-mono/callers)")
		case c10RowProvenance(c, arg, 0):
			c.add("shape", rule, construct, Held, pos, "persisted row derives from the loaded row (copy with fields raised): "+Path(arg))
		default:
			c.add("shape", rule, construct, Violated, pos, fmt.Sprintf("in %s the persisted retention row %s is not derived from a copy of the loaded row", fname, Path(arg)))
		}
	}
	c.ConfineCalls(rule, c10DB+"ChannelLog.StoreRetentionState", 0)
}

// c10RowProvenance: v is the zero row, the result of a *oadRetentionState* loader, a local whose
// whole-value initialisations all have such provenance, or the result of a package function all of
// whose returned rows have it.
func c10RowProvenance(c *Ctx, v ssa.Value, depth int) bool {
	if depth > 3 {
		return false
	}
	idx := 0
	if ex, ok := v.(*ssa.Extract); ok {
		idx = ex.Index
		v = ex.Tuple
	}
	switch x := v.(type) {
	case *ssa.Const:
		return x.Value == nil
	case *ssa.Call:
		name := calleeName(&x.Call)
		if glob("*oadRetentionState", name) {
			return true
		}
		callee := c.P.Funcs[name]
		if callee == nil || len(callee.Blocks) == 0 {
			return false
		}
		n := 0
		for _, in := range instrsMatching(callee, AnyRet{}) {
			ret := in.(*ssa.Return)
			if idx >= len(ret.Results) {
				return false
			}
			n++
			if !c10RowProvenance(c, retOperand(ret, idx), depth+1) {
				return false
			}
		}
		return n > 0
	case *ssa.UnOp:
		if x.Op != token.MUL {
			return false
		}
		a, ok := x.X.(*ssa.Alloc)
		if !ok || spilledParam(a) != nil || a.Referrers() == nil {
			return false
		}
		n := 0
		for _, r := range *a.Referrers() {
			st, ok := r.(*ssa.Store)
			if !ok || st.Addr != ssa.Value(a) {
				continue
			}
			n++
			if !c10RowProvenance(c, st.Val, depth+1) {
				return false
			}
		}
		return n > 0
	}
	return false
}

// c10ReadSites classifies every call of ChannelStore.ReadCommitted.
func c10ReadSites(c *Ctx) {
	const callee = c10S + "ChannelStore.ReadCommitted"
	sites := c.callSites(callee)
	n := 0
	for _, cs := range sites {
		fname := c.P.Name(cs.fn)
		in := cs.in.(ssa.Instruction)
		pos := c.P.InstrPos(in)
		n++
		c.CallSites++
		c.FuncsAnalysed[fname] = true
		switch {
		case fname == c10CH+"Service.readLocalCommitted":
			c10ClampedRead(c, "R3-cap", cs, false)
		case fname == "pkg/cluster.Node.ReadChannelCommitted":
			// management reads of the local replica store: must clamp like readLocalCommitted
			// (the by-value request parameter is the private copy; the live runtime HW of the
			// locally loaded channel is an accepted committed source besides the durable HW).
			before := len(c.Obligs)
			c10ClampedRead(c, "R3-node", cs, true)
			bad := ""
			for _, o := range c.Obligs[before:] {
				if o.Status == Violated || o.Status == Undecided {
					bad = o.Detail
					break
				}
			}
			if bad != "" {
				c.add("confine", "R3-sites", fname+"#ReadCommitted", Violated, pos,
					fmt.Sprintf("%s calls ChannelStore.ReadCommitted without clamping the request to a loaded committed watermark (%s), so rows above HW can be returned to management reads", fname, bad))
				c.Obligs = append(c.Obligs[:before], c.Obligs[len(c.Obligs)-1])
			} else {
				c.add("confine", "R3-sites", fname+"#ReadCommitted", Held, pos, "request clamped to the loaded committed watermark before the store is read (see R3-node obligations)")
			}
		case fname == c10CH+"readLastOrdinaryCommitted":
			c.StoreShape("R3-sites", cs.fn, "*ReadCommittedRequest.MaxSeq", "committed")
			c.StoreShape("R3-sites", cs.fn, "*ReadCommittedRequest.MinSeq", c10CH+"nextSeq(retentionThroughSeq)")
			c.CallShape("R3-sites", cs.fn, callee, callee+"(store, ctx, alloc:ReadCommittedRequest)")
		case strings.HasPrefix(fname, "pkg/channel/testkit."):
			c.add("confine", "R3-sites", fname+"#ReadCommitted", Exception, pos, "test-harness helper, not a production read path")
		default:
			args := cs.in.Common().Args
			c.add("confine", "R3-sites", fname+"#ReadCommitted", Violated, pos,
				fmt.Sprintf("%s calls ChannelStore.ReadCommitted(%s) outside the capped read path: the request's MaxSeq is not clamped to a loaded committed watermark (and MinSeq not raised to the local retention floor) before the store is read, so rows above HW / recovery records can be returned", fname, Path(args[len(args)-1])))
		}
	}
	if n < 2 {
		c.add("confine", "R3-sites", "callers:"+callee, Undecided, "", fmt.Sprintf("%d call site(s) found, hand-confirmed minimum 2", n))
	}
	// the capped literal reader gets its bounds from the capped head reader only
	c.ConfineCalls("R3-sites", c10CH+"readLastOrdinaryCommitted", 1, c10CH+"Service.readLocalConversationHead")
	if f := c.Fn(c10CH + "Service.readLocalConversationHead"); f != nil {
		for _, in := range instrsMatching(f, CallTo{c10CH + "readLastOrdinaryCommitted"}) {
			call := in.(ssa.CallInstruction).Common()
			construct := c.P.Name(f) + "#readLastOrdinaryCommitted"
			if why := c10CommittedValue(f, call.Args[2], true); why != "" {
				c.add("shape", "R3-sites", construct+":committed", Violated, c.P.InstrPos(in), why)
			} else {
				c.add("shape", "R3-sites", construct+":committed", Held, c.P.InstrPos(in), "committed bound is HW, LEO behind minISR <= 1, or max(HW, live runtime HW): "+Path(call.Args[2]))
			}
			if r := Path(call.Args[3]); !globAny([]string{c10CH + "maxUint64Value(retentionThroughSeq, *.LocalRetentionThroughSeq)", c10CH + "maxUint64Value(*.LocalRetentionThroughSeq, retentionThroughSeq)"}, r) {
				c.add("shape", "R3-sites", construct+":floor", Violated, c.P.InstrPos(in), "retention floor passed is "+r+", expected max(meta retention, local retention)")
			} else {
				c.add("shape", "R3-sites", construct+":floor", Held, c.P.InstrPos(in), "retention floor is "+r)
			}
		}
	}
}

// c10CommittedValue checks that v is a committed watermark: X.HW, or a phi of X.HW / X.LEO (the
// LEO edge reachable only behind minISR <= 1) / max(X.HW, liveCommitted) when live is allowed.
// Returns "" when accepted, else the reason.
func c10CommittedValue(fn *ssa.Function, v ssa.Value, live bool) string {
	leaf := func(x ssa.Value, pred *ssa.BasicBlock) string {
		p := Path(x)
		switch {
		case glob("*.HW", p) && (!strings.Contains(p, "(") || glob("*ChannelStore.Load(*)#0.HW", p)):
			return ""
		case glob("*.LEO", p) && (!strings.Contains(p, "(") || glob("*ChannelStore.Load(*)#0.LEO", p)):
			if pred == nil {
				return "LEO used as the committed bound unconditionally"
			}
			removed, _ := guardEdges(fn, parseGuard("minISR <= 1 || *.MinISR <= 1"))
			if _, reach := reachUnguarded(fn, removed, nil)[pred]; reach {
				return "LEO is used as the committed bound without a dominating minISR <= 1"
			}
			return ""
		case live && glob(c10CH+"maxUint64Value(*.HW, liveCommitted)", p):
			return ""
		case live && glob("pkg/cluster.Node.loadedChannelHW(*)", p):
			return "" // live HW of the locally loaded runtime (its body is checked by R3-node/live-hw)
		}
		return "committed bound has an unexpected source: " + p
	}
	if phi, ok := v.(*ssa.Phi); ok {
		for i, e := range phi.Edges {
			if why := leaf(e, phi.Block().Preds[i]); why != "" {
				return why
			}
		}
		return ""
	}
	return leaf(v, nil)
}

// c10ClampedRead: the request passed to ReadCommitted is a local copy whose MaxSeq is clamped to
// the committed watermark (and replaced when 0 = unbounded) and whose MinSeq is raised to
// next(max(meta retention, local retention)) on every path to the call.
func c10ClampedRead(c *Ctx, rule string, cs callSite, nodeRead bool) {
	fn := cs.fn
	fname := c.P.Name(fn)
	in := cs.in.(ssa.Instruction)
	pos := c.P.InstrPos(in)
	args := cs.in.Common().Args
	ld, _ := args[len(args)-1].(*ssa.UnOp)
	var a *ssa.Alloc
	if ld != nil {
		a, _ = ld.X.(*ssa.Alloc)
	}
	if a == nil || (spilledParam(a) != nil && !nodeRead) {
		c.add("shape", rule, fname+"#request", Violated, pos, "the request passed to ReadCommitted is not a local copy that can be clamped: "+Path(args[len(args)-1]))
		return
	}
	stores := map[string][]*ssa.Store{}
	addrPath := map[string]string{}
	whole := 0
	for _, r := range *a.Referrers() {
		switch x := r.(type) {
		case *ssa.Store:
			if x.Addr == ssa.Value(a) {
				whole++
			}
		case *ssa.FieldAddr:
			f := fieldName(x.X.Type(), x.Field)
			addrPath[f] = Path(x)
			for _, r2 := range *x.Referrers() {
				if st, ok := r2.(*ssa.Store); ok && st.Addr == ssa.Value(x) {
					stores[f] = append(stores[f], st)
				}
			}
		}
	}
	if whole != 1 {
		c.add("shape", rule, fname+"#request", Violated, pos, fmt.Sprintf("the request local is (re)initialised %d times; exactly one copy of the caller's request is expected before the clamps", whole))
		return
	}
	// --- cap
	capOK := len(stores["MaxSeq"]) > 0
	var committed ssa.Value
	for _, st := range stores["MaxSeq"] {
		if why := c10CommittedValue(fn, st.Val, nodeRead); why != "" {
			c.add("guard", rule, fname+"#MaxSeq:value", Violated, c.P.InstrPos(st), "request.MaxSeq is set to something that is not the loaded committed watermark: "+why)
			capOK = false
		}
		if committed != nil && committed != st.Val {
			capOK = false
		}
		committed = st.Val
	}
	if !capOK || committed == nil {
		c.add("guard", rule, fname+"#MaxSeq<=committed", Violated, pos, "no clamp store request.MaxSeq = committed found before store.ReadCommitted")
	} else {
		c.add("guard", rule, fname+"#MaxSeq:value", Held, c.P.InstrPos(stores["MaxSeq"][0]), "clamp value is the loaded committed watermark "+Path(committed)+" (LEO only behind minISR <= 1)")
		barriers := map[ssa.Instruction]bool{}
		for _, st := range stores["MaxSeq"] {
			barriers[st] = true
		}
		mx := addrPath["MaxSeq"]
		if reach, _ := c10Reachable(fn, in, []AtomSpec{{L: mx, Op: "<=", R: Path(committed)}}, barriers); reach {
			c.add("guard", rule, fname+"#MaxSeq<=committed", Violated, pos, "store.ReadCommitted is reachable with request.MaxSeq neither tested <= committed nor overwritten with committed")
		} else {
			c.add("guard", rule, fname+"#MaxSeq<=committed", Held, pos, "every path to store.ReadCommitted either proves request.MaxSeq <= committed or stores committed into it")
		}
		if reach, _ := c10Reachable(fn, in, []AtomSpec{{L: mx, Op: "!=", R: "0"}}, barriers); reach {
			c.add("guard", rule, fname+"#MaxSeq!=0", Violated, pos, "store.ReadCommitted is reachable with request.MaxSeq == 0, which the store adapter treats as unbounded")
		} else {
			c.add("guard", rule, fname+"#MaxSeq!=0", Held, pos, "request.MaxSeq == 0 (unbounded) is always replaced by committed")
		}
		// ... and the replacement value itself must not be 0: the adapter reads MaxSeq == 0 as "no cap"
		if reach, _ := c10Reachable(fn, in, []AtomSpec{{L: Path(committed), Op: "!=", R: "0"}}, nil); reach {
			c.add("guard", rule, fname+"#committed!=0", Violated, pos, "store.ReadCommitted is reachable with committed == 0: the clamp then stores MaxSeq = 0, which messageDBChannelStoreAdapter.ReadCommitted treats as unbounded; a forward read with FromSeq == 0 (FromSeq > committed is false, MinSeq >= 1 moves readFrom to 1) returns every stored row although nothing is committed (HW == 0, LEO > 0)")
		} else {
			c.add("guard", rule, fname+"#committed!=0", Held, pos, "store.ReadCommitted is reached only with a non-zero committed watermark")
		}
	}
	// --- floor
	mn := addrPath["MinSeq"]
	shapes := []string{
		c10CH + "maxUint64Value(" + mn + ", " + c10CH + "nextSeq(" + c10CH + "maxUint64Value(retentionThroughSeq, *.LocalRetentionThroughSeq)))",
		c10CH + "maxUint64Value(" + c10CH + "nextSeq(" + c10CH + "maxUint64Value(retentionThroughSeq, *.LocalRetentionThroughSeq)), " + mn + ")",
		c10CH + "maxUint64Value(" + mn + ", " + c10CH + "nextSeq(" + c10CH + "maxUint64Value(*.LocalRetentionThroughSeq, retentionThroughSeq)))",
	}
	if nodeRead {
		// the node-level read raises MinSeq to the metadata retention boundary only
		shapes = []string{"pkg/cluster.maxReadCommittedMinSeq(" + mn + ", pkg/cluster.minAvailableSeq(*.RetentionThroughSeq))"}
	}
	floorOK := len(stores["MinSeq"]) > 0 && mn != ""
	barriers := map[ssa.Instruction]bool{}
	for _, st := range stores["MinSeq"] {
		barriers[st] = true
		if !globAny(shapes, Path(st.Val)) {
			floorOK = false
			c.add("guard", rule, fname+"#MinSeq:value", Violated, c.P.InstrPos(st), "request.MinSeq = "+Path(st.Val)+" is not max(request.MinSeq, next(max(meta retention, local retention)))")
		}
	}
	if floorOK {
		if reach, _ := c10Reachable(fn, in, nil, barriers); reach {
			floorOK = false
		}
	}
	if floorOK {
		c.add("guard", rule, fname+"#MinSeq>=floor", Held, pos, "every path to store.ReadCommitted raises request.MinSeq to next(max(meta retention, local retention))")
	} else {
		c.add("guard", rule, fname+"#MinSeq>=floor", Violated, pos, "store.ReadCommitted is reachable without request.MinSeq being raised to next(max(meta retention, local retention))")
	}
}

// c10USub: every unsigned `x - 1` in fn is reachable only behind x != 0 (x > 0).
func c10USub(c *Ctx, rule string, fn *ssa.Function) {
	if fn == nil {
		return
	}
	fname := c.P.Name(fn)
	c.FuncsAnalysed[fname] = true
	for _, b := range fn.Blocks {
		for _, in := range b.Instrs {
			bo, ok := in.(*ssa.BinOp)
			if !ok || bo.Op != token.SUB {
				continue
			}
			bt, ok := bo.X.Type().Underlying().(*types.Basic)
			if !ok || bt.Info()&types.IsUnsigned == 0 {
				continue
			}
			k, ok := bo.Y.(*ssa.Const)
			if !ok || constString(k) != "1" {
				continue
			}
			x := Path(bo.X)
			construct := fname + "#" + x + "-1"
			removed, descr := guardEdges(fn, guardSpec{atoms: []AtomSpec{{L: x, Op: "!=", R: "0"}}})
			limit := reachUnguarded(fn, removed, nil)
			if lim, reach := limit[b]; reach && indexIn(b, in) < lim {
				c.add("guard", rule, construct, Violated, c.P.InstrPos(in), fmt.Sprintf("unsigned %s - 1 in %s is reachable with %s == 0 (wraps to MaxUint64 and lifts the read bound)", x, fname, x))
			} else {
				c.add("guard", rule, construct, Held, c.P.InstrPos(in), "behind "+strings.Join(dedup(descr), "; "))
			}
		}
	}
}

// c10VerdictTied: in fn every call submitStoreRetention(..., req, trimAllowed, ...) passes as
// trimAllowed result #0 of retentionTrimDecision(<x>.state, req.ThroughSeq) for that same req.
func c10VerdictTied(c *Ctx, rule string, fn *ssa.Function) {
	if fn == nil {
		return
	}
	fname := c.P.Name(fn)
	construct := fname + "#submitStoreRetention:verdict"
	calls := instrsMatching(fn, CallTo{c10R + "Reactor.submitStoreRetention"})
	if len(calls) == 0 {
		c.add("shape", rule, construct, Undecided, c.P.Pos(fn.Pos()), "no call of submitStoreRetention (vacuous)")
		return
	}
	for _, in := range calls {
		args := in.(ssa.CallInstruction).Common().Args
		pos := c.P.InstrPos(in)
		if len(args) != 7 {
			c.add("shape", rule, construct, Undecided, pos, "unexpected arity of submitStoreRetention")
			return
		}
		ex, ok := stripConv(args[5]).(*ssa.Extract)
		var dec *ssa.Call
		if ok && ex.Index == 0 {
			dec, _ = ex.Tuple.(*ssa.Call)
		}
		if dec == nil || calleeName(&dec.Call) != c10R+"retentionTrimDecision" {
			c.add("shape", rule, construct, Violated, pos, "trimAllowed passed to the store task is "+Path(args[5])+", not the verdict of retentionTrimDecision")
			return
		}
		if want, got := Path(args[4])+".ThroughSeq", Path(dec.Call.Args[1]); want != got {
			c.add("shape", rule, construct, Violated, pos, fmt.Sprintf("the verdict was computed for %s but the task trims through %s", got, want))
			return
		}
		if !glob("*.state", Path(dec.Call.Args[0])) {
			c.add("shape", rule, construct, Violated, pos, "the verdict was not computed on the channel's runtime state: "+Path(dec.Call.Args[0]))
			return
		}
	}
	c.add("shape", rule, construct, Held, c.P.InstrPos(calls[0]), fmt.Sprintf("%d call(s); TrimAllowed is retentionTrimDecision(rc.state, req.ThroughSeq)#0 for the same request", len(calls)))
}

// c10DeletesWhatWasRead: every stageDeleteMessage(l, batch, m) in fn deletes a message m that is
// messageFromRow(row) of a row taken from the result of the bounded readRows call.
func c10DeletesWhatWasRead(c *Ctx, rule string, fn *ssa.Function) {
	fname := c.P.Name(fn)
	construct := fname + "#deletes-read-rows"
	calls := instrsMatching(fn, CallTo{c10DB + "ChannelLog.stageDeleteMessage"})
	if len(calls) == 0 {
		c.add("shape", rule, construct, Undecided, c.P.Pos(fn.Pos()), "no stageDeleteMessage call (vacuous)")
		return
	}
	for _, in := range calls {
		args := in.(ssa.CallInstruction).Common().Args
		v := args[len(args)-1]
		// look through one local
		if ld, ok := v.(*ssa.UnOp); ok && ld.Op == token.MUL {
			if a, ok := ld.X.(*ssa.Alloc); ok && a.Referrers() != nil {
				var src ssa.Value
				n := 0
				for _, r := range *a.Referrers() {
					if st, ok := r.(*ssa.Store); ok && st.Addr == ssa.Value(a) {
						n++
						src = st.Val
					}
				}
				if n == 1 {
					v = src
				}
			}
		}
		if p := Path(v); !glob(c10DB+"messageFromRow(*"+c10DB+"ChannelLog.readRows(*)#0*)", p) {
			c.add("shape", rule, construct, Violated, c.P.InstrPos(in), "the deleted message is "+p+", not a row returned by the bounded readRows(start, throughSeq) call")
			return
		}
	}
	c.add("shape", rule, construct, Held, c.P.InstrPos(calls[0]), fmt.Sprintf("%d delete site(s), each deletes messageFromRow(row) of a row returned by readRows", len(calls)))
}
