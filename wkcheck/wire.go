package main

import (
	"fmt"
	"go/ast"
	"go/constant"
	"go/token"
	"go/types"
	"regexp"
	"sort"
	"strings"

	"golang.org/x/tools/go/packages"
)

// wireItem is one element of a codec's flat layout: under which (normalised)
// guard conjunction it is present, which wire token it is, and which field of
// the message it carries ("" when the extractor cannot tell).
type wireItem struct {
	Guards []string
	Tok    string
	Field  string
	Pos    token.Pos
}

func (w wireItem) String() string {
	g := ""
	if len(w.Guards) > 0 {
		g = "[" + strings.Join(w.Guards, " && ") + "] "
	}
	f := w.Field
	if f == "" {
		f = "?"
	}
	return g + w.Tok + ":" + f
}

// wireCodec describes the primitive vocabulary of one codec family.
type wireCodec struct {
	// EncType/DecType: named types whose methods are the write/read primitives.
	EncType, DecType string
	EncTok, DecTok   map[string]string // method name -> token
	// Pair helpers: function name -> token, for encoder, decoder and size siblings.
	EncPair, DecPair, SizePair map[string]string
	// TokWidth: byte width of fixed tokens (for size siblings); "str" = len+StrPrefix, "raw" = len.
	TokWidth  map[string]int64
	StrPrefix int64
	// GuardAlias: normalised guard text -> canonical text (sibling-specific spellings of the same condition).
	GuardAlias map[string]string
	// IgnoreConjuncts: guard conjuncts that are validation, not layout (e.g. range checks before a write).
}

type wireExtractor struct {
	c     *Ctx
	pkg   *packages.Package
	codec *wireCodec
	fn    *ast.FuncDecl
	msg   map[types.Object]bool // identifiers that denote the message being coded (normalised to "$")
	items []wireItem
	errs  []string
	// subst renders identifiers of an expanded pair helper (its parameters) as the caller's argument text
	subst   map[types.Object]string
	depth   int
	sizeObj types.Object // the accumulator of a size function (resolved from its final return, not from its name)
}

func (c *Ctx) funcDecl(short string) (*packages.Package, *ast.FuncDecl) {
	i := strings.LastIndex(short, ".")
	if i < 0 {
		return nil, nil
	}
	// short is pkg/path.Func or pkg/path.T.Method
	for pkgPath, pk := range c.P.Pkgs {
		if !strings.HasPrefix(short, pkgPath+".") {
			continue
		}
		rest := strings.TrimPrefix(short, pkgPath+".")
		for _, f := range pk.Syntax {
			for _, d := range f.Decls {
				fd, ok := d.(*ast.FuncDecl)
				if !ok {
					continue
				}
				name := fd.Name.Name
				if fd.Recv != nil && len(fd.Recv.List) == 1 {
					t := fd.Recv.List[0].Type
					if s, ok := t.(*ast.StarExpr); ok {
						t = s.X
					}
					if ix, ok := t.(*ast.IndexExpr); ok {
						t = ix.X
					}
					if id, ok := t.(*ast.Ident); ok {
						name = id.Name + "." + name
					}
				}
				if name == rest {
					return pk, fd
				}
			}
		}
	}
	return nil, nil
}

func newWireExtractor(c *Ctx, codec *wireCodec, short string) *wireExtractor {
	pk, fd := c.funcDecl(short)
	if fd == nil {
		c.add("anchor", "anchor", short, Undecided, "", "codec sibling not found")
		return nil
	}
	c.FuncsAnalysed[short] = true
	return &wireExtractor{c: c, pkg: pk, codec: codec, fn: fd, msg: map[types.Object]bool{}}
}

func (x *wireExtractor) fail(n ast.Node, msg string) {
	x.errs = append(x.errs, fmt.Sprintf("%s at %s", msg, x.c.P.Pos(n.Pos())))
}

// markMsg marks parameters/locals whose type name matches one of the globs as "the message".
func (x *wireExtractor) markMsgParams(typeGlobs ...string) {
	if x.fn.Type.Params == nil {
		return
	}
	for _, f := range x.fn.Type.Params.List {
		for _, n := range f.Names {
			obj := x.pkg.TypesInfo.Defs[n]
			if obj != nil && globAny(typeGlobs, typeBaseName(obj.Type())) {
				x.msg[obj] = true
			}
		}
	}
}

func (x *wireExtractor) typeNameOf(e ast.Expr) string {
	if tv, ok := x.pkg.TypesInfo.Types[e]; ok && tv.Type != nil {
		return typeBaseName(tv.Type)
	}
	return ""
}

// norm renders an expression with message roots replaced by "$" and package qualifiers kept.
func (x *wireExtractor) norm(e ast.Expr) string {
	switch v := e.(type) {
	case *ast.Ident:
		if obj := x.pkg.TypesInfo.Uses[v]; obj != nil {
			if t, ok := x.subst[obj]; ok {
				return t
			}
		}
		if obj := x.pkg.TypesInfo.Uses[v]; obj != nil && x.msg[obj] {
			return "$"
		}
		if obj := x.pkg.TypesInfo.Defs[v]; obj != nil && x.msg[obj] {
			return "$"
		}
		return v.Name
	case *ast.SelectorExpr:
		return x.norm(v.X) + "." + v.Sel.Name
	case *ast.CallExpr:
		var args []string
		for _, a := range v.Args {
			args = append(args, x.norm(a))
		}
		return x.norm(v.Fun) + "(" + strings.Join(args, ", ") + ")"
	case *ast.BinaryExpr:
		return x.norm(v.X) + " " + v.Op.String() + " " + x.norm(v.Y)
	case *ast.UnaryExpr:
		return v.Op.String() + x.norm(v.X)
	case *ast.ParenExpr:
		return x.norm(v.X)
	case *ast.BasicLit:
		return v.Value
	case *ast.StarExpr:
		return x.norm(v.X)
	case *ast.IndexExpr:
		return x.norm(v.X) + "[" + x.norm(v.Index) + "]"
	case *ast.SliceExpr:
		return x.norm(v.X) + "[:]"
	}
	return fmt.Sprintf("<%T>", e)
}

// conjuncts splits a condition on && and normalises each part.
func (x *wireExtractor) conjuncts(e ast.Expr) []string {
	e = ast.Unparen(e)
	if b, ok := e.(*ast.BinaryExpr); ok && b.Op == token.LAND {
		return append(x.conjuncts(b.X), x.conjuncts(b.Y)...)
	}
	s := x.norm(e)
	// constants compared with version render by value so that `version <= frame.X` and literals agree
	if b, ok := e.(*ast.BinaryExpr); ok {
		if tv, ok := x.pkg.TypesInfo.Types[b.Y]; ok && tv.Value != nil {
			s = x.norm(b.X) + " " + b.Op.String() + " " + tv.Value.ExactString()
		}
	}
	if a, ok := x.codec.GuardAlias[s]; ok {
		s = a
	}
	return []string{s}
}

func withGuards(base []string, more ...string) []string {
	out := append(append([]string{}, base...), more...)
	sort.Strings(out)
	// dedup
	var d []string
	for i, s := range out {
		if i == 0 || out[i-1] != s {
			d = append(d, s)
		}
	}
	return d
}

// msgField finds the first field selected from the message inside e ("$.Setting" for $.Setting.Uint8()).
func (x *wireExtractor) msgField(e ast.Expr) string {
	var found string
	ast.Inspect(e, func(n ast.Node) bool {
		if found != "" {
			return false
		}
		if sel, ok := n.(*ast.SelectorExpr); ok {
			if x.norm(sel.X) == "$" {
				// only fields, not methods
				if s := x.pkg.TypesInfo.Selections[sel]; s != nil && s.Kind() == types.FieldVal {
					found = sel.Sel.Name
					return false
				}
			}
		}
		return true
	})
	return found
}

// primitiveCall recognises enc.M(args) / dec.M() / pair helpers. kind: "enc" or "dec".
func (x *wireExtractor) primitiveCall(call *ast.CallExpr, kind string) (tok string, arg ast.Expr, ok bool) {
	switch f := call.Fun.(type) {
	case *ast.SelectorExpr:
		recvT := x.typeNameOf(f.X)
		if kind == "enc" && recvT == x.codec.EncType {
			if t, ok := x.codec.EncTok[f.Sel.Name]; ok {
				if len(call.Args) > 0 {
					arg = call.Args[0]
				}
				return t, arg, true
			}
			return "?" + f.Sel.Name, nil, true
		}
		if kind == "dec" && recvT == x.codec.DecType {
			if t, ok := x.codec.DecTok[f.Sel.Name]; ok {
				return t, nil, true
			}
			if f.Sel.Name == "Len" {
				return "", nil, false // remaining-bytes probe, not a read
			}
			return "?" + f.Sel.Name, nil, true
		}
	case *ast.Ident:
		table := x.codec.EncPair
		if kind == "dec" {
			table = x.codec.DecPair
		}
		if t, ok := table[f.Name]; ok {
			if len(call.Args) > 0 {
				arg = call.Args[len(call.Args)-1]
			}
			return t, arg, true
		}
	}
	return "", nil, false
}

// findPrimitive returns the (single) primitive call inside a statement or expression.
func (x *wireExtractor) findPrimitives(n ast.Node, kind string) []*ast.CallExpr {
	var out []*ast.CallExpr
	ast.Inspect(n, func(m ast.Node) bool {
		if _, ok := m.(*ast.FuncLit); ok {
			return false
		}
		if c, ok := m.(*ast.CallExpr); ok {
			if _, _, ok := x.primitiveCall(c, kind); ok {
				out = append(out, c)
			}
		}
		return true
	})
	return out
}

func (x *wireExtractor) isErrNotNil(e ast.Expr) bool {
	b, ok := ast.Unparen(e).(*ast.BinaryExpr)
	if !ok || b.Op != token.NEQ {
		return false
	}
	id, ok1 := b.X.(*ast.Ident)
	nl, ok2 := b.Y.(*ast.Ident)
	if !ok1 || !ok2 || nl.Name != "nil" {
		return false
	}
	// an identifier of type error (whatever it is called)
	if tv, ok := x.pkg.TypesInfo.Types[id]; ok && tv.Type != nil {
		return types.Identical(tv.Type, types.Universe.Lookup("error").Type())
	}
	return false
}

var cmpRe = regexp.MustCompile(`^(.*) (<=|>=|<|>|==|!=) (\S+)$`)

// negGuard renders the negation of a guard conjunction; a single comparison is flipped so that
// `else` of `v <= 4` and a sibling's `if v > 4` read the same.
func negGuard(conj []string) string {
	if len(conj) == 1 {
		if m := cmpRe.FindStringSubmatch(conj[0]); m != nil && !strings.Contains(m[1], "&&") && !strings.Contains(m[1], "||") {
			flip := map[string]string{"<=": ">", ">=": "<", "<": ">=", ">": "<=", "==": "!=", "!=": "=="}
			return m[1] + " " + flip[m[2]] + " " + m[3]
		}
	}
	return "!(" + strings.Join(conj, " && ") + ")"
}

func endsInReturn(b *ast.BlockStmt) bool {
	if b == nil || len(b.List) == 0 {
		return false
	}
	_, ok := b.List[len(b.List)-1].(*ast.ReturnStmt)
	return ok
}

// ---------------------------------------------------------------------------
// encoder / decoder walk

func (x *wireExtractor) walkCoder(stmts []ast.Stmt, guards []string, kind string) {
	for _, s := range stmts {
		switch st := s.(type) {
		case *ast.IfStmt:
			// `if err := prim(...); err != nil { return … }` and `if v, err = dec.X(); err != nil {…}`
			if st.Init != nil && len(x.findPrimitives(st.Init, kind)) > 0 {
				x.emitStmt(st.Init, guards, kind)
				if !x.isErrNotNil(st.Cond) {
					x.fail(st, "primitive call in an if-initialiser whose condition is not `err != nil`")
				}
				if st.Else != nil && len(x.findPrimitives(st.Else, kind)) > 0 {
					x.fail(st.Else, "codec primitive inside an else branch of an error check")
				}
				continue
			}
			if len(x.findPrimitives(st.Cond, kind)) > 0 {
				x.fail(st, "codec primitive inside a condition")
				continue
			}
			if len(x.findPrimitives(st.Body, kind)) == 0 && (st.Else == nil || len(x.findPrimitives(st.Else, kind)) == 0) {
				continue // validation / error handling only
			}
			x.walkCoder(st.Body.List, withGuards(guards, x.conjuncts(st.Cond)...), kind)
			neg := negGuard(x.conjuncts(st.Cond))
			if st.Else != nil {
				if len(x.findPrimitives(st.Else, kind)) > 0 {
					switch e := st.Else.(type) {
					case *ast.BlockStmt:
						x.walkCoder(e.List, withGuards(guards, neg), kind)
					case *ast.IfStmt:
						x.walkCoder([]ast.Stmt{e}, withGuards(guards, neg), kind)
					}
				}
			} else if endsInReturn(st.Body) && len(x.findPrimitives(st.Body, kind)) > 0 {
				// `if c { …items…; return }` : what follows in this block is the else branch
				guards = withGuards(guards, neg)
			}
		case *ast.BlockStmt:
			x.walkCoder(st.List, guards, kind)
		case *ast.ReturnStmt:
			if len(x.findPrimitives(st, kind)) > 0 {
				x.emitStmt(st, guards, kind)
			}
		case *ast.ForStmt, *ast.RangeStmt, *ast.SwitchStmt, *ast.TypeSwitchStmt, *ast.SelectStmt:
			if len(x.findPrimitives(st, kind)) > 0 {
				x.fail(st, "codec primitive inside a loop/switch (extractor does not model this)")
			}
		default:
			if len(x.findPrimitives(st, kind)) > 0 {
				x.emitStmt(st, guards, kind)
			}
		}
	}
}

func (x *wireExtractor) emitStmt(s ast.Node, guards []string, kind string) {
	prims := x.findPrimitives(s, kind)
	for _, call := range prims {
		tok, arg, _ := x.primitiveCall(call, kind)
		if strings.HasPrefix(tok, "?") {
			x.fail(call, "unknown primitive "+tok[1:])
		}
		field := ""
		if kind == "enc" && arg != nil {
			field = x.msgField(arg)
		}
		if kind == "dec" {
			field = x.decTarget(s, call)
		}
		if _, isIdent := call.Fun.(*ast.Ident); isIdent && x.expandPair(call, kind, guards, field) {
			continue
		}
		x.items = append(x.items, wireItem{Guards: guards, Tok: tok, Field: field, Pos: call.Pos()})
	}
}

// decTarget: which message field receives the value read by call.
func (x *wireExtractor) decTarget(s ast.Node, call *ast.CallExpr) string {
	as, ok := s.(*ast.AssignStmt)
	if !ok || len(as.Rhs) != 1 || as.Rhs[0] != ast.Expr(call) || len(as.Lhs) == 0 {
		return ""
	}
	lhs := as.Lhs[0]
	if f := x.msgField(lhs); f != "" {
		return f
	}
	id, ok := lhs.(*ast.Ident)
	if !ok {
		return ""
	}
	obj := x.pkg.TypesInfo.Defs[id]
	if obj == nil {
		obj = x.pkg.TypesInfo.Uses[id]
	}
	if obj == nil {
		return ""
	}
	// look for `$.F = conv(local)` anywhere in the function
	found := ""
	ast.Inspect(x.fn.Body, func(n ast.Node) bool {
		a, ok := n.(*ast.AssignStmt)
		if !ok || len(a.Lhs) != 1 || len(a.Rhs) != 1 {
			return true
		}
		uses := false
		ast.Inspect(a.Rhs[0], func(m ast.Node) bool {
			if i, ok := m.(*ast.Ident); ok && x.pkg.TypesInfo.Uses[i] == obj {
				uses = true
			}
			return true
		})
		if uses {
			if f := x.msgField(a.Lhs[0]); f != "" && found == "" {
				found = f
			}
		}
		return true
	})
	return found
}

// extractCoder runs the encoder/decoder extraction.
func (x *wireExtractor) extractCoder(kind string) []wireItem {
	// locals assigned from &T{} / T{} of a message type also denote the message (decoders build it)
	ast.Inspect(x.fn.Body, func(n ast.Node) bool {
		as, ok := n.(*ast.AssignStmt)
		if !ok || as.Tok != token.DEFINE || len(as.Lhs) != 1 || len(as.Rhs) != 1 {
			return true
		}
		rhs := as.Rhs[0]
		if u, ok := rhs.(*ast.UnaryExpr); ok && u.Op == token.AND {
			rhs = u.X
		}
		if _, ok := rhs.(*ast.CompositeLit); ok {
			if id, ok := as.Lhs[0].(*ast.Ident); ok {
				if obj := x.pkg.TypesInfo.Defs[id]; obj != nil && strings.HasSuffix(typeBaseName(obj.Type()), "Packet") {
					x.msg[obj] = true
				}
			}
		}
		return true
	})
	x.walkCoder(x.fn.Body.List, nil, kind)
	return x.items
}

// ---------------------------------------------------------------------------
// size sibling

func (x *wireExtractor) extractSize(sizeVar string) []wireItem {
	// the accumulator is whatever identifier the function's last statement returns
	if n := len(x.fn.Body.List); n > 0 {
		if r, ok := x.fn.Body.List[n-1].(*ast.ReturnStmt); ok && len(r.Results) == 1 {
			if id, ok := ast.Unparen(r.Results[0]).(*ast.Ident); ok {
				x.sizeObj = x.pkg.TypesInfo.Uses[id]
			}
		}
	}
	x.walkSize(x.fn.Body.List, nil, sizeVar)
	return x.items
}

func (x *wireExtractor) isSizeVar(e ast.Expr) bool {
	id, ok := ast.Unparen(e).(*ast.Ident)
	if !ok || x.sizeObj == nil {
		return false
	}
	return x.pkg.TypesInfo.Uses[id] == x.sizeObj || x.pkg.TypesInfo.Defs[id] == x.sizeObj
}

// expandPair splices the items of a pair helper (encodeMessageSeq / decodeMessageSeq / messageSeqSize …) in place
// of its token, so that a sibling that calls the helper and one that has it inlined yield the same list.
func (x *wireExtractor) expandPair(call *ast.CallExpr, kind string, guards []string, field string) bool {
	id, ok := call.Fun.(*ast.Ident)
	if !ok || x.depth > 2 {
		return false
	}
	fobj, ok := x.pkg.TypesInfo.Uses[id].(*types.Func)
	if !ok || fobj.Pkg() == nil {
		return false
	}
	pk, fd := x.c.funcDecl(shortPkg(fobj.Pkg().Path()) + "." + fobj.Name())
	if fd == nil || fd.Body == nil || fd.Type.Params == nil {
		return false
	}
	sub := &wireExtractor{c: x.c, pkg: pk, codec: x.codec, fn: fd, msg: map[types.Object]bool{}, subst: map[types.Object]string{}, depth: x.depth + 1}
	i := 0
	for _, f := range fd.Type.Params.List {
		for _, n := range f.Names {
			if i < len(call.Args) {
				if o := pk.TypesInfo.Defs[n]; o != nil {
					sub.subst[o] = x.norm(call.Args[i])
				}
			}
			i++
		}
	}
	if kind == "size" {
		sub.extractSize("")
	} else {
		sub.walkCoder(fd.Body.List, nil, kind)
	}
	if len(sub.errs) > 0 || len(sub.items) == 0 {
		return false
	}
	for _, it := range sub.items {
		f := it.Field
		if f == "" {
			f = field
		}
		x.items = append(x.items, wireItem{Guards: withGuards(guards, it.Guards...), Tok: it.Tok, Field: f, Pos: call.Pos()})
	}
	return true
}

func (x *wireExtractor) walkSize(stmts []ast.Stmt, guards []string, sizeVar string) {
	for _, s := range stmts {
		switch st := s.(type) {
		case *ast.AssignStmt:
			if len(st.Lhs) == 1 && len(st.Rhs) == 1 {
				if x.isSizeVar(st.Lhs[0]) {
					switch st.Tok {
					case token.ADD_ASSIGN, token.DEFINE, token.ASSIGN:
						x.sizeTerms(st.Rhs[0], guards, sizeVar)
					default:
						x.fail(st, "size updated with "+st.Tok.String())
					}
				}
			}
		case *ast.DeclStmt:
			if gd, ok := st.Decl.(*ast.GenDecl); ok {
				for _, sp := range gd.Specs {
					if vs, ok := sp.(*ast.ValueSpec); ok && len(vs.Names) == 1 && x.isSizeVar(vs.Names[0]) && len(vs.Values) == 1 {
						x.sizeTerms(vs.Values[0], guards, sizeVar)
					}
				}
			}
		case *ast.IfStmt:
			before := len(x.items)
			x.walkSize(st.Body.List, withGuards(guards, x.conjuncts(st.Cond)...), sizeVar)
			neg := negGuard(x.conjuncts(st.Cond))
			switch e := st.Else.(type) {
			case *ast.BlockStmt:
				x.walkSize(e.List, withGuards(guards, neg), sizeVar)
			case *ast.IfStmt:
				x.walkSize([]ast.Stmt{e}, withGuards(guards, neg), sizeVar)
			case nil:
				if endsInReturn(st.Body) && len(x.items) > before {
					guards = withGuards(guards, neg)
				}
			}
		case *ast.ReturnStmt:
			if len(st.Results) == 1 {
				if !x.isSizeVar(st.Results[0]) {
					x.sizeTerms(st.Results[0], guards, sizeVar)
				}
			}
		case *ast.ForStmt, *ast.RangeStmt, *ast.SwitchStmt:
			x.fail(st, "loop/switch in a size function")
		}
	}
}

func flattenAdd(e ast.Expr, out *[]ast.Expr) {
	e = ast.Unparen(e)
	if b, ok := e.(*ast.BinaryExpr); ok && b.Op == token.ADD {
		flattenAdd(b.X, out)
		flattenAdd(b.Y, out)
		return
	}
	*out = append(*out, e)
}

func (x *wireExtractor) sizeTerms(e ast.Expr, guards []string, sizeVar string) {
	var terms []ast.Expr
	flattenAdd(e, &terms)
	for i := 0; i < len(terms); i++ {
		t := terms[i]
		// len(field) followed (or preceded) by the string-prefix constant → one "str" item
		if f, ok := x.lenOfField(t); ok && i+1 < len(terms) {
			if _, isLen := x.lenOfField(terms[i+1]); !isLen {
				if v, ok := x.constVal(terms[i+1]); ok && v == x.codec.StrPrefix {
					x.items = append(x.items, wireItem{Guards: guards, Tok: "str", Field: f, Pos: t.Pos()})
					i++
					continue
				}
			}
		}
		x.sizeTerm(t, guards, sizeVar)
	}
}

func (x *wireExtractor) sizeTerm(e ast.Expr, guards []string, sizeVar string) {
	if x.isSizeVar(e) {
		return
	}
	if f, ok := x.lenOfField(e); ok {
		x.items = append(x.items, wireItem{Guards: guards, Tok: "raw", Field: f, Pos: e.Pos()})
		return
	}
	if call, ok := e.(*ast.CallExpr); ok {
		if id, ok := call.Fun.(*ast.Ident); ok {
			if _, ok := x.codec.SizePair[id.Name]; ok && x.expandPair(call, "size", guards, "") {
				return
			}
			if t, ok := x.codec.SizePair[id.Name]; ok {
				x.items = append(x.items, wireItem{Guards: guards, Tok: t, Pos: e.Pos()})
				return
			}
		}
	}
	if v, ok := x.constVal(e); ok {
		if v != 0 {
			x.items = append(x.items, wireItem{Guards: guards, Tok: fmt.Sprintf("fixed%d", v), Pos: e.Pos()})
		}
		return
	}
	x.fail(e, "size term not understood: "+x.norm(e))
}

func (x *wireExtractor) lenOfField(e ast.Expr) (string, bool) {
	call, ok := ast.Unparen(e).(*ast.CallExpr)
	if !ok || len(call.Args) != 1 {
		return "", false
	}
	if id, ok := call.Fun.(*ast.Ident); !ok || id.Name != "len" {
		return "", false
	}
	f := x.msgField(call.Args[0])
	return f, f != ""
}

func (x *wireExtractor) constVal(e ast.Expr) (int64, bool) {
	tv, ok := x.pkg.TypesInfo.Types[e]
	if !ok || tv.Value == nil || tv.Value.Kind() != constant.Int {
		return 0, false
	}
	v, ok := constant.Int64Val(tv.Value)
	return v, ok
}

// ---------------------------------------------------------------------------
// comparison

func guardsEqual(a, b []string) bool {
	if len(a) != len(b) {
		return false
	}
	for i := range a {
		if a[i] != b[i] {
			return false
		}
	}
	return true
}

func itemsString(items []wireItem) string {
	var s []string
	for _, it := range items {
		s = append(s, it.String())
	}
	return strings.Join(s, ", ")
}

// compareCoders: encoder and decoder produce the same (guard, token, field) list.
// tokEquiv maps encoder tokens to the decoder token they must meet (default: identical).
func compareCoders(enc, dec []wireItem, tokEquiv map[string]string) string {
	n := len(enc)
	if len(dec) < n {
		n = len(dec)
	}
	for i := 0; i < n; i++ {
		e, d := enc[i], dec[i]
		want := e.Tok
		if t, ok := tokEquiv[e.Tok]; ok {
			want = t
		}
		if want != d.Tok {
			return fmt.Sprintf("item %d: encoder writes %s but decoder reads %s", i+1, e, d)
		}
		if !guardsEqual(e.Guards, d.Guards) {
			return fmt.Sprintf("item %d: presence conditions differ: encoder %s vs decoder %s", i+1, e, d)
		}
		if e.Field != "" && d.Field != "" && e.Field != d.Field {
			return fmt.Sprintf("item %d: encoder writes field %s where the decoder fills %s", i+1, e.Field, d.Field)
		}
	}
	if len(enc) != len(dec) {
		return fmt.Sprintf("encoder has %d items, decoder has %d (enc: %s | dec: %s)", len(enc), len(dec), itemsString(enc), itemsString(dec))
	}
	return ""
}

// compareSize: the size sibling accounts for every encoder item with the right width under the same guard.
func compareSize(codec *wireCodec, enc, size []wireItem) string {
	n := len(enc)
	if len(size) < n {
		n = len(size)
	}
	for i := 0; i < n; i++ {
		e, s := enc[i], size[i]
		if !guardsEqual(e.Guards, s.Guards) {
			return fmt.Sprintf("item %d: presence conditions differ: encoder %s vs size %s", i+1, e, s)
		}
		switch {
		case e.Tok == "str" || e.Tok == "raw":
			if s.Tok != e.Tok {
				return fmt.Sprintf("item %d: encoder writes %s but the size function counts %s", i+1, e, s)
			}
			if e.Field != "" && s.Field != "" && e.Field != s.Field {
				return fmt.Sprintf("item %d: encoder writes field %s, size function measures %s", i+1, e.Field, s.Field)
			}
		default:
			if w, ok := codec.TokWidth[e.Tok]; ok {
				if s.Tok != fmt.Sprintf("fixed%d", w) {
					return fmt.Sprintf("item %d: encoder writes %s (%d bytes) but the size function counts %s", i+1, e, w, s)
				}
			} else if s.Tok != e.Tok {
				return fmt.Sprintf("item %d: encoder writes %s but the size function counts %s", i+1, e, s)
			}
		}
	}
	if len(enc) != len(size) {
		return fmt.Sprintf("encoder has %d items, size function has %d (enc: %s | size: %s)", len(enc), len(size), itemsString(enc), itemsString(size))
	}
	return ""
}
