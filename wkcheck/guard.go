package main

import (
	"fmt"
	"go/types"
	"strings"

	"golang.org/x/tools/go/ssa"
)

// ---------------------------------------------------------------------------
// Effects

// Effect selects instructions in a function.
type Effect interface {
	Match(in ssa.Instruction) bool
	String() string
}

func isErrorType(t types.Type) bool {
	n, ok := t.(*types.Named)
	return ok && n.Obj().Pkg() == nil && n.Obj().Name() == "error"
}

// retOperand resolves the i-th returned value, looking through the
// store/RunDefers/load sequence go/ssa emits for named results.
func retOperand(ret *ssa.Return, i int) ssa.Value {
	v := ret.Results[i]
	if u, ok := v.(*ssa.UnOp); ok {
		if a, ok := u.X.(*ssa.Alloc); ok {
			b := ret.Block()
			var last ssa.Value
			for _, in := range b.Instrs {
				if in == ssa.Instruction(u) {
					break
				}
				if st, ok := in.(*ssa.Store); ok && st.Addr == a {
					last = st.Val
				}
			}
			if last != nil {
				return last
			}
		}
	}
	return v
}

// RetNil: a return whose error result is the nil constant ("success return").
type RetNil struct{}

func (RetNil) String() string { return "return …, nil" }
func (RetNil) Match(in ssa.Instruction) bool {
	ret, ok := in.(*ssa.Return)
	if !ok || len(ret.Results) == 0 {
		return false
	}
	i := len(ret.Results) - 1
	if !isErrorType(ret.Results[i].Type()) {
		return false
	}
	c, ok := retOperand(ret, i).(*ssa.Const)
	return ok && c.Value == nil
}

// Ret: a return whose result Idx renders to Glob (negative Idx counts from the end).
type Ret struct {
	Idx  int
	Glob string
}

func (e Ret) String() string { return fmt.Sprintf("return[%d]=%s", e.Idx, e.Glob) }
func (e Ret) Match(in ssa.Instruction) bool {
	ret, ok := in.(*ssa.Return)
	if !ok {
		return false
	}
	i := e.Idx
	if i < 0 {
		i += len(ret.Results)
	}
	if i < 0 || i >= len(ret.Results) {
		return false
	}
	return glob(e.Glob, Path(retOperand(ret, i)))
}

// RetNot: a return whose result Idx does NOT render to any of the globs.
type RetNot struct {
	Idx   int
	Globs []string
}

func (e RetNot) String() string { return fmt.Sprintf("return[%d]∉%v", e.Idx, e.Globs) }
func (e RetNot) Match(in ssa.Instruction) bool {
	ret, ok := in.(*ssa.Return)
	if !ok {
		return false
	}
	i := e.Idx
	if i < 0 {
		i += len(ret.Results)
	}
	if i < 0 || i >= len(ret.Results) {
		return false
	}
	return !globAny(e.Globs, Path(retOperand(ret, i)))
}

// AnyRet: every return.
type AnyRet struct{}

func (AnyRet) String() string { return "return" }
func (AnyRet) Match(in ssa.Instruction) bool {
	_, ok := in.(*ssa.Return)
	return ok
}

// StoreTo: a store whose address path matches Addr and (if set) value matches Val.
type StoreTo struct {
	Addr string
	Val  string
}

func (e StoreTo) String() string {
	if e.Val != "" {
		return e.Addr + " = " + e.Val
	}
	return e.Addr + " = …"
}
func (e StoreTo) Match(in ssa.Instruction) bool {
	switch st := in.(type) {
	case *ssa.Store:
		// the one initialising store of a read-only local is a name binding (the local renders as that value),
		// not a store to the location the value came from
		addr := ""
		if a, ok := st.Addr.(*ssa.Alloc); ok && inlineLocals && readOnlyInit(a) != nil && a.Comment != "" && !isParamName(a.Parent(), a.Comment) {
			// …so as a store target it is matched under its own name only
			addr = a.Comment
			if renameLocals {
				addr += "ʀ"
			}
		} else {
			addr = Path(st.Addr)
		}
		if !glob(e.Addr, addr) {
			return false
		}
		return e.Val == "" || glob(e.Val, Path(st.Val))
	case *ssa.MapUpdate:
		if !glob(e.Addr, Path(st.Map)+"["+Path(st.Key)+"]") {
			return false
		}
		return e.Val == "" || glob(e.Val, Path(st.Value))
	}
	return false
}

// CallTo: a call (plain, go or defer) whose rendered form "callee(args)" matches Glob.
type CallTo struct {
	Glob string
}

func (e CallTo) String() string { return "call " + e.Glob }
func (e CallTo) Match(in ssa.Instruction) bool {
	ci, ok := in.(ssa.CallInstruction)
	if !ok {
		return false
	}
	s := renderCall(ci.Common(), 0, nil)
	if glob(e.Glob, s) {
		return true
	}
	// allow matching by callee name alone
	return !strings.Contains(e.Glob, "(") && glob(e.Glob, calleeName(ci.Common()))
}

// InstrFn: arbitrary predicate.
type InstrFn struct {
	Name string
	F    func(in ssa.Instruction) bool
}

func (e InstrFn) String() string                { return e.Name }
func (e InstrFn) Match(in ssa.Instruction) bool { return e.F(in) }

// OneOf: union of effects.
type OneOf []Effect

func (e OneOf) String() string {
	var s []string
	for _, x := range e {
		s = append(s, x.String())
	}
	return strings.Join(s, " | ")
}
func (e OneOf) Match(in ssa.Instruction) bool {
	for _, x := range e {
		if x.Match(in) {
			return true
		}
	}
	return false
}

// ---------------------------------------------------------------------------
// Guards

// A guard spec is a disjunction ("A || B") of atoms; an atom is
//
//	"L op R" with operand globs, "X" (bool true), "!X" (bool false), or
//	"after: <call glob>"   — the path must pass the matching call instruction
//	                          (must-pass-through, for calls without a tested result).
type guardSpec struct {
	src    string
	atoms  []AtomSpec
	afters []string
}

func parseGuard(s string) guardSpec {
	g := guardSpec{src: s}
	for _, part := range splitTop(s, " || ") {
		if strings.HasPrefix(part, "after:") {
			g.afters = append(g.afters, strings.TrimSpace(strings.TrimPrefix(part, "after:")))
			continue
		}
		g.atoms = append(g.atoms, parseAtomSpec(part))
	}
	return g
}

type edge struct {
	from *ssa.BasicBlock
	succ int
}

// guardEdges finds the CFG edges of fn on which some atom of g is established.
func guardEdges(fn *ssa.Function, g guardSpec) (edges map[edge]bool, descr []string) {
	edges = map[edge]bool{}
	for _, b := range fn.Blocks {
		if len(b.Instrs) == 0 {
			continue
		}
		iff, ok := b.Instrs[len(b.Instrs)-1].(*ssa.If)
		if !ok {
			continue
		}
		for si, truth := range []bool{true, false} {
			a, ok := condAtom(iff.Cond, truth)
			if !ok {
				continue
			}
			for _, sp := range g.atoms {
				if sp.Satisfies(a) {
					edges[edge{b, si}] = true
					descr = append(descr, a.String())
				}
			}
		}
	}
	// plus the edges behind which a helper call has established g (`if err := validate(x); err != nil { return }`)
	if he, hd := helperGuardEdges(fn, g); len(he) > 0 {
		for e := range he {
			edges[e] = true
		}
		descr = append(descr, hd...)
	}
	// plus the edges on which g holds on every feasible traversal once merged conditions are resolved per path
	threadedGuardEdges(fn, g, edges, &descr)
	return
}

// barrierIndex: index of the first instruction in b matching one of the "after" call globs, or -1.
func barrierIndex(b *ssa.BasicBlock, afters []string) int {
	if len(afters) == 0 {
		return -1
	}
	for i, in := range b.Instrs {
		if ci, ok := in.(ssa.CallInstruction); ok {
			if _, isDefer := in.(*ssa.Defer); isDefer {
				continue
			}
			s := renderCall(ci.Common(), 0, nil)
			name := calleeName(ci.Common())
			for _, a := range afters {
				if glob(a, s) || (!strings.Contains(a, "(") && glob(a, name)) {
					return i
				}
			}
		}
	}
	return -1
}

// reachUnguarded computes, for each block, whether it can be entered from the
// function entry without crossing a removed edge or a barrier instruction, and
// for each such block the index before which instructions are unguarded.
func reachUnguarded(fn *ssa.Function, removed map[edge]bool, afters []string) map[*ssa.BasicBlock]int {
	// paths that a merged condition (bool / error phi) makes infeasible are not followed
	if limit := reachUnguardedThreaded(fn, removed, afters); limit != nil {
		return limit
	}
	return reachUnguardedPlain(fn, removed, afters)
}

func reachUnguardedPlain(fn *ssa.Function, removed map[edge]bool, afters []string) map[*ssa.BasicBlock]int {
	limit := map[*ssa.BasicBlock]int{} // block -> number of leading instrs reachable unguarded
	if len(fn.Blocks) == 0 {
		return limit
	}
	work := []*ssa.BasicBlock{fn.Blocks[0]}
	seen := map[*ssa.BasicBlock]bool{fn.Blocks[0]: true}
	for len(work) > 0 {
		b := work[len(work)-1]
		work = work[:len(work)-1]
		bi := barrierIndex(b, afters)
		if bi >= 0 {
			limit[b] = bi + 1 // the barrier call itself is still "before"
			continue
		}
		limit[b] = len(b.Instrs)
		for si, s := range b.Succs {
			if removed[edge{b, si}] {
				continue
			}
			if !seen[s] {
				seen[s] = true
				work = append(work, s)
			}
		}
	}
	return limit
}

func indexIn(b *ssa.BasicBlock, in ssa.Instruction) int {
	for i, x := range b.Instrs {
		if x == in {
			return i
		}
	}
	return -1
}

// GuardOpts tunes one guard rule.
type GuardOpts struct {
	AllowZero bool   // no matching effect is acceptable (otherwise undecided: vacuous)
	Closures  bool   // also look for effects/guards inside nested closures (each analysed on its own)
	Note      string // appended to the detail
}

// Guard decides: in fn, every instruction matching eff is reachable from the
// entry only through an edge on which one of the atoms of `guard` holds (or
// through one of its "after:" calls). Conjunctions are expressed by several
// guards: each becomes its own obligation.
func (c *Ctx) Guard(rule string, fn *ssa.Function, eff Effect, guards ...string) {
	c.GuardOpt(rule, fn, eff, GuardOpts{}, guards...)
}

func (c *Ctx) GuardOpt(rule string, fn *ssa.Function, eff Effect, opt GuardOpts, guards ...string) {
	if fn == nil {
		return
	}
	fname := c.P.Name(fn)
	c.FuncsAnalysed[fname] = true
	var effs []ssa.Instruction
	for _, b := range fn.Blocks {
		if b == fn.Recover {
			continue
		}
		for _, in := range b.Instrs {
			if eff.Match(in) {
				effs = append(effs, in)
			}
		}
	}
	mergedRets := false
	if _, isRetNil := eff.(RetNil); isRetNil && len(effs) == 0 {
		// no literal `return …, nil` (any more): the exits were merged into `return err`
		for _, b := range fn.Blocks {
			for _, in := range b.Instrs {
				if (retMaybeNil{}).Match(in) {
					effs = append(effs, in)
				}
			}
		}
		mergedRets = len(effs) > 0
	}
	// a result merged from several branches (`r := a; if c { r = b }; return r`, a named result): each incoming value
	// that matches the effect is a return of that value, made on the edge on which it enters the merge
	type phiRet struct {
		from *ssa.BasicBlock
		si   int
		pos  string
	}
	var phiRets []phiRet
	matchVal := func(v ssa.Value) (bool, bool) {
		switch e := eff.(type) {
		case Ret:
			return glob(e.Glob, Path(v)), true
		case RetNot:
			return !globAny(e.Globs, Path(v)), true
		}
		return false, false
	}
	retIdx := func(n int) int {
		i := 0
		switch e := eff.(type) {
		case Ret:
			i = e.Idx
		case RetNot:
			i = e.Idx
		}
		if i < 0 {
			i += n
		}
		return i
	}
	if _, isRetEff := matchVal(nil); isRetEff || true {
		if _, ok := matchValKind(eff); ok {
			for _, b := range fn.Blocks {
				if len(b.Instrs) == 0 {
					continue
				}
				ret, isRet := b.Instrs[len(b.Instrs)-1].(*ssa.Return)
				if !isRet {
					continue
				}
				i := retIdx(len(ret.Results))
				if i < 0 || i >= len(ret.Results) {
					continue
				}
				phi, isPhi := retOperand(ret, i).(*ssa.Phi)
				if !isPhi {
					continue
				}
				// the real return (rendered as phi(…)) is judged through its incoming values instead
				kept := effs[:0]
				for _, e := range effs {
					if e != ssa.Instruction(ret) {
						kept = append(kept, e)
					}
				}
				effs = kept
				for k, ev := range phi.Edges {
					if m, _ := matchVal(ev); !m {
						continue
					}
					pred := phi.Block().Preds[k]
					for si, sc := range pred.Succs {
						if sc == phi.Block() && predIndexOf(pred, si) == k {
							phiRets = append(phiRets, phiRet{pred, si, c.P.InstrPos(ret)})
						}
					}
				}
			}
		}
	}
	if len(effs) == 0 && len(phiRets) == 0 {
		// the effect may have been moved into a helper this function calls: the calls then stand for it
		if sites, via := helperEffectSites(fn, eff); len(sites) > 0 {
			effs = sites
			opt.Note += fmt.Sprintf(" (effect found in helper %s; its call sites are guarded here)", strings.Join(via, ", "))
		} else if sites, h := inlinedEffectSites(c.P, fn, eff); len(sites) > 0 {
			// …or the helper named by the rule was inlined here
			effs = sites
			opt.Note += fmt.Sprintf(" (%s is not called here but every effect of its body is present: treated as inlined)", h)
		}
	}
	if len(effs) == 0 && len(phiRets) == 0 {
		if !opt.AllowZero {
			c.add("guard", rule, fname+"#"+eff.String(), Undecided, c.P.Pos(fn.Pos()), "no instruction matches the effect (rule would be vacuous; the code moved or the effect shape changed)")
		}
		return
	}
	if st, ok := eff.(StoreTo); ok {
		lintOperand(fn, rule, st.Addr)
	}
	for _, gs := range guards {
		g := parseGuard(gs)
		lintGuard(fn, rule, g)
		limit, nremoved, descr := reachThreaded(fn, g)
		c.EdgesRemoved += nremoved
		removed := make([]struct{}, nremoved)
		var bad []string
		for _, e := range effs {
			b := e.Block()
			lim, ok := limit[b]
			if !ok {
				continue
			}
			if indexIn(b, e) < lim {
				bad = append(bad, c.P.InstrPos(e))
			}
		}
		if len(phiRets) > 0 {
			ge, _ := guardEdges(fn, g)
			pl := reachUnguarded(fn, ge, g.afters)
			for _, pr := range phiRets {
				if lim, ok := pl[pr.from]; ok && lim >= len(pr.from.Instrs) && !ge[edge{pr.from, pr.si}] {
					bad = append(bad, pr.pos)
				}
			}
		}
		if mergedRets && len(bad) > 0 {
			// judge each merged return per path: it counts only where the returned error may be nil
			if mb, ok := mergedSuccessReturns(c.P, fn, g, effs); ok {
				bad = mb
			}
		}
		construct := fname + "#" + eff.String() + "⇐" + gs
		if len(bad) > 0 && len(phiRets) == 0 && strictSplitHolds(fn, g, effs) {
			// `x > y` written as `if x != y { if x < y { … } … }`: the strict fact is the conjunction of ≥ and ≠
			bad = nil
			descr = append(descr, "strict comparison established as ≥ and ≠ on every path")
		}
		if len(bad) == 0 {
			hpos := c.P.Pos(fn.Pos())
			if len(effs) > 0 {
				hpos = c.P.InstrPos(effs[0])
			}
			c.add("guard", rule, construct, Held, hpos,
				fmt.Sprintf("%d effect site(s) + %d merged-result edge(s); %d guard edge(s) removed [%s]; no unguarded path from entry%s", len(effs), len(phiRets), len(removed), strings.Join(dedup(descr), "; "), opt.Note))
		} else {
			why := "an entry→effect path avoids every matching guard edge"
			if len(removed) == 0 && len(g.afters) == 0 {
				why = "no branch in the function establishes the required fact"
			}
			c.add("guard", rule, construct, Violated, bad[0],
				fmt.Sprintf("effect %q in %s reachable without guard %q at %s: %s", eff.String(), fname, gs, strings.Join(bad, ", "), why))
		}
	}
}

func dedup(in []string) []string {
	seen := map[string]bool{}
	var out []string
	for _, s := range in {
		if !seen[s] {
			seen[s] = true
			out = append(out, s)
		}
	}
	if len(out) > 6 {
		out = append(out[:6], "…")
	}
	return out
}

// ---------------------------------------------------------------------------
// RetTrue: "bool result idx can be true only if guard"

// GuardTrue decides: result idx of fn can be true only when guard holds. It
// understands `return a == b && c == d` (phi of short-circuit blocks) and
// explicit `return true` behind branches.
func (c *Ctx) GuardTrue(rule string, fn *ssa.Function, idx int, guards ...string) {
	if fn == nil {
		return
	}
	fname := c.P.Name(fn)
	c.FuncsAnalysed[fname] = true
	for _, gs := range guards {
		g := parseGuard(gs)
		lintGuard(fn, rule, g)
		removed, _ := guardEdges(fn, g)
		c.EdgesRemoved += len(removed)
		limit := reachUnguarded(fn, removed, g.afters)
		reachableEdge := func(from, to *ssa.BasicBlock) bool {
			if _, ok := limit[from]; !ok {
				return false
			}
			if limit[from] < len(from.Instrs) {
				return false
			}
			for si, s := range from.Succs {
				if s == to && !removed[edge{from, si}] {
					return true
				}
			}
			return false
		}
		var bad []string
		nret := 0
		var maybeTrue func(v ssa.Value, seen map[ssa.Value]bool) bool
		maybeTrue = func(v ssa.Value, seen map[ssa.Value]bool) bool {
			switch x := v.(type) {
			case *ssa.Const:
				return constString(x) == "true"
			case *ssa.Phi:
				if seen[x] {
					return false
				}
				seen[x] = true
				for i, e := range x.Edges {
					if !reachableEdge(x.Block().Preds[i], x.Block()) {
						continue
					}
					if maybeTrue(e, seen) {
						return true
					}
				}
				return false
			}
			if a, ok := condAtom(v, true); ok {
				for _, sp := range g.atoms {
					if sp.Satisfies(a) {
						return false // the value is the guard itself
					}
				}
			}
			return true
		}
		for _, b := range fn.Blocks {
			if _, ok := limit[b]; !ok || limit[b] < len(b.Instrs) {
				continue
			}
			ret, ok := b.Instrs[len(b.Instrs)-1].(*ssa.Return)
			if !ok {
				continue
			}
			i := idx
			if i < 0 {
				i += len(ret.Results)
			}
			if i < 0 || i >= len(ret.Results) {
				continue
			}
			nret++
			if maybeTrue(retOperand(ret, i), map[ssa.Value]bool{}) {
				bad = append(bad, c.P.InstrPos(ret))
			}
		}
		construct := fmt.Sprintf("%s#result[%d]=true⇐%s", fname, idx, gs)
		if len(bad) == 0 {
			c.add("guard", rule, construct, Held, c.P.Pos(fn.Pos()), fmt.Sprintf("result can be true only behind the guard (%d guard edge(s) removed, %d reachable return(s) left, all false or the guard itself)", len(removed), nret))
		} else {
			c.add("guard", rule, construct, Violated, bad[0], fmt.Sprintf("%s can return true without %q (returns at %s)", fname, gs, strings.Join(bad, ", ")))
		}
	}
}

func matchValKind(eff Effect) (string, bool) {
	switch eff.(type) {
	case Ret:
		return "ret", true
	case RetNot:
		return "retnot", true
	}
	return "", false
}
