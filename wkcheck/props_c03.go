package main

import (
	"fmt"
	"go/types"
	"strings"

	"golang.org/x/tools/go/ssa"
)

func init() {
	register(&PropSpec{
		ID:        "C03",
		Pkgs:      []string{"./pkg/channel/replication", "./pkg/db/message"},
		Technique: "static analysis: SSA edge-dominance guards on the retry / conflict / exact-replay paths + stored-value shape (depends-only) of the sealed range + who-may-write confinement + lock-set (guarded-by) analysis",
		Explain: "Decides the structural clauses of exact, retry-stable receipts: (1) in quorumLog.Commit a retained or pending hit leads to a receipt or a retry only behind sameProposalContent (else ErrLogConflict), a new proposal is sealed only when the command is neither retained nor pending and state.pending == nil, and the durable-index fallback (reconcileCommandConflict / loadRetainedProposal) returns a receipt only behind found, identical content, command id, authority triple, LastOffset <= hw and a re-sealed manifest equal to the stored one; (2) sealBusinessProposal derives BaseOffset/PreviousIndex/first only from frontier.LEO and LastOffset/last only from frontier.LEO + len(records) behind the overflow checks, and finishCommit publishes frontier.LEO, hw and the receipt range only from the sealed proposal's first/last; (3) frontier, hw, pending, retained and order are written only by Install, fenceQuorumChannel, Commit, finishCommit and remember; (4) every access to those fields happens with the channel mutex held (helpers are analysed as caller-holds-lock and every call site is checked), quorumLog.channels under l.mu; (5) MessageDB exact-base mode reports a gap when the expected base is above the log end, marks AlreadyDurable only for a command whose stored manifest (by command and by last offset) and every entry identity are identical and already below the log end, and stages new rows only for an unknown command exactly at the log end. " +
			"NOT decided: that the ranges handed out over a whole history are numerically contiguous and non-overlapping (follows from (2)+(3)+(4) only by an inductive argument that is not mechanised here), eviction/restart stability as behaviour, collision resistance of the manifest digest, correctness of SealProposalManifest itself.",
		Run: c03,
		Mutants: []Mutant{
			{Name: "retained-hit-skips-content-check", File: "pkg/channel/replication/quorum_log.go",
				Old: "\t\tif !sameProposalContent(retained.proposal, proposal.Records) {\n\t\t\treturn Receipt{}, ch.ErrLogConflict\n\t\t}\n", New: "", Expect: "C03/R1-retry*"},
			{Name: "pending-hit-skips-content-check", File: "pkg/channel/replication/quorum_log.go",
				Old: "\t\tif !sameProposalContent(state.pending.proposal, proposal.Records) {\n\t\t\treturn Receipt{}, ch.ErrLogConflict\n\t\t}\n", New: "", Expect: "C03/R1-retry*"},
			{Name: "seal-while-pending", File: "pkg/channel/replication/quorum_log.go",
				Old: "\tif state.pending != nil {\n\t\treturn Receipt{}, ch.ErrBackpressured\n\t}\n", New: "", Expect: "C03/R1-retry*"},
			{Name: "reconcile-accepts-different-content", File: "pkg/channel/replication/quorum_log.go",
				Old: "if !found || !sameProposalContent(loaded.proposal, proposal.Records) {", New: "if !found {", Expect: "C03/R1-retry*"},
			{Name: "load-retained-ignores-term", File: "pkg/channel/replication/quorum_log.go",
				Old: "manifest.ChannelEpoch != state.authority.ID.ChannelEpoch || manifest.LeaderTerm != state.authority.ID.LeaderTerm ||", New: "manifest.ChannelEpoch != state.authority.ID.ChannelEpoch ||", Expect: "C03/R1-retry*"},
			{Name: "load-retained-above-hw", File: "pkg/channel/replication/quorum_log.go",
				Old: "manifest.CommandID != command || manifest.LastOffset > state.hw ||", New: "manifest.CommandID != command ||", Expect: "C03/R1-retry*"},
			{Name: "same-content-length-only", File: "pkg/channel/replication/quorum_log.go",
				Old: "\treturn ok && manifest == retained.manifest\n", New: "\treturn ok && manifest.CommandID == retained.manifest.CommandID\n", Expect: "C03/R1-retry*"},
			{Name: "seal-base-from-hw", File: "pkg/channel/replication/quorum_log.go",
				Old: "CommandID: command, BaseOffset: frontier.LEO, LastOffset: frontier.LEO + uint64(len(frozen)),", New: "CommandID: command, BaseOffset: hw, LastOffset: frontier.LEO + uint64(len(frozen)),", Expect: "C03/R2-range*"},
			{Name: "seal-first-off-by-one", File: "pkg/channel/replication/quorum_log.go",
				Old: "\t\tfirst: frontier.LEO + 1, last: manifest.LastOffset,\n\t\tchannelKey: authority.Key, channelID: authority.ChannelID, leader: authority.Leader,\n\t\tmanifest: manifest, records: frozen, committed: hw,", New: "\t\tfirst: frontier.LEO, last: manifest.LastOffset,\n\t\tchannelKey: authority.Key, channelID: authority.ChannelID, leader: authority.Leader,\n\t\tmanifest: manifest, records: frozen, committed: hw,", Expect: "C03/R2-range*"},
			{Name: "finish-hw-from-first", File: "pkg/channel/replication/quorum_log.go",
				Old: "\tstate.hw = proposal.last\n", New: "\tstate.hw = proposal.first\n", Expect: "C03/R2-range*"},
			{Name: "finish-receipt-last-from-hw", File: "pkg/channel/replication/quorum_log.go",
				Old: "First: proposal.first, Last: proposal.last, HW: proposal.last,", New: "First: proposal.first, Last: state.hw, HW: proposal.last,", Expect: "C03/R2-range*"},
			{Name: "reconcile-advances-frontier", File: "pkg/channel/replication/quorum_log.go",
				Old: "\tl.remember(state, loaded)\n\treturn loaded.receipt, nil", New: "\tl.remember(state, loaded)\n\tstate.hw = loaded.receipt.HW\n\treturn loaded.receipt, nil", Expect: "C03/R3-writers*"},
			{Name: "retained-written-in-commit", File: "pkg/channel/replication/quorum_log.go",
				Old: "\tpending := retainedProposal{proposal: durable}\n\tstate.pending = &pending\n", New: "\tpending := retainedProposal{proposal: durable}\n\tstate.pending = &pending\n\tstate.retained[proposal.CommandID] = pending\n", Expect: "C03/R3-writers*"},
			{Name: "commit-reads-ready-before-lock", File: "pkg/channel/replication/quorum_log.go",
				Old: "\tstate.mu.Lock()\n\tdefer state.mu.Unlock()\n\tif !state.ready {\n\t\treturn Receipt{}, ch.ErrNotReady\n\t}\n", New: "\tif !state.ready {\n\t\treturn Receipt{}, ch.ErrNotReady\n\t}\n\tstate.mu.Lock()\n\tdefer state.mu.Unlock()\n", Expect: "C03/R4-locks*"},
			{Name: "existing-channel-unlocked", File: "pkg/channel/replication/quorum_log.go",
				Old: "func (l *quorumLog) existingChannel(key ch.ChannelKey) *quorumChannel {\n\tl.mu.Lock()\n\tdefer l.mu.Unlock()\n", New: "func (l *quorumLog) existingChannel(key ch.ChannelKey) *quorumChannel {\n", Expect: "C03/R4-locks*"},
			{Name: "exact-gap-accepted", File: "pkg/db/message/compat.go",
				Old: "\tif expectedBaseOffset > base {\n\t\treturn preparedCommitRows{}, &exactAppendGapError{needFrom: base + 1}\n\t}\n", New: "", Expect: "C03/R5-exactbase*"},
			{Name: "exact-replay-ignores-bycommand-mismatch", File: "pkg/db/message/compat.go",
				Old: "if !commandPresent || !lastPresent || !sameDurableProposal(byCommand, proposal) || !sameDurableProposal(byLast, proposal) {\n\t\t\t\treturn preparedCommitRows{}, channel.ErrCorruptState\n\t\t\t}\n\t\t}\n\t\tif err := s.validateDurableEntrySet", New: "if !commandPresent || !lastPresent || !sameDurableProposal(byCommand, byCommand) || !sameDurableProposal(byLast, proposal) {\n\t\t\t\treturn preparedCommitRows{}, channel.ErrCorruptState\n\t\t\t}\n\t\t}\n\t\tif err := s.validateDurableEntrySet", Expect: "C03/R5-exactbase*"},
			{Name: "exact-replay-skips-entry-set", File: "pkg/db/message/compat.go",
				Old: "\t\tif err := s.validateDurableEntrySet(entries, commandPresent); err != nil {\n\t\t\treturn preparedCommitRows{}, toChannelError(err)\n\t\t}\n", New: "", Expect: "C03/R5-exactbase*"},
			{Name: "exact-new-rows-inside-log", File: "pkg/db/message/compat.go",
				Old: "\tif base >= nextLEO {\n\t\treturn preparedCommitRows{}, channel.ErrCorruptState\n\t}\n\n\tif err := s.validateRowsForAppendSeen", New: "\tif err := s.validateRowsForAppendSeen", Expect: "C03/R5-exactbase*"},
			{Name: "exact-already-durable-above-log-end", File: "pkg/db/message/compat.go",
				Old: "\t\tif base < nextLEO {\n\t\t\treturn preparedCommitRows{}, channel.ErrCorruptState\n\t\t}\n\t\tprepared.alreadyDurable = true", New: "\t\tprepared.alreadyDurable = true", Expect: "C03/R5-exactbase*"},
		},
	})
}

// c03FieldStore: effect matching a store to the struct field "pkg/path.T.F",
// resolved by *types.Var (the base object's name does not matter).
func c03FieldStore(c *Ctx, q, val string) Effect {
	fv := c.Field(q)
	name := "store " + q[strings.LastIndex(q, "/")+1:]
	if val != "" {
		name += " = " + val
	}
	return InstrFn{Name: name, F: func(in ssa.Instruction) bool {
		if fv == nil {
			return false
		}
		st, ok := in.(*ssa.Store)
		if !ok {
			return false
		}
		fa, ok := st.Addr.(*ssa.FieldAddr)
		if !ok || fieldVar(fa.X.Type(), fa.Field) != fv {
			return false
		}
		return val == "" || glob(val, Path(st.Val))
	}}
}

// c03Resolved renders a value like Path, except that a field chain rooted at a
// plain local struct variable that is assigned exactly once (`proposal :=
// retained.proposal`) is rendered through its single source
// (`retained.proposal.last`), so rule tables need not mention local names.
func c03Resolved(v ssa.Value) string {
	var chain []string
	cur := v
	for depth := 0; depth < 16; depth++ {
		switch x := cur.(type) {
		case *ssa.UnOp:
			if x.Op.String() == "*" {
				cur = x.X
				continue
			}
		case *ssa.FieldAddr:
			chain = append(chain, fieldName(x.X.Type(), x.Field))
			cur = x.X
			continue
		case *ssa.Field:
			chain = append(chain, fieldName(x.X.Type(), x.Field))
			cur = x.X
			continue
		case *ssa.Alloc:
			if spilledParam(x) == nil && x.Referrers() != nil {
				var src ssa.Value
				n, escapes := 0, false
				for _, r := range *x.Referrers() {
					switch rr := r.(type) {
					case *ssa.Store:
						if rr.Addr == ssa.Value(x) {
							n++
							src = rr.Val
						} else {
							escapes = true
						}
					case *ssa.MakeClosure, *ssa.Call:
						escapes = true
					}
				}
				if n == 1 && !escapes {
					switch src.(type) {
					case *ssa.UnOp, *ssa.Extract, *ssa.Call:
						cur = src
						continue
					}
				}
			}
		}
		break
	}
	s := Path(cur)
	if cur == v {
		return s
	}
	for i := len(chain) - 1; i >= 0; i-- {
		s += "." + chain[i]
	}
	return s
}

// c03StoreResolved: every store in fn matching eff stores a value whose resolved rendering matches one of shapes.
func c03StoreResolved(c *Ctx, rule string, fn *ssa.Function, eff Effect, shapes ...string) {
	if fn == nil {
		return
	}
	fname := c.P.Name(fn)
	construct := fname + "#value-of:" + eff.String()
	ins := instrsMatching(fn, eff)
	if len(ins) == 0 {
		c.add("shape", rule, construct, Undecided, c.P.Pos(fn.Pos()), "no store matches (vacuous)")
		return
	}
	var bad []string
	for _, in := range ins {
		st, ok := in.(*ssa.Store)
		if !ok {
			continue
		}
		if r := c03Resolved(st.Val); !globAny(shapes, r) {
			bad = append(bad, r+" at "+c.P.InstrPos(in))
		}
	}
	if len(bad) > 0 {
		c.add("shape", rule, construct, Violated, c.P.InstrPos(ins[0]), fmt.Sprintf("stored value is not of the required origin %v: %s", shapes, strings.Join(bad, "; ")))
		return
	}
	c.add("shape", rule, construct, Held, c.P.InstrPos(ins[0]), fmt.Sprintf("%d store(s), each value originates from %v", len(ins), shapes))
}

// c03PhiEdges: the true edge of `if phi(false|X|…)` (a bool accumulated across
// branches: `present := false; if …{ present = X }` or `a && b` bound to a
// variable) establishes an atom when every operand of the phi that is not the
// constant false establishes it. Sound: a true phi took one of those operands.
func c03PhiEdges(fn *ssa.Function, g guardSpec) map[edge]bool {
	out := map[edge]bool{}
	for _, b := range fn.Blocks {
		if len(b.Instrs) == 0 {
			continue
		}
		iff, ok := b.Instrs[len(b.Instrs)-1].(*ssa.If)
		if !ok {
			continue
		}
		phi, ok := iff.Cond.(*ssa.Phi)
		if !ok {
			continue
		}
		n, all := 0, true
		for _, e := range phi.Edges {
			if k, ok := e.(*ssa.Const); ok && constString(k) == "false" {
				continue
			}
			n++
			a, ok := condAtom(e, true)
			sat := false
			if ok {
				for _, sp := range g.atoms {
					if sp.Satisfies(a) {
						sat = true
					}
				}
			}
			if !sat {
				all = false
			}
		}
		if n > 0 && all {
			out[edge{b, 0}] = true
		}
	}
	return out
}

// c03Guard is Ctx.Guard plus the phi-accumulated-bool edges of c03PhiEdges.
func c03Guard(c *Ctx, rule string, fn *ssa.Function, eff Effect, guards ...string) {
	if fn == nil {
		return
	}
	fname := c.P.Name(fn)
	c.FuncsAnalysed[fname] = true
	effs := instrsMatching(fn, eff)
	if len(effs) == 0 {
		c.add("guard", rule, fname+"#"+eff.String(), Undecided, c.P.Pos(fn.Pos()), "no instruction matches the effect (vacuous; code moved or the effect shape changed)")
		return
	}
	for _, gs := range guards {
		g := parseGuard(gs)
		removed, descr := guardEdges(fn, g)
		nphi := 0
		for e := range c03PhiEdges(fn, g) {
			if !removed[e] {
				removed[e] = true
				nphi++
			}
		}
		c.EdgesRemoved += len(removed)
		limit := reachUnguarded(fn, removed, g.afters)
		var bad []string
		for _, e := range effs {
			b := e.Block()
			if lim, ok := limit[b]; ok && indexIn(b, e) < lim {
				bad = append(bad, c.P.InstrPos(e))
			}
		}
		construct := fname + "#" + eff.String() + "⇐" + gs
		if len(bad) == 0 {
			c.add("guard", rule, construct, Held, c.P.InstrPos(effs[0]), fmt.Sprintf("%d effect site(s); %d guard edge(s) removed (%d through an accumulated bool) [%s]; no unguarded path from entry", len(effs), len(removed), nphi, strings.Join(dedup(descr), "; ")))
		} else {
			c.add("guard", rule, construct, Violated, bad[0], fmt.Sprintf("effect %q in %s reachable without guard %q at %s", eff.String(), fname, gs, strings.Join(bad, ", ")))
		}
	}
}

// c03MapWriters: map updates / deletes on a map held in struct field q happen only in allowed functions.
func c03MapWriters(c *Ctx, rule, q string, min int, allowed ...string) {
	fv := c.Field(q)
	if fv == nil {
		return
	}
	isField := func(v ssa.Value) bool {
		u, ok := v.(*ssa.UnOp)
		if !ok {
			return false
		}
		fa, ok := u.X.(*ssa.FieldAddr)
		return ok && fieldVar(fa.X.Type(), fa.Field) == fv
	}
	n := 0
	var bad []string
	badPos := ""
	where := map[string]int{}
	for _, fn := range c.P.AllFuncs {
		for _, b := range fn.Blocks {
			for _, in := range b.Instrs {
				hit := false
				switch x := in.(type) {
				case *ssa.MapUpdate:
					hit = isField(x.Map)
				case *ssa.Call:
					if bi, ok := x.Call.Value.(*ssa.Builtin); ok && (bi.Name() == "delete" || bi.Name() == "clear") && len(x.Call.Args) > 0 {
						hit = isField(x.Call.Args[0])
					}
				}
				if !hit {
					continue
				}
				n++
				name := c.P.Name(fn)
				where[name]++
				if !globAny(allowed, name) {
					bad = append(bad, name+" at "+c.P.InstrPos(in))
					if badPos == "" {
						badPos = c.P.InstrPos(in)
					}
				}
			}
		}
	}
	construct := "mapwrites:" + q
	switch {
	case len(bad) > 0:
		c.add("confine", rule, construct, Violated, badPos, fmt.Sprintf("map %s is updated outside %v: %s", q, allowed, strings.Join(bad, "; ")))
	case n < min:
		c.add("confine", rule, construct, Undecided, "", fmt.Sprintf("%d map write(s) found, hand-confirmed minimum %d", n, min))
	default:
		c.add("confine", rule, construct, Held, "", fmt.Sprintf("%d map write(s), all inside %v: %s", n, allowed, countsString(where)))
	}
}

func c03(c *Ctx) {
	const R = "pkg/channel/replication."
	const M = "pkg/db/message."

	// ---- R1: retry / conflict discipline
	commit := c.Fn(R + "quorumLog.Commit")
	same := "*sameProposalContent(*, proposal.Records) == true"
	hit := "*.retained[proposal.CommandID]#1 == true || *.pending.proposal.manifest.CommandID == proposal.CommandID"
	c.Guard("R1-retry", commit, OneOf{RetNil{}, CallTo{R + "quorumLog.retryPending"}}, same, hit)
	c.Guard("R1-retry", commit, RetNil{}, "*.durable == true")
	c.Guard("R1-retry", commit, Ret{Idx: 0, Glob: "*.receipt"}, "*.retained[proposal.CommandID]#1 == true")
	newProposal := OneOf{CallTo{R + "sealBusinessProposal"}, c03FieldStore(c, R+"quorumChannel.pending", ""), CallTo{R + "runDurableRound"}, CallTo{R + "quorumLog.finishCommit"}}
	c.Guard("R1-retry", commit, newProposal,
		"*.pending == nil",
		"*.retained[proposal.CommandID]#1 == false",
	)
	c.Guard("R1-retry", commit, CallTo{R + "runDurableRound"}, "*sealBusinessProposal(*)#1 == nil")
	conflict := c03ConstOf(c, "pkg/quorumlog", "AppendOutcomeConflict")
	c.Guard("R1-retry", commit, CallTo{R + "quorumLog.reconcileCommandConflict"}, "*.outcome == "+conflict, "*runDurableRound(*)#1 != nil")
	c.CallShape("R1-retry", commit, R+"quorumLog.reconcileCommandConflict", R+"quorumLog.reconcileCommandConflict(l, ctx, *, proposal)")
	c.CallShape("R1-retry", commit, R+"sameProposalContent", R+"sameProposalContent(*.proposal, proposal.Records)")

	reconcile := c.Fn(R + "quorumLog.reconcileCommandConflict")
	c.Guard("R1-retry", reconcile, OneOf{RetNil{}, CallTo{R + "quorumLog.remember"}},
		"*loadRetainedProposal(l, ctx, state, proposal.CommandID)#2 == nil",
		"*loadRetainedProposal(l, ctx, state, proposal.CommandID)#1 == true",
		"*sameProposalContent(*.proposal, proposal.Records) == true",
	)
	c03StoreResolved(c, "R1-retry", reconcile, StoreTo{Addr: "*", Val: "*loadRetainedProposal(*)#0"}, "*loadRetainedProposal(l, ctx, state, proposal.CommandID)#0")

	load := c.Fn(R + "quorumLog.loadRetainedProposal")
	found := Ret{Idx: 1, Glob: "true"}
	c.Guard("R1-retry", load, found,
		"len(*LookupCommands(*)) == 1",
		"*.Err == nil",
		"*.Found == true",
		"*ProposalManifest.StructurallyValid(*) == true",
		"*.CommandID == command",
		"*.LastOffset <= state.hw",
		"*.ChannelEpoch == state.authority.ID.ChannelEpoch",
		"*.LeaderTerm == state.authority.ID.LeaderTerm",
		"*.FenceVersion == state.authority.ID.FenceVersion",
		"*SealProposalManifest(*)#2 == true",
		"*SealProposalManifest(*)#0 == *",
		"len(*SealProposalManifest(*)#1) != 0",
	)
	c.Guard("R1-retry", load, RetNil{}, "*.Found == false || *SealProposalManifest(*)#2 == true")
	c.StoreShape("R1-retry", load, "alloc:CommandLookup.CommandID", "command")
	c.StoreShape("R1-retry", load, "alloc:Receipt.First", "(*.BaseOffset + 1)")
	c.StoreShape("R1-retry", load, "alloc:Receipt.Last", "*.LastOffset")
	c.StoreShape("R1-retry", load, "alloc:Receipt.HW", "*.LastOffset")
	c.StoreShape("R1-retry", load, "alloc:Receipt.CommandID", "command")

	sameFn := c.Fn(R + "sameProposalContent")
	c.GuardTrue("R1-retry", sameFn, 0,
		"len(records) == len(retained.records)",
		"*SealProposalManifest(retained.manifest, records)#2 == true",
		"*SealProposalManifest(*)#0 == retained.manifest",
	)
	c.Min("R1-retry", 36)

	// ---- R2: the range is fixed from the frontier only, and published from the sealed proposal only
	seal := c.Fn(R + "sealBusinessProposal")
	frozen := "*cloneRecords(records)"
	for _, kv := range [][2]string{
		{"alloc:ProposalManifest.BaseOffset", "frontier.LEO"},
		{"alloc:ProposalManifest.PreviousIndex", "frontier.LEO"},
		{"alloc:ProposalManifest.LastOffset", "(frontier.LEO + len(" + frozen + "))"},
		{"alloc:ProposalManifest.PreviousTerm", "frontier.TailIdentity.LeaderTerm"},
		{"alloc:ProposalManifest.PreviousDigest", "frontier.TailIdentity.Digest"},
		{"alloc:ProposalManifest.CommandID", "command"},
		{"alloc:ProposalManifest.ChannelEpoch", "authority.ID.ChannelEpoch"},
		{"alloc:ProposalManifest.LeaderTerm", "authority.ID.LeaderTerm"},
		{"alloc:ProposalManifest.FenceVersion", "authority.ID.FenceVersion"},
		{"alloc:durableProposal.first", "(frontier.LEO + 1)"},
		{"alloc:durableProposal.records", frozen},
		{"alloc:durableProposal.committed", "hw"},
	} {
		c.StoreShape("R2-range", seal, kv[0], kv[1])
	}
	c03StoreResolved(c, "R2-range", seal, StoreTo{Addr: "alloc:durableProposal.last"}, "*SealProposalManifest(alloc:ProposalManifest, "+frozen+")#0.LastOffset")
	c03StoreResolved(c, "R2-range", seal, StoreTo{Addr: "alloc:durableProposal.manifest"}, "*SealProposalManifest(alloc:ProposalManifest, "+frozen+")#0")
	c.CallShape("R2-range", seal, "pkg/channel.SealProposalManifest", "pkg/channel.SealProposalManifest(alloc:ProposalManifest, "+frozen+")")
	c.Guard("R2-range", seal, RetNil{},
		"*SealProposalManifest(*)#2 == true",
		"len(*SealProposalManifest(*)#1) == len("+frozen+")",
		"frontier.LEO != 18446744073709551615",
		"len(records) <= (18446744073709551615 - frontier.LEO)",
	)
	c.CallShape("R2-range", commit, R+"sealBusinessProposal", R+"sealBusinessProposal(*.authority, *.frontier, *.hw, proposal.CommandID, proposal.Records, proposal.ServerAllocatedMessageIDs)")
	finish := c.Fn(R + "quorumLog.finishCommit")
	for _, kv := range [][2]string{
		{"alloc:Receipt.First", "retained.proposal.first"},
		{"alloc:Receipt.Last", "retained.proposal.last"},
		{"alloc:Receipt.HW", "retained.proposal.last"},
		{"alloc:Receipt.CommandID", "retained.proposal.manifest.CommandID"},
		{"alloc:Receipt.Authority", "state.authority.ID"},
		{"alloc:ReplicaState.LEO", "retained.proposal.last"},
		{"alloc:ReplicaState.Committed", "retained.proposal.committed"},
		{"alloc:ReplicaState.Manifest", "retained.proposal.manifest"},
		{"state.hw", "retained.proposal.last"},
		{"state.frontier", "alloc:ReplicaState"},
	} {
		c03StoreResolved(c, "R2-range", finish, StoreTo{Addr: kv[0]}, kv[1])
	}
	c.Guard("R2-range", finish, RetNil{}, "*SealProposalManifest(*)#2 == true", "len(*SealProposalManifest(*)#1) != 0")
	c.Min("R2-range", 32)

	// ---- R3: who may write the sequencer state
	c.ConfineStores("R3-writers", R+"quorumChannel.frontier", true, R+"quorumLog.Install", R+"fenceQuorumChannel", R+"quorumLog.finishCommit")
	c.ConfineStores("R3-writers", R+"quorumChannel.hw", true, R+"quorumLog.Install", R+"fenceQuorumChannel", R+"quorumLog.finishCommit")
	c.ConfineStores("R3-writers", R+"quorumChannel.pending", true, R+"quorumLog.Install", R+"fenceQuorumChannel", R+"quorumLog.Commit", R+"quorumLog.finishCommit")
	c.ConfineStores("R3-writers", R+"quorumChannel.retained", true, R+"quorumLog.Install", R+"fenceQuorumChannel")
	c.ConfineStores("R3-writers", R+"quorumChannel.order", true, R+"quorumLog.Install", R+"fenceQuorumChannel", R+"quorumLog.remember")
	c03MapWriters(c, "R3-writers", R+"quorumChannel.retained", 3, R+"quorumLog.remember")
	c03MapWriters(c, "R3-writers", R+"quorumLog.channels", 1, R+"quorumLog.channel")
	// remember keys the cache by the proposal's own command id, evicts only the oldest entry
	remember := c.Fn(R + "quorumLog.remember")
	c.Guard("R3-writers", remember, CallTo{"delete"}, "len(state.order) == l.cfg.MaxRetainedCommands", "state.retained[retained.proposal.manifest.CommandID]#1 == false")
	c.CallShape("R3-writers", remember, "delete", "delete(state.retained, state.order[0])")
	c.Min("R3-writers", 9)

	// ---- R4: guarded-by
	c.Lockset("R4-locks", LockSpec{
		Struct: R + "quorumChannel", Mutex: "mu",
		Fields:   []string{"authority", "frontier", "hw", "ready", "pending", "retained", "order"},
		ReadsToo: true,
		AssumeHeld: []string{ // called only with state.mu held by Install/Commit; every call site is checked
			R + "fenceQuorumChannel", R + "quorumLog.retryPending", R + "quorumLog.finishCommit", R + "quorumLog.remember",
			R + "quorumLog.reconcileCommandConflict", R + "quorumLog.loadRetainedProposal",
		},
	})
	c.Lockset("R4-locks", LockSpec{Struct: R + "quorumLog", Mutex: "mu", Fields: []string{"channels"}, ReadsToo: true,
		Exempt: []string{R + "newQuorumLog"}}) // constructor: the object has not escaped yet
	c.Min("R4-locks", 2)

	// ---- R5: MessageDB exact-base mode
	prep := c.Fn(M + "ChannelStore.prepareExactAppendRecordsLocked")
	leo := "*loadLEOLocked(*)#0"
	next := "(expectedBaseOffset + len(records))"
	byCmd := "*loadDurableProposal(s, *encodeProposalByCommandKey(*))"
	byLast := "*loadDurableProposal(s, *encodeProposalByLastKey(*))"
	fresh := "expectedBaseOffset == " + leo // sequencedFresh (accumulated bool)
	c03Guard(c, "R5-exactbase", prep, RetNil{},
		"expectedBaseOffset <= "+leo, // gap ⇒ exactAppendGapError
		"*validateDurableProposalManifest(manifest, expectedBaseOffset, len(records)) == nil",
		"*deriveDurableProposalEntries(*)#1 == true",
		"*.Digest == manifest.Digest",
		"*validateDurableProposalPredecessor(s, manifest) == nil",
		"*prepareExactCheckpointLocked(*) == nil",
		"*validateDurableEntrySet(*) == nil || "+fresh,
	)
	already := c03FieldStore(c, M+"preparedCommitRows.alreadyDurable", "true")
	c03Guard(c, "R5-exactbase", prep, already,
		byCmd+"#1 == true",
		leo+" >= "+next,
		"*sameDurableProposal("+byCmd+"#0, alloc:durableProposalRecord) == true || "+byCmd+"#1 == false || "+fresh,
		"*sameDurableProposal("+byLast+"#0, alloc:durableProposalRecord) == true || "+byCmd+"#1 == false || "+fresh,
	)
	rows := c03FieldStore(c, M+"preparedCommitRows.rows", "")
	c03Guard(c, "R5-exactbase", prep, rows,
		leo+" < "+next,
		leo+" >= expectedBaseOffset",
		leo+" <= expectedBaseOffset || "+leo+" >= "+next,
		"*validateRowsForAppendSeen(*) == nil",
	)
	c.StoreShape("R5-exactbase", prep, "alloc:preparedCommitRows.nextLEO", next)
	c.StoreShape("R5-exactbase", prep, "alloc:preparedCommitRows.baseOffset", "expectedBaseOffset")
	c.CallShape("R5-exactbase", prep, M+"compatibilityRowsFromRecords", M+"compatibilityRowsFromRecords((expectedBaseOffset + 1), records)")
	c.ConfineStores("R5-exactbase", M+"preparedCommitRows.alreadyDurable", true,
		M+"ChannelStore.prepareExactAppendRecordsLocked", M+"ChannelStore.prepareStagedExactReplayLocked")
	c.Min("R5-exactbase", 19)
}

// c03ConstOf renders a package-level constant the way Path renders it.
func c03ConstOf(c *Ctx, pkg, name string) string {
	for _, sp := range c.P.SSA.AllPackages() {
		if shortPkg(sp.Pkg.Path()) != pkg {
			continue
		}
		if k, ok := sp.Pkg.Scope().Lookup(name).(*types.Const); ok {
			return k.Val().ExactString()
		}
	}
	c.add("anchor", "anchor", pkg+"."+name, Undecided, "", "constant not found")
	return "<missing:" + name + ">"
}
