package main

import (
	"fmt"
	"go/ast"
	"go/types"
	"strings"

	"golang.org/x/tools/go/packages"
)

// Sequence-style codecs: the encoder is a chain `dst = appendX(dst, msg.F)`, the
// decoder a chain `v, ok := cursor.x()` followed by a composite literal that maps
// the locals to fields. seqItem is one primitive in source order.
type seqItem struct {
	Tok   string
	Field string
	Depth int // loop nesting depth
	Pos   string
	Cond  string // enclosing conditions that mention the codec version, normalised
}

func (s seqItem) String() string {
	f := s.Field
	if f == "" {
		f = "?"
	}
	c := ""
	if s.Cond != "" {
		c = "[" + s.Cond + "]"
	}
	return c + strings.Repeat("*", s.Depth) + s.Tok + ":" + f
}

type seqCodec struct {
	// EncFuncs: encoder helper name (function or method) -> token
	EncFuncs map[string]string
	// DecFuncs: decoder method/function name -> token
	DecFuncs map[string]string
	// DecRecv: receiver type name of the decoder primitives ("" = plain functions)
	DecRecv string
	// AppendByte etc.: classify builtin append(dst, …) in encoders
	AppendTokens bool
}

type seqExtractor struct {
	c     *Ctx
	pk    *packages.Package
	fd    *ast.FuncDecl
	codec *seqCodec
	items []seqItem
	errs  []string
	// locals → field (decoders): filled from composite literals / assignments `msg.F = conv(local)`
	localField map[types.Object]string
	conds      []string
}

// versionCond renders the conjuncts of cond that mention an identifier named version (or *Version).
func versionCond(cond ast.Expr) string {
	if cond == nil {
		return ""
	}
	var parts []string
	var split func(e ast.Expr)
	split = func(e ast.Expr) {
		e = ast.Unparen(e)
		if b, ok := e.(*ast.BinaryExpr); ok && b.Op.String() == "&&" {
			split(b.X)
			split(b.Y)
			return
		}
		mentions := false
		ast.Inspect(e, func(n ast.Node) bool {
			if id, ok := n.(*ast.Ident); ok && (id.Name == "version" || strings.HasSuffix(id.Name, "Version")) {
				mentions = true
			}
			return true
		})
		if mentions {
			parts = append(parts, types.ExprString(e))
		}
	}
	split(cond)
	return strings.Join(parts, " && ")
}

func newSeqExtractor(c *Ctx, codec *seqCodec, short string) *seqExtractor {
	pk, fd := c.funcDecl(short)
	if fd == nil {
		c.add("anchor", "anchor", short, Undecided, "", "codec sibling not found")
		return nil
	}
	c.FuncsAnalysed[short] = true
	return &seqExtractor{c: c, pk: pk, fd: fd, codec: codec, localField: map[types.Object]string{}}
}

func calleeIdent(call *ast.CallExpr) (name string, recv ast.Expr) {
	switch f := call.Fun.(type) {
	case *ast.Ident:
		return f.Name, nil
	case *ast.SelectorExpr:
		return f.Sel.Name, f.X
	}
	return "", nil
}

// firstFieldOf: the first struct field selected in e (`request.Manifest`, `uint64(request.Leader)` → Manifest/Leader;
// for nested selections the outermost message field path `id.Type` → Type).
func (x *seqExtractor) firstFieldOf(e ast.Expr) string {
	found := ""
	ast.Inspect(e, func(n ast.Node) bool {
		if found != "" {
			return false
		}
		if sel, ok := n.(*ast.SelectorExpr); ok {
			if s := x.pk.TypesInfo.Selections[sel]; s != nil && s.Kind() == types.FieldVal {
				found = sel.Sel.Name
				return false
			}
		}
		return true
	})
	return found
}

func (x *seqExtractor) typeName(e ast.Expr) string {
	if tv, ok := x.pk.TypesInfo.Types[e]; ok && tv.Type != nil {
		return typeBaseName(tv.Type)
	}
	return ""
}

// walk visits statements in order, tracking loop depth, and calls visit for every call expression (pre-order).
func (x *seqExtractor) walk(n ast.Node, depth int, visit func(call *ast.CallExpr, depth int, stmt ast.Stmt)) {
	var cur ast.Stmt
	var rec func(n ast.Node, depth int)
	rec = func(n ast.Node, depth int) {
		switch s := n.(type) {
		case nil:
			return
		case *ast.BlockStmt:
			// an early `if <version cond> { return … }` without primitives guards the REST of the block with the negation
			pushed := 0
			for _, st := range s.List {
				rec(st, depth)
				if ifs, ok := st.(*ast.IfStmt); ok && ifs.Else == nil && ifs.Init == nil {
					if vc := versionCond(ifs.Cond); vc != "" && isOrderingCmp(ifs.Cond) && endsWithReturn(ifs.Body) && !x.hasPrimitive(ifs.Body) {
						x.conds = append(x.conds, negateCond(ifs.Cond, vc))
						pushed++
					}
				}
			}
			x.conds = x.conds[:len(x.conds)-pushed]
			return
		case *ast.IfStmt:
			vc := versionCond(s.Cond)
			rec(s.Init, depth)
			rec(s.Cond, depth)
			if vc != "" {
				x.conds = append(x.conds, vc)
			}
			rec(s.Body, depth)
			if vc != "" {
				x.conds = x.conds[:len(x.conds)-1]
			}
			if s.Else != nil {
				if vc != "" {
					x.conds = append(x.conds, negateCond(s.Cond, vc))
				}
				rec(s.Else, depth)
				if vc != "" {
					x.conds = x.conds[:len(x.conds)-1]
				}
			}
			return
		case *ast.ForStmt:
			rec(s.Init, depth)
			rec(s.Cond, depth)
			rec(s.Body, depth+1)
			return
		case *ast.RangeStmt:
			rec(s.X, depth)
			rec(s.Body, depth+1)
			return
		case *ast.FuncLit:
			return
		}
		if st, ok := n.(ast.Stmt); ok {
			if _, isBlock := st.(*ast.BlockStmt); !isBlock {
				cur = st
			}
		}
		if call, ok := n.(*ast.CallExpr); ok {
			visit(call, depth, cur)
		}
		// children in source order
		var kids []ast.Node
		ast.Inspect(n, func(m ast.Node) bool {
			if m == n {
				return true
			}
			if m != nil {
				kids = append(kids, m)
			}
			return false
		})
		for _, k := range kids {
			rec(k, depth)
		}
	}
	rec(n, depth)
}

func (x *seqExtractor) extractEncoder() []seqItem {
	x.walk(x.fd.Body, 0, func(call *ast.CallExpr, depth int, _ ast.Stmt) {
		name, _ := calleeIdent(call)
		pos := x.c.P.Pos(call.Pos())
		if tok, ok := x.codec.EncFuncs[name]; ok {
			field := ""
			if len(call.Args) >= 2 {
				field = x.firstFieldOf(call.Args[1])
				if tok == "slicecount" {
					// appendCodecSliceCount(dst, len(msg.F), msg.F == nil)
					field = x.firstFieldOf(call.Args[1])
				}
			}
			x.items = append(x.items, seqItem{tok, field, depth, pos, strings.Join(x.conds, " && ")})
			return
		}
		if name == "append" && x.codec.AppendTokens && len(call.Args) >= 2 {
			// only appends onto a byte slice
			if t, ok := x.pk.TypesInfo.Types[call.Args[0]]; !ok || t.Type == nil || t.Type.String() != "[]byte" {
				return
			}
			arg := call.Args[1]
			tok := ""
			if call.Ellipsis.IsValid() {
				// x[:]... of a fixed array, or a string/bytes value
				if sl, ok := arg.(*ast.SliceExpr); ok {
					if tv, ok := x.pk.TypesInfo.Types[sl.X]; ok {
						if a, ok := tv.Type.Underlying().(*types.Array); ok {
							tok = fmt.Sprintf("fixed%d", a.Len())
						}
					}
				}
				if tok == "" {
					tok = "rawbytes"
				}
			} else if len(call.Args) == 2 {
				tok = "byte"
			} else {
				tok = fmt.Sprintf("bytes%d", len(call.Args)-1)
			}
			x.items = append(x.items, seqItem{tok, x.firstFieldOf(arg), depth, pos, strings.Join(x.conds, " && ")})
		}
	})
	return x.items
}

func (x *seqExtractor) extractDecoder() []seqItem {
	// pass 1: map locals to fields through composite literals (Field: conv(local)) and assignments msg.F = conv(local)
	ast.Inspect(x.fd.Body, func(n ast.Node) bool {
		switch v := n.(type) {
		case *ast.KeyValueExpr:
			key, ok := v.Key.(*ast.Ident)
			if !ok {
				return true
			}
			ast.Inspect(v.Value, func(m ast.Node) bool {
				if _, isLit := m.(*ast.CompositeLit); isLit && m != v.Value {
					return false // nested literal maps its own keys
				}
				if id, ok := m.(*ast.Ident); ok {
					if obj := x.pk.TypesInfo.Uses[id]; obj != nil {
						if _, isVar := obj.(*types.Var); isVar {
							if _, dup := x.localField[obj]; !dup {
								x.localField[obj] = key.Name
							}
						}
					}
				}
				return true
			})
		case *ast.AssignStmt:
			if len(v.Lhs) == 1 && len(v.Rhs) == 1 {
				if sel, ok := v.Lhs[0].(*ast.SelectorExpr); ok {
					if s := x.pk.TypesInfo.Selections[sel]; s != nil && s.Kind() == types.FieldVal {
						ast.Inspect(v.Rhs[0], func(m ast.Node) bool {
							if id, ok := m.(*ast.Ident); ok {
								if obj := x.pk.TypesInfo.Uses[id]; obj != nil {
									if _, isVar := obj.(*types.Var); isVar {
										if _, dup := x.localField[obj]; !dup {
											x.localField[obj] = sel.Sel.Name
										}
									}
								}
							}
							return true
						})
					}
				}
			}
		}
		return true
	})
	x.walk(x.fd.Body, 0, func(call *ast.CallExpr, depth int, stmt ast.Stmt) {
		name, recv := calleeIdent(call)
		tok, ok := x.codec.DecFuncs[name]
		if !ok {
			return
		}
		if x.codec.DecRecv != "" {
			if recv == nil || x.typeName(recv) != x.codec.DecRecv {
				return
			}
		}
		field := ""
		if as, ok := stmt.(*ast.AssignStmt); ok && len(as.Rhs) == 1 && as.Rhs[0] == ast.Expr(call) && len(as.Lhs) > 0 {
			switch l := as.Lhs[0].(type) {
			case *ast.Ident:
				obj := x.pk.TypesInfo.Defs[l]
				if obj == nil {
					obj = x.pk.TypesInfo.Uses[l]
				}
				field = x.localField[obj]
			case *ast.SelectorExpr:
				field = l.Sel.Name
			}
		}
		x.items = append(x.items, seqItem{tok, field, depth, x.c.P.Pos(call.Pos()), strings.Join(x.conds, " && ")})
	})
	return x.items
}

func seqString(items []seqItem) string {
	var s []string
	for _, it := range items {
		s = append(s, it.String())
	}
	return strings.Join(s, " ")
}

// compareSeq: same tokens, same loop depth, same fields where both sides know the field.
func compareSeq(enc, dec []seqItem) string {
	n := len(enc)
	if len(dec) < n {
		n = len(dec)
	}
	for i := 0; i < n; i++ {
		e, d := enc[i], dec[i]
		if e.Tok != d.Tok {
			return fmt.Sprintf("item %d: encoder writes %s (%s) but decoder reads %s (%s)", i+1, e, e.Pos, d, d.Pos)
		}
		if e.Cond != d.Cond {
			return fmt.Sprintf("item %d (%s): version conditions differ: encoder [%s] (%s) vs decoder [%s] (%s)", i+1, e.Tok, e.Cond, e.Pos, d.Cond, d.Pos)
		}
		if e.Depth != d.Depth {
			return fmt.Sprintf("item %d (%s): loop nesting differs (%d vs %d)", i+1, e.Tok, e.Depth, d.Depth)
		}
		if e.Field != "" && d.Field != "" && !strings.EqualFold(e.Field, d.Field) {
			return fmt.Sprintf("item %d: encoder writes field %s (%s) where the decoder fills %s (%s)", i+1, e.Field, e.Pos, d.Field, d.Pos)
		}
	}
	if len(enc) != len(dec) {
		return fmt.Sprintf("encoder has %d items, decoder has %d (enc: %s | dec: %s)", len(enc), len(dec), seqString(enc), seqString(dec))
	}
	return ""
}

// SeqPair extracts and compares one encoder/decoder pair and records the obligation.
func (c *Ctx) SeqPair(rule string, codec *seqCodec, label, encFn, decFn string) {
	ex := newSeqExtractor(c, codec, encFn)
	dx := newSeqExtractor(c, codec, decFn)
	if ex == nil || dx == nil {
		return
	}
	enc := ex.extractEncoder()
	dec := dx.extractDecoder()
	pos := c.P.Pos(ex.fd.Pos())
	construct := label + "#enc=dec"
	if len(enc) == 0 || len(dec) == 0 {
		c.add("wire", rule, construct, Undecided, pos, fmt.Sprintf("extractor found %d encoder and %d decoder primitives (vacuous; the codec idiom changed)", len(enc), len(dec)))
		return
	}
	if why := compareSeq(enc, dec); why != "" {
		c.add("wire", rule, construct, Violated, pos, fmt.Sprintf("%s and %s disagree on the wire layout: %s", encFn, decFn, why))
		return
	}
	c.add("wire", rule, construct, Held, pos, fmt.Sprintf("%d items agree: %s", len(enc), seqString(enc)))
}
