package main

import (
	"fmt"
	"go/token"
	"go/types"
	"sort"
	"strings"

	"golang.org/x/tools/go/ssa"
)

func init() {
	const pq = "internal/runtime/delivery/plan_queue.go"
	const rt = "internal/runtime/delivery/runtime.go"
	register(&PropSpec{
		ID:        "C31",
		Pkgs:      []string{"./internal/runtime/delivery"},
		Technique: "static analysis: backward-slice depends-only check of the shard hash, lock-held check of the queue links, slot-token acquire/release dataflow, SSA value-identity checks (FIFO head/tail discipline, exact-route result narrowing), edge-dominance guards and who-may-call confinement",
		Explain:   "Decides the structural clauses behind per-channel push order and exact-route retry: (R1) orderedPlanQueue.shardIndex depends only on plan.Event.ChannelType, plan.Event.ChannelID and len(q.shards), and enqueue files the plan under exactly that shard; (R2) every access to shard head/tail, node next/plan and freeHead happens with q.mu held; enqueue links only at the tail and pop returns the plan of the head node read before it is unlinked (FIFO); (R3) the capacity token taken from q.slots is released on every failing exit of enqueue, kept on the success exit, and pop releases exactly one token per popped plan and none when empty; (R4) each shard has one consumer: dequeue/pop are called only from runWorker/dequeue, runWorker is started once per index 0..workers-1 inside the Start critical section that flips the state to open, the queue is built with as many shards as workers, a worker runs plans sequentially and the per-owner fan-out joins before a plan ends; (R5) exact-route narrowing: pushOwnerLocal writes to and classifies (accepted/retryable/dropped) only the route of the current iteration, only routes whose owner is this node reach a session write, pushWithRetry re-pushes exactly result.Retryable, routeOwnerPush and processPlan never mix routes of different owners; (R6) an offline report lists a recipient only if it has no route in the resolved target and was not listed before, is emitted at most once per plan, and every resolved route is grouped for push unless ownerless or the sender's own session. NOT decided: the actual interleavings (order across stop/quiesce, push latencies), that remote owners run the same code, ordering of plans before they reach enqueue (channelappend side), session-writer behaviour, hash quality.",
		Run:       c31,
		Mutants: []Mutant{
			{Name: "shard-by-message", File: pq, Old: "hash := (fnvOffset64 ^ uint64(plan.Event.ChannelType)) * fnvPrime64", New: "hash := (fnvOffset64 ^ uint64(plan.Event.ChannelType) ^ plan.Event.MessageID) * fnvPrime64", Expect: "C31/R1-shard*"},
			{Name: "shard-ignores-channel-id", File: pq, Old: "\tfor index := 0; index < len(plan.Event.ChannelID); index++ {\n\t\thash = (hash ^ uint64(plan.Event.ChannelID[index])) * fnvPrime64\n\t}\n", New: "", Expect: "C31/R1-shard*"},
			{Name: "enqueue-round-robin", File: pq, Old: "shardIndex := q.shardIndex(plan)\n\tq.mu.Lock()", New: "shardIndex := int(q.depth.Load()) % len(q.shards)\n\tq.mu.Lock()", Expect: "C31/R1-shard*"},
			{Name: "enqueue-links-outside-lock", File: pq, Old: "\tq.depth.Add(1)\n\tq.mu.Unlock()\n\tselect {\n\tcase shard.ready", New: "\tq.mu.Unlock()\n\tq.depth.Add(1)\n\tshard.tail = nodeIndex\n\tselect {\n\tcase shard.ready", Expect: "C31/R2-lock*"},
			{Name: "enqueue-lifo", File: pq, Old: "\t\tq.nodes[shard.tail].next = nodeIndex\n\t\tshard.tail = nodeIndex", New: "\t\tnode.next = shard.head\n\t\tshard.head = nodeIndex", Expect: "C31/R2-fifo*"},
			{Name: "pop-returns-next", File: pq, Old: "\tnode := &q.nodes[nodeIndex]\n\tplan := node.plan\n\tshard.head = node.next", New: "\tnode := &q.nodes[nodeIndex]\n\tshard.head = node.next\n\tplan := q.nodes[shard.head].plan", Expect: "C31/R2-fifo*"},
			{Name: "enqueue-leaks-slot", File: pq, Old: "\tcase <-acceptDone:\n\t\tq.releaseSlot()\n\t\treturn ErrRuntimeClosed\n\tdefault:", New: "\tcase <-acceptDone:\n\t\treturn ErrRuntimeClosed\n\tdefault:", Expect: "C31/R3-slot*"},
			{Name: "enqueue-releases-on-success", File: pq, Old: "\tq.depth.Add(1)\n\tq.mu.Unlock()\n\tselect {", New: "\tq.depth.Add(1)\n\tq.mu.Unlock()\n\tq.releaseSlot()\n\tselect {", Expect: "C31/R3-slot*"},
			{Name: "pop-forgets-slot", File: pq, Old: "\tq.depth.Add(-1)\n\tq.mu.Unlock()\n\tq.releaseSlot()\n", New: "\tq.depth.Add(-1)\n\tq.mu.Unlock()\n", Expect: "C31/R3-slot*"},
			{Name: "two-workers-one-shard", File: rt, Old: "\t\tshardIndex := i\n", New: "\t\tshardIndex := i / 2\n", Expect: "C31/R4-worker*"},
			{Name: "plan-run-async", File: rt, Old: "\t\tr.runPlan(runCtx, plan)\n\t}\n}", New: "\t\tgo r.runPlan(runCtx, plan)\n\t}\n}", Expect: "C31/R4-worker*"},
			{Name: "owner-fanout-no-join", File: rt, Old: "\tworker()\n\tworkers.Wait()\n}", New: "\tworker()\n}", Expect: "C31/R4-worker*"},
			{Name: "retry-all-routes", File: rt, Old: "\t\t\tpush.Routes = result.Retryable\n", New: "\t\t\tpush.Routes = append(result.Retryable, result.Dropped...)\n", Expect: "C31/R5-exact*"},
			{Name: "write-ignores-owner", File: rt, Old: "if route.UID == \"\" || route.SessionID == 0 || route.OwnerNodeID != push.OwnerNodeID || push.Event.MessageID == 0 {", New: "if route.UID == \"\" || route.SessionID == 0 || push.Event.MessageID == 0 {", Expect: "C31/R5-exact*"},
			{Name: "retryable-wrong-route", File: rt, Old: "\t\t\tresult.Retryable = append(result.Retryable, route)\n\t\t\tsetOwnerPushFailure(&failure, route, writeResult.Err)", New: "\t\t\tresult.Retryable = append(result.Retryable, push.Routes[0])\n\t\t\tsetOwnerPushFailure(&failure, route, writeResult.Err)", Expect: "C31/R5-exact*"},
			{Name: "group-by-wrong-owner", File: rt, Old: "grouped[route.OwnerNodeID] = append(grouped[route.OwnerNodeID], route)", New: "grouped[r.localNodeID] = append(grouped[r.localNodeID], route)", Expect: "C31/R5-exact*"},
			{Name: "local-push-any-owner", File: rt, Old: "if r.localNodeID == 0 || push.OwnerNodeID == 0 || push.OwnerNodeID != r.localNodeID {", New: "if r.localNodeID == 0 || push.OwnerNodeID == 0 {", Expect: "C31/R5-exact*"},
			{Name: "offline-reports-online", File: rt, Old: "\t\tif _, ok := online[recipient.UID]; ok {\n\t\t\tcontinue\n\t\t}\n", New: "", Expect: "C31/R6-offline*"},
			{Name: "offline-duplicates", File: rt, Old: "\t\tseen[recipient.UID] = struct{}{}\n", New: "", Expect: "C31/R6-offline*"},
			{Name: "route-silently-skipped", File: rt, Old: "if route.OwnerNodeID == 0 || suppressSenderRoute(plan, route) {", New: "if route.OwnerNodeID == 0 || route.OwnerNodeID == r.localNodeID && len(grouped) > 0 || suppressSenderRoute(plan, route) {", Expect: "C31/R6-offline*"},
		},
	})
}

const c31D = "internal/runtime/delivery."

func c31(c *Ctx) {
	const (
		enq     = c31D + "orderedPlanQueue.enqueue"
		deq     = c31D + "orderedPlanQueue.dequeue"
		popN    = c31D + "orderedPlanQueue.pop"
		release = c31D + "orderedPlanQueue.releaseSlot"
		shardIx = c31D + "orderedPlanQueue.shardIndex"
		safeGo  = "pkg/goroutine.SafeGo"
	)
	enqueue, pop, dequeue := c.Fn(enq), c.Fn(popN), c.Fn(deq)

	// ---- R1: channel-hashed shard ----------------------------------------
	c31DependsOnly(c, "R1-shard", c.Fn(shardIx), []string{"plan.Event.ChannelType", "plan.Event.ChannelID", "q.shards"})
	c.CallShape("R1-shard", enqueue, shardIx, shardIx+"(q, plan)")
	c.StoreShape("R1-shard", enqueue, "q.shards[*].*", "q.freeHead")
	c.StoreShape("R1-shard", enqueue, "q.shards["+shardIx+"(q, plan)].tail", "q.freeHead")
	c.StoreShape("R1-shard", enqueue, "q.nodes[*].plan", "plan")
	c.ConfineCalls("R1-shard", shardIx, 1, enq)

	// ---- R2: queue links under q.mu, FIFO discipline -----------------------
	c.Lockset("R2-lock", LockSpec{
		Struct: c31D + "orderedPlanQueue", Mutex: "mu", Fields: []string{"freeHead"}, ReadsToo: true,
		Exempt: []string{c31D + "newOrderedPlanQueue"}, // constructor: queue not shared yet
	})
	c31LinksLocked(c, "R2-lock")
	c.Guard("R2-fifo", enqueue, StoreTo{Addr: "q.shards[*].head"}, "q.shards[*].tail == -1")
	c.Guard("R2-fifo", enqueue, StoreTo{Addr: "q.nodes[q.shards[*].tail].next"}, "q.shards[*].tail != -1")
	c.StoreShape("R2-fifo", enqueue, "q.nodes[q.shards[*].tail].next", "q.freeHead")
	c31EnqueueAppendsFreshNode(c, "R2-fifo", enqueue)
	c31PopReturnsOldHead(c, "R2-fifo", pop)
	c.Guard("R2-fifo", pop, StoreTo{Addr: "q.shards[shardIndex].tail"}, "q.shards[shardIndex].head == -1")
	c.Guard("R2-fifo", pop, OneOf{StoreTo{Addr: "q.*"}, Ret{Idx: 1, Glob: "true"}}, "q.shards[shardIndex].head != -1")

	// ---- R3: capacity token pairing ---------------------------------------
	c31SlotPairing(c, "R3-slot", enqueue, release)
	c31CallCountAtReturns(c, "R3-slot", pop, CallTo{release}, map[string]string{"true": "1", "false": "0"}, 1)
	c.Guard("R3-slot", enqueue, RetNil{}, "q.freeHead != -1", "after: sync/atomic.Int64.Add(q.depth, 1)")
	c.ConfineCalls("R3-slot", release, 1, enq, popN)

	// ---- R4: one sequential consumer per shard ------------------------------
	c.ConfineCalls("R4-worker", popN, 2, deq)
	c.ConfineCalls("R4-worker", deq, 1, c31D+"Runtime.runWorker")
	c.ConfineCalls("R4-worker", c31D+"Runtime.runWorker", 1, c31D+"Runtime.Start")
	c.CallShape("R4-worker", dequeue, popN, popN+"(q, shardIndex)")
	runWorker := c.Fn(c31D + "Runtime.runWorker")
	c.CallShape("R4-worker", runWorker, deq, deq+"(r.queue, shardIndex, stopReady)")
	c31NoSpawn(c, "R4-worker", runWorker, c.Fn(c31D+"Runtime.runPlan"))
	start := c.Fn(c31D + "Runtime.Start")
	c31WorkerPerIndex(c, "R4-worker", start, safeGo, c31D+"Runtime.runWorker")
	open := c31ConstVal(c, "internal/runtime/delivery", "runtimeOpen")
	spawn := CallTo{safeGo + "(*, \"delivery/worker\", *)"}
	c.Guard("R4-worker", start, spawn, "r.state != "+open, "after: sync.Mutex.Lock(r.mu)")
	c.FollowedBy("R4-worker", start, spawn, StoreTo{Addr: "r.state", Val: open})
	c.SameSection("R4-worker", start, "r.mu", LoadOf{"r.state"}, OneOf{spawn, StoreTo{Addr: "r.state", Val: open}})
	nr := c.Fn(c31D + "NewRuntime")
	if w, ok := c31UniqueArg(c, "R4-worker", nr, c31D+"newOrderedPlanQueue", 1); ok {
		c.StoreShape("R4-worker", nr, "*Runtime.workers", w)
	}
	c.StoreShape("R4-worker", c.Fn(c31D+"newOrderedPlanQueue"), "*orderedPlanQueue.shards", "make([]orderedPlanShard, shards)")
	c.ConfineStores("R4-worker", c31D+"Runtime.workers", true, c31D+"NewRuntime")
	c.ConfineStores("R4-worker", c31D+"orderedPlanQueue.shards", true, c31D+"newOrderedPlanQueue")
	rb := c.Fn(c31D + "runBoundedRuntime")
	c.Guard("R4-worker", rb, AnyRet{}, "count == 0 || concurrency <= 1 || count == 1 || after: sync.WaitGroup.Wait(*)")
	c.FollowedBy("R4-worker", rb, CallTo{safeGo}, CallTo{"sync.WaitGroup.Wait(*)"})
	c.Guard("R4-worker", rb, CallTo{safeGo}, "after: sync.WaitGroup.Add(*, *)")
	c.FollowedBy("R4-worker", c.Fn(c31D+"runBoundedRuntime$2"), CallTo{"dyn:worker"}, CallTo{"sync.WaitGroup.Done(workers)"})
	c.FollowedBy("R4-worker", c.Fn(c31D+"Runtime.Start$1"), CallTo{c31D + "Runtime.runWorker"}, CallTo{"sync.WaitGroup.Done(workers)"})

	// ---- R5: exact-route narrowing -----------------------------------------
	pol := c.Fn(c31D + "Runtime.pushOwnerLocal")
	c31ExactRouteSites(c, "R5-exact", pol)
	write := CallTo{c31D + "Runtime.writeSessionSafely"}
	c.Guard("R5-exact", pol, write,
		"r.localNodeID != 0", "push.OwnerNodeID != 0", "push.OwnerNodeID == r.localNodeID",
		"*.UID != \"\"", "context.Context.Err(ctx) == nil", c31D+"AckBindToken.Valid(*) == true")
	c.Guard("R5-exact", pol, StoreTo{Addr: "make([]PendingRecvAck, *)[*]"},
		"*.OwnerNodeID == push.OwnerNodeID", "*.UID != \"\"", "*.SessionID != 0")
	c31PendingRowFromSameRoute(c, "R5-exact", pol)
	for _, fn := range []string{"Runtime.pushOwnerLocal$1", "Runtime.pushOwnerRemote", "Runtime.pushOwnerRemote$1"} {
		c.StoreShape("R5-exact", c.Fn(c31D+fn), "*.Retryable", "append(nil, push.Routes)")
	}
	pwr := c.Fn(c31D + "Runtime.pushWithRetry")
	c.StoreShape("R5-exact", pwr, "push.*", "*.Retryable")
	c.StoreShape("R5-exact", pwr, "push.Routes", "*.Retryable")
	c31RetryNarrowsToOwnResult(c, "R5-exact", pwr)
	c.Guard("R5-exact", pwr, StoreTo{Addr: "push.Routes"}, c31D+"Runtime.routeOwnerPush(r, ctx, push)#1 == nil")
	c.CallShape("R5-exact", pwr, c31D+"Runtime.routeOwnerPush", c31D+"Runtime.routeOwnerPush(r, ctx, push)")
	rop := c.Fn(c31D + "Runtime.routeOwnerPush")
	c.Guard("R5-exact", rop, CallTo{c31D + "Runtime.pushOwnerLocal"}, "push.OwnerNodeID == r.localNodeID")
	c.CallShape("R5-exact", rop, c31D+"Runtime.pushOwner*", c31D+"Runtime.pushOwnerLocal(r, ctx, push)", c31D+"Runtime.pushOwnerRemote(r, ctx, push)")
	c.CallShape("R5-exact", c.Fn(c31D+"Runtime.pushOwnerRemote"), c31D+"RemoteOwnerPusher.PushOwner", c31D+"RemoteOwnerPusher.PushOwner(r.remoteOwnerPusher, ctx, push)")
	c.CallShape("R5-exact", c.Fn(c31D+"Runtime.PushOwner"), c31D+"Runtime.pushOwnerLocal", c31D+"Runtime.pushOwnerLocal(r, *, push)")
	c.ConfineCalls("R5-exact", c31D+"Runtime.pushOwnerLocal", 2, c31D+"Runtime.routeOwnerPush", c31D+"Runtime.PushOwner")
	c.ConfineCalls("R5-exact", c31D+"Runtime.writeSessionSafely", 1, c31D+"Runtime.pushOwnerLocal")
	c.ConfineCalls("R5-exact", c31D+"LocalSessionWriter.WriteSession", 1, c31D+"Runtime.writeSessionSafely")
	c.CallShape("R5-exact", c.Fn(c31D+"Runtime.writeSessionSafely"), c31D+"LocalSessionWriter.WriteSession", c31D+"LocalSessionWriter.WriteSession(r.sessionWriter, ctx, write)")
	pp := c.Fn(c31D + "Runtime.processPlan")
	c31GroupedByOwnOwner(c, "R5-exact", pp)
	pp1 := c.Fn(c31D + "Runtime.processPlan$1")
	c31OwnerPushLiteral(c, "R5-exact", pp1)

	// ---- R6: offline coverage ------------------------------------------------
	c31OfflineOnlyIfAbsent(c, "R6-offline", c.Fn(c31D+"appendOfflineUIDs"))
	c31CallCountAtReturns(c, "R6-offline", pp, CallTo{c31D + "Runtime.notifyOfflineSafely"}, map[string]string{"*": "0|1"}, 1)
	c31CallCountAtReturns(c, "R6-offline", c.Fn(c31D+"Runtime.notifyOfflineSafely"), CallTo{c31D + "OfflineRecipientsObserver.ObserveOfflineRecipients"}, map[string]string{"": "0|1"}, 1)
	c.ConfineCalls("R6-offline", c31D+"OfflineRecipientsObserver.ObserveOfflineRecipients", 1, c31D+"Runtime.notifyOfflineSafely")
	c.ConfineCalls("R6-offline", c31D+"Runtime.notifyOfflineSafely", 1, c31D+"Runtime.processPlan")
	c.ConfineCalls("R6-offline", c31D+"appendOfflineUIDs", 1, c31D+"Runtime.processPlan")
	c31OfflineArgsAligned(c, "R6-offline", pp)
	c31EveryIterationDoes(c, "R6-offline", pp, "*.Routes", StoreTo{Addr: "*[*.OwnerNodeID]"},
		"*.OwnerNodeID == 0 || "+c31D+"suppressSenderRoute(plan, *) == true")
	c.CallShape("R6-offline", pp, c31D+"Runtime.notifyOfflineSafely", c31D+"Runtime.notifyOfflineSafely(r, ctx, plan, *)")
}

// ---------------------------------------------------------------------------
// helpers (C31-private), part 1: generic value utilities

// c31Origin looks through a local that is assigned exactly once.
func c31Origin(v ssa.Value) ssa.Value {
	for i := 0; i < 4; i++ {
		u, ok := stripConv(v).(*ssa.UnOp)
		if !ok || u.Op != token.MUL {
			return stripConv(v)
		}
		a, ok := u.X.(*ssa.Alloc)
		if !ok || a.Referrers() == nil {
			return u
		}
		var src ssa.Value
		n := 0
		for _, r := range *a.Referrers() {
			if st, ok := r.(*ssa.Store); ok && st.Addr == a {
				n++
				src = st.Val
			}
		}
		if n != 1 {
			return u
		}
		v = src
	}
	return stripConv(v)
}

func c31Calls(fn *ssa.Function, callee string) []ssa.CallInstruction {
	var out []ssa.CallInstruction
	if fn == nil {
		return nil
	}
	for _, b := range fn.Blocks {
		for _, in := range b.Instrs {
			if ci, ok := in.(ssa.CallInstruction); ok && glob(callee, calleeName(ci.Common())) {
				out = append(out, ci)
			}
		}
	}
	return out
}

func c31UniqueArg(c *Ctx, rule string, fn *ssa.Function, callee string, idx int) (string, bool) {
	if fn == nil {
		return "", false
	}
	out := ""
	for _, ci := range c31Calls(fn, callee) {
		args := callArgs(ci.Common())
		if idx >= len(args) {
			continue
		}
		p := Path(args[idx])
		if out != "" && out != p {
			c.add("shape", rule, fmt.Sprintf("%s#arg%d:%s", c.P.Name(fn), idx, callee), Violated, c.P.Pos(fn.Pos()), fmt.Sprintf("calls of %s pass different values (%s / %s)", callee, out, p))
			return "", false
		}
		out = p
	}
	if out == "" {
		c.add("shape", rule, fmt.Sprintf("%s#arg%d:%s", c.P.Name(fn), idx, callee), Undecided, c.P.Pos(fn.Pos()), "no call of "+callee+" found (vacuous)")
		return "", false
	}
	return out, true
}

func c31ConstVal(c *Ctx, pkg, name string) string {
	if pk := c.P.Pkgs[pkg]; pk != nil {
		if k, ok := pk.Types.Scope().Lookup(name).(*types.Const); ok {
			return k.Val().ExactString()
		}
	}
	c.add("anchor", "anchor", pkg+"."+name, Undecided, "", "anchored constant not found")
	return "?"
}

func c31Result(c *Ctx, engine, rule, construct string, fn *ssa.Function, n int, bad []string, okDetail string) {
	pos := ""
	if fn != nil {
		pos = c.P.Pos(fn.Pos())
	}
	sort.Strings(bad)
	switch {
	case len(bad) > 0:
		c.add(engine, rule, construct, Violated, pos, strings.Join(bad, "; "))
	case n == 0:
		c.add(engine, rule, construct, Undecided, pos, "nothing matched (vacuous; the code moved or changed shape)")
	default:
		c.add(engine, rule, construct, Held, pos, okDetail)
	}
}

// c31FieldLoad: v is a load of field `field` of some struct; returns the FieldAddr.
func c31FieldLoad(v ssa.Value, field string) (*ssa.FieldAddr, bool) {
	u, ok := stripConv(v).(*ssa.UnOp)
	if !ok || u.Op != token.MUL {
		return nil, false
	}
	fa, ok := u.X.(*ssa.FieldAddr)
	if !ok || fieldName(fa.X.Type(), fa.Field) != field {
		return nil, false
	}
	return fa, true
}

// c31DependsOnly: the backward slice of every result of fn contains only constants, arithmetic,
// phis, len() and loads/indexing of the allowed access paths; every allowed path is actually used.
func c31DependsOnly(c *Ctx, rule string, fn *ssa.Function, allowed []string) {
	if fn == nil {
		return
	}
	name := c.P.Name(fn)
	used := map[string]bool{}
	var bad []string
	seen := map[ssa.Value]bool{}
	var visit func(v ssa.Value)
	visit = func(v ssa.Value) {
		if v == nil || seen[v] {
			return
		}
		seen[v] = true
		switch x := v.(type) {
		case *ssa.Const:
		case *ssa.BinOp:
			visit(x.X)
			visit(x.Y)
		case *ssa.Convert:
			visit(x.X)
		case *ssa.ChangeType:
			visit(x.X)
		case *ssa.Phi:
			for _, e := range x.Edges {
				visit(e)
			}
			// control dependence: the conditions deciding which edge is taken
			for _, p := range x.Block().Preds {
				for q := p; q != nil; q = q.Idom() {
					if len(q.Instrs) > 0 {
						if iff, ok := q.Instrs[len(q.Instrs)-1].(*ssa.If); ok {
							visit(iff.Cond)
						}
					}
				}
			}
		case *ssa.UnOp:
			if x.Op == token.MUL {
				p := Path(x.X)
				if globAny(allowed, p) {
					used[p] = true
					return
				}
				bad = append(bad, "reads "+p)
				return
			}
			visit(x.X)
		case *ssa.Index: // string indexing
			p := Path(x.X)
			if !globAny(allowed, p) {
				bad = append(bad, "indexes "+p)
			} else {
				used[p] = true
			}
			visit(x.Index)
		case *ssa.Lookup:
			p := Path(x.X)
			if !globAny(allowed, p) {
				bad = append(bad, "indexes "+p)
			} else {
				used[p] = true
			}
			visit(x.Index)
		case *ssa.Call:
			if b, ok := x.Call.Value.(*ssa.Builtin); ok && b.Name() == "len" {
				visit(x.Call.Args[0])
				return
			}
			bad = append(bad, "calls "+calleeName(&x.Call))
		case *ssa.Parameter:
			bad = append(bad, "uses whole parameter "+x.Name())
		default:
			bad = append(bad, fmt.Sprintf("depends on %s (%T)", Path(v), v))
		}
	}
	n := 0
	for _, in := range instrsMatching(fn, AnyRet{}) {
		for _, r := range in.(*ssa.Return).Results {
			n++
			visit(r)
		}
	}
	for _, a := range allowed {
		if !used[a] {
			bad = append(bad, "does not depend on "+a)
		}
	}
	// the result is reduced modulo the shard count
	for _, in := range instrsMatching(fn, AnyRet{}) {
		if b, ok := stripConv(in.(*ssa.Return).Results[0]).(*ssa.BinOp); !ok || b.Op != token.REM || Path(b.Y) != "len(q.shards)" {
			bad = append(bad, "result is not `hash % len(q.shards)`")
		}
	}
	c31Result(c, "cover", rule, name+"#depends-only:"+strings.Join(allowed, ","), fn, n, dedup(bad),
		fmt.Sprintf("result slice reads only %v (all of them), constants, arithmetic and len(); reduced modulo len(q.shards)", allowed))
}

// c31LinksLocked: every access to orderedPlanShard.{head,tail} and orderedPlanNode.{next,plan}
// outside the constructor happens with the mutex of the queue they hang off held.
func c31LinksLocked(c *Ctx, rule string) {
	n := 0
	var bad []string
	for _, fn := range c.P.AllFuncs {
		name := c.P.Name(fn)
		if name == c31D+"newOrderedPlanQueue" {
			continue
		}
		var held map[ssa.Instruction]lockState
		for _, b := range fn.Blocks {
			for _, in := range b.Instrs {
				fa, ok := in.(*ssa.FieldAddr)
				if !ok {
					continue
				}
				owner, f := ownerTypeName(fa.X.Type()), fieldName(fa.X.Type(), fa.Field)
				if !(owner == "orderedPlanShard" && (f == "head" || f == "tail")) && !(owner == "orderedPlanNode" && (f == "next" || f == "plan")) {
					continue
				}
				if fv := fieldVar(fa.X.Type(), fa.Field); fv == nil || fv.Pkg() == nil || shortPkg(fv.Pkg().Path())+"." != c31D {
					continue
				}
				n++
				if held == nil {
					held = heldAt(fn, lockState{})
				}
				// root of the access path: q.shards[i] / q.nodes[i] → q
				root := fa.X
				for {
					switch x := root.(type) {
					case *ssa.IndexAddr:
						root = x.X
						continue
					case *ssa.UnOp:
						root = x.X
						continue
					case *ssa.FieldAddr:
						root = x.X
					}
					break
				}
				key := Path(root) + ".mu"
				if held[in][key] != 'W' {
					bad = append(bad, fmt.Sprintf("%s touches %s.%s without holding %s (held: %s) at %s", name, owner, f, key, lsString(held[in]), c.P.InstrPos(in)))
				}
			}
		}
	}
	if n < 15 && len(bad) == 0 {
		c.add("lockset", rule, "queue-links-under-mu", Undecided, "", fmt.Sprintf("only %d link accesses found, hand-confirmed ≥ 15", n))
		return
	}
	c31Result(c, "lockset", rule, "queue-links-under-mu", nil, n, bad, fmt.Sprintf("%d access(es) to shard head/tail and node next/plan, all with the queue mutex held", n))
}

// ---------------------------------------------------------------------------
// helpers part 2: FIFO value identity, token pairing, worker structure

// c31StoresBefore: does a store to an address whose path matches glob precede `in` on some path
// (same block earlier, or in a block from which in's block is reachable)?
func c31StoreMayPrecede(fn *ssa.Function, addrGlob string, in ssa.Instruction) bool {
	target := in.Block()
	for _, b := range fn.Blocks {
		for i, x := range b.Instrs {
			st, ok := x.(*ssa.Store)
			if !ok || !glob(addrGlob, Path(st.Addr)) {
				continue
			}
			if b == target {
				if i < indexIn(b, in) {
					return true
				}
				continue
			}
			// reachability b → target
			seen := map[*ssa.BasicBlock]bool{b: true}
			work := []*ssa.BasicBlock{b}
			for len(work) > 0 {
				y := work[len(work)-1]
				work = work[:len(work)-1]
				for _, s := range y.Succs {
					if s == target {
						return true
					}
					if !seen[s] {
						seen[s] = true
						work = append(work, s)
					}
				}
			}
		}
	}
	return false
}

// c31EnqueueAppendsFreshNode: the index linked at the shard tail/head and the node that receives
// the plan are one SSA value: the free-list head read before the free list is advanced.
func c31EnqueueAppendsFreshNode(c *Ctx, rule string, fn *ssa.Function) {
	if fn == nil {
		return
	}
	var bad []string
	var ni ssa.Value
	n := 0
	note := func(v ssa.Value, what string, in ssa.Instruction) {
		n++
		v = stripConv(v)
		if ni == nil {
			ni = v
		} else if ni != v {
			bad = append(bad, what+" uses a different node index ("+Path(v)+") at "+c.P.InstrPos(in))
		}
	}
	for _, b := range fn.Blocks {
		for _, in := range b.Instrs {
			st, ok := in.(*ssa.Store)
			if !ok {
				continue
			}
			fa, ok := st.Addr.(*ssa.FieldAddr)
			if !ok {
				continue
			}
			owner, f := ownerTypeName(fa.X.Type()), fieldName(fa.X.Type(), fa.Field)
			switch {
			case owner == "orderedPlanShard" && (f == "head" || f == "tail"):
				note(st.Val, "shard."+f, in)
			case owner == "orderedPlanNode" && f == "plan":
				if ia, ok := fa.X.(*ssa.IndexAddr); ok {
					note(ia.Index, "node.plan", in)
				} else {
					bad = append(bad, "node.plan stored through an unrecognised address")
				}
			case owner == "orderedPlanNode" && f == "next":
				if k, ok := st.Val.(*ssa.Const); ok && k.Value != nil && k.Value.ExactString() == "-1" {
					if ia, ok := fa.X.(*ssa.IndexAddr); ok {
						note(ia.Index, "node.next = -1", in)
					}
				} else {
					note(st.Val, "predecessor.next", in) // old tail → new node
				}
			}
		}
	}
	if ni != nil {
		if _, ok := c31FieldLoad(ni, "freeHead"); !ok {
			bad = append(bad, "the linked node index "+Path(ni)+" is not the free-list head")
		} else if c31StoreMayPrecede(fn, "q.freeHead", ni.(ssa.Instruction)) {
			bad = append(bad, "the free-list head is read after the free list was advanced")
		}
	}
	c31Result(c, "shape", rule, c.P.Name(fn)+"#links-the-popped-free-node", fn, n, bad,
		fmt.Sprintf("%d link/plan store(s) all use the one free-list head index read before q.freeHead is advanced", n))
}

// c31PopReturnsOldHead: the plan returned by pop is read from node q.nodes[h] where h is the
// shard head loaded before any store to that head, and the read precedes the clearing of node.plan.
func c31PopReturnsOldHead(c *Ctx, rule string, fn *ssa.Function) {
	if fn == nil {
		return
	}
	var bad []string
	n := 0
	for _, in := range instrsMatching(fn, Ret{Idx: 1, Glob: "true"}) {
		n++
		ret := in.(*ssa.Return)
		v := c31Origin(ret.Results[0])
		u, ok := v.(*ssa.UnOp)
		if !ok || u.Op != token.MUL {
			bad = append(bad, "returned plan "+Path(v)+" is not a load of node.plan")
			continue
		}
		fa, ok := u.X.(*ssa.FieldAddr)
		if !ok || ownerTypeName(fa.X.Type()) != "orderedPlanNode" || fieldName(fa.X.Type(), fa.Field) != "plan" {
			bad = append(bad, "returned plan "+Path(v)+" is not a load of node.plan")
			continue
		}
		ia, ok := fa.X.(*ssa.IndexAddr)
		if !ok {
			bad = append(bad, "node address is not q.nodes[i]")
			continue
		}
		h, ok := c31FieldLoad(c31Origin(ia.Index), "head")
		if !ok || Path(h.X) != "q.shards[shardIndex]" {
			bad = append(bad, "node index "+Path(ia.Index)+" is not the head of q.shards[shardIndex]")
			continue
		}
		hl := c31Origin(ia.Index).(ssa.Instruction)
		if c31StoreMayPrecede(fn, "q.shards[*].head", hl) {
			bad = append(bad, "the head index is read after the head was advanced (returns the second plan)")
		}
		if c31StoreMayPrecede(fn, "q.nodes[*].plan", u) {
			bad = append(bad, "the plan is read after the node's plan slot was cleared")
		}
	}
	// the new head is the old head's successor
	for _, in := range instrsMatching(fn, StoreTo{Addr: "q.shards[shardIndex].head"}) {
		st := in.(*ssa.Store)
		fa, ok := c31FieldLoad(st.Val, "next")
		if !ok {
			bad = append(bad, "head is advanced to "+Path(st.Val)+", not to node.next")
			continue
		}
		if ia, ok := fa.X.(*ssa.IndexAddr); !ok || func() bool { _, ok := c31FieldLoad(c31Origin(ia.Index), "head"); return !ok }() {
			bad = append(bad, "head is advanced to the successor of something other than the old head")
		}
	}
	c31Result(c, "shape", rule, c.P.Name(fn)+"#returns-plan-of-old-head", fn, n, bad, "the returned plan is node[old head].plan read before head advance and slot clearing; head := old head's next")
}

// c31SlotPairing: in enqueue the token received from q.slots (select case) is released exactly
// once on every failing return, never on the success (nil) return, and never without being held.
func c31SlotPairing(c *Ctx, rule string, fn *ssa.Function, release string) {
	if fn == nil {
		return
	}
	name := c.P.Name(fn)
	construct := name + "#slot-token-pairing"
	// acquire edges: select index == k where state k receives from q.slots
	acq := map[edge]bool{}
	for _, b := range fn.Blocks {
		for _, in := range b.Instrs {
			sel, ok := in.(*ssa.Select)
			if !ok {
				continue
			}
			for k, st := range sel.States {
				if st.Dir != types.RecvOnly || Path(st.Chan) != "q.slots" {
					continue
				}
				for _, bb := range fn.Blocks {
					if len(bb.Instrs) == 0 {
						continue
					}
					iff, ok := bb.Instrs[len(bb.Instrs)-1].(*ssa.If)
					if !ok {
						continue
					}
					bin, ok := iff.Cond.(*ssa.BinOp)
					if !ok || bin.Op != token.EQL {
						continue
					}
					ex, ok := bin.X.(*ssa.Extract)
					kc, ok2 := bin.Y.(*ssa.Const)
					if !ok || !ok2 || ex.Tuple != ssa.Value(sel) || ex.Index != 0 || kc.Value == nil || kc.Value.ExactString() != fmt.Sprint(k) {
						continue
					}
					acq[edge{bb, 0}] = true
				}
			}
		}
	}
	if len(acq) == 0 {
		c.add("order", rule, construct, Undecided, c.P.Pos(fn.Pos()), "no select case receiving from q.slots found (vacuous)")
		return
	}
	// state bits: (held 0/1) × (released 0/1/2)
	bit := func(h, r int) uint8 { return 1 << uint(h*3+r) }
	in := map[*ssa.BasicBlock]uint8{fn.Blocks[0]: bit(0, 0)}
	probs := map[string]bool{}
	report := false
	pass := func() bool {
		changed := false
		for _, b := range fn.Blocks {
			st, ok := in[b]
			if !ok || b == fn.Recover {
				continue
			}
			for _, ins := range b.Instrs {
				if ci, ok := ins.(ssa.CallInstruction); ok && calleeName(ci.Common()) == release {
					var o uint8
					for h := 0; h <= 1; h++ {
						for r := 0; r <= 2; r++ {
							if st&bit(h, r) == 0 {
								continue
							}
							if h == 0 && report {
								probs["a token is released on a path that never received one, at "+c.P.InstrPos(ins)] = true
							}
							nr := r + 1
							if nr > 2 {
								nr = 2
							}
							o |= bit(h, nr)
						}
					}
					st = o
				}
				if ret, ok := ins.(*ssa.Return); ok && report {
					success := RetNil{}.Match(ret)
					for h := 0; h <= 1; h++ {
						for r := 0; r <= 2; r++ {
							if st&bit(h, r) == 0 {
								continue
							}
							switch {
							case success && (h != 1 || r != 0):
								probs[fmt.Sprintf("the success return at %s is reachable with held=%d released=%d (the queued plan must keep exactly its token)", c.P.InstrPos(ret), h, r)] = true
							case !success && h == 1 && r == 0:
								probs["a failing return leaks the capacity token at "+c.P.InstrPos(ret)] = true
							case !success && r > h:
								probs["a failing return released more tokens than it held at "+c.P.InstrPos(ret)] = true
							}
						}
					}
				}
			}
			for si, s := range b.Succs {
				o := st
				if acq[edge{b, si}] {
					o = 0
					for h := 0; h <= 1; h++ {
						for r := 0; r <= 2; r++ {
							if st&bit(h, r) != 0 {
								o |= bit(1, r)
							}
						}
					}
				}
				if in[s]|o != in[s] {
					in[s] |= o
					changed = true
				}
			}
		}
		return changed
	}
	for i := 0; i < 64 && pass(); i++ {
	}
	report = true
	pass()
	var bad []string
	for p := range probs {
		bad = append(bad, p)
	}
	c31Result(c, "order", rule, construct, fn, len(acq), bad, fmt.Sprintf("%d acquire edge(s); every failing exit after the acquire releases exactly one token, the success exit keeps it, nothing is released unheld", len(acq)))
}

// c31CallCountAtReturns: the number of executions of eff on any path to a return is within the
// set allowed for that return (selected by the rendering of result retIdx; "*" / "" = every return).
func c31CallCountAtReturns(c *Ctx, rule string, fn *ssa.Function, eff Effect, want map[string]string, retIdx int) {
	if fn == nil {
		return
	}
	name := c.P.Name(fn)
	in := map[*ssa.BasicBlock]uint8{fn.Blocks[0]: 1} // bit k: count k (2 = two or more)
	step := func(st uint8, ins ssa.Instruction) uint8 {
		if _, isDefer := ins.(*ssa.Defer); isDefer || !eff.Match(ins) {
			return st
		}
		var o uint8
		if st&1 != 0 {
			o |= 2
		}
		if st&6 != 0 {
			o |= 4
		}
		return o
	}
	for iter := 0; iter < 64; iter++ {
		changed := false
		for _, b := range fn.Blocks {
			st, ok := in[b]
			if !ok || b == fn.Recover {
				continue
			}
			for _, ins := range b.Instrs {
				st = step(st, ins)
			}
			for _, s := range b.Succs {
				if in[s]|st != in[s] {
					in[s] |= st
					changed = true
				}
			}
		}
		if !changed {
			break
		}
	}
	n := 0
	var bad []string
	for _, b := range fn.Blocks {
		st, ok := in[b]
		if !ok || b == fn.Recover {
			continue
		}
		for _, ins := range b.Instrs {
			st = step(st, ins)
			ret, ok := ins.(*ssa.Return)
			if !ok {
				continue
			}
			key := ""
			if retIdx < len(ret.Results) {
				key = Path(retOperand(ret, retIdx))
			}
			allowed, ok := want[key]
			if !ok {
				if allowed, ok = want["*"]; !ok {
					if allowed, ok = want[""]; !ok {
						continue
					}
				}
			}
			n++
			for k, label := range []string{"0", "1", "2"} {
				if st&(1<<uint(k)) != 0 && !strings.Contains("|"+allowed+"|", "|"+label+"|") {
					bad = append(bad, fmt.Sprintf("return %s at %s reachable with %s execution(s) of %q (allowed %s)", key, c.P.InstrPos(ret), map[string]string{"0": "0", "1": "1", "2": "≥2"}[label], eff.String(), allowed))
				}
			}
		}
	}
	c31Result(c, "order", rule, name+"#count("+eff.String()+")", fn, n, bad, fmt.Sprintf("%d return(s); executions of %q per path within %v", n, eff.String(), want))
}

// c31NoSpawn: the functions contain no go statement and start no managed goroutine.
func c31NoSpawn(c *Ctx, rule string, fns ...*ssa.Function) {
	var bad, names []string
	n := 0
	for _, fn := range fns {
		if fn == nil {
			continue
		}
		for _, f := range WithClosures(fn) {
			names = append(names, c.P.Name(f))
			for _, b := range f.Blocks {
				for _, in := range b.Instrs {
					n++
					if _, ok := in.(*ssa.Go); ok {
						bad = append(bad, "go statement in "+c.P.Name(f)+" at "+c.P.InstrPos(in))
					}
					if ci, ok := in.(ssa.CallInstruction); ok && glob("pkg/goroutine.*Go*", calleeName(ci.Common())) {
						bad = append(bad, "goroutine spawn in "+c.P.Name(f)+" at "+c.P.InstrPos(in))
					}
				}
			}
		}
	}
	c31Result(c, "order", rule, "sequential:"+strings.Join(names, "+"), nil, n, bad, "no goroutine is started: plans of one shard run one after another on the worker")
}

// c31WorkerPerIndex: in Start the worker closure is spawned exactly once per iteration of a
// loop i = 0; i < r.workers; i++ and the closure's runWorker call receives that iteration's i.
func c31WorkerPerIndex(c *Ctx, rule string, fn *ssa.Function, spawnCallee, workerCallee string) {
	if fn == nil {
		return
	}
	construct := c.P.Name(fn) + "#one-worker-per-shard-index"
	var bad []string
	n := 0
	for _, ci := range c31Calls(fn, spawnCallee) {
		args := ci.Common().Args
		if len(args) != 3 {
			continue
		}
		mc, ok := args[2].(*ssa.MakeClosure)
		if !ok {
			continue
		}
		cf := mc.Fn.(*ssa.Function)
		wcalls := c31Calls(cf, workerCallee)
		if len(wcalls) == 0 {
			continue // lifecycle closure
		}
		n++
		if len(wcalls) != 1 {
			bad = append(bad, "the worker closure calls runWorker more than once")
			continue
		}
		// the shard index argument inside the closure is a load of a captured variable
		wargs := wcalls[0].Common().Args
		idx := stripConv(wargs[len(wargs)-1])
		var fv *ssa.FreeVar
		if u, ok := idx.(*ssa.UnOp); ok {
			fv, _ = u.X.(*ssa.FreeVar)
		} else {
			fv, _ = idx.(*ssa.FreeVar)
		}
		if fv == nil {
			bad = append(bad, "runWorker's shard index "+Path(idx)+" is not the captured loop index")
			continue
		}
		var bound ssa.Value
		for i, f := range cf.FreeVars {
			if f == fv {
				bound = mc.Bindings[i]
			}
		}
		// per-iteration variable: an Alloc with one store of the loop phi
		var phi *ssa.Phi
		if a, ok := bound.(*ssa.Alloc); ok {
			cnt := 0
			for _, r := range *a.Referrers() {
				if st, ok := r.(*ssa.Store); ok && st.Addr == a {
					cnt++
					phi, _ = stripConv(st.Val).(*ssa.Phi)
				}
			}
			if cnt != 1 {
				phi = nil
			}
			if a.Block() != ci.Block() {
				bad = append(bad, "the captured index variable is not created in the spawning iteration")
			}
		} else {
			phi, _ = stripConv(bound).(*ssa.Phi)
		}
		if phi == nil || len(phi.Edges) != 2 {
			bad = append(bad, "the captured shard index is not the plain loop counter (got "+Path(bound)+")")
			continue
		}
		okInit, okStep := false, false
		for _, e := range phi.Edges {
			if k, ok := e.(*ssa.Const); ok && k.Value != nil && k.Value.ExactString() == "0" {
				okInit = true
			}
			if b, ok := e.(*ssa.BinOp); ok && b.Op == token.ADD && b.X == ssa.Value(phi) {
				if k, ok := b.Y.(*ssa.Const); ok && k.Value != nil && k.Value.ExactString() == "1" {
					okStep = true
				}
			}
		}
		if !okInit || !okStep {
			bad = append(bad, "loop counter is not i = 0; i++")
		}
		// loop condition i < r.workers controls the spawning block
		hb := phi.Block()
		iff, ok := hb.Instrs[len(hb.Instrs)-1].(*ssa.If)
		if !ok {
			bad = append(bad, "loop header has no condition")
			continue
		}
		bin, ok := iff.Cond.(*ssa.BinOp)
		if !ok || bin.Op != token.LSS || bin.X != ssa.Value(phi) || Path(bin.Y) != "r.workers" {
			bad = append(bad, "loop bound is not i < r.workers")
		}
		if hb.Succs[0] != ci.Block() {
			bad = append(bad, "the spawn is not executed unconditionally once per iteration")
		}
		cnt := 0
		for _, x := range ci.Block().Instrs {
			if y, ok := x.(ssa.CallInstruction); ok && calleeName(y.Common()) == spawnCallee {
				cnt++
			}
		}
		if cnt != 1 {
			bad = append(bad, "more than one spawn per iteration")
		}
	}
	if n > 1 {
		bad = append(bad, "workers are spawned at more than one site")
	}
	c31Result(c, "order", rule, construct, fn, n, bad, "one spawn per iteration of i=0..r.workers-1, the closure passes that i to runWorker")
}

// ---------------------------------------------------------------------------
// helpers part 3: exact-route and offline-coverage value checks

// c31VarargValue: for a builtin append(x, varargs[:]) call, the single element stored in varargs[0].
func c31VarargValue(call *ssa.Call) ssa.Value {
	if len(call.Call.Args) != 2 {
		return nil
	}
	sl, ok := call.Call.Args[1].(*ssa.Slice)
	if !ok {
		return nil
	}
	a, ok := sl.X.(*ssa.Alloc)
	if !ok || a.Referrers() == nil {
		return nil
	}
	var val ssa.Value
	n := 0
	for _, r := range *a.Referrers() {
		ia, ok := r.(*ssa.IndexAddr)
		if !ok || ia.Referrers() == nil {
			continue
		}
		for _, rr := range *ia.Referrers() {
			if st, ok := rr.(*ssa.Store); ok && st.Addr == ssa.Value(ia) {
				n++
				val = st.Val
			}
		}
	}
	if n != 1 {
		return nil
	}
	return val
}

func c31IsAppend(in ssa.Instruction) (*ssa.Call, bool) {
	call, ok := in.(*ssa.Call)
	if !ok {
		return nil, false
	}
	b, ok := call.Call.Value.(*ssa.Builtin)
	return call, ok && b.Name() == "append"
}

// c31RouteIndex: v is (a single-assignment copy of) push.Routes[i]; returns i.
func c31RouteIndex(v ssa.Value) (ssa.Value, bool) {
	o := c31Origin(v)
	u, ok := o.(*ssa.UnOp)
	if !ok || u.Op != token.MUL {
		return nil, false
	}
	ia, ok := u.X.(*ssa.IndexAddr)
	if !ok || Path(ia.X) != "push.Routes" {
		return nil, false
	}
	return stripConv(ia.Index), true
}

// c31ExactRouteSites: in pushOwnerLocal every route that is written to a session, classified
// into result.{Accepted,Retryable,Dropped} or sampled as failure is the one SSA value
// push.Routes[i] of the current iteration, and the result lists only ever grow by that one route.
func c31ExactRouteSites(c *Ctx, rule string, fn *ssa.Function) {
	if fn == nil {
		return
	}
	lists := []string{"*.Accepted", "*.Retryable", "*.Dropped"}
	var bad []string
	var route ssa.Value
	n := 0
	note := func(v ssa.Value, what string, in ssa.Instruction) {
		n++
		o := c31Origin(v)
		if _, ok := c31RouteIndex(v); !ok {
			bad = append(bad, what+" uses "+Path(v)+", which is not push.Routes[i], at "+c.P.InstrPos(in))
			return
		}
		if route == nil {
			route = o
		} else if route != o {
			bad = append(bad, what+" uses a different route value than the other sites of the iteration ("+Path(v)+") at "+c.P.InstrPos(in))
		}
	}
	for _, b := range fn.Blocks {
		for _, in := range b.Instrs {
			switch x := in.(type) {
			case *ssa.Store:
				p := Path(x.Addr)
				if globAny(lists, p) {
					call, ok := c31IsAppend(instrOf(x.Val))
					if !ok || Path(call.Call.Args[0]) != p {
						bad = append(bad, p+" is assigned "+Path(x.Val)+" instead of growing by one route, at "+c.P.InstrPos(in))
						continue
					}
					v := c31VarargValue(call)
					if v == nil {
						bad = append(bad, p+" grows by something other than one route at "+c.P.InstrPos(in))
						continue
					}
					note(v, "append to "+p, in)
				}
				if fa, ok := x.Addr.(*ssa.FieldAddr); ok && ownerTypeName(fa.X.Type()) == "LocalSessionWrite" && fieldName(fa.X.Type(), fa.Field) == "Route" {
					note(x.Val, "session write", in)
				}
			case ssa.CallInstruction:
				if calleeName(x.Common()) == c31D+"setOwnerPushFailure" && len(x.Common().Args) == 3 {
					note(x.Common().Args[1], "failure sample", in)
				}
			}
		}
	}
	if n < 7 && len(bad) == 0 {
		bad = append(bad, fmt.Sprintf("only %d route sites found, hand-confirmed 12", n))
	}
	c31Result(c, "shape", rule, c.P.Name(fn)+"#one-route-per-iteration", fn, n, bad,
		fmt.Sprintf("%d site(s) (session write, result classification, failure sample) all use the single value push.Routes[i] of their iteration", n))
}

func instrOf(v ssa.Value) ssa.Instruction {
	in, _ := v.(ssa.Instruction)
	return in
}

// c31PendingRowFromSameRoute: pendings[i] is filled from push.Routes[i] (same index value).
func c31PendingRowFromSameRoute(c *Ctx, rule string, fn *ssa.Function) {
	if fn == nil {
		return
	}
	var bad []string
	n := 0
	for _, in := range instrsMatching(fn, StoreTo{Addr: "make([]PendingRecvAck, *)[*]"}) {
		st := in.(*ssa.Store)
		ia, ok := st.Addr.(*ssa.IndexAddr)
		if !ok {
			continue
		}
		n++
		u, ok := st.Val.(*ssa.UnOp)
		lit, ok2 := (ssa.Value)(nil), false
		if ok {
			lit, ok2 = u.X.(*ssa.Alloc)
		}
		if !ok2 {
			bad = append(bad, "pending row is not a PendingRecvAck literal")
			continue
		}
		for _, f := range []string{"UID", "SessionID"} {
			found := false
			for _, r := range *lit.(*ssa.Alloc).Referrers() {
				fa, ok := r.(*ssa.FieldAddr)
				if !ok || fieldName(fa.X.Type(), fa.Field) != f {
					continue
				}
				for _, rr := range *fa.Referrers() {
					s2, ok := rr.(*ssa.Store)
					if !ok {
						continue
					}
					found = true
					// value = <route>.F where route = push.Routes[j]
					var base ssa.Value
					switch y := stripConv(s2.Val).(type) {
					case *ssa.UnOp:
						if fa2, ok := y.X.(*ssa.FieldAddr); ok && fieldName(fa2.X.Type(), fa2.Field) == f {
							if a, ok := fa2.X.(*ssa.Alloc); ok {
								for _, q := range *a.Referrers() {
									if s3, ok := q.(*ssa.Store); ok && s3.Addr == ssa.Value(a) {
										base = s3.Val
									}
								}
							}
						}
					case *ssa.Field:
						if fieldName(y.X.Type(), y.Field) == f {
							base = y.X
						}
					}
					j, ok := (ssa.Value)(nil), false
					if base != nil {
						j, ok = c31RouteIndex(base)
					}
					if !ok || j != stripConv(ia.Index) {
						bad = append(bad, "pendings[i]."+f+" is not taken from push.Routes[i]."+f+" (got "+Path(s2.Val)+")")
					}
				}
			}
			if !found {
				bad = append(bad, "pending row literal does not set "+f)
			}
		}
	}
	c31Result(c, "shape", rule, c.P.Name(fn)+"#pending-row-of-same-route", fn, n, bad, "pendings[i] carries UID/SessionID of push.Routes[i]")
}

// c31RetryNarrowsToOwnResult: the routes re-pushed are the Retryable list of the result returned
// by the routeOwnerPush call of the same attempt.
func c31RetryNarrowsToOwnResult(c *Ctx, rule string, fn *ssa.Function) {
	if fn == nil {
		return
	}
	var bad []string
	n := 0
	for _, in := range instrsMatching(fn, StoreTo{Addr: "push.Routes"}) {
		n++
		st := in.(*ssa.Store)
		fa, ok := c31FieldLoad(st.Val, "Retryable")
		if !ok {
			bad = append(bad, "push.Routes is set to "+Path(st.Val)+", not to a result's Retryable list")
			continue
		}
		a, ok := fa.X.(*ssa.Alloc)
		if !ok {
			bad = append(bad, "the result holder is not a local")
			continue
		}
		for _, r := range *a.Referrers() {
			s2, ok := r.(*ssa.Store)
			if !ok || s2.Addr != ssa.Value(a) {
				continue
			}
			ex, ok := s2.Val.(*ssa.Extract)
			call, ok2 := (*ssa.Call)(nil), false
			if ok {
				call, ok2 = ex.Tuple.(*ssa.Call)
			}
			if !ok2 || ex.Index != 0 || calleeName(&call.Call) != c31D+"Runtime.routeOwnerPush" {
				bad = append(bad, "the narrowed result comes from "+Path(s2.Val)+", not from routeOwnerPush")
			} else if !s2.Block().Dominates(st.Block()) {
				bad = append(bad, "the result is not the one of the attempt that precedes the narrowing")
			}
		}
	}
	c31Result(c, "shape", rule, c.P.Name(fn)+"#retry-narrows-to-own-result", fn, n, bad, "push.Routes := Retryable of the routeOwnerPush result of the same attempt")
}

func c31IsRouteSlice(t types.Type) bool {
	s, ok := t.Underlying().(*types.Slice)
	return ok && typeBaseName(s.Elem()) == "Route"
}

// c31GroupedByOwnOwner: the per-owner route map only grows by m[R.OwnerNodeID] = append(m[R.OwnerNodeID], R).
func c31GroupedByOwnOwner(c *Ctx, rule string, fn *ssa.Function) {
	if fn == nil {
		return
	}
	var bad []string
	n := 0
	for _, b := range fn.Blocks {
		for _, in := range b.Instrs {
			mu, ok := in.(*ssa.MapUpdate)
			if !ok || !c31IsRouteSlice(mu.Value.Type()) {
				continue
			}
			n++
			call, ok := c31IsAppend(instrOf(mu.Value))
			if !ok {
				bad = append(bad, "owner group is assigned "+Path(mu.Value)+" instead of growing by one route")
				continue
			}
			R := c31VarargValue(call)
			if R == nil {
				bad = append(bad, "owner group grows by something other than one route")
				continue
			}
			want := Path(R) + ".OwnerNodeID"
			if Path(mu.Key) != want {
				bad = append(bad, fmt.Sprintf("route %s is filed under owner %s, expected %s", Path(R), Path(mu.Key), want))
			}
			if lk, ok := stripConv(call.Call.Args[0]).(*ssa.Lookup); !ok || Path(lk.X) != Path(mu.Map) || Path(lk.Index) != want {
				bad = append(bad, "owner group is rebuilt from "+Path(call.Call.Args[0])+", not from the same owner's group")
			}
		}
	}
	c31Result(c, "shape", rule, c.P.Name(fn)+"#grouped-by-route-owner", fn, n, bad, "every route is appended to the group of its own OwnerNodeID")
}

// c31OwnerPushLiteral: the OwnerPush built per batch carries owner X, the plan's event and a
// sub-slice of exactly group[X].
func c31OwnerPushLiteral(c *Ctx, rule string, fn *ssa.Function) {
	if fn == nil {
		return
	}
	vals := map[string]ssa.Value{}
	n := 0
	for _, b := range fn.Blocks {
		for _, in := range b.Instrs {
			st, ok := in.(*ssa.Store)
			if !ok {
				continue
			}
			if fa, ok := st.Addr.(*ssa.FieldAddr); ok && ownerTypeName(fa.X.Type()) == "OwnerPush" {
				if _, ok := fa.X.(*ssa.Alloc); ok {
					n++
					vals[fieldName(fa.X.Type(), fa.Field)] = st.Val
				}
			}
		}
	}
	var bad []string
	if n > 0 {
		owner, routes, ev := vals["OwnerNodeID"], vals["Routes"], vals["Event"]
		if owner == nil || routes == nil || ev == nil {
			bad = append(bad, "OwnerPush literal does not set OwnerNodeID, Event and Routes")
		} else {
			if Path(ev) != "plan.Event" {
				bad = append(bad, "OwnerPush.Event is "+Path(ev)+", not plan.Event")
			}
			sl, ok := stripConv(routes).(*ssa.Slice)
			var lk *ssa.Lookup
			if ok {
				lk, _ = c31Origin(sl.X).(*ssa.Lookup)
			}
			if lk == nil || !c31IsRouteSlice(lk.Type()) || Path(lk.Index) != Path(owner) {
				bad = append(bad, fmt.Sprintf("OwnerPush.Routes (%s) is not a sub-slice of the group of owner %s", Path(routes), Path(owner)))
			}
		}
	}
	c31Result(c, "shape", rule, c.P.Name(fn)+"#owner-push-carries-own-group", fn, n, bad, "OwnerPush{OwnerNodeID: X, Event: plan.Event, Routes: group[X][a:b]}")
}

// c31OfflineOnlyIfAbsent: appendOfflineUIDs appends U only behind "U not among the target's
// resolved routes" and "U not reported before", and marks U as reported in the same step.
func c31OfflineOnlyIfAbsent(c *Ctx, rule string, fn *ssa.Function) {
	if fn == nil {
		return
	}
	name := c.P.Name(fn)
	var app *ssa.Call
	for _, b := range fn.Blocks {
		for _, in := range b.Instrs {
			if call, ok := c31IsAppend(in); ok {
				if app != nil {
					c.add("shape", rule, name+"#offline-append", Violated, c.P.InstrPos(in), "more than one append site")
					return
				}
				app = call
			}
		}
	}
	if app == nil || c31VarargValue(app) == nil {
		c.add("shape", rule, name+"#offline-append", Undecided, c.P.Pos(fn.Pos()), "no single-element append found (vacuous)")
		return
	}
	U := Path(c31VarargValue(app))
	online := ""
	marked := false
	var bad []string
	for _, b := range fn.Blocks {
		for _, in := range b.Instrs {
			mu, ok := in.(*ssa.MapUpdate)
			if !ok {
				continue
			}
			if Path(mu.Map) == "seen" {
				if Path(mu.Key) == U && b == app.Block() {
					marked = true
				}
				continue
			}
			online = Path(mu.Map)
			// key must be the UID of an element of `routes`
			k := Path(mu.Key)
			base := strings.TrimSuffix(k, ".UID")
			if base == k {
				bad = append(bad, "online set keyed by "+k+", not by a route UID")
				continue
			}
			okSrc := glob("routes[*]", base)
			if !okSrc {
				for _, x := range instrsMatching(fn, StoreTo{Addr: base}) {
					if glob("routes[*]", Path(x.(*ssa.Store).Val)) {
						okSrc = true
					}
				}
			}
			if !okSrc {
				bad = append(bad, "online set is not built from the resolved routes (key "+k+")")
			}
		}
	}
	if !marked {
		bad = append(bad, "the appended recipient "+U+" is not marked in `seen` in the same step (duplicates across targets)")
	}
	if online == "" {
		bad = append(bad, "no online-UID set is built from the routes")
	}
	if len(bad) > 0 {
		c.add("shape", rule, name+"#offline-append", Violated, c.P.InstrPos(app), strings.Join(bad, "; "))
		return
	}
	c.add("shape", rule, name+"#offline-append", Held, c.P.InstrPos(app), "appends "+U+" and marks it seen in the same block; online set "+online+" built from routes[*].UID")
	eff := InstrFn{"append offline UID", func(in ssa.Instruction) bool { return in == ssa.Instruction(app) }}
	c.Guard(rule, fn, eff, online+"["+U+"]#1 == false", "seen["+U+"]#1 == false")
	c33like := strings.TrimSuffix(U, ".UID")
	if c33like != U {
		if glob("target.Recipients[*]", c33like) {
			// the appended UID is read straight from the target's recipient (a read-only local renders as its source)
			c.add("shape", rule, name+"#storeshape:recipient", Held, c.P.InstrPos(app), "the appended UID is "+U)
		} else {
			c.StoreShape(rule, fn, c33like, "target.Recipients[*]")
		}
	}
}

// c31OfflineArgsAligned: appendOfflineUIDs receives plan.Targets[i] together with resolved[i].Routes.
func c31OfflineArgsAligned(c *Ctx, rule string, fn *ssa.Function) {
	if fn == nil {
		return
	}
	var bad []string
	n := 0
	for _, ci := range c31Calls(fn, c31D+"appendOfflineUIDs") {
		n++
		args := ci.Common().Args
		var ti, ri ssa.Value
		if u, ok := c31Origin(args[2]).(*ssa.UnOp); ok {
			if ia, ok := u.X.(*ssa.IndexAddr); ok && Path(ia.X) == "plan.Targets" {
				ti = stripConv(ia.Index)
			}
		}
		if fa, ok := c31FieldLoad(args[3], "Routes"); ok {
			if ia, ok := fa.X.(*ssa.IndexAddr); ok && strings.Contains(Path(ia.X), "EndpointsByTargets(") {
				ri = stripConv(ia.Index)
			}
		}
		if ti == nil || ri == nil || ti != ri {
			bad = append(bad, "appendOfflineUIDs is not called with plan.Targets[i] and the presence result of the same i")
		}
	}
	c31Result(c, "shape", rule, c.P.Name(fn)+"#offline-target-aligned-with-result", fn, n, bad, "target and resolved routes passed to appendOfflineUIDs share one index value")
	c.Guard(rule, fn, CallTo{c31D + "appendOfflineUIDs"}, "*.Err == nil", "* < len(*EndpointsByTargets(*))")
}

// c31EveryIterationDoes: in the loop ranging over a slice whose rendering matches over, every
// iteration executes eff unless it leaves the body through an edge establishing skipGuard.
func c31EveryIterationDoes(c *Ctx, rule string, fn *ssa.Function, over string, eff Effect, skipGuard string) {
	if fn == nil {
		return
	}
	removed, _ := guardEdges(fn, parseGuard(skipGuard))
	var bad []string
	n := 0
	for _, h := range fn.Blocks {
		if len(h.Instrs) == 0 {
			continue
		}
		iff, ok := h.Instrs[len(h.Instrs)-1].(*ssa.If)
		if !ok {
			continue
		}
		bin, ok := iff.Cond.(*ssa.BinOp)
		if !ok || bin.Op != token.LSS {
			continue
		}
		arg, ok := c31IsLen(bin.Y)
		if !ok || !glob(over, Path(arg)) {
			continue
		}
		n++
		body := h.Succs[0]
		seen := map[*ssa.BasicBlock]bool{body: true}
		work := []*ssa.BasicBlock{body}
		for len(work) > 0 {
			b := work[len(work)-1]
			work = work[:len(work)-1]
			cut := false
			for _, in := range b.Instrs {
				if eff.Match(in) {
					cut = true
					break
				}
			}
			if cut {
				continue
			}
			for si, s := range b.Succs {
				if removed[edge{b, si}] {
					continue
				}
				if s == h {
					bad = append(bad, fmt.Sprintf("an iteration over %s can finish without %q and without %q (back edge from block at %s)", Path(arg), eff.String(), skipGuard, c.P.InstrPos(b.Instrs[len(b.Instrs)-1])))
					continue
				}
				if !seen[s] {
					seen[s] = true
					work = append(work, s)
				}
			}
		}
	}
	c31Result(c, "guard", rule, c.P.Name(fn)+"#every("+over+")→"+eff.String(), fn, n, dedup(bad), fmt.Sprintf("%d loop(s): each iteration performs %q unless %q", n, eff.String(), skipGuard))
}

func c31IsLen(v ssa.Value) (ssa.Value, bool) {
	call, ok := stripConv(v).(*ssa.Call)
	if !ok {
		return nil, false
	}
	if b, ok := call.Call.Value.(*ssa.Builtin); ok && b.Name() == "len" && len(call.Call.Args) == 1 {
		return call.Call.Args[0], true
	}
	return nil, false
}
