package main

import (
	"fmt"
	"go/constant"
	"go/token"
	"go/types"
	"strings"

	"golang.org/x/tools/go/ssa"
)

func init() {
	const enc = "pkg/protocol/wkprotoenc/crypto.go"
	const gwenc = "pkg/gateway/wkprotoenc/crypto.go"
	const adapter = "pkg/gateway/protocol/wkproto/adapter.go"
	register(&PropSpec{
		ID: "C25",
		Pkgs: []string{
			"./pkg/protocol/wkprotoenc", "./pkg/gateway/wkprotoenc", "./pkg/gateway/protocol/wkproto",
			"./pkg/gateway", "./pkg/gateway/types", "./pkg/protocol/frame",
		},
		Technique: "static analysis: SSA edge-dominance guards on validate/decrypt paths + value-chain extraction of the signed buffer + pure-delegation and key-derivation call-shape checks + who-may-call confinement",
		Explain:   "Decides the structural clauses of tamper evidence and key agreement: (R1) ValidateSendPacket[WithCrypto] returns nil only behind packet.MsgKey == the key freshly computed by SendMsgKey[WithCrypto](packet, same keys) and that computation succeeding; the gateway adapter reaches DecryptPayload[WithCrypto] only behind the matching Validate == nil with the same session crypto, overwrites send.Payload only with the decrypt result, Adapter.Decode appends a SEND frame only if decryptSendPacketForSession returned nil (or the frame is not a SEND / carries SettingNoEncrypt / the session has encryption off), and nobody else in the gateway calls the decrypt entry points; (R2) the buffer signed by SendMsgKeyWithCrypto is exactly dec(ClientSeq)+ClientMsgNo+ChannelID+dec(ChannelType)+Payload starting from an empty slice, and msgKeyWithCrypto is md5hex(base64(aes-cbc(pkcs7(sign)))) in that order; (R3) every pkg/gateway/wkprotoenc crypto function is a pure delegation to its pkg/protocol/wkprotoenc namesake, server and client both derive AESKey as deriveAESKey(sharedSecret(own private, peer public)) from one key pair, and the authenticator publishes ServerKey/Salt and stores the session AES key/IV/crypto from the same NegotiateServerSession result; (R4) decryptCBCBlocks/pkcs7UnpadView/aesBlockAndIV index and slice their inputs only behind the non-empty, multiple-of-block-size and length checks, and the unpad loop advances only over bytes equal to the pad byte. NOT decided: decrypt(encrypt(x)) == x and key equality as values (X25519/AES/MD5/base64 arithmetic is trusted), that two different packets never share a MsgKey, the RECV direction's VerityBytes field list, constant-time comparison, and that clients outside this module build the same signed buffer.",
		Run:       c25,
		Mutants: []Mutant{
			{Name: "validate-accept-empty-key", File: enc,
				Old:    "\texpected, err := SendMsgKeyWithCrypto(packet, sessionCrypto)\n\tif err != nil {\n\t\treturn err\n\t}\n\tif packet.MsgKey != expected {",
				New:    "\texpected, err := SendMsgKeyWithCrypto(packet, sessionCrypto)\n\tif err != nil {\n\t\treturn err\n\t}\n\tif packet.MsgKey != \"\" && packet.MsgKey != expected {",
				Expect: "C25/R1-validate/*ValidateSendPacketWithCrypto*"},
			{Name: "validate-drop-keyerr", File: enc,
				Old:    "\texpected, err := SendMsgKey(packet, keys)\n\tif err != nil {\n\t\treturn err\n\t}",
				New:    "\texpected, _ := SendMsgKey(packet, keys)",
				Expect: "C25/R1-validate/*ValidateSendPacket#*"},
			{Name: "adapter-skip-validate", File: adapter,
				Old:    "\t\tif err := wkprotoenc.ValidateSendPacketWithCrypto(send, sessionCrypto); err != nil {\n\t\t\treturn err\n\t\t}\n",
				New:    "",
				Expect: "C25/R1-adapter/*DecryptPayloadWithCrypto*"},
			{Name: "adapter-validate-after-decrypt-dropped-err", File: adapter,
				Old:    "\tif err := wkprotoenc.ValidateSendPacket(send, keys); err != nil {\n\t\treturn err\n\t}\n",
				New:    "\t_ = wkprotoenc.ValidateSendPacket(send, keys)\n",
				Expect: "C25/R1-adapter/*"},
			{Name: "decode-ignores-decrypt-error", File: adapter,
				Old:    "\t\t\t\tif err := decryptSendPacketForSession(sess, send); err != nil {\n\t\t\t\t\treturn nil, 0, err\n\t\t\t\t}",
				New:    "\t\t\t\t_ = decryptSendPacketForSession(sess, send)",
				Expect: "C25/R1-adapter/*Adapter.Decode*"},
			{Name: "signed-buffer-forgets-payload", File: enc,
				Old:    "\tbuf = append(buf, packet.Payload...)\n\treturn msgKeyWithCrypto(buf, sessionCrypto)",
				New:    "\treturn msgKeyWithCrypto(buf, sessionCrypto)",
				Expect: "C25/R2-signed/*"},
			{Name: "signed-buffer-reordered", File: enc,
				Old:    "\tbuf = append(buf, packet.ClientMsgNo...)\n\tbuf = append(buf, packet.ChannelID...)",
				New:    "\tbuf = append(buf, packet.ChannelID...)\n\tbuf = append(buf, packet.ClientMsgNo...)",
				Expect: "C25/R2-signed/*"},
			{Name: "msgkey-hashes-plaintext", File: enc,
				Old:    "\tsum := md5.Sum(encoded)\n\treturn hexMD5String(sum), nil",
				New:    "\tsum := md5.Sum(sign)\n\treturn hexMD5String(sum), nil",
				Expect: "C25/R2-msgkey/*"},
			{Name: "gateway-validate-not-delegated", File: gwenc,
				Old:    "\treturn protocolenc.ValidateSendPacketWithCrypto(packet, sessionCrypto)",
				New:    "\t_ = protocolenc.ValidateSendPacketWithCrypto(packet, sessionCrypto)\n\treturn nil",
				Expect: "C25/R3-delegate/*ValidateSendPacketWithCrypto*"},
			{Name: "client-derives-key-differently", File: enc,
				Old:    "\treturn SessionKeys{AESKey: deriveAESKey(secret), AESIV: []byte(iv)}, nil",
				New:    "\treturn SessionKeys{AESKey: secret[:16], AESIV: []byte(iv)}, nil",
				Expect: "C25/R3-derive/*DeriveClientSession*"},
			{Name: "auth-salt-not-session-iv", File: "pkg/gateway/auth.go",
				Old:    "connack.Salt = string(sessionKeys.AESIV)",
				New:    "connack.Salt = string(sessionKeys.AESKey)",
				Expect: "C25/R3-session/*"},
			{Name: "decrypt-drops-block-multiple-check", File: enc,
				Old:    "\tif len(decoded) == 0 || len(decoded)%aes.BlockSize != 0 {",
				New:    "\tif len(decoded) == 0 {",
				Expect: "C25/R4-decodesafe/*DecryptPayloadWithCrypto*"},
			{Name: "unpad-drops-length-bound", File: enc,
				Old:    "\tif padding == 0 || padding > blockSize || padding > len(payload) {",
				New:    "\tif padding == 0 || padding > blockSize {",
				Expect: "C25/R4-decodesafe/*pkcs7UnpadView*"},
			{Name: "unpad-ignores-pad-bytes", File: enc,
				Old:    "\t\tif int(payload[i]) != padding {\n\t\t\treturn nil, ErrMissingSessionKey\n\t\t}",
				New:    "\t\t_ = payload[i]",
				Expect: "C25/R4-decodesafe/*pkcs7UnpadView*"},
		},
	})
}

func c25(c *Ctx) {
	const P = "pkg/protocol/wkprotoenc."
	const G = "pkg/gateway/wkprotoenc."
	const A = "pkg/gateway/protocol/wkproto."

	// ---- R1: validation decides acceptance -------------------------------------------------
	if fn := c.Fn(P + "ValidateSendPacket"); fn != nil {
		c.Guard("R1-validate", fn, RetNil{},
			"packet.MsgKey == "+P+"SendMsgKey(packet, keys)#0",
			P+"SendMsgKey(packet, keys)#1 == nil")
		c25CallCount(c, "R1-validate", fn, P+"SendMsgKey", 1)
	}
	if fn := c.Fn(P + "ValidateSendPacketWithCrypto"); fn != nil {
		c.Guard("R1-validate", fn, RetNil{},
			"packet.MsgKey == "+P+"SendMsgKeyWithCrypto(packet, sessionCrypto)#0",
			P+"SendMsgKeyWithCrypto(packet, sessionCrypto)#1 == nil")
		c25CallCount(c, "R1-validate", fn, P+"SendMsgKeyWithCrypto", 1)
	}
	if fn := c.Fn(P + "SendMsgKey"); fn != nil {
		// the keyed variant is the WithCrypto variant on crypto state built from the same keys
		c.Guard("R1-validate", fn, CallTo{P + "SendMsgKeyWithCrypto"}, P+"NewSessionCrypto(keys)#1 == nil")
		c25RetShape(c, "R1-validate", fn, 0, `""`, P+"SendMsgKeyWithCrypto(packet, "+P+"NewSessionCrypto(keys)#0)#0")
		c25RetShape(c, "R1-validate", fn, 1, P+"NewSessionCrypto(keys)#1", P+"SendMsgKeyWithCrypto(packet, "+P+"NewSessionCrypto(keys)#0)#1")
	}

	// adapter: decrypt only what validated, with the same crypto state; accept only what decrypted
	noEncrypt := c25Const(c, "pkg/protocol/frame", "SettingNoEncrypt")
	if fn := c.Fn(A + "decryptSendPacketForSession"); fn != nil {
		cr := G + "SessionCryptoFromSession(sess)#0"
		ks := G + "SessionKeysFromSession(sess)#0"
		c.Guard("R1-adapter", fn, CallTo{G + "DecryptPayloadWithCrypto"},
			G+"ValidateSendPacketWithCrypto(send, "+cr+") == nil",
			G+"SessionCryptoFromSession(sess)#1 == true")
		c.Guard("R1-adapter", fn, CallTo{G + "DecryptPayload"},
			G+"ValidateSendPacket(send, "+ks+") == nil",
			G+"SessionKeysFromSession(sess)#1 == true")
		c.CallShape("R1-adapter", fn, G+"DecryptPayloadWithCrypto", G+"DecryptPayloadWithCrypto(send.Payload, "+cr+")")
		c.CallShape("R1-adapter", fn, G+"DecryptPayload", G+"DecryptPayload(send.Payload, "+ks+")")
		c.Guard("R1-adapter", fn, RetNil{},
			G+"DecryptPayloadWithCrypto(send.Payload, *)#1 == nil || "+G+"DecryptPayload(send.Payload, *)#1 == nil",
			G+"ValidateSendPacketWithCrypto(send, *) == nil || "+G+"ValidateSendPacket(send, *) == nil")
		c.StoreShape("R1-adapter", fn, "send.Payload",
			G+"DecryptPayloadWithCrypto(send.Payload, "+cr+")#0", G+"DecryptPayload(send.Payload, "+ks+")#0")
		c.Guard("R1-adapter", fn, StoreTo{Addr: "send.Payload"},
			G+"DecryptPayloadWithCrypto(*)#1 == nil || "+G+"DecryptPayload(*)#1 == nil")
	}
	if fn := c.Fn(A + "Adapter.Decode"); fn != nil {
		c.Guard("R1-adapter", fn, CallTo{"append"},
			A+"decryptSendPacketForSession(sess, *) == nil || *.(SendPacket)#1 == false || pkg/protocol/frame.Setting.IsSet(*.Setting, "+noEncrypt+") == true || "+G+"SessionEncryptionEnabled(sess) == false")
		c.CallShape("R1-adapter", fn, A+"decryptSendPacketForSession", A+"decryptSendPacketForSession(sess, *.(SendPacket)#0)")
	}
	c.ConfineCalls("R1-confine", G+"DecryptPayload*", 2, A+"decryptSendPacketForSession")
	c.ConfineCalls("R1-confine", A+"decryptSendPacketForSession", 1, A+"Adapter.Decode")
	c.ConfineCalls("R1-confine", P+"DecryptPayload*", 3, P+"DecryptPayload", G+"DecryptPayload*",
		"pkg/client.Client.decryptRecv", "pkg/gateway/testkit.WKProtoClient.*") // client side of the RECV direction and the test client

	// ---- R2: what is signed and how the key is formed ---------------------------------------
	if fn := c.Fn(P + "SendMsgKeyWithCrypto"); fn != nil {
		c25SignedFields(c, "R2-signed", fn, P+"msgKeyWithCrypto", "packet",
			[]string{"ClientSeq:dec", "ClientMsgNo:raw", "ChannelID:raw", "ChannelType:dec", "Payload:raw"})
		c25RetShape(c, "R2-signed", fn, 0, `""`, P+"msgKeyWithCrypto(*, sessionCrypto)#0")
		c25RetShape(c, "R2-signed", fn, 1, P+"ErrMsgKeyMismatch", P+"msgKeyWithCrypto(*, sessionCrypto)#1")
		c25CallCount(c, "R2-signed", fn, P+"msgKeyWithCrypto", 1)
	}
	if fn := c.Fn(P + "msgKeyWithCrypto"); fn != nil {
		c.Guard("R2-msgkey", fn, CallTo{P + "encryptCBCBlocks"}, "sessionCrypto != nil", "sessionCrypto.block != nil", "after: copy(*, sign)")
		c.Guard("R2-msgkey", fn, CallTo{"encoding/base64.Encoding.Encode"}, "after: "+P+"encryptCBCBlocks")
		c.Guard("R2-msgkey", fn, CallTo{"crypto/md5.Sum"}, "after: encoding/base64.Encoding.Encode")
		c.Guard("R2-msgkey", fn, RetNil{}, "after: crypto/md5.Sum")
		// the padded copy of sign: a buffer (pooled scratch or make) of exactly len(sign)+padding bytes
		padded := "*(len(sign) + " + P + "pkcs7PaddingSize(len(sign), 16)))"
		c25ArgShape(c, "R2-msgkey", fn, P+"encryptCBCBlocks", 2, padded)
		c25ArgShape(c, "R2-msgkey", fn, "copy", 0, padded)
		// the digest input is the base64 text of the encrypted buffer, nothing else
		c25ArgShape(c, "R2-msgkey", fn, "encoding/base64.Encoding.Encode", 2, padded)
		c25ArgShape(c, "R2-msgkey", fn, "encoding/base64.Encoding.Encode", 1, "*(encoding/base64.Encoding.EncodedLen(encoding/base64.StdEncoding, len("+padded+")))")
		c25ArgShape(c, "R2-msgkey", fn, "crypto/md5.Sum", 0, "*(encoding/base64.Encoding.EncodedLen(encoding/base64.StdEncoding, len("+padded+")))")
		c25SameArg(c, "R2-msgkey", fn, "crypto/md5.Sum", 0, "encoding/base64.Encoding.Encode", 1)
		c25SameArg(c, "R2-msgkey", fn, P+"encryptCBCBlocks", 2, "encoding/base64.Encoding.Encode", 2)
		c25SameArg(c, "R2-msgkey", fn, "copy", 0, "encoding/base64.Encoding.Encode", 2)
		c25RetShape(c, "R2-msgkey", fn, 0, `""`, P+"hexMD5String(crypto/md5.Sum(*))")
		c.StoreShape("R2-msgkey", fn, "*(len(sign) + *))[*]", P+"pkcs7PaddingSize(len(sign), 16)")
	}
	if fn := c.Fn(P + "SealRecvPacketWithCrypto"); fn != nil {
		// RECV direction: the key is computed over the packet that already carries the ciphertext
		c.Guard("R2-msgkey", fn, CallTo{P + "recvMsgKeyWithCrypto"}, P+"EncryptPayloadWithCrypto(packet.Payload, sessionCrypto)#1 == nil")
		c.Guard("R2-msgkey", fn, RetNil{}, P+"recvMsgKeyWithCrypto(*)#1 == nil", P+"EncryptPayloadWithCrypto(*)#1 == nil")
		c.StoreShape("R2-msgkey", fn, "*.Payload", P+"EncryptPayloadWithCrypto(packet.Payload, sessionCrypto)#0")
		c.StoreShape("R2-msgkey", fn, "*.MsgKey", P+"recvMsgKeyWithCrypto(*, sessionCrypto)#0")
	}
	if fn := c.Fn(P + "pkcs7PaddingSize"); fn != nil {
		c25RetShape(c, "R2-msgkey", fn, 0, "phi((blockSize - (payloadLen % blockSize))|blockSize)", "(blockSize - (payloadLen % blockSize))")
	}
	if fn := c.Fn(P + "EncryptPayloadWithCrypto"); fn != nil {
		c.Guard("R2-msgkey", fn, CallTo{P + "encryptCBCBlocks"}, "sessionCrypto != nil", "sessionCrypto.block != nil", "after: copy(*, payload)")
		padded := "*(len(payload) + " + P + "pkcs7PaddingSize(len(payload), 16)))"
		c25ArgShape(c, "R2-msgkey", fn, P+"encryptCBCBlocks", 2, padded)
		c25ArgShape(c, "R2-msgkey", fn, "copy", 0, padded)
		c25ArgShape(c, "R2-msgkey", fn, "encoding/base64.Encoding.Encode", 2, padded)
		c25SameArg(c, "R2-msgkey", fn, P+"encryptCBCBlocks", 2, "encoding/base64.Encoding.Encode", 2)
		c25SameArg(c, "R2-msgkey", fn, "copy", 0, "encoding/base64.Encoding.Encode", 2)
		c25RetSameAsArg(c, "R2-msgkey", fn, 0, "encoding/base64.Encoding.Encode", 1)
		c.StoreShape("R2-msgkey", fn, "*(len(payload) + *))[*]", P+"pkcs7PaddingSize(len(payload), 16)")
		c.Guard("R2-msgkey", fn, RetNil{}, "after: encoding/base64.Encoding.Encode", "after: "+P+"encryptCBCBlocks")
	}
	c.ConfineCalls("R2-msgkey", P+"encryptCBCBlocks", 2, P+"EncryptPayloadWithCrypto", P+"msgKeyWithCrypto")

	// ---- R3: siblings --------------------------------------------------------------------------
	for _, name := range []string{
		"GenerateKeyPair", "EncodePublicKey", "DecodePublicKey", "NegotiateServerSession", "DeriveClientSession",
		"EncryptPayload", "NewSessionCrypto", "EncryptPayloadWithCrypto", "DecryptPayload", "DecryptPayloadWithCrypto",
		"SendMsgKey", "SendMsgKeyWithCrypto", "ValidateSendPacket", "ValidateSendPacketWithCrypto",
		"SealRecvPacket", "SealRecvPacketWithCrypto",
	} {
		c25Delegation(c, "R3-delegate", G+name, P+name)
	}
	c.Min("R3-delegate", 16)
	// keyed convenience wrappers inside the protocol package: same operation on crypto built from the same keys
	for _, w := range [][2]string{{"EncryptPayload", "payload"}, {"DecryptPayload", "payload"}, {"SealRecvPacket", "packet"}} {
		if fn := c.Fn(P + w[0]); fn != nil {
			c.Guard("R3-delegate", fn, CallTo{P + w[0] + "WithCrypto"}, P+"NewSessionCrypto(keys)#1 == nil")
			c.CallShape("R3-delegate", fn, P+w[0]+"WithCrypto", P+w[0]+"WithCrypto("+w[1]+", "+P+"NewSessionCrypto(keys)#0)")
			c25RetShape(c, "R3-delegate", fn, 0, "nil", P+w[0]+"WithCrypto("+w[1]+", "+P+"NewSessionCrypto(keys)#0)#0")
		}
	}
	if fn := c.Fn(P + "NegotiateServerSession"); fn != nil {
		secret := P + "sharedSecret(" + P + "GenerateKeyPair()#0, " + P + "DecodePublicKey(clientKey)#0)"
		c.Guard("R3-derive", fn, RetNil{}, P+"DecodePublicKey(clientKey)#1 == nil", P+"GenerateKeyPair()#2 == nil", secret+"#1 == nil", P+"randomIV()#1 == nil")
		c.StoreShape("R3-derive", fn, "*.AESKey", P+"deriveAESKey("+secret+"#0)")
		c.StoreShape("R3-derive", fn, "*.AESIV", P+"randomIV()#0")
		c25RetShape(c, "R3-derive", fn, 1, `""`, P+"EncodePublicKey("+P+"GenerateKeyPair()#1)")
		c25CallCount(c, "R3-derive", fn, P+"GenerateKeyPair", 1) // private and published public halves come from ONE pair
		c25CallCount(c, "R3-derive", fn, P+"randomIV", 1)
		c.LiteralComplete("R3-derive", fn, P+"SessionKeys", nil, nil)
	}
	if fn := c.Fn(P + "DeriveClientSession"); fn != nil {
		secret := P + "sharedSecret(private, " + P + "DecodePublicKey(serverKey)#0)"
		c.Guard("R3-derive", fn, RetNil{}, P+"DecodePublicKey(serverKey)#1 == nil", secret+"#1 == nil")
		c.StoreShape("R3-derive", fn, "*.AESKey", P+"deriveAESKey("+secret+"#0)")
		c.StoreShape("R3-derive", fn, "*.AESIV", "iv")
		c.LiteralComplete("R3-derive", fn, P+"SessionKeys", nil, nil)
	}
	if fn := c.Fn(P + "sharedSecret"); fn != nil {
		c25RetShape(c, "R3-derive", fn, 0, "golang.org/x/crypto/curve25519.X25519(private[:], public[:])#0")
	}
	c.ConfineCalls("R3-derive", P+"deriveAESKey", 2, P+"NegotiateServerSession", P+"DeriveClientSession")
	c.ConfineStores("R3-derive", P+"SessionKeys.AESKey", true,
		P+"NegotiateServerSession", P+"DeriveClientSession", G+"SessionKeysFromSession", "pkg/gateway/testkit.*", "pkg/client.*")
	if fn := c.Fn(P + "NewSessionCrypto"); fn != nil {
		c.StoreShape("R3-derive", fn, "*.block", P+"aesBlockAndIV(keys)#0")
		c.StoreShape("R3-derive", fn, "*.iv", P+"aesBlockAndIV(keys)#1")
		c.Guard("R3-derive", fn, RetNil{}, P+"aesBlockAndIV(keys)#2 == nil")
	}
	c.ConfineStores("R3-derive", P+"SessionCrypto.block", true, P+"NewSessionCrypto")
	c.ConfineStores("R3-derive", P+"SessionCrypto.iv", true, P+"NewSessionCrypto")

	// the authenticator hands the client the public half and IV of the very session it stores
	kAES := c25Const(c, "pkg/gateway/types", "SessionValueAESKey")
	kIV := c25Const(c, "pkg/gateway/types", "SessionValueAESIV")
	kCrypto := c25Const(c, "pkg/gateway/types", "SessionValueCrypto")
	kEnabled := c25Const(c, "pkg/gateway/types", "SessionValueEncryptionEnabled")
	if fn := c.Fn("pkg/gateway.NewWKProtoAuthenticator$1"); fn != nil {
		neg := P + "NegotiateServerSession(connect.ClientKey)"
		c25CallCount(c, "R3-session", fn, P+"NegotiateServerSession", 1)
		c.StoreShape("R3-session", fn, "*.ServerKey", neg+"#1")
		c.StoreShape("R3-session", fn, "*.Salt", "*.AESIV")
		c.StoreShape("R3-session", fn, "*["+kAES+"]", "*.AESKey")
		c.StoreShape("R3-session", fn, "*["+kIV+"]", "*.AESIV")
		c.StoreShape("R3-session", fn, "*["+kCrypto+"]", P+"NewSessionCrypto(*)#0")
		c25SameAlloc(c, "R3-session", fn, neg+"#0", []string{"*.Salt", "*[" + kAES + "]", "*[" + kIV + "]"}, P+"NewSessionCrypto")
		for _, eff := range []Effect{StoreTo{Addr: "*.ServerKey"}, StoreTo{Addr: "*.Salt"}, StoreTo{Addr: "*[" + kEnabled + "]", Val: "true"}} {
			c.Guard("R3-session", fn, eff, neg+"#2 == nil", P+"NewSessionCrypto(*)#1 == nil")
		}
	}
	if fn := c.Fn(G + "SessionKeysFromSession"); fn != nil {
		c.StoreShape("R3-session", fn, "*.AESKey", G+"bytesValue("+G+"ValueReader.Value(reader, "+kAES+"))#0")
		c.StoreShape("R3-session", fn, "*.AESIV", G+"bytesValue("+G+"ValueReader.Value(reader, "+kIV+"))#0")
	}
	if fn := c.Fn(G + "SessionCryptoFromSession"); fn != nil {
		c.CallShape("R3-session", fn, G+"ValueReader.Value", G+"ValueReader.Value(reader, "+kCrypto+")")
	}
	if fn := c.Fn(G + "SessionEncryptionEnabled"); fn != nil {
		c.CallShape("R3-session", fn, G+"ValueReader.Value", G+"ValueReader.Value(reader, "+kEnabled+")")
	}

	// ---- R4: decode safety -------------------------------------------------------------------
	if fn := c.Fn(P + "DecryptPayloadWithCrypto"); fn != nil {
		// the base64-decoded buffer, as rendered inside a comparison (nested calls are abbreviated there)
		const decoded = "make([]byte, *DecodedLen(*))[:*Decode(*)#0]"
		c.Guard("R4-decodesafe", fn, CallTo{P + "decryptCBCBlocks"},
			"len("+decoded+") != 0", "(len("+decoded+") % 16) == 0",
			"encoding/base64.Encoding.Decode(*)#1 == nil", "sessionCrypto != nil", "sessionCrypto.block != nil")
		c.Guard("R4-decodesafe", fn, RetNil{}, P+"pkcs7UnpadView(*)#1 == nil", "after: "+P+"decryptCBCBlocks")
		c.Guard("R4-decodesafe", fn, CallTo{P + "pkcs7UnpadView"}, "after: "+P+"decryptCBCBlocks")
		c25ArgShape(c, "R4-decodesafe", fn, P+"decryptCBCBlocks", 2, "make([]byte, encoding/base64.Encoding.DecodedLen(encoding/base64.StdEncoding, len(payload)))[:encoding/base64.Encoding.Decode(encoding/base64.StdEncoding, make([]byte, *), payload)#0]")
		c25SameArg(c, "R4-decodesafe", fn, P+"pkcs7UnpadView", 0, P+"decryptCBCBlocks", 2)
	}
	c.ConfineCalls("R4-decodesafe", P+"decryptCBCBlocks", 1, P+"DecryptPayloadWithCrypto")
	c.ConfineCalls("R4-decodesafe", P+"pkcs7UnpadView", 1, P+"DecryptPayloadWithCrypto")
	if fn := c.Fn(P + "pkcs7UnpadView"); fn != nil {
		idx := InstrFn{"index payload[…]", func(in ssa.Instruction) bool {
			ia, ok := in.(*ssa.IndexAddr)
			return ok && Path(ia.X) == "payload"
		}}
		c.Guard("R4-decodesafe", fn, idx, "len(payload) != 0")
		c.Guard("R4-decodesafe", fn, RetNil{},
			"len(payload) != 0",
			"(len(payload) % blockSize) == 0",
			"payload[(len(payload) - 1)] != 0",
			"payload[(len(payload) - 1)] <= blockSize",
			"payload[(len(payload) - 1)] <= len(payload)")
		c25RetShape(c, "R4-decodesafe", fn, 0, "nil", "payload[:(len(payload) - payload[(len(payload) - 1)])]")
		// the scan over the pad bytes starts at len-padding and steps only past bytes equal to the pad byte
		step := InstrFn{"loop step i+1", func(in ssa.Instruction) bool {
			b, ok := in.(*ssa.BinOp)
			if !ok || b.Op != token.ADD {
				return false
			}
			_, isPhi := b.X.(*ssa.Phi)
			k, isConst := b.Y.(*ssa.Const)
			return isPhi && isConst && k.Value != nil && k.Value.ExactString() == "1"
		}}
		// two equivalent spellings of the scan: an index loop over payload that starts at len-padding, or a range
		// loop over the sub-slice payload[len-padding:]. Either way the scan goes on to the next byte only past a
		// byte equal to the pad byte.
		_ = step
		padRegion := loopHeaders(fn, "payload[(len(payload) - payload[(len(*) - 1)]):*")
		whole := loopHeaders(fn, "payload")
		switch {
		case len(padRegion) == 1:
			c.add("shape", "R4-decodesafe", c.P.Name(fn)+"#loop-start", Held, c.P.Pos(fn.Pos()), "pad scan ranges over payload[len-padding:]")
			c.NextIterationGuarded("R4-decodesafe", fn, padRegion[0], "pad-scan", "payload[*] == payload[(len(payload) - 1)]")
		case len(whole) == 1:
			c25LoopStart(c, "R4-decodesafe", fn, "(len(payload) - payload[(len(payload) - 1)])")
			c.NextIterationGuarded("R4-decodesafe", fn, whole[0], "pad-scan", "payload[*] == payload[(len(payload) - 1)]")
		default:
			c.add("shape", "R4-decodesafe", c.P.Name(fn)+"#loop-start", Undecided, c.P.Pos(fn.Pos()), fmt.Sprintf("expected one scan loop over the pad bytes, found %d over payload and %d over payload[len-padding:]", len(whole), len(padRegion)))
		}
	}
	if fn := c.Fn(P + "aesBlockAndIV"); fn != nil {
		sl := func(p string) Effect {
			return InstrFn{"slice " + p + "[:16]", func(in ssa.Instruction) bool {
				s, ok := in.(*ssa.Slice)
				return ok && Path(s.X) == p
			}}
		}
		c.Guard("R4-decodesafe", fn, sl("keys.AESKey"), "len(keys.AESKey) >= 16")
		c.Guard("R4-decodesafe", fn, sl("keys.AESIV"), "len(keys.AESIV) >= 16")
		c.Guard("R4-decodesafe", fn, RetNil{}, "crypto/aes.NewCipher(*)#1 == nil")
	}
	if fn := c.Fn(P + "DecodePublicKey"); fn != nil {
		c.Guard("R4-decodesafe", fn, RetNil{}, "encoding/base64.Encoding.DecodeString(*)#1 == nil", "len(*) == 32")
	}
}

// ---------------------------------------------------------------------------
// helpers private to C25

// c25Const renders a package-level constant of a loaded root package the way Path renders constants.
func c25Const(c *Ctx, pkg, name string) string {
	pk := c.P.Pkgs[pkg]
	if pk != nil {
		if k, ok := pk.Types.Scope().Lookup(name).(*types.Const); ok {
			if k.Val().Kind() == constant.String {
				return fmt.Sprintf("%q", constant.StringVal(k.Val()))
			}
			return k.Val().ExactString()
		}
	}
	c.add("anchor", "anchor", pkg+"."+name, Undecided, "", "anchored constant not found (renamed/moved? update the rule table)")
	return "<missing:" + name + ">"
}

// c25Deep renders like Path but never abbreviates nested calls to "name(…)" (Path does so from
// nesting depth 3 on, which hides exactly the operands some shapes are about). Loop phis are
// rendered by Path (they are cyclic).
func c25Deep(v ssa.Value) string { return c25DeepN(v, 0) }

func c25DeepN(v ssa.Value, d int) string {
	if d > 24 {
		return "…"
	}
	switch x := v.(type) {
	case *ssa.Call:
		args := callArgs(&x.Call)
		parts := make([]string, 0, len(args))
		for _, a := range args {
			parts = append(parts, c25DeepN(a, d+1))
		}
		return calleeName(&x.Call) + "(" + strings.Join(parts, ", ") + ")"
	case *ssa.Extract:
		return c25DeepN(x.Tuple, d) + fmt.Sprintf("#%d", x.Index)
	case *ssa.BinOp:
		op := x.Op.String()
		if op == "*" {
			op = "×"
		}
		return "(" + c25DeepN(x.X, d+1) + " " + op + " " + c25DeepN(x.Y, d+1) + ")"
	case *ssa.UnOp:
		if x.Op == token.MUL {
			return c25DeepN(x.X, d)
		}
	case *ssa.Convert:
		return c25DeepN(x.X, d)
	case *ssa.ChangeType:
		return c25DeepN(x.X, d)
	case *ssa.MakeInterface:
		return c25DeepN(x.X, d)
	case *ssa.IndexAddr:
		return c25DeepN(x.X, d) + "[" + c25DeepN(x.Index, d+1) + "]"
	case *ssa.Index:
		return c25DeepN(x.X, d) + "[" + c25DeepN(x.Index, d+1) + "]"
	case *ssa.FieldAddr:
		return c25DeepN(x.X, d) + "." + fieldName(x.X.Type(), x.Field)
	case *ssa.Field:
		return c25DeepN(x.X, d) + "." + fieldName(x.X.Type(), x.Field)
	case *ssa.MakeSlice:
		return "make([]" + typeBaseName(x.Type().Underlying().(*types.Slice).Elem()) + ", " + c25DeepN(x.Len, d+1) + ")"
	case *ssa.Slice:
		s := c25DeepN(x.X, d) + "["
		if x.Low != nil {
			s += c25DeepN(x.Low, d+1)
		}
		s += ":"
		if x.High != nil {
			s += c25DeepN(x.High, d+1)
		}
		return s + "]"
	}
	return Path(v)
}

// c25RetShape: every return of fn has result idx rendering to one of globs.
func c25RetShape(c *Ctx, rule string, fn *ssa.Function, idx int, globs ...string) {
	fname := c.P.Name(fn)
	n := 0
	var bad []string
	for _, in := range instrsMatching(fn, AnyRet{}) {
		ret := in.(*ssa.Return)
		i := idx
		if i < 0 {
			i += len(ret.Results)
		}
		if i < 0 || i >= len(ret.Results) {
			continue
		}
		n++
		if s := c25Deep(retOperand(ret, i)); !globAny(globs, s) {
			bad = append(bad, s+" at "+c.P.InstrPos(in))
		}
	}
	construct := fmt.Sprintf("%s#retshape[%d]", fname, idx)
	switch {
	case n == 0:
		c.add("shape", rule, construct, Undecided, c.P.Pos(fn.Pos()), "no return with that result (vacuous)")
	case len(bad) > 0:
		c.add("shape", rule, construct, Violated, c.P.Pos(fn.Pos()), fmt.Sprintf("result %d of %s must be one of %v, found %s", idx, fname, globs, strings.Join(bad, "; ")))
	default:
		c.add("shape", rule, construct, Held, c.P.Pos(fn.Pos()), fmt.Sprintf("%d return(s), result %d always one of %v", n, idx, globs))
	}
}

func c25Calls(fn *ssa.Function, calleeGlob string) []ssa.CallInstruction {
	var out []ssa.CallInstruction
	for _, b := range fn.Blocks {
		for _, in := range b.Instrs {
			if ci, ok := in.(ssa.CallInstruction); ok && glob(calleeGlob, calleeName(ci.Common())) {
				out = append(out, ci)
			}
		}
	}
	return out
}

// c25CallCount: fn contains exactly n call sites of the callee (so "#0" and "#1" of a rendered
// call denote components of one and the same call).
func c25CallCount(c *Ctx, rule string, fn *ssa.Function, callee string, n int) {
	got := len(c25Calls(fn, callee))
	construct := c.P.Name(fn) + "#callcount:" + callee
	if got != n {
		c.add("shape", rule, construct, Violated, c.P.Pos(fn.Pos()), fmt.Sprintf("%s must call %s exactly %d time(s), found %d (results of different calls could be mixed)", c.P.Name(fn), callee, n, got))
		return
	}
	c.add("shape", rule, construct, Held, c.P.Pos(fn.Pos()), fmt.Sprintf("exactly %d call site(s)", n))
}

// c25ArgShape: argument argIdx (receiver included) of every call to callee in fn renders — at full
// depth, not abbreviated — to one of globs.
func c25ArgShape(c *Ctx, rule string, fn *ssa.Function, callee string, argIdx int, globs ...string) {
	calls := c25Calls(fn, callee)
	construct := fmt.Sprintf("%s#arg%d:%s", c.P.Name(fn), argIdx, callee)
	if len(calls) == 0 {
		c.add("shape", rule, construct, Undecided, c.P.Pos(fn.Pos()), "no call to "+callee+" (vacuous)")
		return
	}
	var bad []string
	for _, ci := range calls {
		args := callArgs(ci.Common())
		if argIdx >= len(args) {
			bad = append(bad, "too few arguments at "+c.P.InstrPos(ci))
			continue
		}
		if s := c25Deep(args[argIdx]); !globAny(globs, s) {
			bad = append(bad, s+" at "+c.P.InstrPos(ci))
		}
	}
	if len(bad) > 0 {
		c.add("shape", rule, construct, Violated, c.P.InstrPos(calls[0]), fmt.Sprintf("argument %d of %s must be %v, found %s", argIdx, callee, globs, strings.Join(bad, "; ")))
		return
	}
	c.add("shape", rule, construct, Held, c.P.InstrPos(calls[0]), fmt.Sprintf("%d call(s), argument %d always %v", len(calls), argIdx, globs))
}

// c25SameArg: argument ai of every call to calleeA is the same SSA value as argument bi of the
// (single) call to calleeB — e.g. the length that is checked is the length of the buffer decrypted.
func c25SameArg(c *Ctx, rule string, fn *ssa.Function, calleeA string, ai int, calleeB string, bi int) {
	construct := fmt.Sprintf("%s#samearg:%s[%d]=%s[%d]", c.P.Name(fn), calleeA, ai, calleeB, bi)
	bs := c25Calls(fn, calleeB)
	as := c25Calls(fn, calleeA)
	if len(bs) != 1 || len(as) == 0 {
		c.add("shape", rule, construct, Undecided, c.P.Pos(fn.Pos()), fmt.Sprintf("expected one call to %s and ≥1 to %s, found %d/%d", calleeB, calleeA, len(bs), len(as)))
		return
	}
	bargs := callArgs(bs[0].Common())
	if bi >= len(bargs) {
		c.add("shape", rule, construct, Undecided, c.P.Pos(fn.Pos()), "argument index out of range")
		return
	}
	want := stripConv(bargs[bi])
	for _, a := range as {
		args := callArgs(a.Common())
		if ai >= len(args) || stripConv(args[ai]) != want {
			c.add("shape", rule, construct, Violated, c.P.InstrPos(a), fmt.Sprintf("%s is applied to a different value than the one passed to %s", calleeA, calleeB))
			return
		}
	}
	c.add("shape", rule, construct, Held, c.P.InstrPos(bs[0]), fmt.Sprintf("%d call(s) of %s on the very value passed to %s", len(as), calleeA, calleeB))
}

// c25RetSameAsArg: every success return's result idx is the very SSA value passed as argument ai of the single call to callee.
func c25RetSameAsArg(c *Ctx, rule string, fn *ssa.Function, idx int, callee string, ai int) {
	construct := fmt.Sprintf("%s#ret[%d]=%s[%d]", c.P.Name(fn), idx, callee, ai)
	cs := c25Calls(fn, callee)
	if len(cs) != 1 || ai >= len(callArgs(cs[0].Common())) {
		c.add("shape", rule, construct, Undecided, c.P.Pos(fn.Pos()), fmt.Sprintf("expected exactly one call to %s, found %d", callee, len(cs)))
		return
	}
	want := stripConv(callArgs(cs[0].Common())[ai])
	n := 0
	for _, in := range instrsMatching(fn, RetNil{}) {
		ret := in.(*ssa.Return)
		n++
		if stripConv(retOperand(ret, idx)) != want {
			c.add("shape", rule, construct, Violated, c.P.InstrPos(in), fmt.Sprintf("the success return does not return the buffer filled by %s", callee))
			return
		}
	}
	if n == 0 {
		c.add("shape", rule, construct, Undecided, c.P.Pos(fn.Pos()), "no success return (vacuous)")
		return
	}
	c.add("shape", rule, construct, Held, c.P.InstrPos(cs[0]), fmt.Sprintf("%d success return(s) return the value filled by %s", n, callee))
}

// c25Delegation: wrapper's body is exactly `return target(params...)`.
func c25Delegation(c *Ctx, rule, wrapper, target string) {
	fn := c.Fn(wrapper)
	if fn == nil {
		return
	}
	construct := wrapper + "#delegates:" + target
	fail := func(msg string) {
		c.add("shape", rule, construct, Violated, c.P.Pos(fn.Pos()), wrapper+" is not a pure delegation to "+target+": "+msg)
	}
	if len(fn.Blocks) != 1 {
		fail("it has control flow of its own")
		return
	}
	var call *ssa.Call
	var ret *ssa.Return
	for _, in := range fn.Blocks[0].Instrs {
		switch x := in.(type) {
		case *ssa.Call:
			if call != nil {
				fail("more than one call")
				return
			}
			call = x
		case *ssa.Return:
			ret = x
		case *ssa.Alloc, *ssa.Store, *ssa.UnOp, *ssa.Extract, *ssa.DebugRef:
		default:
			fail(fmt.Sprintf("unexpected instruction %T", in))
			return
		}
	}
	if call == nil || ret == nil || calleeName(&call.Call) != target {
		fail("the single call is not to the namesake")
		return
	}
	args := callArgs(&call.Call)
	if len(args) != len(fn.Params) {
		fail("argument count differs from parameter count")
		return
	}
	for i, a := range args {
		if Path(a) != fn.Params[i].Name() {
			fail(fmt.Sprintf("argument %d is %s, not parameter %s", i, Path(a), fn.Params[i].Name()))
			return
		}
	}
	nres := call.Call.Signature().Results().Len()
	if len(ret.Results) != nres {
		fail("result count differs")
		return
	}
	for i := range ret.Results {
		v := retOperand(ret, i)
		if nres == 1 {
			if v != ssa.Value(call) {
				fail("the result is not the callee's result")
				return
			}
			continue
		}
		ex, ok := v.(*ssa.Extract)
		if !ok || ex.Tuple != ssa.Value(call) || ex.Index != i {
			fail(fmt.Sprintf("result %d is not the callee's result %d", i, i))
			return
		}
	}
	c.add("shape", rule, construct, Held, c.P.Pos(fn.Pos()), "single block, one call with the parameters in order, results returned unchanged")
}

// c25SignedFields walks the value chain that builds the first argument of the sink call backwards
// through append / strconv.AppendUint / strconv.AppendInt and compares the appended fields of
// parameter `root`, in order, with want ("Field:raw" for bytes/strings appended as is, "Field:dec"
// for base-10 text). The chain must start from an empty slice.
func c25SignedFields(c *Ctx, rule string, fn *ssa.Function, sink, root string, want []string) {
	construct := c.P.Name(fn) + "#signed-buffer→" + sink
	sinks := c25Calls(fn, sink)
	if len(sinks) != 1 {
		c.add("cover", rule, construct, Undecided, c.P.Pos(fn.Pos()), fmt.Sprintf("expected exactly one call to %s, found %d", sink, len(sinks)))
		return
	}
	field := func(v ssa.Value) string {
		v = stripConv(v)
		var fa ssa.Value
		switch x := v.(type) {
		case *ssa.UnOp:
			if x.Op == token.MUL {
				fa = x.X
			}
		case *ssa.Field:
			return "?" + Path(x)
		}
		if f, ok := fa.(*ssa.FieldAddr); ok && Path(f.X) == root {
			return fieldName(f.X.Type(), f.Field)
		}
		return "?" + Path(v)
	}
	var got []string
	v := stripConv(callArgs(sinks[0].Common())[0])
	for steps := 0; ; steps++ {
		if steps > 64 {
			c.add("cover", rule, construct, Undecided, c.P.InstrPos(sinks[0]), "value chain too long / cyclic")
			return
		}
		switch x := v.(type) {
		case *ssa.Call:
			name := calleeName(&x.Call)
			args := x.Call.Args
			switch {
			case name == "append" && len(args) == 2:
				got = append([]string{field(args[1]) + ":raw"}, got...)
				v = stripConv(args[0])
				continue
			case (name == "strconv.AppendUint" || name == "strconv.AppendInt") && len(args) == 3:
				enc := ":dec"
				if k, ok := args[2].(*ssa.Const); !ok || k.Value == nil || k.Value.ExactString() != "10" {
					enc = ":base?"
				}
				got = append([]string{field(args[1]) + enc}, got...)
				v = stripConv(args[0])
				continue
			}
			c.add("cover", rule, construct, Undecided, c.P.InstrPos(x), "signed buffer is built by an unrecognised call "+name)
			return
		case *ssa.MakeSlice:
			if k, ok := x.Len.(*ssa.Const); !ok || k.Value == nil || k.Value.ExactString() != "0" {
				c.add("cover", rule, construct, Violated, c.P.InstrPos(sinks[0]), "signed buffer does not start empty: "+Path(x))
				return
			}
		case *ssa.Slice:
			// make([]byte, 0, n) with constant n is an array alloc sliced [:0]
			if k, ok := x.High.(*ssa.Const); !ok || k.Value == nil || k.Value.ExactString() != "0" {
				c.add("cover", rule, construct, Undecided, c.P.InstrPos(sinks[0]), "signed buffer starts from an unrecognised slice "+Path(x))
				return
			}
		case *ssa.Const:
			if x.Value != nil {
				c.add("cover", rule, construct, Undecided, c.P.InstrPos(sinks[0]), "signed buffer starts from "+Path(x))
				return
			}
		default:
			c.add("cover", rule, construct, Undecided, c.P.InstrPos(sinks[0]), "signed buffer starts from an unrecognised value "+Path(v))
			return
		}
		break
	}
	if strings.Join(got, ",") != strings.Join(want, ",") {
		c.add("cover", rule, construct, Violated, c.P.InstrPos(sinks[0]), fmt.Sprintf("signed buffer is %v, the wire contract is %v", got, want))
		return
	}
	c.add("cover", rule, construct, Held, c.P.InstrPos(sinks[0]), fmt.Sprintf("signed buffer = %v from an empty slice", got))
}

// c25SameAlloc: the values stored at the listed addresses, and the argument of the listed call, are
// loads from the one local that holds the value rendering to srcGlob (the session keys negotiated in
// this very invocation, not some other SessionKeys value).
func c25SameAlloc(c *Ctx, rule string, fn *ssa.Function, srcGlob string, addrs []string, argOf string) {
	construct := c.P.Name(fn) + "#same-session-keys"
	var home *ssa.Alloc
	for _, in := range instrsMatching(fn, StoreTo{Val: srcGlob, Addr: "*"}) {
		if st, ok := in.(*ssa.Store); ok {
			if a, ok := st.Addr.(*ssa.Alloc); ok {
				if home != nil && home != a {
					c.add("shape", rule, construct, Undecided, c.P.InstrPos(in), "negotiated keys are kept in more than one local")
					return
				}
				home = a
			}
		}
	}
	if home == nil {
		c.add("shape", rule, construct, Undecided, c.P.Pos(fn.Pos()), "no local holds "+srcGlob)
		return
	}
	// the home local is written exactly once
	nst := 0
	for _, r := range *home.Referrers() {
		if st, ok := r.(*ssa.Store); ok && st.Addr == ssa.Value(home) {
			nst++
		}
	}
	if nst != 1 {
		c.add("shape", rule, construct, Violated, c.P.Pos(home.Pos()), "the negotiated session keys local is overwritten")
		return
	}
	rootAlloc := func(v ssa.Value) ssa.Value {
		v = stripConv(v)
		for {
			switch x := v.(type) {
			case *ssa.UnOp:
				if x.Op == token.MUL {
					v = x.X
					continue
				}
			case *ssa.FieldAddr:
				v = x.X
				continue
			case *ssa.MakeInterface:
				v = x.X
				continue
			case *ssa.Convert:
				v = x.X
				continue
			case *ssa.ChangeType:
				v = x.X
				continue
			}
			return v
		}
	}
	n := 0
	for _, ag := range addrs {
		for _, in := range instrsMatching(fn, StoreTo{Addr: ag}) {
			var val ssa.Value
			switch st := in.(type) {
			case *ssa.Store:
				val = st.Val
			case *ssa.MapUpdate:
				val = st.Value
			}
			n++
			if rootAlloc(val) != ssa.Value(home) {
				c.add("shape", rule, construct, Violated, c.P.InstrPos(in), fmt.Sprintf("value stored to %s does not come from the session keys negotiated by this call", ag))
				return
			}
		}
	}
	for _, ci := range c25Calls(fn, argOf) {
		n++
		if args := callArgs(ci.Common()); len(args) == 0 || rootAlloc(args[0]) != ssa.Value(home) {
			c.add("shape", rule, construct, Violated, c.P.InstrPos(ci), argOf+" is not applied to the session keys negotiated by this call")
			return
		}
	}
	if n < len(addrs)+1 {
		c.add("shape", rule, construct, Undecided, c.P.Pos(fn.Pos()), "some of the session stores were not found")
		return
	}
	c.add("shape", rule, construct, Held, c.P.Pos(home.Pos()), fmt.Sprintf("%d use(s), all read the single local assigned from %s", n, srcGlob))
}

// c25LoopStart: fn has exactly one loop counter phi whose step is +1; its initial value renders to glob.
func c25LoopStart(c *Ctx, rule string, fn *ssa.Function, globInit string) {
	construct := c.P.Name(fn) + "#loop-start"
	var found []string
	for _, b := range fn.Blocks {
		for _, in := range b.Instrs {
			phi, ok := in.(*ssa.Phi)
			if !ok {
				continue
			}
			var inits []string
			stepped := false
			for _, e := range phi.Edges {
				if bo, ok := e.(*ssa.BinOp); ok && bo.Op == token.ADD && bo.X == ssa.Value(phi) {
					stepped = true
					continue
				}
				inits = append(inits, c25Deep(e))
			}
			if stepped {
				found = append(found, inits...)
			}
		}
	}
	if len(found) != 1 {
		c.add("shape", rule, construct, Undecided, c.P.Pos(fn.Pos()), fmt.Sprintf("expected one counting loop, found initial values %v", found))
		return
	}
	if !glob(globInit, found[0]) {
		c.add("shape", rule, construct, Violated, c.P.Pos(fn.Pos()), fmt.Sprintf("pad scan starts at %s, must start at %s", found[0], globInit))
		return
	}
	c.add("shape", rule, construct, Held, c.P.Pos(fn.Pos()), "pad scan starts at "+found[0])
}
