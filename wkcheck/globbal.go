package main

import "os"

// strictGlob: when set (WK_STRICT_GLOB=1), '*' may only match text whose parentheses and
// brackets are balanced, so "f(*)#1" cannot swallow the tail of an enclosing call.
// Experimental: used to measure how many rule-table globs rely on unbalanced matches.
var strictGlob = os.Getenv("WK_STRICT_GLOB") == "1"

func balanced(s string) bool {
	d := 0
	for i := 0; i < len(s); i++ {
		switch s[i] {
		case '(', '[':
			d++
		case ')', ']':
			d--
			if d < 0 {
				return false
			}
		}
	}
	return d == 0
}

func globBalanced(pat, s string) bool {
	// find first star
	i := 0
	for i < len(pat) && pat[i] != '*' {
		i++
	}
	if i == len(pat) {
		return pat == s
	}
	if len(s) < i || pat[:i] != s[:i] {
		return false
	}
	rest := pat[i+1:]
	s = s[i:]
	for k := 0; k <= len(s); k++ {
		if balanced(s[:k]) && globBalanced(rest, s[k:]) {
			return true
		}
	}
	return false
}

// renameLocals (WK_RENAME=1): render every named non-parameter local with a suffix, which simulates
// renaming all local variables of the analysed program at once. A rule that turns violated/undecided
// under this mode depends on a local's name and would raise a false alarm on a rename.
var renameLocals = os.Getenv("WK_RENAME") == "1"

// isParamName: name is a parameter (or named result) of fn or of an enclosing function.
func isParamName(fn *ssaFunction, name string) bool {
	for f := fn; f != nil; f = f.Parent() {
		for _, p := range f.Params {
			if p.Name() == name {
				return true
			}
		}
		if res := f.Signature.Results(); res != nil {
			for i := 0; i < res.Len(); i++ {
				if res.At(i).Name() == name {
					return true
				}
			}
		}
	}
	return false
}
