package main

import "os"

// strictGlob: when set (WK_STRICT_GLOB=1), '*' may only match text whose parentheses and
// brackets are balanced, so "f(*)#1" cannot swallow the tail of an enclosing call.
// Experimental: used to measure how many rule-table globs rely on unbalanced matches.
var strictGlob = os.Getenv("WK_STRICT_GLOB") == "1"

func balanced(s string) bool {
	d := 0
	for i := 0; i < len(s); i++ {
		switch s[i] {
		case '(', '[':
			d++
		case ')', ']':
			d--
			if d < 0 {
				return false
			}
		}
	}
	return d == 0
}

func globBalanced(pat, s string) bool {
	// find first star
	i := 0
	for i < len(pat) && pat[i] != '*' {
		i++
	}
	if i == len(pat) {
		return pat == s
	}
	if len(s) < i || pat[:i] != s[:i] {
		return false
	}
	rest := pat[i+1:]
	s = s[i:]
	for k := 0; k <= len(s); k++ {
		if balanced(s[:k]) && globBalanced(rest, s[k:]) {
			return true
		}
	}
	return false
}
