package main

import (
	"fmt"
	"go/token"
	"go/types"
	"sort"
	"strings"

	"golang.org/x/tools/go/ssa"
)

// Extension rule for C26 found by seeded change C26-b.
//
// Clause: "the bytes a caller receives as ITS response are its own". Frame bodies live in pooled,
// reference-released buffers (any module type with Bytes() []byte and Release()); the next
// wire.ReadFrame re-uses a released slab. Therefore, in a function that releases such a buffer, a
// VIEW of that buffer (the Bytes() result, a reslice of it, an append that grows it, a value an
// opaque callee derived from it) must stay a borrow: it may be read, copied (append onto another
// base, copy, string(), bytes.Clone) and lent to a call, but it must not be stored into memory that
// outlives the frame (struct field, map, slice element, global), sent on a channel, captured by an
// escaping closure, handed to a goroutine, or returned — on any path that also releases the buffer
// (a deferred Release is on every path).
//
//	X1-released-view   one obligation per function that both reads Bytes() of and releases the same buffer
//
// The analysis is an intra-procedural alias closure over SSA values (no names, no source text),
// with callee summaries for module functions whose bodies are loaded (does the parameter escape /
// is it returned), and a conservative "result aliases its []byte argument" assumption for opaque
// (standard-library, interface, closure) callees other than the enumerated copying functions.
//
// NOT decided here: a view that is lent to an opaque callee which retains it (handler contract),
// and a release performed by the CALLER of the function that stores the view (ownership travels
// with the OwnedBuffer value; that hand-off is the subject of R2-readframe / the service rules).
func init() {
	const connFile = "pkg/transport/internal/conn/conn.go"
	const svcFile = "pkg/transport/internal/rpc/service.go"
	extend("C26", nil, func(c *Ctx) {
		const rule = "X1-released-view"
		a := &xc26Analysis{p: c.P, memo: map[*ssa.Function]map[int]*xc26Summary{}}
		n := 0
		for _, fn := range c.P.AllFuncs {
			srcs, rels := xc26BufferUses(fn)
			if len(srcs) == 0 || len(rels) == 0 {
				continue
			}
			var bad []string
			pos := c.P.Pos(fn.Pos())
			buffers := 0
			var keys []string
			for k := range srcs {
				keys = append(keys, k)
			}
			sort.Strings(keys)
			for _, k := range keys {
				if len(rels[k]) == 0 {
					continue
				}
				buffers++
				for _, e := range a.escapes(fn, srcs[k], 0) {
					if r := xc26SharesPath(e.in, rels[k]); r != "" {
						bad = append(bad, fmt.Sprintf("%s [%s] while %s", e.why, c.P.InstrPos(e.in), r))
						pos = c.P.InstrPos(e.in)
					}
				}
			}
			if buffers == 0 {
				continue
			}
			n++
			name := c.P.Name(fn)
			c.FuncsAnalysed[name] = true
			construct := name + "#view-of-released-buffer-stays-a-borrow"
			if len(bad) > 0 {
				sort.Strings(bad)
				c.add("alias", rule, construct, Violated, pos,
					fmt.Sprintf("%s releases a pooled buffer back to its pool and lets a view of its bytes outlive the call: %s. The slab is re-used by the next frame read, so the holder of the view ends up reading another frame's bytes (for an RPC response: another call's response). Copy the bytes (append([]byte(nil), view...)) before they are stored/sent/returned.", name, strings.Join(bad, "; ")))
			} else {
				c.add("alias", rule, construct, Held, pos, fmt.Sprintf("%d released buffer(s); every view of their bytes is read, copied or lent to a call only", buffers))
			}
		}
		// anti-vacuity: the response path and the service path are the two hand-confirmed instances
		if n < 2 {
			c.add("vacuity", rule, "min-instances", Undecided, "", fmt.Sprintf("only %d function(s) both read and release a pooled buffer (hand-confirmed minimum 2: the RPC response path and the RPC service path)", n))
		}
	},
		// the seeded bug: defensive copy dropped on the success path
		Mutant{Name: "x-response-payload-aliases-pooled-body", File: connFile,
			Old: "payload := append([]byte(nil), body[1:]...)", New: "payload := body[1:]", Expect: "C26/X1-released-view/*handleRPCResponse*"},
		// sibling: the copy is kept for the error text but the success response is built from the raw body
		Mutant{Name: "x-response-payload-direct-reslice", File: connFile,
			Old: "rpc.Response{Payload: payload})", New: "rpc.Response{Payload: body[1:len(body):len(body)]})", Expect: "C26/X1-released-view/*handleRPCResponse*"},
		// sibling at the server side: the handler may answer with (a reslice of) its request bytes, which
		// are released when handle returns; the reply must be a copy
		Mutant{Name: "x-service-reply-aliases-request", File: svcFile,
			Old: "reply := Response{Payload: append([]byte(nil), resp...), Err: err}", New: "reply := Response{Payload: resp, Err: err}", Expect: "C26/X1-released-view/*Service.handle*"},
		// sibling: the view leaves through a helper that stores it (callee summary)
		Mutant{Name: "x-response-view-escapes-through-helper", File: connFile,
			Old:    "\tc.pending.Complete(frame.Header.RequestID, rpc.Response{Payload: payload})\n\tc.observePendingRPC(\"ok\")\n}",
			New:    "\t_ = payload\n\tc.pending.Complete(frame.Header.RequestID, xc26okResponse(body[1:]))\n\tc.observePendingRPC(\"ok\")\n}\n\nfunc xc26okResponse(b []byte) rpc.Response { return rpc.Response{Payload: b} }",
			Expect: "C26/X1-released-view/*handleRPCResponse*"},
	)
}

// xc26PooledType: a module-defined named type whose pointer method set has Bytes() []byte and Release().
func xc26PooledType(t types.Type) *types.Named {
	if p, ok := t.Underlying().(*types.Pointer); ok {
		t = p.Elem()
	}
	named, ok := t.(*types.Named)
	if !ok || named.Obj().Pkg() == nil || !strings.HasPrefix(named.Obj().Pkg().Path(), modulePath) {
		return nil
	}
	ms := types.NewMethodSet(types.NewPointer(named))
	hasBytes, hasRelease := false, false
	for i := 0; i < ms.Len(); i++ {
		f, ok := ms.At(i).Obj().(*types.Func)
		if !ok {
			continue
		}
		sig := f.Type().(*types.Signature)
		switch f.Name() {
		case "Bytes":
			hasBytes = sig.Params().Len() == 0 && sig.Results().Len() == 1 && xc26IsByteSlice(sig.Results().At(0).Type())
		case "Release":
			hasRelease = sig.Params().Len() == 0 && sig.Results().Len() == 0
		}
	}
	if hasBytes && hasRelease {
		return named
	}
	return nil
}

func xc26IsByteSlice(t types.Type) bool {
	s, ok := t.Underlying().(*types.Slice)
	if !ok {
		return false
	}
	b, ok := s.Elem().Underlying().(*types.Basic)
	return ok && b.Kind() == types.Uint8
}

// xc26BufferUses: per buffer (rendered receiver path, which is name-free for non-parameters) the
// Bytes() results and the Release() call/defer instructions of fn.
func xc26BufferUses(fn *ssa.Function) (srcs map[string][]ssa.Value, rels map[string][]ssa.Instruction) {
	srcs, rels = map[string][]ssa.Value{}, map[string][]ssa.Instruction{}
	for _, b := range fn.Blocks {
		if b == fn.Recover {
			continue
		}
		for _, in := range b.Instrs {
			ci, ok := in.(ssa.CallInstruction)
			if !ok {
				continue
			}
			com := ci.Common()
			if com.IsInvoke() || com.StaticCallee() == nil || com.StaticCallee().Signature.Recv() == nil || len(com.Args) == 0 {
				continue
			}
			if xc26PooledType(com.StaticCallee().Signature.Recv().Type()) == nil {
				continue
			}
			key := Path(com.Args[0])
			switch com.StaticCallee().Name() {
			case "Bytes":
				if v, ok := in.(*ssa.Call); ok {
					srcs[key] = append(srcs[key], v)
				}
			case "Release":
				if _, isGo := in.(*ssa.Go); !isGo {
					rels[key] = append(rels[key], in)
				}
			}
		}
	}
	return
}

// xc26SharesPath: "" when no release can execute on a path through `at`; otherwise a description.
func xc26SharesPath(at ssa.Instruction, rels []ssa.Instruction) string {
	for _, r := range rels {
		if _, ok := r.(*ssa.Defer); ok {
			return "the buffer's Release is deferred (runs on every return)"
		}
	}
	for _, r := range rels {
		if xc26Reaches(at, r) {
			return "the buffer is released later on the same path"
		}
		if xc26Reaches(r, at) {
			return "the buffer was already released on that path"
		}
	}
	return ""
}

// xc26Reaches: instruction b can execute after instruction a (same block later, or a reachable block).
func xc26Reaches(a, b ssa.Instruction) bool {
	ba, bb := a.Block(), b.Block()
	if ba == nil || bb == nil {
		return false
	}
	if ba == bb && indexIn(ba, a) < indexIn(bb, b) {
		return true
	}
	seen := map[*ssa.BasicBlock]bool{}
	work := append([]*ssa.BasicBlock(nil), ba.Succs...)
	for len(work) > 0 {
		x := work[len(work)-1]
		work = work[:len(work)-1]
		if seen[x] {
			continue
		}
		seen[x] = true
		if x == bb {
			return true
		}
		work = append(work, x.Succs...)
	}
	return false
}

type xc26Esc struct {
	in  ssa.Instruction
	why string
	ret bool // leaves through a return (for callee summaries: "result aliases the parameter")
}

type xc26Summary struct {
	done    bool
	escapes string // non-empty: how the parameter escapes inside the callee
	returns bool   // a result aliases the parameter
}

type xc26Analysis struct {
	p    *Program
	memo map[*ssa.Function]map[int]*xc26Summary
}

// copying functions of the standard library: the result never shares memory with the argument
var xc26Copiers = map[string]bool{
	"bytes.Clone": true, "slices.Clone": true, "bytes.Repeat": true, "bytes.ToUpper": true, "bytes.ToLower": true,
	"bytes.Join": true, "bytes.ReplaceAll": true, "bytes.Replace": true,
}

// xc26CarriesBytes: a value of this type can share memory with a byte slice it was derived from
// (slices, arrays of them, tuples containing one). Interfaces count only when the view itself was
// boxed (MakeInterface), never for an opaque callee's error/any result.
func xc26CarriesBytes(t types.Type) bool {
	switch u := t.Underlying().(type) {
	case *types.Slice:
		return true
	case *types.Tuple:
		for i := 0; i < u.Len(); i++ {
			if xc26CarriesBytes(u.At(i).Type()) {
				return true
			}
		}
	case *types.Array:
		return xc26CarriesBytes(u.Elem())
	case *types.Pointer:
		if arr, ok := u.Elem().Underlying().(*types.Array); ok {
			return xc26CarriesBytes(arr.Elem())
		}
	}
	return false
}

func xc26IsIface(t types.Type) bool {
	_, ok := t.Underlying().(*types.Interface)
	return ok
}

func xc26BasicElem(t types.Type) bool {
	s, ok := t.Underlying().(*types.Slice)
	if !ok {
		return false
	}
	_, basic := s.Elem().Underlying().(*types.Basic)
	return basic
}

// summary of parameter idx of a module function with a loaded body
func (a *xc26Analysis) summary(fn *ssa.Function, idx, depth int) *xc26Summary {
	if a.memo[fn] == nil {
		a.memo[fn] = map[int]*xc26Summary{}
	}
	if s := a.memo[fn][idx]; s != nil {
		return s // in-progress (recursion) reads as "no escape": least fixpoint
	}
	s := &xc26Summary{}
	a.memo[fn][idx] = s
	for _, e := range a.escapes(fn, []ssa.Value{fn.Params[idx]}, depth+1) {
		if e.ret {
			s.returns = true
			continue
		}
		if s.escapes == "" {
			s.escapes = e.why
		}
	}
	s.done = true
	return s
}

// escapes: the instructions of fn through which an alias of one of srcs leaves fn's frame.
func (a *xc26Analysis) escapes(fn *ssa.Function, srcs []ssa.Value, depth int) []xc26Esc {
	var out []xc26Esc
	alias := map[ssa.Value]bool{}
	var work []ssa.Value
	add := func(v ssa.Value) {
		if v != nil && !alias[v] {
			alias[v] = true
			work = append(work, v)
		}
	}
	for _, s := range srcs {
		add(s)
	}
	esc := func(in ssa.Instruction, why string) { out = append(out, xc26Esc{in: in, why: why}) }

	// a call (or defer) that receives alias v
	handleCall := func(in ssa.CallInstruction, v ssa.Value) {
		com := in.Common()
		res, _ := in.(*ssa.Call)
		if _, isGo := in.(*ssa.Go); isGo {
			esc(in, "a view of the buffer is handed to a goroutine ("+calleeName(com)+")")
			return
		}
		if com.Value == v && !com.IsInvoke() {
			return // calling an aliased closure value: nothing leaves
		}
		if bi, ok := com.Value.(*ssa.Builtin); ok {
			if bi.Name() == "append" && res != nil && len(com.Args) > 0 {
				if com.Args[0] == v {
					add(res) // grows in place when capacity allows
				} else if !xc26BasicElem(v.Type()) {
					add(res) // element slice headers are copied, the bytes are shared
				}
			}
			return
		}
		callee := com.StaticCallee()
		name := calleeName(com)
		if callee != nil && len(callee.Blocks) > 0 && a.p.names[callee] != "" && depth < 4 {
			args := com.Args
			for i, arg := range args {
				if arg != v || i >= len(callee.Params) {
					continue
				}
				s := a.summary(callee, i, depth)
				if s.escapes != "" {
					esc(in, fmt.Sprintf("a view of the buffer is passed to %s, where %s", name, s.escapes))
				}
				if s.returns && res != nil {
					add(res)
				}
			}
			return
		}
		// opaque callee: lent for the duration of the call; a []byte-carrying result may share memory
		if res != nil && !xc26Copiers[name] && xc26CarriesBytes(res.Type()) && (xc26CarriesBytes(v.Type()) || xc26IsIface(v.Type())) {
			add(res)
		}
	}

	for len(work) > 0 {
		v := work[len(work)-1]
		work = work[:len(work)-1]
		refs := v.Referrers()
		if refs == nil {
			continue
		}
		for _, r := range *refs {
			switch x := r.(type) {
			case *ssa.Slice:
				if x.X == v {
					add(x)
				}
			case *ssa.Phi:
				add(x)
			case *ssa.ChangeType:
				add(x)
			case *ssa.MakeInterface:
				add(x)
			case *ssa.ChangeInterface:
				add(x)
			case *ssa.TypeAssert:
				add(x)
			case *ssa.Extract:
				if _, fromAssert := x.Tuple.(*ssa.TypeAssert); xc26CarriesBytes(x.Type()) || (fromAssert && x.Index == 0) {
					add(x)
				}
			case *ssa.Convert:
				if _, ok := x.Type().Underlying().(*types.Slice); ok {
					add(x)
				}
			case *ssa.SliceToArrayPointer:
				add(x)
			case *ssa.IndexAddr:
				// element of a container of views (not of the byte slice itself)
				if x.X == v && !xc26BasicElem(v.Type()) {
					if rr := x.Referrers(); rr != nil {
						for _, l := range *rr {
							if u, ok := l.(*ssa.UnOp); ok && u.Op == token.MUL && (xc26CarriesBytes(u.Type()) || xc26IsIface(u.Type())) {
								add(u)
							}
						}
					}
				}
			case *ssa.Call:
				handleCall(x, v)
			case *ssa.Defer:
				handleCall(x, v)
			case *ssa.Go:
				handleCall(x, v)
			case *ssa.Send:
				if x.X == v {
					esc(x, "a view of the buffer is sent on channel "+Path(x.Chan))
				}
			case *ssa.MapUpdate:
				if x.Value == v || x.Key == v {
					esc(x, "a view of the buffer is stored in map "+Path(x.Map))
				}
			case *ssa.Return:
				out = append(out, xc26Esc{in: x, why: "a view of the buffer is returned", ret: true})
			case *ssa.MakeClosure:
				if xc26ClosureOnlyCalled(x) {
					// the closure runs within this frame: follow the captured value inside it
					if cf, ok := x.Fn.(*ssa.Function); ok && depth < 4 {
						for i, bnd := range x.Bindings {
							if bnd != v || i >= len(cf.FreeVars) {
								continue
							}
							for _, e := range a.escapes(cf, []ssa.Value{cf.FreeVars[i]}, depth+1) {
								if !e.ret {
									esc(x, "a view of the buffer is captured by a closure, where "+e.why)
								}
							}
						}
					}
				} else {
					esc(x, "a view of the buffer is captured by a closure that outlives the statement")
				}
			case *ssa.Store:
				if x.Val != v {
					continue
				}
				switch addr := x.Addr.(type) {
				case *ssa.Alloc:
					// a whole local variable holding the view: its loads are views; capture is handled via the Alloc
					add(addr)
				case *ssa.IndexAddr:
					if base := baseAlloc(addr.X); base != nil && xc26LocalArray(base) {
						add(base) // varargs / local array: the slices of it are lent to calls
					} else {
						esc(x, "a view of the buffer is stored into "+xc26Where(addr))
					}
				default:
					esc(x, "a view of the buffer is stored into "+xc26Where(x.Addr))
				}
			case *ssa.UnOp:
				// load of a local variable (Alloc) that holds a view
				if x.Op == token.MUL && (xc26CarriesBytes(x.Type()) || xc26IsIface(x.Type())) {
					switch v.(type) {
					case *ssa.Alloc, *ssa.FreeVar:
						if x.X == v {
							add(x)
						}
					}
				}
			}
		}
	}
	return out
}

// xc26Where renders the destination of a store without local names: field owner type and field.
func xc26Where(addr ssa.Value) string {
	if fa, ok := addr.(*ssa.FieldAddr); ok {
		return "field " + ownerTypeName(fa.X.Type()) + "." + fieldName(fa.X.Type(), fa.Field)
	}
	if g, ok := addr.(*ssa.Global); ok {
		return "package variable " + g.Name()
	}
	return "memory (" + Path(addr) + ")"
}

// xc26LocalArray: an array Alloc that is only element-addressed and sliced (the compiler's varargs pack
// or a local scratch array).
func xc26LocalArray(a *ssa.Alloc) bool {
	p, ok := a.Type().Underlying().(*types.Pointer)
	if !ok {
		return false
	}
	if _, ok := p.Elem().Underlying().(*types.Array); !ok {
		return false
	}
	if a.Referrers() == nil {
		return true
	}
	for _, r := range *a.Referrers() {
		switch r.(type) {
		case *ssa.IndexAddr, *ssa.Slice, *ssa.DebugRef:
		default:
			return false
		}
	}
	return true
}

// xc26ClosureOnlyCalled: the closure value is used only as the callee of plain calls / defers in the
// creating function (it cannot outlive that function's frame).
func xc26ClosureOnlyCalled(mc *ssa.MakeClosure) bool {
	if mc.Referrers() == nil {
		return true
	}
	for _, r := range *mc.Referrers() {
		switch x := r.(type) {
		case *ssa.Call:
			if x.Call.Value != mc {
				return false
			}
		case *ssa.Defer:
			if x.Call.Value != mc {
				return false
			}
		case *ssa.DebugRef:
		default:
			return false
		}
	}
	return true
}
