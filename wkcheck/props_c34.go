package main

import (
	"fmt"
	"go/constant"
	"go/token"
	"go/types"
	"sort"
	"strings"

	"golang.org/x/tools/go/ssa"
)

func init() {
	const (
		fApp    = "internal/usecase/conversation/app.go"
		fUnread = "internal/usecase/conversation/unread.go"
	)
	register(&PropSpec{
		ID:        "C34",
		Pkgs:      []string{"./internal/usecase/conversation"},
		Technique: "static analysis: SSA value-identity guards on every unsigned subtraction and signed→unsigned conversion, max-tree dataflow cover of the effective-read / SetUnread target, phi-aware edge-dominance for LastMessage exposure, who-may-write confinement",
		Explain:   "Decides the structural clause of exact unread/visibility in internal/usecase/conversation: (R1) every unsigned subtraction in the package (LastCommittedSeq-effectiveRead, LastCommittedSeq-uint64(Unread), joinSeq-1) is dominated by a comparison of the very same operands that excludes wrap-around, and every signed→unsigned conversion by a >= 0 check, so unread is never negative; (R2) the value stored in Conversation.Unread is 0 or LastCommittedSeq - E where E is a maxMembershipFloor tree whose leaves are exactly joinVisibilityFloor(JoinSeq), DeletedToSeq, RetentionThroughSeq, ReadSeq and CurrentUserLastSendSeq, maxMembershipFloor is a running maximum over all its arguments starting from 0, joinVisibilityFloor returns 0 or joinSeq-1; the read cursor SetUnread advances to always contains the same three-source visibility floor and, unless Unread >= LastCommittedSeq, also LastCommittedSeq-Unread; ClearUnread advances to LastCommittedSeq; both skip the write only when the target is already <= ReadSeq and write only through AdvanceUserChannelMembershipReadSeq after a successful membershipMutationHead; (R3) a non-nil LastMessage is produced only behind LastCommittedSeq >= JoinSeq, LastCommittedSeq > DeletedToSeq, LastMessage != nil and MessageSeq > the three-source visibility floor, and an item is emitted only if visible or explicitly activated; (R4) Conversation.Unread/LastMessage are written only in conversationFromMembership and list items come only from it. NOT decided: the counts as numbers (arithmetic is not interpreted), that the hydrator's LastCommittedSeq/RetentionThroughSeq/CurrentUserLastSendSeq are right, monotonicity of the store behind AdvanceUserChannelMembershipReadSeq (C16), concurrent sends between the read and the advance.",
		Run:       c34,
		Mutants: []Mutant{
			{Name: "unread-guard-dropped", File: fApp, Old: "\tif head.LastCommittedSeq > effectiveRead {\n\t\tunread = head.LastCommittedSeq - effectiveRead\n\t}", New: "\tunread = head.LastCommittedSeq - effectiveRead", Expect: "C34/R1-usub*"},
			{Name: "unread-guard-wrong-operand", File: fApp, Old: "if head.LastCommittedSeq > effectiveRead {", New: "if head.LastCommittedSeq > visibilityFloor {", Expect: "C34/R1-usub*"},
			{Name: "joinfloor-guard-dropped", File: fApp, Old: "\tif joinSeq == 0 {\n\t\treturn 0\n\t}\n\treturn joinSeq - 1", New: "\treturn joinSeq - 1", Expect: "C34/R1-usub*"},
			{Name: "joinfloor-off-by-one", File: fApp, Old: "\treturn joinSeq - 1\n", New: "\treturn joinSeq\n", Expect: "C34/R2-floor*"},
			{Name: "setunread-guard-nonstrict-flip", File: fUnread, Old: "if uint64(cmd.Unread) < head.LastCommittedSeq {", New: "if uint64(cmd.Unread) != head.LastCommittedSeq {", Expect: "C34/R1-usub*"},
			{Name: "setunread-negative-allowed", File: fUnread, Old: "\tif cmd.Unread < 0 {\n\t\treturn errors.New(\"unread cannot be negative\")\n\t}\n", New: "", Expect: "C34/R1-usub*"},
			{Name: "effective-read-forgets-own-send", File: fApp, Old: "maxMembershipFloor(visibilityFloor, row.ReadSeq, head.CurrentUserLastSendSeq)", New: "maxMembershipFloor(visibilityFloor, row.ReadSeq)", Expect: "C34/R2-effective*"},
			{Name: "effective-read-forgets-retention", File: fApp, Old: "\tvisibilityFloor := maxMembershipFloor(joinVisibilityFloor(row.JoinSeq), row.DeletedToSeq, head.RetentionThroughSeq)\n\teffectiveRead", New: "\tvisibilityFloor := maxMembershipFloor(joinVisibilityFloor(row.JoinSeq), row.DeletedToSeq)\n\teffectiveRead", Expect: "C34/R2-effective*"},
			{Name: "effective-read-raw-joinseq", File: fApp, Old: "\tvisibilityFloor := maxMembershipFloor(joinVisibilityFloor(row.JoinSeq), row.DeletedToSeq, head.RetentionThroughSeq)\n\teffectiveRead", New: "\tvisibilityFloor := maxMembershipFloor(row.JoinSeq, row.DeletedToSeq, head.RetentionThroughSeq)\n\teffectiveRead", Expect: "C34/R2-effective*"},
			{Name: "max-becomes-min", File: fApp, Old: "\t\tif value > out {\n", New: "\t\tif value < out {\n", Expect: "C34/R2-max*"},
			{Name: "max-skips-first", File: fApp, Old: "for _, value := range values {\n\t\tif value > out {", New: "for _, value := range values[1:] {\n\t\tif value > out {", Expect: "C34/R2-max*"},
			{Name: "setunread-forgets-floor", File: fUnread, Old: "target = maxMembershipFloor(target, head.LastCommittedSeq-uint64(cmd.Unread))", New: "target = head.LastCommittedSeq - uint64(cmd.Unread)", Expect: "C34/R2-setunread*"},
			{Name: "setunread-floor-without-delete", File: fUnread, Old: "maxMembershipFloor(joinVisibilityFloor(row.JoinSeq), row.DeletedToSeq, head.RetentionThroughSeq)", New: "maxMembershipFloor(joinVisibilityFloor(row.JoinSeq), head.RetentionThroughSeq)", Expect: "C34/R2-setunread*"},
			{Name: "setunread-skip-write-wrong-cmp", File: fUnread, Old: "\tif target <= row.ReadSeq {", New: "\tif visibilityFloor <= row.ReadSeq {", Expect: "C34/R2-setunread*"},
			{Name: "clearunread-to-readseq", File: fUnread, Old: "int64(cmd.ChannelType), head.LastCommittedSeq, a.now().UnixNano())\n}\n\n// SetUnread", New: "int64(cmd.ChannelType), row.ReadSeq, a.now().UnixNano())\n}\n\n// SetUnread", Expect: "C34/R2-clear*"},
			{Name: "lastmsg-floor-nonstrict", File: fApp, Old: "head.LastMessage.MessageSeq > visibilityFloor {", New: "head.LastMessage.MessageSeq >= visibilityFloor {", Expect: "C34/R3-lastmsg*"},
			{Name: "lastmsg-ignores-visibility", File: fApp, Old: "if visibleMessage && head.LastMessage != nil && head.LastMessage.MessageSeq > visibilityFloor {", New: "if head.LastMessage != nil && head.LastMessage.MessageSeq > joinVisibilityFloor(row.JoinSeq) {", Expect: "C34/R3-lastmsg*"},
			{Name: "visible-ignores-delete", File: fApp, Old: "visibleMessage := head.LastCommittedSeq >= row.JoinSeq && head.LastCommittedSeq > row.DeletedToSeq", New: "visibleMessage := head.LastCommittedSeq >= row.JoinSeq || head.LastCommittedSeq > row.DeletedToSeq", Expect: "C34/R3-*"},
			{Name: "mutation-head-ignores-tombstone", File: fUnread, Old: "\tif !ok || row.Tombstone {\n\t\treturn metadb.UserChannelMembership{}, HydrationResult{}, metadb.ErrNotFound\n\t}\n\theads", New: "\tif !ok {\n\t\treturn metadb.UserChannelMembership{}, HydrationResult{}, metadb.ErrNotFound\n\t}\n\theads", Expect: "C34/R2-head*"},
			{Name: "unread-written-elsewhere", File: fApp, Old: "\t\t\tif item, ok := conversationFromMembership(row, head); ok {\n\t\t\t\tresult.Items = append(result.Items, item)\n\t\t\t}\n\t\tdefault:\n\t\t\treturn ListResult{}, errors.New(\"internal/usecase/conversation: invalid hydration outcome\")", New: "\t\t\tif item, ok := conversationFromMembership(row, head); ok {\n\t\t\t\titem.Unread = head.LastCommittedSeq\n\t\t\t\tresult.Items = append(result.Items, item)\n\t\t\t}\n\t\tdefault:\n\t\t\treturn ListResult{}, errors.New(\"internal/usecase/conversation: invalid hydration outcome\")", Expect: "C34/R4-confine*"},
		},
	})
}

const c34Pkg = "internal/usecase/conversation."

// ---------------------------------------------------------------------------
// value helpers

func c34Strip(v ssa.Value) ssa.Value {
	for {
		switch x := v.(type) {
		case *ssa.Convert:
			v = x.X
		case *ssa.ChangeType:
			v = x.X
		default:
			return v
		}
	}
}

// c34PureLoad: v is a load of a field chain rooted at a local/parameter cell that
// is assigned as a whole exactly once and whose selected field is never stored to.
func c34PureLoad(v ssa.Value) bool {
	u, ok := c34Strip(v).(*ssa.UnOp)
	if !ok || u.Op != token.MUL {
		return false
	}
	addr := u.X
	want := Path(addr)
	root := addr
	for {
		switch x := root.(type) {
		case *ssa.FieldAddr:
			root = x.X
			continue
		case *ssa.UnOp:
			if x.Op == token.MUL {
				root = x.X
				continue
			}
		}
		break
	}
	switch r := root.(type) {
	case *ssa.Parameter, *ssa.FreeVar:
		return true
	case *ssa.Alloc:
		whole := 0
		var bad bool
		var visit func(a ssa.Value)
		visit = func(a ssa.Value) {
			refs := a.Referrers()
			if refs == nil {
				return
			}
			for _, ref := range *refs {
				switch x := ref.(type) {
				case *ssa.Store:
					if x.Addr == a {
						if a == ssa.Value(r) {
							whole++
						} else if p := Path(a); p == want || strings.HasPrefix(want, p+".") || strings.HasPrefix(p, want+".") {
							bad = true
						}
					}
				case *ssa.FieldAddr:
					visit(x)
				}
			}
		}
		visit(r)
		return whole <= 1 && !bad
	}
	return false
}

// c34Same: two operands denote the same value (SSA identity, or two loads of the same pure path).
func c34Same(a, b ssa.Value) bool {
	a, b = c34Strip(a), c34Strip(b)
	if a == b {
		return true
	}
	if ka, ok := a.(*ssa.Const); ok {
		if kb, ok := b.(*ssa.Const); ok {
			return ka.Value != nil && kb.Value != nil && constant.Compare(ka.Value, token.EQL, kb.Value)
		}
		return false
	}
	return c34PureLoad(a) && c34PureLoad(b) && Path(a) == Path(b)
}

// c34Rel is the comparison established on one CFG edge.
type c34Rel struct {
	Op   string
	L, R ssa.Value
}

func c34RelOf(cond ssa.Value, truth bool) (c34Rel, bool) {
	switch x := cond.(type) {
	case *ssa.UnOp:
		if x.Op == token.NOT {
			return c34RelOf(x.X, !truth)
		}
	case *ssa.BinOp:
		op := x.Op.String()
		if _, ok := negOp[op]; ok {
			if !truth {
				op = negOp[op]
			}
			return c34Rel{op, x.X, x.Y}, true
		}
	}
	return c34Rel{}, false
}

func (r c34Rel) mirror() c34Rel { return c34Rel{mirrorOp[r.Op], r.R, r.L} }

// c34AtomPred turns a textual guard (disjunction of atoms, engine syntax) into an edge predicate.
func c34AtomPred(spec string) func(c34Rel) bool {
	g := parseGuard(spec)
	return func(r c34Rel) bool {
		a := mkAtom(Path(r.L), r.Op, Path(r.R))
		for _, sp := range g.atoms {
			if sp.Satisfies(a) {
				return true
			}
		}
		return false
	}
}

// c34Edges returns the CFG edges of fn on which pred holds. It understands
// `if p` where p is a bool phi built by && / ||: the true edge establishes the
// fact when every way for p to be true either is a comparison satisfying pred
// or arrives through an edge that already established it.
func c34Edges(fn *ssa.Function, pred func(c34Rel) bool) map[edge]bool {
	removed := map[edge]bool{}
	holds := func(r c34Rel) bool { return pred(r) || pred(r.mirror()) }
	for _, b := range fn.Blocks {
		if len(b.Instrs) == 0 {
			continue
		}
		iff, ok := b.Instrs[len(b.Instrs)-1].(*ssa.If)
		if !ok {
			continue
		}
		for si, truth := range []bool{true, false} {
			if r, ok := c34RelOf(iff.Cond, truth); ok && holds(r) {
				removed[edge{b, si}] = true
			}
		}
	}
	for changed := true; changed; {
		changed = false
		limit := reachUnguarded(fn, removed, nil)
		for _, b := range fn.Blocks {
			if len(b.Instrs) == 0 {
				continue
			}
			iff, ok := b.Instrs[len(b.Instrs)-1].(*ssa.If)
			if !ok || removed[edge{b, 0}] {
				continue
			}
			phi, ok := iff.Cond.(*ssa.Phi)
			if !ok {
				continue
			}
			all := true
			for i, ev := range phi.Edges {
				if k, ok := ev.(*ssa.Const); ok && k.Value != nil && k.Value.Kind() == constant.Bool && !constant.BoolVal(k.Value) {
					continue // this way p is false
				}
				if r, ok := c34RelOf(ev, true); ok && holds(r) {
					continue
				}
				pred := phi.Block().Preds[i]
				lim, reach := limit[pred]
				live := reach && lim >= len(pred.Instrs)
				if live {
					live = false
					for si, s := range pred.Succs {
						if s == phi.Block() && !removed[edge{pred, si}] {
							live = true
						}
					}
				}
				if live {
					all = false
				}
			}
			if all {
				removed[edge{b, 0}] = true
				changed = true
			}
		}
	}
	return removed
}

// c34Unguarded: is the instruction reachable from the entry without crossing a removed edge?
func c34Unguarded(fn *ssa.Function, removed map[edge]bool, in ssa.Instruction) bool {
	limit := reachUnguarded(fn, removed, nil)
	b := in.Block()
	lim, ok := limit[b]
	return ok && indexIn(b, in) < lim
}

// c34EdgeUnguarded: can the CFG edge pred→to be taken without crossing a removed edge?
func c34EdgeUnguarded(fn *ssa.Function, removed map[edge]bool, pred, to *ssa.BasicBlock) bool {
	limit := reachUnguarded(fn, removed, nil)
	lim, ok := limit[pred]
	if !ok || lim < len(pred.Instrs) {
		return false
	}
	for si, s := range pred.Succs {
		if s == to && !removed[edge{pred, si}] {
			return true
		}
	}
	return false
}

// c34VarargElems resolves the elements of an implicit variadic slice.
func c34VarargElems(v ssa.Value) []ssa.Value {
	sl, ok := v.(*ssa.Slice)
	if !ok {
		return nil
	}
	a, ok := sl.X.(*ssa.Alloc)
	if !ok || a.Referrers() == nil {
		return nil
	}
	type ent struct {
		idx int64
		v   ssa.Value
	}
	var es []ent
	for _, r := range *a.Referrers() {
		ia, ok := r.(*ssa.IndexAddr)
		if !ok || ia.Referrers() == nil {
			continue
		}
		k, _ := ia.Index.(*ssa.Const)
		for _, rr := range *ia.Referrers() {
			if st, ok := rr.(*ssa.Store); ok && st.Addr == ssa.Value(ia) {
				i := int64(len(es))
				if k != nil {
					i = k.Int64()
				}
				es = append(es, ent{i, st.Val})
			}
		}
	}
	sort.Slice(es, func(i, j int) bool { return es[i].idx < es[j].idx })
	var out []ssa.Value
	for _, e := range es {
		out = append(out, e.v)
	}
	return out
}

// c34MaxArgs: if v is a call of maxMembershipFloor (or builtin max) return its arguments.
func c34MaxArgs(v ssa.Value) ([]ssa.Value, bool) {
	call, ok := c34Strip(v).(*ssa.Call)
	if !ok {
		return nil, false
	}
	switch calleeName(&call.Call) {
	case c34Pkg + "maxMembershipFloor":
		if len(call.Call.Args) == 1 {
			if es := c34VarargElems(call.Call.Args[0]); len(es) > 0 {
				return es, true
			}
		}
	case "max":
		return call.Call.Args, true
	}
	return nil, false
}

// c34Leaves flattens a max-tree into its leaf operands.
func c34Leaves(v ssa.Value) []ssa.Value {
	if args, ok := c34MaxArgs(v); ok {
		var out []ssa.Value
		for _, a := range args {
			out = append(out, c34Leaves(a)...)
		}
		return out
	}
	return []ssa.Value{c34Strip(v)}
}

// c34Includes: on every way v can be computed (phi edges), the max-tree has a leaf matching glob.
func c34Includes(v ssa.Value, pat string, seen map[ssa.Value]bool) bool {
	v = c34Strip(v)
	if phi, ok := v.(*ssa.Phi); ok {
		if seen[phi] {
			return true
		}
		seen[phi] = true
		for _, e := range phi.Edges {
			if !c34Includes(e, pat, seen) {
				return false
			}
		}
		return true
	}
	for _, l := range c34Leaves(v) {
		if glob(pat, Path(l)) {
			return true
		}
	}
	return false
}

var c34FloorLeaves = []string{
	c34Pkg + "joinVisibilityFloor(*.JoinSeq)",
	"*.DeletedToSeq",
	"*.RetentionThroughSeq",
}

func c34InPkg(c *Ctx) []*ssa.Function { return c.P.FuncsMatching(c34Pkg + "*") }

// ---------------------------------------------------------------------------

func c34(c *Ctx) {
	c34Usub(c)
	c34Effective(c)
	c34MaxBody(c)
	c34SetClear(c)
	c34LastMessage(c)
	c34Confine(c)
}

// R1: unsigned subtraction and signed→unsigned conversion guards.
func c34Usub(c *Ctx) {
	nsub, nconv := 0, 0
	for _, fn := range c34InPkg(c) {
		fname := c.P.Name(fn)
		for _, b := range fn.Blocks {
			for _, in := range b.Instrs {
				switch x := in.(type) {
				case *ssa.BinOp:
					bt, ok := x.Type().Underlying().(*types.Basic)
					if x.Op != token.SUB || !ok || bt.Info()&types.IsUnsigned == 0 {
						continue
					}
					if _, isConst := x.X.(*ssa.Const); isConst {
						if _, isConst2 := x.Y.(*ssa.Const); isConst2 {
							continue
						}
					}
					nsub++
					X, Y := x.X, x.Y
					removed := c34Edges(fn, func(r c34Rel) bool {
						// X >= Y
						if c34Same(r.L, X) && c34Same(r.R, Y) && (r.Op == ">" || r.Op == ">=" || r.Op == "==") {
							return true
						}
						// Y constant c: X >= c, X > c-1, or X != 0 when c == 1
						if ky, ok := c34Strip(Y).(*ssa.Const); ok && ky.Value != nil && c34Same(r.L, X) {
							if kr, ok := c34Strip(r.R).(*ssa.Const); ok && kr.Value != nil {
								cy, okY := constant.Uint64Val(ky.Value)
								cr, okR := constant.Uint64Val(kr.Value)
								if okY && okR {
									switch r.Op {
									case ">=", "==":
										return cr >= cy
									case ">":
										return cr+1 >= cy
									case "!=":
										return cr == 0 && cy == 1
									}
								}
							}
						}
						return false
					})
					construct := fmt.Sprintf("%s#%s", fname, Path(x))
					if c34Unguarded(fn, removed, in) {
						c.add("usub", "R1-usub", construct, Violated, c.P.InstrPos(in), fmt.Sprintf("unsigned subtraction %s in %s is reachable without a dominating comparison of the same operands excluding wrap-around (%d candidate edge(s))", Path(x), fname, len(removed)))
					} else {
						c.add("usub", "R1-usub", construct, Held, c.P.InstrPos(in), fmt.Sprintf("dominated by %d edge(s) establishing left >= right on the same operands", len(removed)))
					}
				case *ssa.Convert:
					from, ok1 := x.X.Type().Underlying().(*types.Basic)
					to, ok2 := x.Type().Underlying().(*types.Basic)
					if !ok1 || !ok2 || from.Info()&types.IsInteger == 0 || from.Info()&types.IsUnsigned != 0 || to.Info()&types.IsUnsigned == 0 {
						continue
					}
					if _, isConst := x.X.(*ssa.Const); isConst {
						continue
					}
					if call, ok := x.X.(*ssa.Call); ok {
						if n := calleeName(&call.Call); n == "len" || n == "cap" {
							continue
						}
					}
					if x.Referrers() == nil || len(*x.Referrers()) == 0 {
						continue
					}
					nconv++
					X := x.X
					removed := c34Edges(fn, func(r c34Rel) bool {
						if !c34Same(r.L, X) {
							return false
						}
						kr, ok := c34Strip(r.R).(*ssa.Const)
						if !ok || kr.Value == nil {
							return false
						}
						sign := constant.Sign(kr.Value)
						switch r.Op {
						case ">=", "==":
							return sign >= 0
						case ">":
							return sign >= 0 || constant.Compare(kr.Value, token.EQL, constant.MakeInt64(-1))
						}
						return false
					})
					construct := fmt.Sprintf("%s#%s(%s)", fname, to.Name(), Path(X))
					if c34Unguarded(fn, removed, in) {
						c.add("usub", "R1-usub", construct, Violated, c.P.InstrPos(in), fmt.Sprintf("conversion of signed %s to %s in %s is reachable without a dominating >= 0 check", Path(X), to.Name(), fname))
					} else {
						c.add("usub", "R1-usub", construct, Held, c.P.InstrPos(in), fmt.Sprintf("dominated by %d edge(s) establishing %s >= 0", len(removed), Path(X)))
					}
				}
			}
		}
	}
	_ = nconv
	c.Min("R1-usub", 5)
	if nsub < 3 {
		c.add("vacuity", "R1-usub", "unsigned-sub-sites", Undecided, "", fmt.Sprintf("%d unsigned subtraction(s) found, hand-confirmed minimum 3", nsub))
	}
}

// R2: the value stored in Conversation.Unread.
func c34Effective(c *Ctx) {
	fn := c.Fn(c34Pkg + "conversationFromMembership")
	if fn == nil {
		return
	}
	fv := c.Field(c34Pkg + "Conversation.Unread")
	if fv == nil {
		return
	}
	var stores []*ssa.Store
	for _, s := range c.fieldStores(fv) {
		if s.fn == fn {
			stores = append(stores, s.in.(*ssa.Store))
		}
	}
	if len(stores) == 0 {
		c.add("cover", "R2-effective", c34Pkg+"conversationFromMembership#store:Unread", Undecided, c.P.Pos(fn.Pos()), "conversationFromMembership no longer stores Conversation.Unread")
		return
	}
	want := append(append([]string{}, c34FloorLeaves...), "*.ReadSeq", "*.CurrentUserLastSendSeq")
	names := []string{"join floor", "DeletedToSeq", "RetentionThroughSeq", "ReadSeq", "CurrentUserLastSendSeq"}
	for _, st := range stores {
		// collect the alternatives of the stored value
		var alts []ssa.Value
		var walk func(v ssa.Value, seen map[ssa.Value]bool)
		walk = func(v ssa.Value, seen map[ssa.Value]bool) {
			v = c34Strip(v)
			if phi, ok := v.(*ssa.Phi); ok {
				if seen[phi] {
					return
				}
				seen[phi] = true
				for _, e := range phi.Edges {
					walk(e, seen)
				}
				return
			}
			alts = append(alts, v)
		}
		walk(st.Val, map[ssa.Value]bool{})
		pos := c.P.InstrPos(st)
		var subs []*ssa.BinOp
		shapeOK := true
		for _, a := range alts {
			if k, ok := a.(*ssa.Const); ok && k.Value != nil && constant.Sign(k.Value) == 0 {
				continue
			}
			if bo, ok := a.(*ssa.BinOp); ok && bo.Op == token.SUB && glob("*.LastCommittedSeq", Path(bo.X)) {
				subs = append(subs, bo)
				continue
			}
			shapeOK = false
		}
		construct := c34Pkg + "conversationFromMembership#Unread=0|LastCommittedSeq-effectiveRead"
		if !shapeOK || len(subs) == 0 {
			c.add("cover", "R2-effective", construct, Violated, pos, "Conversation.Unread is not `0 or head.LastCommittedSeq - <effective read>`: "+Path(st.Val))
			continue
		}
		c.add("cover", "R2-effective", construct, Held, pos, fmt.Sprintf("%d alternative(s): 0 or LastCommittedSeq - E", len(alts)))
		for _, bo := range subs {
			leaves := c34Leaves(bo.Y)
			var ls []string
			for _, l := range leaves {
				ls = append(ls, Path(l))
			}
			for i, w := range want {
				construct := c34Pkg + "conversationFromMembership#effectiveRead-includes:" + names[i]
				if c34Includes(bo.Y, w, map[ssa.Value]bool{}) {
					c.add("cover", "R2-effective", construct, Held, pos, "leaf "+w+" is part of the maximum")
				} else {
					c.add("cover", "R2-effective", construct, Violated, pos, fmt.Sprintf("the effective read point %v does not depend on %s (%s): unread would count messages the user cannot see or has read", ls, names[i], w))
				}
			}
			var extra []string
			for _, l := range ls {
				if !globAny(want, l) {
					extra = append(extra, l)
				}
			}
			construct := c34Pkg + "conversationFromMembership#effectiveRead-only-five-sources"
			if len(extra) > 0 {
				c.add("cover", "R2-effective", construct, Violated, pos, "the effective read point has an extra source "+strings.Join(extra, ", ")+" (unread would be under-counted)")
			} else {
				c.add("cover", "R2-effective", construct, Held, pos, fmt.Sprintf("leaves: %v", ls))
			}
		}
	}
	c.Min("R2-effective", 7)

	// joinVisibilityFloor returns 0 or joinSeq-1
	jf := c.Fn(c34Pkg + "joinVisibilityFloor")
	if jf != nil && len(jf.Params) == 1 {
		p := jf.Params[0].Name()
		n := 0
		var bad []string
		for _, in := range instrsMatching(jf, AnyRet{}) {
			n++
			s := Path(retOperand(in.(*ssa.Return), 0))
			if s != "0" && s != "("+p+" - 1)" {
				bad = append(bad, s+" at "+c.P.InstrPos(in))
			}
		}
		construct := c34Pkg + "joinVisibilityFloor#returns-0-or-joinSeq-1"
		if len(bad) > 0 || n == 0 {
			c.add("shape", "R2-floor", construct, Violated, c.P.Pos(jf.Pos()), "joinVisibilityFloor returns something other than 0 / joinSeq-1: "+strings.Join(bad, "; "))
		} else {
			c.add("shape", "R2-floor", construct, Held, c.P.Pos(jf.Pos()), fmt.Sprintf("%d return(s)", n))
		}
		c.Guard("R2-floor", jf, Ret{0, "0"}, p+" == 0")
	}
	c.Min("R2-floor", 2)
}

// R2-max: maxMembershipFloor is a running maximum over every element, starting at 0.
func c34MaxBody(c *Ctx) {
	fn := c.Fn(c34Pkg + "maxMembershipFloor")
	if fn == nil {
		return
	}
	construct := c34Pkg + "maxMembershipFloor#running-maximum"
	fail := func(st Status, why string) {
		c.add("shape", "R2-max", construct, st, c.P.Pos(fn.Pos()), why)
	}
	if len(fn.Params) != 1 {
		fail(Undecided, "signature changed")
		return
	}
	values := fn.Params[0]
	rets := instrsMatching(fn, AnyRet{})
	if len(rets) != 1 {
		fail(Undecided, fmt.Sprintf("expected a single return, found %d", len(rets)))
		return
	}
	acc, ok := c34Strip(retOperand(rets[0].(*ssa.Return), 0)).(*ssa.Phi)
	if !ok {
		fail(Undecided, "result is not a loop-carried accumulator: "+Path(retOperand(rets[0].(*ssa.Return), 0)))
		return
	}
	// element index: every update value is values[i]. The accumulator may merge through inner phis
	// (`if v <= acc { continue }; acc = v` puts one on the continue edge): judge the leaves, each on the edge
	// on which it enters the merge.
	var idx ssa.Value
	type leafEdge struct {
		v        ssa.Value
		from, to *ssa.BasicBlock
	}
	var leaves []leafEdge
	seenPhi := map[*ssa.Phi]bool{}
	var collect func(p *ssa.Phi)
	collect = func(p *ssa.Phi) {
		if seenPhi[p] {
			return
		}
		seenPhi[p] = true
		for i, e := range p.Edges {
			e = c34Strip(e)
			if q, isPhi := e.(*ssa.Phi); isPhi {
				if q != acc {
					collect(q)
				}
				continue
			}
			leaves = append(leaves, leafEdge{e, p.Block().Preds[i], p.Block()})
		}
	}
	collect(acc)
	for _, lf := range leaves {
		e := lf.v
		if k, ok := e.(*ssa.Const); ok {
			if k.Value == nil || constant.Sign(k.Value) != 0 {
				fail(Violated, "the accumulator does not start at 0: "+Path(k))
				return
			}
			continue
		}
		var elemIdx ssa.Value
		if u, ok := e.(*ssa.UnOp); ok && u.Op == token.MUL {
			if ia, ok := u.X.(*ssa.IndexAddr); ok && ia.X == ssa.Value(values) {
				elemIdx = ia.Index
			}
		}
		if elemIdx == nil {
			fail(Violated, "the accumulator is updated with something that is not an element of the argument slice: "+Path(e))
			return
		}
		idx = elemIdx
		// the update edge is taken only behind elem > acc
		val := e
		removed := c34Edges(fn, func(r c34Rel) bool {
			// (the element may be loaded once for the test and once for the assignment: same element, two loads)
			if r.Op != ">" || (c34Strip(r.L) != val && Path(c34Strip(r.L)) != Path(val)) {
				return false
			}
			_, rIsAcc := c34Strip(r.R).(*ssa.Phi)
			return rIsAcc && seenPhi[c34Strip(r.R).(*ssa.Phi)]
		})
		if c34EdgeUnguarded(fn, removed, lf.from, lf.to) {
			fail(Violated, "the accumulator is overwritten with an element without the dominating test `element > accumulator` (not a maximum)")
			return
		}
	}
	if idx == nil {
		fail(Violated, "the accumulator is never updated from the arguments")
		return
	}
	// the element index is the counter of the one loop over the argument slice, which runs from 0 in steps of 1:
	// `range values` (phi(-1|i)+1 tested against len) or `for i := 0; i < len(values); i++`
	okRange := false
	isConstInt := func(v ssa.Value, n int64) bool {
		k, ok := v.(*ssa.Const)
		return ok && k.Value != nil && constant.Compare(k.Value, token.EQL, constant.MakeInt64(n))
	}
	for _, h := range loopHeaders(fn, values.Name()) {
		cond := h.Instrs[len(h.Instrs)-1].(*ssa.If).Cond.(*ssa.BinOp)
		if cond.X != idx {
			continue
		}
		switch x := idx.(type) {
		case *ssa.BinOp: // range form: (phi(-1|self) + 1)
			if cnt, ok := x.X.(*ssa.Phi); ok && x.Op == token.ADD && isConstInt(x.Y, 1) {
				good := true
				for _, e := range cnt.Edges {
					if !isConstInt(e, -1) && e != ssa.Value(x) {
						good = false
					}
				}
				okRange = good
			}
		case *ssa.Phi: // three-clause form: phi(0|self+1)
			good := true
			for _, e := range x.Edges {
				if isConstInt(e, 0) {
					continue
				}
				if bo, ok := e.(*ssa.BinOp); !ok || bo.Op != token.ADD || bo.X != ssa.Value(x) || !isConstInt(bo.Y, 1) {
					good = false
				}
			}
			okRange = good
		}
	}
	if !okRange {
		fail(Violated, "the loop does not visit every element of the argument slice from index 0 (expected `range values` or `for i := 0; i < len(values); i++`)")
		return
	}
	fail(Held, "accumulator starts at 0, is replaced by values[i] only behind values[i] > accumulator, for i = 0 … len(values)-1; the accumulator is returned")
}

// R2: SetUnread / ClearUnread targets and membershipMutationHead.
func c34SetClear(c *Ctx) {
	advName := c34Pkg + "MembershipMutationStore.AdvanceUserChannelMembershipReadSeq"
	headCall := c34Pkg + "App.membershipMutationHead(a, ctx, cmd.UID, cmd.ChannelID, cmd.ChannelType)"
	target := func(fn *ssa.Function, rule string) (ssa.Value, ssa.Instruction) {
		var tv ssa.Value
		var ti ssa.Instruction
		n := 0
		for _, in := range instrsMatching(fn, CallTo{advName}) {
			n++
			if ci, ok := in.(ssa.CallInstruction); ok && len(ci.Common().Args) == 6 {
				tv, ti = ci.Common().Args[4], in
			}
		}
		if n != 1 || tv == nil {
			c.add("shape", rule, c.P.Name(fn)+"#single-advance-call", Undecided, c.P.Pos(fn.Pos()), fmt.Sprintf("expected exactly one AdvanceUserChannelMembershipReadSeq call with 6 arguments, found %d", n))
			return nil, nil
		}
		return tv, ti
	}
	common := func(fn *ssa.Function, rule string) {
		c.Guard(rule, fn, CallTo{advName},
			c34Pkg+"validateUnreadTarget(cmd.UID, cmd.ChannelID, cmd.ChannelType) == nil",
			headCall+"#2 == nil",
			"a != nil",
		)
		c.CallShape(rule, fn, advName, advName+"(a.memberships, ctx, cmd.UID, cmd.ChannelID, cmd.ChannelType, *, *)")
		c.CallShape(rule, fn, c34Pkg+"App.membershipMutationHead", headCall)
		c.NoCalls(rule, c34Pkg+"MembershipMutationStore.Hide*", c.P.Name(fn))
		c.NoCalls(rule, c34Pkg+"MembershipMutationStore.Activate*", c.P.Name(fn))
	}
	// skip-the-write returns: `return nil` only behind target <= row.ReadSeq (same target value)
	skipRule := func(fn *ssa.Function, rule string, tv ssa.Value) {
		removed := c34Edges(fn, func(r c34Rel) bool {
			return (r.Op == "<=" || r.Op == "<" || r.Op == "==") && c34Same(r.L, tv) && glob(headCall+"#0.ReadSeq", c34RowPath(r.R))
		})
		var bad []string
		n := 0
		for _, in := range instrsMatching(fn, RetNil{}) {
			n++
			if c34Unguarded(fn, removed, in) {
				bad = append(bad, c.P.InstrPos(in))
			}
		}
		construct := c.P.Name(fn) + "#return-nil⇐target <= row.ReadSeq"
		switch {
		case n == 0:
			c.add("guard", rule, construct, Undecided, c.P.Pos(fn.Pos()), "no `return nil` left (rule table must be revisited)")
		case len(bad) > 0:
			c.add("guard", rule, construct, Violated, bad[0], "the command reports success without advancing although the very target passed to AdvanceUserChannelMembershipReadSeq was not compared <= the row's ReadSeq: "+strings.Join(bad, ", "))
		default:
			c.add("guard", rule, construct, Held, c.P.Pos(fn.Pos()), fmt.Sprintf("%d `return nil` site(s), %d guard edge(s) on the identical target value", n, len(removed)))
		}
	}

	// ---- SetUnread
	if set := c.Fn(c34Pkg + "App.SetUnread"); set != nil {
		const rule = "R2-setunread"
		common(set, rule)
		c.Guard(rule, set, CallTo{advName}, "cmd.Unread >= 0")
		if tv, ti := target(set, rule); tv != nil {
			pos := c.P.InstrPos(ti)
			names := []string{"join floor", "DeletedToSeq", "RetentionThroughSeq"}
			for i, w := range c34FloorLeaves {
				construct := c34Pkg + "App.SetUnread#target-includes:" + names[i]
				if c34Includes(tv, w, map[ssa.Value]bool{}) {
					c.add("cover", rule, construct, Held, pos, "every way of computing the target is a maximum with leaf "+w)
				} else {
					c.add("cover", rule, construct, Violated, pos, "the read cursor SetUnread advances to may lie below the visibility floor: "+names[i]+" ("+w+") is not part of the maximum on every path: "+Path(tv))
				}
			}
			// leaves come from this row/head only
			c34LeafOrigins(c, rule, set, tv, headCall, pos)
			// the alternative without LastCommittedSeq-Unread only behind Unread >= LastCommittedSeq
			subPat := "(*.LastCommittedSeq - cmd.Unread)"
			construct := c34Pkg + "App.SetUnread#target-includes:LastCommittedSeq-Unread unless Unread >= LastCommittedSeq"
			removed := c34Edges(set, c34AtomPred("cmd.Unread >= *.LastCommittedSeq"))
			bad := ""
			found := false
			var check func(v ssa.Value, seen map[ssa.Value]bool)
			check = func(v ssa.Value, seen map[ssa.Value]bool) {
				v = c34Strip(v)
				phi, ok := v.(*ssa.Phi)
				if !ok {
					return
				}
				if seen[phi] {
					return
				}
				seen[phi] = true
				for i, e := range phi.Edges {
					if c34Includes(e, subPat, map[ssa.Value]bool{}) {
						found = true
						continue
					}
					if _, isPhi := c34Strip(e).(*ssa.Phi); isPhi {
						check(e, seen)
						continue
					}
					if c34EdgeUnguarded(set, removed, phi.Block().Preds[i], phi.Block()) {
						bad = Path(e)
					}
				}
			}
			if _, isPhi := c34Strip(tv).(*ssa.Phi); isPhi {
				check(tv, map[ssa.Value]bool{})
			} else if c34Includes(tv, subPat, map[ssa.Value]bool{}) {
				found = true
			} else {
				bad = Path(tv)
			}
			switch {
			case bad != "":
				c.add("cover", rule, construct, Violated, pos, "SetUnread can advance to "+bad+" (without LastCommittedSeq-Unread) although Unread < LastCommittedSeq: more than N messages stay unread")
			case !found:
				c.add("cover", rule, construct, Violated, pos, "no way of computing the target contains LastCommittedSeq-Unread")
			default:
				c.add("cover", rule, construct, Held, pos, "the floor-only alternative is reachable only behind cmd.Unread >= LastCommittedSeq")
			}
			skipRule(set, rule, tv)
		}
		c.Min(rule, 14)
	}

	// ---- ClearUnread
	if clr := c.Fn(c34Pkg + "App.ClearUnread"); clr != nil {
		const rule = "R2-clear"
		common(clr, rule)
		if tv, ti := target(clr, rule); tv != nil {
			construct := c34Pkg + "App.ClearUnread#target=head.LastCommittedSeq"
			if c34PureLoad(tv) && glob(headCall+"#1.LastCommittedSeq", c34RowPath(tv)) {
				c.add("shape", rule, construct, Held, c.P.InstrPos(ti), "advances to the hydrated head's LastCommittedSeq")
			} else {
				c.add("shape", rule, construct, Violated, c.P.InstrPos(ti), "ClearUnread does not advance the read cursor to the hydrated LastCommittedSeq but to "+Path(tv)+" (unread would not become 0)")
			}
			skipRule(clr, rule, tv)
		}
		c.Min(rule, 9)
	}

	// ---- membershipMutationHead
	if mh := c.Fn(c34Pkg + "App.membershipMutationHead"); mh != nil {
		const rule = "R2-head"
		get := c34Pkg + "MembershipMutationStore.GetUserChannelMembership(a.memberships, ctx, uid, channelID, channelType)"
		hyd := c34Pkg + "HeadHydrator.HydrateConversationHeads(*)"
		c.Guard(rule, mh, RetNil{},
			get+"#2 == nil",
			get+"#1 == true",
			"*.Tombstone == false",
			hyd+"#1 == nil",
			"len("+hyd+"#0) == 1",
			"*.Outcome == 1 || *.Outcome == 2",
		)
		n := 0
		var bad []string
		for _, in := range instrsMatching(mh, RetNil{}) {
			n++
			ret := in.(*ssa.Return)
			r0, r1 := retOperand(ret, 0), retOperand(ret, 1)
			if !glob(get+"#0", c34RowPath(r0)) || !glob(hyd+"#0[0]", Path(r1)) {
				bad = append(bad, Path(r0)+", "+Path(r1)+" at "+c.P.InstrPos(in))
			}
		}
		construct := c34Pkg + "App.membershipMutationHead#returns-fetched-row-and-its-head"
		if len(bad) > 0 || n == 0 {
			c.add("shape", rule, construct, Violated, c.P.Pos(mh.Pos()), "success return is not (the fetched row, heads[0]): "+strings.Join(bad, "; "))
		} else {
			c.add("shape", rule, construct, Held, c.P.Pos(mh.Pos()), fmt.Sprintf("%d success return(s)", n))
		}
		c.Min(rule, 7)
	}
}

// c34RowPath renders v, replacing a local cell that is assigned exactly once by the value assigned to it
// (so `row.ReadSeq` becomes `membershipMutationHead(...)#0.ReadSeq` whatever the local is called).
func c34RowPath(v ssa.Value) string {
	v = c34Strip(v)
	var chain []string
	cur := v
	if u, ok := cur.(*ssa.UnOp); ok && u.Op == token.MUL {
		cur = u.X
	}
	for {
		switch x := cur.(type) {
		case *ssa.FieldAddr:
			chain = append([]string{fieldName(x.X.Type(), x.Field)}, chain...)
			cur = x.X
			continue
		case *ssa.Field:
			chain = append([]string{fieldName(x.X.Type(), x.Field)}, chain...)
			cur = x.X
			continue
		case *ssa.UnOp:
			if x.Op == token.MUL {
				cur = x.X
				continue
			}
		}
		break
	}
	root := Path(cur)
	if a, ok := cur.(*ssa.Alloc); ok && a.Referrers() != nil && spilledParam(a) == nil {
		var src ssa.Value
		n := 0
		for _, r := range *a.Referrers() {
			if st, ok := r.(*ssa.Store); ok && st.Addr == ssa.Value(a) {
				n++
				src = st.Val
			}
		}
		if n == 1 {
			root = Path(src)
		}
	}
	if len(chain) == 0 {
		return root
	}
	return root + "." + strings.Join(chain, ".")
}

// c34LeafOrigins: every leaf of SetUnread's target reads the row / head returned by membershipMutationHead or cmd.Unread.
func c34LeafOrigins(c *Ctx, rule string, fn *ssa.Function, tv ssa.Value, headCall, pos string) {
	allowed := []string{
		c34Pkg + "joinVisibilityFloor(" + headCall + "#0.JoinSeq)",
		headCall + "#0.DeletedToSeq",
		headCall + "#1.RetentionThroughSeq",
		"(" + headCall + "#1.LastCommittedSeq - cmd.Unread)",
	}
	var leaves []ssa.Value
	var walk func(v ssa.Value, seen map[ssa.Value]bool)
	walk = func(v ssa.Value, seen map[ssa.Value]bool) {
		v = c34Strip(v)
		if phi, ok := v.(*ssa.Phi); ok {
			if seen[phi] {
				return
			}
			seen[phi] = true
			for _, e := range phi.Edges {
				walk(e, seen)
			}
			return
		}
		leaves = append(leaves, c34Leaves(v)...)
	}
	walk(tv, map[ssa.Value]bool{})
	var bad, ok []string
	for _, l := range leaves {
		s := c34LeafPath(l)
		if globAny(allowed, s) {
			ok = append(ok, s)
		} else {
			bad = append(bad, s)
		}
	}
	construct := c.P.Name(fn) + "#target-leaves-from-this-row-and-head"
	if len(bad) > 0 || len(ok) == 0 {
		c.add("cover", rule, construct, Violated, pos, "SetUnread's target has a source other than the visibility floor of the fetched row/head and LastCommittedSeq-Unread: "+strings.Join(bad, "; "))
	} else {
		c.add("cover", rule, construct, Held, pos, fmt.Sprintf("%d leaf operand(s), all of the four allowed sources", len(ok)))
	}
}

// c34LeafPath renders a leaf with single-assignment locals resolved (through one call / one subtraction).
func c34LeafPath(v ssa.Value) string {
	v = c34Strip(v)
	switch x := v.(type) {
	case *ssa.Call:
		var args []string
		for _, a := range callArgs(&x.Call) {
			args = append(args, c34RowPath(a))
		}
		return calleeName(&x.Call) + "(" + strings.Join(args, ", ") + ")"
	case *ssa.BinOp:
		op := x.Op.String()
		return "(" + c34RowPath(x.X) + " " + op + " " + c34RowPath(x.Y) + ")"
	}
	return c34RowPath(v)
}

// R3: LastMessage exposure and item emission.
func c34LastMessage(c *Ctx) {
	fn := c.Fn(c34Pkg + "conversationFromMembership")
	if fn == nil {
		return
	}
	const rule = "R3-lastmsg"
	fv := c.Field(c34Pkg + "Conversation.LastMessage")
	if fv == nil {
		return
	}
	type site struct {
		pred, to *ssa.BasicBlock // phi edge, or
		in       ssa.Instruction // plain store
		descr    string
	}
	var sites []site
	for _, s := range c.fieldStores(fv) {
		if s.fn != fn {
			continue
		}
		st := s.in.(*ssa.Store)
		var walk func(v ssa.Value, seen map[ssa.Value]bool)
		walk = func(v ssa.Value, seen map[ssa.Value]bool) {
			if phi, ok := v.(*ssa.Phi); ok {
				if seen[phi] {
					return
				}
				seen[phi] = true
				for i, e := range phi.Edges {
					if k, ok := e.(*ssa.Const); ok && k.Value == nil {
						continue
					}
					if _, ok := e.(*ssa.Phi); ok {
						walk(e, seen)
						continue
					}
					sites = append(sites, site{pred: phi.Block().Preds[i], to: phi.Block(), descr: Path(e)})
				}
				return
			}
			if k, ok := v.(*ssa.Const); ok && k.Value == nil {
				return
			}
			sites = append(sites, site{in: st, descr: Path(v)})
		}
		walk(st.Val, map[ssa.Value]bool{})
	}
	if len(sites) == 0 {
		c.add("guard", rule, c34Pkg+"conversationFromMembership#non-nil-LastMessage", Undecided, c.P.Pos(fn.Pos()), "no way of producing a non-nil Conversation.LastMessage found (rule table must be revisited)")
		return
	}
	unguarded := func(removed map[edge]bool) bool {
		for _, s := range sites {
			if s.in != nil {
				if c34Unguarded(fn, removed, s.in) {
					return true
				}
			} else if c34EdgeUnguarded(fn, removed, s.pred, s.to) {
				return true
			}
		}
		return false
	}
	emit := func(name string, removed map[edge]bool, why string) {
		construct := c34Pkg + "conversationFromMembership#non-nil-LastMessage⇐" + name
		if unguarded(removed) {
			c.add("guard", rule, construct, Violated, c.P.Pos(fn.Pos()), "a non-nil LastMessage can be exposed without "+name+": "+why)
		} else {
			c.add("guard", rule, construct, Held, c.P.Pos(fn.Pos()), fmt.Sprintf("%d producing site(s), %d guard edge(s)", len(sites), len(removed)))
		}
	}
	emit("LastCommittedSeq >= JoinSeq", c34Edges(fn, c34AtomPred("head.LastCommittedSeq >= row.JoinSeq")), "a message from before the user joined could be shown")
	emit("LastCommittedSeq > DeletedToSeq", c34Edges(fn, c34AtomPred("head.LastCommittedSeq > row.DeletedToSeq")), "a deleted message could be shown")
	emit("head.LastMessage != nil", c34Edges(fn, c34AtomPred("head.LastMessage != nil")), "nil dereference / empty message")
	// MessageSeq strictly above the three-source floor (value identity on the floor)
	floorOK := func(v ssa.Value) bool {
		for _, w := range c34FloorLeaves {
			if !c34Includes(v, w, map[ssa.Value]bool{}) {
				return false
			}
		}
		return true
	}
	emit("MessageSeq > max(join floor, DeletedToSeq, RetentionThroughSeq)", c34Edges(fn, func(r c34Rel) bool {
		return r.Op == ">" && glob("head.LastMessage.MessageSeq", Path(r.L)) && floorOK(r.R)
	}), "a message at or below the join/delete/retention floor could be shown")
	// what is exposed is (a copy of) head.LastMessage
	{
		var bad []string
		for _, s := range sites {
			ok := false
			if glob("head.LastMessage", s.descr) {
				ok = true
			}
			// a local copy: an Alloc whose whole-value store is *head.LastMessage
			for _, b := range fn.Blocks {
				for _, in := range b.Instrs {
					if st, isSt := in.(*ssa.Store); isSt && Path(st.Addr) == s.descr && glob("head.LastMessage", Path(st.Val)) {
						ok = true
					}
				}
			}
			if !ok {
				bad = append(bad, s.descr)
			}
		}
		construct := c34Pkg + "conversationFromMembership#LastMessage-is-head.LastMessage"
		if len(bad) > 0 {
			c.add("shape", rule, construct, Violated, c.P.Pos(fn.Pos()), "the exposed last message is not (a copy of) head.LastMessage: "+strings.Join(bad, ", "))
		} else {
			c.add("shape", rule, construct, Held, c.P.Pos(fn.Pos()), fmt.Sprintf("%d producing site(s)", len(sites)))
		}
	}
	c.Min(rule, 5)

	// item emitted only if visible or explicitly activated
	{
		const rule = "R3-emit"
		var rets []ssa.Instruction
		for _, in := range instrsMatching(fn, Ret{1, "true"}) {
			rets = append(rets, in)
		}
		for _, g := range []string{
			"head.LastCommittedSeq >= row.JoinSeq || row.ActivatedAt > 0",
			"head.LastCommittedSeq > row.DeletedToSeq || row.ActivatedAt > 0",
		} {
			removed := c34Edges(fn, c34AtomPred(g))
			construct := c34Pkg + "conversationFromMembership#return[1]=true⇐" + g
			bad := ""
			for _, in := range rets {
				if c34Unguarded(fn, removed, in) {
					bad = c.P.InstrPos(in)
				}
			}
			switch {
			case len(rets) == 0:
				c.add("guard", rule, construct, Undecided, c.P.Pos(fn.Pos()), "no `return …, true`")
			case bad != "":
				c.add("guard", rule, construct, Violated, bad, "a conversation is emitted although it has no visible message and was never activated")
			default:
				c.add("guard", rule, construct, Held, c.P.Pos(fn.Pos()), fmt.Sprintf("%d return(s), %d guard edge(s)", len(rets), len(removed)))
			}
		}
		c.Min(rule, 2)
	}
}

// R4: who writes the derived fields, who emits items, who advances the cursor.
func c34Confine(c *Ctx) {
	owner := c34Pkg + "conversationFromMembership"
	c.ConfineStores("R4-confine", c34Pkg+"Conversation.Unread", true, owner)
	c.ConfineStores("R4-confine", c34Pkg+"Conversation.LastMessage", true, owner)
	c.ConfineCalls("R4-confine", c34Pkg+"MembershipMutationStore.AdvanceUserChannelMembershipReadSeq", 2, c34Pkg+"App.ClearUnread", c34Pkg+"App.SetUnread")
	c.ConfineCalls("R4-confine", owner, 2, c34Pkg+"App.listMembershipDirectory", c34Pkg+"App.Retry")
	for _, name := range []string{"App.listMembershipDirectory", "App.Retry"} {
		fn := c.Fn(c34Pkg + name)
		c.Guard("R4-confine", fn, CallTo{"append(*.Items, *)"}, owner+"(*)#1 == true")
	}
	c.Min("R4-confine", 6)
}
