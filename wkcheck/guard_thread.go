package main

// guard_thread.go — path-sensitive variant of guardEdges+reachUnguarded for boolean temporaries.
//
// `ok := a || b; …; if ok {` compiles to a bool phi that is tested later. Edge dominance on the plain CFG
// cannot see that the edge `ok == true` coming from the predecessor where the phi is the constant true has
// established `a`, nor that the false edge of `if ok` establishes `!a` and `!b`. This exploration threads
// the jumps: it remembers, per path, which incoming edge each condition-feeding bool phi took, resolves an
// If condition through that choice (and through `!`), follows only the feasible successor when the resolved
// condition is a constant, and tests the guard atoms against the resolved condition otherwise. It reaches a
// subset of what the path-insensitive search reaches, so it can only turn spurious violations into "held".

import (
	"fmt"
	"go/token"
	"sort"
	"strings"

	"golang.org/x/tools/go/ssa"
)

const threadStateCap = 20000

// condPhis: bool phis that (transitively, through ! and other phis) feed an If condition of fn.
func condPhis(fn *ssa.Function) map[*ssa.Phi]bool {
	out := map[*ssa.Phi]bool{}
	var add func(v ssa.Value, d int)
	add = func(v ssa.Value, d int) {
		if d > 8 {
			return
		}
		switch x := v.(type) {
		case *ssa.UnOp:
			if x.Op == token.NOT {
				add(x.X, d+1)
			}
		case *ssa.Phi:
			if out[x] {
				return
			}
			out[x] = true
			for _, e := range x.Edges {
				add(e, d+1)
			}
		}
	}
	for _, b := range fn.Blocks {
		if len(b.Instrs) == 0 {
			continue
		}
		if iff, ok := b.Instrs[len(b.Instrs)-1].(*ssa.If); ok {
			add(iff.Cond, 0)
		}
	}
	return out
}

type threadEnv map[*ssa.Phi]int

func (e threadEnv) key() string {
	if len(e) == 0 {
		return ""
	}
	s := make([]string, 0, len(e))
	for p, i := range e {
		s = append(s, fmt.Sprintf("%s=%d", p.Name(), i))
	}
	sort.Strings(s)
	return strings.Join(s, ",")
}

// predIndexOf: index in to.Preds of the edge from.Succs[si].
func predIndexOf(from *ssa.BasicBlock, si int) int {
	to := from.Succs[si]
	k := 0
	for i := 0; i <= si; i++ {
		if from.Succs[i] == to {
			k++
		}
	}
	for i, p := range to.Preds {
		if p == from {
			k--
			if k == 0 {
				return i
			}
		}
	}
	return -1
}

// reachThreaded is reachUnguarded(fn, guardEdges(fn, g), g.afters) made path-sensitive as described above.
// nGuardEdges counts the (block, successor) pairs on which the guard was found established at least once.
func reachThreaded(fn *ssa.Function, g guardSpec) (limit map[*ssa.BasicBlock]int, nGuardEdges int, descr []string) {
	interesting := condPhis(fn)
	if len(interesting) == 0 {
		removed, d := guardEdges(fn, g)
		return reachUnguarded(fn, removed, g.afters), len(removed), d
	}
	phisIn := map[*ssa.BasicBlock][]*ssa.Phi{}
	for p := range interesting {
		phisIn[p.Block()] = append(phisIn[p.Block()], p)
	}
	limit = map[*ssa.BasicBlock]int{}
	if len(fn.Blocks) == 0 {
		return
	}
	type state struct {
		b   *ssa.BasicBlock
		env threadEnv
	}
	resolve := func(v ssa.Value, env threadEnv) (ssa.Value, bool) {
		neg := false
		for i := 0; i < 16; i++ {
			switch x := v.(type) {
			case *ssa.UnOp:
				if x.Op == token.NOT {
					neg = !neg
					v = x.X
					continue
				}
			case *ssa.Phi:
				if idx, ok := env[x]; ok && idx >= 0 && idx < len(x.Edges) {
					v = x.Edges[idx]
					continue
				}
			}
			break
		}
		return v, neg
	}
	guardEdgeSeen := map[edge]bool{}
	seen := map[string]bool{}
	work := []state{{fn.Blocks[0], threadEnv{}}}
	seen[fmt.Sprintf("%d|", fn.Blocks[0].Index)] = true
	push := func(from *ssa.BasicBlock, si int, env threadEnv) {
		to := from.Succs[si]
		env2 := env
		if ps := phisIn[to]; len(ps) > 0 {
			env2 = threadEnv{}
			for k, v := range env {
				env2[k] = v
			}
			pi := predIndexOf(from, si)
			for _, p := range ps {
				env2[p] = pi
			}
		}
		k := fmt.Sprintf("%d|%s", to.Index, env2.key())
		if !seen[k] {
			seen[k] = true
			work = append(work, state{to, env2})
		}
	}
	for len(work) > 0 {
		if len(seen) > threadStateCap {
			removed, d := guardEdges(fn, g)
			return reachUnguarded(fn, removed, g.afters), len(removed), d
		}
		st := work[len(work)-1]
		work = work[:len(work)-1]
		b := st.b
		if bi := barrierIndex(b, g.afters); bi >= 0 {
			if limit[b] < bi+1 {
				limit[b] = bi + 1
			}
			continue
		}
		limit[b] = len(b.Instrs)
		if len(b.Instrs) == 0 {
			continue
		}
		iff, isIf := b.Instrs[len(b.Instrs)-1].(*ssa.If)
		if !isIf {
			for si := range b.Succs {
				push(b, si, st.env)
			}
			continue
		}
		cond, neg := resolve(iff.Cond, st.env)
		for si, truth := range []bool{true, false} {
			want := truth != neg // the truth value the resolved condition has on this edge
			if k, ok := cond.(*ssa.Const); ok {
				if (constString(k) == "true") != want {
					continue // infeasible on this path
				}
				push(b, si, st.env)
				continue
			}
			blocked := false
			if a, ok := condAtom(cond, want); ok {
				for _, sp := range g.atoms {
					if sp.Satisfies(a) {
						blocked = true
						if !guardEdgeSeen[edge{b, si}] {
							guardEdgeSeen[edge{b, si}] = true
							descr = append(descr, a.String())
						}
						break
					}
				}
			}
			if !blocked {
				push(b, si, st.env)
			}
		}
	}
	return limit, len(guardEdgeSeen), descr
}
