package main

// guard_thread.go — path-sensitive variant of guardEdges+reachUnguarded for merged conditions.
//
// `ok := a || b; …; if ok {` compiles to a bool phi that is tested later, and
// `if err = stage(); err == nil { err = commit() }; if err != nil { return err }` to an error-valued phi that
// is compared later. Edge dominance on the plain CFG sees neither that the false edge of `if ok` establishes
// `!a` and `!b`, nor that the second test decides `commit() == nil` (the path on which the phi is stage()'s
// error is infeasible there: that error was already found non-nil). This exploration threads the jumps: per
// path it remembers which incoming edge each condition-feeding phi took and which `value ==/!= constant` facts
// about those incoming values it has crossed; it resolves an If condition through the phi choices (and `!`),
// follows only the feasible successor when the resolved condition is decided by a constant or a recorded
// fact, and otherwise tests the guard atoms against the resolved condition. It reaches a subset of what the
// path-insensitive search reaches, so it can only turn spurious violations into "held".

import (
	"fmt"
	"go/token"
	"sort"
	"strings"
	"sync"

	"golang.org/x/tools/go/ssa"
)

const threadStateCap = 20000

func isCmpOp(op token.Token) bool {
	switch op {
	case token.EQL, token.NEQ, token.LSS, token.LEQ, token.GTR, token.GEQ:
		return true
	}
	return false
}

// condPhis: phis that feed an If condition of fn — as the condition itself (through ! and other phis) or as an
// operand of the comparison that is the condition. inputs = the non-constant values those phis merge.
func condPhis(fn *ssa.Function) (phis map[*ssa.Phi]bool, inputs map[ssa.Value]bool) {
	phis = map[*ssa.Phi]bool{}
	inputs = map[ssa.Value]bool{}
	var add func(v ssa.Value, d int)
	add = func(v ssa.Value, d int) {
		if d > 8 {
			return
		}
		switch x := v.(type) {
		case *ssa.UnOp:
			if x.Op == token.NOT {
				add(x.X, d+1)
			}
		case *ssa.BinOp:
			if isCmpOp(x.Op) {
				for _, o := range []ssa.Value{x.X, x.Y} {
					if p, ok := o.(*ssa.Phi); ok {
						add(p, d+1)
					}
				}
			}
		case *ssa.Phi:
			if phis[x] {
				return
			}
			phis[x] = true
			for _, e := range x.Edges {
				if _, isConst := e.(*ssa.Const); !isConst {
					if _, isPhi := e.(*ssa.Phi); !isPhi {
						inputs[e] = true
					}
				}
				add(e, d+1)
			}
		}
	}
	for _, b := range fn.Blocks {
		if len(b.Instrs) == 0 {
			continue
		}
		if iff, ok := b.Instrs[len(b.Instrs)-1].(*ssa.If); ok {
			add(iff.Cond, 0)
		}
		// a returned error that was tested on the way (`if err == nil { … }; return err`): what the path learned
		// about it decides whether this is a success or a failure exit (see mergedSuccessReturns)
		if ret, ok := b.Instrs[len(b.Instrs)-1].(*ssa.Return); ok && len(ret.Results) > 0 {
			last := len(ret.Results) - 1
			if isErrorType(ret.Results[last].Type()) {
				v := retOperand(ret, last)
				switch x := v.(type) {
				case *ssa.Const:
				case *ssa.Phi:
					add(x, 0)
				default:
					inputs[v] = true
				}
			}
		}
	}
	return
}

type threadFact struct {
	v ssa.Value
	k string // constant it was compared with
}

type threadEnv struct {
	phi   map[*ssa.Phi]int
	facts map[threadFact]bool // true: v == k is known; false: v != k is known
}

func (e threadEnv) key() string {
	if len(e.phi) == 0 && len(e.facts) == 0 {
		return ""
	}
	s := make([]string, 0, len(e.phi)+len(e.facts))
	for p, i := range e.phi {
		s = append(s, fmt.Sprintf("%s=%d", p.Name(), i))
	}
	for f, eq := range e.facts {
		s = append(s, fmt.Sprintf("%s~%s:%v", f.v.Name(), f.k, eq))
	}
	sort.Strings(s)
	return strings.Join(s, ",")
}

func (e threadEnv) clone() threadEnv {
	n := threadEnv{phi: make(map[*ssa.Phi]int, len(e.phi)), facts: make(map[threadFact]bool, len(e.facts))}
	for k, v := range e.phi {
		n.phi[k] = v
	}
	for k, v := range e.facts {
		n.facts[k] = v
	}
	return n
}

// predIndexOf: index in to.Preds of the edge from.Succs[si].
func predIndexOf(from *ssa.BasicBlock, si int) int {
	to := from.Succs[si]
	k := 0
	for i := 0; i <= si; i++ {
		if from.Succs[i] == to {
			k++
		}
	}
	for i, p := range to.Preds {
		if p == from {
			k--
			if k == 0 {
				return i
			}
		}
	}
	return -1
}

// resolvedCond is an If condition after substituting the phi choices of the path.
type resolvedCond struct {
	val  ssa.Value // bool value form (nil when cmp form)
	op   token.Token
	x, y ssa.Value // comparison form
	neg  bool
}

func (e threadEnv) through(v ssa.Value) ssa.Value {
	for i := 0; i < 16; i++ {
		p, ok := v.(*ssa.Phi)
		if !ok {
			return v
		}
		idx, ok := e.phi[p]
		if !ok || idx < 0 || idx >= len(p.Edges) {
			return v
		}
		v = p.Edges[idx]
	}
	return v
}

func (e threadEnv) resolve(v ssa.Value) resolvedCond {
	neg := false
	for i := 0; i < 16; i++ {
		switch x := v.(type) {
		case *ssa.UnOp:
			if x.Op == token.NOT {
				neg = !neg
				v = x.X
				continue
			}
		case *ssa.Phi:
			if w := e.through(x); w != v {
				v = w
				continue
			}
		case *ssa.BinOp:
			if isCmpOp(x.Op) {
				return resolvedCond{op: x.Op, x: e.through(x.X), y: e.through(x.Y), neg: neg}
			}
		}
		break
	}
	return resolvedCond{val: v, neg: neg}
}

// decided: the truth value of the resolved condition if constants or recorded facts fix it.
func (e threadEnv) decided(rc resolvedCond) (truth bool, ok bool) {
	if rc.val != nil {
		if k, isConst := rc.val.(*ssa.Const); isConst {
			return (constString(k) == "true") != rc.neg, true
		}
		if eq, known := e.facts[threadFact{rc.val, "true"}]; known {
			return eq != rc.neg, true
		}
		return false, false
	}
	if rc.op != token.EQL && rc.op != token.NEQ {
		return false, false
	}
	kx, xc := rc.x.(*ssa.Const)
	ky, yc := rc.y.(*ssa.Const)
	var eq, known bool
	switch {
	case xc && yc:
		eq, known = constString(kx) == constString(ky), true
	case yc:
		eq, known = e.facts[threadFact{rc.x, constString(ky)}]
	case xc:
		eq, known = e.facts[threadFact{rc.y, constString(kx)}]
	}
	if !known {
		return false, false
	}
	t := eq
	if rc.op == token.NEQ {
		t = !eq
	}
	return t != rc.neg, true
}

// atomOf renders the fact the resolved condition establishes when it evaluates to truth.
func atomOf(rc resolvedCond, truth bool) (Atom, bool) {
	if rc.neg {
		truth = !truth
	}
	if rc.val != nil {
		return condAtom(rc.val, truth)
	}
	op := rc.op.String()
	if !truth {
		op = negOp[op]
	}
	a := mkAtom(Path(rc.x), op, Path(rc.y))
	a.U = isUnsigned(rc.x.Type())
	return a, true
}

// learn records what crossing the edge teaches about values that condition phis merge.
func (e *threadEnv) learn(rc resolvedCond, truth bool, inputs map[ssa.Value]bool) {
	if rc.neg {
		truth = !truth
	}
	if rc.val != nil {
		if inputs[rc.val] {
			e.facts[threadFact{rc.val, "true"}] = truth
		}
		return
	}
	if rc.op != token.EQL && rc.op != token.NEQ {
		return
	}
	eq := truth
	if rc.op == token.NEQ {
		eq = !truth
	}
	if k, ok := rc.y.(*ssa.Const); ok && inputs[rc.x] {
		e.facts[threadFact{rc.x, constString(k)}] = eq
	} else if k, ok := rc.x.(*ssa.Const); ok && inputs[rc.y] {
		e.facts[threadFact{rc.y, constString(k)}] = eq
	}
}

// threadInfo is the spec-independent part: which phis matter, and every feasible traversal of an If edge
// with the atoms it establishes (as written and as resolved on that path).
type threadInfo struct {
	phis      map[*ssa.Phi]bool
	inputs    map[ssa.Value]bool
	phisIn    map[*ssa.BasicBlock][]*ssa.Phi
	definedIn map[*ssa.BasicBlock][]ssa.Value
	threaded  bool // the function has merged conditions (phis) or a value that is tested more than once
	once      sync.Once
	trav      map[edge][][]Atom // per If edge: one atom list per feasible (block, path-state) traversal
	capped    bool
}

// threadInfos: *ssa.Program -> *sync.Map(*ssa.Function -> *threadInfo). Keyed by program so that a finished run
// (each stored mutant builds its own program) can drop its entries: see dropThreadInfos.
var threadInfos sync.Map

func dropThreadInfos(prog *ssa.Program) { threadInfos.Delete(prog) }

func threadInfoOf(fn *ssa.Function) *threadInfo {
	pm, _ := threadInfos.LoadOrStore(fn.Prog, &sync.Map{})
	m := pm.(*sync.Map)
	if v, ok := m.Load(fn); ok {
		return v.(*threadInfo)
	}
	ti := &threadInfo{phisIn: map[*ssa.BasicBlock][]*ssa.Phi{}, definedIn: map[*ssa.BasicBlock][]ssa.Value{}}
	ti.phis, ti.inputs = condPhis(fn)
	ti.threaded = len(ti.phis) > 0
	// a value tested by more than one branch (`stopped := g.stopped; if !stopped {…}; …; if stopped { return }`):
	// the second test is decided by the first on every path, so facts about it are worth recording
	tested := map[ssa.Value]int{}
	for _, b := range fn.Blocks {
		if len(b.Instrs) == 0 {
			continue
		}
		iff, ok := b.Instrs[len(b.Instrs)-1].(*ssa.If)
		if !ok {
			continue
		}
		rc := (threadEnv{}).resolve(iff.Cond)
		switch {
		case rc.val != nil:
			if _, isConst := rc.val.(*ssa.Const); !isConst {
				tested[rc.val]++
			}
		case rc.op == token.EQL || rc.op == token.NEQ:
			if _, isConst := rc.y.(*ssa.Const); isConst {
				tested[rc.x]++
			} else if _, isConst := rc.x.(*ssa.Const); isConst {
				tested[rc.y]++
			}
		}
	}
	for v, n := range tested {
		if n > 1 {
			if _, isPhi := v.(*ssa.Phi); !isPhi {
				ti.inputs[v] = true
				ti.threaded = true
			}
		}
	}
	for p := range ti.phis {
		ti.phisIn[p.Block()] = append(ti.phisIn[p.Block()], p)
	}
	for v := range ti.inputs {
		if in, ok := v.(ssa.Instruction); ok && in.Block() != nil {
			ti.definedIn[in.Block()] = append(ti.definedIn[in.Block()], v)
		}
	}
	v, _ := m.LoadOrStore(fn, ti)
	return v.(*threadInfo)
}

// explore walks fn from its entry path-sensitively. blocked decides whether an If edge may be crossed given the
// atoms it establishes on the current path; visit (optional) sees every feasible If-edge traversal.
// capped reports that the state bound was hit (the caller must then fall back to the path-insensitive search).
func (ti *threadInfo) explore(fn *ssa.Function, barrier func(b *ssa.BasicBlock) int, blocked func(e edge, cands []Atom) bool, visit func(e edge, cands []Atom)) (limit map[*ssa.BasicBlock]int, capped bool) {
	return ti.exploreStates(fn, barrier, blocked, visit, nil)
}

// exploreStates is explore with a callback for every (block, path state) reached: lim = number of leading
// instructions of the block that are reachable in that state (all of them, or up to the barrier).
func (ti *threadInfo) exploreStates(fn *ssa.Function, barrier func(b *ssa.BasicBlock) int, blocked func(e edge, cands []Atom) bool, visit func(e edge, cands []Atom), onState func(b *ssa.BasicBlock, lim int, env threadEnv)) (limit map[*ssa.BasicBlock]int, capped bool) {
	limit = map[*ssa.BasicBlock]int{}
	if len(fn.Blocks) == 0 {
		return
	}
	type state struct {
		b   *ssa.BasicBlock
		env threadEnv
	}
	seen := map[string]bool{}
	start := threadEnv{phi: map[*ssa.Phi]int{}, facts: map[threadFact]bool{}}
	work := []state{{fn.Blocks[0], start}}
	seen[fmt.Sprintf("%d|", fn.Blocks[0].Index)] = true
	push := func(from *ssa.BasicBlock, si int, env threadEnv) {
		to := from.Succs[si]
		ps, defs := ti.phisIn[to], ti.definedIn[to]
		if len(ps) > 0 || len(defs) > 0 {
			env = env.clone()
			pi := predIndexOf(from, si)
			for _, p := range ps {
				env.phi[p] = pi
			}
			// values (re)computed in the target block: what was known about the previous evaluation is stale
			for _, v := range defs {
				for f := range env.facts {
					if f.v == v {
						delete(env.facts, f)
					}
				}
			}
		}
		k := fmt.Sprintf("%d|%s", to.Index, env.key())
		if !seen[k] {
			seen[k] = true
			work = append(work, state{to, env})
		}
	}
	for len(work) > 0 {
		if len(seen) > threadStateCap {
			return limit, true
		}
		st := work[len(work)-1]
		work = work[:len(work)-1]
		b := st.b
		if barrier != nil {
			if bi := barrier(b); bi >= 0 {
				if limit[b] < bi+1 {
					limit[b] = bi + 1
				}
				if onState != nil {
					onState(b, bi+1, st.env)
				}
				continue
			}
		}
		limit[b] = len(b.Instrs)
		if onState != nil {
			onState(b, len(b.Instrs), st.env)
		}
		if len(b.Instrs) == 0 {
			continue
		}
		iff, isIf := b.Instrs[len(b.Instrs)-1].(*ssa.If)
		if !isIf {
			for si := range b.Succs {
				push(b, si, st.env)
			}
			continue
		}
		rc := st.env.resolve(iff.Cond)
		fixed, isFixed := st.env.decided(rc)
		for si, truth := range []bool{true, false} {
			if isFixed && fixed != truth {
				continue // infeasible on this path
			}
			// the condition as written (phis rendered as phi(…), which rule tables may name) and as resolved on this path
			var cands []Atom
			if a, ok := condAtom(iff.Cond, truth); ok {
				cands = append(cands, a)
			}
			if a, ok := atomOf(rc, truth); ok && (len(cands) == 0 || a != cands[0]) {
				cands = append(cands, a)
			}
			e := edge{b, si}
			if visit != nil {
				visit(e, cands)
			}
			if blocked != nil && blocked(e, cands) {
				continue
			}
			env := st.env
			if !isFixed {
				env = env.clone()
				env.learn(rc, truth, ti.inputs)
			}
			push(b, si, env)
		}
	}
	return limit, false
}

// traversals: every feasible If-edge traversal of fn (no blocking, no barriers), computed once per function.
func (ti *threadInfo) traversals(fn *ssa.Function) (map[edge][][]Atom, bool) {
	ti.once.Do(func() {
		ti.trav = map[edge][][]Atom{}
		_, ti.capped = ti.explore(fn, nil, nil, func(e edge, cands []Atom) {
			ti.trav[e] = append(ti.trav[e], cands)
		})
	})
	return ti.trav, ti.capped
}

func satisfiesAny(g guardSpec, cands []Atom) (Atom, bool) {
	for _, a := range cands {
		for _, sp := range g.atoms {
			if sp.Satisfies(a) {
				return a, true
			}
		}
	}
	return Atom{}, false
}

// threadedGuardEdges: If edges on which g is established on EVERY feasible traversal (through the phi choices of
// the path), in addition to those guardEdges finds on the written condition.
func threadedGuardEdges(fn *ssa.Function, g guardSpec, edges map[edge]bool, descr *[]string) {
	ti := threadInfoOf(fn)
	if !ti.threaded || len(g.atoms) == 0 {
		return
	}
	trav, capped := ti.traversals(fn)
	if capped {
		return
	}
	for e, ts := range trav {
		if edges[e] || len(ts) == 0 {
			continue
		}
		all := true
		var first Atom
		for i, cands := range ts {
			a, ok := satisfiesAny(g, cands)
			if !ok {
				all = false
				break
			}
			if i == 0 {
				first = a
			}
		}
		if all {
			edges[e] = true
			*descr = append(*descr, first.String())
		}
	}
}

// reachThreaded is reachUnguarded(fn, guardEdges(fn, g), g.afters) with per-path blocking: an edge is not crossed
// on the paths where g is established, even if other paths through the same edge do not establish it.
// nGuardEdges counts the (block, successor) pairs on which the guard was found established at least once.
func reachThreaded(fn *ssa.Function, g guardSpec) (limit map[*ssa.BasicBlock]int, nGuardEdges int, descr []string) {
	ti := threadInfoOf(fn)
	if !ti.threaded {
		removed, d := guardEdges(fn, g)
		return reachUnguarded(fn, removed, g.afters), len(removed), d
	}
	guardEdgeSeen := map[edge]bool{}
	helper, hdescr := helperGuardEdges(fn, g)
	descr = append(descr, hdescr...)
	for e := range helper {
		guardEdgeSeen[e] = true
	}
	limit, capped := ti.explore(fn, aftersBarrier(g.afters), func(e edge, cands []Atom) bool {
		if helper[e] {
			return true
		}
		a, ok := satisfiesAny(g, cands)
		if ok && !guardEdgeSeen[e] {
			guardEdgeSeen[e] = true
			descr = append(descr, a.String())
		}
		return ok
	}, nil)
	if capped {
		removed, d := guardEdges(fn, g)
		return reachUnguardedPlain(fn, removed, g.afters), len(removed), d
	}
	return limit, len(guardEdgeSeen), descr
}

// reachUnguardedThreaded: reachUnguarded with infeasible-path pruning; nil when not applicable.
func reachUnguardedThreaded(fn *ssa.Function, removed map[edge]bool, afters []string) map[*ssa.BasicBlock]int {
	ti := threadInfoOf(fn)
	if !ti.threaded {
		return nil
	}
	return reachUnguardedBarrier(fn, removed, aftersBarrier(afters))
}

func aftersBarrier(afters []string) func(b *ssa.BasicBlock) int {
	if len(afters) == 0 {
		return nil
	}
	return func(b *ssa.BasicBlock) int { return barrierIndex(b, afters) }
}

// reachUnguardedBarrier: path-sensitive reachability with an arbitrary barrier (index of the first barrier
// instruction of a block, or -1); nil when the function has no merged conditions or the state bound was hit.
func reachUnguardedBarrier(fn *ssa.Function, removed map[edge]bool, barrier func(b *ssa.BasicBlock) int) map[*ssa.BasicBlock]int {
	ti := threadInfoOf(fn)
	if !ti.threaded {
		return nil
	}
	limit, capped := ti.explore(fn, barrier, func(e edge, _ []Atom) bool { return removed[e] }, nil)
	if capped {
		return nil
	}
	return limit
}

// threadedGuardEdgesCanon is threadedGuardEdges for rule tables that rewrite atom operands before matching.
func threadedGuardEdgesCanon(fn *ssa.Function, g guardSpec, canon func(string) string, edges map[edge]bool, descr *[]string) {
	ti := threadInfoOf(fn)
	if !ti.threaded || len(g.atoms) == 0 {
		return
	}
	trav, capped := ti.traversals(fn)
	if capped {
		return
	}
	for e, ts := range trav {
		if edges[e] || len(ts) == 0 {
			continue
		}
		all := true
		var first Atom
		for i, cands := range ts {
			cc := make([]Atom, len(cands))
			for j, a := range cands {
				cc[j] = mkAtom(canon(a.L), a.Op, canon(a.R))
			}
			a, ok := satisfiesAny(g, cc)
			if !ok {
				all = false
				break
			}
			if i == 0 {
				first = a
			}
		}
		if all {
			edges[e] = true
			*descr = append(*descr, first.String())
		}
	}
}

// reachGuardedCanon: per-path blocking (as reachThreaded) with operand rewriting and an arbitrary barrier.
// extra = edges already known to establish the guard. nil when not applicable (no merged conditions / bound hit).
func reachGuardedCanon(fn *ssa.Function, g guardSpec, canon func(string) string, extra map[edge]bool, barrier func(b *ssa.BasicBlock) int) map[*ssa.BasicBlock]int {
	ti := threadInfoOf(fn)
	if !ti.threaded {
		return nil
	}
	limit, capped := ti.explore(fn, barrier, func(e edge, cands []Atom) bool {
		if extra[e] {
			return true
		}
		for _, a := range cands {
			if canon != nil {
				a = mkAtom(canon(a.L), a.Op, canon(a.R))
			}
			for _, sp := range g.atoms {
				if sp.Satisfies(a) {
					return true
				}
			}
		}
		return false
	}, nil)
	if capped {
		return nil
	}
	return limit
}

// retMaybeNil: a return whose error result is not a constant — `return x, err` where err may well be nil.
// Used only when a function has no literal `return …, nil` left (the success and failure exits were merged into
// one `return err`): such a return is a success return on exactly the paths on which the returned value is not
// known to be non-nil.
type retMaybeNil struct{}

func (retMaybeNil) String() string { return "return …, nil" }
func (retMaybeNil) Match(in ssa.Instruction) bool {
	ret, ok := in.(*ssa.Return)
	if !ok || len(ret.Results) == 0 {
		return false
	}
	i := len(ret.Results) - 1
	if !isErrorType(ret.Results[i].Type()) {
		return false
	}
	v := retOperand(ret, i)
	if _, isConst := v.(*ssa.Const); isConst {
		return false
	}
	return !definitelyNot(v, true, true)
}

// mergedSuccessReturns decides Guard(fn, RetNil, g) for a function whose only error-typed returns are merged ones:
// bad = positions of returns that are reachable, without g established, in a path state in which the returned value
// may be nil (the phi it comes from resolved through the path, then constants and recorded facts consulted).
func mergedSuccessReturns(p *Program, fn *ssa.Function, g guardSpec, rets []ssa.Instruction) (bad []string, ok bool) {
	ti := threadInfoOf(fn)
	helper, _ := helperGuardEdges(fn, g)
	isRet := map[ssa.Instruction]bool{}
	for _, r := range rets {
		isRet[r] = true
	}
	seenBad := map[ssa.Instruction]bool{}
	_, capped := ti.exploreStates(fn, aftersBarrier(g.afters), func(e edge, cands []Atom) bool {
		if helper[e] {
			return true
		}
		_, sat := satisfiesAny(g, cands)
		return sat
	}, nil, func(b *ssa.BasicBlock, lim int, env threadEnv) {
		for i := 0; i < lim && i < len(b.Instrs); i++ {
			in := b.Instrs[i]
			if !isRet[in] || seenBad[in] {
				continue
			}
			ret := in.(*ssa.Return)
			v := env.through(retOperand(ret, len(ret.Results)-1))
			if k, isConst := v.(*ssa.Const); isConst {
				if !k.IsNil() {
					continue
				}
			} else if eq, known := env.facts[threadFact{v, "nil"}]; known && !eq {
				continue // known non-nil on this path: an error return
			} else if definitelyNot(v, true, true) {
				continue
			}
			seenBad[in] = true
			bad = append(bad, p.InstrPos(in))
		}
	})
	return bad, !capped
}
