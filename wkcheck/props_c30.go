package main

import (
	"fmt"

	"golang.org/x/tools/go/ssa"
)

func init() {
	register(&PropSpec{
		ID:        "C30",
		Pkgs:      []string{"./internal/app", "./internal/infra/backup"},
		Technique: "static analysis: module-wide atomic-operation confinement + SSA value-identity CAS rule (CompareAndSwap(loaded, new) dominated by new > loaded) + edge-dominance on the return paths",
		Explain: "Decides the premises of the uniqueness argument for nodeMessageIDs: (1) the floor atomic is only ever mutated by CompareAndSwap (no Store/Add/Swap anywhere in the loaded packages), (2) every CAS swaps from the value just Load-ed to a value proved strictly greater on a dominating branch (same SSA values), (3) Next returns only on the CAS-success edge and returns exactly the value it installed, (4) SetFloor reports success only if the floor already covers the restored maximum, or the natural clock probe is strictly above it and (already covered or installed by CAS). From (1)-(3) every returned id was installed by a successful CAS from a strictly smaller floor, so ids returned by concurrent callers are pairwise distinct and increasing in linearisation order; from (4) no id at or below the restored maximum is issued after SetFloor succeeded. NOT decided: Snowflake clock behaviour, uint64(int64) conversion of generated ids, that callers treat a SetFloor error as fatal.",
		Run:       c30,
		Mutants: []Mutant{
			{Name: "next-nonstrict", File: "internal/app/app.go", Old: "if raw <= floor {\n\t\t\tcontinue", New: "if raw < floor {\n\t\t\tcontinue", Expect: "C30/R2*"},
			{Name: "next-ignore-cas", File: "internal/app/app.go", Old: "if g.floor.CompareAndSwap(floor, raw) {\n\t\t\treturn raw\n\t\t}", New: "g.floor.CompareAndSwap(floor, raw)\n\t\treturn raw", Expect: "C30/R3*"},
			{Name: "next-store", File: "internal/app/app.go", Old: "if g.floor.CompareAndSwap(floor, raw) {\n\t\t\treturn raw\n\t\t}", New: "g.floor.Store(raw)\n\t\treturn raw", Expect: "C30/R1*"},
			{Name: "setfloor-probe-nonstrict", File: "internal/app/app.go", Old: "if probe <= floor {", New: "if probe < floor {", Expect: "C30/R4*"},
		},
	})
}

func c30(c *Ctx) {
	const floor = "internal/app.nodeMessageIDs.floor"
	sites := c.AtomicOps("R1-ops", floor, []string{"Load", "CompareAndSwap"}, nil)
	c.CASAdvances("R2-cas", floor, sites)

	next := c.Fn("internal/app.nodeMessageIDs.Next")
	c.Guard("R3-next", next, AnyRet{}, "sync/atomic.Uint64.CompareAndSwap(*) == true")
	if next != nil {
		// the returned id is exactly the value installed by the CAS (SSA identity)
		installed := map[ssa.Value]bool{}
		for _, s := range sites {
			if s.fn == next && s.method == "CompareAndSwap" {
				installed[stripConv(s.call.Common().Args[2])] = true
			}
		}
		bad := ""
		n := 0
		for _, in := range instrsMatching(next, AnyRet{}) {
			n++
			ret := in.(*ssa.Return)
			if len(ret.Results) != 1 || !installed[stripConv(ret.Results[0])] {
				bad = c.P.InstrPos(in)
			}
		}
		construct := "internal/app.nodeMessageIDs.Next#returns-installed-value"
		if bad != "" || n == 0 {
			c.add("shape", "R3-next", construct, Violated, bad, "Next returns a value that is not the one it installed as the new floor with CompareAndSwap")
		} else {
			c.add("shape", "R3-next", construct, Held, c.P.Pos(next.Pos()), fmt.Sprintf("%d return(s), each returns the CAS-installed value", n))
		}
	}

	set := c.Fn("internal/app.nodeMessageIDs.SetFloor")
	c.Guard("R4-setfloor", set, RetNil{},
		"floor <= sync/atomic.Uint64.Load(*) || *snowflake.Node.Generate(*) <= sync/atomic.Uint64.Load(*) || sync/atomic.Uint64.CompareAndSwap(*) == true",
		"floor <= sync/atomic.Uint64.Load(*) || *snowflake.Node.Generate(*) > floor",
	)
	c.Min("R2-cas", 2)

	// R5: the restore fence is wired to SetFloor and a refused fence fails the activation
	// (the staged-restore node service must propagate the allocator's error to its caller).
	run := c.Fn("internal/infra/backup.StagedRestoreNodeService.Run")
	c.ErrPropagates("R5-fence", run, "dyn:s.messageIDFloor*")
	c.ConfineStores("R5-fence", "internal/infra/backup.StagedRestoreNodeService.messageIDFloor", false, "internal/infra/backup.StagedRestoreNodeService.SetMessageIDFloor")
	c.CallShape("R5-fence", c.Fn("internal/app.App.wireBackup"), "internal/infra/backup.StagedRestoreNodeService.SetMessageIDFloor", "*SetMessageIDFloor(*, closure:internal/app.SetFloor$bound)")
}
