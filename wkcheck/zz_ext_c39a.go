package main

import (
	"fmt"
	"go/token"
	"go/types"
	"sort"
	"strings"

	"golang.org/x/tools/go/ssa"
)

// Extension rules for C39 found by seeded change C39-a.
//
// One ApplyBatch stages every command of a Raft batch into ONE uncommitted WriteBatch. The migration state
// of a hash slot (fence index, outbox frontier) that an earlier command of the batch staged is therefore not
// yet in the committed DB when a later command of the same batch is checked. The code keeps a per-batch
// overlay (map hash slot → HashSlotMigrationState) for that; "ordinary writes for the migrating hash slot are
// refused" holds inside a batch only if the overlay is a faithful read-your-writes view of the batch:
//
//	XA1-batch-overlay
//	  (a) stage ⇒ publish: after WriteBatch.UpsertHashSlotMigrationState(S) every path to a return that is
//	      not the error return of a failed step passes overlay[k] = S with the SAME value (S is not modified in
//	      between, no other value is published); after WriteBatch.DeleteHashSlotMigrationState(k) every such
//	      path passes delete(overlay, k) or a re-publication under k. (The seed dropped the publication of the
//	      freshly fenced state: a write behind the fence in the same batch was accepted and overwrote the fence.)
//	      One enumerated exception: loadOrCreateMigrationState deletes a foreign pair's state and hands a fresh
//	      zero state to its caller; (e) makes the callers publish it.
//	  (b) overlay first: a read of the committed state (DB.LoadHashSlotMigrationState) is reachable only over the
//	      "overlay has no entry for this key" edge of a lookup with the same key.
//	  (c) whoever touches migration state inside a batch has the overlay: every function reachable from
//	      ApplyBatch that loads or stages migration state, and every function staging it into a caller's batch.
//	  (d) one overlay per batch: ApplyBatch makes exactly one and every helper passes on only the one it got.
//	  (e) the callers of loadOrCreateMigrationState are the two enumerated stagers and, from that call, reach
//	      a non-error return only through a publication under the same key or over "FenceIndex != 0" (which a
//	      fresh state cannot satisfy).
//
// The overlay is recognised by its type, keys/values by SSA identity; no local variable name is used.
func init() {
	const sm = "pkg/slot/fsm/statemachine.go"
	extend("C39", nil, func(c *Ctx) {
		const rule = "XA1-batch-overlay"
		ab := c.Fn(c13fsm + "stateMachine.ApplyBatch")
		if ab == nil {
			return
		}
		exceptions := map[string]string{
			c13fsm + "stateMachine.loadOrCreateMigrationState": "deletes the state of a foreign (source,target) pair and returns a fresh zero state that replaces it; the caller stages and publishes that state before any non-error return (clause (e) of this rule)",
		}
		var fns []*ssa.Function
		for _, fn := range c.P.AllFuncs {
			if xc39aInFsm(fn) {
				fns = append(fns, fn)
			}
		}
		sort.Slice(fns, func(i, j int) bool { return c.P.Name(fns[i]) < c.P.Name(fns[j]) })
		helpers := 0
		for _, fn := range fns {
			ov := xc39aOverlayOf(fn)
			if ov == nil {
				continue
			}
			if _, isParam := ov.(*ssa.Parameter); isParam {
				helpers++
			}
			c.FuncsAnalysed[c.P.Name(fn)] = true
			xc39aStagePublish(c, rule, fn, ov, exceptions)
			xc39aOverlayFirst(c, rule, fn, ov)
			xc39aOneOverlay(c, rule, fn, ov)
			xc39aCallersPublish(c, rule, fn, ov)
		}
		if helpers < 6 {
			c.add("vacuity", rule, "overlay-helpers#count", Undecided, "", fmt.Sprintf("%d functions take the per-batch migration-state overlay (hand-confirmed minimum 6): the overlay type changed or the helpers moved", helpers))
		}
		xc39aInBatchHaveOverlay(c, rule, ab, fns)
		c.ConfineCalls(rule, c13fsm+"stateMachine.loadOrCreateMigrationState", 2, c13fsm+"stateMachine.stageMigrationFence", c13fsm+"stateMachine.stageMigrationOutbox")
		c.Min(rule, 20)
	},
		// the seeded change: the fenced state is staged but not visible to later commands of the batch
		Mutant{Name: "xa-fence-not-published-to-batch", File: sm, Old: "\tpendingStates[hashSlot] = state\n\n\tif migration.phase < migrationPhaseDelta {", New: "\n\tif migration.phase < migrationPhaseDelta {", Expect: "C39/XA1-batch-overlay/*stageMigrationFence*"},
		// same mechanism at the other stagers
		Mutant{Name: "xa-outbox-frontier-not-published", File: sm, Old: "\tpendingStates[hashSlot] = state\n\n\tforwardCmd := multiraft.Command{\n\t\tSlotID:   cmd.SlotID,", New: "\n\tforwardCmd := multiraft.Command{\n\t\tSlotID:   cmd.SlotID,", Expect: "C39/XA1-batch-overlay/*stageMigrationOutbox*"},
		Mutant{Name: "xa-ack-not-published", File: sm, Old: "\tpendingStates[hashSlot] = state\n\treturn nil\n}", New: "\treturn nil\n}", Expect: "C39/XA1-batch-overlay/*applyMigrationOutboxAck*"},
		Mutant{Name: "xa-cleanup-leaves-stale-overlay", File: sm, Old: "\t\tdelete(pendingStates, hashSlot)\n", New: "", Expect: "C39/XA1-batch-overlay/*applyMigrationOutboxCleanup*"},
		// the fence is published only when a forward is scheduled (early exit before the publication)
		Mutant{Name: "xa-fence-published-after-snapshot-exit", File: sm, Old: "\tpendingStates[hashSlot] = state\n\n\tif migration.phase < migrationPhaseDelta {\n\t\treturn pendingForwardDelta{}, false, nil\n\t}\n", New: "\n\tif migration.phase < migrationPhaseDelta {\n\t\treturn pendingForwardDelta{}, false, nil\n\t}\n\tpendingStates[hashSlot] = state\n", Expect: "C39/XA1-batch-overlay/*stageMigrationFence*"},
		// what is published differs from what was staged
		Mutant{Name: "xa-published-state-differs-from-staged", File: sm, Old: "\tpendingStates[hashSlot] = state\n\n\tforwardCmd := multiraft.Command{\n\t\tSlotID:   cmd.SlotID,", New: "\tstate.FenceIndex = 0\n\tpendingStates[hashSlot] = state\n\n\tforwardCmd := multiraft.Command{\n\t\tSlotID:   cmd.SlotID,", Expect: "C39/XA1-batch-overlay/*stageMigrationOutbox*"},
		// published under another key
		Mutant{Name: "xa-fence-published-under-slot-id", File: sm, Old: "\tpendingStates[hashSlot] = state\n\n\tif migration.phase < migrationPhaseDelta {", New: "\tpendingStates[uint16(m.slot)] = state\n\n\tif migration.phase < migrationPhaseDelta {", Expect: "C39/XA1-batch-overlay/*stageMigrationFence*"},
		// the fence check reads the committed row although the batch already holds a newer state
		Mutant{Name: "xa-fence-check-prefers-committed-row", File: sm, Old: "\tstate, ok := pendingStates[hashSlot]\n\tif !ok {\n\t\tvar err error\n\t\tstate, err = m.db.LoadHashSlotMigrationState(ctx, hashSlot)\n\t\tif errors.Is(err, metadb.ErrNotFound) {\n\t\t\treturn false, nil\n", New: "\tstate, ok := pendingStates[hashSlot]\n\tif !ok || state.FenceIndex == 0 {\n\t\tvar err error\n\t\tstate, err = m.db.LoadHashSlotMigrationState(ctx, hashSlot)\n\t\tif errors.Is(err, metadb.ErrNotFound) {\n\t\t\treturn false, nil\n", Expect: "C39/XA1-batch-overlay/*isHashSlotFenced*"},
		// the fence check gets an overlay of its own
		Mutant{Name: "xa-fence-check-gets-empty-overlay", File: sm, Old: "m.isHashSlotFenced(ctx, applyHashSlot, pendingMigrationStates)", New: "m.isHashSlotFenced(ctx, applyHashSlot, map[uint16]metadb.HashSlotMigrationState{})", Expect: "C39/XA1-batch-overlay/*ApplyBatch*"},
		// behaviour-preserving: the staged value is copied to a renamed local, an unrelated statement is added
		Mutant{Name: "xa-fence-publication-refactored", File: sm,
			Old:    "\tif err := wb.UpsertHashSlotMigrationState(state); err != nil {\n\t\treturn pendingForwardDelta{}, false, err\n\t}\n\tpendingStates[hashSlot] = state\n\n\tif migration.phase < migrationPhaseDelta {",
			New:    "\tfenced := state\n\tif stageErr := wb.UpsertHashSlotMigrationState(fenced); stageErr != nil {\n\t\treturn pendingForwardDelta{}, false, stageErr\n\t}\n\t_ = cmd.Term\n\tpendingStates[fenced.HashSlot] = fenced\n\n\tif migration.phase < migrationPhaseDelta {",
			Expect: "!silent"},
	)
}

const (
	xc39aUpsert = "pkg/db/meta.WriteBatch.UpsertHashSlotMigrationState"
	xc39aDelete = "pkg/db/meta.WriteBatch.DeleteHashSlotMigrationState"
	xc39aLoad   = "pkg/db/meta.DB.LoadHashSlotMigrationState"
	xc39aLoadOr = c13fsm + "stateMachine.loadOrCreateMigrationState"
)

func xc39aInFsm(fn *ssa.Function) bool {
	root := fn
	for root.Parent() != nil {
		root = root.Parent()
	}
	return root.Pkg != nil && strings.HasSuffix(root.Pkg.Pkg.Path(), "pkg/slot/fsm") && len(fn.Blocks) > 0
}

// xc39aIsOverlay: map[uint16]meta.HashSlotMigrationState.
func xc39aIsOverlay(t types.Type) bool {
	m, ok := types.Unalias(t).Underlying().(*types.Map)
	if !ok {
		return false
	}
	n, ok := types.Unalias(m.Elem()).(*types.Named)
	return ok && n.Obj().Name() == "HashSlotMigrationState" && n.Obj().Pkg() != nil && strings.HasSuffix(n.Obj().Pkg().Path(), "pkg/db/meta")
}

// xc39aOverlayOf: the overlay a function works with: its parameter of the overlay type, else the one map of
// that type it makes itself.
func xc39aOverlayOf(fn *ssa.Function) ssa.Value {
	for _, p := range fn.Params {
		if xc39aIsOverlay(p.Type()) {
			return p
		}
	}
	var made []ssa.Value
	for _, b := range fn.Blocks {
		for _, in := range b.Instrs {
			if mm, ok := in.(*ssa.MakeMap); ok && xc39aIsOverlay(mm.Type()) {
				made = append(made, mm)
			}
		}
	}
	if len(made) >= 1 {
		return made[0] // more than one is reported by xc39aOneOverlay
	}
	return nil
}

// xc39aErrorReturn: the error result is a value that is non-nil on every path to this return (the return sits
// behind the `v != nil` edge of a test of that very value).
func xc39aErrorReturn(ret *ssa.Return) bool {
	if len(ret.Results) == 0 {
		return false
	}
	v := ret.Results[len(ret.Results)-1]
	if _, isConst := v.(*ssa.Const); isConst {
		return false
	}
	if !types.Identical(v.Type(), types.Universe.Lookup("error").Type()) {
		return false
	}
	child := ret.Block()
	for parent := child.Idom(); parent != nil; child, parent = parent, parent.Idom() {
		if len(parent.Instrs) == 0 || len(child.Preds) != 1 {
			continue
		}
		iff, ok := parent.Instrs[len(parent.Instrs)-1].(*ssa.If)
		if !ok {
			continue
		}
		bin, ok := iff.Cond.(*ssa.BinOp)
		if !ok {
			continue
		}
		var other ssa.Value
		switch {
		case bin.X == v:
			other = bin.Y
		case bin.Y == v:
			other = bin.X
		default:
			continue
		}
		if k, ok := other.(*ssa.Const); !ok || k.Value != nil {
			continue
		}
		if bin.Op == token.NEQ && parent.Succs[0] == child && parent.Succs[1] != child {
			return true
		}
		if bin.Op == token.EQL && parent.Succs[1] == child && parent.Succs[0] != child {
			return true
		}
	}
	return false
}

// xc39aStateAlloc: v is a load of a local state variable → that variable.
func xc39aStateAlloc(v ssa.Value) *ssa.Alloc {
	if u, ok := v.(*ssa.UnOp); ok && u.Op == token.MUL {
		if a, ok := u.X.(*ssa.Alloc); ok {
			return a
		}
	}
	return nil
}

func xc39aSameState(a, b ssa.Value) bool {
	if a == b {
		return true
	}
	x, y := xc39aStateAlloc(a), xc39aStateAlloc(b)
	return x != nil && x == y
}

// xc39aOwnHashSlot: key is the HashSlot field of the state value `state` (the row's own key).
func xc39aOwnHashSlot(key, state ssa.Value) bool {
	switch x := key.(type) {
	case *ssa.UnOp:
		fa, ok := x.X.(*ssa.FieldAddr)
		if !ok || fieldName(fa.X.Type(), fa.Field) != "HashSlot" {
			return false
		}
		a := xc39aStateAlloc(state)
		return a != nil && fa.X == ssa.Value(a)
	case *ssa.Field:
		return x.X == state && fieldName(x.X.Type(), x.Field) == "HashSlot"
	}
	return false
}

// xc39aWritesInto: the instruction stores into the local (whole or one of its fields).
func xc39aWritesInto(in ssa.Instruction, a *ssa.Alloc) bool {
	st, ok := in.(*ssa.Store)
	if !ok || a == nil {
		return false
	}
	addr := st.Addr
	for {
		switch x := addr.(type) {
		case *ssa.FieldAddr:
			addr = x.X
			continue
		case *ssa.IndexAddr:
			addr = x.X
			continue
		}
		break
	}
	return addr == ssa.Value(a)
}

// xc39aFnKey: the hash-slot value under which fn consults the overlay (index of its overlay lookups and the
// hash-slot argument it hands to loadOrCreateMigrationState). ok=false when there are several.
func xc39aFnKey(fn *ssa.Function, ov ssa.Value) (key ssa.Value, ok bool) {
	set := map[ssa.Value]bool{}
	for _, b := range fn.Blocks {
		for _, in := range b.Instrs {
			switch x := in.(type) {
			case *ssa.Lookup:
				if x.X == ov {
					set[x.Index] = true
				}
			case ssa.CallInstruction:
				if calleeName(x.Common()) == xc39aLoadOr {
					for _, a := range callArgs(x.Common()) {
						if b, isBasic := a.Type().Underlying().(*types.Basic); isBasic && b.Kind() == types.Uint16 {
							set[a] = true
						}
					}
				}
			}
		}
	}
	if len(set) != 1 {
		return nil, false
	}
	for k := range set {
		key = k
	}
	return key, true
}

// xc39aWalk follows every CFG path that starts right after `from` (not crossing the edges in `removed`).
// visit classifies each instruction: stop=true ends the path there.
func xc39aWalk(from ssa.Instruction, removed map[edge]bool, visit func(in ssa.Instruction) (stop bool)) {
	start := from.Block()
	seen := map[*ssa.BasicBlock]bool{}
	var run func(b *ssa.BasicBlock, at int)
	run = func(b *ssa.BasicBlock, at int) {
		for i := at; i < len(b.Instrs); i++ {
			if visit(b.Instrs[i]) {
				return
			}
		}
		for si, s := range b.Succs {
			if removed[edge{b, si}] || seen[s] {
				continue
			}
			seen[s] = true
			run(s, 0)
		}
	}
	run(start, indexIn(start, from)+1)
}

// (a) stage ⇒ publish
func xc39aStagePublish(c *Ctx, rule string, fn *ssa.Function, ov ssa.Value, exceptions map[string]string) {
	fname := c.P.Name(fn)
	fnKey, oneKey := xc39aFnKey(fn, ov)
	for _, b := range fn.Blocks {
		for _, in := range b.Instrs {
			ci, ok := in.(ssa.CallInstruction)
			if !ok {
				continue
			}
			name := calleeName(ci.Common())
			if name != xc39aUpsert && name != xc39aDelete {
				continue
			}
			args := callArgs(ci.Common())
			staged := args[len(args)-1]
			kind := "upsert"
			if name == xc39aDelete {
				kind = "delete"
			}
			construct := fname + "#staged-" + kind + "-published-to-overlay"
			if reason, ok := exceptions[fname]; ok && kind == "delete" {
				c.add("flow", rule, construct, Exception, c.P.InstrPos(in), reason)
				continue
			}
			if kind == "upsert" && !oneKey {
				c.add("flow", rule, construct, Undecided, c.P.InstrPos(in), "the function consults the overlay under more than one (or no) hash-slot value; the key of the publication cannot be tied to the state")
				continue
			}
			alloc := xc39aStateAlloc(staged)
			keyOK := func(k ssa.Value) bool {
				if kind == "delete" {
					return k == staged
				}
				if k == fnKey {
					return true
				}
				return xc39aOwnHashSlot(k, staged) // <published state>.HashSlot: the row's own key
			}
			var bad []string
			published := 0
			xc39aWalk(in, nil, func(x ssa.Instruction) bool {
				switch y := x.(type) {
				case *ssa.MapUpdate:
					if y.Map != ov {
						return false
					}
					if kind == "upsert" && !xc39aSameState(y.Value, staged) {
						bad = append(bad, "publishes "+Path(y.Value)+" instead of the staged "+Path(staged)+" at "+c.P.InstrPos(x))
						return false
					}
					if !keyOK(y.Key) {
						bad = append(bad, "publishes under key "+Path(y.Key)+" at "+c.P.InstrPos(x))
						return false
					}
					published++
					return true
				case *ssa.Call:
					if bi, ok := y.Call.Value.(*ssa.Builtin); ok && bi.Name() == "delete" && len(y.Call.Args) == 2 && y.Call.Args[0] == ov {
						if kind == "delete" && y.Call.Args[1] == staged {
							published++
							return true
						}
						if kind == "upsert" {
							bad = append(bad, "removes the overlay entry after staging the state at "+c.P.InstrPos(x))
						}
					}
				case *ssa.Store:
					if kind == "upsert" && xc39aWritesInto(x, alloc) {
						bad = append(bad, "modifies the state after staging it and before publishing it ("+Path(y.Addr)+") at "+c.P.InstrPos(x))
						return true
					}
				case *ssa.Return:
					if !xc39aErrorReturn(y) {
						bad = append(bad, "returns without publishing at "+c.P.InstrPos(x))
					}
					return true
				}
				return false
			})
			switch {
			case len(bad) > 0:
				c.add("flow", rule, construct, Violated, c.P.InstrPos(in), fmt.Sprintf("migration state staged into the uncommitted batch by %s is not (faithfully) visible to later commands of the same batch: %s", name[strings.LastIndex(name, ".")+1:], strings.Join(bad, "; ")))
			case published == 0:
				c.add("flow", rule, construct, Undecided, c.P.InstrPos(in), "no path from the staging call reaches a return or a publication")
			default:
				c.add("flow", rule, construct, Held, c.P.InstrPos(in), fmt.Sprintf("every path to a non-error return passes the publication of the same value under the function's hash slot (%d publication site(s))", published))
			}
		}
	}
}

// (b) overlay first
func xc39aOverlayFirst(c *Ctx, rule string, fn *ssa.Function, ov ssa.Value) {
	for _, in := range instrsMatching(fn, CallTo{xc39aLoad}) {
		ci := in.(ssa.CallInstruction)
		args := callArgs(ci.Common())
		key := args[len(args)-1]
		c.Guard(rule, fn, InstrFn{"committed-state read " + xc39aLoad, func(x ssa.Instruction) bool { return x == in }},
			Path(ov)+"["+Path(key)+"]#1 == false")
	}
}

// (d) one overlay
func xc39aOneOverlay(c *Ctx, rule string, fn *ssa.Function, ov ssa.Value) {
	fname := c.P.Name(fn)
	construct := fname + "#one-overlay"
	var bad []string
	uses := 0
	for _, b := range fn.Blocks {
		for _, in := range b.Instrs {
			switch x := in.(type) {
			case *ssa.MakeMap:
				if xc39aIsOverlay(x.Type()) && ssa.Value(x) != ov {
					bad = append(bad, "makes another overlay at "+c.P.InstrPos(in))
				}
			case *ssa.Lookup:
				if xc39aIsOverlay(x.X.Type()) {
					uses++
					if x.X != ov {
						bad = append(bad, "looks up "+Path(x.X)+" at "+c.P.InstrPos(in))
					}
				}
			case *ssa.MapUpdate:
				if xc39aIsOverlay(x.Map.Type()) {
					uses++
					if x.Map != ov {
						bad = append(bad, "updates "+Path(x.Map)+" at "+c.P.InstrPos(in))
					}
				}
			case ssa.CallInstruction:
				for _, a := range callArgs(x.Common()) {
					if xc39aIsOverlay(a.Type()) {
						uses++
						if a != ov {
							bad = append(bad, "passes "+Path(a)+" to "+calleeName(x.Common())+" at "+c.P.InstrPos(in))
						}
					}
				}
			}
		}
	}
	switch {
	case len(bad) > 0:
		c.add("order", rule, construct, Violated, c.P.Pos(fn.Pos()), "the commands of one batch no longer share one migration-state overlay: "+strings.Join(bad, "; "))
	case uses == 0:
		c.add("order", rule, construct, Undecided, c.P.Pos(fn.Pos()), "the overlay is never used")
	default:
		c.add("order", rule, construct, Held, c.P.Pos(fn.Pos()), fmt.Sprintf("%d use(s), all of the one overlay %s", uses, Path(ov)))
	}
}

// (e) after loadOrCreateMigrationState the caller publishes
func xc39aCallersPublish(c *Ctx, rule string, fn *ssa.Function, ov ssa.Value) {
	sites := instrsMatching(fn, CallTo{xc39aLoadOr})
	if len(sites) == 0 {
		return
	}
	fname := c.P.Name(fn)
	removed, _ := guardEdges(fn, parseGuard("*.FenceIndex != 0"))
	for _, in := range sites {
		construct := fname + "#fresh-state-published"
		var key ssa.Value
		for _, a := range callArgs(in.(ssa.CallInstruction).Common()) {
			if b, isBasic := a.Type().Underlying().(*types.Basic); isBasic && b.Kind() == types.Uint16 {
				key = a
			}
		}
		var bad []string
		published := 0
		xc39aWalk(in, removed, func(x ssa.Instruction) bool {
			switch y := x.(type) {
			case *ssa.MapUpdate:
				if y.Map == ov && y.Key == key {
					published++
					return true
				}
				if y.Map == ov && xc39aOwnHashSlot(y.Key, y.Value) {
					published++
					return true
				}
			case *ssa.Return:
				if !xc39aErrorReturn(y) {
					bad = append(bad, "non-error return at "+c.P.InstrPos(x))
				}
				return true
			}
			return false
		})
		switch {
		case len(bad) > 0:
			c.add("flow", rule, construct, Violated, c.P.InstrPos(in), "loadOrCreateMigrationState may have staged the deletion of a foreign pair's state; the fresh state it returned must be published to the batch overlay before the command is done: "+strings.Join(bad, "; "))
		case published == 0:
			c.add("flow", rule, construct, Undecided, c.P.InstrPos(in), "no publication reachable from the call")
		default:
			c.add("flow", rule, construct, Held, c.P.InstrPos(in), "every non-error return after the call is behind a publication under the same hash slot or behind FenceIndex != 0 (not a fresh state)")
		}
	}
}

// (c) in-batch access has the overlay
func xc39aInBatchHaveOverlay(c *Ctx, rule string, ab *ssa.Function, fns []*ssa.Function) {
	inBatch := map[*ssa.Function]bool{ab: true}
	work := []*ssa.Function{ab}
	for len(work) > 0 {
		fn := work[len(work)-1]
		work = work[:len(work)-1]
		add := func(f *ssa.Function) {
			if f != nil && !inBatch[f] && xc39aInFsm(f) {
				inBatch[f] = true
				work = append(work, f)
			}
		}
		for _, a := range fn.AnonFuncs {
			add(a)
		}
		for _, b := range fn.Blocks {
			for _, in := range b.Instrs {
				if ci, ok := in.(ssa.CallInstruction); ok {
					add(ci.Common().StaticCallee())
				}
			}
		}
	}
	checked := 0
	for _, fn := range fns {
		var touches []string
		for _, b := range fn.Blocks {
			for _, in := range b.Instrs {
				ci, ok := in.(ssa.CallInstruction)
				if !ok {
					continue
				}
				name := calleeName(ci.Common())
				switch name {
				case xc39aLoad:
					if inBatch[fn] {
						touches = append(touches, "reads the committed migration state at "+c.P.InstrPos(in))
					}
				case xc39aUpsert, xc39aDelete:
					_, foreignBatch := callArgs(ci.Common())[0].(*ssa.Parameter)
					if inBatch[fn] || foreignBatch {
						touches = append(touches, "stages migration state into the caller's batch at "+c.P.InstrPos(in))
					}
				}
			}
		}
		if len(touches) == 0 {
			continue
		}
		checked++
		construct := c.P.Name(fn) + "#in-batch-access-has-overlay"
		if xc39aOverlayOf(fn) == nil {
			c.add("confine", rule, construct, Violated, c.P.Pos(fn.Pos()), "runs inside ApplyBatch's uncommitted batch without the per-batch migration-state overlay, so it cannot see (or record) what earlier commands of the same batch staged: "+strings.Join(touches, "; "))
			continue
		}
		c.add("confine", rule, construct, Held, c.P.Pos(fn.Pos()), fmt.Sprintf("%d access(es), the function has the overlay", len(touches)))
	}
	if checked < 6 {
		c.add("vacuity", rule, "in-batch-access#count", Undecided, "", fmt.Sprintf("only %d in-batch functions touching migration state found (hand-confirmed minimum 6)", checked))
	}
}
