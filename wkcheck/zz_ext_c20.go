package main

import (
	"fmt"
	"go/token"
	"go/types"
	"sort"
	"strings"

	"golang.org/x/tools/go/ssa"
)

// Extension rules for C20 found by seeded change C20-a (ComputeAddSlotPlan built its working list with
// `append(existingSlots, newSlotID)` instead of a copy and then sorted it in place: with spare capacity the sort
// rewrites the backing array existingSlots still points into, the donor candidate list silently loses the largest
// existing slot and gains the new one, the plan stops early and misses the "within one of the ideal share" clause).
//
// The plan builders reason about several slot lists at once (all participating slots, the donors, the receivers).
// The balance clause needs each of them to keep the contents it was built with. Go's append does not promise a
// copy, so the structural clause is:
//
//	X1-exclusive-slice (every function of pkg/hashslot):
//	  a slice r obtained by  r = append(b, …)  from a non-fresh base b (or returned by a function that hands back a
//	  slice derived from its argument) may share b's backing array. If either of the two is afterwards WRITTEN IN
//	  PLACE - an element store, copy-into, sort.Slice/sort.Sort/slices.Sort…, or a call of a module function that
//	  (transitively) does that to the corresponding parameter - then the other one must be dead: no use of it is
//	  reachable after the write.                                                           [#in-place-write-has-no-live-alias]
//	  Likewise two appends onto views of the same backing array that do not feed one another (a forked append)
//	  overwrite each other's tail: the earlier result must be dead when the later append runs.   [#no-forked-append]
//
// How it is decided (SSA, no names of locals, no source text): per function, slice values are grouped into
//   - "alias classes": connected through φ, conversions, local cells (captured variables), sub-slicing x[i:j],
//     append base→result (base not the nil constant) and call argument→result for module functions whose result is
//     derived from that parameter;
//   - "views": the same, but WITHOUT the append and call edges - i.e. the values a programmer regards as one variable
//     or an intentional window of it (s = append(s, x) in a loop is one view through its φ).
//
// A write through value v is a violation iff some value of v's alias class outside v's view has a real use
// (anything but being a φ operand / sliced / appended onto / stored into its cell) reachable after the write.
// In-place-mutating callees are found by a fixpoint over the loaded function bodies starting from the std table
// below; sortSlotIDs is therefore recognised by what it does, not by its name.
//
// Silent by construction on: copies (`append([]T(nil), xs...)`, make+copy), the s = append(s, x) idiom, in-place
// filtering through s[:0], writes to table fields (each load of a field is its own root: cross-OBJECT sharing such as
// Clone is R2's job), renaming, logging, early returns.
// NOT decided: whether the shared capacity is really there at run time (cap > len is an arithmetic fact - the rule
// treats every non-fresh append as possibly sharing); aliasing through struct fields, maps or callees without a loaded
// body; the in-place filter's write-index ≤ read-index argument; plan balance as a numeric property.
func init() {
	const f = "pkg/hashslot/rebalancer.go"
	extend("C20", nil, func(c *Ctx) {
		xc20ExclusiveSlices(c, "X1-exclusive-slice", "pkg/hashslot")
	},
		// the seeded change
		Mutant{Name: "x-add-plan-sorts-aliased-existing-slots", File: f,
			Old:    "slots := append(append([]multiraft.SlotID(nil), existingSlots...), newSlotID)",
			New:    "slots := append(existingSlots, newSlotID)",
			Expect: "C20/X1-exclusive-slice/pkg/hashslot.ComputeAddSlotPlan#in-place-write-has-no-live-alias"},
		// the same through a re-sliced header (full-slice expression keeps the capacity)
		Mutant{Name: "x-add-plan-sorts-resliced-existing-slots", File: f,
			Old:    "slots := append(append([]multiraft.SlotID(nil), existingSlots...), newSlotID)",
			New:    "slots := existingSlots[:len(existingSlots):cap(existingSlots)]\n\tslots = append(slots, newSlotID)",
			Expect: "C20/X1-exclusive-slice/pkg/hashslot.ComputeAddSlotPlan#in-place-write-has-no-live-alias"},
		// sibling in the remove plan: the receiver candidate list `remaining` is clobbered by sorting the combined list
		Mutant{Name: "x-remove-plan-sorts-aliased-remaining", File: f,
			Old:    "\tcurrent := slotCounts(table, append(append([]multiraft.SlotID(nil), remaining...), removeSlotID))\n",
			New:    "\tall := append(remaining, removeSlotID)\n\tsortSlotIDs(all)\n\tcurrent := slotCounts(table, all)\n",
			Expect: "C20/X1-exclusive-slice/pkg/hashslot.ComputeRemoveSlotPlan#in-place-write-has-no-live-alias"},
		// sibling through a helper: the alias is created in one function, the in-place write happens in its caller
		Mutant{Name: "x-add-plan-alias-through-helper", File: f,
			Old:    "slots := append(append([]multiraft.SlotID(nil), existingSlots...), newSlotID)\n\tsortSlotIDs(slots)\n",
			New:    "slots := func(base []multiraft.SlotID, id multiraft.SlotID) []multiraft.SlotID { return append(base, id) }(existingSlots, newSlotID)\n\tsort.Slice(slots, func(i, j int) bool { return slots[i] < slots[j] })\n",
			Expect: "C20/X1-exclusive-slice/pkg/hashslot.ComputeAddSlotPlan#in-place-write-has-no-live-alias"},
		// sibling: element store instead of a sort (swap the new slot to the front of the aliased list)
		Mutant{Name: "x-add-plan-element-store-into-aliased-list", File: f,
			Old:    "slots := append(append([]multiraft.SlotID(nil), existingSlots...), newSlotID)\n\tsortSlotIDs(slots)\n",
			New:    "slots := append(existingSlots, newSlotID)\n\tslots[0], slots[len(slots)-1] = slots[len(slots)-1], slots[0]\n",
			Expect: "C20/X1-exclusive-slice/pkg/hashslot.ComputeAddSlotPlan#in-place-write-has-no-live-alias"},
		// sibling: forked append - two lists grown from the same base overwrite each other's tail
		Mutant{Name: "x-remove-plan-forked-append", File: f,
			Old:    "\tcurrent := slotCounts(table, append(append([]multiraft.SlotID(nil), remaining...), removeSlotID))\n\ttarget := idealSlotCounts(int(table.HashSlotCount()), remaining)\n",
			New:    "\tall := append(remaining, removeSlotID)\n\tpadded := append(remaining, 0)\n\tcurrent := slotCounts(table, all)\n\ttarget := idealSlotCounts(int(table.HashSlotCount()), padded[:len(remaining)])\n",
			Expect: "C20/X1-exclusive-slice/pkg/hashslot.ComputeRemoveSlotPlan#no-forked-append"},
	)
}

// std functions that write the elements of a slice argument in place: callee short name -> argument index
var xc20StdMutators = map[string]int{
	"sort.Slice": 0, "sort.SliceStable": 0, "sort.Sort": 0, "sort.Stable": 0,
	"sort.Ints": 0, "sort.Strings": 0, "sort.Float64s": 0,
	"slices.Sort": 0, "slices.SortFunc": 0, "slices.SortStableFunc": 0, "slices.Reverse": 0,
	"copy": 0,
}

func xc20IsSlice(t types.Type) bool {
	_, ok := t.Underlying().(*types.Slice)
	return ok
}

func xc20IsNilConst(v ssa.Value) bool {
	k, ok := v.(*ssa.Const)
	return ok && k.Value == nil
}

// xc20Unwrap strips conversions and interface boxing (sort.Slice takes `any`).
func xc20Unwrap(v ssa.Value) ssa.Value {
	for {
		switch x := v.(type) {
		case *ssa.MakeInterface:
			v = x.X
		case *ssa.Convert:
			v = x.X
		case *ssa.ChangeType:
			v = x.X
		default:
			return v
		}
	}
}

func xc20Builtin(call *ssa.CallCommon, name string) bool {
	b, ok := call.Value.(*ssa.Builtin)
	return ok && b.Name() == name
}

// xc20Graph is the per-function alias structure over slice values.
type xc20Graph struct {
	fn    *ssa.Function
	view  map[ssa.Value][]ssa.Value // undirected edges that keep the view (φ, conversions, cells, sub-slicing)
	fork  map[ssa.Value][]ssa.Value // undirected edges that may fork the view (append base→result, call arg→result)
	deriv map[ssa.Value][]ssa.Value // directed: value -> values derived from it (all edge kinds)
}

func (g *xc20Graph) link(m map[ssa.Value][]ssa.Value, a, b ssa.Value) {
	m[a] = append(m[a], b)
	m[b] = append(m[b], a)
}

func (g *xc20Graph) closure(start ssa.Value, maps ...map[ssa.Value][]ssa.Value) map[ssa.Value]bool {
	seen := map[ssa.Value]bool{start: true}
	work := []ssa.Value{start}
	for len(work) > 0 {
		v := work[len(work)-1]
		work = work[:len(work)-1]
		for _, m := range maps {
			for _, n := range m[v] {
				if !seen[n] {
					seen[n] = true
					work = append(work, n)
				}
			}
		}
	}
	return seen
}

type xc20Summaries struct {
	mutates map[*ssa.Function]map[int]bool // param index -> written in place (memo)
	aliases map[*ssa.Function]map[int]bool // param index -> some result is derived from it (memo)
}

func xc20Callee(call *ssa.CallCommon) *ssa.Function {
	if call.IsInvoke() {
		return nil
	}
	switch v := call.Value.(type) {
	case *ssa.Function:
		return v
	case *ssa.MakeClosure:
		fn, _ := v.Fn.(*ssa.Function)
		return fn
	}
	return nil
}

func (s *xc20Summaries) build(fn *ssa.Function) *xc20Graph {
	g := &xc20Graph{fn: fn, view: map[ssa.Value][]ssa.Value{}, fork: map[ssa.Value][]ssa.Value{}, deriv: map[ssa.Value][]ssa.Value{}}
	d := func(from, to ssa.Value) { g.deriv[from] = append(g.deriv[from], to) }
	for _, b := range fn.Blocks {
		for _, in := range b.Instrs {
			switch x := in.(type) {
			case *ssa.Phi:
				if !xc20IsSlice(x.Type()) {
					continue
				}
				for _, e := range x.Edges {
					if !xc20IsNilConst(e) {
						g.link(g.view, x, e)
						d(e, x)
					}
				}
			case *ssa.Convert:
				if xc20IsSlice(x.Type()) && xc20IsSlice(x.X.Type()) {
					g.link(g.view, x, x.X)
					d(x.X, x)
				}
			case *ssa.ChangeType:
				if xc20IsSlice(x.Type()) && xc20IsSlice(x.X.Type()) {
					g.link(g.view, x, x.X)
					d(x.X, x)
				}
			case *ssa.Slice:
				if xc20IsSlice(x.X.Type()) {
					g.link(g.view, x, x.X)
					d(x.X, x)
				}
			case *ssa.Store:
				if xc20IsSlice(x.Val.Type()) {
					if cell, ok := x.Addr.(*ssa.Alloc); ok {
						g.link(g.view, cell, x.Val)
						d(x.Val, cell)
					} else if fv, ok := x.Addr.(*ssa.FreeVar); ok {
						g.link(g.view, fv, x.Val)
						d(x.Val, fv)
					}
				}
			case *ssa.UnOp:
				if x.Op == token.MUL && xc20IsSlice(x.Type()) {
					switch cell := x.X.(type) {
					case *ssa.Alloc:
						g.link(g.view, x, cell)
						d(cell, x)
					case *ssa.FreeVar:
						g.link(g.view, x, cell)
						d(cell, x)
					}
				}
			case *ssa.Call:
				if !xc20IsSlice(x.Type()) {
					continue
				}
				if xc20Builtin(&x.Call, "append") {
					if base := x.Call.Args[0]; !xc20IsNilConst(base) {
						g.link(g.fork, x, base)
						d(base, x)
					}
					continue
				}
				if callee := xc20Callee(&x.Call); callee != nil && len(callee.Blocks) > 0 {
					for k := range s.resultAliases(callee) {
						if k < len(x.Call.Args) && xc20IsSlice(x.Call.Args[k].Type()) {
							g.link(g.fork, x, x.Call.Args[k])
							d(x.Call.Args[k], x)
						}
					}
				}
			}
		}
	}
	return g
}

// resultAliases: parameters of fn from which some (single, slice-typed) result is derived.
func (s *xc20Summaries) resultAliases(fn *ssa.Function) map[int]bool {
	if m, ok := s.aliases[fn]; ok {
		return m
	}
	out := map[int]bool{}
	s.aliases[fn] = out // provisional (recursion: assume none)
	if fn.Signature.Results().Len() != 1 || !xc20IsSlice(fn.Signature.Results().At(0).Type()) {
		return out
	}
	g := s.build(fn)
	for i, p := range fn.Params {
		if !xc20IsSlice(p.Type()) {
			continue
		}
		desc := g.closure(p, g.deriv)
		for _, b := range fn.Blocks {
			if ret, ok := b.Instrs[len(b.Instrs)-1].(*ssa.Return); ok && len(ret.Results) == 1 && desc[ret.Results[0]] {
				out[i] = true
			}
		}
	}
	return out
}

type xc20Write struct {
	at   ssa.Instruction
	v    ssa.Value
	what string
}

// writes lists the in-place writes of fn: element stores, copy-into, mutating callees.
func (s *xc20Summaries) writes(fn *ssa.Function) []xc20Write {
	var out []xc20Write
	for _, b := range fn.Blocks {
		for _, in := range b.Instrs {
			switch x := in.(type) {
			case *ssa.Store:
				if ia, ok := x.Addr.(*ssa.IndexAddr); ok && xc20IsSlice(ia.X.Type()) {
					out = append(out, xc20Write{x, xc20Unwrap(ia.X), "element store"})
				}
			case ssa.CallInstruction:
				if _, isDefer := in.(*ssa.Defer); isDefer {
					continue
				}
				if _, isGo := in.(*ssa.Go); isGo {
					continue
				}
				call := x.Common()
				name := calleeName(call)
				if k, ok := xc20StdMutators[name]; ok && !call.IsInvoke() && k < len(call.Args) {
					if v := xc20Unwrap(call.Args[k]); xc20IsSlice(v.Type()) {
						out = append(out, xc20Write{in, v, name})
					}
					continue
				}
				if callee := xc20Callee(call); callee != nil && len(callee.Blocks) > 0 {
					for k := range s.paramWrites(callee) {
						if k < len(call.Args) {
							if v := xc20Unwrap(call.Args[k]); xc20IsSlice(v.Type()) {
								out = append(out, xc20Write{in, v, "call of in-place mutator " + name})
							}
						}
					}
				}
			}
		}
	}
	return out
}

// paramWrites: parameters of fn whose elements fn (transitively) writes in place.
func (s *xc20Summaries) paramWrites(fn *ssa.Function) map[int]bool {
	if m, ok := s.mutates[fn]; ok {
		return m
	}
	out := map[int]bool{}
	s.mutates[fn] = out // provisional (recursion: assume none)
	hasSliceParam := false
	for _, p := range fn.Params {
		hasSliceParam = hasSliceParam || xc20IsSlice(p.Type())
	}
	if !hasSliceParam {
		return out
	}
	g := s.build(fn)
	ws := s.writes(fn)
	for i, p := range fn.Params {
		if !xc20IsSlice(p.Type()) {
			continue
		}
		class := g.closure(p, g.view, g.fork)
		for _, w := range ws {
			if class[w.v] {
				out[i] = true
			}
		}
	}
	return out
}

// xc20RealUses: instructions that read w (not the ones that merely derive another view of it).
func xc20RealUses(w ssa.Value) []ssa.Instruction {
	refs := w.Referrers()
	if refs == nil {
		return nil
	}
	if _, isCell := w.(*ssa.Alloc); isCell {
		return nil // a cell is used through its loads, which are values of their own
	}
	if _, isCell := w.(*ssa.FreeVar); isCell {
		return nil
	}
	var out []ssa.Instruction
	for _, r := range *refs {
		switch x := r.(type) {
		case *ssa.DebugRef, *ssa.Phi:
			continue
		case *ssa.Convert, *ssa.ChangeType, *ssa.MakeInterface:
			// the wrapped value is looked at in its own right
			if v, ok := r.(ssa.Value); ok {
				out = append(out, xc20RealUses(v)...)
			}
			continue
		case *ssa.Slice:
			if x.X == w {
				continue
			}
		case *ssa.Store:
			if x.Val == w {
				if _, ok := x.Addr.(*ssa.Alloc); ok {
					continue
				}
				if _, ok := x.Addr.(*ssa.FreeVar); ok {
					continue
				}
			}
		case *ssa.Call:
			if xc20Builtin(&x.Call, "append") && x.Call.Args[0] == w {
				uses := 0
				for _, a := range x.Call.Args {
					if a == w {
						uses++
					}
				}
				if uses == 1 {
					continue
				}
			}
		}
		out = append(out, r)
	}
	return out
}

// xc20After: u can execute after a.
func xc20After(a, u ssa.Instruction) bool {
	ab, ub := a.Block(), u.Block()
	if ab == ub && indexIn(ub, u) > indexIn(ab, a) {
		return true
	}
	seen := map[*ssa.BasicBlock]bool{}
	work := append([]*ssa.BasicBlock(nil), ab.Succs...)
	for len(work) > 0 {
		b := work[len(work)-1]
		work = work[:len(work)-1]
		if seen[b] {
			continue
		}
		seen[b] = true
		if b == ub {
			return true
		}
		work = append(work, b.Succs...)
	}
	return false
}

func xc20ExclusiveSlices(c *Ctx, rule, pkgShort string) {
	s := &xc20Summaries{mutates: map[*ssa.Function]map[int]bool{}, aliases: map[*ssa.Function]map[int]bool{}}
	checked := 0
	var mutators []string
	for _, fn := range c.P.AllFuncs {
		fname := c.P.Name(fn)
		if !strings.HasPrefix(fname, pkgShort+".") || len(fn.Blocks) == 0 {
			continue
		}
		for k := range s.paramWrites(fn) {
			mutators = append(mutators, fmt.Sprintf("%s(arg %d)", fname, k))
		}
		g := s.build(fn)
		ws := s.writes(fn)

		var appends []*ssa.Call
		for _, b := range fn.Blocks {
			for _, in := range b.Instrs {
				if call, ok := in.(*ssa.Call); ok && xc20Builtin(&call.Call, "append") && !xc20IsNilConst(call.Call.Args[0]) {
					appends = append(appends, call)
				}
			}
		}
		if len(ws) == 0 && len(appends) == 0 {
			continue
		}
		checked++
		c.FuncsAnalysed[fname] = true

		// ---- in-place writes
		var bad []string
		badPos := ""
		forked := 0
		for _, w := range ws {
			class := g.closure(w.v, g.view, g.fork)
			view := g.closure(w.v, g.view)
			if len(class) > len(view) {
				forked++
			}
			for other := range class {
				if view[other] {
					continue
				}
				for _, u := range xc20RealUses(other) {
					if u != w.at && xc20After(w.at, u) {
						bad = append(bad, fmt.Sprintf("%s of %s at %s writes a backing array that %s may share (they are related by an append / an aliasing call, not by a copy), and %s is still used afterwards at %s",
							w.what, Path(w.v), c.P.InstrPos(w.at), Path(other), Path(other), c.P.InstrPos(u)))
						if badPos == "" {
							badPos = c.P.InstrPos(w.at)
						}
						break
					}
				}
			}
		}
		sort.Strings(bad)
		if len(bad) > 0 {
			c.add("alias", rule, fname+"#in-place-write-has-no-live-alias", Violated, badPos, strings.Join(dedup(bad), "; "))
		} else if len(ws) > 0 {
			c.add("alias", rule, fname+"#in-place-write-has-no-live-alias", Held, c.P.Pos(fn.Pos()), fmt.Sprintf("%d in-place write(s); %d of them on a slice related to another by append/aliasing call, none with a live alias outside its own view", len(ws), forked))
		}

		// ---- forked appends
		bad, badPos = nil, ""
		for _, a := range appends {
			class := g.closure(a.Call.Args[0], g.view, g.fork)
			desc := g.closure(a, g.deriv)
			for _, a2 := range appends {
				if a2 == a || !class[a2.Call.Args[0]] || desc[a2.Call.Args[0]] || !xc20After(a, a2) {
					continue
				}
				// the earlier result (or something derived from it) is still read after the later append
				for d := range desc {
					live := false
					for _, u := range xc20RealUses(d) {
						if u != ssa.Instruction(a2) && xc20After(a2, u) {
							live = true
							bad = append(bad, fmt.Sprintf("append at %s and append at %s both extend views of the same backing array (%s / %s) and neither feeds the other; the later one overwrites the tail of the earlier result, which is still used at %s",
								c.P.InstrPos(a), c.P.InstrPos(a2), Path(a.Call.Args[0]), Path(a2.Call.Args[0]), c.P.InstrPos(u)))
							if badPos == "" {
								badPos = c.P.InstrPos(a2)
							}
							break
						}
					}
					if live {
						break
					}
				}
			}
		}
		sort.Strings(bad)
		if len(bad) > 0 {
			c.add("alias", rule, fname+"#no-forked-append", Violated, badPos, strings.Join(dedup(bad), "; "))
		} else if len(appends) > 0 {
			c.add("alias", rule, fname+"#no-forked-append", Held, c.P.Pos(fn.Pos()), fmt.Sprintf("%d append(s) onto a non-fresh base; each base is superseded by its result (no second append onto the same backing array while the first result is live)", len(appends)))
		}
	}
	sort.Strings(mutators)
	// anti-vacuity: the in-place sorter of the plan builders must have been recognised as such
	found := false
	for _, m := range mutators {
		if strings.HasPrefix(m, pkgShort+".sortSlotIDs(") {
			found = true
		}
	}
	if !found || checked == 0 {
		c.add("alias", rule, "in-place-mutators", Undecided, "", fmt.Sprintf("the plan builders' in-place sorter was not recognised as writing its argument (recognised: %v): it now sorts through something that is not in the mutator table - extend xc20StdMutators", mutators))
	} else {
		c.add("alias", rule, "in-place-mutators", Held, "", fmt.Sprintf("%d function(s) with in-place writes or non-fresh appends checked; module functions that write a slice argument in place: %v", checked, mutators))
	}
}
