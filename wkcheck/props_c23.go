package main

import (
	"fmt"
	"strings"

	"golang.org/x/tools/go/ssa"
)

func init() {
	register(&PropSpec{
		ID:        "C23",
		Pkgs:      []string{"./pkg/protocol/codec", "./pkg/protocol/frame", "./pkg/gateway/protocol/wkproto", "./pkg/gateway/core"},
		Technique: "static analysis: per-site bounds dominance (every index/slice of the input behind a visible length fact), panic/assertion/allocation scan over the decode scope, and SSA edge-dominance guards on the progress/consumption contract of the stream decoders",
		Explain: "Decides the structural robustness clauses of the client stream decoder: (R1) in WKProto.DecodeFrame, decodeFramer, decodeLength, every Decoder method and every per-frame decoder, each index or slice of a byte sequence is dominated on every path by a length comparison that proves it in range (symbolic offset+K<=len forms and constant forms), the Decoder cursor only advances behind such a check, there is no explicit panic, no single-value type assertion on input-derived values and no make whose size is not bounded; exceptions are triaged one by one with the invariant that justifies them; (R2) DecodeFrame reports progress (n>0) only behind len(data) >= frame length (or the 1-byte PING/PONG arm), the WKProto adapter advances `consumed` only behind a non-nil frame with n != 0 and no error, so an incomplete frame never reports progress, and the gateway server slices the inbound buffer only behind 0 <= consumed <= len(data) and treats zero progress with frames as a protocol error; (R3) a decoded SEND payload is detached from the read buffer before the frame escapes the adapter. NOT decided: that arbitrary re-splits of a concatenation yield the same frames (behaviour); negative-length arguments of internal helpers not reachable from input.",
		Run:       c23,
		Mutants: []Mutant{
			{Name: "decoder-uint8-offbyone", File: "pkg/protocol/codec/decoder.go", Old: "if d.offset+1 > len(d.p) {", New: "if d.offset > len(d.p) {", Expect: "C23/R1*Uint8*"},
			{Name: "decoder-binary-no-bound", File: "pkg/protocol/codec/decoder.go", Old: "\tif d.offset+int(size) > len(d.p) {\n\t\treturn nil, fmt.Errorf(\"Decoder couldn't read expect bytes %d of %d\", d.offset+int(size), len(d.p))\n\t}\n\tb := d.p[d.offset : d.offset+int(size)]", New: "\tb := d.p[d.offset : d.offset+int(size)]", Expect: "C23/R1*Binary*"},
			{Name: "decoder-int64-short-check", File: "pkg/protocol/codec/decoder.go", Old: "func (d *Decoder) Int64() (int64, error) {\n\tif d.offset+8 > len(d.p) {", New: "func (d *Decoder) Int64() (int64, error) {\n\tif d.offset+4 > len(d.p) {", Expect: "C23/R1*Int64*"},
			{Name: "decodelength-no-bound", File: "pkg/protocol/codec/protocol.go", Old: "\t\tif offset >= len(data) {\n\t\t\treturn 0, 0, errDecodeLength\n\t\t}\n", New: "", Expect: "C23/R1*decodeLength*"},
			{Name: "decodeframe-progress-on-partial", File: "pkg/protocol/codec/protocol.go", Old: "\tif len(data) < msgLen {\n\t\treturn nil, 0, nil\n\t}\n\tbody := data[1+remainingLengthLength : msgLen]", New: "\tif len(data) < msgLen {\n\t\tmsgLen = len(data)\n\t}\n\tbody := data[1+remainingLengthLength : msgLen]", Expect: "C23/R*DecodeFrame*"},
			{Name: "adapter-advance-on-nil-frame", File: "pkg/gateway/protocol/wkproto/adapter.go", Old: "\t\tif f == nil || n == 0 {\n\t\t\tbreak\n\t\t}", New: "\t\tif f == nil && n == 0 {\n\t\t\tbreak\n\t\t}", Expect: "C23/R2*Adapter.Decode*"},
			{Name: "server-no-consumed-bound", File: "pkg/gateway/core/server.go", Old: "\tif consumed < 0 || consumed > len(data) {", New: "\tif consumed < 0 {", Expect: "C23/R2*decodeInboundFrames*"},
			{Name: "adapter-no-detach", File: "pkg/gateway/protocol/wkproto/adapter.go", Old: "\t\t\tdetachSendPayload(send)\n", New: "", Expect: "C23/R3*"},
			{Name: "maxlen-check-dropped", File: "pkg/protocol/codec/protocol.go", Old: "\tif framer.RemainingLength > MaxRemaingLength {\n\t\treturn nil, 0, fmt.Errorf(\"消息超出最大限制[%d]！\", MaxRemaingLength)\n\t}\n\tmsgLen := int(framer.RemainingLength) + 1 + remainingLengthLength", New: "\tmsgLen := int(framer.RemainingLength) + 1 + remainingLengthLength", Expect: "C23/R2*DecodeFrame*"},
		},
	})
}

func c23(c *Ctx) {
	var scope []*ssa.Function
	add := func(pats ...string) {
		for _, p := range pats {
			scope = append(scope, c.Fns(p)...)
		}
	}
	add("pkg/protocol/codec.Decoder.*", "pkg/protocol/codec.decode*", "pkg/protocol/codec.WKProto.DecodeFrame", "pkg/protocol/codec.WKProto.decodeFramer",
		"pkg/protocol/codec.FramerFromUint8", "pkg/gateway/protocol/wkproto.Adapter.Decode", "pkg/gateway/protocol/wkproto.detachSendPayload", "pkg/gateway/core.Server.decodeInboundFrames")
	triage := map[string]string{
		"pkg/protocol/codec.Decoder.BinaryAll|d.p[d.offset:]":                  "Decoder invariant offset <= len(p): every advance of the cursor is behind offset+K <= len(p) (checked below as R1-cursor); BinaryAll itself sets offset = len(p)",
		"pkg/protocol/codec.WKProto.decodeFramer|data[0]":                      "callers pass a non-empty slice: DecodeFrame is reached from Adapter.Decode only inside `for consumed < len(in)` with in[consumed:] (checked as R2-nonempty) — len >= 1",
		"pkg/protocol/codec.WKProto.decodeFramer|data[1:]":                     "same non-empty precondition as data[0]",
		"pkg/protocol/codec.decodeSend|assert f.(Framer)":                      "f is the Framer value constructed by decodeFramer and passed by DecodeFrame, not input",
		"pkg/protocol/codec.decodeRecv|assert f.(Framer)":                      "as decodeSend",
		"pkg/protocol/codec.decodeConnect|assert f.(Framer)":                   "as decodeSend",
		"pkg/protocol/codec.decodeConnack|assert f.(Framer)":                   "as decodeSend",
		"pkg/protocol/codec.decodeSendack|assert f.(Framer)":                   "as decodeSend",
		"pkg/protocol/codec.decodeRecvack|assert f.(Framer)":                   "as decodeSend",
		"pkg/protocol/codec.decodeDisConnect|assert f.(Framer)":                "as decodeSend",
		"pkg/protocol/codec.decodeSub|assert f.(Framer)":                       "as decodeSend",
		"pkg/protocol/codec.decodeSuback|assert f.(Framer)":                    "as decodeSend",
		"pkg/protocol/codec.decodeEvent|assert f.(Framer)":                     "as decodeSend",
	}
	c.DecodeSafe("R1-bounds", scope, triage)

	// R1-cursor: Decoder.offset only advances behind a length check of the new offset
	c23Cursor(c)
	// Bytes(num) is not fed from the wire
	c.ConfineCalls("R1-bytes-callers", "pkg/protocol/codec.Decoder.Bytes", 0, "pkg/protocol/codec.nonexistent")

	// R2: progress contract
	df := c.Fn("pkg/protocol/codec.WKProto.DecodeFrame")
	ft := c.constsOfType("pkg/protocol/frame", "FrameType", "")
	ping, pong := "?", "?"
	if v, ok := ft["PING"]; ok {
		ping = v.ExactString()
	}
	if v, ok := ft["PONG"]; ok {
		pong = v.ExactString()
	}
	c.Guard("R2-progress", df, RetNot{Idx: 1, Globs: []string{"0"}}, "len(data) >= (*) || *.GetFrameType(*) == "+ping+" || *.GetFrameType(*) == "+pong)
	c.Guard("R2-progress", df, Ret{Idx: 1, Glob: "1"}, "*.GetFrameType(*) == "+ping+" || *.GetFrameType(*) == "+pong)
	c.Guard("R2-progress", df, CallTo{"dyn:*"}, "len(data) >= (*)")
	// ‹header› = the fixed header handed to the per-frame decoder (argument 0 of the dynamic call),
	// resolved from the call, not from the name of the local: it is the header decodeFramer produced
	// from the caller's data, and its RemainingLength is bounded before any per-frame decoder runs.
	if df != nil {
		header, mixed := "", false
		var calls []ssa.Instruction
		for _, in := range instrsMatching(df, CallTo{"dyn:*"}) {
			args := callArgs(in.(ssa.CallInstruction).Common())
			if len(args) == 0 {
				mixed = true
				continue
			}
			calls = append(calls, in)
			if p := Path(args[0]); header != "" && header != p {
				mixed = true
			} else {
				header = p
			}
		}
		const decoded = "pkg/protocol/codec.WKProto.decodeFramer(l, data)#0"
		construct := c.P.Name(df) + "#decoded-header"
		switch {
		case len(calls) == 0: // reported as vacuous by the Guard above
		case mixed:
			c.add("shape", "R2-progress", construct, Violated, c.P.InstrPos(calls[0]), "per-frame decoders are not all handed one fixed header as first argument")
		default:
			var bad []string
			if header != decoded {
				n := 0
				for _, in := range instrsMatching(df, StoreTo{Addr: header}) {
					n++
					if st, ok := in.(*ssa.Store); !ok || Path(st.Val) != decoded {
						bad = append(bad, c.P.InstrPos(in))
					}
				}
				if n == 0 {
					bad = append(bad, "never assigned")
				}
			}
			if len(bad) > 0 {
				c.add("shape", "R2-progress", construct, Violated, c.P.InstrPos(calls[0]), fmt.Sprintf("the header handed to the per-frame decoder (%s) is not exactly %s: %s", header, decoded, strings.Join(bad, ", ")))
			} else {
				c.add("shape", "R2-progress", construct, Held, c.P.InstrPos(calls[0]), fmt.Sprintf("%d per-frame decode call(s), each handed %s = %s", len(calls), header, decoded))
			}
			c23GuardRef(c, "R2-progress", df, CallTo{"dyn:*"}, map[string]string{"header": header}, "‹header›.RemainingLength <= 1048576")
		}
	}
	ad := c.Fn("pkg/gateway/protocol/wkproto.Adapter.Decode")
	c.Guard("R2-progress", ad, CallTo{"append(*"}, "*DecodeFrame(*)#2 == nil", "*DecodeFrame(*)#0 != nil", "*DecodeFrame(*)#1 != 0")
	c.GuardOpt("R2-progress", ad, CallTo{"*DecodeFrame*"}, GuardOpts{}, "* < len(in)")
	srv := c.Fn("pkg/gateway/core.Server.decodeInboundFrames")
	c.Guard("R2-progress", srv, Ret{Idx: 2, Glob: "true"}, "*Decode(*)#1 <= len(data)", "*Decode(*)#1 >= 0", "*Decode(*)#1 != 0", "*Decode(*)#2 == nil")
	// decodeFramer is only called with the caller's data (non-empty precondition lives in the callers)
	c.ConfineCalls("R2-nonempty", "pkg/protocol/codec.WKProto.decodeFramer", 1, "pkg/protocol/codec.WKProto.DecodeFrame")

	// R3: SEND payload detached before the frame is appended to the result
	c.Guard("R3-detach", ad, CallTo{"append(*"}, "after: pkg/gateway/protocol/wkproto.detachSendPayload || *.(SendPacket)#1 == false")
}

// c23GuardRef is c.Guard for guards that mention a value the caller resolved structurally (a call
// argument: SSA identity). A guard names such a value ‹name›; for matching the placeholder is replaced by
// refs[name] (the value's rendering in fn) while the obligation key keeps the placeholder, so the rule
// does not depend on the identifier of a local variable.
func c23GuardRef(c *Ctx, rule string, fn *ssa.Function, eff Effect, refs map[string]string, guards ...string) {
	if fn == nil {
		return
	}
	name := c.P.Name(fn)
	c.FuncsAnalysed[name] = true
	effs := instrsMatching(fn, eff)
	if len(effs) == 0 {
		c.add("guard", rule, name+"#"+eff.String(), Undecided, c.P.Pos(fn.Pos()), "no instruction matches the effect (vacuous)")
		return
	}
	for _, gs := range guards {
		construct := name + "#" + eff.String() + "⇐" + gs
		real := gs
		for k, v := range refs {
			real = strings.ReplaceAll(real, "‹"+k+"›", v)
		}
		g := parseGuard(real)
		removed, descr := guardEdges(fn, g)
		c.EdgesRemoved += len(removed)
		limit := reachUnguarded(fn, removed, g.afters)
		var bad []string
		for _, e := range effs {
			if lim, ok := limit[e.Block()]; ok && indexIn(e.Block(), e) < lim {
				bad = append(bad, c.P.InstrPos(e))
			}
		}
		if len(bad) > 0 {
			c.add("guard", rule, construct, Violated, bad[0], fmt.Sprintf("effect %q in %s reachable without guard %q at %s", eff.String(), name, real, strings.Join(bad, ", ")))
			continue
		}
		c.add("guard", rule, construct, Held, c.P.InstrPos(effs[0]), fmt.Sprintf("%d effect site(s); %d guard edge(s) removed [%s]; no unguarded path from entry (back-references %v)", len(effs), len(removed), strings.Join(dedup(descr), "; "), refs))
	}
}

// c23Cursor: every store to Decoder.offset is offset+K dominated by (offset+K) <= len(p), or the BinaryAll jump to the end.
func c23Cursor(c *Ctx) {
	fv := c.Field("pkg/protocol/codec.Decoder.offset")
	if fv == nil {
		return
	}
	for _, s := range c.fieldStores(fv) {
		if s.literal {
			continue
		}
		name := c.P.Name(s.fn)
		construct := name + "#cursor-advance:" + Path(s.val)
		pos := c.P.InstrPos(s.in)
		fa := s.addr.(*ssa.FieldAddr)
		buf := Path(fa.X) + ".p"
		// find the buffer value: any FieldAddr load of .p on the same base in the function
		var bufVal ssa.Value
		for _, b := range s.fn.Blocks {
			for _, in := range b.Instrs {
				if u, ok := in.(*ssa.UnOp); ok && Path(u) == buf {
					bufVal = u
				}
			}
		}
		if name == "pkg/protocol/codec.Decoder.BinaryAll" {
			if Path(s.val) == "("+Path(s.addr)+" + pkg/protocol/codec.Decoder.Len("+Path(fa.X)+"))" {
				c.add("decodesafe", "R1-cursor", construct, Held, pos, "jump to the end: offset += Len() = len(p) - offset")
			} else {
				c.add("decodesafe", "R1-cursor", construct, Violated, pos, "BinaryAll no longer advances the cursor by exactly the remaining length")
			}
			continue
		}
		if bufVal == nil {
			c.add("decodesafe", "R1-cursor", construct, Violated, pos, "cursor advanced in a function that never looks at the buffer length")
			continue
		}
		edges := lenFactEdges(s.fn, bufVal, s.val, false)
		limit := reachUnguarded(s.fn, edges, nil)
		b := s.in.Block()
		if lim, ok := limit[b]; len(edges) == 0 || (ok && indexIn(b, s.in) < lim) {
			c.add("decodesafe", "R1-cursor", construct, Violated, pos, "Decoder.offset = "+Path(s.val)+" is not dominated by a check that the new offset is <= len(p)")
			continue
		}
		c.add("decodesafe", "R1-cursor", construct, Held, pos, "advance dominated by new offset <= len(p)")
	}
}
