package main

// C20 extension: ActiveMigrations (the only source of the migration list that Encode writes) returns EVERY
// migration of the table — the loop over t.migrations appends in every iteration and is never left early.
// (Seed C20-c added a `Phase == PhaseDone` filter; it used to be caught only because the filter turned the loop
// variable into an addressable local, i.e. by a rendering accident — this is the real clause.)
func init() {
	extend("C20", nil, func(c *Ctx) {
		am := c.Fn("pkg/hashslot.HashSlotTable.ActiveMigrations")
		c.EveryIteration("X3-all-migrations", am, "t.migrations", CallTo{"append"})
	},
		Mutant{Name: "x-active-migrations-filters-done", File: "pkg/hashslot/hashslottable.go",
			Old:    "\tfor _, migration := range t.migrations {\n\t\tout = append(out, migration)\n\t}",
			New:    "\tfor _, migration := range t.migrations {\n\t\tif migration.Phase == PhaseDone {\n\t\t\tcontinue\n\t\t}\n\t\tout = append(out, migration)\n\t}",
			Expect: "C20/X3-all-migrations/*"},
		Mutant{Name: "x-active-migrations-stops-early", File: "pkg/hashslot/hashslottable.go",
			Old:    "\tfor _, migration := range t.migrations {\n\t\tout = append(out, migration)\n\t}",
			New:    "\tfor _, migration := range t.migrations {\n\t\tout = append(out, migration)\n\t\tif len(out) >= 64 {\n\t\t\tbreak\n\t\t}\n\t}",
			Expect: "C20/X3-all-migrations/*"},
		Mutant{Name: "x-active-migrations-temp-copy", File: "pkg/hashslot/hashslottable.go",
			Old:    "\tfor _, migration := range t.migrations {\n\t\tout = append(out, migration)\n\t}",
			New:    "\tfor _, migration := range t.migrations {\n\t\tentry := migration\n\t\tout = append(out, entry)\n\t}",
			Expect: "!silent"},
	)
}
