package main

import (
	"fmt"
	"go/token"
	"sort"
	"strings"

	"golang.org/x/tools/go/ssa"
)

// Extension rules for C18 (controller FSM), added after independently seeded changes that the
// base table did not detect.
//
//	X1-batch-candidate  (seed C18-a)  The candidate state of one ApplyBatch call accumulates the
//	    effect of every entry of the batch: it is seeded once, before the first entry, from the
//	    published state; after an entry has been applied it is never replaced wholesale except by
//	    a snapshot of the candidate itself that is re-taken for every applied entry; and the batch
//	    driver itself writes no field of it except the replay cursor (AppliedRaftIndex) and the
//	    checksum - everything else is written by applyMutation (whose handlers roll themselves
//	    back, R2-rollback). A "rollback" to anything older than the previous entry's result makes
//	    the outcome depend on how the log was partitioned into batches.
//
//	X2-validated        (seed C18-c)  Between the last write to the candidate state in a handler
//	    and a return that can leave that write in place (anything that is not reject(..) - which
//	    R2-rollback forces to restore -, noop(..) - which R2-noop forces to be field-equal -, or
//	    validateChanged(..) - which validates itself, R2-changed) the edge
//	    ClusterState.Validate(next) == nil is crossed. It is a "validated after the last write"
//	    clause, so a Validate that was moved in front of the write does not count.
func init() {
	extend("C18", nil, func(c *Ctx) {
		const (
			fsm = "pkg/controller/fsm."
			SM  = fsm + "StateMachine."
		)
		w := &c18W{c: c, memo: map[string]map[string]bool{}, busy: map[string]bool{}}

		xc18BatchCandidate(c, w, "X1-batch-candidate", c.Fn(SM+"ApplyBatch"))

		nDirect := 0
		for _, h := range c.Fns(SM + "apply*") {
			name := c.P.Name(h)
			if name == SM+"applyMutation" || strings.Contains(name, "$") {
				continue
			}
			root := c18StateParam(h)
			if root == nil {
				continue // reported by R2-snapshot
			}
			nDirect += xc18ValidatedReturns(c, w, "X2-validated", h, root)
		}
		if nDirect < 1 {
			c.add("vacuity", "X2-validated", "direct-modifying-returns", Undecided, "", "no handler returns a state-modifying result on its own any more (hand-confirmed minimum 1: the node health handler); the rule would be vacuous")
		}
		c.Min("X2-validated", 14)
	},
		// ---- X1 ----
		Mutant{Name: "x-batch-reject-resets-to-batch-start", File: "pkg/controller/fsm/fsm.go",
			Old:    "\t\tresult := sm.applyMutation(&next, entry.Index, entry.Term, entry.Command)\n",
			New:    "\t\tresult := sm.applyMutation(&next, entry.Index, entry.Term, entry.Command)\n\t\tif result.Rejected {\n\t\t\tnext = current.Clone()\n\t\t}\n",
			Expect: "C18/X1-batch-candidate/*replaced*"},
		Mutant{Name: "x-batch-reject-reloads-published", File: "pkg/controller/fsm/fsm.go",
			Old:    "\t\tresult := sm.applyMutation(&next, entry.Index, entry.Term, entry.Command)\n",
			New:    "\t\tresult := sm.applyMutation(&next, entry.Index, entry.Term, entry.Command)\n\t\tif result.Rejected {\n\t\t\tnext = sm.state.Clone()\n\t\t}\n",
			Expect: "C18/X1-batch-candidate/*replaced*"},
		Mutant{Name: "x-batch-stale-snapshot-rollback", File: "pkg/controller/fsm/fsm.go",
			Old:    "\tout := BatchApplyResult{Results: make([]ApplyResult, 0, len(entries))}\n\n\tfor _, entry := range entries {\n",
			New:    "\tout := BatchApplyResult{Results: make([]ApplyResult, 0, len(entries))}\n\tprev := next.Clone()\n\n\tfor _, entry := range entries {\n\t\tif n := len(out.Results); n > 0 && out.Results[n-1].Rejected {\n\t\t\tnext = prev\n\t\t}\n",
			Expect: "C18/X1-batch-candidate/*replaced*"},
		Mutant{Name: "x-batch-reject-partial-field-rollback", File: "pkg/controller/fsm/fsm.go",
			Old:    "\t\tresult := sm.applyMutation(&next, entry.Index, entry.Term, entry.Command)\n",
			New:    "\t\tresult := sm.applyMutation(&next, entry.Index, entry.Term, entry.Command)\n\t\tif result.Rejected {\n\t\t\tnext.Tasks = current.Tasks\n\t\t}\n",
			Expect: "C18/X1-batch-candidate/*fields*"},
		Mutant{Name: "x-batch-candidate-not-from-published", File: "pkg/controller/fsm/fsm.go",
			Old:    "\tnext := current.Clone()\n\tout := BatchApplyResult",
			New:    "\tnext := state.ClusterState{Revision: current.Revision, AppliedRaftIndex: current.AppliedRaftIndex}\n\tout := BatchApplyResult",
			Expect: "C18/X1-batch-candidate/*seeded*"},
		// ---- X2 ----
		Mutant{Name: "x-nodehealth-known-node-precheck-instead-of-validate", File: "pkg/controller/fsm/mutation_handlers.go",
			Old:    "\tnext.Normalize()\n\tif err := next.Validate(); err != nil {\n\t\t*next = before\n\t\treturn reject(ReasonInvalidState)\n\t}\n\tif equivalentNodeHealthReports",
			New:    "\tnext.Normalize()\n\tif findNode(next.Nodes, report.NodeID) < 0 {\n\t\t*next = before\n\t\treturn reject(ReasonInvalidState)\n\t}\n\tif equivalentNodeHealthReports",
			Expect: "C18/X2-validated/*applyReportNodeHealth*"},
		Mutant{Name: "x-nodehealth-validate-before-upsert", File: "pkg/controller/fsm/mutation_handlers.go",
			Old:    "\tupsertNodeHealthReport(next, report)\n\tnext.Normalize()\n\tif err := next.Validate(); err != nil {\n\t\t*next = before\n\t\treturn reject(ReasonInvalidState)\n\t}\n",
			New:    "\tif err := next.Validate(); err != nil {\n\t\t*next = before\n\t\treturn reject(ReasonInvalidState)\n\t}\n\tupsertNodeHealthReport(next, report)\n\tnext.Normalize()\n",
			Expect: "C18/X2-validated/*applyReportNodeHealth*"},
		Mutant{Name: "x-progress-reported-updated-without-validate", File: "pkg/controller/fsm/mutation_handlers.go",
			Old:    "\t\treturn noop(ReasonNoChange)\n\t}\n\treturn validateChanged(next, before, cmd)\n}\n\nfunc (sm *StateMachine) applyReportNodeHealth",
			New:    "\t\treturn noop(ReasonNoChange)\n\t}\n\treturn ApplyResult{Updated: true}\n}\n\nfunc (sm *StateMachine) applyReportNodeHealth",
			Expect: "C18/X2-validated/*applyReportTaskProgress*"},
	)
}

// xc18Forward visits every instruction that can execute after `start` (exclusive) on a path that
// neither executes an instruction matching stop nor takes a removed CFG edge.
func xc18Forward(start ssa.Instruction, stop func(ssa.Instruction) bool, removed map[edge]bool, visit func(ssa.Instruction)) {
	seen := map[*ssa.BasicBlock]bool{}
	var walk func(b *ssa.BasicBlock, from int)
	walk = func(b *ssa.BasicBlock, from int) {
		for i := from; i < len(b.Instrs); i++ {
			if stop != nil && stop(b.Instrs[i]) {
				return
			}
			visit(b.Instrs[i])
		}
		for si, s := range b.Succs {
			if removed[edge{b, si}] {
				continue
			}
			if !seen[s] {
				seen[s] = true
				walk(s, 0)
			}
		}
	}
	walk(start.Block(), indexIn(start.Block(), start)+1)
}

// ---------------------------------------------------------------------------
// X1: the batch candidate

const xc18Apply = "pkg/controller/fsm.StateMachine.applyMutation"

// xc18FromPublished: v is Clone(x) where x is sm.state or a local cell that only ever holds such clones.
func xc18FromPublished(fn *ssa.Function, v ssa.Value, depth int) bool {
	if depth > 4 || len(fn.Params) == 0 {
		return false
	}
	call, ok := v.(*ssa.Call)
	if !ok || calleeName(&call.Call) != "pkg/controller/state.ClusterState.Clone" || len(call.Call.Args) != 1 {
		return false
	}
	r, f := c18RootPath(call.Call.Args[0])
	if r == ssa.Value(fn.Params[0]) && f == "state" {
		return true
	}
	a, ok := r.(*ssa.Alloc)
	if !ok || f != "" || a.Referrers() == nil {
		return false
	}
	n := 0
	for _, ref := range *a.Referrers() {
		st, ok := ref.(*ssa.Store)
		if !ok || st.Addr != ssa.Value(a) {
			continue
		}
		n++
		if !xc18FromPublished(fn, st.Val, depth+1) {
			return false
		}
	}
	return n > 0
}

func xc18BatchCandidate(c *Ctx, w *c18W, rule string, fn *ssa.Function) {
	if fn == nil {
		return
	}
	name := c.P.Name(fn)
	var applies []*ssa.Call
	for _, f := range WithClosures(fn) {
		for _, b := range f.Blocks {
			for _, in := range b.Instrs {
				if call, ok := in.(*ssa.Call); ok && calleeName(&call.Call) == xc18Apply && f == fn {
					applies = append(applies, call)
				}
			}
		}
	}
	if len(applies) == 0 || len(applies[0].Call.Args) < 2 {
		c.add("shape", rule, name+"#candidate", Undecided, c.P.Pos(fn.Pos()), "no applyMutation call found in the batch driver")
		return
	}
	cand, cf := c18RootPath(applies[0].Call.Args[1])
	if _, isAlloc := cand.(*ssa.Alloc); !isAlloc || cf != "" {
		c.add("shape", rule, name+"#candidate", Undecided, c.P.InstrPos(applies[0]), "the state handed to applyMutation is not a local candidate object: "+Path(applies[0].Call.Args[1]))
		return
	}
	for _, a := range applies[1:] {
		if r, f := c18RootPath(a.Call.Args[1]); r != cand || f != "" {
			c.add("shape", rule, name+"#candidate", Violated, c.P.InstrPos(a), "applyMutation is called on two different candidate objects in one batch")
			return
		}
	}
	isApply := func(in ssa.Instruction) bool {
		call, ok := in.(*ssa.Call)
		return ok && calleeName(&call.Call) == xc18Apply
	}
	// instructions that can execute after some entry of the batch has been applied
	afterApply := map[ssa.Instruction]bool{}
	for _, a := range applies {
		xc18Forward(a, nil, nil, func(x ssa.Instruction) { afterApply[x] = true })
	}
	snaps := c18Snapshots(fn, cand)
	// a snapshot is "per entry" when no two applyMutation calls can run without it being re-taken in between
	perEntry := func(snap *ssa.Call) bool {
		ok := true
		for _, a := range applies {
			xc18Forward(a, func(x ssa.Instruction) bool { return x == ssa.Instruction(snap) }, nil, func(x ssa.Instruction) {
				if isApply(x) {
					ok = false
				}
			})
		}
		return ok
	}

	allowedFields := map[string]string{
		"AppliedRaftIndex": "replay cursor, monotone (R4-mono)",
		"Checksum":         "stored once after the loop (R3-order)",
	}
	var seeds []*ssa.Store
	var badWhole, badField []string
	nWrites := 0
	scan := func(f *ssa.Function, root ssa.Value, inClosure bool) {
		for _, b := range f.Blocks {
			for _, in := range b.Instrs {
				ws := w.instrWrites(in, root)
				if len(ws) == 0 || isApply(in) {
					continue
				}
				nWrites++
				if st, ok := in.(*ssa.Store); ok && ws["*"] {
					switch {
					case !inClosure && !afterApply[in]:
						seeds = append(seeds, st)
					case !inClosure && c18SnapOf(st.Val, snaps) != nil && perEntry(c18SnapOf(st.Val, snaps)):
						// redundant but harmless: restores the candidate as it was before the entry just applied
					default:
						badWhole = append(badWhole, fmt.Sprintf("%s at %s", Path(st.Val), c.P.InstrPos(in)))
					}
					continue
				}
				for _, k := range c18Keys(ws) {
					if _, ok := allowedFields[k]; !ok {
						badField = append(badField, fmt.Sprintf("%s at %s", k, c.P.InstrPos(in)))
					}
				}
			}
		}
	}
	scan(fn, cand, false)
	// closures (deferred functions …) see the candidate as a free variable bound to the same cell
	for _, f := range WithClosures(fn) {
		if f == fn {
			continue
		}
		for _, b := range fn.Blocks {
			for _, in := range b.Instrs {
				mc, ok := in.(*ssa.MakeClosure)
				if !ok || mc.Fn != ssa.Value(f) {
					continue
				}
				for i, bind := range mc.Bindings {
					if bind == cand && i < len(f.FreeVars) {
						scan(f, f.FreeVars[i], true)
					}
				}
			}
		}
	}

	construct := name + "#candidate-replaced-only-before-the-first-entry-or-by-a-per-entry-snapshot"
	if len(badWhole) > 0 {
		c.add("order", rule, construct, Violated, c.P.Pos(fn.Pos()), "after an entry of the batch has been applied the candidate state is replaced by something that is not a snapshot of the candidate taken for that entry (earlier entries of the same batch are lost, so the result depends on the batch partition): "+strings.Join(dedup(badWhole), "; "))
	} else {
		c.add("order", rule, construct, Held, c.P.Pos(fn.Pos()), fmt.Sprintf("%d applyMutation site(s) on one candidate; %d whole-state store(s), none reachable after an applied entry (or a per-entry snapshot restore)", len(applies), len(seeds)))
	}

	construct = name + "#candidate-fields-written-by-the-batch-driver⊆{AppliedRaftIndex,Checksum}"
	if len(badField) > 0 {
		sort.Strings(badField)
		c.add("confine", rule, construct, Violated, c.P.Pos(fn.Pos()), "the batch driver itself modifies the candidate state outside applyMutation: "+strings.Join(dedup(badField), "; "))
	} else {
		c.add("confine", rule, construct, Held, c.P.Pos(fn.Pos()), fmt.Sprintf("%d writing instruction(s) besides applyMutation, all to the replay cursor, the checksum or the initial seeding", nWrites))
	}

	construct = name + "#candidate-seeded-from-published-state"
	var badSeed []string
	for _, st := range seeds {
		if !xc18FromPublished(fn, st.Val, 0) {
			badSeed = append(badSeed, fmt.Sprintf("%s at %s", Path(st.Val), c.P.InstrPos(st)))
		}
	}
	switch {
	case len(seeds) == 0:
		c.add("shape", rule, construct, Undecided, c.P.Pos(fn.Pos()), "no initial store to the candidate state found")
	case len(badSeed) > 0:
		c.add("shape", rule, construct, Violated, c.P.Pos(fn.Pos()), "the batch does not start from a clone of the published state sm.state: "+strings.Join(badSeed, "; "))
	default:
		c.add("shape", rule, construct, Held, c.P.InstrPos(seeds[0]), fmt.Sprintf("%d seeding store(s), each a Clone chain of sm.state", len(seeds)))
	}
}

// ---------------------------------------------------------------------------
// X2: validated after the last write

// xc18ValidEdges: CFG edges on which ClusterState.Validate(root) == nil holds for the state as it is
// when the edge is taken (nothing that can execute between the call and the branch writes the state).
func xc18ValidEdges(w *c18W, fn *ssa.Function, root ssa.Value) map[edge]bool {
	out := map[edge]bool{}
	for _, b := range fn.Blocks {
		if len(b.Instrs) == 0 {
			continue
		}
		iff, ok := b.Instrs[len(b.Instrs)-1].(*ssa.If)
		if !ok {
			continue
		}
		cmp, ok := iff.Cond.(*ssa.BinOp)
		if !ok || (cmp.Op != token.EQL && cmp.Op != token.NEQ) {
			continue
		}
		var call *ssa.Call
		for _, pair := range [][2]ssa.Value{{cmp.X, cmp.Y}, {cmp.Y, cmp.X}} {
			k, isConst := pair[1].(*ssa.Const)
			if !isConst || !k.IsNil() {
				continue
			}
			if cl, ok := stripConv(pair[0]).(*ssa.Call); ok {
				call = cl
			}
		}
		if call == nil || calleeName(&call.Call) != "pkg/controller/state.ClusterState.Validate" || len(call.Call.Args) != 1 {
			continue
		}
		if r, f := c18RootPath(call.Call.Args[0]); r != root || f != "" {
			continue
		}
		// the verdict is about the state as it is at the branch: nothing that can run between the
		// call and this branch writes the state
		stale := false
		xc18Forward(call, func(x ssa.Instruction) bool { return x == ssa.Instruction(iff) }, nil, func(x ssa.Instruction) {
			if len(w.instrWrites(x, root)) > 0 {
				stale = true
			}
		})
		if stale {
			continue
		}
		if cmp.Op == token.NEQ {
			out[edge{b, 1}] = true
		} else {
			out[edge{b, 0}] = true
		}
	}
	return out
}

// xc18ValidatedInstall: `*next = v` where v is the state built (and validated, R2-changed) by initialStateFromCommand.
func xc18ValidatedInstall(in ssa.Instruction) bool {
	st, ok := in.(*ssa.Store)
	if !ok {
		return false
	}
	v := st.Val
	if ld, ok := v.(*ssa.UnOp); ok && ld.Op == token.MUL {
		if a, ok := ld.X.(*ssa.Alloc); ok && a.Referrers() != nil {
			var only ssa.Value
			n := 0
			for _, r := range *a.Referrers() {
				if s2, ok := r.(*ssa.Store); ok && s2.Addr == ssa.Value(a) {
					n++
					only = s2.Val
				}
			}
			if n == 1 {
				v = only
			}
		}
	}
	ex, ok := v.(*ssa.Extract)
	if !ok || ex.Index != 0 {
		return false
	}
	call, ok := ex.Tuple.(*ssa.Call)
	return ok && calleeName(&call.Call) == "pkg/controller/fsm.initialStateFromCommand"
}

// xc18ValidatedReturns: every return of h that can leave a write to the candidate state in place is reached
// from that write only across a Validate(next) == nil edge. Returns the number of such returns in h.
func xc18ValidatedReturns(c *Ctx, w *c18W, rule string, h *ssa.Function, root ssa.Value) int {
	name := c.P.Name(h)
	snaps := c18Snapshots(h, root)
	valid := xc18ValidEdges(w, h, root)
	isRestore := func(x ssa.Instruction) bool { return c18IsRestore(x, root, snaps) }
	selfChecking := map[string]bool{
		"pkg/controller/fsm.reject":          true, // must restore: R2-rollback
		"pkg/controller/fsm.noop":            true, // must be field-equal to the snapshot: R2-noop
		"pkg/controller/fsm.validateChanged": true, // validates or rolls back itself: R2-changed
	}
	direct := map[ssa.Instruction]bool{} // state-modifying returns that rely on the handler's own validation
	var bad []string
	nw := 0
	for _, b := range h.Blocks {
		for _, in := range b.Instrs {
			ws := w.instrWrites(in, root)
			if len(ws) == 0 || isRestore(in) {
				continue
			}
			if _, spill := in.(*ssa.Store); spill {
				if _, isParam := in.(*ssa.Store).Val.(*ssa.Parameter); isParam {
					continue
				}
			}
			if xc18ValidatedInstall(in) {
				continue
			}
			nw++
			// every return reachable from the write without a restore
			xc18Forward(in, isRestore, nil, func(x ssa.Instruction) {
				if _, ok := x.(*ssa.Return); ok && !selfChecking[c18RetCallee(x)] {
					direct[x] = true
				}
			})
			// … must not be reachable when the Validate-success edges are cut
			xc18Forward(in, isRestore, valid, func(x ssa.Instruction) {
				if _, ok := x.(*ssa.Return); ok && !selfChecking[c18RetCallee(x)] {
					bad = append(bad, fmt.Sprintf("return at %s after write of %v at %s", c.P.InstrPos(x), c18Keys(ws), c.P.InstrPos(in)))
				}
			})
		}
	}
	construct := name + "#state-modifying-return-behind-Validate(next)==nil-after-the-last-write"
	if len(bad) > 0 {
		sort.Strings(bad)
		c.add("guard", rule, construct, Violated, c.P.Pos(h.Pos()), "a command outcome that keeps a modification of the candidate state is reachable without cluster-state validation of the modified state (an invalid state would be saved/published, or Save fails for a committed entry): "+strings.Join(dedup(bad), "; "))
		return len(direct)
	}
	c.add("guard", rule, construct, Held, c.P.Pos(h.Pos()), fmt.Sprintf("%d writing instruction(s); %d return(s) that keep a write are not reject/noop/validateChanged, each reached only across one of %d Validate(next)==nil edge(s) taken after the last write", nw, len(direct), len(valid)))
	return len(direct)
}
