package main

// maporder.go — decides, for one `for k, v := range <map>` loop, whether the loop's observable outcome
// is independent of the (random) visiting order. Sound-by-construction whitelist: every effect in the
// loop body must be one of a small number of commutative forms, no accumulated state may be read other
// than by its own update, and nothing iteration-local may leave the loop. Anything else is "undecided"
// (the caller then falls back to a reasoned table or reports it).
//
// Accepted forms
//   pure            no effect at all in the body (existential search returning loop-invariant values is allowed)
//   keyed-write     m2[f(k)] = …            key derived from the range key only (distinct per iteration)
//   set-insert      m2[x] = <constant>      collisions write the same value
//   delete          delete(m2, x)
//   sum             x = x ⊕ e               ⊕ ∈ {+,*,|,&,^} on integers, e independent of x
//   flag            x = <one constant>
//   collect-sort    x = append(x, …)        and every use of x after the loop is dominated by a sort call on x
//   per-element     store through the visited element (pointer element / fresh object of this iteration)
// Assumption stated in evidence: distinct keys hold distinct element objects.

import (
	"fmt"
	"go/token"
	"go/types"
	"sort"
	"strings"

	"golang.org/x/tools/go/ssa"
)

type mapRangeVerdict struct {
	OK     bool
	Reason string // why it is order-insensitive, or the first construct that could not be classified
	Pos    token.Pos
}

// sorters: callees whose first argument is sorted in place (or whose result is the sorted argument).
var defaultSorters = []string{"sort.Slice", "sort.SliceStable", "sort.Strings", "sort.Ints", "sort.Float64s", "sort.Sort", "sort.Stable",
	"slices.Sort", "slices.SortFunc", "slices.SortStableFunc"}

// calls without a body that have no effect on memory visible to the caller
var pureExternal = []string{"strings.*", "strconv.*", "unicode.*", "unicode/utf8.*", "math.*", "math/bits.*", "errors.New", "errors.Is", "errors.As",
	"fmt.Sprintf", "fmt.Sprint", "fmt.Errorf", "time.Time.*", "time.Duration.*", "bytes.Equal", "bytes.Compare", "bytes.HasPrefix", "bytes.Clone",
	"path.*", "path/filepath.Base", "path/filepath.Join", "hash/crc32.ChecksumIEEE", "encoding/binary.littleEndian.Uint*", "encoding/binary.bigEndian.Uint*",
	"time.Unix", "time.UnixMilli", "time.Since", "sync.Mutex.*", "sync.RWMutex.*", "sync/atomic.*.Load", "sort.Search*", "slices.Contains", "slices.Index", "slices.Equal", "slices.Clone", "maps.Clone", "reflect.DeepEqual"}

// interface methods that have no effect whatever the implementation
var pureInvoke = []string{"context.Context.Err", "context.Context.Done", "context.Context.Value", "context.Context.Deadline", "error.Error", "fmt.Stringer.String"}

type effectSummary struct {
	Global bool         // writes memory not rooted at a parameter or a local, or does something unclassifiable
	Params map[int]bool // parameter indices (receiver = 0) written through
	Why    string
}

type mapOrder struct {
	p       *Program
	sums    map[*ssa.Function]*effectSummary
	busy    map[*ssa.Function]bool
	sorters []string
}

func newMapOrder(p *Program, extraSorters []string) *mapOrder {
	return &mapOrder{p: p, sums: map[*ssa.Function]*effectSummary{}, busy: map[*ssa.Function]bool{}, sorters: append(append([]string{}, defaultSorters...), extraSorters...)}
}

// addrRoot strips field/index selections and loads: the object an address belongs to.
// indexed reports whether an element selection (IndexAddr / slice element) was crossed.
func addrRoot(v ssa.Value) (root ssa.Value, fields string, indexed bool) {
	for i := 0; i < 32; i++ {
		switch x := v.(type) {
		case *ssa.FieldAddr:
			fields = fmt.Sprintf(".%d%s", x.Field, fields)
			v = x.X
		case *ssa.Field:
			fields = fmt.Sprintf(".%d%s", x.Field, fields)
			v = x.X
		case *ssa.IndexAddr:
			indexed = true
			v = x.X
		case *ssa.Index:
			indexed = true
			v = x.X
		case *ssa.Lookup:
			indexed = true
			v = x.X
		case *ssa.UnOp:
			if x.Op != token.MUL {
				return v, fields, indexed
			}
			fields = "*" + fields
			v = x.X
		case *ssa.Slice:
			v = x.X
		case *ssa.ChangeType:
			v = x.X
		case *ssa.Convert:
			v = x.X
		case *ssa.MakeInterface:
			v = x.X
		case *ssa.TypeAssert:
			v = x.X
		case *ssa.Extract:
			if _, ok := x.Tuple.(*ssa.TypeAssert); ok {
				v = x.Tuple.(*ssa.TypeAssert).X
				continue
			}
			return v, fields, indexed
		default:
			return v, fields, indexed
		}
	}
	return v, fields, indexed
}

func isFreshObject(v ssa.Value) bool {
	switch x := v.(type) {
	case *ssa.Alloc, *ssa.MakeMap, *ssa.MakeSlice, *ssa.MakeChan:
		return true
	case *ssa.Call:
		// append(nil/fresh, …) and friends are not tracked: only direct allocations are "fresh"
		_ = x
	}
	return false
}

// summary computes which parameters fn may write through (transitively, depth-bounded).
func (m *mapOrder) summary(fn *ssa.Function, depth int) *effectSummary {
	if s, ok := m.sums[fn]; ok {
		return s
	}
	if fn.Blocks == nil {
		name := funcShortName(fn)
		if globAny(pureExternal, name) {
			s := &effectSummary{Params: map[int]bool{}}
			m.sums[fn] = s
			return s
		}
		return &effectSummary{Global: true, Why: "no body for " + name}
	}
	if m.busy[fn] {
		return &effectSummary{Params: map[int]bool{}} // coinductive: the cycle adds nothing by itself
	}
	if depth > 5 {
		return &effectSummary{Global: true, Why: "call depth bound reached at " + funcShortName(fn)}
	}
	m.busy[fn] = true
	defer delete(m.busy, fn)
	s := &effectSummary{Params: map[int]bool{}}
	paramIdx := map[ssa.Value]int{}
	for i, p := range fn.Params {
		paramIdx[p] = i
	}
	write := func(addr ssa.Value, what string, in ssa.Instruction) {
		root, fields, _ := addrRoot(addr)
		if isFreshObject(root) && !strings.Contains(fields, "*") {
			return
		}
		if i, ok := paramIdx[root]; ok {
			s.Params[i] = true
			return
		}
		if _, ok := root.(*ssa.FreeVar); ok {
			s.Global, s.Why = true, what+" through a captured variable in "+funcShortName(fn)
			return
		}
		s.Global, s.Why = true, what+" to "+Path(addr)+" in "+funcShortName(fn)
	}
	for _, b := range fn.Blocks {
		for _, in := range b.Instrs {
			if s.Global {
				break
			}
			switch x := in.(type) {
			case *ssa.Store:
				write(x.Addr, "store", in)
			case *ssa.MapUpdate:
				write(x.Map, "map update", in)
			case *ssa.Send, *ssa.Go, *ssa.Select:
				s.Global, s.Why = true, "channel operation / goroutine in "+funcShortName(fn)
			case *ssa.Defer:
				m.callEffects(s, &x.Call, paramIdx, depth, fn)
			case *ssa.Call:
				m.callEffects(s, &x.Call, paramIdx, depth, fn)
			}
		}
	}
	m.sums[fn] = s
	return s
}

// callEffects folds the effects of one call into the caller's summary.
func (m *mapOrder) callEffects(s *effectSummary, cc *ssa.CallCommon, paramIdx map[ssa.Value]int, depth int, in *ssa.Function) {
	written, why := m.callWrites(cc, depth)
	if why != "" {
		s.Global, s.Why = true, why
		return
	}
	for _, a := range written {
		root, fields, _ := addrRoot(a)
		if isFreshObject(root) && !strings.Contains(fields, "*") {
			continue
		}
		if i, ok := paramIdx[root]; ok {
			s.Params[i] = true
			continue
		}
		s.Global, s.Why = true, "call "+calleeName(cc)+" writes through "+Path(a)+" in "+funcShortName(in)
		return
	}
}

// callWrites: the argument values a call may write through; why != "" when the call cannot be summarised.
func (m *mapOrder) callWrites(cc *ssa.CallCommon, depth int) (written []ssa.Value, why string) {
	if cc.IsInvoke() {
		if globAny(pureInvoke, calleeName(cc)) {
			return nil, ""
		}
		return nil, "dynamic call " + calleeName(cc)
	}
	switch v := cc.Value.(type) {
	case *ssa.Builtin:
		switch v.Name() {
		case "len", "cap", "append", "min", "max", "panic", "print", "println", "real", "imag", "complex", "new", "make", "ssa:wrapnilchk", "recover":
			return nil, ""
		case "delete", "copy", "clear":
			return []ssa.Value{cc.Args[0]}, ""
		}
		return nil, "builtin " + v.Name()
	case *ssa.Function:
		sum := m.summary(v, depth+1)
		if sum.Global {
			return nil, "call " + funcShortName(v) + ": " + sum.Why
		}
		for i := range sum.Params {
			if i < len(cc.Args) {
				written = append(written, cc.Args[i])
			}
		}
		return written, ""
	case *ssa.MakeClosure:
		fn, _ := v.Fn.(*ssa.Function)
		if fn == nil {
			return nil, "dynamic call"
		}
		sum := m.summary(fn, depth+1)
		if sum.Global {
			return nil, "call " + funcShortName(fn) + ": " + sum.Why
		}
		for i := range sum.Params {
			if i < len(cc.Args) {
				written = append(written, cc.Args[i])
			}
		}
		return written, ""
	}
	return nil, "dynamic call " + calleeName(cc)
}

// Classify decides one map range.
func (m *mapOrder) Classify(fn *ssa.Function, rng *ssa.Range) mapRangeVerdict {
	bad := func(pos token.Pos, f string, a ...any) mapRangeVerdict {
		if pos == token.NoPos {
			pos = rng.Pos()
		}
		return mapRangeVerdict{OK: false, Reason: fmt.Sprintf(f, a...), Pos: pos}
	}
	// --- locate the loop
	var next *ssa.Next
	for _, r := range *rng.Referrers() {
		if n, ok := r.(*ssa.Next); ok {
			if next != nil {
				return bad(0, "range iterator advanced at two sites")
			}
			next = n
		}
	}
	if next == nil {
		return bad(0, "range without next")
	}
	H := next.Block()
	ifi, ok := H.Instrs[len(H.Instrs)-1].(*ssa.If)
	if !ok || len(H.Succs) != 2 {
		return bad(0, "loop header does not end in the iterator test")
	}
	body, done := H.Succs[0], H.Succs[1]
	_ = ifi
	// L = blocks reachable from body that can reach H again
	fwd := map[*ssa.BasicBlock]bool{}
	var walk func(b *ssa.BasicBlock)
	walk = func(b *ssa.BasicBlock) {
		if fwd[b] || b == H {
			return
		}
		fwd[b] = true
		for _, s := range b.Succs {
			walk(s)
		}
	}
	walk(body)
	canReach := map[*ssa.BasicBlock]bool{H: true}
	for changed := true; changed; {
		changed = false
		for b := range fwd {
			if canReach[b] {
				continue
			}
			for _, s := range b.Succs {
				if canReach[s] {
					canReach[b] = true
					changed = true
					break
				}
			}
		}
	}
	L := map[*ssa.BasicBlock]bool{H: true}
	for b := range fwd {
		if canReach[b] {
			L[b] = true
		}
	}
	if !L[body] {
		// the body never comes back: at most one iteration's effects, but which element is visited is random
		return bad(0, "loop body never returns to the header (visits an arbitrary single element)")
	}
	inLoop := func(v ssa.Value) bool {
		in, ok := v.(ssa.Instruction)
		return ok && in.Block() != nil && in.Parent() == fn && L[in.Block()]
	}
	// early exits: edges L→¬L other than H→done
	earlyExit := false
	var exitPos token.Pos
	for b := range L {
		for _, s := range b.Succs {
			if !L[s] && !(b == H && s == done) {
				earlyExit = true
				if len(s.Instrs) > 0 {
					exitPos = s.Instrs[0].Pos()
				}
			}
		}
		if b != H {
			if _, ok := b.Instrs[len(b.Instrs)-1].(*ssa.Return); ok {
				earlyExit = true
			}
		}
	}

	var kVal, vVal ssa.Value
	for _, r := range *next.Referrers() {
		if e, ok := r.(*ssa.Extract); ok {
			switch e.Index {
			case 1:
				kVal = e
			case 2:
				vVal = e
			}
		}
	}
	strip := func(v ssa.Value) ssa.Value {
		for {
			switch x := v.(type) {
			case *ssa.Convert:
				v = x.X
			case *ssa.ChangeType:
				v = x.X
			case *ssa.MakeInterface:
				v = x.X
			default:
				return v
			}
		}
	}
	var keyDerived func(v ssa.Value, d int) bool
	keyDerived = func(v ssa.Value, d int) bool {
		v = strip(v)
		if kVal != nil && v == kVal {
			return true
		}
		if d > 4 {
			return false
		}
		// a field of the key, or a struct literal/alloc is not followed; that is enough for the repo's loops
		if f, ok := v.(*ssa.Field); ok {
			_ = f
			return false // a projection of the key is not injective
		}
		return false
	}
	elemDerived := func(root ssa.Value) bool {
		root = strip(root)
		if vVal != nil && root == vVal {
			return true
		}
		return false
	}
	freshInIteration := func(root ssa.Value, fields string) bool {
		return isFreshObject(root) && inLoop(root) && !strings.Contains(fields, "*")
	}

	effects := map[string]int{}
	note := func(k string) { effects[k]++ }

	// --- loop-carried registers: phis in H with a back edge
	type accum struct {
		self   ssa.Value // the phi
		update []ssa.Instruction
	}
	updatesOf := map[ssa.Value]map[ssa.Instruction]bool{} // accumulator → instructions that are part of its own update
	collectors := []ssa.Value{}                           // phis that collect with append

	var form func(self ssa.Value, isSelf func(ssa.Value) bool, v ssa.Value, seen map[ssa.Value]bool, kinds map[string]bool, own map[ssa.Instruction]bool) bool
	var dependsOn func(v ssa.Value, isSelf func(ssa.Value) bool, d int, seen map[ssa.Value]bool) bool
	dependsOn = func(v ssa.Value, isSelf func(ssa.Value) bool, d int, seen map[ssa.Value]bool) bool {
		if isSelf(v) {
			return true
		}
		if seen[v] || d > 12 {
			return seen[v] == false && d > 12
		}
		seen[v] = true
		in, ok := v.(ssa.Instruction)
		if !ok || !inLoop(v) {
			return false
		}
		for _, op := range in.Operands(nil) {
			if *op != nil && dependsOn(*op, isSelf, d+1, seen) {
				return true
			}
		}
		return false
	}
	form = func(self ssa.Value, isSelf func(ssa.Value) bool, v ssa.Value, seen map[ssa.Value]bool, kinds map[string]bool, own map[ssa.Instruction]bool) bool {
		if isSelf(v) {
			if in, ok := v.(ssa.Instruction); ok {
				own[in] = true
			}
			kinds["self"] = true
			return true
		}
		if seen[v] {
			return true
		}
		seen[v] = true
		switch x := v.(type) {
		case *ssa.Const:
			kinds["const:"+x.String()] = true
			return true
		case *ssa.Phi:
			if !inLoop(x) {
				return false
			}
			own[x] = true
			for _, e := range x.Edges {
				if !form(self, isSelf, e, seen, kinds, own) {
					return false
				}
			}
			return true
		case *ssa.BinOp:
			switch x.Op {
			case token.ADD, token.MUL, token.OR, token.AND, token.XOR:
			default:
				return false
			}
			if b, ok := x.Type().Underlying().(*types.Basic); !ok || b.Info()&types.IsInteger == 0 {
				return false
			}
			for i, side := range []ssa.Value{x.X, x.Y} {
				other := []ssa.Value{x.Y, x.X}[i]
				if dependsOn(other, isSelf, 0, map[ssa.Value]bool{}) {
					continue
				}
				sub := map[string]bool{}
				if form(self, isSelf, side, seen, sub, own) {
					for k := range sub {
						if k != "self" && k != "sum:"+x.Op.String() {
							return false
						}
					}
					own[x] = true
					kinds["sum:"+x.Op.String()] = true
					kinds["self"] = true
					return true
				}
			}
			return false
		case *ssa.Call:
			if b, ok := x.Call.Value.(*ssa.Builtin); ok && b.Name() == "append" && len(x.Call.Args) >= 1 {
				sub := map[string]bool{}
				if !form(self, isSelf, x.Call.Args[0], seen, sub, own) {
					return false
				}
				for k := range sub {
					if k != "self" && k != "append" && !strings.HasPrefix(k, "const:nil") {
						return false
					}
				}
				for _, a := range x.Call.Args[1:] {
					if dependsOn(a, isSelf, 0, map[ssa.Value]bool{}) {
						return false
					}
				}
				own[x] = true
				kinds["append"] = true
				return true
			}
			return false
		case *ssa.Convert:
			return false
		}
		return false
	}
	kindsOK := func(kinds map[string]bool) (string, bool) {
		var ks []string
		for k := range kinds {
			if k != "self" {
				ks = append(ks, k)
			}
		}
		sort.Strings(ks)
		switch {
		case len(ks) == 0:
			return "unchanged", true
		case len(ks) == 1 && strings.HasPrefix(ks[0], "const:"):
			return "flag", true
		case len(ks) == 1 && strings.HasPrefix(ks[0], "sum:"):
			return "sum", true
		case len(ks) == 1 && ks[0] == "append":
			return "collect", true
		}
		return strings.Join(ks, ","), false
	}

	for _, in := range H.Instrs {
		phi, ok := in.(*ssa.Phi)
		if !ok {
			continue
		}
		isSelf := func(v ssa.Value) bool { return v == ssa.Value(phi) }
		kinds := map[string]bool{}
		own := map[ssa.Instruction]bool{}
		for i, e := range phi.Edges {
			if !L[H.Preds[i]] {
				continue // initial value
			}
			if !form(phi, isSelf, e, map[ssa.Value]bool{}, kinds, own) {
				return bad(phi.Pos(), "loop-carried variable %s is updated by %s, which is not a commutative accumulation", phi.Comment, Path(e))
			}
		}
		k, ok2 := kindsOK(kinds)
		if !ok2 {
			return bad(phi.Pos(), "loop-carried variable %s mixes update forms (%s)", phi.Comment, k)
		}
		if k == "unchanged" {
			continue
		}
		note(k)
		updatesOf[phi] = own
		if k == "collect" {
			collectors = append(collectors, phi)
		}
		// the accumulator may be read only by its own update
		for _, r := range *phi.Referrers() {
			if r.Block() == nil || !L[r.Block()] {
				continue
			}
			if own[r] {
				continue
			}
			if _, isDbg := r.(*ssa.DebugRef); isDbg {
				continue
			}
			return bad(r.Pos(), "accumulated variable %s is read inside the loop other than by its own update (the outcome can depend on how much was accumulated so far)", phi.Comment)
		}
	}
	if earlyExit && len(updatesOf) > 0 {
		return bad(exitPos, "the loop accumulates state and can also exit early: what was accumulated before the exit depends on visiting order")
	}

	// --- memory accumulators (locals whose address is taken, fields of objects defined outside the loop)
	type loc struct {
		root   ssa.Value
		fields string
	}
	locOf := func(addr ssa.Value) (loc, bool, bool) {
		root, fields, indexed := addrRoot(addr)
		return loc{root, fields}, indexed, true
	}
	locStores := map[loc][]*ssa.Store{}
	mapsUpdated := map[string]bool{}
	mapsDeleted := map[string]bool{}
	hasEffect := len(updatesOf) > 0

	for b := range L {
		for _, in := range b.Instrs {
			switch x := in.(type) {
			case *ssa.Store:
				l, indexed, _ := locOf(x.Addr)
				switch {
				case freshInIteration(l.root, l.fields):
					continue
				case elemDerived(l.root) && !isValueElem(vVal):
					note("per-element")
					hasEffect = true
					continue
				case indexed:
					return bad(x.Pos(), "store to an element of %s, defined outside the loop", Path(l.root))
				case inLoop(l.root):
					// an object obtained inside the iteration (lookup, call result): per-iteration only if fresh
					return bad(x.Pos(), "store through %s, obtained inside the loop but not allocated there", Path(l.root))
				}
				locStores[l] = append(locStores[l], x)
				hasEffect = true
			case *ssa.MapUpdate:
				root, flds, _ := addrRoot(x.Map)
				if freshInIteration(root, flds) {
					continue
				}
				hasEffect = true
				_, constVal := x.Value.(*ssa.Const)
				switch {
				case keyDerived(x.Key, 0):
					note("keyed-write")
				case constVal:
					note("set-insert")
				default:
					return bad(x.Pos(), "map write %s[%s] whose key is not the range key and whose value is not constant (colliding keys keep the last visited)", Path(x.Map), Path(x.Key))
				}
				mapsUpdated[Path(x.Map)] = true
			case *ssa.Call:
				if b, ok := x.Call.Value.(*ssa.Builtin); ok && b.Name() == "delete" {
					root, flds, _ := addrRoot(x.Call.Args[0])
					if !freshInIteration(root, flds) {
						note("delete")
						hasEffect = true
						mapsDeleted[Path(x.Call.Args[0])] = true
					}
					continue
				}
				written, why := m.callWrites(&x.Call, 0)
				if why != "" {
					return bad(x.Pos(), "%s", why)
				}
				for _, a := range written {
					root, flds, _ := addrRoot(a)
					switch {
					case freshInIteration(root, flds):
					case elemDerived(root) && !isValueElem(vVal):
						note("per-element")
						hasEffect = true
					default:
						return bad(x.Pos(), "call %s writes through %s, which outlives the iteration", calleeName(&x.Call), Path(a))
					}
				}
			case *ssa.Send, *ssa.Go, *ssa.Defer, *ssa.Select:
				return bad(in.Pos(), "channel operation / go / defer inside the loop")
			case *ssa.Return:
				for _, r := range x.Results {
					if inLoop(r) {
						if _, isConst := r.(*ssa.Const); !isConst {
							return bad(x.Pos(), "returns %s, computed from the visited element, from inside the loop (which element is found first is random)", Path(r))
						}
					}
				}
			}
		}
	}
	// memory accumulators: each store's value must be a commutative update of the same location
	for l, stores := range locStores {
		isSelf := func(v ssa.Value) bool {
			u, ok := v.(*ssa.UnOp)
			if !ok || u.Op != token.MUL {
				return false
			}
			r, f, idx := addrRoot(u.X)
			return !idx && r == l.root && f == l.fields
		}
		kinds := map[string]bool{}
		own := map[ssa.Instruction]bool{}
		for _, st := range stores {
			own[st] = true
			if !form(nil, isSelf, st.Val, map[ssa.Value]bool{}, kinds, own) {
				return bad(st.Pos(), "%s is assigned %s inside the loop, which is not a commutative accumulation (the last visited element wins)", Path(st.Addr), Path(st.Val))
			}
		}
		k, ok := kindsOK(kinds)
		if !ok {
			return bad(stores[0].Pos(), "%s mixes update forms (%s)", Path(stores[0].Addr), k)
		}
		note(k)
		// reads of the location inside the loop other than by its own update
		for b := range L {
			for _, in := range b.Instrs {
				u, ok := in.(*ssa.UnOp)
				if !ok || u.Op != token.MUL || !isSelf(u) || own[u] {
					continue
				}
				return bad(u.Pos(), "accumulated location %s is read inside the loop other than by its own update", Path(u.X))
			}
		}
		if k == "collect" {
			if a, ok := l.root.(*ssa.Alloc); ok && l.fields == "" {
				collectors = append(collectors, a)
			} else {
				return bad(stores[0].Pos(), "%s collects elements in visiting order and is not a local slice whose later sort can be established", Path(stores[0].Addr))
			}
		}
		if earlyExit {
			return bad(exitPos, "the loop accumulates into %s and can also exit early", Path(stores[0].Addr))
		}
	}
	if earlyExit && hasEffect {
		return bad(exitPos, "the loop has effects and can also exit early: which elements were processed before the exit depends on visiting order")
	}
	// reading a map that the loop also writes (other than the ranged map being deleted from by key)
	for b := range L {
		for _, in := range b.Instrs {
			var mv ssa.Value
			switch x := in.(type) {
			case *ssa.Lookup:
				mv = x.X
			case *ssa.Call:
				if bi, ok := x.Call.Value.(*ssa.Builtin); ok {
					if bi.Name() == "len" {
						mv = x.Call.Args[0]
					}
					break
				}
				// a callee that is handed a map or an object the loop accumulates into may read it:
				// its result would then depend on how far the loop has got
				for _, a := range callArgs(&x.Call) {
					if mapsUpdated[Path(a)] || mapsDeleted[Path(a)] {
						return bad(x.Pos(), "map %s is written by the loop and also passed to %s", Path(a), calleeName(&x.Call))
					}
					ar, _, _ := addrRoot(a)
					for l := range locStores {
						if _, isLocal := l.root.(*ssa.Alloc); isLocal && a != l.root {
							continue
						}
						if ar == l.root {
							return bad(x.Pos(), "%s is accumulated into by the loop and also passed to %s, which may read the partial value", Path(l.root), calleeName(&x.Call))
						}
					}
				}
			case *ssa.Range:
				if x != rng {
					mv = x.X
				}
			}
			if mv == nil {
				continue
			}
			if mapsUpdated[Path(mv)] || mapsDeleted[Path(mv)] {
				return bad(in.Pos(), "map %s is both written and read inside the loop", Path(mv))
			}
		}
	}
	// iteration-local values must not be used after the loop
	for b := range L {
		for _, in := range b.Instrs {
			v, ok := in.(ssa.Value)
			if !ok || v.Referrers() == nil {
				continue
			}
			if phi, isPhi := v.(*ssa.Phi); isPhi && phi.Block() == H {
				continue // accepted accumulator (checked above)
			}
			for _, r := range *v.Referrers() {
				if r.Block() == nil || L[r.Block()] {
					continue
				}
				if _, isDbg := r.(*ssa.DebugRef); isDbg {
					continue
				}
				if phi, ok := r.(*ssa.Phi); ok && phi.Block() == done {
					// a value merged at the loop exit from a break edge
					return bad(r.Pos(), "a value computed from the visited element (%s) is used after the loop", Path(v))
				}
				if ret, ok := r.(*ssa.Return); ok {
					_ = ret
				}
				return bad(r.Pos(), "a value computed from the visited element (%s) is used after the loop", Path(v))
			}
		}
	}
	// collect-then-sort
	for _, cv := range collectors {
		if why := m.sortedBeforeUse(fn, cv, L); why != "" {
			return bad(cv.Pos(), "%s", why)
		}
		note("sorted-after")
	}
	var ks []string
	for k, n := range effects {
		ks = append(ks, fmt.Sprintf("%s×%d", k, n))
	}
	sort.Strings(ks)
	reason := "no effect in the body"
	if len(ks) > 0 {
		reason = "body effects are all commutative: " + strings.Join(ks, " ")
	}
	if earlyExit {
		reason += "; early exit returns only loop-invariant values"
	}
	return mapRangeVerdict{OK: true, Reason: reason, Pos: rng.Pos()}
}

func isValueElem(v ssa.Value) bool {
	if v == nil {
		return true
	}
	switch v.Type().Underlying().(type) {
	case *types.Pointer, *types.Map, *types.Slice:
		return false
	}
	return true
}

// sortedBeforeUse: every use of the collected slice outside the loop is a sort call on it, a len/cap, or is
// dominated by such a sort call. cv is the header phi (register form) or the local Alloc (memory form).
func (m *mapOrder) sortedBeforeUse(fn *ssa.Function, cv ssa.Value, L map[*ssa.BasicBlock]bool) string {
	type use struct {
		in  ssa.Instruction
		val ssa.Value // the slice value as used
	}
	var uses []use
	switch x := cv.(type) {
	case *ssa.Phi:
		// the collected value may keep growing after the loop (a second collecting loop, an append): follow it
		// through phis and append(x, …) results; every other use of any value in that flow is a real use
		flow := map[ssa.Value]bool{x: true}
		work := []ssa.Value{x}
		for len(work) > 0 {
			s := work[0]
			work = work[1:]
			for _, r := range *s.Referrers() {
				if r.Block() == nil || (L[r.Block()] && s == ssa.Value(x)) {
					continue
				}
				if phi, ok := r.(*ssa.Phi); ok {
					if !flow[phi] {
						flow[phi] = true
						work = append(work, phi)
					}
					continue
				}
				if call, ok := r.(*ssa.Call); ok {
					if b, ok := call.Call.Value.(*ssa.Builtin); ok && b.Name() == "append" && call.Call.Args[0] == s {
						if !flow[call] {
							flow[call] = true
							work = append(work, call)
						}
						continue
					}
				}
				uses = append(uses, use{r, s})
			}
		}
	case *ssa.Alloc:
		for _, r := range *x.Referrers() {
			if r.Block() == nil || L[r.Block()] {
				continue
			}
			switch y := r.(type) {
			case *ssa.UnOp:
				for _, rr := range *y.Referrers() {
					if rr.Block() != nil && !L[rr.Block()] {
						uses = append(uses, use{rr, x})
					}
				}
			case *ssa.Store:
				if y.Addr == ssa.Value(x) {
					continue // initialisation / reset outside the loop
				}
				uses = append(uses, use{r, x})
			case *ssa.MakeClosure:
				// the less-closure of sort.Slice captures the variable: fine if the closure goes to a sorter
				okc := true
				for _, rr := range *y.Referrers() {
					call, ok := rr.(*ssa.Call)
					if !ok || !globAny(m.sorters, calleeName(&call.Call)) {
						okc = false
					}
				}
				if !okc {
					return "the collected slice is captured by a closure that is not a sort comparator"
				}
			case *ssa.DebugRef:
			default:
				uses = append(uses, use{r, x})
			}
		}
	}
	isSortOf := func(u use) bool {
		call, ok := u.in.(*ssa.Call)
		if !ok || !globAny(m.sorters, calleeName(&call.Call)) || len(call.Call.Args) == 0 {
			return false
		}
		a := call.Call.Args[0]
		for {
			switch y := a.(type) {
			case *ssa.MakeInterface:
				a = y.X
				continue
			case *ssa.ChangeType:
				a = y.X
				continue
			case *ssa.Convert:
				a = y.X
				continue
			case *ssa.Slice:
				if y.Low == nil && y.High == nil {
					a = y.X
					continue
				}
			}
			break
		}
		if l, ok := a.(*ssa.UnOp); ok && l.Op == token.MUL {
			if al, ok := l.X.(*ssa.Alloc); ok && ssa.Value(al) == u.val {
				return true
			}
		}
		return a == u.val
	}
	var sorts []ssa.Instruction
	sortVal := map[ssa.Instruction]ssa.Value{}
	for _, u := range uses {
		if isSortOf(u) {
			sorts = append(sorts, u.in)
			sortVal[u.in] = u.val
		}
	}
	dominated := func(in ssa.Instruction, val ssa.Value) bool {
		for _, s := range sorts {
			if sortVal[s] != val {
				continue
			}
			if s == in {
				return true
			}
			if s.Block() == in.Block() {
				for _, x := range s.Block().Instrs {
					if x == s {
						return true
					}
					if x == in {
						break
					}
				}
				continue
			}
			if s.Block().Dominates(in.Block()) {
				return true
			}
		}
		return false
	}
	for _, u := range uses {
		if _, dbg := u.in.(*ssa.DebugRef); dbg {
			continue
		}
		if call, ok := u.in.(*ssa.Call); ok {
			if b, ok := call.Call.Value.(*ssa.Builtin); ok && (b.Name() == "len" || b.Name() == "cap") {
				continue
			}
		}
		// a wrapper conversion whose only use is the sort call (sort.Sort(byX(s)))
		if v, ok := u.in.(ssa.Value); ok {
			switch v.(type) {
			case *ssa.MakeInterface, *ssa.ChangeType, *ssa.Convert:
				all := v.Referrers() != nil && len(*v.Referrers()) > 0
				for _, rr := range *v.Referrers() {
					if c2, ok := rr.(*ssa.Call); !ok || !globAny(m.sorters, calleeName(&c2.Call)) {
						all = false
					} else {
						sorts = append(sorts, c2)
						sortVal[c2] = u.val
					}
				}
				if all {
					continue
				}
			}
		}
		if !dominated(u.in, u.val) {
			return fmt.Sprintf("the slice collected in visiting order is used at %s before any sort of it (%s)", m.p.InstrPos(u.in), instrBrief(u.in))
		}
	}
	if len(sorts) == 0 && len(uses) > 0 {
		return "the slice collected in visiting order is never sorted in this function"
	}
	return ""
}

func instrBrief(in ssa.Instruction) string {
	s := in.String()
	if len(s) > 80 {
		s = s[:80] + "…"
	}
	return s
}

// MapRanges is the shared rule: every map range in fns is either classified order-insensitive (held),
// or listed in the reasoned table (exception; the table names how many undecided ranges the function
// may have, default 1), or a violation. Stale table entries are undecided.
func (c *Ctx) MapRanges(rule string, fns []*ssa.Function, table map[string]string, counts map[string]int, extraSorters []string) {
	mo := newMapOrder(c.P, extraSorters)
	undec := map[string]int{}
	total := map[string]int{}
	firstPos := map[string]string{}
	firstWhy := map[string]string{}
	scanned := 0
	for _, fn := range fns {
		if fn == nil || fn.Blocks == nil {
			continue
		}
		scanned++
		name := funcShortName(fn)
		for _, b := range fn.Blocks {
			for _, in := range b.Instrs {
				r, ok := in.(*ssa.Range)
				if !ok {
					continue
				}
				if _, isMap := r.X.Type().Underlying().(*types.Map); !isMap {
					continue
				}
				total[name]++
				v := func() (v mapRangeVerdict) {
					defer func() {
						if e := recover(); e != nil {
							v = mapRangeVerdict{OK: false, Reason: fmt.Sprint("classifier could not read the loop: ", e), Pos: r.Pos()}
						}
					}()
					return mo.Classify(fn, r)
				}()
				construct := fmt.Sprintf("maprange:%s#%s", name, Path(r.X))
				if v.OK {
					c.add("maporder", rule, construct, Held, c.P.InstrPos(in), "order-insensitive: "+v.Reason)
					continue
				}
				undec[name]++
				if firstPos[name] == "" {
					firstPos[name] = c.P.InstrPos(in)
					firstWhy[name] = v.Reason + " (" + c.P.Pos(v.Pos) + ")"
				}
				if _, ok := table[name]; !ok {
					c.add("maporder", rule, construct, Violated, c.P.InstrPos(in),
						fmt.Sprintf("%s iterates over map %s and its outcome may depend on the random visiting order: %s", name, Path(r.X), firstWhy[name]))
				}
			}
		}
	}
	var names []string
	for n := range table {
		names = append(names, n)
	}
	sort.Strings(names)
	for _, n := range names {
		want := counts[n]
		if want == 0 {
			want = 1
		}
		switch {
		case total[n] == 0:
			c.add("maporder", rule, "maprange-table:"+n, Undecided, "", "table entry is stale: the function is not in scope any more or no longer ranges over a map")
		case undec[n] == 0:
			c.add("maporder", rule, "maprange-table:"+n, Held, firstPos[n], "every map range of the function is now classified order-insensitive by the analyser; reasoned entry kept: "+table[n])
		case undec[n] > want:
			c.add("maporder", rule, "maprange-table:"+n, Violated, firstPos[n], fmt.Sprintf("%d map range(s) of %s are not classified order-insensitive but the reasoned table covers %d: %s", undec[n], n, want, firstWhy[n]))
		default:
			c.add("maporder", rule, "maprange-table:"+n, Exception, firstPos[n], fmt.Sprintf("%d range(s) the classifier cannot decide (%s); reasoned order-insensitive: %s", undec[n], firstWhy[n], table[n]))
		}
	}
	c.add("maporder", rule, "maprange:scope", Held, "", fmt.Sprintf("%d function(s) scanned for map ranges; assumption of the per-element form: distinct keys hold distinct element objects", scanned))
}

// dumpMapRanges: debug listing of every map range of the loaded packages with the classifier's verdict.
func dumpMapRanges(p *Program, pat string) {
	mo := newMapOrder(p, nil)
	var fns []*ssa.Function
	for _, fn := range p.AllFuncs {
		if glob(pat, funcShortName(fn)) {
			fns = append(fns, fn)
		}
	}
	sort.Slice(fns, func(i, j int) bool { return funcShortName(fns[i]) < funcShortName(fns[j]) })
	ok, no := 0, 0
	for _, fn := range fns {
		for _, b := range fn.Blocks {
			for _, in := range b.Instrs {
				r, isR := in.(*ssa.Range)
				if !isR {
					continue
				}
				if _, isMap := r.X.Type().Underlying().(*types.Map); !isMap {
					continue
				}
				v := mo.Classify(fn, r)
				if v.OK {
					ok++
				} else {
					no++
				}
				fmt.Printf("%v %s @%s range %s\n     %s (%s)\n", v.OK, funcShortName(fn), p.InstrPos(in), Path(r.X), v.Reason, p.Pos(v.Pos))
			}
		}
	}
	fmt.Printf("classified order-insensitive: %d, undecided: %d\n", ok, no)
}
