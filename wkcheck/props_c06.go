package main

import (
	"fmt"
	"go/types"
	"strings"

	"golang.org/x/tools/go/ssa"
)

func init() {
	register(&PropSpec{
		ID:        "C06",
		Pkgs:      []string{"./pkg/channel", "./pkg/channel/machine", "./pkg/channel/reactor"},
		Technique: "static analysis: per-store watermark update classification (max / guarded raise / cap-at-LEO / enumerated install site) + SSA edge-dominance guards on reply, fence, metadata and ack paths + SSA value-identity reply/delete/lookup keying",
		Explain: "Decides the structural clauses behind the channel state machine invariants: (1) every store to ChannelState.HW/LEO/CheckpointHW in the loaded packages is max(F,e), a store of e behind e > F, the initialisation of a state fresh from NewChannelState, or one of the enumerated follower/install sites whose value shape is frozen (HW = min(own LEO, leader HW); quorum install behind Installed.HW <= Installed.LEO), so a new unclassified writer is reported; AdvanceHW stores the MinISR-th highest ISR match only when it is strictly above HW. " +
			"(2) completeAppendWaiters builds a success reply only for a present waiter with Target != 0 and, in quorum mode, HW >= Target; ApplyAppendStored/ApplyQuorumCommitted touch state only behind matchesInflightFence, which is true only if all five fence fields and the in-flight op match. " +
			"(3) every Reply construction is keyed by the same SSA value that is deleted from PendingAppends on every path and whose presence was tested (at-most-once reply). (4) ValidateMeta succeeds only behind the epoch / leader-epoch / same-fence-leader / MinISR comparisons and ApplyMeta mutates only behind it. (5) every reactor call of ApplyFollowerAck passes an offset proved <= the channel's LEO on a dominating branch. " +
			"NOT decided: the invariants as values over arbitrary event sequences (CheckpointHW <= HW after a follower HW regression or a quorum install is not proved), that the offsets/targets compared are the semantically right ones beyond their operand shape, reply delivery in the reactor, concurrency (single-writer reactor is assumed).",
		Assume: []string{"package-level Err* sentinel error variables are never nil (used to split the error-variable phi in handleQuorumInstallResult)", "each ChannelState is mutated by one reactor goroutine only"},
		Run:    c06,
		// further breaking edits confirmed "fired" while authoring and then removed to keep the self-test short:
		// sort ascending / range over Replicas in AdvanceHW, s.HW = res.HW, s.LEO = res.LastOffset, maxUint64 turned into min,
		// s.HW+1 < Target, dropped Target == 0 test, fence without OpID, state store before ValidateMeta, ack bound on HW, older epoch accepted.
		Mutants: []Mutant{
			{Name: "advancehw-nonstrict-regress", File: "pkg/channel/machine/progress.go", Old: "if next <= s.HW {\n\t\treturn false\n\t}", New: "if next == s.HW {\n\t\treturn false\n\t}", Expect: "C06/R1-watermark/*"},
			{Name: "advancehw-wrong-rank", File: "pkg/channel/machine/progress.go", Old: "next := matches[s.MinISR-1]", New: "next := matches[0]", Expect: "C06/R1-advance/*"},
			{Name: "quorum-commit-hw-unchecked", File: "pkg/channel/machine/append.go", Old: " || res.HW != res.Last {", New: " {", Expect: "C06/R1-quorum-range/*"},
			{Name: "follower-hw-uncapped", File: "pkg/channel/reactor/follower_replication.go", Old: "\t\trc.state.HW = minUint64(rc.state.LEO, resp.LeaderHW)\n", New: "\t\trc.state.HW = resp.LeaderHW\n", Expect: "C06/R1-watermark/*"},
			{Name: "install-hw-above-leo", File: "pkg/channel/reactor/quorum_runtime.go", Old: " ||\n\t\t\tresult.QuorumInstall.Installed.HW > result.QuorumInstall.Installed.LEO {", New: " {", Expect: "C06/R1-install/*"},
			{Name: "quorum-waiter-early-reply", File: "pkg/channel/machine/append.go", Old: "if waiter.CommitMode == ch.CommitModeQuorum && s.HW < waiter.Target {\n\t\t\tcontinue\n\t\t}", New: "if waiter.CommitMode == ch.CommitModeQuorum && s.HW == 0 {\n\t\t\tcontinue\n\t\t}", Expect: "C06/R2-quorum/*"},
			{Name: "waiter-target-first-record", File: "pkg/channel/machine/append.go", Old: "waiter.Target = waiter.Records[len(waiter.Records)-1].Index", New: "waiter.Target = waiter.Records[0].Index", Expect: "C06/R2-target/*"},
			{Name: "fence-skip-leader-epoch", File: "pkg/channel/machine/append.go", Old: "fence.Epoch == s.Epoch && fence.LeaderEpoch == s.LeaderEpoch && s.InflightAppend != nil", New: "fence.Epoch == s.Epoch && s.InflightAppend != nil", Expect: "C06/R2-fence/*"},
			{Name: "stored-error-before-fence", File: "pkg/channel/machine/append.go", Old: "func (s *ChannelState) ApplyAppendStored(res AppendStoredResult) Decision {\n\tif !s.matchesInflightFence(res.Fence) {\n\t\treturn Decision{}\n\t}\n\tif res.Err != nil {\n\t\treturn s.failInflightAppend(res.Err)\n\t}", New: "func (s *ChannelState) ApplyAppendStored(res AppendStoredResult) Decision {\n\tif res.Err != nil {\n\t\treturn s.failInflightAppend(res.Err)\n\t}\n\tif !s.matchesInflightFence(res.Fence) {\n\t\treturn Decision{}\n\t}", Expect: "C06/R2-fence/*"},
			{Name: "reply-without-delete", File: "pkg/channel/machine/append.go", Old: "\t\treplies = append(replies, reply)\n\t\tdelete(s.PendingAppends, opID)\n", New: "\t\treplies = append(replies, reply)\n", Expect: "C06/R3-once/*"},
			{Name: "fail-reply-canceled-waiter", File: "pkg/channel/machine/append.go", Old: "\t\tif _, ok := s.PendingAppends[opID]; !ok {\n\t\t\tcontinue\n\t\t}\n\t\tdelete(s.PendingAppends, opID)\n\t\tcompleted", New: "\t\tdelete(s.PendingAppends, opID)\n\t\tcompleted", Expect: "C06/R3-once/*"},
			{Name: "meta-same-epoch-leader-switch", File: "pkg/channel/machine/meta.go", Old: "if meta.Epoch == s.Epoch && meta.LeaderEpoch == s.LeaderEpoch && meta.Leader != s.Leader {\n\t\treturn ch.ErrStaleMeta\n\t}", New: "", Expect: "C06/R4-meta/*"},
			{Name: "pull-ack-beyond-leo", File: "pkg/channel/reactor/leader_replication.go", Old: "\tif req.AckOffset > rc.state.LEO {\n\t\treturn leaderPullAckObservation{}, ch.ErrStaleMeta\n\t}\n", New: "", Expect: "C06/R5-ack/*"},
			{Name: "stopped-ack-offset-unchecked", File: "pkg/channel/reactor/leader_replication.go", Old: "if event.Ack.ActivityVersion != rc.lifecycle.version || event.Ack.MatchOffset != rc.state.LEO {", New: "if event.Ack.ActivityVersion != rc.lifecycle.version {", Expect: "C06/R5-ack/*"},
			{Name: "follower-match-regress", File: "pkg/channel/machine/append.go", Old: "\tif ack.MatchOffset > progress.Match {\n\t\tprogress.Match = ack.MatchOffset\n\t\ts.Progress[ack.Follower] = progress\n\t}", New: "\tprogress.Match = ack.MatchOffset\n\ts.Progress[ack.Follower] = progress", Expect: "C06/R1-match/*"},
		},
	})
}

const (
	c06M  = "pkg/channel/machine."
	c06CS = c06M + "ChannelState."
	c06R  = "pkg/channel/reactor."
)

func c06(c *Ctx) {
	// ------------------------------------------------------------------ R1
	// helpers are what their names say
	if f := c.Fn(c06M + "maxUint64"); f != nil {
		c.Guard("R1-helpers", f, Ret{0, "left"}, "left >= right")
		c.Guard("R1-helpers", f, Ret{0, "right"}, "right >= left")
	}
	if f := c.Fn(c06R + "minUint64"); f != nil {
		c.Guard("R1-helpers", f, Ret{0, "left"}, "left <= right")
		c.Guard("R1-helpers", f, Ret{0, "right"}, "right <= left")
	}
	maxFns := []string{c06M + "maxUint64"}
	followerHW := "follower adopts the leader's HW capped at its own LEO (HW <= LEO kept; may follow a new leader's lower HW)"
	c06Watermarks(c, "R1-watermark", c06CS+"HW", maxFns, []c06Site{
		{c06R + "Reactor.applyFollowerPullResponse", "cap:LEO", followerHW},
		{c06R + "Reactor.handleFollowerStopControl", "cap:LEO", followerHW},
		{c06R + "Reactor.handleStoreApplyResult", "cap:LEO", followerHW},
		{c06R + "Reactor.handleQuorumInstallResult", "*.HW", "fenced quorum install adopts the authority's installed HW (R1-install proves it is <= the installed LEO)"},
	})
	c06Watermarks(c, "R1-watermark", c06CS+"LEO", maxFns, []c06Site{
		{c06R + "Reactor.handleStoreApplyResult", "*.StoreApply.LEO", "fenced follower apply result: the store's log end after the durable apply (truncation on divergence is legitimate)"},
		{c06R + "Reactor.handleQuorumInstallResult", "*.LEO", "fenced quorum install adopts the authority's installed LEO"},
	})
	c06Watermarks(c, "R1-watermark", c06CS+"CheckpointHW", maxFns, nil)
	c.Min("R1-watermark", 24)

	if f := c.Fn(c06R + "Reactor.handleQuorumInstallResult"); f != nil {
		eff := OneOf{StoreTo{Addr: "*.state.HW"}, StoreTo{Addr: "*.state.LEO"}}
		c.Guard("R1-install", f, eff,
			"*.Fence.Epoch == *.state.Epoch", "*.Fence.LeaderEpoch == *.state.LeaderEpoch", "*.Fence.Generation == *.state.Generation")
		// the validation records its verdict in an error variable that is tested afterwards:
		// decided with the nil-ness of the phi's incoming values
		c06GuardErrPhi(c, "R1-install", f, eff, "*.Installed.HW <= *.Installed.LEO")
	}

	// AdvanceHW: MinISR-th highest ISR match, strictly above HW (the strictness is the guarded-raise form of R1-watermark)
	if f := c.Fn(c06CS + "AdvanceHW"); f != nil {
		c.StoreShape("R1-advance", f, "s.HW", "*[(s.MinISR - 1)]")
		c.Guard("R1-advance", f, StoreTo{Addr: "s.HW"}, "s.MinISR > 0", "len(s.ISR) >= s.MinISR", "after: sort.Slice")
		// the candidates are exactly the ISR members' match offsets
		c.StoreShape("R1-advance", f, "varargs[0]", "s.Progress[s.ISR[*]].Match")
	}
	c06RetShape(c, "R1-advance", c.Fn(c06CS+"AdvanceHW$1"), 0, "(*[i] > *[j])", "(*[j] < *[i])")

	// follower match offsets only move up (AdvanceHW is then monotone in its inputs)
	c.Mono("R1-match", c06M+"ReplicaProgress.Match", MonoOpts{MaxFuncs: maxFns, LiteralsToo: true,
		ValueOK: []string{"*.LEO"}}) // the local replica's own match is its log end (monotone by R1-watermark)
	if f := c.Fn(c06CS + "ApplyFollowerAck"); f != nil {
		c.Guard("R1-match", f, OneOf{StoreTo{Addr: "s.Progress[*]"}, CallTo{c06CS + "AdvanceHW"}}, "s.Role == "+c06Const(c, "pkg/channel", "RoleLeader"), c06CS+"IsReplica(s, ack.Follower) == true")
	}

	// ApplyQuorumCommitted: HW/LEO move only for an exact, non-empty range with HW == Last (so HW <= LEO is kept)
	if f := c.Fn(c06CS + "ApplyQuorumCommitted"); f != nil {
		c.Guard("R1-quorum-range", f, OneOf{StoreTo{Addr: "s.HW"}, StoreTo{Addr: "s.LEO"}},
			"res.HW == res.Last", "res.Last >= res.First", "res.First != 0", "res.Err == nil",
			"((res.Last - res.First) + 1) == len(s.InflightAppend.Records)")
		c.StoreShape("R1-quorum-range", f, "s.LEO", c06M+"maxUint64(s.LEO, res.Last)")
		c.StoreShape("R1-quorum-range", f, "s.HW", c06M+"maxUint64(s.HW, res.HW)")
	}
	if f := c.Fn(c06CS + "CheckInvariants"); f != nil {
		c.Guard("R1-invariant", f, RetNil{}, "s.CheckpointHW <= s.HW", "s.HW <= s.LEO")
	}

	// ------------------------------------------------------------------ R2
	quorum := c06Const(c, "pkg/channel", "CommitModeQuorum")
	if f := c.Fn(c06CS + "completeAppendWaiters"); f != nil {
		reply := OneOf{StoreTo{Addr: "*Reply.Kind"}, CallTo{"delete(s.PendingAppends, *)"}}
		c.Guard("R2-quorum", f, reply,
			"s.PendingAppends[*] != nil",
			"s.PendingAppends[*].Target != 0",
			"s.PendingAppends[*].CommitMode != "+quorum+" || s.HW >= s.PendingAppends[*].Target")
	}
	if f := c.Fn(c06CS + "assignInflightRecordsToWaiters"); f != nil {
		c.StoreShape("R2-target", f, "*.Target", "*.Records[(len(*.Records) - 1)].Index")
	}
	if f := c.Fn(c06CS + "ProposeAppendBatch"); f != nil {
		// an unspecified commit mode is the quorum mode
		c.StoreShape("R2-target", f, "*AppendWaiter.CommitMode", "phi(*|"+quorum+")", "phi("+quorum+"|*)")
	}
	fence := c.Fn(c06CS + "matchesInflightFence")
	c.GuardTrue("R2-fence", fence, 0,
		"fence.ChannelKey == s.Key", "fence.Generation == s.Generation", "fence.Epoch == s.Epoch",
		"fence.LeaderEpoch == s.LeaderEpoch", "s.InflightAppend != nil", "s.InflightAppend.OpID == fence.OpID")
	if fence != nil {
		c.Cover("R2-fence", []*ssa.Function{fence}, "pkg/channel.Fence", nil)
	}
	for _, name := range []string{"ApplyAppendStored", "ApplyQuorumCommitted"} {
		if f := c.Fn(c06CS + name); f != nil {
			c.Guard("R2-fence", f, c06Mutation(f, c06CS+"matchesInflightFence"), c06CS+"matchesInflightFence(s, res.Fence) == true")
		}
	}

	// ------------------------------------------------------------------ R3
	c06ReplyOnce(c, "R3-once")
	c.Min("R3-once", 2)

	// ------------------------------------------------------------------ R4
	if f := c.Fn(c06CS + "ValidateMeta"); f != nil {
		c.Guard("R4-meta", f, RetNil{},
			"meta.Epoch >= s.Epoch",
			"meta.Epoch != s.Epoch || meta.LeaderEpoch >= s.LeaderEpoch",
			"meta.Epoch != s.Epoch || meta.LeaderEpoch != s.LeaderEpoch || meta.Leader == s.Leader",
			"meta.Key == \"\" || meta.Key == s.Key",
			"s.ID == zero:ChannelID || meta.ID == s.ID",
			"meta.MinISR > 0", "meta.MinISR <= len(meta.ISR)")
	}
	if f := c.Fn(c06CS + "ApplyMeta"); f != nil {
		c.Guard("R4-meta", f, c06Mutation(f, c06CS+"ValidateMeta"), c06CS+"ValidateMeta(s, meta) == nil")
	}

	// ------------------------------------------------------------------ R5
	c06AckBound(c, "R5-ack")
	c.Min("R5-ack", 3)
}

type c06Site struct {
	fn, val, reason string
}

// c06Watermarks classifies every store to a watermark field.
func c06Watermarks(c *Ctx, rule, field string, maxFns []string, sites []c06Site) {
	fv := c.Field(field)
	if fv == nil {
		return
	}
	n := 0
	for _, s := range c.fieldStores(fv) {
		if s.literal {
			continue
		}
		n++
		name := c.P.Name(s.fn)
		c.FuncsAnalysed[name] = true
		vs := Path(s.val)
		construct := fmt.Sprintf("%s@%s#%s", field, name, vs)
		pos := c.P.InstrPos(s.in)
		fa := s.addr.(*ssa.FieldAddr)
		if call, ok := fa.X.(*ssa.Call); ok && calleeName(&call.Call) == c06M+"NewChannelState" {
			c.add("mono", rule, construct, Held, pos, "initialisation of a state fresh from NewChannelState (not yet published)")
			continue
		}
		if why, ok := c.monotoneStore(s, MonoOpts{MaxFuncs: maxFns}); ok {
			c.add("mono", rule, construct, Held, pos, why)
			continue
		}
		done := false
		for _, st := range sites {
			if !glob(st.fn, name) {
				continue
			}
			if st.val == "cap:LEO" {
				if c06CappedAtLEO(fa, s.val) {
					c.add("mono", rule, construct, Exception, pos, "enumerated site, value min(<same state>.LEO, ·): "+st.reason)
					done = true
				}
			} else if glob(st.val, vs) {
				c.add("mono", rule, construct, Exception, pos, "enumerated site: "+st.reason)
				done = true
			}
			if done {
				break
			}
		}
		if !done {
			c.add("mono", rule, construct, Violated, pos,
				fmt.Sprintf("store %s = %s in %s is not max(F,e), not behind e > F, not a fresh-state initialisation and not an enumerated site/value shape", Path(s.addr), vs, name))
		}
	}
	if n == 0 {
		c.add("mono", rule, "stores:"+field, Undecided, "", "no store to the field found (vacuous)")
	}
}

// c06CappedAtLEO: val is reactor.minUint64(X.LEO, e) (either order) where X is the object whose field is stored.
func c06CappedAtLEO(fa *ssa.FieldAddr, val ssa.Value) bool {
	call, ok := val.(*ssa.Call)
	if !ok {
		return false
	}
	if n := calleeName(&call.Call); n != c06R+"minUint64" && n != "min" {
		return false
	}
	want := Path(fa.X) + ".LEO"
	for _, a := range call.Call.Args {
		if Path(a) == want {
			return true
		}
	}
	return false
}

// c06RetShape: every return of fn has result idx rendering to one of shapes.
func c06RetShape(c *Ctx, rule string, fn *ssa.Function, idx int, shapes ...string) {
	if fn == nil {
		return
	}
	fname := c.P.Name(fn)
	c.FuncsAnalysed[fname] = true
	construct := fmt.Sprintf("%s#retshape[%d]", fname, idx)
	n := 0
	for _, in := range instrsMatching(fn, AnyRet{}) {
		ret := in.(*ssa.Return)
		if idx >= len(ret.Results) {
			continue
		}
		n++
		if v := Path(retOperand(ret, idx)); !globAny(shapes, v) {
			c.add("shape", rule, construct, Violated, c.P.InstrPos(in), fmt.Sprintf("%s returns %s, expected one of %v", fname, v, shapes))
			return
		}
	}
	if n == 0 {
		c.add("shape", rule, construct, Undecided, c.P.Pos(fn.Pos()), "no return found (vacuous)")
		return
	}
	c.add("shape", rule, construct, Held, c.P.Pos(fn.Pos()), fmt.Sprintf("%d return(s), all of shape %v", n, shapes))
}

// c06Const renders a package-level constant of a loaded package the way Path renders it.
func c06Const(c *Ctx, pkg, name string) string {
	if pk := c.P.Pkgs[pkg]; pk != nil {
		if k, ok := pk.Types.Scope().Lookup(name).(*types.Const); ok {
			return k.Val().ExactString()
		}
	}
	c.add("anchor", "anchor", pkg+"."+name, Undecided, "", "anchored constant not found")
	return "<missing:" + name + ">"
}

// c06RootIsRecv: the address is a field/element path rooted at fn's receiver.
func c06RootIsRecv(fn *ssa.Function, v ssa.Value) bool {
	if len(fn.Params) == 0 {
		return false
	}
	for {
		switch x := v.(type) {
		case *ssa.FieldAddr:
			v = x.X
		case *ssa.IndexAddr:
			v = x.X
		case *ssa.UnOp:
			v = x.X
		case *ssa.Parameter:
			return x == fn.Params[0]
		default:
			return false
		}
	}
}

// c06Mutation: any store / map update / delete on state rooted at the receiver, and any call of
// a machine function other than the guard itself.
func c06Mutation(fn *ssa.Function, guardCallee string) Effect {
	return InstrFn{Name: "state mutation or transition call", F: func(in ssa.Instruction) bool {
		switch x := in.(type) {
		case *ssa.Store:
			return c06RootIsRecv(fn, x.Addr)
		case *ssa.MapUpdate:
			return c06RootIsRecv(fn, x.Map)
		case ssa.CallInstruction:
			n := calleeName(x.Common())
			if n == guardCallee {
				return false
			}
			if n == "delete" {
				return c06RootIsRecv(fn, x.Common().Args[0])
			}
			return strings.HasPrefix(n, c06M)
		}
		return false
	}}
}

// c06ReplyOnce: every construction of a machine.Reply (store to Reply.Kind of a fresh literal) is
// keyed by an SSA value V (the literal's OpID) such that (a) delete(PendingAppends, V) dominates
// the construction or lies on every path from it to a return, and (b) the construction is
// reachable only through the presence edge of a lookup PendingAppends[V].
func c06ReplyOnce(c *Ctx, rule string) {
	kind := c.Field(c06M + "Reply.Kind")
	if kind == nil {
		return
	}
	for _, s := range c.fieldStores(kind) {
		fname := c.P.Name(s.fn)
		c.FuncsAnalysed[fname] = true
		pos := c.P.InstrPos(s.in)
		construct := fname + "#reply"
		fa := s.addr.(*ssa.FieldAddr)
		var key ssa.Value
		if refs := fa.X.Referrers(); refs != nil {
			for _, r := range *refs {
				if f2, ok := r.(*ssa.FieldAddr); ok && fieldName(f2.X.Type(), f2.Field) == "OpID" {
					for _, r2 := range *f2.Referrers() {
						if st, ok := r2.(*ssa.Store); ok && st.Addr == ssa.Value(f2) {
							key = stripConv(st.Val)
						}
					}
				}
			}
		}
		if key == nil {
			c.add("order", rule, construct, Violated, pos, "Reply constructed without an OpID taken from a value (cannot be tied to a pending waiter)")
			continue
		}
		isPending := func(m ssa.Value) bool { return strings.HasSuffix(Path(m), ".PendingAppends") }
		del := InstrFn{Name: "delete(PendingAppends, key)", F: func(in ssa.Instruction) bool {
			call, ok := in.(*ssa.Call)
			if !ok || calleeName(&call.Call) != "delete" || len(call.Call.Args) != 2 {
				return false
			}
			return isPending(call.Call.Args[0]) && stripConv(call.Call.Args[1]) == key
		}}
		dels := instrsMatching(s.fn, del)
		deleted := false
		for _, d := range dels {
			db, sb := d.Block(), s.in.Block()
			if (db == sb && indexIn(db, d) < indexIn(sb, s.in)) || (db != sb && db.Dominates(sb)) {
				deleted = true
			}
		}
		if !deleted && len(dels) > 0 && !c.escapesWithout(s.fn, s.in, del) {
			deleted = true
		}
		if !deleted {
			c.add("order", rule, construct+":delete", Violated, pos, fmt.Sprintf("in %s a Reply for %s is built but delete(PendingAppends, same key) neither dominates it nor lies on every path to a return: the waiter can be answered again", fname, Path(key)))
		} else {
			c.add("order", rule, construct+":delete", Held, pos, "the replied OpID is removed from PendingAppends on every path (same SSA key)")
		}
		// presence test on the same key
		var atoms []AtomSpec
		for _, b := range s.fn.Blocks {
			for _, in := range b.Instrs {
				lk, ok := in.(*ssa.Lookup)
				if !ok || !isPending(lk.X) || stripConv(lk.Index) != key {
					continue
				}
				if lk.CommaOk {
					atoms = append(atoms, AtomSpec{L: Path(lk) + "#1", Op: "==", R: "true"})
				} else {
					atoms = append(atoms, AtomSpec{L: Path(lk), Op: "!=", R: "nil"})
				}
			}
		}
		ok := false
		if len(atoms) > 0 {
			removed, _ := guardEdges(s.fn, guardSpec{atoms: atoms})
			c.EdgesRemoved += len(removed)
			limit := reachUnguarded(s.fn, removed, nil)
			b := s.in.Block()
			if lim, reach := limit[b]; !reach || indexIn(b, s.in) >= lim {
				ok = true
			}
		}
		if ok {
			c.add("guard", rule, construct+":present", Held, pos, "Reply construction reachable only through the presence edge of PendingAppends[same key]")
		} else {
			c.add("guard", rule, construct+":present", Violated, pos, fmt.Sprintf("in %s a Reply for %s can be built without a dominating presence test of PendingAppends[same key] (a cancelled or already answered waiter would be answered)", fname, Path(key)))
		}
	}
}

// c06AckBound: every call of ChannelState.ApplyFollowerAck outside the machine package passes a
// FollowerAck whose MatchOffset value V is proved V <= <receiver>.LEO on a dominating edge.
func c06AckBound(c *Ctx, rule string) {
	for _, cs := range c.callSites(c06CS + "ApplyFollowerAck") {
		fname := c.P.Name(cs.fn)
		if strings.HasPrefix(fname, c06M) {
			continue
		}
		c.FuncsAnalysed[fname] = true
		c.CallSites++
		in := cs.in.(ssa.Instruction)
		pos := c.P.InstrPos(in)
		construct := fname + "#ApplyFollowerAck"
		args := cs.in.Common().Args
		if len(args) != 2 {
			c.add("guard", rule, construct, Undecided, pos, "unexpected call shape")
			continue
		}
		recv := Path(args[0])
		var off ssa.Value
		if ld, ok := args[1].(*ssa.UnOp); ok {
			if a, ok := ld.X.(*ssa.Alloc); ok && a.Referrers() != nil {
				for _, r := range *a.Referrers() {
					if f2, ok := r.(*ssa.FieldAddr); ok && fieldName(f2.X.Type(), f2.Field) == "MatchOffset" {
						for _, r2 := range *f2.Referrers() {
							if st, ok := r2.(*ssa.Store); ok && st.Addr == ssa.Value(f2) {
								off = st.Val
							}
						}
					}
				}
			}
		}
		if off == nil {
			c.add("guard", rule, construct, Undecided, pos, "cannot find the MatchOffset operand of the FollowerAck literal (pass a literal built at the call site)")
			continue
		}
		g := guardSpec{atoms: []AtomSpec{{L: Path(off), Op: "<=", R: recv + ".LEO"}}}
		removed, descr := guardEdges(cs.fn, g)
		c.EdgesRemoved += len(removed)
		limit := reachUnguarded(cs.fn, removed, nil)
		b := in.Block()
		if lim, reach := limit[b]; !reach || indexIn(b, in) >= lim {
			c.add("guard", rule, construct, Held, pos, fmt.Sprintf("ack offset %s reaches the machine only behind [%s]", Path(off), strings.Join(dedup(descr), "; ")))
		} else {
			c.add("guard", rule, construct, Violated, pos, fmt.Sprintf("%s passes ack offset %s to ApplyFollowerAck without a dominating %s <= %s.LEO: a follower could push HW above the leader's log end", fname, Path(off), Path(off), recv))
		}
	}
}

// c06NilOnEdge reports what the edge pred→b proves about the nil-ness of v:
// +1 definitely non-nil, -1 definitely nil, 0 unknown.
// Non-nil: a load of a package-level Err* sentinel variable (assumed never nil), or pred ends in
// `if v ==/!= nil` on this very SSA value and b is the non-nil side.
func c06NilOnEdge(pred, b *ssa.BasicBlock, v ssa.Value) int {
	if k, ok := v.(*ssa.Const); ok && k.Value == nil {
		return -1
	}
	if u, ok := v.(*ssa.UnOp); ok {
		if g, ok := u.X.(*ssa.Global); ok && strings.HasPrefix(g.Name(), "Err") {
			return +1
		}
	}
	if len(pred.Instrs) == 0 {
		return 0
	}
	iff, ok := pred.Instrs[len(pred.Instrs)-1].(*ssa.If)
	if !ok {
		return 0
	}
	bo, ok := iff.Cond.(*ssa.BinOp)
	if !ok || bo.X != v {
		return 0
	}
	if k, ok := bo.Y.(*ssa.Const); !ok || k.Value != nil {
		return 0
	}
	if pred.Succs[0] == pred.Succs[1] {
		return 0
	}
	onTrue := pred.Succs[0] == b
	switch bo.Op.String() {
	case "==":
		if onTrue {
			return -1
		}
		return +1
	case "!=":
		if onTrue {
			return +1
		}
		return -1
	}
	return 0
}

// c06GuardErrPhi is Guard for the idiom
//
//	err := x.Err; if err == nil { if bad(...) { err = ErrSentinel } }; if err != nil { return }
//
// Reachability is computed over (predecessor, block) pairs; at an `if phi ==/!= nil` whose phi
// lives in the same block, the successor contradicted by the incoming value's nil-ness is pruned.
func c06GuardErrPhi(c *Ctx, rule string, fn *ssa.Function, eff Effect, guards ...string) {
	fname := c.P.Name(fn)
	effs := instrsMatching(fn, eff)
	if len(effs) == 0 {
		c.add("guard", rule, fname+"#"+eff.String(), Undecided, c.P.Pos(fn.Pos()), "no instruction matches the effect (vacuous)")
		return
	}
	for _, gs := range guards {
		g := parseGuard(gs)
		removed, descr := guardEdges(fn, g)
		c.EdgesRemoved += len(removed)
		type st struct{ pred, b *ssa.BasicBlock }
		seen := map[st]bool{}
		reach := map[*ssa.BasicBlock]bool{}
		work := []st{{nil, fn.Blocks[0]}}
		seen[work[0]] = true
		for len(work) > 0 {
			cur := work[len(work)-1]
			work = work[:len(work)-1]
			b := cur.b
			reach[b] = true
			feasible := []bool{true, true}
			if iff, ok := b.Instrs[len(b.Instrs)-1].(*ssa.If); ok && cur.pred != nil {
				if bo, ok := iff.Cond.(*ssa.BinOp); ok {
					if phi, ok := bo.X.(*ssa.Phi); ok && phi.Block() == b {
						if k, ok := bo.Y.(*ssa.Const); ok && k.Value == nil && (bo.Op.String() == "==" || bo.Op.String() == "!=") {
							for i, p := range b.Preds {
								if p != cur.pred {
									continue
								}
								n := c06NilOnEdge(p, b, phi.Edges[i])
								isNilSucc := 0 // index of the successor taken when the phi is nil
								if bo.Op.String() == "!=" {
									isNilSucc = 1
								}
								if n > 0 {
									feasible[isNilSucc] = false
								} else if n < 0 {
									feasible[1-isNilSucc] = false
								}
							}
						}
					}
				}
			}
			for si, s := range b.Succs {
				if removed[edge{b, si}] || (si < 2 && !feasible[si]) {
					continue
				}
				n := st{b, s}
				if !seen[n] {
					seen[n] = true
					work = append(work, n)
				}
			}
		}
		var bad []string
		for _, e := range effs {
			if reach[e.Block()] {
				bad = append(bad, c.P.InstrPos(e))
			}
		}
		construct := fname + "#" + eff.String() + "⇐" + gs
		if len(bad) == 0 {
			c.add("guard", rule, construct, Held, c.P.InstrPos(effs[0]), fmt.Sprintf("%d effect site(s); %d guard edge(s) removed [%s]; with the error-variable phi split by nil-ness no unguarded path from entry", len(effs), len(removed), strings.Join(dedup(descr), "; ")))
		} else {
			c.add("guard", rule, construct, Violated, bad[0], fmt.Sprintf("effect %q in %s reachable without guard %q at %s", eff.String(), fname, gs, strings.Join(bad, ", ")))
		}
	}
}
