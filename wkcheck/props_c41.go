package main

import (
	"fmt"

	"golang.org/x/tools/go/ssa"
)

func init() {
	const ca = "internal/runtime/channelappend/"
	register(&PropSpec{
		ID:        "C41",
		Pkgs:      []string{"./internal/runtime/channelappend", "./internal/runtime/delivery", "./pkg/gateway/core"},
		Technique: "static analysis: lock-set + same-critical-section admission fence, must-pass-through ordering of the background stop drain, depends-only slice of the caller's ctx, path-sensitive typestate pairing of the admission slot with the future's release hook, atomic-operation and call confinement",
		Explain: "Decides the structural clauses of 'stop never drops accepted sends' for the channel-append Group. (1) Group.started/paused/stopping/stopped are only touched under g.mu; SubmitLocal tests the four flags and takes the shard admission slot in one RLock section; stopping/stopped are only ever stored true (in Stop / finishStop, under the write lock) and Start refuses a stopping group. " +
			"(2) finishStop calls drainWriters(context.Background()) first; the retry scheduler, the advance scheduler, every worker pool stop and runtimeCancel come after it, runtimeCancel after all pool stops, stopped=true after runtimeCancel and close(stopDone) last; runtimeCancel, pool stop and close(stopDone) occur nowhere else; finishStop is started once through stopOnce after stopping was raised. " +
			"(3) Stop's ctx is only nil-tested and used for Done/Err in the final select, so an expired caller deadline reaches neither drainWriters nor the pools nor runtimeCancel; Stop reports nil only on <-stopDone (or already stopped); drainWriters reports idle only behind writersIdle, which requires every shard's admissionUsed to be zero. " +
			"(4) Every admitted path of SubmitLocal installs shard.releaseAdmission of the same shard on the future before enqueue and returns that future; admissionUsed changes only by CAS(+1) in tryAcquireAdmission and Add(-1) in releaseAdmission; the future runs its onDone hook only from the once-guarded completion or from setOnDone when already closed, with the hand-over decided under f.mu. " +
			"(5) The gateway send executor's fence/drain rules (C28 R1-R3) and the delivery runtime's accept gate (state test and admissionSenders.Add in one r.mu section, deferred Done, stopReady closed only after admissionSenders.Wait) hold. " +
			"NOT decided: that every admitted send does reach a terminal result (liveness of writers, retries and pools), drainWriters' polling fairness, and the delivery runtime's deliberate runCancel after a failed graceful Stop (delivery work, not send results).",
		Run: c41,
		Mutants: []Mutant{
			{Name: "submit-acquire-after-unlock", File: ca + "group.go", Old: "\tshard := g.shardForTarget(target)\n\tif !shard.tryAcquireAdmission() {\n\t\tg.mu.RUnlock()\n", New: "\tshard := g.shardForTarget(target)\n\tg.mu.RUnlock()\n\tg.mu.RLock()\n\tif !shard.tryAcquireAdmission() {\n\t\tg.mu.RUnlock()\n", Expect: "C41/R2-admit*"},
			{Name: "submit-ignores-stopping", File: ca + "group.go", Old: "\tif !g.started || g.paused || g.stopping || g.stopped {\n\t\tg.mu.RUnlock()\n\t\treturn nil, ErrRouteNotReady", New: "\tif !g.started || g.paused || g.stopped {\n\t\tg.mu.RUnlock()\n\t\treturn nil, ErrRouteNotReady", Expect: "C41/R2-admit*"},
			{Name: "stop-flag-unlocked", File: ca + "group.go", Old: "\tg.stopping = true\n\tg.mu.Unlock()\n\tg.stopOnce.Do", New: "\tg.mu.Unlock()\n\tg.stopping = true\n\tg.stopOnce.Do", Expect: "C41/R1-lock*"},
			{Name: "stop-deadline-cancels-runtime", File: ca + "group.go", Old: "\tcase <-ctx.Done():\n\t\treturn ctx.Err()\n\t}\n}\n\n// finishStop owns", New: "\tcase <-ctx.Done():\n\t\tg.runtimeCancel()\n\t\treturn ctx.Err()\n\t}\n}\n\n// finishStop owns", Expect: "C41/R3-order*"},
			{Name: "stop-ctx-into-drain", File: ca + "group.go", Old: "\tg.stopOnce.Do(func() {\n\t\tgoruntimeregistry.SafeGo(nil, goruntimeregistry.TaskChannelAppendStopDrain, g.finishStop)\n\t})", New: "\tg.stopOnce.Do(func() {\n\t\tgoruntimeregistry.SafeGo(nil, goruntimeregistry.TaskChannelAppendStopDrain, func() {\n\t\t\t_ = g.drainWriters(ctx)\n\t\t\tg.finishStop()\n\t\t})\n\t})", Expect: "C41/R4-ctx*"},
			{Name: "finish-cancel-before-drain", File: ca + "group.go", Old: "\tbackground := context.Background()\n\t_ = g.drainWriters(background)\n", New: "\tbackground := context.Background()\n\tg.runtimeCancel()\n\t_ = g.drainWriters(background)\n", Expect: "C41/R3-order*"},
			{Name: "finish-pool-stop-before-drain", File: ca + "group.go", Old: "\t_ = g.drainWriters(background)\n\t_ = g.postCommitRetries.stopAndWait(background)\n\tg.advanceScheduler.stop()\n\t_ = g.metrics.stopPressurePublisher(background)\n\t_ = g.advancePool.stop(background)\n", New: "\t_ = g.advancePool.stop(background)\n\t_ = g.drainWriters(background)\n\t_ = g.postCommitRetries.stopAndWait(background)\n\tg.advanceScheduler.stop()\n\t_ = g.metrics.stopPressurePublisher(background)\n", Expect: "C41/R3-order*"},
			{Name: "finish-done-before-stopped", File: ca + "group.go", Old: "\tg.mu.Lock()\n\tg.stopped = true\n\tg.mu.Unlock()\n\tclose(g.stopDone)", New: "\tclose(g.stopDone)\n\tg.mu.Lock()\n\tg.stopped = true\n\tg.mu.Unlock()", Expect: "C41/R3-order*"},
			{Name: "submit-no-release-hook", File: ca + "group.go", Old: "\tfuture.setOnDone(shard.releaseAdmission)\n", New: "", Expect: "C41/R5-slot*"},
			{Name: "idle-ignores-admission", File: ca + "group.go", Old: "\t\tif s.admissionUsed.Load() > 0 {\n\t\t\treturn false\n\t\t}\n", New: "", Expect: "C41/R4-idle*"},
			{Name: "release-twice", File: ca + "shard.go", Old: "\ts.admissionUsed.Add(-1)\n", New: "\ts.admissionUsed.Add(-2)\n", Expect: "C41/R5-slot*"},
			{Name: "future-ondone-outside-once", File: ca + "future.go", Old: "\tif closeDone {\n\t\tf.finish()\n\t}", New: "\tif closeDone {\n\t\tf.finish()\n\t\tif f.onDone != nil {\n\t\t\tf.onDone()\n\t\t}\n\t}", Expect: "C41/R5-future*"},
			{Name: "delivery-admit-outside-lock", File: "internal/runtime/delivery/runtime.go", Old: "\tacceptDone := r.acceptDone\n\tr.admissionSenders.Add(1)\n\tr.mu.Unlock()\n\tdefer r.admissionSenders.Done()", New: "\tacceptDone := r.acceptDone\n\tr.mu.Unlock()\n\tr.admissionSenders.Add(1)\n\tdefer r.admissionSenders.Done()", Expect: "C41/R6-delivery*"},
			{Name: "delivery-stopready-before-wait", File: "internal/runtime/delivery/runtime.go", Old: "\tgoruntimeregistry.SafeGo(r.goroutines, goruntimeregistry.TaskOnlineDeliveryLifecycle, func() {\n\t\tr.admissionSenders.Wait()\n\t\tr.ownerPushes.Wait()\n\t\tclose(stopReady)\n\t})\n\terr := r.waitClosed(ctx, done)", New: "\tgoruntimeregistry.SafeGo(r.goroutines, goruntimeregistry.TaskOnlineDeliveryLifecycle, func() {\n\t\tclose(stopReady)\n\t\tr.admissionSenders.Wait()\n\t\tr.ownerPushes.Wait()\n\t})\n\terr := r.waitClosed(ctx, done)", Expect: "C41/R6-delivery*"},
		},
	})
}

func c41(c *Ctx) {
	const P = "internal/runtime/channelappend"
	const G = P + ".Group"
	submit := c.Fn(G + ".SubmitLocal")
	stop := c.Fn(G + ".Stop")
	stopOnce := c.Fn(G + ".Stop$1")
	finish := c.Fn(G + ".finishStop")
	drain := c.Fn(G + ".drainWriters")
	idle := c.Fn(G + ".writersIdle")
	start := c.Fn(G + ".Start")

	// ---- R1: lifecycle flags under g.mu
	c.Lockset("R1-lock", LockSpec{Struct: G, Mutex: "mu", Fields: []string{"started", "paused", "stopping", "stopped"}, ReadsToo: true})
	c.ConfineStores("R1-lock", G+".stopping", false, G+".Stop")
	c.ConfineStores("R1-lock", G+".stopped", false, G+".finishStop")
	c.StoreShape("R1-lock", stop, "g.stopping", "true")
	c.StoreShape("R1-lock", finish, "g.stopped", "true")
	c.Guard("R1-lock", start, StoreTo{Addr: "g.started", Val: "true"}, "!g.stopping", "!g.stopped")

	// ---- R2: admission fence in SubmitLocal
	acquire := CallTo{P + ".shard.tryAcquireAdmission"}
	c.Guard("R2-admit", submit, acquire, "g.started == true", "!g.paused", "!g.stopping", "!g.stopped")
	for _, f := range []string{"started", "paused", "stopping", "stopped"} {
		c.SameSection("R2-admit", submit, "g.mu", LoadOf{"g." + f}, acquire)
	}
	c.c26Held("R2-admit", submit, acquire, "g.mu", 'R')
	c.ConfineCalls("R2-admit", P+".shard.tryAcquireAdmission", 1, G+".SubmitLocal")
	c.ConfineCalls("R2-admit", P+".channelWriter.enqueue", 1, G+".SubmitLocal")

	// ---- R3: order of the background stop
	cancel := CallTo{"dyn:g.runtimeCancel()"}
	drainCall := "after: " + G + ".drainWriters"
	c.Guard("R3-order", finish, cancel, drainCall,
		"after: "+P+".postCommitRetryScheduler.stopAndWait",
		"after: "+P+".workerPool.stop(g.advancePool, *)",
		"after: "+P+".workerPool.stop(g.appendPool, *)",
		"after: "+P+".workerPool.stop(g.postCommitPool, *)")
	c.Guard("R3-order", finish, CallTo{P + ".workerPool.stop"}, drainCall)
	c.Guard("R3-order", finish, CallTo{P + ".writerAdvanceScheduler.stop"}, drainCall)
	c.Guard("R3-order", finish, CallTo{P + ".postCommitRetryScheduler.stopAndWait"}, drainCall)
	c.CallShape("R3-order", finish, G+".drainWriters", G+".drainWriters(g, context.Background())")
	c.CallShape("R3-order", finish, P+".workerPool.stop", P+".workerPool.stop(g.*Pool, context.Background())")
	c.CallShape("R3-order", finish, P+".postCommitRetryScheduler.stopAndWait", P+".postCommitRetryScheduler.stopAndWait(g.postCommitRetries, context.Background())")
	setStopped := StoreTo{Addr: "g.stopped", Val: "true"}
	c.Guard("R3-order", finish, setStopped, "after: dyn:g.runtimeCancel()")
	c.c26MustPass("order", "R3-order", finish, CallTo{"close(g.stopDone)"}, nil, setStopped.Match, "the store g.stopped = true")
	c.c41FuncFieldCalls("R3-order", G+".runtimeCancel", 1, G+".finishStop")
	c.ConfineCalls("R3-order", P+".workerPool.stop", 3, G+".finishStop")
	c.c26ConfineChan("R3-order", G+".stopDone", "close", 1, G+".finishStop")
	c.ConfineCalls("R3-order", G+".finishStop", 0) // only ever started as the bound method handed to SafeGo in Stop$1
	c.CallShape("R3-order", stopOnce, "pkg/goroutine.SafeGo", "pkg/goroutine.SafeGo(nil, *, closure:*finishStop$bound)")
	c.c26MustPass("order", "R3-order", stop, CallTo{"sync.Once.Do"}, nil, (StoreTo{Addr: "g.stopping", Val: "true"}).Match, "the store g.stopping = true")
	c.CallShape("R3-order", stop, "sync.Once.Do", "sync.Once.Do(g.stopOnce, closure:"+G+".Stop$1)")

	// ---- R4: the caller's deadline
	c.c28CtxConfined("R4-ctx", stop, "ctx", "Done", "Err")
	c.c26Typestate("R4-ctx", "Stop returns nil only on the <-g.stopDone arm or when already stopped", c26TSpec{fn: stop,
		onEdge: func(st int, from *ssa.BasicBlock, succ int) int {
			if c26ArmIs(from, succ, false, "g.stopDone") {
				return 1
			}
			if a, ok := c37EdgeAtom(from, succ); ok && (AtomSpec{L: "g.stopped", Op: "==", R: "true"}).Satisfies(a) {
				return 1
			}
			return st
		},
		exit: func(st int, ret *ssa.Return) bool { return (RetNil{}).Match(ret) && st != 1 },
	}, "nil ⇒ the background drain finished")
	c.Guard("R4-idle", drain, RetNil{}, G+".writersIdle(g) == true")
	c.Guard("R4-idle", idle, Ret{0, "true"}, "*.pending(g.postCommitRetries) <= 0", "*.depth(g.handoff) <= 0", "* >= len(g.shards)")
	c.Guard("R4-idle", idle, CallTo{"sync.RWMutex.RLock"}, "sync/atomic.Int64.Load(*.admissionUsed) <= 0")
	c.Guard("R4-idle", idle, CallTo{"sync.RWMutex.RUnlock"}, "after: sync/atomic.Int64.Load(*.admissionUsed)")
	c.ConfineCalls("R4-idle", G+".drainWriters", 2, G+".finishStop", G+".WaitIdle")

	// ---- R5: admission slot ↔ future
	setHook := CallTo{P + ".Future.setOnDone"}
	enqueue := CallTo{P + ".channelWriter.enqueue"}
	c.c26Typestate("R5-slot", "tryAcquireAdmission()==true ⇒ setOnDone(releaseAdmission) before enqueue and a non-nil future is returned; otherwise neither", c26TSpec{fn: submit,
		onEdge: func(st int, from *ssa.BasicBlock, succ int) int {
			if ok, val := c26CallEdge(from, succ, P+".shard.tryAcquireAdmission"); ok && val {
				return 1
			}
			return st
		},
		step: func(st int, in ssa.Instruction) int {
			switch {
			case setHook.Match(in):
				if st != 1 {
					return c26Bad
				}
				return 2
			case enqueue.Match(in):
				if st != 2 {
					return c26Bad
				}
				return 3
			}
			return st
		},
		exit: func(st int, ret *ssa.Return) bool {
			if (Ret{0, "nil"}).Match(ret) {
				return st != 0
			}
			return st != 3
		},
	}, "slot ownership is handed to the future on every admitted path")
	c.c41HookReceiver("R5-slot", submit, P+".shard.tryAcquireAdmission", P+".Future.setOnDone", "releaseAdmission$bound")
	if submit != nil {
		n := len(instrsMatching(submit, CallTo{P + ".newFuture"}))
		construct := c.P.Name(submit) + "#one-future"
		if n == 1 {
			c.add("shape", "R5-slot", construct, Held, c.P.Pos(submit.Pos()), "exactly one newFuture call: equal renderings below denote one SSA value")
		} else {
			c.add("shape", "R5-slot", construct, Violated, c.P.Pos(submit.Pos()), fmt.Sprintf("expected exactly one newFuture call in SubmitLocal, found %d", n))
		}
	}
	c.CallShape("R5-slot", submit, P+".Future.setOnDone", P+".Future.setOnDone("+P+".newFuture(*), closure:*releaseAdmission$bound)")
	c.StoreShape("R5-slot", submit, "*submittedBatch.future", P+".newFuture(*)")
	c.c26RetShape("R5-slot", submit, 0, "nil", P+".newFuture(*)")
	const used = P + ".shard.admissionUsed"
	sites := c.AtomicOps("R5-slot", used, []string{"Load", "CompareAndSwap", "Add"}, nil)
	for _, s := range sites {
		name := c.P.Name(s.fn)
		if (s.method == "CompareAndSwap" && name != P+".shard.tryAcquireAdmission") || (s.method == "Add" && name != P+".shard.releaseAdmission") {
			c.add("confine", "R5-slot", s.method+"@"+name, Violated, c.P.InstrPos(s.call), "shard.admissionUsed is mutated outside tryAcquireAdmission / releaseAdmission")
		}
	}
	try := c.Fn(P + ".shard.tryAcquireAdmission")
	c.c26GuardPS("R5-slot", try, Ret{0, "true"}, "sync/atomic.Int64.CompareAndSwap(*) == true")
	c.Guard("R5-slot", try, CallTo{"sync/atomic.Int64.CompareAndSwap"}, "sync/atomic.Int64.Load(s.admissionUsed) < s.admissionCapacity")
	c.CallShape("R5-slot", try, "sync/atomic.Int64.CompareAndSwap", "sync/atomic.Int64.CompareAndSwap(s.admissionUsed, sync/atomic.Int64.Load(s.admissionUsed), (sync/atomic.Int64.Load(s.admissionUsed) + 1))")
	c.CallShape("R5-slot", c.Fn(P+".shard.releaseAdmission"), "sync/atomic.Int64.Add", "sync/atomic.Int64.Add(s.admissionUsed, -1)")

	// the future runs its hook once: from the once-guarded completion, or from setOnDone if already closed
	const F = P + ".Future"
	c.Lockset("R5-future", LockSpec{Struct: F, Mutex: "mu", Fields: []string{"closed", "onDone", "remain"}, ReadsToo: true, Exempt: []string{P + ".newFuture"}})
	c.c41ConfineDyn("R5-future", F+".*", "dyn:*onDone*", 2, F+".complete$1", F+".finish$1")
	c.c41ConfineDyn("R5-future", F+".*", "dyn:fn", 1, F+".setOnDone")
	c.c41ConfineDyn("R5-future", F+".*", "dyn:*", 4, F+".complete$1", F+".finish$1", F+".setOnDone", F+".completeItems")
	setOnDone := c.Fn(F + ".setOnDone")
	c.c26GuardPS("R5-future", setOnDone, CallTo{"dyn:fn()"}, "f.closed == true")
	c.SameSection("R5-future", setOnDone, "f.mu", StoreTo{Addr: "f.onDone"}, LoadOf{"f.closed"})
	for _, name := range []string{F + ".complete$1", F + ".finish$1"} {
		fn := c.Fn(name)
		c.SameSection("R5-future", fn, "f.mu", StoreTo{Addr: "f.closed", Val: "true"}, LoadOf{"f.onDone"})
		c.Guard("R5-future", fn, CallTo{"dyn:*onDone*"}, "after: close(f.done)")
	}
	c.CallShape("R5-future", c.Fn(F+".complete"), "sync.Once.Do", "sync.Once.Do(f.once, closure:"+F+".complete$1)")
	c.CallShape("R5-future", c.Fn(F+".finish"), "sync.Once.Do", "sync.Once.Do(f.once, closure:"+F+".finish$1)")
	c.c26ConfineChan("R5-future", F+".done", "close", 3, F+".complete", F+".finish", P+".newFuture")
	c.c26GuardPS("R5-future", c.Fn(F+".completeItem"), CallTo{F + ".finish"}, "f.remain == 0")

	// ---- the gateway executor's fence and drain (C28 R2/R3) and the delivery runtime's accept gate
	c41Gateway(c)
	c41Delivery(c)
	c.Min("R2-admit", 11)
	c.Min("R3-order", 19)
	c.Min("R5-slot", 11)
	c.Min("R5-future", 13)
	c.Min("R6-delivery", 15)
}

// c41HookReceiver: the method value passed to setOnDone is bound to the same shard
// value whose tryAcquireAdmission succeeded.
func (c *Ctx) c41HookReceiver(rule string, fn *ssa.Function, acquireCallee, hookCallee, boundName string) {
	if fn == nil {
		return
	}
	construct := c.P.Name(fn) + "#hook-receiver"
	var shard ssa.Value
	for _, in := range instrsMatching(fn, CallTo{acquireCallee}) {
		shard = in.(ssa.CallInstruction).Common().Args[0]
	}
	n := 0
	for _, in := range instrsMatching(fn, CallTo{hookCallee}) {
		n++
		args := in.(ssa.CallInstruction).Common().Args
		mc, ok := args[len(args)-1].(*ssa.MakeClosure)
		if !ok || len(mc.Bindings) != 1 || mc.Bindings[0] != shard || mc.Fn.Name() != boundName {
			c.add("shape", rule, construct, Violated, c.P.InstrPos(in), "the release hook installed on the future is not releaseAdmission bound to the shard whose admission slot was acquired: "+Path(args[len(args)-1]))
			return
		}
	}
	if n == 0 || shard == nil {
		c.add("shape", rule, construct, Undecided, c.P.Pos(fn.Pos()), "no acquire/hook call pair found")
		return
	}
	c.add("shape", rule, construct, Held, c.P.Pos(fn.Pos()), "the hook is "+boundName+" bound to the SSA value of the shard that was acquired")
}

// c41Gateway re-states the C28 fence/drain clauses that C41 relies on.
func c41Gateway(c *Ctx) {
	const G = "pkg/gateway/core"
	const E = G + ".sendExecutor"
	const MB = "pkg/workqueue.ShardedMailbox"
	submit := c.Fn(E + ".submit")
	drain := c.Fn(E + ".drain")
	load := CallTo{"sync/atomic.Bool.Load(e.closed)"}
	add := CallTo{"sync.WaitGroup.Add(e.admitted, 1)"}
	c.SameSection("R6-gateway", submit, "e.admissionMu", load, add)
	c.Guard("R6-gateway", submit, add, "!sync/atomic.Bool.Load(e.closed)")
	c.c26Held("R6-gateway", drain, CallTo{"sync/atomic.Bool.Store(e.closed, true)"}, "e.admissionMu", 'W')
	c.CallShape("R6-gateway", drain, "sync/atomic.Bool.Store", "sync/atomic.Bool.Store(e.closed, true)")
	c.Pairing("R6-gateway", submit, add, CallTo{E + ".completeAdmission"}, Ret{0, "true"})
	c.Guard("R6-gateway", c.Fn(E+".drain$1$1"), CallTo{"close(e.drained)"}, "after: sync.WaitGroup.Wait(e.admitted)")
	c.c26MustPass("order", "R6-gateway", c.Fn(E+".closeMailboxAfterDrain$1$1"), CallTo{MB + ".Close"}, nil, func(in ssa.Instruction) bool {
		u, ok := in.(*ssa.UnOp)
		return ok && u.Op.String() == "<-" && Path(u.X) == "e.drained"
	}, "<-e.drained")
	c.c28CtxConfined("R6-gateway", drain, "ctx", "Done", "Err")
	c.CallShape("R6-gateway", c.Fn(E+".stop"), E+".drain", E+".drain(e, context.WithTimeout(context.Background(), e.releaseTimeout)#0)")
}

func c41Delivery(c *Ctx) {
	const D = "internal/runtime/delivery"
	const R = D + ".Runtime"
	enq := c.Fn(R + ".EnqueueRecipientDeliveryPlan")
	open := c.c26Const(D, "runtimeOpen")
	closing := c.c26Const(D, "runtimeClosing")
	add := CallTo{"sync.WaitGroup.Add(r.admissionSenders, 1)"}
	c.Lockset("R6-delivery", LockSpec{Struct: R, Mutex: "mu", Fields: []string{"state"}, ReadsToo: true,
		AssumeHeld: []string{R + ".finishClosedLocked", R + ".finishClosedIfDoneLocked"},
		Exempt:     []string{D + ".New*"}})
	c.Guard("R6-delivery", enq, add, "r.state == "+open)
	c.SameSection("R6-delivery", enq, "r.mu", LoadOf{"r.state"}, add)
	c.Pairing("R6-delivery", enq, add, CallTo{"sync.WaitGroup.Done(r.admissionSenders)"}, nil)
	c.Guard("R6-delivery", enq, CallTo{D + ".orderedPlanQueue.enqueue"}, "after: sync.WaitGroup.Add(r.admissionSenders, 1)")
	c.Guard("R6-delivery", enq, RetNil{}, D+".orderedPlanQueue.enqueue(*) == nil")
	c.c26MethodSites("R6-delivery", R+".admissionSenders", map[string][]string{
		"Add":  {R + ".EnqueueRecipientDeliveryPlan"},
		"Done": {R + ".EnqueueRecipientDeliveryPlan"},
		"Wait": {R + ".Stop$1", R + ".Quiesce$1$1"},
	})
	for _, name := range []string{R + ".Stop", R + ".Quiesce"} {
		fn := c.Fn(name)
		c.c26MustPass("order", "R6-delivery", fn, OneOf{CallTo{"pkg/goroutine.SafeGo"}, CallTo{"sync.Once.Do"}}, nil, (StoreTo{Addr: "r.state", Val: closing}).Match, "the store r.state = runtimeClosing")
		c.c26Held("R6-delivery", fn, CallTo{"close(r.acceptDone)"}, "r.mu", 'W')
	}
	for _, name := range []string{R + ".Stop$1", R + ".Quiesce$1$1"} {
		c.Guard("R6-delivery", c.Fn(name), CallTo{"close(*)"}, "after: sync.WaitGroup.Wait(r.admissionSenders)", "after: sync.WaitGroup.Wait(r.ownerPushes)")
	}
	// the queue re-checks acceptDone after it obtained a capacity token (select race with Stop)
	qe := c.Fn(D + ".orderedPlanQueue.enqueue")
	c.c26Typestate("R6-delivery", "after a capacity token was taken, a closed acceptDone is re-checked before the plan is linked", c26TSpec{fn: qe,
		onEdge: func(st int, from *ssa.BasicBlock, succ int) int {
			if c26ArmIs(from, succ, false, "q.slots") {
				return 1
			}
			if sel, _, ok := c26SelectArm(from, succ); ok && st == 1 && !sel.Blocking {
				return st
			}
			return st
		},
		step: func(st int, in ssa.Instruction) int {
			if sel, ok := in.(*ssa.Select); ok && st == 1 && !sel.Blocking {
				for _, s := range sel.States {
					if Path(s.Chan) == "acceptDone" {
						return 2
					}
				}
			}
			if (CallTo{"sync.Mutex.Lock(q.mu)"}).Match(in) && st != 2 {
				return c26Bad
			}
			return st
		}}, "token → non-blocking acceptDone re-check → link")
}

// c41ConfineDyn: inside the functions matching scope, dynamic calls whose name matches
// calleeGlob occur only in the allowed functions (module-wide name confinement of a
// dynamic callee would also match unrelated fields of the same name).
func (c *Ctx) c41ConfineDyn(rule, scope, calleeGlob string, min int, allowed ...string) {
	n := 0
	var bad []string
	where := map[string]int{}
	for _, fn := range c.P.FuncsMatching(scope) {
		name := c.P.Name(fn)
		for _, b := range fn.Blocks {
			for _, in := range b.Instrs {
				ci, ok := in.(ssa.CallInstruction)
				if !ok || !glob(calleeGlob, calleeName(ci.Common())) {
					continue
				}
				n++
				where[name]++
				if !globAny(allowed, name) && !globAny(allowed, rootName(name)) {
					bad = append(bad, name+" at "+c.P.InstrPos(in))
				}
			}
		}
	}
	construct := "dyncalls:" + calleeGlob + "@" + scope
	switch {
	case len(bad) > 0:
		c.add("confine", rule, construct, Violated, "", fmt.Sprintf("%s is called outside %v: %v", calleeGlob, allowed, bad))
	case n < min:
		c.add("confine", rule, construct, Undecided, "", fmt.Sprintf("%d call site(s), hand-confirmed minimum %d", n, min))
	default:
		c.add("confine", rule, construct, Held, "", fmt.Sprintf("%d call site(s), all inside %v: %s", n, allowed, countsString(where)))
	}
}

// c41FuncFieldCalls: calls through the func-typed struct field happen only in the allowed functions.
func (c *Ctx) c41FuncFieldCalls(rule, field string, min int, allowed ...string) {
	if c.Field(field) == nil {
		return
	}
	n := 0
	var bad []string
	for _, fn := range c.P.AllFuncs {
		name := c.P.Name(fn)
		for _, b := range fn.Blocks {
			for _, in := range b.Instrs {
				ci, ok := in.(ssa.CallInstruction)
				if !ok || ci.Common().IsInvoke() {
					continue
				}
				u, ok := ci.Common().Value.(*ssa.UnOp)
				if !ok {
					continue
				}
				fa, ok := u.X.(*ssa.FieldAddr)
				if !ok || !c26IsField(fa, field) {
					continue
				}
				n++
				if !globAny(allowed, name) && !globAny(allowed, rootName(name)) {
					bad = append(bad, name+" at "+c.P.InstrPos(in))
				}
			}
		}
	}
	construct := "funcfield-calls:" + field
	switch {
	case len(bad) > 0:
		c.add("confine", rule, construct, Violated, "", fmt.Sprintf("%s is invoked outside %v: %v", field, allowed, bad))
	case n < min:
		c.add("confine", rule, construct, Undecided, "", fmt.Sprintf("%d call site(s), hand-confirmed minimum %d", n, min))
	default:
		c.add("confine", rule, construct, Held, "", fmt.Sprintf("%d call site(s), all inside %v", n, allowed))
	}
}
