package main

// guard_interproc.go — two small interprocedural extensions of the guard engine, so that extracting a block of
// an analysed function into a new helper of the same module does not change the verdict:
//
//  E2 (guard in a helper)   `if err := validateX(a, b); err != nil { return err }` — the edge `validateX(…) == nil`
//      establishes guard g in the caller when, inside validateX, every return whose tested result may be nil
//      (resp. true) is itself guarded by g, the helper's atoms being read with its parameters replaced by the
//      caller's argument expressions.
//  E1 (effect in a helper)  when the effect of a rule is not found in the analysed function but is found in a
//      helper it calls statically, the calls to that helper stand for the effect.
//
// Both look one or two levels down, only into functions with bodies in the loaded program.

import (
	"go/token"
	"go/types"
	"regexp"
	"strings"

	"golang.org/x/tools/go/ssa"
)

// testedCall: the call whose result the If condition tests, which result, and the truth value of "result is
// nil / true" on the true edge.
func testedCall(cond ssa.Value) (call *ssa.Call, idx int, okOnTrue bool, found bool) {
	neg := false
	for i := 0; i < 4; i++ {
		u, ok := cond.(*ssa.UnOp)
		if !ok || u.Op != token.NOT {
			break
		}
		neg = !neg
		cond = u.X
	}
	resultOf := func(v ssa.Value) (*ssa.Call, int, bool) {
		switch x := v.(type) {
		case *ssa.Call:
			return x, 0, true
		case *ssa.Extract:
			if c, ok := x.Tuple.(*ssa.Call); ok {
				return c, x.Index, true
			}
		}
		return nil, 0, false
	}
	if b, ok := cond.(*ssa.BinOp); ok && (b.Op == token.EQL || b.Op == token.NEQ) {
		var other ssa.Value
		var k *ssa.Const
		if c, isC := b.Y.(*ssa.Const); isC {
			k, other = c, b.X
		} else if c, isC := b.X.(*ssa.Const); isC {
			k, other = c, b.Y
		}
		if k == nil || !k.IsNil() {
			return nil, 0, false, false
		}
		c, i, ok := resultOf(other)
		if !ok {
			return nil, 0, false, false
		}
		return c, i, (b.Op == token.EQL) != neg, true
	}
	if bt, ok := cond.Type().Underlying().(*types.Basic); ok && bt.Info()&types.IsBoolean != 0 {
		if c, i, ok := resultOf(cond); ok {
			return c, i, !neg, true
		}
	}
	return nil, 0, false, false
}

func staticBody(cc *ssa.CallCommon) *ssa.Function {
	if cc.IsInvoke() {
		return nil
	}
	f, _ := cc.Value.(*ssa.Function)
	if f == nil || f.Blocks == nil || !inModule(f) {
		return nil
	}
	return f
}

// paramSubst returns a rewriter that renders the helper's atoms in the caller's vocabulary.
func paramSubst(h *ssa.Function, args []ssa.Value) func(string) string {
	type rep struct {
		re *regexp.Regexp
		to string
	}
	var reps []rep
	for i, p := range h.Params {
		if i >= len(args) || p.Name() == "" || p.Name() == "_" {
			continue
		}
		to := Path(args[i])
		if to == p.Name() {
			continue
		}
		// whole identifier, not a field selection (".name") and not a longer identifier
		reps = append(reps, rep{regexp.MustCompile(`(^|[^.\w])` + regexp.QuoteMeta(p.Name()) + `($|[^\w])`), to})
	}
	if len(reps) == 0 {
		return func(s string) string { return s }
	}
	return func(s string) string {
		for _, r := range reps {
			for i := 0; i < 4; i++ { // overlapping matches
				n := r.re.ReplaceAllString(s, "${1}"+strings.ReplaceAll(r.to, "$", "$$")+"${2}")
				if n == s {
					break
				}
				s = n
			}
		}
		return s
	}
}

// helperEstablishes: inside h, every return whose result idx may be nil (wantNil) / true (!wantNil) is reachable
// only across an edge on which g holds (atoms rewritten by subst).
func helperEstablishes(h *ssa.Function, idx int, wantNil bool, okClass bool, g guardSpec, subst func(string) string, depth int) bool {
	if depth > 2 || len(g.atoms) == 0 {
		return false
	}
	removed := map[edge]bool{}
	for _, b := range h.Blocks {
		if len(b.Instrs) == 0 {
			continue
		}
		iff, ok := b.Instrs[len(b.Instrs)-1].(*ssa.If)
		if !ok {
			continue
		}
		for si, truth := range []bool{true, false} {
			if a, ok := condAtom(iff.Cond, truth); ok {
				a = mkAtom(subst(a.L), a.Op, subst(a.R))
				if _, sat := satisfiesAny(g, []Atom{a}); sat {
					removed[edge{b, si}] = true
					continue
				}
			}
			// one more level: the helper delegates to another helper
			if call, k, okOnTrue, found := testedCall(iff.Cond); found {
				if hh := staticBody(&call.Call); hh != nil && hh != h {
					inner := paramSubst(hh, call.Call.Args)
					both := func(s string) string { return subst(inner(s)) }
					if helperEstablishes(hh, k, isNilResult(hh, k), okOnTrue == truth, g, both, depth+1) {
						removed[edge{b, si}] = true
					}
				}
			}
		}
	}
	if len(removed) == 0 {
		return false
	}
	limit := reachUnguardedPlain(h, removed, nil)
	matched := 0
	for _, b := range h.Blocks {
		if len(b.Instrs) == 0 {
			continue
		}
		ret, ok := b.Instrs[len(b.Instrs)-1].(*ssa.Return)
		if !ok || idx >= len(ret.Results) {
			continue
		}
		if definitelyNot(ret.Results[idx], wantNil, okClass) {
			continue
		}
		matched++
		if _, reach := limit[b]; reach {
			// the returned value itself may have been tested on the way (`if x.Err != nil { return x.Err }`)
			v := Path(ret.Results[idx])
			// an edge that proves the returned value is in the OTHER class removes this return from consideration
			spec := AtomSpec{L: v, Op: "!=", R: "nil", Src: v + " != nil"}
			switch {
			case wantNil && !okClass:
				spec = AtomSpec{L: v, Op: "==", R: "nil", Src: v + " == nil"}
			case !wantNil && okClass:
				spec = AtomSpec{L: v, Op: "==", R: "false", Src: v + " == false"}
			case !wantNil && !okClass:
				spec = AtomSpec{L: v, Op: "==", R: "true", Src: v + " == true"}
			}
			more := map[edge]bool{}
			for e := range removed {
				more[e] = true
			}
			for _, bb := range h.Blocks {
				if len(bb.Instrs) == 0 {
					continue
				}
				if iff, ok := bb.Instrs[len(bb.Instrs)-1].(*ssa.If); ok {
					for si, truth := range []bool{true, false} {
						if a, ok := condAtom(iff.Cond, truth); ok && spec.Satisfies(a) {
							more[edge{bb, si}] = true
						}
					}
				}
			}
			if _, still := reachUnguardedPlain(h, more, nil)[b]; still {
				return false
			}
		}
	}
	return matched > 0
}

func isNilResult(h *ssa.Function, idx int) bool {
	res := h.Signature.Results()
	if idx >= res.Len() {
		return true
	}
	b, ok := res.At(idx).Type().Underlying().(*types.Basic)
	return !(ok && b.Info()&types.IsBoolean != 0)
}

// definitelyNot: the returned value certainly is not in the class considered — class "ok" = nil (wantNil) / true,
// class "not ok" = non-nil / false.
func definitelyNot(v ssa.Value, wantNil bool, okClass bool) bool {
	if !okClass {
		if k, isConst := v.(*ssa.Const); isConst {
			if wantNil {
				return k.IsNil()
			}
			return constString(k) == "true"
		}
		return false
	}
	switch x := v.(type) {
	case *ssa.Const:
		if wantNil {
			return !x.IsNil()
		}
		return constString(x) != "true"
	case *ssa.MakeInterface:
		return wantNil // a boxed concrete value is a non-nil interface
	case *ssa.Call:
		if !wantNil {
			return false
		}
		n := calleeName(&x.Call)
		return n == "errors.New" || n == "fmt.Errorf" || strings.HasSuffix(n, "errors.Wrap") || strings.HasSuffix(n, "errors.Wrapf") || strings.HasSuffix(n, "errors.Errorf")
	case *ssa.Alloc:
		return wantNil
	case *ssa.UnOp:
		// a package-level sentinel error (var ErrX = errors.New(…)) is never nil
		if g, ok := x.X.(*ssa.Global); ok && x.Op == token.MUL && wantNil && isErrorType(g.Type().(*types.Pointer).Elem()) {
			return true
		}
	}
	return false
}

// helperGuardEdges: the If edges of fn on which a helper call has established g (E2).
func helperGuardEdges(fn *ssa.Function, g guardSpec) (map[edge]bool, []string) {
	out := map[edge]bool{}
	var descr []string
	if len(g.atoms) == 0 {
		return out, nil
	}
	for _, b := range fn.Blocks {
		if len(b.Instrs) == 0 {
			continue
		}
		iff, ok := b.Instrs[len(b.Instrs)-1].(*ssa.If)
		if !ok {
			continue
		}
		call, idx, okOnTrue, found := testedCall(iff.Cond)
		if !found {
			continue
		}
		h := staticBody(&call.Call)
		if h == nil || h == fn {
			continue
		}
		wantNil := isNilResult(h, idx)
		for si, truth := range []bool{true, false} {
			// okClass: on this edge the tested result is nil / true
			if helperEstablishes(h, idx, wantNil, okOnTrue == truth, g, paramSubst(h, call.Call.Args), 0) {
				out[edge{b, si}] = true
				descr = append(descr, "in "+funcShortName(h)+": "+g.src)
			}
		}
	}
	return out, descr
}

// helperEffectSites (E1): calls in fn to helpers (static, with body, in the module) that contain the effect.
func helperEffectSites(fn *ssa.Function, eff Effect) (sites []ssa.Instruction, via []string) {
	seen := map[*ssa.Function]bool{}
	has := func(h *ssa.Function) bool {
		for _, b := range h.Blocks {
			if b == h.Recover {
				continue
			}
			for _, in := range b.Instrs {
				if eff.Match(in) {
					return true
				}
			}
		}
		return false
	}
	hasCache := map[*ssa.Function]bool{}
	for _, b := range fn.Blocks {
		for _, in := range b.Instrs {
			ci, ok := in.(ssa.CallInstruction)
			if !ok {
				continue
			}
			h := staticBody(ci.Common())
			if h == nil || h == fn {
				continue
			}
			v, done := hasCache[h]
			if !done {
				v = has(h)
				hasCache[h] = v
			}
			if v {
				sites = append(sites, in)
				if !seen[h] {
					seen[h] = true
					via = append(via, funcShortName(h))
				}
			}
		}
	}
	return
}

// inlinedEffectSites (E1 reversed): the rule's effect is "call helper h", fn does not call h (any more), but fn
// contains an instruction for every side-effect signature of h's body (same callees, same stored fields) — h was
// inlined here; those instructions stand for the call.
func inlinedEffectSites(p *Program, fn *ssa.Function, eff Effect) (sites []ssa.Instruction, via string) {
	ct, ok := eff.(CallTo)
	if !ok || strings.ContainsAny(ct.Glob, "(") {
		return nil, ""
	}
	hs := p.FuncsMatching(ct.Glob)
	if len(hs) != 1 || hs[0].Blocks == nil || hs[0] == fn {
		return nil, ""
	}
	h := hs[0]
	sig := func(in ssa.Instruction) string {
		switch x := in.(type) {
		case *ssa.Store:
			if fa, ok := x.Addr.(*ssa.FieldAddr); ok {
				return "store:" + ownerTypeName(fa.X.Type()) + "." + fieldName(fa.X.Type(), fa.Field)
			}
		case *ssa.MapUpdate:
			return "mapupdate:" + x.Map.Type().String()
		case ssa.CallInstruction:
			if _, isB := x.Common().Value.(*ssa.Builtin); isB {
				return ""
			}
			return "call:" + calleeName(x.Common())
		}
		return ""
	}
	want := map[string]bool{}
	for _, b := range h.Blocks {
		for _, in := range b.Instrs {
			if s := sig(in); s != "" {
				want[s] = true
			}
		}
	}
	if len(want) == 0 {
		return nil, ""
	}
	have := map[string]bool{}
	for _, b := range fn.Blocks {
		for _, in := range b.Instrs {
			if s := sig(in); s != "" && want[s] {
				have[s] = true
				sites = append(sites, in)
			}
		}
	}
	if len(have) != len(want) {
		return nil, ""
	}
	return sites, funcShortName(h)
}

// strictSplitHolds: the guard has strict atoms (`x > y`, `x < y`) and the effect is unreachable under EVERY way of
// replacing each of them by either its non-strict form or its inequality form. A path that crosses no other atom
// must then have crossed, for some strict atom, both `x >= y` and `x != y` — which is `x > y` written as
// `if x != y { if x < y { stale } … }`. (k strict atoms → 2^k reachability checks; k ≤ 3.)
func strictSplitHolds(fn *ssa.Function, g guardSpec, effs []ssa.Instruction) bool {
	vs := strictVariants(g)
	if len(vs) == 0 {
		return false
	}
	for _, v := range vs {
		limit, _, _ := reachThreaded(fn, v)
		for _, e := range effs {
			if lim, ok := limit[e.Block()]; ok && indexIn(e.Block(), e) < lim {
				return false
			}
		}
	}
	return true
}

// strictVariants: the 2^k weakenings of a guard with k ≤ 3 strict atoms (each replaced by ≥/≤ or by ≠); nil otherwise.
func strictVariants(g guardSpec) []guardSpec {
	var strict []int
	for i, a := range g.atoms {
		if a.Op == ">" || a.Op == "<" {
			strict = append(strict, i)
		}
	}
	if len(strict) == 0 || len(strict) > 3 {
		return nil
	}
	var out []guardSpec
	for mask := 0; mask < 1<<len(strict); mask++ {
		v := guardSpec{src: g.src, afters: g.afters, atoms: append([]AtomSpec{}, g.atoms...)}
		for bit, i := range strict {
			a := v.atoms[i]
			if mask&(1<<bit) == 0 {
				a.Op += "=" // > → >=, < → <=
			} else {
				a.Op = "!="
			}
			v.atoms[i] = a
		}
		out = append(out, v)
	}
	return out
}
