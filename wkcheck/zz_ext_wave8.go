package main

// Rules added after wave 8 (fresh seeds after the engine freeze): C39-g, C28-d, C07-e.
func init() {
	// C39: a scoped multi-hash-slot command is examined for EVERY hash slot it applies to — the maintenance sweep over
	// the command's hash slots is not short-cut by a test on the envelope hash slot (a non-migrating envelope may carry
	// rows of a migrating hash slot). Only the fence command, which concerns one hash slot, returns before the sweep.
	extend("C39", nil, func(c *Ctx) {
		fn := c.Fn("pkg/slot/fsm.stateMachine.stageMigrationMaintenanceForHashSlots")
		c.SuccessOnlyAfterLoop("X5-every-applied-hash-slot", fn, "hashSlots", "after: pkg/slot/fsm.stateMachine.stageMigrationFence")
		c.EveryIteration("X5-every-applied-hash-slot", fn, "hashSlots", CallTo{"pkg/slot/fsm.stateMachine.stageMigrationOutbox"}, "*stageMigrationOutbox(*)#2 != nil") // an error ends the command
	},
		Mutant{Name: "x-maintenance-fast-path-on-envelope-slot", File: "pkg/slot/fsm/statemachine.go",
			Old:    "\tvar pending []pendingForwardDelta\n\tfor _, hashSlot := range hashSlots {\n\t\tnext, ok, err := m.stageMigrationOutbox(",
			New:    "\tif _, migrating := m.migrations[envelopeHashSlot]; !migrating {\n\t\treturn nil, nil\n\t}\n\tvar pending []pendingForwardDelta\n\tfor _, hashSlot := range hashSlots {\n\t\tnext, ok, err := m.stageMigrationOutbox(",
			Expect: "C39/X5-every-applied-hash-slot/*"},
		Mutant{Name: "x-maintenance-skips-envelope-slot", File: "pkg/slot/fsm/statemachine.go",
			Old:    "\tfor _, hashSlot := range hashSlots {\n\t\tnext, ok, err := m.stageMigrationOutbox(",
			New:    "\tfor _, hashSlot := range hashSlots {\n\t\tif hashSlot == envelopeHashSlot && len(hashSlots) > 1 {\n\t\t\tcontinue\n\t\t}\n\t\tnext, ok, err := m.stageMigrationOutbox(",
			Expect: "C39/X5-every-applied-hash-slot/*"},
	)

	// C28: DrainSends closes SEND admission on every path — whatever it returns, and also when the caller's context
	// is already done: no return of drain is reachable without the store closed=true (a nil executor has nothing to close).
	extend("C28", nil, func(c *Ctx) {
		fn := c.Fn("pkg/gateway/core.sendExecutor.drain")
		c.Guard("X2-drain-always-fences", fn, AnyRet{}, "e == nil || e.mailbox == nil || after: sync/atomic.Bool.Store(e.closed, true)")
	},
		Mutant{Name: "x-drain-fails-fast-before-fencing", File: "pkg/gateway/core/async_send.go",
			Old:    "\te.admissionMu.Lock()\n\te.closed.Store(true)\n\te.admissionMu.Unlock()\n\te.drainOnce.Do(",
			New:    "\tif ctx != nil && ctx.Err() != nil {\n\t\treturn ctx.Err()\n\t}\n\te.admissionMu.Lock()\n\te.closed.Store(true)\n\te.admissionMu.Unlock()\n\te.drainOnce.Do(",
			Expect: "C28/X2-drain-always-fences/*"},
	)

	// C07: TruncateFrom is a no-op only when the first removed sequence lies strictly beyond the log end; truncating
	// from exactly the log end removes the last entry. A success return is behind `fromSeq > leo` or after the commit.
	extend("C07", nil, func(c *Ctx) {
		fn := c.Fn("pkg/db/message.ChannelLog.TruncateFrom")
		c.Guard("X2-truncate-noop-only-beyond-end", fn, RetNil{}, "phi(fromSeq|1) > *loadLEOLocked(*)#0 || fromSeq > *loadLEOLocked(*)#0 || after: pkg/db/internal/engine.Batch.Commit")
	},
		Mutant{Name: "x-truncate-from-log-end-is-noop", File: "pkg/db/message/truncate.go",
			Old: "\tif fromSeq > leo {\n\t\treturn nil\n\t}", New: "\tif fromSeq >= leo {\n\t\treturn nil\n\t}", Expect: "C07/X2-truncate-noop-only-beyond-end/*"},
	)
}
