package main

import "golang.org/x/tools/go/ssa"

type ssaCall = ssa.Call
