package main

import (
	"fmt"
	"os"
	"regexp"
	"sort"

	"golang.org/x/tools/go/ssa"
)

// WK_LINT=1: report rule-table globs whose operand roots are local variable names of the analysed
// function (not parameters / receivers / captured variables): such a rule fires on a rename of the
// local, which is a behaviour-preserving edit. The fix is a '*' wildcard root.
var lintOn = os.Getenv("WK_LINT") == "1"

var lintRoot = regexp.MustCompile(`^[A-Za-z_][A-Za-z0-9_]*`)
var lintSeen = map[string]bool{}

func lintOperand(fn *ssa.Function, rule, operand string) {
	if !lintOn || fn == nil || operand == "" {
		return
	}
	m := lintRoot.FindString(operand)
	if m == "" || len(m) == len(operand) && (m == "true" || m == "false" || m == "nil") {
		return
	}
	rest := operand[len(m):]
	if rest != "" && rest[0] != '.' && rest[0] != '[' {
		return // callee name, package path, call, …
	}
	switch m {
	case "len", "cap", "zero", "phi", "make", "alloc", "closure", "dyn", "next", "range", "select", "varargs", "slicelit", "complit", "after":
		return
	}
	names := map[string]bool{}
	for f := fn; f != nil; f = f.Parent() {
		for _, p := range f.Params {
			names[p.Name()] = true
		}
		for _, fv := range f.FreeVars {
			names[fv.Name()] = true
		}
	}
	if names[m] {
		return
	}
	// is it a named local alloc of this function?
	isLocal := false
	for _, b := range fn.Blocks {
		for _, in := range b.Instrs {
			if a, ok := in.(*ssa.Alloc); ok && a.Comment == m {
				isLocal = true
			}
		}
	}
	if !isLocal {
		return
	}
	key := funcShortName(fn) + "|" + rule + "|" + operand
	if lintSeen[key] {
		return
	}
	lintSeen[key] = true
	fmt.Fprintf(os.Stderr, "LINT local-name %s rule=%s operand=%q (local %q)\n", funcShortName(fn), rule, operand, m)
}

func lintGuard(fn *ssa.Function, rule string, g guardSpec) {
	if !lintOn {
		return
	}
	for _, a := range g.atoms {
		lintOperand(fn, rule, a.L)
		lintOperand(fn, rule, a.R)
	}
}

func lintSummary() {
	if !lintOn {
		return
	}
	var ks []string
	for k := range lintSeen {
		ks = append(ks, k)
	}
	sort.Strings(ks)
	fmt.Fprintf(os.Stderr, "LINT total %d local-name dependencies\n", len(ks))
}
