package main

import (
	"fmt"
	"go/token"
	"go/types"
	"os"
	"strings"

	"golang.org/x/tools/go/ssa"
)

// ---------------------------------------------------------------------------
// C12 — Slot Raft replicas apply identical command sequences (structural clause:
// the etcd/raft Ready contract and the durable-applied-index discipline of
// pkg/slot/multiraft).

func init() {
	register(&PropSpec{
		ID:        "C12",
		Pkgs:      []string{"./pkg/slot/multiraft", "./pkg/slot/fsm"},
		Technique: "static analysis: SSA edge-dominance from the entry and from a mid-function start point (persist→send/apply→mark-applied→Advance→resolve order), SSA-identity comparison shape for the 'nothing new applied' arm, monotone-store and who-may-call confinement",
		Explain: "Decides the structural Ready contract of slot.processReady*/runApplyTask: transport.Send, entry tracking, memory-storage update and both apply paths are reachable only behind persistReadyDurable==nil; snapshots/conf-changes never take the async path; after applyCommittedEntries nothing (markApplied, Advance, completeResolutions, setDurableAppliedIndex) is reachable except through !hasFatalErr; futures are completed only after rawNode.Advance and only behind markApplied==nil and persistConfigAppliedIndex==nil or the 'post-apply index <= pre-apply index' arm; Advance on the async path only behind enqueue==nil (and enqueue returns nil only after the task was pushed behind beginApply==nil); conf-changes are applied only after the pending normal batch was flushed successfully; every failing flush passes slot.fail; markApplied refuses durableIndex>index; durableAppliedIndex only grows; proposal futures are resolved only for a matching (index, term); the FSM stages SetSlotAppliedIndex in the one WriteBatch it commits. " +
			"NOT decided: per-index equality of applied commands across replicas, etcd/raft's own correctness, behaviour under message loss/partition/compaction/crash (those remain behavioural), that waitApplyIdle really drains the pipeline, FIFO order inside the apply queue.",
		Run: c12,
		Mutants: c12OnlyMutants([]Mutant{
			{Name: "ready-ignore-persist-error", File: "pkg/slot/multiraft/slot.go",
				Old:    "persist, err := g.storageView.persistReadyDurable(ctx, ready)\n\tif err != nil {\n\t\tg.failPending(err)\n\t\treturn true, false\n\t}",
				New:    "persist, err := g.storageView.persistReadyDurable(ctx, ready)\n\tif err != nil {\n\t\tg.failPending(err)\n\t}",
				Expect: "C12/R1-persist-first/*"},
			{Name: "ready-confchange-goes-async", File: "pkg/slot/multiraft/slot.go",
				Old:    "\tif requiresSyncApply {\n\t\treturn g.processReadySynchronously(ctx, ready)\n\t}\n\treturn g.processReadyAsyncNormal(ctx, ready)",
				New:    "\tif requiresSyncApply && len(ready.Messages) > 0 {\n\t\treturn g.processReadySynchronously(ctx, ready)\n\t}\n\treturn g.processReadyAsyncNormal(ctx, ready)",
				Expect: "C12/R1-sync-when-required/*"},
			{Name: "sync-drop-fatal-check", File: "pkg/slot/multiraft/slot.go",
				Old:    "resolutions, configChanged = g.applyCommittedEntries(ctx, ready.CommittedEntries, &lastApplied, resolutions, batchSM, canBatch)\n\tif g.hasFatalErr() {\n\t\treturn true, false\n\t}",
				New:    "resolutions, configChanged = g.applyCommittedEntries(ctx, ready.CommittedEntries, &lastApplied, resolutions, batchSM, canBatch)",
				Expect: "C12/R2-stop-after-failed-apply/*processReadySynchronously*"},
			{Name: "task-drop-fatal-check", File: "pkg/slot/multiraft/apply_pipeline.go",
				Old:    "resolutions, _ = g.applyCommittedEntries(ctx, task.entries, &lastApplied, resolutions, batchSM, canBatch)\n\tif g.hasFatalErr() {\n\t\treturn\n\t}",
				New:    "resolutions, _ = g.applyCommittedEntries(ctx, task.entries, &lastApplied, resolutions, batchSM, canBatch)",
				Expect: "C12/R2-stop-after-failed-apply/*runApplyTask*"},
			{Name: "sync-ignore-markapplied-error", File: "pkg/slot/multiraft/slot.go",
				Old:    "g.observeResolutionFutures(resolutions, \"meta_create_slot_mark_applied\", err, time.Since(started))\n\t\tif err != nil {\n\t\t\tg.fail(err)\n\t\t\treturn true, false\n\t\t}",
				New:    "g.observeResolutionFutures(resolutions, \"meta_create_slot_mark_applied\", err, time.Since(started))\n\t\tif err != nil {\n\t\t\tg.logCompactionWarning(err, lastApplied)\n\t\t}",
				Expect: "C12/R2-durable-before-visible/*"},
			{Name: "sync-resolve-before-advance", File: "pkg/slot/multiraft/slot.go",
				Old:    "\tg.rawNode.Advance(ready)\n\tg.refreshStatus()\n\tg.completeResolutions(resolutions)\n\trequeue := g.rawNode.HasReady()",
				New:    "\tg.completeResolutions(resolutions)\n\tg.rawNode.Advance(ready)\n\tg.refreshStatus()\n\trequeue := g.rawNode.HasReady()",
				Expect: "C12/R2-resolve-after-advance/*"},
			{Name: "sync-skip-markapplied-threshold", File: "pkg/slot/multiraft/slot.go",
				Old:    "\tif lastApplied > appliedBeforeReady {",
				New:    "\tif lastApplied > appliedBeforeReady+1 {",
				Expect: "C12/R2-durable-before-visible/*"},
			{Name: "async-advance-after-failed-enqueue", File: "pkg/slot/multiraft/slot.go",
				Old:    "\tif err := g.apply.enqueue(task); err != nil {\n\t\tif errors.Is(err, ErrSlotBusy) {",
				New:    "\tif err := g.apply.enqueue(task); err != nil && !errors.Is(err, ErrSlotClosed) {\n\t\tif errors.Is(err, ErrSlotBusy) {",
				Expect: "C12/R1-advance-after-handoff/*"},
			{Name: "enqueue-nil-without-push", File: "pkg/slot/multiraft/apply_pipeline.go",
				Old:    "\t\tp.deleteQueueIfIdleLocked(slotID, q)\n\t\tp.mu.Unlock()\n\t\ttask.slot.finishApply()\n\t\treturn ErrSlotClosed\n\t}",
				New:    "\t\tp.deleteQueueIfIdleLocked(slotID, q)\n\t\tp.mu.Unlock()\n\t\ttask.slot.finishApply()\n\t\treturn nil\n\t}",
				Expect: "C12/R1-advance-after-handoff/*enqueue*"},
			{Name: "confchange-without-flush", File: "pkg/slot/multiraft/slot.go",
				Old:    "\t\t\tif !flushBatch() {\n\t\t\t\treturn resolutions, configChanged\n\t\t\t}\n\t\t\tvar cc raftpb.ConfChange\n",
				New:    "\t\t\tvar cc raftpb.ConfChange\n",
				Expect: "C12/R2-flush-before-confchange/*"},
			{Name: "apply-error-not-fatal", File: "pkg/slot/multiraft/slot.go",
				Old:    "\t\t\t\t\t\tData:  result,\n\t\t\t\t\t}, err)\n\t\t\t\t\tg.fail(err)\n\t\t\t\t\treturn false",
				New:    "\t\t\t\t\t\tData:  result,\n\t\t\t\t\t}, err)\n\t\t\t\t\treturn false",
				Expect: "C12/R2-apply-error-is-fatal/*"},
			{Name: "markapplied-accept-regression", File: "pkg/slot/multiraft/slot.go",
				Old:    "\t\tif durableIndex > index {\n\t\t\treturn fmt.Errorf(",
				New:    "\t\tif durableIndex > index+uint64(len(g.requests)) {\n\t\t\treturn fmt.Errorf(",
				Expect: "C12/R3-markapplied/*"},
			{Name: "durable-applied-index-regresses", File: "pkg/slot/multiraft/slot.go",
				Old:    "\tif index > g.durableAppliedIndex {\n\t\tg.durableAppliedIndex = index\n\t}",
				New:    "\tg.durableAppliedIndex = index",
				Expect: "C12/R3-applied-monotone/*"},
			{Name: "compact-before-snapshot-durable", File: "pkg/slot/multiraft/compaction.go",
				Old:    "\tif persistErr != nil {\n\t\treturn persistErr\n\t}\n",
				New:    "\tif persistErr != nil {\n\t\tg.logCompactionWarning(persistErr, applied)\n\t}\n",
				Expect: "C12/R3-compaction/*"},
			{Name: "resolve-ignores-term", File: "pkg/slot/multiraft/slot.go",
				Old:    "\tpending, ok := g.pendingProposals[index]\n\tif !ok || pending.term != term {\n\t\tg.mu.Unlock()\n\t\treturn\n\t}",
				New:    "\tpending, ok := g.pendingProposals[index]\n\tif !ok {\n\t\tg.mu.Unlock()\n\t\treturn\n\t}",
				Expect: "C12/R4-future-index-term/*resolveProposal*"},
			{Name: "fsm-applied-index-separate-batch", File: "pkg/slot/fsm/statemachine.go",
				Old:    "\t\tif err := wb.SetSlotAppliedIndex(m.slot, cmds[len(cmds)-1].Index); err != nil {\n\t\t\treturn nil, err\n\t\t}\n\t}\n\n\tstarted := time.Now()",
				New:    "\t\tiwb := m.db.NewWriteBatch()\n\t\tdefer iwb.Close()\n\t\tif err := iwb.SetSlotAppliedIndex(m.slot, cmds[len(cmds)-1].Index); err != nil {\n\t\t\treturn nil, err\n\t\t}\n\t\tif err := iwb.Commit(); err != nil {\n\t\t\treturn nil, err\n\t\t}\n\t}\n\n\tstarted := time.Now()",
				Expect: "C12/R3-applied-index-same-batch/*"},
		}),
	})
}

const c12mr = "pkg/slot/multiraft."

// the controller's own single raft group drives its own RawNode; it is not a slot replica (other properties)
const c12CtrlRaft = "pkg/controller/raft.*"

// c12OnlyMutants lets a rule author re-run a subset of the stored mutants while iterating
// (WK_MUTANTS="name-glob,name-glob"); without the variable all mutants run.
func c12OnlyMutants(ms []Mutant) []Mutant {
	f := os.Getenv("WK_MUTANTS")
	if f == "" {
		return ms
	}
	var out []Mutant
	for _, m := range ms {
		if globAny(strings.Split(f, ","), m.Name) {
			out = append(out, m)
		}
	}
	return out
}

func c12(c *Ctx) {
	ready := c.Fn(c12mr + "slot.processReady")
	syncFn := c.Fn(c12mr + "slot.processReadySynchronously")
	asyncFn := c.Fn(c12mr + "slot.processReadyAsyncNormal")
	task := c.Fn(c12mr + "slot.runApplyTask")
	applyFn := c.Fn(c12mr + "slot.applyCommittedEntries")
	flush := c.Fn(c12mr + "slot.applyCommittedEntries$1")
	markApplied := c.Fn(c12mr + "slot.markApplied")
	enqueue := c.Fn(c12mr + "applyPipeline.enqueue")

	// ---- R1: persist before send / track / apply; sync path when required; Advance only after hand-off.
	persistOK := "*.storageAdapter.persistReadyDurable(*)#1 == nil"
	for _, callee := range []string{
		c12mr + "Transport.Send", c12mr + "slot.trackReadyEntries", c12mr + "storageAdapter.applyReadyToMemory",
		c12mr + "slot.processReadySynchronously", c12mr + "slot.processReadyAsyncNormal",
	} {
		c.Guard("R1-persist-first", ready, CallTo{callee}, persistOK)
	}
	for _, callee := range []string{c12mr + "slot.processReadySynchronously", c12mr + "slot.processReadyAsyncNormal"} {
		c.Guard("R1-persist-first", ready, CallTo{callee}, "*.storageAdapter.applyReadyToMemory(*) == nil")
	}
	c.CallShape("R1-persist-first", ready, c12mr+"storageAdapter.applyReadyToMemory", "*(g.storageView, *.storageAdapter.persistReadyDurable(g.storageView, ctx, *)#0)")
	c.Guard("R1-persist-first", ready, CallTo{c12mr + "storageAdapter.persistReadyDurable"}, "after: go.etcd.io/raft/v3.RawNode.Ready")
	c.Min("R1-persist-first", 9)
	// the combined helper keeps the same order
	c.Guard("R1-persist-first", c.Fn(c12mr+"storageAdapter.persistReady"), CallTo{c12mr + "storageAdapter.applyReadyToMemory"}, persistOK)
	// durable save precedes the success return of persistReadyDurable whenever something must be saved
	c12EdgeExcludes(c, "R1-persist-first", c.Fn(c12mr+"storageAdapter.persistReadyDurable"), "*.Storage.Save(*) != nil", false, RetNil{})

	// snapshots and membership changes must be applied before Advance → never the async pipeline
	c.Guard("R1-sync-when-required", ready, CallTo{c12mr + "slot.processReadyAsyncNormal"}, "*.readyRequiresSynchronousApply(*) == false")
	reqSync := c.Fn(c12mr + "readyRequiresSynchronousApply")
	c.Guard("R1-sync-when-required", reqSync, Ret{0, "false"}, "go.etcd.io/raft/v3.IsEmptySnap(*) == true")
	c12EdgeExcludes(c, "R1-sync-when-required", reqSync, "*.Type == "+c12Const(c, "go.etcd.io/raft/v3/raftpb", "EntryConfChange"), false, Ret{0, "false"})
	c12EdgeExcludes(c, "R1-sync-when-required", reqSync, "*.Type == "+c12Const(c, "go.etcd.io/raft/v3/raftpb", "EntryConfChangeV2"), false, Ret{0, "false"})

	// async path: Advance only when there is nothing to apply or the task was handed to the pipeline
	advance := CallTo{"go.etcd.io/raft/v3.RawNode.Advance"}
	c.Guard("R1-advance-after-handoff", asyncFn, advance, "len(ready.CommittedEntries) == 0 || *.applyPipeline.enqueue(*) == nil")
	c.StoreShape("R1-advance-after-handoff", asyncFn, "*applyTask.entries", "*.cloneEntries(ready.CommittedEntries)")
	c.StoreShape("R1-advance-after-handoff", asyncFn, "*applyTask.slot", "g")
	c.StoreShape("R1-advance-after-handoff", asyncFn, "*applyTask.appliedBefore", "*.slot.appliedIndex(g)")
	c.Guard("R1-advance-after-handoff", enqueue, RetNil{}, "after: *.applyQueue.pushTaskLocked", "*.slot.beginApply(*) == nil")
	c.Guard("R1-advance-after-handoff", enqueue, CallTo{c12mr + "applyQueue.pushTaskLocked"}, "*.slot.beginApply(*) == nil")
	c.CallShape("R1-advance-after-handoff", enqueue, c12mr+"applyQueue.pushTaskLocked", "*(*, task)")

	// ---- R2: apply → (fatal?) → markApplied/persistConfig → setDurable → Advance → resolve
	applyCall := CallTo{c12mr + "slot.applyCommittedEntries"}
	noNew := map[string]c12EdgeFn{"@no-new-applied": c12NoNewApplied}
	afterApply := []string{
		c12mr + "slot.markApplied", c12mr + "slot.persistConfigAppliedIndex", c12mr + "slot.setDurableAppliedIndex",
		c12mr + "slot.completeResolutions", c12mr + "slot.compactLog",
	}
	for _, fn := range []*ssa.Function{syncFn, task} {
		if fn == nil {
			continue
		}
		effs := append([]string{}, afterApply...)
		if fn == syncFn {
			effs = append(effs, "go.etcd.io/raft/v3.RawNode.Advance")
		}
		for _, callee := range effs {
			c12GuardFrom(c, "R2-stop-after-failed-apply", fn, c12From{From: applyCall}, CallTo{callee}, "*.slot.hasFatalErr(*) == false")
		}
		visible := []string{c12mr + "slot.completeResolutions", c12mr + "slot.compactLog"}
		if fn == syncFn {
			visible = append(visible, "go.etcd.io/raft/v3.RawNode.Advance")
		}
		for _, callee := range visible {
			c12GuardFrom(c, "R2-durable-before-visible", fn, c12From{From: applyCall, Extra: noNew}, CallTo{callee},
				"*.slot.markApplied(*) == nil || @no-new-applied",
				"*.slot.persistConfigAppliedIndex(*) == nil || @no-new-applied")
		}
		c.Guard("R2-durable-before-visible", fn, CallTo{c12mr + "slot.setDurableAppliedIndex"},
			"*.slot.markApplied(*) == nil", "*.slot.persistConfigAppliedIndex(*) == nil")
		// the durable index written is the index the apply loop reached
		c12ArgIsAppliedCursor(c, "R2-durable-before-visible", fn, c12mr+"slot.markApplied", 2)
		c12ArgIsAppliedCursor(c, "R2-durable-before-visible", fn, c12mr+"slot.persistConfigAppliedIndex", 2)
		c12ArgIsAppliedCursor(c, "R2-durable-before-visible", fn, c12mr+"slot.setDurableAppliedIndex", 1)
	}
	c.Min("R2-stop-after-failed-apply", 11)
	c.Min("R2-durable-before-visible", 20)

	c.Guard("R2-resolve-after-advance", syncFn, CallTo{c12mr + "slot.completeResolutions"}, "after: go.etcd.io/raft/v3.RawNode.Advance")
	c.Guard("R2-resolve-after-advance", syncFn, advance, "after: "+c12mr+"slot.applyCommittedEntries")

	// synchronous apply happens with the pipeline drained and after the snapshot (if any) was restored
	c.Guard("R2-sync-apply-preconditions", syncFn, applyCall,
		"*.slot.waitApplyIdle(*) == nil",
		"*.slot.shouldProcess(*) == true",
		"go.etcd.io/raft/v3.IsEmptySnap(*) == true || *.StateMachine.Restore(*) == nil",
		"go.etcd.io/raft/v3.IsEmptySnap(*) == true || *.decodeSlotSnapshotData(*)#2 == nil")
	c.Guard("R2-sync-apply-preconditions", syncFn, CallTo{c12mr + "StateMachine.Restore"}, "*.decodeSlotSnapshotData(*)#2 == nil", "*.slot.waitApplyIdle(*) == nil")
	c.Guard("R2-sync-apply-preconditions", task, applyCall, "*.slot.hasFatalErr(*) == false")
	c.CallShape("R2-sync-apply-preconditions", task, c12mr+"slot.applyCommittedEntries", "*(g, *, task.entries, *)")
	c.CallShape("R2-sync-apply-preconditions", syncFn, c12mr+"slot.applyCommittedEntries", "*(g, ctx, ready.CommittedEntries, *)")
	c.FollowedBy("R2-sync-apply-preconditions", task, applyCall, CallTo{c12mr + "slot.finishApply"})

	// applyCommittedEntries: index cursor, flush before membership change, errors are fatal
	c.StoreShape("R2-apply-loop", applyFn, "lastApplied", "*.Index")
	for _, cc := range []string{"ConfChange", "ConfChangeV2"} {
		c.Guard("R2-flush-before-confchange", applyFn, CallTo{"go.etcd.io/raft/v3.RawNode.ApplyConfChange"},
			"*.slot.applyCommittedEntries$1() == true || *.Type != "+c12Const(c, "go.etcd.io/raft/v3/raftpb", "Entry"+cc))
	}
	c.Guard("R2-flush-before-confchange", applyFn, CallTo{"go.etcd.io/raft/v3.RawNode.ApplyConfChange"},
		"go.etcd.io/raft/v3/raftpb.ConfChange.Unmarshal(*) == nil || go.etcd.io/raft/v3/raftpb.ConfChangeV2.Unmarshal(*) == nil")
	c.ConfineCalls("R2-flush-before-confchange", "go.etcd.io/raft/v3.RawNode.ApplyConfChange", 2, c12mr+"slot.applyCommittedEntries", c12CtrlRaft)

	c.Guard("R2-apply-error-is-fatal", flush, Ret{0, "false"}, "after: "+c12mr+"slot.fail")
	c.Guard("R2-apply-error-is-fatal", flush, StoreTo{Addr: "resolutions"}, "*.StateMachine.Apply(*)#1 == nil || *.BatchStateMachine.ApplyBatch(*)#1 == nil")
	for _, eff := range []Effect{CallTo{c12mr + "StateMachine.Apply"}, CallTo{c12mr + "BatchStateMachine.ApplyBatch"}, StoreTo{Addr: "resolutions"}} {
		c12EdgeExcludes(c, "R2-apply-error-is-fatal", flush, "*.decodeProposalPayload(*)#2 != nil", false, eff)
	}
	c12EdgeExcludes(c, "R2-apply-error-is-fatal", flush, "*.StateMachine.Apply(*)#1 != nil", false, StoreTo{Addr: "resolutions"})
	c12EdgeExcludes(c, "R2-apply-error-is-fatal", flush, "*.BatchStateMachine.ApplyBatch(*)#1 != nil", false, StoreTo{Addr: "resolutions"})
	c.LiteralComplete("R2-apply-loop", flush, c12mr+"Command", []string{"SlotID", "HashSlot", "Index", "Term", "Data"}, nil)
	c.StoreShape("R2-apply-loop", flush, "*Command.Data", "*.decodeProposalPayload(*.Data)#1")
	c.StoreShape("R2-apply-loop", flush, "*Command.HashSlot", "*.decodeProposalPayload(*.Data)#0")
	c.StoreShape("R2-apply-loop", flush, "*Command.Index", "*.Index")
	c.StoreShape("R2-apply-loop", flush, "*Command.Term", "*.Term")
	c.StoreShape("R2-apply-loop", flush, "*Command.SlotID", "g.id")
	hf := c.Fn(c12mr + "slot.hasFatalErr")
	c.Guard("R2-apply-error-is-fatal", hf, AnyRet{}, "after: sync.Mutex.Lock")
	if hf != nil {
		ok := false
		for _, in := range instrsMatching(hf, AnyRet{}) {
			if r := in.(*ssa.Return); len(r.Results) == 1 && Path(retOperand(r, 0)) == "(g.fatalErr != nil)" {
				ok = true
			} else {
				ok = false
				break
			}
		}
		st := Held
		if !ok {
			st = Violated
		}
		c.add("shape", "R2-apply-error-is-fatal", c12mr+"slot.hasFatalErr#returns fatalErr != nil", st, c.P.Pos(hf.Pos()), "hasFatalErr must report exactly g.fatalErr != nil")
	}
	c.StoreShape("R2-apply-error-is-fatal", c.Fn(c12mr+"slot.fail"), "g.fatalErr", "err")

	// who may drive the protocol steps
	c.ConfineCalls("R2-confine", "go.etcd.io/raft/v3.RawNode.Advance", 3, c12mr+"slot.processReadySynchronously", c12mr+"slot.processReadyAsyncNormal", c12CtrlRaft)
	c.ConfineCalls("R2-confine", "go.etcd.io/raft/v3.RawNode.Ready", 1, c12mr+"slot.processReady", c12CtrlRaft)
	c.ConfineCalls("R2-confine", c12mr+"slot.applyCommittedEntries", 2, c12mr+"slot.processReadySynchronously", c12mr+"slot.runApplyTask")
	c.ConfineCalls("R2-confine", c12mr+"slot.processReadySynchronously", 3, c12mr+"slot.processReady", c12mr+"slot.processReadyAsyncNormal")
	c.ConfineCalls("R2-confine", c12mr+"slot.processReadyAsyncNormal", 1, c12mr+"slot.processReady")
	c.ConfineCalls("R2-confine", c12mr+"slot.completeResolutions", 2, c12mr+"slot.processReadySynchronously", c12mr+"slot.runApplyTask")
	c.ConfineCalls("R2-confine", c12mr+"slot.setDurableAppliedIndex", 2, c12mr+"slot.processReadySynchronously", c12mr+"slot.runApplyTask")
	c.ConfineCalls("R2-confine", c12mr+"slot.markApplied", 2, c12mr+"slot.processReadySynchronously", c12mr+"slot.runApplyTask")
	c.ConfineCalls("R2-confine", c12mr+"Storage.MarkApplied", 2, c12mr+"slot.markApplied",
		c12mr+"slot.compactLogAt") // compactLogAt mirrors the already-applied watermark right before it snapshots at that index
	c.ConfineCalls("R2-confine", c12mr+"BatchStateMachine.ApplyBatch", 1, c12mr+"slot.applyCommittedEntries")
	c.ConfineCalls("R2-confine", c12mr+"StateMachine.Apply", 1, c12mr+"slot.applyCommittedEntries")
	c.ConfineCalls("R2-confine", c12mr+"StateMachine.Restore", 2, c12mr+"slot.processReadySynchronously", c12mr+"newSlot")

	// ---- R3: durable applied index
	dai := "*.DurableAppliedStateMachine.DurableAppliedIndex(*)"
	c.Guard("R3-markapplied", markApplied, CallTo{c12mr + "Storage.MarkApplied"},
		"*.(DurableAppliedStateMachine)#1 == false || "+dai+"#0 <= index",
		"*.(DurableAppliedStateMachine)#1 == false || "+dai+"#1 == nil")
	c.Guard("R3-markapplied", markApplied, RetNil{}, dai+"#0 == index")
	c.CallShape("R3-markapplied", markApplied, c12mr+"Storage.MarkApplied", "*(g.storage, ctx, index)")
	c.Mono("R3-applied-monotone", c12mr+"slot.durableAppliedIndex", MonoOpts{})
	c.ConfineStores("R3-applied-monotone", c12mr+"slot.durableAppliedIndex", false, c12mr+"slot.setDurableAppliedIndex")
	// restart: raft resumes after the larger of the stored and the state-machine applied index
	newSlot := c.Fn(c12mr + "newSlot")
	c.StoreShape("R3-restart-applied", newSlot, "*Config.Applied",
		"phi(*.Metadata.Index|*.AppliedIndex|*.AppliedIndex|*.DurableAppliedStateMachine.DurableAppliedIndex(*)#0)")
	c12EdgeExcludes(c, "R3-restart-applied", newSlot, dai+"#0 > *.AppliedIndex", false, nil)
	c.Guard("R3-restart-applied", newSlot, RetNil{}, dai+"#1 == nil || *.(DurableAppliedStateMachine)#1 == false || go.etcd.io/raft/v3.IsEmptySnap(*) == false")

	// the FSM commits its applied index atomically with the commands it applied
	ab := c.Fn("pkg/slot/fsm.stateMachine.ApplyBatch")
	c13SingleBatch(c, "R3-applied-index-same-batch", ab)
	c.Guard("R3-applied-index-same-batch", ab, CallTo{"pkg/db/meta.WriteBatch.Commit"},
		"pkg/db/meta.WriteBatch.SetSlotAppliedIndex(*) == nil || len(cmds) <= 0 || cmds[*].Index <= 0")
	c.CallShape("R3-applied-index-same-batch", ab, "pkg/db/meta.WriteBatch.SetSlotAppliedIndex", "*(*, m.slot, cmds[(len(*) - 1)].Index)")
	restore := c.Fn("pkg/slot/fsm.stateMachine.Restore")
	c.Guard("R3-applied-index-same-batch", restore, CallTo{"pkg/db/meta.WriteBatch.Commit"}, "pkg/db/meta.WriteBatch.SetSlotAppliedIndex(*) == nil", "pkg/db/meta.DB.ImportHashSlotSnapshot(*) == nil")
	c.CallShape("R3-applied-index-same-batch", restore, "pkg/db/meta.WriteBatch.SetSlotAppliedIndex", "*(*, m.slot, snap.Index)")
	c.CallShape("R3-applied-index-same-batch", c.Fn("pkg/slot/fsm.stateMachine.DurableAppliedIndex"), "pkg/db/meta.DB.SlotAppliedIndex", "*(m.db, ctx, m.slot)")

	// log compaction never drops entries before the snapshot that replaces them is durable
	compact := c.Fn(c12mr + "slot.compactLogAt")
	c.Guard("R3-compaction", compact, CallTo{"go.etcd.io/raft/v3.MemoryStorage.Compact"},
		"phi(*.ExternalSnapshotStorage.ReplaceSnapshot(*)|*.Storage.Save(*)) == nil",
		"*.StateMachine.Snapshot(*)#1 == nil",
		"*.Storage.MarkApplied(*) == nil || *.(DurableAppliedStateMachine)#1 == false")
	c.CallShape("R3-compaction", compact, "go.etcd.io/raft/v3.MemoryStorage.Compact", "*(*, applied)")
	c.CallShape("R3-compaction", compact, "go.etcd.io/raft/v3.MemoryStorage.CreateSnapshot", "*(*, applied, *)")
	c.StoreShape("R3-compaction", compact, "*SnapshotMetadata.Index", "applied")
	c.ConfineCalls("R3-compaction", c12mr+"slot.compactLogAt", 2, c12mr+"slot.compactLog", c12mr+"slot.compactLogManually", c12mr+"slot.processControls*", c12mr+"slot.*Snapshot*")

	// ---- R4: futures are resolved by (index, term); leadership loss fails what depends on it
	for _, p := range []struct{ fn, m string }{{"slot.resolveProposal", "pendingProposals"}, {"slot.resolveConfig", "pendingConfigs"}} {
		fn := c.Fn(c12mr + p.fn)
		for _, eff := range []Effect{CallTo{c12mr + "future.resolveAndDispatch"}, CallTo{"delete(g." + p.m + ", index)"}} {
			c.Guard("R4-future-index-term", fn, eff, "g."+p.m+"[index]#1 == true", "*.term == term")
		}
	}
	c.Guard("R4-future-index-term", c.Fn(c12mr+"slot.proposalFuture"), RetNot{0, []string{"nil"}}, "g.pendingProposals[index]#1 == true", "*.term == term")
	c.Guard("R4-future-index-term", c.Fn(c12mr+"slot.proposalFutures"), StoreTo{Addr: "make([]future, *)[*]"}, "g.pendingProposals[*.Index]#1 == true", "*.term == *.Term")
	c.ConfineStores("R4-future-once", c12mr+"future.result", false, c12mr+"future.resolve$1")
	c.ConfineStores("R4-future-once", c12mr+"future.err", false, c12mr+"future.resolve$1")
	c.CallShape("R4-future-once", c.Fn(c12mr+"future.resolve"), "sync.Once.Do", "sync.Once.Do(f.once, closure:"+c12mr+"future.resolve$1)")
	disp := c.Fn(c12mr + "futureCompletion.dispatch")
	c.Guard("R4-future-once", disp, CallTo{"close(*.done)"}, "*.completionState == "+c12Const(c, "pkg/slot/multiraft", "futureCompletionTerminalPendingDispatch"))
	leader := c12Const(c, "pkg/slot/multiraft", "RoleLeader")
	c.Guard("R4-leadership-loss", c.Fn(c12mr+"slot.applyBasicStatusLocked"), AnyRet{},
		"after: "+c12mr+"slot.failLeadershipDependentLocked || g.status.Role != "+leader+" || g.status.Role == "+leader)
	c.CallShape("R4-leadership-loss", c.Fn(c12mr+"slot.applyBasicStatusLocked"), c12mr+"slot.failLeadershipDependentLocked", "*(g, "+c12mr+"ErrNotLeader)")
}

// ---------------------------------------------------------------------------
// helpers (generic, also used by C13 / C39)

// c12Const renders a package-level constant the way Path renders it as an operand.
func c12Const(c *Ctx, pkg, name string) string {
	var scope *types.Scope
	if pk := c.P.Pkgs[pkg]; pk != nil {
		scope = pk.Types.Scope()
	} else {
		for _, sp := range c.P.SSA.AllPackages() {
			if sp.Pkg.Path() == pkg || shortPkg(sp.Pkg.Path()) == pkg {
				scope = sp.Pkg.Scope()
				break
			}
		}
	}
	if scope != nil {
		if k, ok := scope.Lookup(name).(*types.Const); ok {
			return k.Val().ExactString()
		}
	}
	c.add("anchor", "anchor", pkg+"."+name, Undecided, "", "anchored constant not found")
	return "<missing:" + name + ">"
}

// c12EdgeFn computes guard edges that cannot be written as a textual atom.
type c12EdgeFn func(fn *ssa.Function) (map[edge]bool, []string)

// c12From tunes c12GuardFrom.
type c12From struct {
	From  Effect               // start right after every instruction matching From (nil: function entry)
	Local bool                 // stay in the current loop iteration (see c12IterationStop)
	Extra map[string]c12EdgeFn // pseudo-atoms "@name" usable inside a guard disjunction
}

type c12Range struct{ lo, hi int }

func c12BarrierFrom(b *ssa.BasicBlock, lo int, afters []string) int {
	if len(afters) == 0 {
		return -1
	}
	for i := lo; i < len(b.Instrs); i++ {
		ci, ok := b.Instrs[i].(ssa.CallInstruction)
		if !ok {
			continue
		}
		if _, isDefer := b.Instrs[i].(*ssa.Defer); isDefer {
			continue
		}
		s := renderCall(ci.Common(), 0, nil)
		name := calleeName(ci.Common())
		for _, a := range afters {
			if glob(a, s) || (!strings.Contains(a, "(") && glob(a, name)) {
				return i
			}
		}
	}
	return -1
}

// c12IterationStop builds the "stay in this loop iteration" predicate: a block that strictly
// dominates the start block and also dominates every effect site can only be re-entered through a
// back edge of a loop that encloses both, i.e. by starting the next iteration.
func c12IterationStop(from *ssa.BasicBlock, effs []ssa.Instruction) func(*ssa.BasicBlock) bool {
	return func(s *ssa.BasicBlock) bool {
		if s == from || !s.Dominates(from) {
			return false
		}
		for _, e := range effs {
			if !s.Dominates(e.Block()) {
				return false
			}
		}
		return true
	}
}

// c12Reach: which instruction ranges are reachable from `start` (exclusive; nil = entry)
// without crossing a removed edge or a barrier call. Blocks for which stop(b) holds are never
// entered (see c12IterationStop).
func c12Reach(fn *ssa.Function, startBlock *ssa.BasicBlock, startIdx int, stop func(*ssa.BasicBlock) bool, removed map[edge]bool, afters []string) map[*ssa.BasicBlock]c12Range {
	out := map[*ssa.BasicBlock]c12Range{}
	type item struct {
		b  *ssa.BasicBlock
		lo int
	}
	work := []item{{startBlock, startIdx}}
	for len(work) > 0 {
		it := work[len(work)-1]
		work = work[:len(work)-1]
		if r, ok := out[it.b]; ok && r.lo <= it.lo {
			continue
		}
		hi := len(it.b.Instrs)
		follow := true
		if bi := c12BarrierFrom(it.b, it.lo, afters); bi >= 0 {
			hi = bi + 1
			follow = false
		}
		if r, ok := out[it.b]; ok && r.hi > hi {
			hi = r.hi
		}
		out[it.b] = c12Range{it.lo, hi}
		if !follow {
			continue
		}
		for si, s := range it.b.Succs {
			if removed[edge{it.b, si}] {
				continue
			}
			if stop != nil && stop(s) {
				continue
			}
			work = append(work, item{s, 0})
		}
	}
	return out
}

func c12SplitGuard(gs string, extra map[string]c12EdgeFn, fn *ssa.Function) (guardSpec, map[edge]bool, []string, bool) {
	var plain []string
	ex := map[edge]bool{}
	var descr []string
	ok := true
	for _, part := range splitTop(gs, " || ") {
		if strings.HasPrefix(part, "@") {
			f := extra[part]
			if f == nil {
				ok = false
				continue
			}
			es, d := f(fn)
			for e := range es {
				ex[e] = true
			}
			descr = append(descr, d...)
			continue
		}
		plain = append(plain, part)
	}
	g := guardSpec{src: gs}
	if len(plain) > 0 {
		g = parseGuard(strings.Join(plain, " || "))
		g.src = gs
	}
	return g, ex, descr, ok
}

// c12GuardFrom: like Ctx.Guard, but the walk starts right after each instruction matching
// o.From ("once X has run, E is reachable only through guard G") and may stay iteration-local.
func c12GuardFrom(c *Ctx, rule string, fn *ssa.Function, o c12From, eff Effect, guards ...string) {
	if fn == nil {
		return
	}
	fname := c.P.Name(fn)
	c.FuncsAnalysed[fname] = true
	fromDesc := "entry"
	var starts []ssa.Instruction
	if o.From != nil {
		fromDesc = o.From.String()
		starts = instrsMatching(fn, o.From)
		if len(starts) == 0 {
			c.add("guard", rule, fname+"#from "+fromDesc, Undecided, c.P.Pos(fn.Pos()), "no instruction matches the start point (the code moved)")
			return
		}
	}
	effs := instrsMatching(fn, eff)
	if len(effs) == 0 {
		c.add("guard", rule, fname+"#"+eff.String()+" after "+fromDesc, Undecided, c.P.Pos(fn.Pos()), "no instruction matches the effect (rule would be vacuous)")
		return
	}
	for _, gs := range guards {
		g, extraEdges, extraDescr, ok := c12SplitGuard(gs, o.Extra, fn)
		construct := fname + "#" + eff.String() + " after " + fromDesc + "⇐" + gs
		if !ok {
			c.add("guard", rule, construct, Undecided, c.P.Pos(fn.Pos()), "unknown pseudo-atom in guard")
			continue
		}
		removed, descr := guardEdges(fn, g)
		for e := range extraEdges {
			removed[e] = true
		}
		descr = append(descr, extraDescr...)
		c.EdgesRemoved += len(removed)
		var bad []string
		check := func(reach map[*ssa.BasicBlock]c12Range) {
			for _, e := range effs {
				r, ok := reach[e.Block()]
				if !ok {
					continue
				}
				if i := indexIn(e.Block(), e); i >= r.lo && i < r.hi {
					bad = append(bad, c.P.InstrPos(e))
				}
			}
		}
		if o.From == nil {
			check(c12Reach(fn, fn.Blocks[0], 0, nil, removed, g.afters))
		}
		for _, s := range starts {
			var stop func(*ssa.BasicBlock) bool
			if o.Local {
				stop = c12IterationStop(s.Block(), effs)
			}
			rm := removed
			if inf := c12InfeasiblePhiEdges(fn, s, stop); len(inf) > 0 {
				rm = map[edge]bool{}
				for e := range removed {
					rm[e] = true
				}
				for e := range inf {
					rm[e] = true
				}
			}
			check(c12Reach(fn, s.Block(), indexIn(s.Block(), s)+1, stop, rm, g.afters))
		}
		if len(bad) == 0 {
			c.add("guard", rule, construct, Held, c.P.InstrPos(effs[0]),
				fmt.Sprintf("%d start point(s), %d effect site(s); %d guard edge(s) removed [%s]; no unguarded path", len(starts), len(effs), len(removed), strings.Join(dedup(descr), "; ")))
		} else {
			c.add("guard", rule, construct, Violated, bad[0],
				fmt.Sprintf("in %s, after %q the effect %q is reachable without guard %q at %s", fname, fromDesc, eff.String(), gs, strings.Join(dedup(bad), ", ")))
		}
	}
}

// c12InfeasiblePhiEdges: branches on a boolean phi of constants (the SSA form of a local flag such as
// `shouldMark := false; if …{ shouldMark = true }`) whose outcome is fixed for every path that starts
// after `start`: if every phi operand arriving from a block reachable from the start is the same
// constant, the opposite branch edge cannot be taken on such a path.
func c12InfeasiblePhiEdges(fn *ssa.Function, start ssa.Instruction, stop func(*ssa.BasicBlock) bool) map[edge]bool {
	out := map[edge]bool{}
	reach := c12Reach(fn, start.Block(), indexIn(start.Block(), start)+1, stop, nil, nil)
	for b := range reach {
		if len(b.Instrs) == 0 {
			continue
		}
		iff, ok := b.Instrs[len(b.Instrs)-1].(*ssa.If)
		if !ok {
			continue
		}
		phi, ok := iff.Cond.(*ssa.Phi)
		if !ok {
			continue
		}
		pb := phi.Block()
		if pb == start.Block() {
			continue // the start block itself may have been entered through any predecessor
		}
		// the phi must be (re-)evaluated on every path from the start to this branch
		blocked := map[edge]bool{}
		for _, p := range pb.Preds {
			for si, sc := range p.Succs {
				if sc == pb {
					blocked[edge{p, si}] = true
				}
			}
		}
		if _, still := c12Reach(fn, start.Block(), indexIn(start.Block(), start)+1, stop, blocked, nil)[b]; still {
			continue
		}
		seenTrue, seenFalse, other := false, false, false
		for i, e := range phi.Edges {
			if _, ok := reach[pb.Preds[i]]; !ok {
				continue
			}
			k, ok := e.(*ssa.Const)
			if !ok {
				other = true
				continue
			}
			switch constString(k) {
			case "true":
				seenTrue = true
			case "false":
				seenFalse = true
			default:
				other = true
			}
		}
		if other || seenTrue == seenFalse {
			continue
		}
		if seenTrue {
			out[edge{b, 1}] = true
		} else {
			out[edge{b, 0}] = true
		}
	}
	return out
}

// c12EdgeExcludes: on every CFG edge that establishes `atom`, no instruction matching eff
// is reachable any more (local: before control returns to a block that strictly dominates the
// branch, i.e. the next loop iteration). At least one such edge must exist. eff == nil only
// asserts that the branch exists.
func c12EdgeExcludes(c *Ctx, rule string, fn *ssa.Function, atom string, local bool, eff Effect) {
	if fn == nil {
		return
	}
	fname := c.P.Name(fn)
	c.FuncsAnalysed[fname] = true
	effName := "branch exists"
	if eff != nil {
		effName = "excludes " + eff.String()
	}
	construct := fname + "#[" + atom + "] " + effName
	edges, descr := guardEdges(fn, parseGuard(atom))
	if len(edges) == 0 {
		c.add("guard", rule, construct, Violated, c.P.Pos(fn.Pos()), fmt.Sprintf("%s has no branch that tests %q (the check was removed or changed shape)", fname, atom))
		return
	}
	c.EdgesRemoved += len(edges)
	if eff == nil {
		c.add("guard", rule, construct, Held, c.P.Pos(fn.Pos()), fmt.Sprintf("%d branch edge(s) [%s]", len(edges), strings.Join(dedup(descr), "; ")))
		return
	}
	var bad []string
	effSites := instrsMatching(fn, eff)
	for e := range edges {
		var stop func(*ssa.BasicBlock) bool
		if local {
			stop = c12IterationStop(e.from, effSites)
		}
		tgt := e.from.Succs[e.succ]
		if stop != nil && stop(tgt) {
			continue
		}
		reach := c12Reach(fn, tgt, 0, stop, nil, nil)
		for b, r := range reach {
			for i := r.lo; i < r.hi; i++ {
				if eff.Match(b.Instrs[i]) {
					bad = append(bad, c.P.InstrPos(b.Instrs[i]))
				}
			}
		}
	}
	if len(bad) > 0 {
		c.add("guard", rule, construct, Violated, bad[0], fmt.Sprintf("in %s the effect %q is still reachable once %q holds: %s", fname, eff.String(), atom, strings.Join(dedup(bad), ", ")))
		return
	}
	c.add("guard", rule, construct, Held, c.P.Pos(fn.Pos()), fmt.Sprintf("%d branch edge(s) [%s]; the effect is unreachable from each", len(edges), strings.Join(dedup(descr), "; ")))
}

// c12AppliedCursor finds the single applyCommittedEntries call in fn and the local
// (Alloc) whose address is passed as its lastApplied cursor.
func c12AppliedCursor(fn *ssa.Function) (*ssa.Call, *ssa.Alloc) {
	var call *ssa.Call
	for _, in := range instrsMatching(fn, CallTo{c12mr + "slot.applyCommittedEntries"}) {
		cl, ok := in.(*ssa.Call)
		if !ok || call != nil {
			return nil, nil
		}
		call = cl
	}
	if call == nil || len(call.Call.Args) < 4 {
		return nil, nil
	}
	a, _ := call.Call.Args[3].(*ssa.Alloc)
	return call, a
}

func c12Before(x ssa.Instruction, call ssa.Instruction) bool {
	if x.Block() == call.Block() {
		return indexIn(x.Block(), x) < indexIn(call.Block(), call)
	}
	return x.Block().Dominates(call.Block())
}

func c12After(x ssa.Instruction, call ssa.Instruction) bool {
	if x.Block() == call.Block() {
		return indexIn(x.Block(), x) > indexIn(call.Block(), call)
	}
	return call.Block().Dominates(x.Block())
}

// c12NoNewApplied: edges on which "index reached by the apply loop <= index before it" holds:
// one operand is a load of the apply cursor taken after the applyCommittedEntries call, the other
// is the cursor's value from before the call (an earlier load of the same local, or the
// parameter-rooted value the cursor was initialised from).
func c12NoNewApplied(fn *ssa.Function) (map[edge]bool, []string) {
	edges := map[edge]bool{}
	var descr []string
	call, cursor := c12AppliedCursor(fn)
	if call == nil || cursor == nil {
		return edges, descr
	}
	isPost := func(v ssa.Value) bool {
		u, ok := v.(*ssa.UnOp)
		return ok && u.Op == token.MUL && u.X == ssa.Value(cursor) && c12After(u, call)
	}
	paramRooted := func(v ssa.Value) bool {
		for {
			switch x := v.(type) {
			case *ssa.UnOp:
				if x.Op != token.MUL {
					return false
				}
				v = x.X
			case *ssa.FieldAddr:
				v = x.X
			case *ssa.Field:
				v = x.X
			case *ssa.Parameter:
				return true
			case *ssa.Alloc:
				return spilledParam(x) != nil
			default:
				return false
			}
		}
	}
	isPre := func(v ssa.Value) bool {
		if u, ok := v.(*ssa.UnOp); ok && u.Op == token.MUL && u.X == ssa.Value(cursor) && c12Before(u, call) {
			return true
		}
		if !paramRooted(v) {
			return false
		}
		// the cursor was initialised from this very parameter path before the call
		for _, r := range *cursor.Referrers() {
			if st, ok := r.(*ssa.Store); ok && st.Addr == ssa.Value(cursor) && c12Before(st, call) && Path(st.Val) == Path(v) {
				return true
			}
		}
		return false
	}
	for _, b := range fn.Blocks {
		if len(b.Instrs) == 0 {
			continue
		}
		iff, ok := b.Instrs[len(b.Instrs)-1].(*ssa.If)
		if !ok {
			continue
		}
		bo, ok := iff.Cond.(*ssa.BinOp)
		if !ok {
			continue
		}
		op := bo.Op.String()
		var post2pre string // operator as "post op pre"
		switch {
		case isPost(bo.X) && isPre(bo.Y):
			post2pre = op
		case isPre(bo.X) && isPost(bo.Y):
			post2pre = mirrorOp[op]
		default:
			continue
		}
		if _, known := negOp[post2pre]; !known {
			continue
		}
		for si, truth := range []bool{true, false} {
			est := post2pre
			if !truth {
				est = negOp[post2pre]
			}
			if opSatisfies("<=", est) {
				edges[edge{b, si}] = true
				descr = append(descr, "applied-after "+est+" applied-before")
			}
		}
	}
	return edges, descr
}

// c12ArgIsAppliedCursor: argument k (receiver included) of every call to callee in fn is a
// plain load of the apply cursor local.
func c12ArgIsAppliedCursor(c *Ctx, rule string, fn *ssa.Function, callee string, k int) {
	if fn == nil {
		return
	}
	fname := c.P.Name(fn)
	construct := fmt.Sprintf("%s#arg%d of %s is the apply cursor", fname, k, callee)
	_, cursor := c12AppliedCursor(fn)
	if cursor == nil {
		c.add("shape", rule, construct, Undecided, c.P.Pos(fn.Pos()), "no single applyCommittedEntries call with a local cursor found")
		return
	}
	n := 0
	var bad []string
	for _, in := range instrsMatching(fn, CallTo{callee}) {
		n++
		args := callArgs(in.(ssa.CallInstruction).Common())
		okArg := false
		if k < len(args) {
			if u, ok := stripConv(args[k]).(*ssa.UnOp); ok && u.Op == token.MUL && u.X == ssa.Value(cursor) {
				okArg = true
			}
		}
		if !okArg {
			bad = append(bad, c.P.InstrPos(in))
		}
	}
	switch {
	case n == 0:
		c.add("shape", rule, construct, Undecided, c.P.Pos(fn.Pos()), "no call to "+callee)
	case len(bad) > 0:
		c.add("shape", rule, construct, Violated, bad[0], fmt.Sprintf("%s is called with an index that is not the cursor advanced by applyCommittedEntries (%s)", callee, strings.Join(bad, ", ")))
	default:
		c.add("shape", rule, construct, Held, c.P.Pos(fn.Pos()), fmt.Sprintf("%d call(s), each passes the cursor the apply loop advanced", n))
	}
}
