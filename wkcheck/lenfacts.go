package main

import (
	"go/token"

	"golang.org/x/tools/go/ssa"
)

// affine view of an integer value: base (may be nil) + constant
type affine struct {
	base ssa.Value
	k    int64
}

func affineOf(v ssa.Value) affine {
	v = stripConv(v)
	if k, ok := constInt(v); ok {
		return affine{nil, k}
	}
	if b, ok := v.(*ssa.BinOp); ok {
		switch b.Op {
		case token.ADD:
			if k, ok := constInt(b.Y); ok {
				a := affineOf(b.X)
				return affine{a.base, a.k + k}
			}
			if k, ok := constInt(b.X); ok {
				a := affineOf(b.Y)
				return affine{a.base, a.k + k}
			}
		case token.SUB:
			if k, ok := constInt(b.Y); ok {
				a := affineOf(b.X)
				return affine{a.base, a.k - k}
			}
		}
	}
	return affine{v, 0}
}

// madeLen: the length operand of the make() that produced x — x itself, or the only value ever stored into the
// field of a local struct that x is loaded from (`r := T{Items: make([]E, n)}` … `r.Items[i]`). nil if unknown.
func madeLen(x ssa.Value) ssa.Value {
	x = stripConv(x)
	if mk, ok := x.(*ssa.MakeSlice); ok {
		return mk.Len
	}
	ld, ok := x.(*ssa.UnOp)
	if !ok || ld.Op != token.MUL {
		return nil
	}
	fa, ok := ld.X.(*ssa.FieldAddr)
	if !ok {
		return nil
	}
	root, ok := fa.X.(*ssa.Alloc)
	if !ok || root.Referrers() == nil {
		return nil
	}
	var made ssa.Value
	stores := 0
	// `r := T{…}` builds the literal in its own temporary and copies it into r once: look at both
	roots := []*ssa.Alloc{root}
	whole := 0
	for _, r := range *root.Referrers() {
		if st, ok := r.(*ssa.Store); ok && st.Addr == ssa.Value(root) {
			whole++
			if l, ok := st.Val.(*ssa.UnOp); ok && l.Op == token.MUL {
				if lit, ok := l.X.(*ssa.Alloc); ok && lit.Referrers() != nil {
					roots = append(roots, lit)
				}
			}
		}
	}
	if whole > 1 || (whole == 1 && len(roots) == 1) {
		return nil
	}
	for _, rt := range roots {
		n, ok := madeLenIn(rt, fa.Field, rt != root || whole == 1)
		if !ok {
			return nil
		}
		if n.stores > 0 {
			stores += n.stores
			made = n.made
		}
	}
	if stores != 1 {
		return nil
	}
	return made
}

type madeLenResult struct {
	made   ssa.Value
	stores int
}

// madeLenIn scans one struct local: stores into its field `field`; ok=false if the struct or the field escapes.
// wholeStoreOK: one whole-struct store into this local has already been accounted for by the caller.
func madeLenIn(root *ssa.Alloc, field int, wholeStoreOK bool) (res madeLenResult, ok bool) {
	for _, r := range *root.Referrers() {
		switch y := r.(type) {
		case *ssa.FieldAddr:
			if y.Field != field || y.Referrers() == nil {
				continue
			}
			for _, rr := range *y.Referrers() {
				switch z := rr.(type) {
				case *ssa.Store:
					if z.Addr == ssa.Value(y) {
						res.stores++
						if mk, ok := stripConv(z.Val).(*ssa.MakeSlice); ok {
							res.made = mk.Len
						}
					} else {
						return res, false // the field's address is stored somewhere
					}
				case *ssa.UnOp, *ssa.DebugRef, *ssa.IndexAddr:
				default:
					return res, false // the field's address escapes
				}
			}
		case *ssa.Store:
			if y.Addr == ssa.Value(root) {
				if !wholeStoreOK {
					return res, false // the whole struct is overwritten somewhere
				}
				wholeStoreOK = false
			}
		case *ssa.UnOp, *ssa.DebugRef:
		default:
			return res, false // the struct's address escapes (call argument, closure)
		}
	}
	return res, true
}

func sameValue(a, b ssa.Value) bool {
	if a == nil || b == nil {
		return a == nil && b == nil
	}
	a, b = stripConv(a), stripConv(b)
	if a == b {
		return true
	}
	return Path(a) == Path(b)
}

// lenOf: if v is len(x') with x' the same sequence as x, returns true.
func isLenOf(v ssa.Value, x ssa.Value) bool {
	call, ok := stripConv(v).(*ssa.Call)
	if !ok {
		// the size the sequence was made with: `items := make([]T, n); for i := 0; i < n; i++ { items[i] = … }`
		if n := madeLen(x); n != nil && sameValue(v, n) {
			return true
		}
		return false
	}
	b, ok := call.Call.Value.(*ssa.Builtin)
	if !ok || b.Name() != "len" || len(call.Call.Args) != 1 {
		return false
	}
	return sameValue(call.Call.Args[0], x)
}

// lenMinus: v == len(x) - B (+ const): returns (B, const, true)
func lenMinus(v ssa.Value, x ssa.Value) (ssa.Value, int64, bool) {
	v = stripConv(v)
	a := affineOf(v)
	if a.base == nil {
		return nil, 0, false
	}
	if isLenOf(a.base, x) {
		return nil, a.k, true
	}
	if b, ok := stripConv(a.base).(*ssa.BinOp); ok && b.Op == token.SUB && isLenOf(b.X, x) {
		return b.Y, a.k, true
	}
	return nil, 0, false
}

// lenFactEdges: CFG edges of fn on which "idx < len(x)" (strict) / "idx <= len(x)" is established.
// Recognised facts (either orientation, after branch negation):
//
//	E  op len(x)            with E ≡ idx + c, c ≥ 0 (≥ 1 for strict when op is <=)
//	c  op len(x)            constants, for constant idx
//	K  op len(x) - B        proves B + K (op) len(x)
//	len(x) != 0             proves 0 < len(x)
func lenFactEdges(fn *ssa.Function, x ssa.Value, idx ssa.Value, strict bool) map[edge]bool {
	edges := map[edge]bool{}
	want := affineOf(idx)
	for _, b := range fn.Blocks {
		if len(b.Instrs) == 0 {
			continue
		}
		iff, ok := b.Instrs[len(b.Instrs)-1].(*ssa.If)
		if !ok {
			continue
		}
		cond := iff.Cond
		neg := false
		for {
			u, ok := cond.(*ssa.UnOp)
			if !ok || u.Op != token.NOT {
				break
			}
			cond = u.X
			neg = !neg
		}
		bin, ok := cond.(*ssa.BinOp)
		if !ok {
			continue
		}
		op := bin.Op.String()
		if _, isCmp := negOp[op]; !isCmp {
			continue
		}
		for si, truth := range []bool{true, false} {
			o := op
			if truth == neg {
				o = negOp[o]
			}
			// orient as L o R with R the "length side"
			L, R := bin.X, bin.Y
			if _, _, okL := lenMinus(L, x); okL {
				if _, _, okR := lenMinus(R, x); !okR {
					L, R = R, L
					o = mirrorOp[o]
				}
			}
			sub, lenK, okR := lenMinus(R, x)
			if !okR {
				continue
			}
			// fact: L o (len(x) - sub + lenK)   ⇒   L + sub - lenK o len(x)
			la := affineOf(L)
			la.k -= lenK
			if sub != nil {
				sa := affineOf(sub)
				if la.base != nil && sa.base != nil {
					// K o len(x) - B with both symbolic: proves (B + K) o len(x) for idx ≡ B + K exactly
					if add, ok := stripConv(idx).(*ssa.BinOp); ok && add.Op == token.ADD && la.k == 0 && sa.k == 0 &&
						((sameValue(add.X, sa.base) && sameValue(add.Y, la.base)) || (sameValue(add.X, la.base) && sameValue(add.Y, sa.base))) {
						if (o == "<") || (!strict && (o == "<=" || o == "==")) {
							edges[edge{b, si}] = true
						}
					}
					continue
				}
				if la.base == nil {
					la.base = sa.base
				}
				la.k += sa.k
			}
			// now: (la.base + la.k) o len(x)
			// slack s: len(x) - la.base >= s
			var slack int64
			switch o {
			case "<":
				slack = la.k + 1
			case "<=", "==":
				slack = la.k
			case "!=":
				if la.base == nil && la.k == 0 {
					slack = 1 // len(x) != 0
				} else {
					continue
				}
			default:
				continue
			}
			if !sameValue(la.base, want.base) {
				continue
			}
			need := want.k
			if strict {
				need++
			}
			if slack >= need {
				edges[edge{b, si}] = true
			}
		}
	}
	return edges
}
