package main

import (
	"go/token"

	"golang.org/x/tools/go/ssa"
)

// affine view of an integer value: base (may be nil) + constant
type affine struct {
	base ssa.Value
	k    int64
}

func affineOf(v ssa.Value) affine {
	v = stripConv(v)
	if k, ok := constInt(v); ok {
		return affine{nil, k}
	}
	if b, ok := v.(*ssa.BinOp); ok {
		switch b.Op {
		case token.ADD:
			if k, ok := constInt(b.Y); ok {
				a := affineOf(b.X)
				return affine{a.base, a.k + k}
			}
			if k, ok := constInt(b.X); ok {
				a := affineOf(b.Y)
				return affine{a.base, a.k + k}
			}
		case token.SUB:
			if k, ok := constInt(b.Y); ok {
				a := affineOf(b.X)
				return affine{a.base, a.k - k}
			}
		}
	}
	return affine{v, 0}
}

func sameValue(a, b ssa.Value) bool {
	if a == nil || b == nil {
		return a == nil && b == nil
	}
	a, b = stripConv(a), stripConv(b)
	if a == b {
		return true
	}
	return Path(a) == Path(b)
}

// lenOf: if v is len(x') with x' the same sequence as x, returns true.
func isLenOf(v ssa.Value, x ssa.Value) bool {
	call, ok := stripConv(v).(*ssa.Call)
	if !ok {
		return false
	}
	b, ok := call.Call.Value.(*ssa.Builtin)
	if !ok || b.Name() != "len" || len(call.Call.Args) != 1 {
		return false
	}
	return sameValue(call.Call.Args[0], x)
}

// lenMinus: v == len(x) - B (+ const): returns (B, const, true)
func lenMinus(v ssa.Value, x ssa.Value) (ssa.Value, int64, bool) {
	v = stripConv(v)
	a := affineOf(v)
	if a.base == nil {
		return nil, 0, false
	}
	if isLenOf(a.base, x) {
		return nil, a.k, true
	}
	if b, ok := stripConv(a.base).(*ssa.BinOp); ok && b.Op == token.SUB && isLenOf(b.X, x) {
		return b.Y, a.k, true
	}
	return nil, 0, false
}

// lenFactEdges: CFG edges of fn on which "idx < len(x)" (strict) / "idx <= len(x)" is established.
// Recognised facts (either orientation, after branch negation):
//
//	E  op len(x)            with E ≡ idx + c, c ≥ 0 (≥ 1 for strict when op is <=)
//	c  op len(x)            constants, for constant idx
//	K  op len(x) - B        proves B + K (op) len(x)
//	len(x) != 0             proves 0 < len(x)
func lenFactEdges(fn *ssa.Function, x ssa.Value, idx ssa.Value, strict bool) map[edge]bool {
	edges := map[edge]bool{}
	want := affineOf(idx)
	for _, b := range fn.Blocks {
		if len(b.Instrs) == 0 {
			continue
		}
		iff, ok := b.Instrs[len(b.Instrs)-1].(*ssa.If)
		if !ok {
			continue
		}
		cond := iff.Cond
		neg := false
		for {
			u, ok := cond.(*ssa.UnOp)
			if !ok || u.Op != token.NOT {
				break
			}
			cond = u.X
			neg = !neg
		}
		bin, ok := cond.(*ssa.BinOp)
		if !ok {
			continue
		}
		op := bin.Op.String()
		if _, isCmp := negOp[op]; !isCmp {
			continue
		}
		for si, truth := range []bool{true, false} {
			o := op
			if truth == neg {
				o = negOp[o]
			}
			// orient as L o R with R the "length side"
			L, R := bin.X, bin.Y
			if _, _, okL := lenMinus(L, x); okL {
				if _, _, okR := lenMinus(R, x); !okR {
					L, R = R, L
					o = mirrorOp[o]
				}
			}
			sub, lenK, okR := lenMinus(R, x)
			if !okR {
				continue
			}
			// fact: L o (len(x) - sub + lenK)   ⇒   L + sub - lenK o len(x)
			la := affineOf(L)
			la.k -= lenK
			if sub != nil {
				sa := affineOf(sub)
				if la.base != nil && sa.base != nil {
					// K o len(x) - B with both symbolic: proves (B + K) o len(x) for idx ≡ B + K exactly
					if add, ok := stripConv(idx).(*ssa.BinOp); ok && add.Op == token.ADD && la.k == 0 && sa.k == 0 &&
						((sameValue(add.X, sa.base) && sameValue(add.Y, la.base)) || (sameValue(add.X, la.base) && sameValue(add.Y, sa.base))) {
						if (o == "<") || (!strict && (o == "<=" || o == "==")) {
							edges[edge{b, si}] = true
						}
					}
					continue
				}
				if la.base == nil {
					la.base = sa.base
				}
				la.k += sa.k
			}
			// now: (la.base + la.k) o len(x)
			// slack s: len(x) - la.base >= s
			var slack int64
			switch o {
			case "<":
				slack = la.k + 1
			case "<=", "==":
				slack = la.k
			case "!=":
				if la.base == nil && la.k == 0 {
					slack = 1 // len(x) != 0
				} else {
					continue
				}
			default:
				continue
			}
			if !sameValue(la.base, want.base) {
				continue
			}
			need := want.k
			if strict {
				need++
			}
			if slack >= need {
				edges[edge{b, si}] = true
			}
		}
	}
	return edges
}
