package main

import (
	"fmt"
	"go/constant"
	"go/types"
	"sort"
	"strings"

	"golang.org/x/tools/go/ssa"
)

func init() {
	const (
		fPerm  = "internal/usecase/message/permission.go"
		fBatch = "internal/usecase/message/permission_batch.go"
		fSend  = "internal/usecase/message/send.go"
	)
	register(&PropSpec{
		ID:        "C36",
		Pkgs:      []string{"./internal/usecase/message"},
		Technique: "static analysis: decision-list extraction (CFG precedence of reason-emitting sites against a frozen table, per function, on both paths), SSA edge-dominance of every reason and every success exit on its defining fact (batch locals canonicalised to the plan slot they were read from), plan-slot literal tables, call guards for the system bypass",
		Explain:   "Decides the structural clause that the per-send path (checkSendPermission -> check*SendPermission -> checkCommonMemberPermission) and the batched path (check{Group,Person}SendPermissionsBatch -> evaluate{Group,Person}PermissionReadPlan) implement the same decision lists: (R1) in each function the set of reasons it can emit and their CFG precedence equal the frozen table (group: SendBan, ChannelNotExist | Ban, Disband, InBlacklist, SubscriberNotExist, NotInWhitelist; person: SendBan, Disband, InBlacklist, NotInWhitelist), and each reason is emitted only behind its defining fact (SendBan != 0, not found, Ban != 0, Disband != 0, denylist hit, not subscriber, allowlist non-empty and miss, AllowStranger == 0) while every success exit is behind the negations; (R2) system UIDs / the system device reach only checkTerminalChannelPermission on the per-send path, every exit of checkSendPermission that is not one of the enumerated early exits passes a terminal (or group) channel check, and in the batched evaluators a trusted plan can only produce SendBan/Disband/SystemError and still reaches the Disband test; (R3) ReasonSystemError is emitted only together with the non-nil error of the failed read, and a failed read is never swallowed; (R4) each batch plan slot reads the same fact (kind, channel id, channel type, uid) the per-send path queries, behind the same trust conditions, and the routing in resolveSendBatchPermissions sends exactly group/person channels to the matching evaluator. NOT decided: semantic equality of the two paths as functions (conditions are compared by operand/operator shape per reason, not by a product construction), the behaviour of PermissionStore/PermissionBatchStore implementations and of the cache, hook behaviour after the permission stage.",
		Run:       c36,
		Mutants: []Mutant{
			{Name: "batch-swap-ban-disband", File: fBatch, Old: "\tif group.Channel.Ban != 0 {\n\t\toutcome.reason = ReasonBan\n\t\treturn outcome\n\t}\n\tif group.Channel.Disband != 0 {\n\t\toutcome.reason = ReasonDisband\n\t\treturn outcome\n\t}\n", New: "\tif group.Channel.Disband != 0 {\n\t\toutcome.reason = ReasonDisband\n\t\treturn outcome\n\t}\n\tif group.Channel.Ban != 0 {\n\t\toutcome.reason = ReasonBan\n\t\treturn outcome\n\t}\n", Expect: "C36/R1-precedence*"},
			{Name: "persend-swap-blacklist-subscriber", File: fPerm, Old: "\tif denied {\n\t\treturn ReasonInBlacklist, nil\n\t}\n\n\tsubscriber, err := a.permissions.ContainsChannelSubscriber(ctx, key.ChannelID, channelType, fromUID)\n\tif err != nil {\n\t\treturn ReasonSystemError, err\n\t}\n\tif !subscriber {\n\t\treturn ReasonSubscriberNotExist, nil\n\t}\n", New: "\tsubscriber, err := a.permissions.ContainsChannelSubscriber(ctx, key.ChannelID, channelType, fromUID)\n\tif err != nil {\n\t\treturn ReasonSystemError, err\n\t}\n\tif !subscriber {\n\t\treturn ReasonSubscriberNotExist, nil\n\t}\n\tif denied {\n\t\treturn ReasonInBlacklist, nil\n\t}\n", Expect: "C36/R1-precedence*"},
			{Name: "batch-drop-sendban", File: fBatch, Old: "\t\tif sender.Found && sender.Channel.SendBan != 0 {\n\t\t\toutcome.reason = ReasonSendBan\n\t\t\treturn outcome\n\t\t}\n\t}\n\tgroup, _ := read(plan.groupChannel)", New: "\t}\n\tgroup, _ := read(plan.groupChannel)", Expect: "C36/R1-*"},
			{Name: "batch-wrong-reason", File: fBatch, Old: "\tif !subscriber.Value {\n\t\toutcome.reason = ReasonSubscriberNotExist", New: "\tif !subscriber.Value {\n\t\toutcome.reason = ReasonNotInWhitelist", Expect: "C36/R1-*"},
			{Name: "batch-subscriber-polarity", File: fBatch, Old: "\tif !subscriber.Value {\n", New: "\tif subscriber.Value {\n", Expect: "C36/R1-cond*"},
			{Name: "batch-person-disband-ignores-found", File: fBatch, Old: "\tif terminal.Found && terminal.Channel.Disband != 0 {", New: "\tif terminal.Found || terminal.Channel.Disband != 0 {", Expect: "C36/R1-cond*"},
			{Name: "batch-person-stranger-polarity", File: fBatch, Old: "if !receiver.Found || receiver.Channel.AllowStranger == 0 {", New: "if receiver.Found && receiver.Channel.AllowStranger != 0 {", Expect: "C36/R1-cond*"},
			{Name: "persend-group-ban-polarity", File: fPerm, Old: "\tif ch.Ban != 0 {\n\t\treturn ReasonBan, nil", New: "\tif ch.Ban == 0 {\n\t\treturn ReasonBan, nil", Expect: "C36/R1-cond*"},
			{Name: "persend-person-whitelist-skips-denylist", File: fPerm, Old: "\tif denied {\n\t\treturn ReasonInBlacklist, nil\n\t}\n\tif !a.personWhitelistEnabled {", New: "\tif denied && a.personWhitelistEnabled {\n\t\treturn ReasonInBlacklist, nil\n\t}\n\tif !a.personWhitelistEnabled {", Expect: "C36/R1-cond*"},
			{Name: "batch-trusted-skips-disband", File: fBatch, Old: "\tif plan.trusted {\n\t\tif group.Channel.Disband != 0 {\n\t\t\toutcome.reason = ReasonDisband\n\t\t}\n\t\treturn outcome\n\t}", New: "\tif plan.trusted {\n\t\treturn outcome\n\t}", Expect: "C36/R2-system*"},
			{Name: "batch-person-trusted-before-terminal", File: fBatch, Old: "\tterminal, _ := read(plan.terminalChannel)\n\tif terminal.Err != nil {", New: "\tif plan.trusted {\n\t\treturn outcome\n\t}\n\tterminal, _ := read(plan.terminalChannel)\n\tif terminal.Err != nil {", Expect: "C36/R2-system*"},
			{Name: "persend-system-uid-skips-terminal", File: fPerm, Old: "\tif a.systemUIDs != nil && a.systemUIDs.IsSystemUID(cmd.FromUID) {\n\t\treason, err := a.checkTerminalChannelPermission(ctx, cmd)\n\t\treturn reapplyCommandChannel(cmd), reason, err\n\t}", New: "\tif a.systemUIDs != nil && a.systemUIDs.IsSystemUID(cmd.FromUID) {\n\t\treturn reapplyCommandChannel(cmd), ReasonSuccess, nil\n\t}", Expect: "C36/R2-system*"},
			{Name: "persend-device-check-before-sender-ban", File: fPerm, Old: "\tif reason, err := a.checkSenderSendPermission(ctx, cmd.FromUID); reason != ReasonSuccess || err != nil {\n\t\treturn cmd, reason, err\n\t}\n\tif a.systemDeviceID != \"\" && cmd.DeviceID == a.systemDeviceID {\n\t\treason, err := a.checkTerminalChannelPermission(ctx, cmd)\n\t\treturn reapplyCommandChannel(cmd), reason, err\n\t}\n", New: "\tif a.systemDeviceID != \"\" && cmd.DeviceID == a.systemDeviceID {\n\t\treason, err := a.checkTerminalChannelPermission(ctx, cmd)\n\t\treturn reapplyCommandChannel(cmd), reason, err\n\t}\n\tif reason, err := a.checkSenderSendPermission(ctx, cmd.FromUID); reason != ReasonSuccess || err != nil {\n\t\treturn cmd, reason, err\n\t}\n", Expect: "C36/R2-system*"},
			{Name: "persend-person-skips-terminal", File: fPerm, Old: "\t\tif reason, err = a.checkTerminalChannelPermission(ctx, cmd); err != nil || reason != ReasonSuccess {\n\t\t\tbreak\n\t\t}\n\t\treason, err = a.checkPersonSendPermission(ctx, cmd)", New: "\t\treason, err = a.checkPersonSendPermission(ctx, cmd)", Expect: "C36/R2-system*"},
			{Name: "batch-swallow-read-error", File: fBatch, Old: "\tif denied.Err != nil {\n\t\toutcome.reason, outcome.err = ReasonSystemError, denied.Err\n\t\treturn outcome\n\t}\n\tif denied.Value {\n\t\toutcome.reason = ReasonInBlacklist\n\t\treturn outcome\n\t}\n\tsubscriber, _ := read(plan.subscriber)", New: "\tif denied.Value {\n\t\toutcome.reason = ReasonInBlacklist\n\t\treturn outcome\n\t}\n\tsubscriber, _ := read(plan.subscriber)", Expect: "C36/R3-syserr*"},
			{Name: "persend-syserr-without-error", File: fPerm, Old: "\thasAllowlist, err := a.permissions.HasChannelSubscribers(ctx, allowID, channelType)\n\tif err != nil {\n\t\treturn ReasonSystemError, err\n\t}", New: "\thasAllowlist, err := a.permissions.HasChannelSubscribers(ctx, allowID, channelType)\n\tif err != nil {\n\t\treturn ReasonSystemError, nil\n\t}", Expect: "C36/R3-syserr*"},
			{Name: "plan-subscriber-reads-allowlist", File: fBatch, Old: "Kind: PermissionReadSubscriberContains, ChannelID: sourceChannelID, ChannelType: channelType, UID: cmd.FromUID,", New: "Kind: PermissionReadSubscriberContains, ChannelID: allowID, ChannelType: channelType, UID: cmd.FromUID,", Expect: "C36/R4-plan*"},
			{Name: "plan-sender-read-for-trusted-only", File: fBatch, Old: "\t\tplan.trusted = a.systemUIDs != nil && a.systemUIDs.IsSystemUID(cmd.FromUID)\n\t\tif !plan.trusted {\n\t\t\tplan.senderChannel", New: "\t\tplan.trusted = a.systemUIDs != nil && a.systemUIDs.IsSystemUID(cmd.FromUID)\n\t\tif plan.trusted {\n\t\t\tplan.senderChannel", Expect: "C36/R4-plan*"},
			{Name: "route-info-to-person-evaluator", File: fSend, Old: "\t\t\tcase channelTypePerson:\n\t\t\t\tbatchedPersons = append(batchedPersons, groupIndex)", New: "\t\t\tcase channelTypePerson, channelTypeInfo:\n\t\t\t\tbatchedPersons = append(batchedPersons, groupIndex)", Expect: "C36/R4-route*"},
		},
	})
}

const c36Pkg = "internal/usecase/message."

// c36Reasons resolves the Reason constants (name → rendered value) from the contracts package.
func c36Reasons(c *Ctx) map[string]string {
	out := map[string]string{}
	pk := c.P.Pkgs["internal/usecase/message"]
	if pk == nil {
		return out
	}
	for _, imp := range pk.Types.Imports() {
		if !strings.HasSuffix(imp.Path(), "internal/contracts/channelappend") {
			continue
		}
		sc := imp.Scope()
		for _, n := range sc.Names() {
			if k, ok := sc.Lookup(n).(*types.Const); ok && strings.HasPrefix(n, "Reason") && typeBaseName(k.Type()) == "Reason" {
				out[strings.TrimPrefix(n, "Reason")] = k.Val().ExactString()
			}
		}
	}
	return out
}

func c36ConstOf(c *Ctx, name string) string {
	pk := c.P.Pkgs["internal/usecase/message"]
	if pk != nil {
		if k, ok := pk.Types.Scope().Lookup(name).(*types.Const); ok {
			return k.Val().ExactString()
		}
	}
	c.add("anchor", "anchor", c36Pkg+name, Undecided, "", "anchored constant not found")
	return "<missing " + name + ">"
}

// ---------------------------------------------------------------------------
// canonical names for batch locals: a local assigned once from read(plan.F)#0 is "read(F)".

func c36Canon(fn *ssa.Function) func(string) string {
	if fn == nil || len(fn.Params) == 0 {
		return func(s string) string { return s }
	}
	plan := fn.Params[0].Name()
	type rep struct{ from, to string }
	var reps []rep
	names := map[string]string{}
	dup := map[string]bool{}
	for _, b := range fn.Blocks {
		for _, in := range b.Instrs {
			call, ok := in.(*ssa.Call)
			if !ok {
				continue
			}
			var callee *ssa.Function
			switch v := call.Call.Value.(type) {
			case *ssa.MakeClosure:
				callee, _ = v.Fn.(*ssa.Function)
			case *ssa.Function:
				callee = v
			}
			if callee == nil || callee.Parent() != fn || len(call.Call.Args) != 1 {
				continue
			}
			arg := Path(call.Call.Args[0])
			if !strings.HasPrefix(arg, plan+".") {
				continue
			}
			slot := "read(" + strings.TrimPrefix(arg, plan+".") + ")"
			// (the fact itself is result #0; a read-only local bound to it renders as the call)
			reps = append(reps, rep{renderCall(&call.Call, 0, nil) + "#0", slot}, rep{renderCall(&call.Call, 0, nil), slot})
			// locals assigned from #0 of this call
			if call.Referrers() == nil {
				continue
			}
			for _, r := range *call.Referrers() {
				ex, ok := r.(*ssa.Extract)
				if !ok || ex.Index != 0 || ex.Referrers() == nil {
					continue
				}
				for _, rr := range *ex.Referrers() {
					st, ok := rr.(*ssa.Store)
					if !ok {
						continue
					}
					a, ok := st.Addr.(*ssa.Alloc)
					if !ok {
						continue
					}
					n := 0
					for _, ar := range *a.Referrers() {
						if s2, ok := ar.(*ssa.Store); ok && s2.Addr == ssa.Value(a) {
							n++
						}
					}
					name := Path(a)
					if n != 1 {
						continue
					}
					if _, seen := names[name]; seen {
						dup[name] = true
					}
					names[name] = slot
				}
			}
		}
	}
	sort.Slice(reps, func(i, j int) bool { return len(reps[i].from) > len(reps[j].from) })
	return func(s string) string {
		for _, r := range reps {
			s = strings.ReplaceAll(s, r.from, r.to)
		}
		for name, slot := range names {
			if dup[name] {
				continue
			}
			if s == name {
				return slot
			}
			if strings.HasPrefix(s, name+".") {
				return slot + s[len(name):]
			}
		}
		return s
	}
}

// c36Edges: like guardEdges, with both operands passed through canon first.
func c36Edges(fn *ssa.Function, spec string, canon func(string) string) (map[edge]bool, []string) {
	g := parseGuard(spec)
	edges := map[edge]bool{}
	var descr []string
	for _, b := range fn.Blocks {
		if len(b.Instrs) == 0 {
			continue
		}
		iff, ok := b.Instrs[len(b.Instrs)-1].(*ssa.If)
		if !ok {
			continue
		}
		for si, truth := range []bool{true, false} {
			a, ok := condAtom(iff.Cond, truth)
			if !ok {
				continue
			}
			a.L, a.R = canon(a.L), canon(a.R)
			for _, sp := range g.atoms {
				if sp.Satisfies(a) {
					edges[edge{b, si}] = true
					descr = append(descr, a.String())
				}
			}
		}
	}
	threadedGuardEdgesCanon(fn, g, canon, edges, &descr)
	return edges, descr
}

// c36Reach: blocks (with the number of leading instructions) reachable from the entry
// without crossing a removed edge or executing a barrier instruction.
func c36Reach(fn *ssa.Function, removed map[edge]bool, barrier func(ssa.Instruction) bool) map[*ssa.BasicBlock]int {
	if lim := reachUnguardedBarrier(fn, removed, func(b *ssa.BasicBlock) int {
		if barrier != nil {
			for i, in := range b.Instrs {
				if barrier(in) {
					return i
				}
			}
		}
		return -1
	}); lim != nil {
		return lim // infeasible paths through merged conditions pruned
	}
	limit := map[*ssa.BasicBlock]int{}
	if len(fn.Blocks) == 0 {
		return limit
	}
	work := []*ssa.BasicBlock{fn.Blocks[0]}
	seen := map[*ssa.BasicBlock]bool{fn.Blocks[0]: true}
	for len(work) > 0 {
		b := work[len(work)-1]
		work = work[:len(work)-1]
		stop := -1
		if barrier != nil {
			for i, in := range b.Instrs {
				if barrier(in) {
					stop = i
					break
				}
			}
		}
		if stop >= 0 {
			limit[b] = stop + 1
			continue
		}
		limit[b] = len(b.Instrs)
		for si, s := range b.Succs {
			if removed[edge{b, si}] || seen[s] {
				continue
			}
			seen[s] = true
			work = append(work, s)
		}
	}
	return limit
}

// c36GuardInstrs: every instruction in effs is unreachable once the edges of each guard are removed.
func c36GuardInstrs(c *Ctx, rule string, fn *ssa.Function, effName string, effs []ssa.Instruction, canon func(string) string, barrier func(ssa.Instruction) bool, guards ...string) {
	fname := c.P.Name(fn)
	if len(effs) == 0 {
		c.add("guard", rule, fname+"#"+effName, Undecided, c.P.Pos(fn.Pos()), "no instruction matches the effect (rule would be vacuous)")
		return
	}
	for _, gs := range guards {
		removed, descr := c36Edges(fn, gs, canon)
		c.EdgesRemoved += len(removed)
		limit := c36Reach(fn, removed, barrier)
		// per-path blocking through merged conditions (`ok := a && b; if !ok {`), when the function has any
		if lim := reachGuardedCanon(fn, parseGuard(gs), canon, removed, func(b *ssa.BasicBlock) int {
			if barrier != nil {
				for i, in := range b.Instrs {
					if barrier(in) {
						return i
					}
				}
			}
			return -1
		}); lim != nil {
			limit = lim
		}
		var bad []string
		for _, e := range effs {
			if lim, ok := limit[e.Block()]; ok && indexIn(e.Block(), e) < lim {
				bad = append(bad, c.P.InstrPos(e))
			}
		}
		construct := fname + "#" + effName + "⇐" + gs
		if len(bad) == 0 {
			c.add("guard", rule, construct, Held, c.P.InstrPos(effs[0]), fmt.Sprintf("%d effect site(s); %d guard edge(s) removed [%s]", len(effs), len(removed), strings.Join(dedup(descr), "; ")))
		} else {
			c.add("guard", rule, construct, Violated, bad[0], fmt.Sprintf("%s in %s reachable without %q at %s", effName, fname, gs, strings.Join(bad, ", ")))
		}
	}
}

// ---------------------------------------------------------------------------
// tokens and precedence

type c36Token struct {
	name    string
	in      ssa.Instruction
	decider *ssa.BasicBlock
}

// c36Decider: the branch that decides whether the site in block b is reached (the nearest
// conditional block up the chain of unique predecessors).
func c36Decider(b *ssa.BasicBlock) *ssa.BasicBlock {
	cur := b
	for i := 0; i < 64; i++ {
		if cur != b {
			if _, ok := cur.Instrs[len(cur.Instrs)-1].(*ssa.If); ok {
				return cur
			}
		}
		if len(cur.Preds) != 1 {
			return cur
		}
		cur = cur.Preds[0]
	}
	return cur
}

func c36Reaches(from, to *ssa.BasicBlock) bool {
	seen := map[*ssa.BasicBlock]bool{}
	work := append([]*ssa.BasicBlock{}, from.Succs...)
	for len(work) > 0 {
		b := work[len(work)-1]
		work = work[:len(work)-1]
		if b == to {
			return true
		}
		if seen[b] {
			continue
		}
		seen[b] = true
		work = append(work, b.Succs...)
	}
	return false
}

// c36Tokens lists the reason-emitting sites of fn: stores of a non-zero Reason constant into
// sendBatchPermissionOutcome.reason, returns of a non-zero Reason constant, and tail calls of
// another permission check whose reason is returned unchanged.
func c36Tokens(c *Ctx, fn *ssa.Function, byValue map[string]string, reasonField *types.Var) []c36Token {
	var out []c36Token
	add := func(name string, in ssa.Instruction) {
		out = append(out, c36Token{name, in, c36Decider(in.Block())})
	}
	for _, b := range fn.Blocks {
		for _, in := range b.Instrs {
			switch x := in.(type) {
			case *ssa.Store:
				fa, ok := x.Addr.(*ssa.FieldAddr)
				if !ok || reasonField == nil || fieldVar(fa.X.Type(), fa.Field) != reasonField {
					continue
				}
				if isFreshAlloc(fa.X) {
					if k, ok := x.Val.(*ssa.Const); ok && k.Value != nil && constant.Sign(k.Value) == 0 {
						continue // the literal's initial ReasonSuccess
					}
				}
				k, ok := x.Val.(*ssa.Const)
				if !ok || k.Value == nil {
					add("<non-constant "+Path(x.Val)+">", in)
					continue
				}
				if constant.Sign(k.Value) == 0 {
					continue
				}
				name, ok := byValue[k.Value.ExactString()]
				if !ok {
					name = "<unknown " + k.Value.ExactString() + ">"
				}
				add(name, in)
			case *ssa.Return:
				idx := -1
				for i, r := range x.Results {
					if typeBaseName(r.Type()) == "Reason" {
						idx = i
					}
				}
				if idx < 0 {
					continue
				}
				v := retOperand(x, idx)
				switch k := v.(type) {
				case *ssa.Const:
					if k.Value == nil || constant.Sign(k.Value) == 0 {
						continue
					}
					name, ok := byValue[k.Value.ExactString()]
					if !ok {
						name = "<unknown " + k.Value.ExactString() + ">"
					}
					add(name, in)
				case *ssa.Extract:
					if call, ok := k.Tuple.(*ssa.Call); ok {
						add("→"+strings.TrimPrefix(calleeName(&call.Call), c36Pkg+"App."), call)
					}
				}
			}
		}
	}
	return out
}

// c36Precedence checks the token set and the frozen chains of one function.
func c36Precedence(c *Ctx, rule string, fn *ssa.Function, byValue map[string]string, reasonField *types.Var, chains ...[]string) {
	if fn == nil {
		return
	}
	fname := c.P.Name(fn)
	toks := c36Tokens(c, fn, byValue, reasonField)
	have := map[string][]c36Token{}
	for _, t := range toks {
		if t.name == "SystemError" {
			continue
		}
		have[t.name] = append(have[t.name], t)
	}
	want := map[string]bool{}
	for _, ch := range chains {
		for _, n := range ch {
			want[n] = true
		}
	}
	var missing, extra []string
	for n := range want {
		if len(have[n]) == 0 {
			missing = append(missing, n)
		}
	}
	for n := range have {
		if !want[n] {
			extra = append(extra, n)
		}
	}
	sort.Strings(missing)
	sort.Strings(extra)
	construct := fname + "#reason-set"
	if len(missing)+len(extra) > 0 {
		c.add("declist", rule, construct, Violated, c.P.Pos(fn.Pos()), fmt.Sprintf("%s no longer emits exactly the frozen set of reasons: missing %v, unexpected %v (the sibling path would decide differently)", fname, missing, extra))
	} else {
		var ns []string
		for n := range have {
			ns = append(ns, fmt.Sprintf("%s×%d", n, len(have[n])))
		}
		sort.Strings(ns)
		c.add("declist", rule, construct, Held, c.P.Pos(fn.Pos()), "emits exactly "+strings.Join(ns, ", ")+" (+SystemError)")
	}
	before := func(x, y c36Token) bool {
		return x.in.Block() != y.in.Block() && c36Reaches(x.decider, y.in.Block()) && !c36Reaches(y.decider, x.in.Block())
	}
	for _, ch := range chains {
		for i := 0; i < len(ch); i++ {
			for j := i + 1; j < len(ch); j++ {
				a, b := ch[i], ch[j]
				if len(have[a]) == 0 || len(have[b]) == 0 {
					continue
				}
				fwd, rev := false, ""
				for _, x := range have[a] {
					for _, y := range have[b] {
						if before(x, y) || (x.decider == y.decider && x.in.Block() != y.in.Block()) {
							fwd = true // decided by an earlier branch, or by the two arms of the same branch
						}
						if before(y, x) {
							rev = c.P.InstrPos(y.in)
						}
					}
				}
				construct := fmt.Sprintf("%s#%s≺%s", fname, a, b)
				switch {
				case rev != "":
					c.add("declist", rule, construct, Violated, rev, fmt.Sprintf("in %s reason %s can now be decided before %s (frozen precedence: %s); the sibling path orders them the other way", fname, b, a, strings.Join(ch, " ≺ ")))
				case !fwd:
					c.add("declist", rule, construct, Violated, c.P.Pos(fn.Pos()), fmt.Sprintf("in %s the test for %s no longer precedes %s (frozen precedence: %s)", fname, a, b, strings.Join(ch, " ≺ ")))
				default:
					c.add("declist", rule, construct, Held, c.P.InstrPos(have[a][0].in), "the deciding branch of "+a+" reaches "+b+" and not vice versa")
				}
			}
		}
	}
}

// ---------------------------------------------------------------------------

func c36(c *Ctx) {
	R := c36Reasons(c)
	byValue := map[string]string{}
	for n, v := range R {
		byValue[v] = n
	}
	for _, n := range []string{"Success", "SystemError", "SendBan", "ChannelNotExist", "Ban", "Disband", "InBlacklist", "SubscriberNotExist", "NotInWhitelist", "NotAllowSend"} {
		if _, ok := R[n]; !ok {
			c.add("anchor", "anchor", "channelappend.Reason"+n, Undecided, "", "Reason constant not found")
			return
		}
	}
	if R["Success"] != "0" {
		c.add("anchor", "anchor", "channelappend.ReasonSuccess", Undecided, "", "ReasonSuccess is no longer the zero value; the rule tables assume it")
		return
	}
	reasonField := c.Field(c36Pkg + "sendBatchPermissionOutcome.reason")
	errField := c.Field(c36Pkg + "sendBatchPermissionOutcome.err")
	app := c36Pkg + "App."

	sender := c.Fn(app + "checkSenderSendPermission")
	terminal := c.Fn(app + "checkTerminalChannelPermission")
	group := c.Fn(app + "checkGroupSendPermission")
	common := c.Fn(app + "checkCommonMemberPermission")
	person := c.Fn(app + "checkPersonSendPermission")
	agent := c.Fn(app + "checkAgentSendPermission")
	visitors := c.Fn(app + "checkVisitorsSendPermission")
	top := c.Fn(app + "checkSendPermission")
	evalG := c.Fn(c36Pkg + "evaluateGroupPermissionReadPlan")
	evalP := c.Fn(c36Pkg + "evaluatePersonPermissionReadPlan")

	// ------------------------------------------------------------ R1 precedence (decision lists)
	const rp = "R1-precedence"
	c36Precedence(c, rp, sender, byValue, reasonField, []string{"SendBan"})
	c36Precedence(c, rp, terminal, byValue, reasonField, []string{"Disband"})
	c36Precedence(c, rp, group, byValue, reasonField, []string{"ChannelNotExist", "Ban", "Disband", "→checkCommonMemberPermission"})
	c36Precedence(c, rp, common, byValue, reasonField, []string{"InBlacklist", "SubscriberNotExist", "NotInWhitelist"})
	c36Precedence(c, rp, person, byValue, reasonField, []string{"InBlacklist", "NotInWhitelist"})
	c36Precedence(c, rp, agent, byValue, reasonField, []string{"NotAllowSend"})
	c36Precedence(c, rp, visitors, byValue, reasonField, []string{"→checkCommonMemberPermission"})
	c36Precedence(c, rp, evalG, byValue, reasonField,
		[]string{"SendBan", "Ban", "Disband", "InBlacklist", "SubscriberNotExist", "NotInWhitelist"},
		[]string{"SendBan", "ChannelNotExist"})
	c36Precedence(c, rp, evalP, byValue, reasonField, []string{"SendBan", "Disband", "InBlacklist", "NotInWhitelist"})
	c.Min(rp, 40)

	// ------------------------------------------------------------ R1 conditions, per-send path
	const rc = "R1-cond"
	ret := func(name string) Effect { return Ret{0, R[name]} }
	// a per-send "allowed" exit: (ReasonSuccess, nil)
	okRet := InstrFn{"return ReasonSuccess, nil", func(in ssa.Instruction) bool {
		r, isRet := in.(*ssa.Return)
		return isRet && len(r.Results) == 2 && (RetNil{}).Match(in) && Path(retOperand(r, 0)) == "0"
	}}
	getCh := c36Pkg + "PermissionStore.GetChannelForPermission(*)"
	notFound := "errors.Is(" + getCh + "#1, pkg/db/meta.ErrNotFound)"
	c.Guard(rc, sender, ret("SendBan"), "*.SendBan != 0", notFound+" == false", getCh+"#1 == nil")
	c.Guard(rc, sender, okRet, "*.SendBan == 0 || "+notFound+" == true")
	c.CallShape(rc, sender, c36Pkg+"PermissionStore.GetChannelForPermission", c36Pkg+"PermissionStore.GetChannelForPermission(a.permissions, ctx, fromUID, "+c36ConstOf(c, "channelTypePerson")+")")
	c.Guard(rc, terminal, ret("Disband"), "*.Disband != 0", notFound+" == false", getCh+"#1 == nil")
	c.Guard(rc, terminal, okRet, "*.Disband == 0 || "+notFound+" == true")
	c.CallShape(rc, terminal, c36Pkg+"PermissionStore.GetChannelForPermission", c36Pkg+"PermissionStore.GetChannelForPermission(a.permissionAuthority, ctx, cmd.ChannelID, cmd.ChannelType)")
	c.Guard(rc, group, ret("ChannelNotExist"), notFound+" == true")
	c.Guard(rc, group, ret("Ban"), "*.Ban != 0", getCh+"#1 == nil")
	c.Guard(rc, group, ret("Disband"), "*.Disband != 0", getCh+"#1 == nil")
	c.Guard(rc, group, CallTo{app + "checkCommonMemberPermission"}, "*.Ban == 0", "*.Disband == 0", getCh+"#1 == nil", notFound+" == false")
	c.CallShape(rc, group, c36Pkg+"PermissionStore.GetChannelForPermission", c36Pkg+"PermissionStore.GetChannelForPermission(a.permissionAuthority, ctx, cmd.ChannelID, cmd.ChannelType)")
	contains := c36Pkg + "PermissionStore.ContainsChannelSubscriber"
	deny := contains + "(a.permissions, ctx, internal/contracts/channelmembers.DenylistChannelID(key), key.ChannelType, fromUID)"
	sub := contains + "(a.permissions, ctx, key.ChannelID, key.ChannelType, fromUID)"
	hasAllow := c36Pkg + "PermissionStore.HasChannelSubscribers(a.permissions, ctx, internal/contracts/channelmembers.AllowlistChannelID(key), key.ChannelType)"
	allow := contains + "(a.permissions, ctx, internal/contracts/channelmembers.AllowlistChannelID(key), key.ChannelType, fromUID)"
	c.Guard(rc, common, ret("InBlacklist"), deny+"#0 == true", deny+"#1 == nil")
	c.Guard(rc, common, ret("SubscriberNotExist"), sub+"#0 == false", sub+"#1 == nil")
	c.Guard(rc, common, ret("NotInWhitelist"), hasAllow+"#0 == true", allow+"#0 == false", allow+"#1 == nil")
	c.Guard(rc, common, okRet, deny+"#0 == false", sub+"#0 == true", hasAllow+"#0 == false || "+allow+"#0 == true")
	c.CallShape(rc, common, contains, deny, sub, allow)
	c.CallShape(rc, common, c36Pkg+"PermissionStore.HasChannelSubscribers", hasAllow)
	pType := c36ConstOf(c, "channelTypePerson")
	pDeny := contains + "(a.permissions, ctx, internal/contracts/channelmembers.DenylistChannelID(*), " + pType + ", cmd.FromUID)"
	pAllow := contains + "(a.permissions, ctx, internal/contracts/channelmembers.AllowlistChannelID(*), " + pType + ", cmd.FromUID)"
	c.Guard(rc, person, ret("InBlacklist"), pDeny+"#0 == true", pDeny+"#1 == nil")
	c.Guard(rc, person, ret("NotInWhitelist"),
		"a.personWhitelistEnabled == true",
		pAllow+"#0 == false",
		pDeny+"#0 == false",
		"*.AllowStranger == 0 || "+notFound+" == true",
	)
	c.Guard(rc, person, okRet,
		pDeny+"#0 == false || "+c36Pkg+"SystemUIDChecker.IsSystemUID(*) == true",
		"a.personWhitelistEnabled == false || "+pAllow+"#0 == true || *.AllowStranger != 0 || "+c36Pkg+"SystemUIDChecker.IsSystemUID(*) == true",
		"pkg/protocol/channelid.DecodePersonChannel(cmd.ChannelID)#2 == nil",
	)
	c.CallShape(rc, person, contains, pDeny, pAllow)
	c.CallShape(rc, person, c36Pkg+"PermissionStore.GetChannelForPermission", c36Pkg+"PermissionStore.GetChannelForPermission(a.permissions, ctx, phi(*), "+pType+")")

	// ------------------------------------------------------------ R1 conditions, batched path
	for _, ev := range []*ssa.Function{evalG, evalP} {
		if ev == nil || len(ev.Params) != 2 {
			continue
		}
		canon := c36Canon(ev)
		plan := ev.Params[0].Name()
		isReasonStore := func(in ssa.Instruction, name string) bool {
			st, ok := in.(*ssa.Store)
			if !ok {
				return false
			}
			fa, ok := st.Addr.(*ssa.FieldAddr)
			if !ok || fieldVar(fa.X.Type(), fa.Field) != reasonField {
				return false
			}
			k, ok := st.Val.(*ssa.Const)
			if !ok || k.Value == nil {
				return name == "*"
			}
			if name == "*" {
				return constant.Sign(k.Value) != 0
			}
			return k.Value.ExactString() == R[name]
		}
		stores := func(name string) []ssa.Instruction {
			var out []ssa.Instruction
			for _, b := range ev.Blocks {
				for _, in := range b.Instrs {
					if isReasonStore(in, name) {
						out = append(out, in)
					}
				}
			}
			return out
		}
		emit := func(name string, guards ...string) {
			c36GuardInstrs(c, rc, ev, "reason="+name, stores(name), canon, nil, guards...)
		}
		// exits that still carry ReasonSuccess and no error: returns reachable without passing a reason/err store
		isErrStore := func(in ssa.Instruction) bool {
			st, ok := in.(*ssa.Store)
			if !ok {
				return false
			}
			fa, ok := st.Addr.(*ssa.FieldAddr)
			return ok && errField != nil && fieldVar(fa.X.Type(), fa.Field) == errField
		}
		barrier := func(in ssa.Instruction) bool { return isReasonStore(in, "*") || isErrStore(in) }
		var rets []ssa.Instruction
		for _, in := range instrsMatching(ev, AnyRet{}) {
			rets = append(rets, in)
		}
		success := func(rule string, guards ...string) {
			c36GuardInstrs(c, rule, ev, "success-exit", rets, canon, barrier, guards...)
		}
		emit("SendBan", "read(senderChannel).Found == true", "read(senderChannel).Channel.SendBan != 0", "read(senderChannel).Err == nil")
		success(rc, "read(senderChannel)#1 == false || read(senderChannel).Found == false || read(senderChannel).Channel.SendBan == 0")
		if ev == evalG {
			trusted := plan + ".trusted == true"
			emit("ChannelNotExist", "read(groupChannel).Found == false", plan+".trusted == false", "read(groupChannel).Err == nil")
			emit("Ban", "read(groupChannel).Channel.Ban != 0", "read(groupChannel).Found == true", "read(groupChannel).Err == nil")
			emit("Disband", "read(groupChannel).Channel.Disband != 0", "read(groupChannel).Found == true", "read(groupChannel).Err == nil")
			emit("InBlacklist", "read(denied).Value == true", "read(denied).Err == nil")
			emit("SubscriberNotExist", "read(subscriber).Value == false", "read(subscriber).Err == nil", "read(denied).Value == false")
			emit("NotInWhitelist", "read(hasAllowlist).Value == true", "read(allowlistEntry).Value == false", "read(allowlistEntry).Err == nil", "read(subscriber).Value == true")
			success(rc,
				trusted+" || read(groupChannel).Found == true",
				trusted+" || read(groupChannel).Channel.Ban == 0",
				trusted+" || read(denied).Value == false",
				trusted+" || read(subscriber).Value == true",
				trusted+" || read(hasAllowlist).Value == false || read(allowlistEntry).Value == true",
			)
			// R2: a trusted plan can only be refused for SendBan / Disband / SystemError and still meets the Disband test
			for _, n := range []string{"ChannelNotExist", "Ban", "InBlacklist", "SubscriberNotExist", "NotInWhitelist"} {
				c36GuardInstrs(c, "R2-system", ev, "reason="+n, stores(n), canon, nil, plan+".trusted == false")
			}
			success("R2-system", "read(groupChannel).Found == false || read(groupChannel).Channel.Disband == 0", "read(groupChannel).Err == nil")
		} else {
			bypass := plan + ".trusted == true || " + plan + ".systemDevice == true || " + plan + ".receiverTrusted == true"
			emit("Disband", "read(terminalChannel).Channel.Disband != 0", "read(terminalChannel).Found == true", "read(terminalChannel).Err == nil")
			emit("InBlacklist", "read(denied).Value == true", "read(denied).Err == nil")
			emit("NotInWhitelist",
				"read(allowlistEntry)#1 == true",
				"read(allowlistEntry).Value == false",
				"read(allowlistEntry).Err == nil",
				"read(denied).Value == false",
				"read(receiverChannel).Found == false || read(receiverChannel).Channel.AllowStranger == 0",
				"read(receiverChannel).Err == nil",
			)
			success(rc,
				bypass+" || read(denied).Value == false",
				bypass+" || read(allowlistEntry)#1 == false || read(allowlistEntry).Value == true || read(receiverChannel).Channel.AllowStranger != 0",
				bypass+" || read(allowlistEntry)#1 == false || read(allowlistEntry).Value == true || read(receiverChannel).Found == true",
				plan+".planErr == nil",
			)
			for _, n := range []string{"InBlacklist", "NotInWhitelist"} {
				c36GuardInstrs(c, "R2-system", ev, "reason="+n, stores(n), canon, nil,
					plan+".trusted == false", plan+".systemDevice == false", plan+".receiverTrusted == false")
			}
			success("R2-system", "read(terminalChannel).Found == false || read(terminalChannel).Channel.Disband == 0", "read(terminalChannel).Err == nil")
		}
		// ---- R3: SystemError only with the failed read's error, and a failed read is never passed over
		sysStores := stores("SystemError")
		n, badShape := 0, ""
		for _, in := range sysStores {
			n++
			// the same block stores outcome.err = <X>.Err and the block is reached only via <X>.Err != nil
			var errVal ssa.Value
			for _, other := range in.Block().Instrs {
				if isErrStore(other) {
					errVal = other.(*ssa.Store).Val
				}
			}
			if errVal == nil {
				badShape = "SystemError without an error at " + c.P.InstrPos(in)
				continue
			}
			es := canon(Path(errVal))
			removed, _ := c36Edges(ev, es+" != nil", canon)
			limit := c36Reach(ev, removed, nil)
			if lim, ok := limit[in.Block()]; ok && indexIn(in.Block(), in) < lim {
				badShape = "SystemError with " + es + " not proven non-nil at " + c.P.InstrPos(in)
			}
			if !strings.HasPrefix(es, "read(") || !strings.HasSuffix(es, ".Err") {
				badShape = "SystemError carries " + es + " which is not the Err of a plan read, at " + c.P.InstrPos(in)
			}
		}
		construct := c.P.Name(ev) + "#SystemError⇔failed-read"
		switch {
		case n == 0:
			c.add("guard", "R3-syserr", construct, Undecided, c.P.Pos(ev.Pos()), "no SystemError site")
		case badShape != "":
			c.add("guard", "R3-syserr", construct, Violated, c.P.Pos(ev.Pos()), badShape)
		default:
			c.add("guard", "R3-syserr", construct, Held, c.P.Pos(ev.Pos()), fmt.Sprintf("%d SystemError site(s), each stores the read's Err behind Err != nil", n))
		}
		// every read that is consulted has its Err tested first: any branch on read(X).<field other than Err> is behind read(X).Err == nil
		slots := map[string]bool{}
		for _, b := range ev.Blocks {
			iff, ok := b.Instrs[len(b.Instrs)-1].(*ssa.If)
			if !ok {
				continue
			}
			if a, ok := condAtom(iff.Cond, true); ok {
				for _, s := range []string{canon(a.L), canon(a.R)} {
					if strings.HasPrefix(s, "read(") {
						if i := strings.Index(s, ")"); i > 0 && strings.HasPrefix(s[i+1:], ".") && !strings.HasPrefix(s[i+1:], ".Err") {
							slots[s[:i+1]] = true
						}
					}
				}
			}
		}
		var slotNames []string
		for s := range slots {
			slotNames = append(slotNames, s)
		}
		sort.Strings(slotNames)
		for _, s := range slotNames {
			var uses []ssa.Instruction
			for _, b := range ev.Blocks {
				iff, ok := b.Instrs[len(b.Instrs)-1].(*ssa.If)
				if !ok {
					continue
				}
				if a, ok := condAtom(iff.Cond, true); ok {
					for _, o := range []string{canon(a.L), canon(a.R)} {
						if strings.HasPrefix(o, s+".") && !strings.HasPrefix(o, s+".Err") {
							uses = append(uses, iff)
						}
					}
				}
			}
			c36GuardInstrs(c, "R3-syserr", ev, "branch-on:"+s, uses, canon, nil, s+".Err == nil")
		}
	}
	c.Min(rc, 85)

	// ------------------------------------------------------------ R3 per-send: SystemError ⇔ failed store read
	for _, fn := range []*ssa.Function{sender, terminal, group, common, person} {
		if fn == nil {
			continue
		}
		fname := c.P.Name(fn)
		n := 0
		var bad []string
		for _, in := range instrsMatching(fn, AnyRet{}) {
			r := in.(*ssa.Return)
			if len(r.Results) != 2 {
				continue
			}
			reason, errv := Path(retOperand(r, 0)), Path(retOperand(r, 1))
			fromStore := glob(c36Pkg+"PermissionStore.*(*)#1", errv)
			switch {
			case reason == R["SystemError"]:
				n++
				if !fromStore {
					if errv == "nil" {
						bad = append(bad, "SystemError returned without an error at "+c.P.InstrPos(in))
					}
				} else {
					removed, _ := guardEdges(fn, parseGuard(errv+" != nil"))
					if lim, ok := reachUnguarded(fn, removed, nil)[in.Block()]; ok && indexIn(in.Block(), in) < lim {
						bad = append(bad, "SystemError not behind "+errv+" != nil at "+c.P.InstrPos(in))
					}
				}
			case fromStore:
				bad = append(bad, "a permission-store error is returned with reason "+reason+" at "+c.P.InstrPos(in))
			}
		}
		construct := fname + "#SystemError⇔failed-read"
		switch {
		case len(bad) > 0:
			c.add("guard", "R3-syserr", construct, Violated, c.P.Pos(fn.Pos()), strings.Join(bad, "; "))
		case n == 0:
			c.add("guard", "R3-syserr", construct, Undecided, c.P.Pos(fn.Pos()), "no SystemError return")
		default:
			c.add("guard", "R3-syserr", construct, Held, c.P.Pos(fn.Pos()), fmt.Sprintf("%d SystemError return(s), each with the store's non-nil error", n))
		}
		// no store error is dropped: every success/decision exit is behind err == nil of each store call on its path
		c.ErrUsed("R3-syserr", []*ssa.Function{fn}, []string{c36Pkg + "PermissionStore.*"}, nil)
	}
	for _, fn := range []*ssa.Function{sender, terminal} {
		c.Guard("R3-syserr", fn, okRet, getCh+"#1 == nil || "+notFound+" == true")
	}
	c.Guard("R3-syserr", common, okRet, deny+"#1 == nil", sub+"#1 == nil", hasAllow+"#1 == nil", hasAllow+"#0 == false || "+allow+"#1 == nil")
	c.Guard("R3-syserr", person, okRet, pDeny+"#1 == nil || "+c36Pkg+"SystemUIDChecker.IsSystemUID(*) == true")
	c.Min("R3-syserr", 26)

	// ------------------------------------------------------------ R2 system bypass, per-send path
	if top != nil {
		const rs = "R2-system"
		isSys := c36Pkg + "SystemUIDChecker.IsSystemUID(a.systemUIDs, cmd.FromUID)"
		senderOK0 := app + "checkSenderSendPermission(a, ctx, cmd.FromUID)#0 == 0"
		senderOK1 := app + "checkSenderSendPermission(a, ctx, cmd.FromUID)#1 == nil"
		nonTerminal := OneOf{CallTo{app + "checkPersonSendPermission"}, CallTo{app + "checkGroupSendPermission"}, CallTo{app + "checkAgentSendPermission"}, CallTo{app + "checkVisitorsSendPermission"}}
		c.Guard(rs, top, nonTerminal,
			"a.systemUIDs == nil || "+isSys+" == false",
			"a.systemDeviceID == \"\" || cmd.DeviceID != a.systemDeviceID",
			senderOK0, senderOK1,
			"a != nil", "a.permissions != nil",
		)
		// the device bypass comes after the sender ban check (SendBan precedes it on both paths)
		c.Guard(rs, top, InstrFn{"branch on the system device", func(in ssa.Instruction) bool {
			iff, ok := in.(*ssa.If)
			if !ok {
				return false
			}
			a, ok := condAtom(iff.Cond, true)
			return ok && (glob("cmd.DeviceID", a.L) || glob("cmd.DeviceID", a.R))
		}}, senderOK0, senderOK1)
		// every exit passes a terminal (or the group) channel check unless it is an enumerated early exit
		tcall := app + "checkTerminalChannelPermission(a, ctx, cmd)"
		c.Guard(rs, top, AnyRet{},
			"cmd.RequestScoped == true || cmd.ChannelID == \"\" || pkg/protocol/channelid.NormalizePersonChannel(*)#1 != nil || a == nil || a.permissions == nil || "+
				app+"checkSenderSendPermission(*)#0 != 0 || "+app+"checkSenderSendPermission(*)#1 != nil || after: "+app+"checkTerminalChannelPermission || after: "+app+"checkGroupSendPermission")
		// disbanded first on the person arm; person/group arms keyed by channel type
		c.Guard(rs, top, CallTo{app + "checkPersonSendPermission"}, tcall+"#0 == 0", tcall+"#1 == nil", "cmd.ChannelType == "+pType)
		c.Guard(rs, top, CallTo{app + "checkGroupSendPermission"}, "cmd.ChannelType == "+c36ConstOf(c, "channelTypeGroup"))
		c.Guard(rs, top, CallTo{app + "checkAgentSendPermission"}, tcall+"#0 == 0", tcall+"#1 == nil")
		c.Guard(rs, top, CallTo{app + "checkVisitorsSendPermission"}, tcall+"#0 == 0", tcall+"#1 == nil")
		// success only if the selected arm's result was Success without error
		c.Guard(rs, top, Ret{1, "0"},
			"cmd.RequestScoped == true || cmd.ChannelID == \"\" || a == nil || a.permissions == nil || pkg/protocol/channelid.NormalizePersonChannel(*)#1 != nil || phi(*) == 0",
			"cmd.RequestScoped == true || cmd.ChannelID == \"\" || a == nil || a.permissions == nil || pkg/protocol/channelid.NormalizePersonChannel(*)#1 != nil || phi(*) == nil",
		)
		c.CallShape(rs, top, app+"checkSenderSendPermission", app+"checkSenderSendPermission(a, ctx, cmd.FromUID)")
		c.CallShape(rs, top, c36Pkg+"SystemUIDChecker.IsSystemUID", isSys)
	}
	c.Min("R2-system", 34)

	// ------------------------------------------------------------ R4 plan slots
	c36PlanSlots(c, c.Fn(app+"checkGroupSendPermissionsBatch"), "groupPermissionReadPlan", map[string]c36Slot{
		"groupChannel":   {kind: "PermissionReadChannel", id: "pkg/protocol/channelid.FromCommandChannel(*.ChannelID)#0", typ: "*.ChannelType", uid: ""},
		"senderChannel":  {kind: "PermissionReadChannel", id: "*.FromUID", typ: pType, uid: "", guards: []string{"*.trusted == false"}},
		"denied":         {kind: "PermissionReadSubscriberContains", id: "internal/contracts/channelmembers.DenylistChannelID(*)", typ: "*.ChannelType", uid: "*.FromUID", guards: []string{"*.trusted == false", "a.systemDeviceID == \"\" || *.DeviceID != a.systemDeviceID"}},
		"subscriber":     {kind: "PermissionReadSubscriberContains", id: "pkg/protocol/channelid.FromCommandChannel(*.ChannelID)#0", typ: "*.ChannelType", uid: "*.FromUID", guards: []string{"*.trusted == false", "a.systemDeviceID == \"\" || *.DeviceID != a.systemDeviceID"}},
		"hasAllowlist":   {kind: "PermissionReadSubscriberHasAny", id: "internal/contracts/channelmembers.AllowlistChannelID(*)", typ: "*.ChannelType", uid: "", guards: []string{"*.trusted == false", "a.systemDeviceID == \"\" || *.DeviceID != a.systemDeviceID"}},
		"allowlistEntry": {kind: "PermissionReadSubscriberContains", id: "internal/contracts/channelmembers.AllowlistChannelID(*)", typ: "*.ChannelType", uid: "*.FromUID", guards: []string{"*.trusted == false", "a.systemDeviceID == \"\" || *.DeviceID != a.systemDeviceID"}},
	}, map[string][]string{
		"trusted=true": {"a.systemDeviceID != \"\"", "*.DeviceID == a.systemDeviceID"},
	})
	c36PlanSlots(c, c.Fn(app+"checkPersonSendPermissionsBatch"), "personPermissionReadPlan", map[string]c36Slot{
		"terminalChannel": {kind: "PermissionReadChannel", id: "pkg/protocol/channelid.FromCommandChannel(*.ChannelID)#0", typ: pType, uid: ""},
		"senderChannel":   {kind: "PermissionReadChannel", id: "*.FromUID", typ: pType, uid: "", guards: []string{"*.trusted == false"}},
		"denied":          {kind: "PermissionReadSubscriberContains", id: "internal/contracts/channelmembers.DenylistChannelID(*)", typ: pType, uid: "*.FromUID", guards: []string{"*.trusted == false", "*.systemDevice == false", "*.receiverTrusted == false", "pkg/protocol/channelid.DecodePersonChannel(*)#2 == nil"}},
		"allowlistEntry":  {kind: "PermissionReadSubscriberContains", id: "internal/contracts/channelmembers.AllowlistChannelID(*)", typ: pType, uid: "*.FromUID", guards: []string{"*.trusted == false", "*.systemDevice == false", "*.receiverTrusted == false", "a.personWhitelistEnabled == true"}},
		"receiverChannel": {kind: "PermissionReadChannel", id: "phi(*)", typ: pType, uid: "", guards: []string{"*.trusted == false", "*.systemDevice == false", "*.receiverTrusted == false", "a.personWhitelistEnabled == true"}},
	}, nil)
	c.Min("R4-plan", 33)

	// ------------------------------------------------------------ R4 routing
	if rs := c.Fn(app + "resolveSendBatchPermissions"); rs != nil {
		gType := c36ConstOf(c, "channelTypeGroup")
		// group evaluator only for group channels, person evaluator only for person channels
		grp := InstrFn{"append to the group batch", func(in ssa.Instruction) bool { return c36AppendsTo(in, rs, app+"checkGroupSendPermissionsBatch") }}
		per := InstrFn{"append to the person batch", func(in ssa.Instruction) bool { return c36AppendsTo(in, rs, app+"checkPersonSendPermissionsBatch") }}
		c.Guard("R4-route", rs, grp, "*.ChannelType == "+gType, "a.permissionBatch != nil", "*.RequestScoped == false", "len(*.MessageScopedUIDs) == 0")
		c.Guard("R4-route", rs, per, "*.ChannelType == "+pType, "a.permissionBatch != nil", "*.RequestScoped == false", "len(*.MessageScopedUIDs) == 0")
	}
	c.Min("R4-route", 8)
}

// c36AppendsTo: `in` is an append whose result (through the loop phi) is the index list passed to the given batch checker.
func c36AppendsTo(in ssa.Instruction, fn *ssa.Function, checker string) bool {
	call, ok := in.(*ssa.Call)
	if !ok || calleeName(&call.Call) != "append" {
		return false
	}
	// index lists handed to the checker (argument 3, directly or via sharedSendBatchPermissionContext / cohorts)
	target := map[ssa.Value]bool{}
	for _, b := range fn.Blocks {
		for _, x := range b.Instrs {
			cc, ok := x.(*ssa.Call)
			if !ok {
				continue
			}
			n := calleeName(&cc.Call)
			if n == checker && len(cc.Call.Args) >= 5 {
				target[cc.Call.Args[4]] = true
			}
		}
	}
	// also lists given to the cohort splitter whose output feeds the checker: treat by name of the shared list
	seen := map[ssa.Value]bool{}
	var flows func(v ssa.Value) bool
	flows = func(v ssa.Value) bool {
		if seen[v] {
			return false
		}
		seen[v] = true
		if target[v] {
			return true
		}
		refs := v.Referrers()
		if refs == nil {
			return false
		}
		for _, r := range *refs {
			if phi, ok := r.(*ssa.Phi); ok && flows(phi) {
				return true
			}
		}
		return false
	}
	return flows(call)
}

type c36Slot struct {
	kind, id, typ, uid string
	guards             []string
}

// c36PlanSlots checks, for every `plan.<slot> = addRead(PermissionRead{…})` of a batch plan builder,
// the literal's fields and the conditions under which the slot is planned.
func c36PlanSlots(c *Ctx, fn *ssa.Function, planType string, want map[string]c36Slot, flagStores map[string][]string) {
	if fn == nil {
		return
	}
	const rule = "R4-plan"
	fname := c.P.Name(fn)
	kinds := map[string]string{}
	for _, k := range []string{"PermissionReadChannel", "PermissionReadSubscriberContains", "PermissionReadSubscriberHasAny"} {
		kinds[k] = c36ConstOf(c, k)
	}
	T := c.lookupType(c36Pkg + planType)
	if T == nil {
		c.add("anchor", "anchor", c36Pkg+planType, Undecided, "", "plan struct not found")
		return
	}
	found := map[string]int{}
	for _, b := range fn.Blocks {
		for _, in := range b.Instrs {
			st, ok := in.(*ssa.Store)
			if !ok {
				continue
			}
			fa, ok := st.Addr.(*ssa.FieldAddr)
			if !ok || !sameNamed(fa.X.Type(), T) {
				continue
			}
			slot := fieldName(fa.X.Type(), fa.Field)
			call, ok := st.Val.(*ssa.Call)
			if !ok {
				continue // the literal's -1 initialisers and bool flags
			}
			w, known := want[slot]
			construct := fname + "#slot:" + slot
			if !known {
				c.add("shape", rule, construct, Violated, c.P.InstrPos(in), "plan slot "+slot+" is not in the frozen slot table (a new fact is read on the batched path only)")
				continue
			}
			found[slot]++
			// the literal handed to addRead
			got := map[string]string{}
			if len(call.Call.Args) == 1 {
				if u, ok := call.Call.Args[0].(*ssa.UnOp); ok {
					if a, ok := u.X.(*ssa.Alloc); ok && a.Referrers() != nil {
						for _, r := range *a.Referrers() {
							if f, ok := r.(*ssa.FieldAddr); ok && f.Referrers() != nil {
								for _, rr := range *f.Referrers() {
									if s2, ok := rr.(*ssa.Store); ok && s2.Addr == ssa.Value(f) {
										got[fieldName(f.X.Type(), f.Field)] = Path(s2.Val)
									}
								}
							}
						}
					}
				}
			}
			var bad []string
			chk := func(field, pat string) {
				g, ok := got[field]
				if pat == "" {
					if ok {
						bad = append(bad, field+" is set to "+g+" (expected unset)")
					}
					return
				}
				if !ok || !glob(pat, g) {
					bad = append(bad, fmt.Sprintf("%s = %q, expected %q", field, g, pat))
				}
			}
			chk("Kind", kinds[w.kind])
			chk("ChannelID", w.id)
			chk("ChannelType", w.typ)
			chk("UID", w.uid)
			if len(bad) > 0 {
				c.add("shape", rule, construct, Violated, c.P.InstrPos(in), "plan slot "+slot+" reads a different fact than the per-send path: "+strings.Join(bad, "; "))
			} else {
				c.add("shape", rule, construct, Held, c.P.InstrPos(in), fmt.Sprintf("reads %s(%s, %s, %s)", w.kind, got["ChannelID"], got["ChannelType"], got["UID"]))
			}
			for _, gs := range w.guards {
				g := parseGuard(gs)
				removed, _ := guardEdges(fn, g)
				limit := reachUnguarded(fn, removed, nil)
				gc := construct + "⇐" + gs
				if lim, ok := limit[in.Block()]; ok && indexIn(in.Block(), in) < lim {
					c.add("guard", rule, gc, Violated, c.P.InstrPos(in), "plan slot "+slot+" is planned without "+gs)
				} else {
					c.add("guard", rule, gc, Held, c.P.InstrPos(in), fmt.Sprintf("%d guard edge(s)", len(removed)))
				}
			}
		}
	}
	for slot := range want {
		if found[slot] == 0 {
			c.add("shape", rule, fname+"#slot:"+slot, Violated, c.P.Pos(fn.Pos()), "plan slot "+slot+" is never planned (the batched path no longer reads this fact)")
		}
	}
	for key, guards := range flagStores {
		parts := strings.SplitN(key, "=", 2)
		c.Guard(rule, fn, StoreTo{Addr: "*." + parts[0], Val: parts[1]}, guards...)
	}
}
