package main

import (
	"fmt"
	"go/token"
	"go/types"
	"sort"
	"strings"

	"golang.org/x/tools/go/ssa"
)

// Extension rules for C11 (backup / restore), added after three independently seeded changes
// were not detected by props_c11.go:
//
//	X1-install-complete      (seed C11-a)  a per-channel installer reports success only after it
//	                         ran its own row loop to the end, and every row it read was staged.
//	X2-ownership-before-apply (seed C11-b) the multi-batch metadata importer mutates only behind the
//	                         success of a complete pass whose visitor rejects every foreign key.
//	X3-count-pairing         (seed C11-c)  per-channel row counts are paired with the channel cuts by
//	                         position: producer and consumer are called with the same (normalised)
//	                         cut slice and the same read view, and both index counts and cuts with
//	                         the same loop index.
func init() {
	extend("C11", nil, xc11Run,
		// ---- X1 ----
		Mutant{Name: "x-replay-branch-returns-after-validation-only", File: "pkg/db/message/backup_stream_import.go",
			Old:    "\t\t// Exact snapshot replay is idempotent.\n\t} else if currentCheckpointPresent {",
			New:    "\t\treturn validateMessageBackupChannel(ctx, reader, header)\n\t} else if currentCheckpointPresent {",
			Expect: "C11/X1-install-complete/*importMessageBackupChannelStream*"},
		Mutant{Name: "x-replay-skips-rows-below-installed-hw", File: "pkg/db/message/backup_stream_import.go",
			Old:    "\t\tpreviousSeq = seq\n\t\tif identity, ok := entryIdentities[seq]; ok && !verifyBackupRowIdentity(identity, row) {",
			New:    "\t\tpreviousSeq = seq\n\t\tif currentCheckpointPresent && seq <= currentCheckpoint.HW {\n\t\t\tcontinue\n\t\t}\n\t\tif identity, ok := entryIdentities[seq]; ok && !verifyBackupRowIdentity(identity, row) {",
			Expect: "C11/X1-install-complete/*importMessageBackupChannelStream#every-row-read-is-staged*"},
		Mutant{Name: "x-replay-stops-row-loop-early", File: "pkg/db/message/backup_stream_import.go",
			Old:    "\t\tpreviousSeq = seq\n\t\tif identity, ok := entryIdentities[seq]; ok && !verifyBackupRowIdentity(identity, row) {",
			New:    "\t\tpreviousSeq = seq\n\t\tif currentCheckpointPresent && seq == currentCheckpoint.HW {\n\t\t\tbreak\n\t\t}\n\t\tif identity, ok := entryIdentities[seq]; ok && !verifyBackupRowIdentity(identity, row) {",
			Expect: "C11/X1-install-complete/*importMessageBackupChannelStream*"},
		Mutant{Name: "x-legacy-replay-branch-returns-early", File: "pkg/db/message/backup_snapshot.go",
			Old:    "\t\t// Reapplying an already installed snapshot is idempotent.\n\t} else if currentCheckpointPresent {",
			New:    "\t\treturn 0, ctxErr(ctx)\n\t} else if currentCheckpointPresent {",
			Expect: "C11/X1-install-complete/*importBackupChannel*"},
		// ---- X2 ----
		Mutant{Name: "x-meta-first-pass-counts-only", File: "pkg/db/meta/snapshot_stream_import.go",
			Old:    "\tstreamSlots, entryCount, err := visitSlotSnapshotStream(ctx, reader, size, validate)\n",
			New:    "\t_ = validate\n\tstreamSlots, entryCount, err := visitSlotSnapshotStream(ctx, reader, size, func(_, _ []byte) error { return nil })\n",
			Expect: "C11/X2-ownership-before-apply/*importHashSlotSnapshotReader*"},
		Mutant{Name: "x-meta-first-pass-error-not-tested", File: "pkg/db/meta/snapshot_stream_import.go",
			Old:    "\tstreamSlots, entryCount, err := visitSlotSnapshotStream(ctx, reader, size, validate)\n\tif err != nil {\n\t\treturn err\n\t}\n",
			New:    "\tstreamSlots, entryCount, err := visitSlotSnapshotStream(ctx, reader, size, validate)\n",
			Expect: "C11/X2-ownership-before-apply/*importHashSlotSnapshotReader*"},
		Mutant{Name: "x-meta-ownership-checked-for-rows-only", File: "pkg/db/meta/snapshot_stream_import.go",
			Old:    "\tvalidate := func(key, value []byte) error {\n\t\tif !snapshotEntryInHashSlots(key, normalized) {",
			New:    "\tvalidate := func(key, value []byte) error {\n\t\tif len(value) != 0 && !snapshotEntryInHashSlots(key, normalized) {",
			Expect: "C11/X2-ownership-before-apply/*importHashSlotSnapshotReader*"},
		Mutant{Name: "x-meta-verify-skips-ownership", File: "pkg/db/meta/snapshot_stream_import.go",
			Old:    "\t\tfunc(key, _ []byte) error {\n\t\t\tif !snapshotEntryInHashSlots(key, normalized) {",
			New:    "\t\tfunc(key, _ []byte) error {\n\t\t\tif len(key) == 0 {",
			Expect: "C11/X2-ownership-before-apply/*VerifyBackupHashSlotSnapshotReader*"},
		Mutant{Name: "x-meta-visitor-error-swallowed", File: "pkg/db/meta/snapshot_stream_import.go",
			Old:    "\t\tif err := visit(key, value); err != nil {\n\t\t\treturn nil, 0, err\n\t\t}",
			New:    "\t\tif err := visit(key, value); err != nil {\n\t\t\tcontinue\n\t\t}",
			Expect: "C11/X2-ownership-before-apply/*visitSlotSnapshotStream*"},
		// ---- X3 ----
		Mutant{Name: "x-stats-inspect-unsorted-cuts", File: "pkg/db/message/backup_snapshot.go",
			Old:    "inspectMessageBackupSnapshot(ctx, view, request.HashSlot, channels)",
			New:    "inspectMessageBackupSnapshot(ctx, view, request.HashSlot, request.Channels)",
			Expect: "C11/X3-count-pairing/*OpenBackupSnapshotWithStats*"},
		Mutant{Name: "x-stats-writer-unsorted-cuts", File: "pkg/db/message/backup_snapshot.go",
			Old:    "writeMessageBackupSnapshot(streamContext, writer, view, request.HashSlot, channels, messageCounts)",
			New:    "writeMessageBackupSnapshot(streamContext, writer, view, request.HashSlot, request.Channels, messageCounts)",
			Expect: "C11/X3-count-pairing/*OpenBackupSnapshotWithStats*"},
		Mutant{Name: "x-plain-export-unsorted-cuts", File: "pkg/db/message/backup_snapshot.go",
			Old:    "writeMessageBackupSnapshot(streamContext, writer, view, request.HashSlot, channels, nil)",
			New:    "writeMessageBackupSnapshot(streamContext, writer, view, request.HashSlot, request.Channels[:len(channels)], nil)",
			Expect: "C11/X3-count-pairing/*OpenBackupSnapshot$1*"},
		Mutant{Name: "x-stats-inspect-other-view", File: "pkg/db/message/backup_snapshot.go",
			Old:    "inspectMessageBackupSnapshot(ctx, view, request.HashSlot, channels)",
			New:    "inspectMessageBackupSnapshot(ctx, db.engine, request.HashSlot, channels)",
			Expect: "C11/X3-count-pairing/*OpenBackupSnapshotWithStats*"},
		Mutant{Name: "x-writer-count-index-shifted", File: "pkg/db/message/backup_snapshot.go",
			Old:    "messageCount = &messageCounts[index]",
			New:    "messageCount = &messageCounts[len(messageCounts)-1-index]",
			Expect: "C11/X3-count-pairing/*writeMessageBackupSnapshot#*"},
		Mutant{Name: "x-inspect-count-slot-not-per-cut", File: "pkg/db/message/backup_snapshot.go",
			Old:    "\t\t\tcounts[index]++\n",
			New:    "\t\t\tcounts[len(counts)-1]++\n",
			Expect: "C11/X3-count-pairing/*inspectMessageBackupSnapshot#*"},
	)
}

func xc11Run(c *Ctx) {
	const msg = "pkg/db/message."
	const meta = "pkg/db/meta."

	// ---- X1-install-complete (seed C11-a) ------------------------------------------------
	// The per-channel installers write the checkpoint first and the rows afterwards in several
	// durable batches, so "checkpoint already equal" does NOT mean "rows already there". Clause:
	// whatever branch is taken, a return that can report success lies behind (1) a successful
	// durable commit and (2) the exit edge of the installer's own row loop (all messageCount rows
	// consumed by THIS function); and (3) inside the loop every row that was read reaches
	// stageMessageRow before the next row is read or success is reported.
	// Not decided (arithmetic): that the last partial batch is committed before the loop exits
	// (that rests on `index+1 == messageCount`).
	for _, t := range []struct{ fn, bound, read string }{
		{msg + "MessageDB.importMessageBackupChannelStream", "header.messageCount", msg + "readMessageBackupStreamRow"},
		{msg + "MessageDB.importBackupChannel", "messageCount", msg + "readBackupUint64"},
	} {
		fn := c.Fn(t.fn)
		if fn == nil {
			continue
		}
		c.Guard("X1-install-complete", fn, xc11MaySucceed{},
			c09EngCommit+"(*) == nil",
			"* >= "+t.bound)
		xc11EveryReadRowStaged(c, "X1-install-complete", fn, t.read, msg+"channelEntry.stageMessageRow")
	}

	// ---- X2-ownership-before-apply (seed C11-b) --------------------------------------------
	// The streaming metadata importer is not atomic (DeleteRange batch, then 1024-entry batches),
	// so "rejected rather than partially applied" rests on a complete read-only pass that proves
	// every key belongs to the requested hash slots BEFORE the first mutation. Clause: every
	// mutation (and the install pass itself) is reachable only through the success edge of a
	// visitSlotSnapshotStream call whose visitor can return success only behind
	// snapshotEntryInHashSlots(<its key parameter>, …) == true. The same is required of the
	// success return of the read-only verifier that the restore orchestration relies on.
	mimp := c.Fn(meta + "MetaDB.importHashSlotSnapshotReader")
	xc11BehindValidatingPass(c, "X2-ownership-before-apply", mimp, "mutation-or-install-pass", func(in ssa.Instruction, validating map[*ssa.Call]bool) bool {
		ci, ok := in.(ssa.CallInstruction)
		if !ok {
			return false
		}
		name := calleeName(ci.Common())
		switch {
		case name == c09EngNew, strings.HasPrefix(name, c09EngBatch) && !strings.HasSuffix(name, ".Close"), name == meta+"MetaDB.stageSlotSnapshotEntry":
			return true
		case name == meta+"visitSlotSnapshotStream":
			call, _ := in.(*ssa.Call)
			return call == nil || !validating[call]
		}
		return false
	})
	mver := c.Fn(meta + "VerifyBackupHashSlotSnapshotReader")
	xc11BehindValidatingPass(c, "X2-ownership-before-apply", mver, "success-return", func(in ssa.Instruction, _ map[*ssa.Call]bool) bool {
		return xc11MaySucceed{}.Match(in)
	})
	// and the pass really stops at the first visitor error
	mvisit := c.Fn(meta + "visitSlotSnapshotStream")
	c09AfterEdge(c, "X2-ownership-before-apply", mvisit, "dyn:visit(*) != nil", OneOf{xc11MaySucceed{}, CallTo{"dyn:visit"}}, nil)
	c.ErrUsed("X2-ownership-before-apply", []*ssaFunction{mvisit}, []string{"dyn:visit"}, nil)

	// ---- X3-count-pairing (seed C11-c) -----------------------------------------------------
	// messageCounts[i] is meaningful only as "the count of channels[i]" of one particular slice.
	xc11ExportCallPairing(c, "X3-count-pairing")
	for _, f := range []string{msg + "writeMessageBackupSnapshot", msg + "inspectMessageBackupSnapshot"} {
		xc11SameIndex(c, "X3-count-pairing", c.Fn(f))
	}

	c.Min("X1-install-complete", 6)
	c.Min("X2-ownership-before-apply", 4)
	c.Min("X3-count-pairing", 6)
}

// ---------------------------------------------------------------------------------------------
// "may succeed" returns

// xc11MaySucceed matches a return whose error result is not provably non-nil: `return …, nil`,
// but also `return f(x)` / `return v, err` where err is not known to be an error on this path.
// Provably non-nil: a package-level error variable, fmt.Errorf / errors.New, a concrete value
// boxed into the interface, or a value the return is reachable with only through the `!= nil`
// edge of a test of that very value.
type xc11MaySucceed struct{}

func (xc11MaySucceed) String() string { return "return that may report success" }
func (xc11MaySucceed) Match(in ssa.Instruction) bool {
	ret, ok := in.(*ssa.Return)
	if !ok || len(ret.Results) == 0 {
		return false
	}
	i := len(ret.Results) - 1
	if !isErrorType(ret.Results[i].Type()) {
		return false
	}
	if ret.Block() == ret.Parent().Recover {
		return false
	}
	return !xc11KnownNonNil(retOperand(ret, i), ret.Block(), 0)
}

func xc11IsNilConst(v ssa.Value) bool {
	c, ok := v.(*ssa.Const)
	return ok && c.Value == nil
}

func xc11KnownNonNil(v ssa.Value, at *ssa.BasicBlock, depth int) bool {
	if v == nil || depth > 4 {
		return false
	}
	switch x := v.(type) {
	case *ssa.Const:
		return false
	case *ssa.MakeInterface:
		return true
	case *ssa.UnOp:
		if x.Op == token.MUL {
			if _, ok := x.X.(*ssa.Global); ok {
				return true
			}
		}
	case *ssa.Call:
		switch calleeName(&x.Call) {
		case "fmt.Errorf", "errors.New":
			return true
		}
	case *ssa.Phi:
		for _, e := range x.Edges {
			if !xc11KnownNonNil(e, at, depth+1) {
				return false
			}
		}
		return len(x.Edges) > 0
	}
	// dominated by the non-nil edge of a test of this very value
	fn := at.Parent()
	removed := map[edge]bool{}
	for _, b := range fn.Blocks {
		if len(b.Instrs) == 0 {
			continue
		}
		iff, ok := b.Instrs[len(b.Instrs)-1].(*ssa.If)
		if !ok {
			continue
		}
		bin, ok := iff.Cond.(*ssa.BinOp)
		if !ok || (bin.Op != token.NEQ && bin.Op != token.EQL) {
			continue
		}
		var tested ssa.Value
		switch {
		case xc11IsNilConst(bin.Y):
			tested = bin.X
		case xc11IsNilConst(bin.X):
			tested = bin.Y
		default:
			continue
		}
		if tested != v && !xc11SameCellLoad(tested, v) {
			continue
		}
		if bin.Op == token.NEQ {
			removed[edge{b, 0}] = true
		} else {
			removed[edge{b, 1}] = true
		}
	}
	if len(removed) == 0 {
		return false
	}
	_, reachable := reachUnguarded(fn, removed, nil)[at]
	return !reachable
}

// xc11SameCellLoad: a and b are two loads of the same local cell with nothing in between that
// could change it (b's block is entered only from a's block; no store to the cell and no call
// between the two loads).
func xc11SameCellLoad(a, b ssa.Value) bool {
	la, ok1 := a.(*ssa.UnOp)
	lb, ok2 := b.(*ssa.UnOp)
	if !ok1 || !ok2 || la.Op != token.MUL || lb.Op != token.MUL || la.X != lb.X {
		return false
	}
	if _, ok := la.X.(*ssa.Alloc); !ok {
		if _, ok := la.X.(*ssa.FreeVar); !ok {
			return false
		}
	}
	clean := func(instrs []ssa.Instruction) bool {
		for _, in := range instrs {
			switch x := in.(type) {
			case *ssa.Store:
				if x.Addr == la.X {
					return false
				}
			case ssa.CallInstruction:
				return false
			}
		}
		return true
	}
	ba, bb := la.Block(), lb.Block()
	ia, ib := indexIn(ba, la), indexIn(bb, lb)
	if ba == bb {
		return ia < ib && clean(ba.Instrs[ia+1:ib])
	}
	if len(bb.Preds) != 1 || bb.Preds[0] != ba {
		return false
	}
	return clean(ba.Instrs[ia+1:]) && clean(bb.Instrs[:ib])
}

// ---------------------------------------------------------------------------------------------
// X1: every row read is staged

// xc11EveryReadRowStaged: from each call matching readGlob, no path reaches the same read again
// (next loop iteration) or a return that may report success without passing a call to stage.
func xc11EveryReadRowStaged(c *Ctx, rule string, fn *ssa.Function, readGlob, stageGlob string) {
	fname := c.P.Name(fn)
	construct := fname + "#every-row-read-is-staged"
	reads := instrsMatching(fn, CallTo{readGlob})
	// only reads that sit in a loop are row reads
	var starts []ssa.Instruction
	for _, r := range reads {
		if xc11InCycle(r.Block()) {
			starts = append(starts, r)
		}
	}
	if len(starts) == 0 {
		c.add("order", rule, construct, Undecided, c.P.Pos(fn.Pos()), "no row read "+readGlob+" inside a loop of "+fname+" (the installer changed shape; update the rule)")
		return
	}
	stage := CallTo{stageGlob}
	var bad []string
	for _, start := range starts {
		sb := start.Block()
		seen := map[*ssa.BasicBlock]bool{}
		var walk func(b *ssa.BasicBlock, from int) string
		walk = func(b *ssa.BasicBlock, from int) string {
			for i := from; i < len(b.Instrs); i++ {
				in := b.Instrs[i]
				if stage.Match(in) {
					return ""
				}
				if in == start {
					return "the next row is read at " + c.P.InstrPos(in)
				}
				if (xc11MaySucceed{}).Match(in) {
					return "success is reported at " + c.P.InstrPos(in)
				}
			}
			for _, s := range b.Succs {
				if s == fn.Recover || seen[s] {
					continue
				}
				seen[s] = true
				if why := walk(s, 0); why != "" {
					return why
				}
			}
			return ""
		}
		if why := walk(sb, indexIn(sb, start)+1); why != "" {
			bad = append(bad, fmt.Sprintf("after the row read at %s %s without %s", c.P.InstrPos(start), why, stageGlob))
		}
	}
	if len(bad) > 0 {
		c.add("order", rule, construct, Violated, c.P.InstrPos(starts[0]), strings.Join(bad, "; ")+": a row of the stream is consumed but not installed, so the installer can report a complete channel that lacks rows")
		return
	}
	c.add("order", rule, construct, Held, c.P.InstrPos(starts[0]), fmt.Sprintf("%d row read site(s); every path from a read to the next read or to a success return passes %s", len(starts), stageGlob))
}

// xc11InCycle: can b reach itself?
func xc11InCycle(b *ssa.BasicBlock) bool {
	seen := map[*ssa.BasicBlock]bool{}
	work := append([]*ssa.BasicBlock(nil), b.Succs...)
	for len(work) > 0 {
		x := work[len(work)-1]
		work = work[:len(work)-1]
		if x == b {
			return true
		}
		if seen[x] {
			continue
		}
		seen[x] = true
		work = append(work, x.Succs...)
	}
	return false
}

// ---------------------------------------------------------------------------------------------
// X2: mutations behind a successful ownership-validating pass

const xc11MetaVisit = "pkg/db/meta.visitSlotSnapshotStream"

// xc11VisitorRejectsForeign: fn (a visitor func(key, value []byte) error) can report success only
// behind snapshotEntryInHashSlots(<its first parameter>, …) == true.
func xc11VisitorRejectsForeign(fn *ssa.Function) bool {
	if fn == nil || len(fn.Blocks) == 0 || len(fn.Params) < 1 {
		return false
	}
	key := fn.Params[0].Name()
	if key == "" || key == "_" {
		return false
	}
	g := parseGuard("pkg/db/meta.snapshotEntryInHashSlots(" + key + ", *) == true")
	removed, _ := guardEdges(fn, g)
	limit := reachUnguarded(fn, removed, nil)
	n := 0
	for _, in := range instrsMatching(fn, xc11MaySucceed{}) {
		n++
		if lim, ok := limit[in.Block()]; ok && indexIn(in.Block(), in) < lim {
			return false
		}
	}
	return n > 0
}

// xc11SuccessEdge finds the CFG edge on which the error result (#last) of call is known to be nil:
// either the extracted value is compared with nil directly, or it is stored into a local cell that
// is loaded and compared with nil in the same block with no call or store to the cell in between.
func xc11SuccessEdge(call *ssa.Call) (edge, bool) {
	refs := call.Referrers()
	if refs == nil {
		return edge{}, false
	}
	last := call.Call.Signature().Results().Len() - 1
	var errVals []ssa.Value
	if last == 0 {
		errVals = append(errVals, call)
	}
	for _, r := range *refs {
		if ex, ok := r.(*ssa.Extract); ok && ex.Index == last {
			errVals = append(errVals, ex)
		}
	}
	nilEdge := func(v ssa.Value) (edge, bool) {
		if v.Referrers() == nil {
			return edge{}, false
		}
		for _, r := range *v.Referrers() {
			bin, ok := r.(*ssa.BinOp)
			if !ok || (bin.Op != token.NEQ && bin.Op != token.EQL) {
				continue
			}
			if !(bin.X == v && xc11IsNilConst(bin.Y)) && !(bin.Y == v && xc11IsNilConst(bin.X)) {
				continue
			}
			if bin.Referrers() == nil {
				continue
			}
			for _, rr := range *bin.Referrers() {
				iff, ok := rr.(*ssa.If)
				if !ok {
					continue
				}
				if bin.Op == token.NEQ {
					return edge{iff.Block(), 1}, true
				}
				return edge{iff.Block(), 0}, true
			}
		}
		return edge{}, false
	}
	for _, ev := range errVals {
		if e, ok := nilEdge(ev); ok {
			return e, true
		}
		if ev.Referrers() == nil {
			continue
		}
		for _, r := range *ev.Referrers() {
			st, ok := r.(*ssa.Store)
			if !ok || st.Val != ev {
				continue
			}
			b := st.Block()
			from := indexIn(b, st)
			for i := from + 1; i < len(b.Instrs); i++ {
				in := b.Instrs[i]
				if s2, ok := in.(*ssa.Store); ok && s2.Addr == st.Addr {
					break
				}
				if _, ok := in.(ssa.CallInstruction); ok && !xc11CellPrivateUntil(st.Addr, b) {
					break
				}
				if ld, ok := in.(*ssa.UnOp); ok && ld.Op == token.MUL && ld.X == st.Addr {
					if e, ok := nilEdge(ld); ok && e.from == b {
						return e, true
					}
				}
			}
		}
	}
	return edge{}, false
}

// xc11CellPrivateUntil: the local cell cannot be written by a callee before the end of block b:
// its address is only stored to, loaded from, or captured by closures that are created strictly
// after b (in blocks dominated by b), so no call executed in b can reach it.
func xc11CellPrivateUntil(cell ssa.Value, b *ssa.BasicBlock) bool {
	if _, ok := cell.(*ssa.Alloc); !ok || cell.Referrers() == nil {
		return false
	}
	for _, r := range *cell.Referrers() {
		switch x := r.(type) {
		case *ssa.Store:
			if x.Addr != cell {
				return false // the address itself is stored somewhere
			}
		case *ssa.UnOp, *ssa.DebugRef:
		case *ssa.MakeClosure:
			if x.Block() == b || !b.Dominates(x.Block()) {
				return false
			}
		default:
			return false
		}
	}
	return true
}

func xc11BehindValidatingPass(c *Ctx, rule string, fn *ssa.Function, what string, eff func(in ssa.Instruction, validating map[*ssa.Call]bool) bool) {
	if fn == nil {
		return
	}
	fname := c.P.Name(fn)
	construct := fname + "#" + what + "⇐ownership-validating pass over the stream succeeded"
	validating := map[*ssa.Call]bool{}
	removed := map[edge]bool{}
	nvisit := 0
	var notes []string
	for _, in := range instrsMatching(fn, CallTo{xc11MetaVisit}) {
		call, ok := in.(*ssa.Call)
		if !ok || len(call.Call.Args) < 4 {
			continue
		}
		nvisit++
		var visitor *ssa.Function
		switch v := call.Call.Args[3].(type) {
		case *ssa.MakeClosure:
			visitor, _ = v.Fn.(*ssa.Function)
		case *ssa.Function:
			visitor = v
		}
		if !xc11VisitorRejectsForeign(visitor) {
			continue
		}
		validating[call] = true
		if e, ok := xc11SuccessEdge(call); ok {
			removed[e] = true
		} else {
			notes = append(notes, "the error result of the validating pass at "+c.P.InstrPos(call)+" is not tested right after the call")
		}
	}
	var effs []ssa.Instruction
	for _, b := range fn.Blocks {
		if b == fn.Recover {
			continue
		}
		for _, in := range b.Instrs {
			if eff(in, validating) {
				effs = append(effs, in)
			}
		}
	}
	if len(effs) == 0 {
		c.add("guard", rule, construct, Undecided, c.P.Pos(fn.Pos()), "no "+what+" site found in "+fname+" (the function changed shape; update the rule)")
		return
	}
	if len(removed) == 0 {
		why := fmt.Sprintf("%s has %d visitSlotSnapshotStream pass(es) but none whose visitor reports success only behind snapshotEntryInHashSlots(key, …) == true and whose error is tested", fname, nvisit)
		if len(notes) > 0 {
			why += " (" + strings.Join(notes, "; ") + ")"
		}
		c.add("guard", rule, construct, Violated, c.P.InstrPos(effs[0]), why+": a well-framed, checksum-valid stream with a key of another hash slot is only rejected after the target was already modified")
		return
	}
	limit := reachUnguarded(fn, removed, nil)
	var bad []string
	for _, e := range effs {
		if lim, ok := limit[e.Block()]; ok && indexIn(e.Block(), e) < lim {
			bad = append(bad, c.P.InstrPos(e))
		}
	}
	if len(bad) > 0 {
		c.add("guard", rule, construct, Violated, bad[0], fmt.Sprintf("%s reachable without the success edge of the ownership-validating pass at %s", what, strings.Join(bad, ", ")))
		return
	}
	c.add("guard", rule, construct, Held, c.P.InstrPos(effs[0]), fmt.Sprintf("%d site(s); %d validating pass(es) of %d; every site lies behind the success edge of a validating pass", len(effs), len(validating), nvisit))
}

// ---------------------------------------------------------------------------------------------
// X3: value identity through local cells and closure captures

// xc11RootCell follows a captured variable to the Alloc of the outermost function that owns it.
func xc11RootCell(cell ssa.Value) ssa.Value {
	for d := 0; d < 8; d++ {
		fv, ok := cell.(*ssa.FreeVar)
		if !ok {
			return cell
		}
		f := fv.Parent()
		p := f.Parent()
		if p == nil {
			return cell
		}
		idx := -1
		for i, x := range f.FreeVars {
			if x == fv {
				idx = i
			}
		}
		var bound ssa.Value
		for _, b := range p.Blocks {
			for _, in := range b.Instrs {
				if mc, ok := in.(*ssa.MakeClosure); ok && mc.Fn == ssa.Value(f) && idx >= 0 && idx < len(mc.Bindings) {
					bound = mc.Bindings[idx]
				}
			}
		}
		if bound == nil {
			return cell
		}
		cell = bound
	}
	return cell
}

// xc11CellStores: every value stored into the cell, in its owner and in closures capturing it.
func xc11CellStores(cell ssa.Value, depth int) []ssa.Value {
	var out []ssa.Value
	if depth > 6 || cell.Referrers() == nil {
		return out
	}
	for _, r := range *cell.Referrers() {
		switch x := r.(type) {
		case *ssa.Store:
			if x.Addr == cell {
				out = append(out, x.Val)
			}
		case *ssa.MakeClosure:
			f, ok := x.Fn.(*ssa.Function)
			if !ok {
				continue
			}
			for i, bnd := range x.Bindings {
				if bnd == cell && i < len(f.FreeVars) {
					out = append(out, xc11CellStores(f.FreeVars[i], depth+1)...)
				}
			}
		}
	}
	return out
}

// xc11Origins: the set of SSA values v may hold, seeing through conversions, interface boxing, phis and loads of
// local cells (also when the cell is captured by a closure). Anything else is its own origin.
func xc11Origins(v ssa.Value) map[ssa.Value]bool {
	out := map[ssa.Value]bool{}
	seen := map[ssa.Value]bool{}
	var walk func(v ssa.Value, d int)
	walk = func(v ssa.Value, d int) {
		v = stripConv(v)
		if v == nil || seen[v] {
			return
		}
		seen[v] = true
		if d > 10 {
			out[v] = true
			return
		}
		switch x := v.(type) {
		case *ssa.Phi:
			for _, e := range x.Edges {
				walk(e, d+1)
			}
			return
		case *ssa.MakeInterface:
			walk(x.X, d+1)
			return
		case *ssa.ChangeInterface:
			walk(x.X, d+1)
			return
		case *ssa.UnOp:
			if x.Op == token.MUL {
				switch x.X.(type) {
				case *ssa.Alloc, *ssa.FreeVar:
					root := xc11RootCell(x.X)
					if _, ok := root.(*ssa.Alloc); ok {
						if st := xc11CellStores(root, 0); len(st) > 0 {
							for _, s := range st {
								walk(s, d+1)
							}
							return
						}
					}
				}
			}
		}
		out[v] = true
	}
	walk(v, 0)
	return out
}

func xc11SameOrigins(a, b map[ssa.Value]bool) bool {
	if len(a) != len(b) || len(a) == 0 {
		return false
	}
	for k := range a {
		if !b[k] {
			return false
		}
	}
	return true
}

func xc11OriginNames(m map[ssa.Value]bool) string {
	var s []string
	for v := range m {
		s = append(s, Path(v))
	}
	sort.Strings(s)
	return "{" + strings.Join(s, ", ") + "}"
}

// xc11ResultOf: every origin of v is result #idx of a call to callee; returns those calls.
func xc11ResultOf(v ssa.Value, callee string, idx int) ([]*ssa.Call, bool) {
	var calls []*ssa.Call
	or := xc11Origins(v)
	if len(or) == 0 {
		return nil, false
	}
	for o := range or {
		ex, ok := o.(*ssa.Extract)
		if !ok || ex.Index != idx {
			return nil, false
		}
		call, ok := ex.Tuple.(*ssa.Call)
		if !ok || calleeName(&call.Call) != callee {
			return nil, false
		}
		calls = append(calls, call)
	}
	return calls, true
}

// xc11ExportCallPairing: for every call writeMessageBackupSnapshot(ctx, w, view, hashSlot, channels, counts)
//   - channels is result #0 of normalizeBackupChannelCuts (sorted, duplicate-free: the canonical order of the stream),
//   - if counts is not the nil constant it is result #1 of inspectMessageBackupSnapshot(ctx, view', hashSlot', channels')
//     with channels' the SAME value as channels, view' the same read view and hashSlot' the same expression.
func xc11ExportCallPairing(c *Ctx, rule string) {
	const msg = "pkg/db/message."
	const writer = msg + "writeMessageBackupSnapshot"
	const inspect = msg + "inspectMessageBackupSnapshot"
	const normalize = msg + "normalizeBackupChannelCuts"
	nsites := 0
	for _, fn := range c.P.AllFuncs {
		if !strings.HasPrefix(c.P.Name(fn), msg) {
			continue
		}
		for _, in := range instrsMatching(fn, CallTo{writer}) {
			ci := in.(ssa.CallInstruction)
			args := ci.Common().Args
			if len(args) != 6 {
				continue
			}
			nsites++
			fname := c.P.Name(fn)
			c.FuncsAnalysed[fname] = true
			c.CallSites++
			// (a) the cuts written are the normalised ones
			cuts := xc11Origins(args[4])
			construct := fname + "#exported cuts are normalizeBackupChannelCuts(…)#0"
			if _, ok := xc11ResultOf(args[4], normalize, 0); ok {
				c.add("shape", rule, construct, Held, c.P.InstrPos(in), "the channel slice written to the stream is "+xc11OriginNames(cuts))
			} else {
				c.add("shape", rule, construct, Violated, c.P.InstrPos(in), "the channel slice written to the stream is "+xc11OriginNames(cuts)+", not the key-sorted duplicate-free result of normalizeBackupChannelCuts: the export is not canonical (re-export differs) and positional counts computed on the normalised slice do not belong to these channels")
			}
			// (c) nothing is streamed unless normalisation (and, with counts, inspection) succeeded:
			// the writer goroutine's closure is created only behind those success edges
			if parent := fn.Parent(); parent != nil {
				mk := InstrFn{Name: "start of stream writer " + fname, F: func(x ssa.Instruction) bool {
					mc, ok := x.(*ssa.MakeClosure)
					return ok && mc.Fn == ssa.Value(fn)
				}}
				guards := []string{"*normalizeBackupChannelCuts(*)#1 == nil"}
				if !xc11IsNilConst(args[5]) {
					guards = append(guards, "*inspectMessageBackupSnapshot(*)#2 == nil")
				}
				c.Guard(rule, parent, mk, guards...)
			}
			// (b) counts are those of the same cuts in the same view
			if xc11IsNilConst(args[5]) {
				continue
			}
			construct = fname + "#per-channel counts come from inspectMessageBackupSnapshot over the same cuts, view and hash slot"
			calls, ok := xc11ResultOf(args[5], inspect, 1)
			if !ok {
				c.add("shape", rule, construct, Violated, c.P.InstrPos(in), "messageCounts passed to the stream writer is "+xc11OriginNames(xc11Origins(args[5]))+", not result #1 of inspectMessageBackupSnapshot")
				continue
			}
			var bad []string
			for _, call := range calls {
				ia := call.Call.Args
				if len(ia) != 4 {
					bad = append(bad, "unexpected inspectMessageBackupSnapshot signature")
					continue
				}
				if ic := xc11Origins(ia[3]); !xc11SameOrigins(ic, cuts) {
					bad = append(bad, fmt.Sprintf("counts were computed over %s (at %s) but are applied by position to %s", xc11OriginNames(ic), c.P.InstrPos(call), xc11OriginNames(cuts)))
				}
				if iv, wv := xc11Origins(ia[1]), xc11Origins(args[2]); !xc11SameOrigins(iv, wv) {
					bad = append(bad, fmt.Sprintf("counts were computed in read view %s but the rows are streamed from %s", xc11OriginNames(iv), xc11OriginNames(wv)))
				}
				if ih, wh := xc11OriginNames(xc11Origins(ia[2])), xc11OriginNames(xc11Origins(args[3])); ih != wh {
					bad = append(bad, fmt.Sprintf("hash slot differs: inspected %s, written %s", ih, wh))
				}
			}
			if len(bad) > 0 {
				c.add("shape", rule, construct, Violated, c.P.InstrPos(in), strings.Join(bad, "; ")+": the messageCount field written in front of a channel's rows disagrees with the rows that follow, so the checksum-valid export cannot be restored")
			} else {
				c.add("shape", rule, construct, Held, c.P.InstrPos(in), fmt.Sprintf("%d inspect call(s); same cut slice %s, same read view, same hash slot", len(calls), xc11OriginNames(cuts)))
			}
		}
	}
	if nsites < 2 {
		c.add("shape", rule, "callsites:"+writer, Undecided, "", fmt.Sprintf("found %d call(s) to %s with the expected signature, expected the plain and the stats export (update the rule)", nsites, writer))
	}
}

// xc11SameIndex: in fn and its closures every element access into a []uint64 (the per-channel
// counts) and every element access into a []BackupChannelCut uses one and the same index value
// (the loop index over the cuts), and there is at least one access of each kind.
func xc11SameIndex(c *Ctx, rule string, fn *ssa.Function) {
	if fn == nil {
		return
	}
	fname := c.P.Name(fn)
	construct := fname + "#counts[i] and cuts[i] use the same loop index"
	class := func(t types.Type) string {
		if p, ok := t.Underlying().(*types.Pointer); ok {
			t = p.Elem()
		}
		sl, ok := t.Underlying().(*types.Slice)
		if !ok {
			return ""
		}
		if b, ok := sl.Elem().Underlying().(*types.Basic); ok && b.Kind() == types.Uint64 {
			return "counts"
		}
		if typeBaseName(sl.Elem()) == "BackupChannelCut" {
			return "cuts"
		}
		return ""
	}
	n := map[string]int{}
	index := map[ssa.Value]bool{}
	var sites []string
	var first ssa.Instruction
	for _, f := range WithClosures(fn) {
		for _, b := range f.Blocks {
			for _, in := range b.Instrs {
				ia, ok := in.(*ssa.IndexAddr)
				if !ok {
					continue
				}
				k := class(ia.X.Type())
				if k == "" {
					continue
				}
				if first == nil {
					first = in
				}
				n[k]++
				or := xc11Origins(ia.Index)
				for v := range or {
					index[v] = true
				}
				sites = append(sites, fmt.Sprintf("%s[%s] at %s", k, xc11OriginNames(or), c.P.InstrPos(in)))
			}
		}
	}
	switch {
	case n["counts"] == 0 || n["cuts"] == 0:
		c.add("shape", rule, construct, Undecided, c.P.Pos(fn.Pos()), fmt.Sprintf("%s has %d indexed access(es) to the counts and %d to the cuts; the positional pairing is no longer expressed by indexing (update the rule)", fname, n["counts"], n["cuts"]))
	case len(index) != 1:
		sort.Strings(sites)
		c.add("shape", rule, construct, Violated, c.P.InstrPos(first), "per-channel counts and channel cuts are not indexed by one common loop index: "+strings.Join(sites, "; "))
	default:
		c.add("shape", rule, construct, Held, c.P.InstrPos(first), fmt.Sprintf("%d counts access(es) and %d cuts access(es), all with index %s", n["counts"], n["cuts"], xc11OriginNames(index)))
	}
}
