package main

import (
	"fmt"
	"go/token"
	"sort"
	"strings"

	"golang.org/x/tools/go/ssa"
)

// Extension rules for C14 (durable Raft log behaves as a correct Raft storage), added after three
// independently seeded bugs that the R1..R3 table did not see:
//
//	X1-tombstone  (seed a)  the range tombstones staged by saveOp.apply have the bounds of the key space
//	                        they must hide, and no entry key is written over a stored suffix without one.
//	X2-gc-window  (seed b)  the published snapshot directory is protected from the snapshot GC
//	                        (lifecycle mutex held or final path registered active) from the rename until
//	                        the manifest commit has returned; the GC deletes nothing active/referenced.
//	X3-cut        (seed c)  the tail-replacement / compaction helpers split the entry slice exactly at
//	                        their bound parameter (Index < first | Index >= first, Index <= snap | Index > snap)
//	                        and saveOp.apply hands the helper the first index of the very slice it appends.
func init() {
	const pb = c09Pebble
	extend("C14", nil, func(c *Ctx) {
		apply := c.Fn(c14P + "saveOp.apply")

		// ---- X1: range tombstone bounds --------------------------------------------------
		// Pebble's DeleteRange end key is exclusive. The three legal tombstones of a save are
		//   compaction        [entryPrefix, entryKey(snapshotIndex+1))
		//   compaction at max [entryPrefix, entryPrefixEnd)
		//   suffix overwrite  [entryKey(first incoming index), entryPrefixEnd)   - unbounded above: whatever
		//                     the stale tail was, nothing at or above `first` survives.
		// Any other bound (a computed last index, a missing +1) is refused.
		const scopeArg = "store.scope"
		c.CallShape("X1-tombstone", apply, pb+"Batch.DeleteRange",
			"*(batch, *encodeEntryPrefix("+scopeArg+"), *encodeEntryKey("+scopeArg+", (*.Snapshot.Index + 1)), nil)",
			"*(batch, *encodeEntryPrefix("+scopeArg+"), *encodeEntryPrefixEnd("+scopeArg+"), nil)",
			"*(batch, *encodeEntryKey("+scopeArg+", *[0].Index), *encodeEntryPrefixEnd("+scopeArg+"), nil)")
		// An entry key is written only when the incoming batch starts above the stored tail, or after the
		// suffix tombstone [entryKey(first), entryPrefixEnd) was staged in the same batch.
		c.Guard("X1-tombstone", apply, CallTo{pb + "Batch.Set(batch, *encodeEntryKey(*"},
			"*[0].Index > state.meta.LastIndex || after: "+pb+"Batch.DeleteRange(batch, *encodeEntryKey("+scopeArg+", *[0].Index), *encodeEntryPrefixEnd("+scopeArg+"), nil)")
		// A snapshot that is staged always stages its compaction tombstone before the cached state moves.
		c.Guard("X1-tombstone", apply, StoreTo{"state.snapshot", ""},
			"after: "+pb+"Batch.DeleteRange(batch, *encodeEntryPrefix("+scopeArg+"), *")

		// ---- X2: GC window of a published snapshot directory ----------------------------------
		pc := c.Fn(c14P + "DB.publishSnapshotAndCommit")
		xc14Window(c, "X2-gc-window", pc, xc14WindowSpec{
			Mutex:  ".snapshotLifecycleMu",
			Add:    []string{c14P + "DB.addActiveSnapshotPathLocked", c14P + "DB.registerActiveSnapshotPath"},
			Remove: c14P + "DB.removeActiveSnapshotPathLocked",
			Open:   c14P + "snapshotStore.publishFinal",
			Close:  c14P + "DB.submitWrite",
			Field:  ".finalDir",
			Other:  ".tmpDir",
		})
		// the other half of the same protocol: the collector runs under the lifecycle mutex and removes a
		// directory only if it is unreferenced and not registered active.
		gc := c.Fn(c14P + "DB.runSnapshotGC")
		c.Guard("X2-gc-window", gc, OneOf{CallTo{c14P + "DB.liveSnapshotPathsLocked"}, CallTo{c14P + "DB.collectSnapshotGarbageLocked"}},
			"after: sync.Mutex.Lock(db.snapshotLifecycleMu)")
		xc14NoUnlockBefore(c, "X2-gc-window", gc, ".snapshotLifecycleMu", c14P+"DB.collectSnapshotGarbageLocked")
		c.ConfineCalls("X2-gc-window", c14P+"DB.collectSnapshotGarbageLocked", 1, c14P+"DB.runSnapshotGC")
		c.ConfineCalls("X2-gc-window", c14P+"DB.collectSnapshotScopeGarbageLocked", 1, c14P+"DB.collectSnapshotGarbageLocked")
		scan := c.Fn(c14P + "DB.collectSnapshotScopeGarbageLocked")
		c.Guard("X2-gc-window", scan, CallTo{"os.RemoveAll"},
			"db.activeSnapshotPaths[*] <= 0",
			"*shouldDeleteSnapshotDirLocked(*, live) == true")
		xc14RemoveKeyIsActiveKey(c, "X2-gc-window", scan)

		// ---- X3: cut predicates of the cached tail ---------------------------------------
		for _, s := range []xc14CutSpec{
			{c14P + "replaceCachedEntriesFromIndex", "existing", "first", []string{">=", "<"}, "the retained prefix is exactly the entries below first"},
			{c14P + "replaceEntriesFromIndex", "existing", "first", []string{">=", "<"}, "the retained prefix is exactly the entries below first (reference storage)"},
			{c14P + "trimCachedEntriesAfterSnapshot", "existing", "snapshotIndex", []string{"<=", ">"}, "only entries above the snapshot index stay cached"},
			{c14P + "trimEntriesAfterSnapshot", "existing", "snapshotIndex", []string{"<=", ">"}, "only entries above the snapshot index stay (reference storage)"},
			{c14P + "filterEntriesAfterSnapshot", "entries", "snapshotIndex", []string{"<=", ">"}, "only entries above the snapshot index are written"},
		} {
			xc14CutClass(c, "X3-cut", s)
		}
		for _, f := range []string{"trimCachedEntriesAfterSnapshot", "trimEntriesAfterSnapshot", "filterEntriesAfterSnapshot"} {
			c.Guard("X3-cut", c.Fn(c14P+f), CallTo{"append"}, "*.Index > snapshotIndex")
		}
		xc14ReplaceArgs(c, "X3-cut", apply)
		c.StoreShape("X3-cut", apply, "state.entries",
			"*replaceCachedEntriesFromIndex(state.entries, *",
			"*trimCachedEntriesAfterSnapshot(state.entries, *.Snapshot.Index)")

		c.Min("X1-tombstone", 3)
		c.Min("X2-gc-window", 8)
		c.Min("X3-cut", 10)
	},
		// X1
		Mutant{Name: "x-overwrite-tombstone-ends-at-old-last", File: "pkg/raftlog/pebble_writer.go",
			Old: "batch.DeleteRange(encodeEntryKey(scope, first), encodeEntryPrefixEnd(scope), nil)",
			New: "batch.DeleteRange(encodeEntryKey(scope, first), encodeEntryKey(scope, state.meta.LastIndex), nil)", Expect: "C14/X1-tombstone/*callshape*"},
		Mutant{Name: "x-compaction-tombstone-keeps-snapshot-index", File: "pkg/raftlog/pebble_writer.go",
			Old: "batch.DeleteRange(encodeEntryPrefix(scope), encodeEntryKey(scope, st.Snapshot.Index+1), nil)",
			New: "batch.DeleteRange(encodeEntryPrefix(scope), encodeEntryKey(scope, st.Snapshot.Index), nil)", Expect: "C14/X1-tombstone/*callshape*"},
		Mutant{Name: "x-overwrite-tombstone-only-below-first-index", File: "pkg/raftlog/pebble_writer.go",
			Old: "\t\tif first <= state.meta.LastIndex {\n", New: "\t\tif first <= state.meta.FirstIndex {\n", Expect: "C14/X1-tombstone/*Batch.Set*"},
		Mutant{Name: "x-overwrite-tombstone-dropped", File: "pkg/raftlog/pebble_writer.go",
			Old: "\t\tif first <= state.meta.LastIndex {\n\t\t\tif err := batch.DeleteRange(encodeEntryKey(scope, first), encodeEntryPrefixEnd(scope), nil); err != nil {\n\t\t\t\treturn err\n\t\t\t}\n\t\t}\n",
			New: "", Expect: "C14/X1-tombstone/*Batch.Set*"},
		// X2
		Mutant{Name: "x-lifecycle-released-before-manifest-commit", File: "pkg/raftlog/pebble_store.go",
			Old: xc14PublishTail, New: xc14PublishTailEarlyRelease, Expect: "C14/X2-gc-window/*protected-until*"},
		Mutant{Name: "x-lifecycle-lock-covers-only-tmp-deregistration", File: "pkg/raftlog/pebble_store.go",
			Old: "\tdb.addActiveSnapshotPathLocked(staged.finalDir)\n\tdefer func() {\n\t\tdb.removeActiveSnapshotPathLocked(staged.finalDir)\n\t\tdb.snapshotLifecycleMu.Unlock()\n",
			New: "\tdb.snapshotLifecycleMu.Unlock()\n\tdefer func() {\n", Expect: "C14/X2-gc-window/*protected*"},
		Mutant{Name: "x-final-dir-deregistered-before-submit", File: "pkg/raftlog/pebble_store.go",
			Old:    "\terr := db.submitWrite(req)\n\tif err == nil || !errors.Is(err, errWriteNotEnqueued) {",
			New:    "\tdb.removeActiveSnapshotPathLocked(staged.finalDir)\n\tdb.snapshotLifecycleMu.Unlock()\n\terr := db.submitWrite(req)\n\tdb.snapshotLifecycleMu.Lock()\n\tdb.addActiveSnapshotPathLocked(staged.finalDir)\n\tif err == nil || !errors.Is(err, errWriteNotEnqueued) {",
			Expect: "C14/X2-gc-window/*protected-until*"},
		Mutant{Name: "x-gc-ignores-active-paths", File: "pkg/raftlog/snapshot_gc.go",
			Old: "\t\tif db.activeSnapshotPaths[path] > 0 {\n\t\t\tcontinue\n\t\t}\n", New: "", Expect: "C14/X2-gc-window/*RemoveAll*"},
		Mutant{Name: "x-gc-scans-without-lifecycle-lock", File: "pkg/raftlog/snapshot_gc.go",
			Old:    "\tlive, err := db.liveSnapshotPathsLocked()\n\tif err != nil {\n\t\treturn err\n\t}\n\treturn db.collectSnapshotGarbageLocked(ctx, live, time.Now())",
			New:    "\tlive, err := db.liveSnapshotPathsLocked()\n\tif err != nil {\n\t\treturn err\n\t}\n\tdb.snapshotLifecycleMu.Unlock()\n\tdefer db.snapshotLifecycleMu.Lock()\n\treturn db.collectSnapshotGarbageLocked(ctx, live, time.Now())",
			Expect: "C14/X2-gc-window/*no-unlock-before*"},
		// X3
		Mutant{Name: "x-cached-tail-cut-keeps-entry-at-first", File: "pkg/raftlog/pebble_writer.go",
			Old:    "\tcut := len(existing)\n\tfor i, entry := range existing {\n\t\tif entry.Index >= first {\n\t\t\tcut = i\n\t\t\tbreak\n\t\t}\n\t}\n\tresult := existing\n",
			New:    "\tcut := len(existing)\n\tfor lo, hi := 0, len(existing); lo < hi; {\n\t\tmid := (lo + hi) / 2\n\t\tif existing[mid].Index > first {\n\t\t\thi, cut = mid, mid\n\t\t} else {\n\t\t\tlo = mid + 1\n\t\t}\n\t}\n\tresult := existing\n",
			Expect: "C14/X3-cut/*replaceCachedEntriesFromIndex*"},
		Mutant{Name: "x-cached-tail-cut-in-closure-keeps-entry-at-first", File: "pkg/raftlog/pebble_writer.go",
			Old:    "\tcut := len(existing)\n\tfor i, entry := range existing {\n\t\tif entry.Index >= first {\n\t\t\tcut = i\n\t\t\tbreak\n\t\t}\n\t}\n\tresult := existing\n",
			New:    "\tcut := len(existing)\n\tpast := func(i int) bool { return existing[i].Index > first }\n\tfor i := range existing {\n\t\tif past(i) {\n\t\t\tcut = i\n\t\t\tbreak\n\t\t}\n\t}\n\tresult := existing\n",
			Expect: "C14/X3-cut/*replaceCachedEntriesFromIndex*"},
		Mutant{Name: "x-cached-tail-cut-shifted-bound", File: "pkg/raftlog/pebble_writer.go",
			Old:    "\t\tif entry.Index >= first {\n\t\t\tcut = i\n\t\t\tbreak\n\t\t}\n\t}\n\tresult := existing\n",
			New:    "\t\tif entry.Index >= first+1 {\n\t\t\tcut = i\n\t\t\tbreak\n\t\t}\n\t}\n\tresult := existing\n",
			Expect: "C14/X3-cut/*replaceCachedEntriesFromIndex*"},
		Mutant{Name: "x-cached-trim-keeps-snapshot-entry", File: "pkg/raftlog/pebble_writer.go",
			Old:    "\tfor _, entry := range existing {\n\t\tif entry.Index <= snapshotIndex {\n\t\t\tcontinue\n\t\t}\n\t\tresult = append(result, cloneCachedEntry(entry))",
			New:    "\tfor _, entry := range existing {\n\t\tif entry.Index < snapshotIndex {\n\t\t\tcontinue\n\t\t}\n\t\tresult = append(result, cloneCachedEntry(entry))",
			Expect: "C14/X3-cut/*trimCachedEntriesAfterSnapshot*"},
		Mutant{Name: "x-cache-replaced-with-unfiltered-entries", File: "pkg/raftlog/pebble_writer.go",
			Old: "state.entries = replaceCachedEntriesFromIndex(state.entries, first, entries)",
			New: "state.entries = replaceCachedEntriesFromIndex(state.entries, first, st.Entries)", Expect: "C14/X3-cut/*replace-args*"},
	)
}

// ---------------------------------------------------------------------------------------------
// X2: protection window

type xc14WindowSpec struct {
	Mutex  string   // suffix of the mutex path
	Add    []string // callees that register a path active
	Remove string   // callee that deregisters a path
	Open   string   // callee after which the object exists unreferenced (the rename)
	Close  string   // callee whose return makes it referenced (the manifest commit)
	Field  string   // path suffix of the protected path (relative to Open's last argument)
	Other  string   // path suffix of the unrelated registration that may be dropped freely
}

type xc14Rel struct{ mu, path bool }

// xc14Summaries computes for module functions whether calling them may release the mutex / deregister a path.
type xc14Summaries struct {
	spec xc14WindowSpec
	memo map[*ssa.Function]xc14Rel
	busy map[*ssa.Function]bool
}

// xc14Targets: the functions a called value may denote, as far as that is visible locally: static
// functions, closures, closures stored in locals / captured variables, closures made by a static callee.
// Function values loaded from struct fields (test hooks) and parameters resolve to nothing.
func xc14Targets(v ssa.Value, depth int) []*ssa.Function {
	if v == nil || depth > 8 {
		return nil
	}
	switch x := v.(type) {
	case *ssa.Function:
		return []*ssa.Function{x}
	case *ssa.MakeClosure:
		if f, ok := x.Fn.(*ssa.Function); ok {
			return []*ssa.Function{f}
		}
	case *ssa.ChangeType:
		return xc14Targets(x.X, depth+1)
	case *ssa.Phi:
		var out []*ssa.Function
		for _, e := range x.Edges {
			out = append(out, xc14Targets(e, depth+1)...)
		}
		return out
	case *ssa.UnOp:
		if x.Op != token.MUL {
			return nil
		}
		return xc14StoredIn(x.X, depth+1)
	case *ssa.Extract:
		return xc14Targets(x.Tuple, depth+1)
	case *ssa.Call:
		// a function value returned by a static callee: any closure that callee makes
		var out []*ssa.Function
		for _, f := range xc14Targets(x.Call.Value, depth+1) {
			out = append(out, xc14AllAnon(f)...)
		}
		return out
	}
	return nil
}

func xc14AllAnon(f *ssa.Function) []*ssa.Function {
	var out []*ssa.Function
	for _, a := range f.AnonFuncs {
		out = append(out, a)
		out = append(out, xc14AllAnon(a)...)
	}
	return out
}

// xc14StoredIn: function values stored into the variable at addr (a local Alloc or a captured variable).
func xc14StoredIn(addr ssa.Value, depth int) []*ssa.Function {
	var out []*ssa.Function
	switch a := addr.(type) {
	case *ssa.Alloc:
		if a.Referrers() == nil {
			return nil
		}
		for _, r := range *a.Referrers() {
			if st, ok := r.(*ssa.Store); ok && st.Addr == a {
				out = append(out, xc14Targets(st.Val, depth+1)...)
			}
		}
		// the variable may also be assigned inside closures that capture it
		if fn := a.Parent(); fn != nil {
			for _, an := range xc14AllAnon(fn) {
				for i, fv := range an.FreeVars {
					if b := xc14Binding(an, i); b == a {
						out = append(out, xc14StoresThroughFreeVar(fv, depth+1)...)
					}
				}
			}
		}
	case *ssa.FreeVar:
		fn := a.Parent()
		for i, fv := range fn.FreeVars {
			if fv == a {
				if b := xc14Binding(fn, i); b != nil {
					out = append(out, xc14StoredIn(b, depth+1)...)
				}
			}
		}
	}
	return out
}

func xc14StoresThroughFreeVar(fv *ssa.FreeVar, depth int) []*ssa.Function {
	var out []*ssa.Function
	if fv.Referrers() == nil {
		return nil
	}
	for _, r := range *fv.Referrers() {
		if st, ok := r.(*ssa.Store); ok && st.Addr == fv {
			out = append(out, xc14Targets(st.Val, depth+1)...)
		}
	}
	return out
}

// xc14Binding: the value bound to free variable i of closure fn where its parent creates it.
func xc14Binding(fn *ssa.Function, i int) ssa.Value {
	p := fn.Parent()
	if p == nil {
		return nil
	}
	for _, b := range p.Blocks {
		for _, in := range b.Instrs {
			if mc, ok := in.(*ssa.MakeClosure); ok && mc.Fn == fn && i < len(mc.Bindings) {
				return mc.Bindings[i]
			}
		}
	}
	return nil
}

func (s *xc14Summaries) of(fn *ssa.Function) xc14Rel {
	if fn == nil || len(fn.Blocks) == 0 {
		return xc14Rel{}
	}
	if r, ok := s.memo[fn]; ok {
		return r
	}
	if s.busy[fn] {
		return xc14Rel{}
	}
	s.busy[fn] = true
	var r xc14Rel
	for _, b := range fn.Blocks {
		for _, in := range b.Instrs {
			ci, ok := in.(ssa.CallInstruction)
			if !ok {
				continue
			}
			e := s.effect(ci.Common(), "")
			r.mu = r.mu || e.relMu
			r.path = r.path || e.relPath
		}
	}
	delete(s.busy, fn)
	s.memo[fn] = r
	return r
}

type xc14Effect struct{ lock, relMu, add, relPath bool }

// effect of one call. `protected` is the exact rendered path under protection when analysing the
// anchor function itself ("" inside callees: there every deregistration that is not the unrelated
// path counts as a release).
func (s *xc14Summaries) effect(cc *ssa.CallCommon, protected string) xc14Effect {
	var e xc14Effect
	if p, op := lockOp(cc); op != "" {
		if strings.HasSuffix(p, s.spec.Mutex) {
			switch op {
			case "Lock":
				e.lock = true
			case "Unlock":
				e.relMu = true
			}
		}
		return e
	}
	name := calleeName(cc)
	args := callArgs(cc)
	last := ""
	if len(args) > 0 {
		last = Path(args[len(args)-1])
	}
	if name == s.spec.Remove {
		switch {
		case protected != "" && last == protected:
			e.relPath = true
		case protected != "" && strings.HasSuffix(last, s.spec.Other):
		case protected == "" && strings.HasSuffix(last, s.spec.Other):
		default:
			e.relPath = true
		}
		return e
	}
	if globAny(s.spec.Add, name) {
		if protected != "" && last == protected {
			e.add = true
		}
		return e
	}
	for _, f := range xc14Targets(cc.Value, 0) {
		r := s.of(f)
		e.relMu = e.relMu || r.mu
		e.relPath = e.relPath || r.path
	}
	return e
}

type xc14WState struct {
	locked, active bool // must
	open, gap      bool // may
	reached        bool
}

func xc14Meet(a, b xc14WState) xc14WState {
	if !a.reached {
		return b
	}
	if !b.reached {
		return a
	}
	return xc14WState{a.locked && b.locked, a.active && b.active, a.open || b.open, a.gap || b.gap, true}
}

// xc14Window decides: in fn, at every call of Open and of Close the object is protected (mutex held on all
// paths, or its path registered active on all paths), and between an Open and a Close there is no
// program point at which it is unprotected (direct calls, local closures, deferred calls at exit).
func xc14Window(c *Ctx, rule string, fn *ssa.Function, spec xc14WindowSpec) {
	if fn == nil {
		return
	}
	fname := c.P.Name(fn)
	sum := &xc14Summaries{spec: spec, memo: map[*ssa.Function]xc14Rel{}, busy: map[*ssa.Function]bool{}}

	// the protected path: <last argument of Open><Field>
	protected := ""
	var opens, closes []ssa.Instruction
	var deferred []*ssa.CallCommon
	for _, b := range fn.Blocks {
		if b == fn.Recover {
			continue
		}
		for _, in := range b.Instrs {
			switch x := in.(type) {
			case *ssa.Defer:
				deferred = append(deferred, &x.Call)
			case *ssa.Call:
				switch calleeName(&x.Call) {
				case spec.Open:
					opens = append(opens, in)
					if a := callArgs(&x.Call); len(a) > 0 {
						p := Path(a[len(a)-1]) + spec.Field
						if protected != "" && protected != p {
							protected = "<ambiguous>"
						} else {
							protected = p
						}
					}
				case spec.Close:
					closes = append(closes, in)
				}
			}
		}
	}
	kOpen := fname + "#gc-protected@" + spec.Open
	kClose := fname + "#gc-protected-until@" + spec.Close
	if len(opens) == 0 || len(closes) == 0 || protected == "" || protected == "<ambiguous>" {
		c.add("window", rule, kOpen, Undecided, c.P.Pos(fn.Pos()), fmt.Sprintf("anchors not found: %d call(s) of %s, %d call(s) of %s, protected path %q", len(opens), spec.Open, len(closes), spec.Close, protected))
		return
	}

	step := func(st xc14WState, in ssa.Instruction, report func(ssa.Instruction, xc14WState)) xc14WState {
		apply := func(e xc14Effect) {
			if e.lock {
				st.locked = true
			}
			if e.add {
				st.active = true
			}
			if e.relMu {
				st.locked = false
			}
			if e.relPath {
				st.active = false
			}
		}
		switch x := in.(type) {
		case *ssa.Call:
			name := calleeName(&x.Call)
			if name == spec.Open || name == spec.Close {
				if report != nil {
					report(in, st)
				}
				if name == spec.Open {
					st.open = true
				}
			}
			apply(sum.effect(&x.Call, protected))
		case *ssa.Go:
			e := sum.effect(&x.Call, protected)
			e.lock, e.add = false, false
			apply(e)
		case *ssa.RunDefers:
			for _, d := range deferred {
				e := sum.effect(d, protected)
				e.lock, e.add = false, false
				apply(e)
			}
		}
		if st.open && !st.locked && !st.active {
			st.gap = true
		}
		return st
	}

	in := map[*ssa.BasicBlock]xc14WState{}
	out := map[*ssa.BasicBlock]xc14WState{}
	for changed, iter := true, 0; changed && iter < 200; iter++ {
		changed = false
		for _, b := range fn.Blocks {
			if b == fn.Recover {
				continue
			}
			var st xc14WState
			if b == fn.Blocks[0] {
				st = xc14WState{reached: true}
			} else {
				for _, p := range b.Preds {
					st = xc14Meet(st, out[p])
				}
				if !st.reached {
					continue
				}
			}
			in[b] = st
			for _, ins := range b.Instrs {
				st = step(st, ins, nil)
			}
			if out[b] != st {
				out[b] = st
				changed = true
			}
		}
	}
	var badOpen, badClose []string
	var posOpen, posClose string
	for _, b := range fn.Blocks {
		st, ok := in[b]
		if !ok || b == fn.Recover {
			continue
		}
		for _, ins := range b.Instrs {
			st = step(st, ins, func(at ssa.Instruction, s xc14WState) {
				call := at.(*ssa.Call)
				pos := c.P.InstrPos(at)
				if calleeName(&call.Call) == spec.Open {
					posOpen = pos
					if !s.locked && !s.active {
						badOpen = append(badOpen, "at "+pos+" neither *"+spec.Mutex+" is held nor "+protected+" is registered active on every path")
					}
					return
				}
				posClose = pos
				switch {
				case !s.locked && !s.active:
					badClose = append(badClose, "at "+pos+" neither *"+spec.Mutex+" is held nor "+protected+" is registered active on every path: a GC pass between the rename and the manifest commit removes the directory")
				case s.gap:
					badClose = append(badClose, "a path from "+spec.Open+" to "+pos+" passes a point where the directory is neither locked nor registered active")
				case !s.open:
					badClose = append(badClose, "at "+pos+" no "+spec.Open+" precedes on any path")
				}
			})
		}
	}
	if len(badOpen) > 0 {
		c.add("window", rule, kOpen, Violated, posOpen, strings.Join(badOpen, "; "))
	} else {
		c.add("window", rule, kOpen, Held, posOpen, fmt.Sprintf("%d call(s) of %s, each with %s protected (mutex held or path active on all paths)", len(opens), spec.Open, protected))
	}
	if len(badClose) > 0 {
		c.add("window", rule, kClose, Violated, posClose, strings.Join(badClose, "; "))
	} else {
		c.add("window", rule, kClose, Held, posClose, fmt.Sprintf("%d call(s) of %s, %s protected continuously since %s (releases only in deferred calls / after it); function values loaded from fields (test hooks) are trusted", len(closes), spec.Close, protected, spec.Open))
	}
}

// xc14NoUnlockBefore: no path from the entry reaches a call of `callee` after (directly or through a local
// closure / module callee) unlocking the mutex; deferred unlocks run at exit and are fine.
func xc14NoUnlockBefore(c *Ctx, rule string, fn *ssa.Function, mutex, callee string) {
	if fn == nil {
		return
	}
	sum := &xc14Summaries{spec: xc14WindowSpec{Mutex: mutex, Remove: "\x00", Other: "\x00"}, memo: map[*ssa.Function]xc14Rel{}, busy: map[*ssa.Function]bool{}}
	var unlocks []ssa.Instruction
	n := 0
	for _, b := range fn.Blocks {
		if b == fn.Recover {
			continue
		}
		for _, in := range b.Instrs {
			call, ok := in.(*ssa.Call)
			if !ok {
				continue
			}
			if calleeName(&call.Call) == callee {
				n++
				continue
			}
			if sum.effect(&call.Call, "").relMu {
				unlocks = append(unlocks, in)
			}
		}
	}
	construct := c.P.Name(fn) + "#no-unlock-before:" + callee
	if n == 0 {
		c.add("order", rule, construct, Undecided, c.P.Pos(fn.Pos()), "no call of "+callee+" (vacuous)")
		return
	}
	for _, u := range unlocks {
		if c09ReachesWithout(fn, u, func(in ssa.Instruction) bool {
			call, ok := in.(*ssa.Call)
			return ok && calleeName(&call.Call) == callee
		}, func(in ssa.Instruction) bool {
			call, ok := in.(*ssa.Call)
			if !ok {
				return false
			}
			p, op := lockOp(&call.Call)
			return op == "Lock" && strings.HasSuffix(p, mutex)
		}) {
			c.add("order", rule, construct, Violated, c.P.InstrPos(u), "*"+mutex+" is released at "+c.P.InstrPos(u)+" and "+callee+" is reachable from there without re-locking")
			return
		}
	}
	c.add("order", rule, construct, Held, c.P.Pos(fn.Pos()), fmt.Sprintf("%d call(s) of %s; %d non-deferred unlock(s), none can reach it", n, callee, len(unlocks)))
}

// xc14RemoveKeyIsActiveKey: the path handed to os.RemoveAll is the key whose active count was tested.
func xc14RemoveKeyIsActiveKey(c *Ctx, rule string, fn *ssa.Function) {
	if fn == nil {
		return
	}
	keys := map[string]bool{}
	for _, b := range fn.Blocks {
		if len(b.Instrs) == 0 {
			continue
		}
		iff, ok := b.Instrs[len(b.Instrs)-1].(*ssa.If)
		if !ok {
			continue
		}
		if a, ok := condAtom(iff.Cond, true); ok {
			for _, side := range []string{a.L, a.R} {
				if i := strings.Index(side, ".activeSnapshotPaths["); i >= 0 && strings.HasSuffix(side, "]") {
					keys[side[i+len(".activeSnapshotPaths["):len(side)-1]] = true
				}
			}
		}
	}
	var bad []string
	n := 0
	pos := c.P.Pos(fn.Pos())
	for _, in := range instrsMatching(fn, CallTo{"os.RemoveAll"}) {
		n++
		pos = c.P.InstrPos(in)
		arg := Path(callArgs(in.(ssa.CallInstruction).Common())[0])
		if !keys[arg] {
			bad = append(bad, "os.RemoveAll("+arg+") at "+pos+": the active count tested is of "+strings.Join(xc14Keys(keys), " / "))
		}
	}
	construct := c.P.Name(fn) + "#removed-path-is-the-tested-active-key"
	switch {
	case n == 0:
		c.add("shape", rule, construct, Undecided, pos, "no os.RemoveAll call (vacuous)")
	case len(bad) > 0:
		c.add("shape", rule, construct, Violated, pos, strings.Join(bad, "; "))
	default:
		c.add("shape", rule, construct, Held, pos, fmt.Sprintf("%d removal(s), each of the path whose activeSnapshotPaths count is compared", n))
	}
}

func xc14Keys(m map[string]bool) []string {
	var out []string
	for k := range m {
		out = append(out, k)
	}
	sort.Strings(out)
	return out
}

// ---------------------------------------------------------------------------------------------
// X3: cut predicates

type xc14CutSpec struct {
	fn, slice, bound string
	ops              []string // allowed operators with the element index on the left
	why              string
}

// xc14ParamRoot: the parameter of the outermost enclosing function that v is a plain copy of (directly, through
// the spill slot of an address-taken/captured parameter, or through a closure's free variable), else nil.
func xc14ParamRoot(v ssa.Value, depth int) *ssa.Parameter {
	if v == nil || depth > 8 {
		return nil
	}
	switch x := stripConv(v).(type) {
	case *ssa.Parameter:
		if x.Parent() != nil && x.Parent().Parent() == nil {
			return x
		}
	case *ssa.UnOp:
		if x.Op == token.MUL {
			return xc14VarParam(x.X, depth+1)
		}
	}
	return nil
}

// xc14VarParam: addr is the variable holding a parameter of the outermost function (its spill slot, or
// a closure's free variable bound to that slot) and nothing else is ever stored into it.
func xc14VarParam(addr ssa.Value, depth int) *ssa.Parameter {
	if addr == nil || depth > 8 {
		return nil
	}
	switch a := addr.(type) {
	case *ssa.Alloc:
		if p, ok := spilledParam(a).(*ssa.Parameter); ok {
			return xc14ParamRoot(p, depth+1)
		}
	case *ssa.FreeVar:
		fn := a.Parent()
		for i, fv := range fn.FreeVars {
			if fv == a {
				if len(xc14StoresThroughFreeVarAny(a)) > 0 {
					return nil
				}
				return xc14VarParam(xc14Binding(fn, i), depth+1)
			}
		}
	}
	return nil
}

func xc14StoresThroughFreeVarAny(fv *ssa.FreeVar) []ssa.Instruction {
	var out []ssa.Instruction
	if fv.Referrers() == nil {
		return nil
	}
	for _, r := range *fv.Referrers() {
		if st, ok := r.(*ssa.Store); ok && st.Addr == fv {
			out = append(out, st)
		}
	}
	return out
}

func xc14SliceOf(v ssa.Value, param string, depth int) bool {
	if v == nil || depth > 8 {
		return false
	}
	v = stripConv(v)
	if s, ok := v.(*ssa.Slice); ok {
		return xc14SliceOf(s.X, param, depth+1)
	}
	p := xc14ParamRoot(v, 0)
	return p != nil && p.Name() == param
}

// xc14ElemAddr: addr is the address of an element of the slice parameter (or of a local copy of one).
func xc14ElemAddr(addr ssa.Value, param string, depth int) bool {
	if addr == nil || depth > 8 {
		return false
	}
	switch a := addr.(type) {
	case *ssa.IndexAddr:
		return xc14SliceOf(a.X, param, depth+1)
	case *ssa.Alloc:
		if a.Referrers() == nil {
			return false
		}
		n := 0
		for _, r := range *a.Referrers() {
			if st, ok := r.(*ssa.Store); ok && st.Addr == a {
				n++
				if !xc14ElemVal(st.Val, param, depth+1) {
					return false
				}
			}
		}
		return n > 0
	}
	return false
}

func xc14ElemVal(v ssa.Value, param string, depth int) bool {
	if v == nil || depth > 8 {
		return false
	}
	switch x := v.(type) {
	case *ssa.UnOp:
		return x.Op == token.MUL && xc14ElemAddr(x.X, param, depth+1)
	case *ssa.Phi:
		for _, e := range x.Edges {
			if !xc14ElemVal(e, param, depth+1) {
				return false
			}
		}
		return len(x.Edges) > 0
	}
	return false
}

// xc14ElemIndex: v is the .Index of an element of the slice parameter.
func xc14ElemIndex(v ssa.Value, param string) bool {
	switch x := stripConv(v).(type) {
	case *ssa.UnOp:
		if x.Op != token.MUL {
			return false
		}
		fa, ok := x.X.(*ssa.FieldAddr)
		return ok && fieldName(fa.X.Type(), fa.Field) == "Index" && xc14ElemAddr(fa.X, param, 0)
	case *ssa.Field:
		return fieldName(x.X.Type(), x.Field) == "Index" && xc14ElemVal(x.X, param, 0)
	}
	return false
}

// xc14Involves: the bound parameter occurs somewhere inside the arithmetic expression v.
func xc14Involves(v ssa.Value, param string, depth int) bool {
	if v == nil || depth > 6 {
		return false
	}
	v = stripConv(v)
	if p := xc14ParamRoot(v, 0); p != nil {
		return p.Name() == param
	}
	switch x := v.(type) {
	case *ssa.BinOp:
		return xc14Involves(x.X, param, depth+1) || xc14Involves(x.Y, param, depth+1)
	case *ssa.Phi:
		for _, e := range x.Edges {
			if xc14Involves(e, param, depth+1) {
				return true
			}
		}
	}
	return false
}

// xc14CutClass: every comparison in s.fn (and its closures) between the Index of an element of the slice
// parameter and the bound parameter has the bound parameter itself on the other side and an operator of
// the stated partition class. Which side of the partition is kept is not decided here (see the append
// guards for the filters; a flipped replacement breaks every append and every test).
func xc14CutClass(c *Ctx, rule string, s xc14CutSpec) {
	fn := c.Fn(s.fn)
	if fn == nil {
		return
	}
	hasParam := func(name string) bool {
		for _, p := range fn.Params {
			if p.Name() == name {
				return true
			}
		}
		return false
	}
	construct := s.fn + "#cut:" + s.slice + "[i].Index " + strings.Join(s.ops, "|") + " " + s.bound
	if !hasParam(s.slice) || !hasParam(s.bound) {
		c.add("compare", rule, construct, Undecided, c.P.Pos(fn.Pos()), "parameters "+s.slice+"/"+s.bound+" not found (signature changed)")
		return
	}
	n := 0
	var bad []string
	pos := c.P.Pos(fn.Pos())
	for _, f := range append([]*ssa.Function{fn}, xc14AllAnon(fn)...) {
		for _, b := range f.Blocks {
			for _, in := range b.Instrs {
				bin, ok := in.(*ssa.BinOp)
				if !ok {
					continue
				}
				op := bin.Op.String()
				if _, isCmp := negOp[op]; !isCmp {
					continue
				}
				lx, ly := xc14ElemIndex(bin.X, s.slice), xc14ElemIndex(bin.Y, s.slice)
				if lx == ly {
					continue
				}
				other := bin.Y
				if ly {
					other = bin.X
					op = mirrorOp[op]
				}
				if !xc14Involves(other, s.bound, 0) {
					continue
				}
				n++
				pos = c.P.InstrPos(in)
				if p := xc14ParamRoot(other, 0); p == nil || p.Name() != s.bound {
					bad = append(bad, fmt.Sprintf("%s[i].Index %s %s at %s: the bound is not the parameter %s itself", s.slice, op, Path(other), pos, s.bound))
					continue
				}
				okOp := false
				for _, a := range s.ops {
					okOp = okOp || a == op
				}
				if !okOp {
					bad = append(bad, fmt.Sprintf("%s[i].Index %s %s at %s splits the slice at the wrong index (allowed: %s)", s.slice, op, s.bound, pos, strings.Join(s.ops, ", ")))
				}
			}
		}
	}
	switch {
	case n == 0:
		c.add("compare", rule, construct, Undecided, pos, "no comparison between an element index of "+s.slice+" and "+s.bound+" found: the cut is computed some other way, decide it by hand")
	case len(bad) > 0:
		c.add("compare", rule, construct, Violated, pos, s.why+": "+strings.Join(bad, "; "))
	default:
		c.add("compare", rule, construct, Held, pos, fmt.Sprintf("%d comparison(s), all of the class %v against %s itself: %s", n, s.ops, s.bound, s.why))
	}
}

// xc14ReplaceArgs: saveOp.apply replaces the cached tail of state.entries from X[0].Index with that same X.
func xc14ReplaceArgs(c *Ctx, rule string, fn *ssa.Function) {
	if fn == nil {
		return
	}
	const callee = c14P + "replaceCachedEntriesFromIndex"
	construct := c.P.Name(fn) + "#replace-args:" + callee
	n := 0
	var bad []string
	pos := c.P.Pos(fn.Pos())
	for _, in := range instrsMatching(fn, CallTo{callee}) {
		call, ok := in.(*ssa.Call)
		if !ok || len(call.Call.Args) != 3 {
			continue
		}
		n++
		pos = c.P.InstrPos(in)
		a := call.Call.Args
		if Path(a[0]) != "state.entries" {
			bad = append(bad, "the tail replaced is "+Path(a[0])+", not state.entries")
		}
		same := false
		if ld, ok := stripConv(a[1]).(*ssa.UnOp); ok && ld.Op == token.MUL {
			if fa, ok := ld.X.(*ssa.FieldAddr); ok && fieldName(fa.X.Type(), fa.Field) == "Index" {
				if ia, ok := fa.X.(*ssa.IndexAddr); ok {
					if k, ok := ia.Index.(*ssa.Const); ok && k.Value != nil && k.Value.ExactString() == "0" {
						same = stripConv(ia.X) == stripConv(a[2])
					}
				}
			}
		}
		if !same {
			bad = append(bad, "first="+Path(a[1])+" is not the index of element 0 of the appended slice "+Path(a[2]))
		}
	}
	switch {
	case n == 0:
		c.add("shape", rule, construct, Undecided, pos, "no call of "+callee+" (vacuous)")
	case len(bad) > 0:
		c.add("shape", rule, construct, Violated, pos, strings.Join(bad, "; "))
	default:
		c.add("shape", rule, construct, Held, pos, fmt.Sprintf("%d call(s): (state.entries, X[0].Index, X) with one X", n))
	}
}

// the text of publishSnapshotAndCommit from its deferred release to the manifest commit, and the seeded
// variant that releases lock and registration through a closure right before the commit.
const xc14PublishTail = `	defer func() {
		db.removeActiveSnapshotPathLocked(staged.finalDir)
		db.snapshotLifecycleMu.Unlock()
		// Worker failures leave unreferenced final dirs for retry/GC; pre-worker failures are cleaned.
		if retErr != nil && published && cleanupPublishedOnFailure {
			db.removePublishedSnapshotDir(staged)
		}
	}()

	if err := db.snapshotStore.publishFinal(staged); err != nil {
		db.removePublishedSnapshotDirIfRenamed(staged)
		return cleanupStagedTmpPreservingError(staged, err)
	}
	published = true
	cleanupPublishedOnFailure = true
	if db.snapshotAfterPublishTestHook != nil {
		if err := db.snapshotAfterPublishTestHook(staged); err != nil {
			return err
		}
	}
	err := db.submitWrite(req)
`

const xc14PublishTailEarlyRelease = `	lifecycleLocked := true
	releaseLifecycle := func() {
		if !lifecycleLocked {
			return
		}
		lifecycleLocked = false
		db.removeActiveSnapshotPathLocked(staged.finalDir)
		db.snapshotLifecycleMu.Unlock()
	}
	defer func() {
		releaseLifecycle()
		// Worker failures leave unreferenced final dirs for retry/GC; pre-worker failures are cleaned.
		if retErr != nil && published && cleanupPublishedOnFailure {
			db.removePublishedSnapshotDir(staged)
		}
	}()

	if err := db.snapshotStore.publishFinal(staged); err != nil {
		db.removePublishedSnapshotDirIfRenamed(staged)
		return cleanupStagedTmpPreservingError(staged, err)
	}
	published = true
	cleanupPublishedOnFailure = true
	if db.snapshotAfterPublishTestHook != nil {
		if err := db.snapshotAfterPublishTestHook(staged); err != nil {
			return err
		}
	}
	releaseLifecycle()
	err := db.submitWrite(req)
`
