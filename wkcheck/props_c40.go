package main

import (
	"fmt"
	"go/constant"
	"go/types"
	"sort"
	"strings"

	"golang.org/x/tools/go/ssa"
)

// NOTE: uses the helpers c15Behind, c15ConfineRender, c15ReceiverMethods, c15FieldStores, c15RetShapes
// and c15FalseOnly defined in props_c15.go.

func init() {
	tm := "pkg/db/meta/table_message_event.go"
	cl := "pkg/cluster/node_message_event_stream_cache.go"
	register(&PropSpec{
		ID:        "C40",
		Pkgs:      []string{"./pkg/db/meta", "./pkg/cluster"},
		Technique: "static analysis: monotone-store classification of the event sequence fields + SSA edge-dominance guards on the reducer's applied return, the applied-id gate and the finish fail-closed branch + cut analysis (terminal status stored before applied) + switch exhaustiveness over the EventType constants",
		Explain:   "Decides the structural clause of 'message event projection is monotonic and fail-closed': (R1) MessageEventCursor.LastMsgEventSeq and MessageEventState.LastMsgEventSeq are stored in pkg/db/meta only as cursor.LastMsgEventSeq+1 (both from the same cursor), besides decode/fresh-row initialisation, and the cursor is re-initialised only behind !cursorExists; (R2) reduceMessageEventAppend reports didApply=true and mutates state/cursor only behind !(stateExists && (LastEventID==EventID || terminal(Status))), every terminal event type stores its terminal status before the applied return, the status is re-opened only by delta/snapshot, and isMessageEventTerminal is false only for statuses other than closed/error/cancelled; both AppendMessageEvent implementations write only behind 'applied-id row absent' and didApply, write state, cursor and applied row together through one batch (the staged closure behind three optimistic equality checks), and nothing else encodes these three row kinds; (R3) Node.appendMessageEventFinishLocal reaches the durable append only behind !(len(openStates)==0 && !payloadHasSnapshot), the other arm returns ErrMessageEventStreamCacheMiss, success is reported only behind a nil append error, and finish events are routed only to that function; (R4) the validating switch of normalizeMessageEventAppend names all seven EventType* constants and the reducer's switch all but stream.open (no case by design). NOT decided: lane semantics over random event sequences, the content of the merged snapshot, cache eviction policy, cross-node replay ordering.",
		Run:       c40,
		Mutants: []Mutant{
			{Name: "duplicate-event-id-reapplied", File: tm, Old: "if state.LastEventID == event.EventID || isMessageEventTerminal(state.Status) {", New: "if isMessageEventTerminal(state.Status) {", Expect: "C40/R2-reduce*"},
			{Name: "terminal-lane-reopened", File: tm, Old: "if state.LastEventID == event.EventID || isMessageEventTerminal(state.Status) {", New: "if state.LastEventID == event.EventID {", Expect: "C40/R2-reduce*"},
			{Name: "terminal-forgets-cancelled", File: tm, Old: "return status == EventStatusClosed || status == EventStatusError || status == EventStatusCancelled", New: "return status == EventStatusClosed || status == EventStatusError", Expect: "C40/R2-terminal*"},
			{Name: "seq-not-advanced", File: tm, Old: "\tnextSeq := cursor.LastMsgEventSeq + 1\n", New: "\tnextSeq := cursor.LastMsgEventSeq\n", Expect: "C40/R1-*"},
			{Name: "state-seq-from-own-counter", File: tm, Old: "\tstate.LastMsgEventSeq = nextSeq\n", New: "\tstate.LastMsgEventSeq = state.LastMsgEventSeq + 1\n", Expect: "C40/R1-*"},
			{Name: "cursor-reset-when-present", File: tm, Old: "\tif !cursorExists {\n\t\tcursor = MessageEventCursor{", New: "\tif !cursorExists || event.EventType == EventTypeStreamOpen {\n\t\tcursor = MessageEventCursor{", Expect: "C40/R1-*"},
			{Name: "cancel-leaves-lane-open", File: tm, Old: "\t\tstate.Status = EventStatusCancelled\n", New: "\t\tstate.Status = EventStatusOpen\n", Expect: "C40/R2-reduce*"},
			{Name: "shard-append-ignores-applied-row", File: tm, Old: "\tif appliedExists {\n\t\treturn s.messageEventAppendResultFromApplied(event, appliedEvent)\n\t}\n", New: "\t_ = appliedEvent\n\t_ = appliedExists\n", Expect: "C40/R2-append*"},
			{Name: "batch-append-ignores-applied-row", File: tm, Old: "\tif appliedExists {\n\t\treturn b.messageEventAppendResultFromApplied(hashSlot, event, appliedEvent)\n\t}\n", New: "", Expect: "C40/R2-append*"},
			{Name: "shard-append-drops-applied-write", File: tm, Old: "\tif err := batch.Set(appliedKey, encodeMessageEventAppliedValue(nextApplied)); err != nil {\n\t\treturn MessageEventAppendResult{}, err\n\t}\n", New: "\t_ = appliedKey\n", Expect: "C40/R2-append*"},
			{Name: "batch-commit-skips-cursor-conflict-check", File: tm, Old: "\t\tif !messageEventCursorEqual(currentCursor, currentCursorExists, baseCursor, cursorExists) {\n\t\t\treturn dberrors.ErrConflict\n\t\t}\n", New: "\t\tif !messageEventCursorEqual(currentCursor, currentCursorExists, baseCursor, cursorExists) {\n\t\t\t_ = baseCursor // conflict ignored\n\t\t}\n", Expect: "C40/R2-append*"},
			{Name: "shard-append-writes-unapplied", File: tm, Old: "\tif !didApply {\n\t\treturn result, nil\n\t}\n\n\tstateKey, err := messageEventStateRowKey(s.hashSlot", New: "\t_ = didApply\n\n\tstateKey, err := messageEventStateRowKey(s.hashSlot", Expect: "C40/R2-append*"},
			{Name: "finish-without-cache-proceeds", File: cl, Old: "\tif len(openStates) == 0 && !messageEventPayloadHasSnapshot(event.Payload) {", New: "\tif len(openStates) == 0 && !messageEventPayloadHasSnapshot(event.Payload) && len(event.Payload) > 1<<30 {", Expect: "C40/R3-finish*"},
			{Name: "finish-cache-miss-reported-ok", File: cl, Old: "\t\treturn metadb.MessageEventAppendResult{}, ErrMessageEventStreamCacheMiss\n", New: "\t\treturn metadb.MessageEventAppendResult{}, nil\n", Expect: "C40/R3-finish/pkg/cluster.Node.appendMessageEventFinishLocal#return …, nil*"},
			{Name: "finish-bypasses-fail-closed-path", File: cl, Old: "\tif event.EventType == metadb.EventTypeStreamFinish {\n\t\treturn n.appendMessageEventFinishLocal(ctx, event)\n\t}\n\tif isMessageEventTerminalEvent", New: "\tif isMessageEventTerminalEvent", Expect: "C40/R3-finish*"},
			{Name: "normalize-forgets-cancel", File: tm, Old: "case EventTypeStreamOpen, EventTypeStreamDelta, EventTypeStreamClose, EventTypeStreamError, EventTypeStreamCancel, EventTypeStreamSnapshot, EventTypeStreamFinish:", New: "case EventTypeStreamOpen, EventTypeStreamDelta, EventTypeStreamClose, EventTypeStreamError, EventTypeStreamSnapshot, EventTypeStreamFinish:", Expect: "C40/R4-exhaust*"},
		},
	})
}

func c40(c *Ctx) {
	p := "pkg/db/meta."
	k := "pkg/cluster."
	set := "pkg/db/internal/engine.Batch.Set"

	// ---------------------------------------------------------------- R1: the sequence only steps forward
	red := c.Fn(p + "reduceMessageEventAppend")
	next := "(cursor.LastMsgEventSeq + 1)"
	resets := map[string]string{
		p + "decodeMessageEvent*":                 "decode of a stored row (value comes from disk)",
		p + "messageEventAppendResultFromApplied": "builds the reply for an already applied event id from the applied row; never written",
	}
	c.Mono("R1-mono", p+"MessageEventCursor.LastMsgEventSeq", MonoOpts{Scope: []string{"pkg/db/meta.*"}, LiteralsToo: true, Resets: resets})
	c.Mono("R1-mono", p+"MessageEventState.LastMsgEventSeq", MonoOpts{Scope: []string{"pkg/db/meta.*"}, LiteralsToo: true, Resets: resets, ValueOK: []string{next}})
	c.StoreShape("R1-seq", red, "state.LastMsgEventSeq", next)
	c.StoreShape("R1-seq", red, "cursor.LastMsgEventSeq", next)
	c.Guard("R1-seq", red, StoreTo{Addr: "cursor", Val: "alloc:MessageEventCursor"}, "!cursorExists")
	c.c15FieldStores("R1-seq", red, p+"MessageEventCursor", []string{"cursor", "alloc:MessageEventCursor"}, map[string][]string{
		"ChannelID": {"event.ChannelID"}, "ChannelType": {"event.ChannelType"}, "ClientMsgNo": {"event.ClientMsgNo"},
		"LastMsgEventSeq": {next}, "UpdatedAt": {"event.UpdatedAt"}})
	// the applied return passes both sequence stores
	c.c15Behind("R1-seq", red, Ret{2, "true"}, "false == true", false, StoreTo{"cursor.LastMsgEventSeq", next})
	c.c15Behind("R1-seq", red, Ret{2, "true"}, "false == true", false, StoreTo{"state.LastMsgEventSeq", next})

	// ---------------------------------------------------------------- R2: the reducer gate and the write path
	fresh := "!stateExists || state.LastEventID != event.EventID"
	live := "!stateExists || " + p + "isMessageEventTerminal(state.Status) == false"
	c.Guard("R2-reduce", red, Ret{2, "true"}, fresh, live)
	c.Guard("R2-reduce", red, StoreTo{Addr: "state.*"}, fresh, live)
	c.Guard("R2-reduce", red, StoreTo{Addr: "cursor.*"}, fresh, live)
	c.c15RetShapes("R2-reduce", red, "state,cursor,const,result(event,state)", func(r []string) string {
		if len(r) == 4 && r[0] == "state" && r[1] == "cursor" && (r[2] == "true" || r[2] == "false") && r[3] == p+"messageEventAppendResult(event, state)" {
			return ""
		}
		return fmt.Sprint("returns ", r)
	})
	c.Guard("R2-reduce", red, StoreTo{Addr: "state.Status", Val: `"open"`}, `event.EventType == "stream.delta" || event.EventType == "stream.snapshot"`)
	for _, t := range []struct{ ev, status string }{{"stream.close", "closed"}, {"stream.error", "error"}, {"stream.cancel", "cancelled"}, {"stream.finish", "closed"}} {
		// "not this type" is established by the false edge of its case or by the true edge of any other (distinct) constant's case
		g := `event.EventType != "` + t.ev + `"`
		for _, other := range []string{"stream.open", "stream.delta", "stream.snapshot", "stream.close", "stream.error", "stream.cancel", "stream.finish"} {
			if other != t.ev {
				g += ` || event.EventType == "` + other + `"`
			}
		}
		c.c15Behind("R2-reduce", red, Ret{2, "true"}, g, true, StoreTo{"state.Status", `"` + t.status + `"`})
	}
	c.c15Behind("R2-reduce", red, Ret{2, "true"}, "false == true", true, StoreTo{"state.LastEventID", "event.EventID"})
	term := c.Fn(p + "isMessageEventTerminal")
	c.c15FalseOnly("R2-terminal", term, 0, `status != "closed"`, `status != "error"`, `status != "cancelled"`)
	c.c40ConstIs("R2-terminal", map[string]string{
		"EventStatusClosed": "closed", "EventStatusError": "error", "EventStatusCancelled": "cancelled", "EventStatusOpen": "open",
		"EventTypeStreamOpen": "stream.open", "EventTypeStreamDelta": "stream.delta", "EventTypeStreamSnapshot": "stream.snapshot", "EventTypeStreamClose": "stream.close",
		"EventTypeStreamError": "stream.error", "EventTypeStreamCancel": "stream.cancel", "EventTypeStreamFinish": "stream.finish"})

	sh := c.Fn(p + "Shard.AppendMessageEvent")
	absentS := p + "Table.getByPrimaryKey(pkg/db/meta.messageEventAppliedTable, *)#1 == false"
	didS := p + "reduceMessageEventAppend(*)#2 == true"
	for _, enc := range []string{"State", "Cursor", "Applied"} {
		c.Guard("R2-append", sh, CallTo{set + "(*, " + p + "encodeMessageEvent" + enc + "Value(*))"}, absentS, didS)
	}
	c.Guard("R2-append", sh, CallTo{"pkg/db/internal/engine.Batch.Commit"},
		set+"(*encodeMessageEventStateValue(*)) == nil", set+"(*encodeMessageEventCursorValue(*)) == nil", set+"(*encodeMessageEventAppliedValue(*)) == nil")
	c.Guard("R2-append", sh, RetNil{}, p+"reduceMessageEventAppend(*)#2 == false || pkg/db/internal/engine.Batch.Commit(*) == nil")
	c.c40CountCalls("R2-append", sh, "pkg/db/internal/engine.DB.NewBatch", 1)
	c.c40CountCalls("R2-append", sh, set, 3)
	c.CallShape("R2-append", sh, p+"reduceMessageEventAppend",
		p+"reduceMessageEventAppend(*messageEventStateTable*#0, *messageEventStateTable*#1, *messageEventCursorTable*#0, *messageEventCursorTable*#1, event)")
	c.CallShape("R2-append", sh, p+"messageEventAppliedFromResult", p+"messageEventAppliedFromResult(event, "+p+"reduceMessageEventAppend(*)#3)")

	ba := c.Fn(p + "Batch.AppendMessageEvent")
	absentB := p + "Batch.loadMessageEventAppliedForAppend(*)#1 == false"
	stageEff := OneOf{StoreTo{Addr: "b.messageEvent*[*]"}, CallTo{p + "Batch.addOp"}}
	c.Guard("R2-append", ba, stageEff, absentB, didS)
	c.StoreShape("R2-append", ba, "b.messageEventStates[*]", p+"cloneMessageEventState("+p+"reduceMessageEventAppend(*)#0)")
	c.StoreShape("R2-append", ba, "b.messageEventCursors[*]", p+"reduceMessageEventAppend(*)#1")
	c.StoreShape("R2-append", ba, "b.messageEventApplied[*]", p+"messageEventAppliedFromResult(event, "+p+"reduceMessageEventAppend(*)#3)")
	c.CallShape("R2-append", ba, p+"encodeMessageEventStateValue", p+"encodeMessageEventStateValue("+p+"reduceMessageEventAppend(*)#0)")
	c.CallShape("R2-append", ba, p+"encodeMessageEventCursorValue", p+"encodeMessageEventCursorValue("+p+"reduceMessageEventAppend(*)#1)")
	c.CallShape("R2-append", ba, p+"encodeMessageEventAppliedValue", p+"encodeMessageEventAppliedValue("+p+"messageEventAppliedFromResult(event, "+p+"reduceMessageEventAppend(*)#3))")
	c.CallShape("R2-append", ba, p+"reduceMessageEventAppend",
		p+"reduceMessageEventAppend("+p+"Batch.loadMessageEventStateForAppend(*)#0, *, "+p+"Batch.loadMessageEventCursorForAppend(*)#0, *, event)")
	bc := c.Fn(p + "Batch.AppendMessageEvent$1")
	c.Guard("R2-append", bc, CallTo{set},
		p+"messageEventAppliedEqual(*) == true", p+"messageEventStateEqual(*) == true", p+"messageEventCursorEqual(*) == true")
	c.c40CountCalls("R2-append", bc, set, 3)
	c.Guard("R2-append", bc, RetNil{}, "after: "+set)

	for _, enc := range []string{"State", "Cursor", "Applied"} {
		c.ConfineCalls("R2-writers", p+"encodeMessageEvent"+enc+"Value", 3, p+"Shard.AppendMessageEvent", p+"Batch.AppendMessageEvent", p+"init*")
		tbl := p + "messageEvent" + enc + "Table"
		c.c15ReceiverMethods("R2-writers", tbl, 4,
			p+"Table.Get", p+"Table.getByPrimaryKey", p+"Table.loadBatchRow", p+"Table.primaryRowKey", p+"Table.ScanPrimaryPrefix", p+"Table.Schema")
	}
	c.ConfineCalls("R2-writers", p+"reduceMessageEventAppend", 2, p+"Shard.AppendMessageEvent", p+"Batch.AppendMessageEvent")

	// ---------------------------------------------------------------- R3: finish fails closed
	fin := c.Fn(k + "Node.appendMessageEventFinishLocal")
	open := "len(" + k + "messageEventStreamCache.openStatesForFinish(n.messageEventStreamCache, event))"
	snap := k + "messageEventPayloadHasSnapshot(event.Payload)"
	c.Guard("R3-finish", fin, CallTo{k + "Node.appendMessageEventFinishPrepared"}, open+" != 0 || "+snap+" == true")
	c.Guard("R3-finish", fin, Ret{1, k + "ErrMessageEventStreamCacheMiss"}, open+" == 0", snap+" == false")
	c.Guard("R3-finish", fin, RetNil{}, k+"Node.appendMessageEventFinishPrepared(*)#2 == nil", open+" != 0 || "+snap+" == true")
	c.c15RetShapes("R3-finish", fin, "error ∈ {CacheMiss, prepared#2, nil}", func(r []string) string {
		if len(r) == 2 && (r[1] == "nil" || r[1] == k+"ErrMessageEventStreamCacheMiss" || glob(k+"Node.appendMessageEventFinishPrepared(*)#2", r[1])) {
			return ""
		}
		return fmt.Sprint("returns ", r)
	})
	c.CallShape("R3-finish", fin, k+"finishFlushMessageEvent", k+"finishFlushMessageEvent(event, "+k+"messageEventStreamCache.openStatesForFinish(n.messageEventStreamCache, event)[*])")
	loc := c.Fn(k + "Node.appendMessageEventLocal")
	c.Guard("R3-finish", loc, CallTo{k + "Node.appendMessageEventDurable"}, `event.EventType != "stream.finish"`)
	c.Guard("R3-finish", loc, CallTo{k + "Node.appendMessageEventFinishLocal"}, `event.EventType == "stream.finish"`)
	c.ConfineCalls("R3-finish", k+"Node.appendMessageEventFinishLocal", 1, k+"Node.appendMessageEventLocal")

	// ---------------------------------------------------------------- R4: every event type is handled
	norm := c.Fn(p + "normalizeMessageEventAppend")
	c.c40StringSwitch("R4-exhaust", norm, "event.EventType", "pkg/db/meta", "EventTypeStream", nil)
	c.c40StringSwitch("R4-exhaust", red, "event.EventType", "pkg/db/meta", "EventTypeStream", map[string]string{
		"EventTypeStreamOpen": "open only creates/keeps the lane in status open; the reducer has no case for it by design"})
	c.Guard("R4-exhaust", norm, RetNil{},
		`event.EventType == "stream.open" || event.EventType == "stream.delta" || event.EventType == "stream.close" || event.EventType == "stream.error" || event.EventType == "stream.cancel" || event.EventType == "stream.snapshot" || event.EventType == "stream.finish"`,
		`event.EventID != ""`, `event.ClientMsgNo != ""`)

	c.Min("R1-mono", 3)
	c.Min("R1-seq", 6)
	c.Min("R2-reduce", 13)
	c.Min("R2-append", 22)
	c.Min("R2-writers", 7)
	c.Min("R3-finish", 10)
}

// c40CountCalls: fn contains exactly n calls whose callee name (or rendering) matches calleeGlob.
func (c *Ctx) c40CountCalls(rule string, fn *ssa.Function, calleeGlob string, n int) {
	if fn == nil {
		return
	}
	got := 0
	for _, in := range instrsMatching(fn, CallTo{calleeGlob}) {
		if _, isDefer := in.(*ssa.Defer); !isDefer {
			got++
		}
	}
	construct := fmt.Sprintf("%s#count:%s=%d", c.P.Name(fn), calleeGlob, n)
	if got != n {
		c.add("shape", rule, construct, Violated, c.P.Pos(fn.Pos()), fmt.Sprintf("%d call(s) to %s, the projection writes exactly %d (state, cursor and applied rows through one batch)", got, calleeGlob, n))
		return
	}
	c.add("shape", rule, construct, Held, c.P.Pos(fn.Pos()), fmt.Sprintf("exactly %d call(s)", n))
}

// c40ConstIs pins the string values used in guard strings to the named (untyped string) constants of pkg/db/meta.
func (c *Ctx) c40ConstIs(rule string, want map[string]string) {
	pk := c.P.Pkgs["pkg/db/meta"]
	if pk == nil {
		c.add("anchor", "anchor", "pkg/db/meta", Undecided, "", "package not loaded")
		return
	}
	var bad []string
	for n, v := range want {
		k, ok := pk.Types.Scope().Lookup(n).(*types.Const)
		if !ok || k.Val().Kind() != constant.String || constant.StringVal(k.Val()) != v {
			bad = append(bad, n)
		}
	}
	sort.Strings(bad)
	if len(bad) > 0 {
		c.add("declist", rule, "consts:event-status-and-type", Undecided, "", fmt.Sprintf("constants %v no longer have the values the rule table was written against", bad))
		return
	}
	c.add("declist", rule, "consts:event-status-and-type", Held, "", fmt.Sprintf("%d constants have the values used by the guards", len(want)))
}

// c40StringSwitch: every string constant of pkg whose name starts with prefix is compared (==) against
// `operand` somewhere in fn, except exempt names (with reasons).
func (c *Ctx) c40StringSwitch(rule string, fn *ssa.Function, operand, pkg, prefix string, exempt map[string]string) {
	if fn == nil {
		return
	}
	pk := c.P.Pkgs[pkg]
	if pk == nil {
		c.add("anchor", "anchor", pkg, Undecided, "", "package not loaded")
		return
	}
	compared := map[string]bool{}
	for _, b := range fn.Blocks {
		for _, in := range b.Instrs {
			bo, ok := in.(*ssa.BinOp)
			if !ok || (bo.Op.String() != "==" && bo.Op.String() != "!=") {
				continue
			}
			for _, pair := range [][2]ssa.Value{{bo.X, bo.Y}, {bo.Y, bo.X}} {
				if k, ok := pair[1].(*ssa.Const); ok && k.Value != nil && k.Value.Kind() == constant.String && Path(pair[0]) == operand {
					compared[constant.StringVal(k.Value)] = true
				}
			}
		}
	}
	var missing []string
	total := 0
	sc := pk.Types.Scope()
	for _, n := range sc.Names() {
		k, ok := sc.Lookup(n).(*types.Const)
		if !ok || !strings.HasPrefix(n, prefix) || k.Val().Kind() != constant.String {
			continue
		}
		total++
		if _, ok := exempt[n]; ok {
			continue
		}
		if !compared[constant.StringVal(k.Val())] {
			missing = append(missing, n)
		}
	}
	construct := fmt.Sprintf("exhaust:%s.%s*@%s", pkg, prefix, c.P.Name(fn))
	switch {
	case total == 0:
		c.add("exhaust", rule, construct, Undecided, "", "no constant with the prefix (vacuous)")
	case len(missing) > 0:
		c.add("exhaust", rule, construct, Violated, c.P.Pos(fn.Pos()), fmt.Sprintf("constant(s) %v have no case in %s", missing, c.P.Name(fn)))
	default:
		c.add("exhaust", rule, construct, Held, c.P.Pos(fn.Pos()), fmt.Sprintf("%d constants, all compared against %s (exempt: %d)", total, operand, len(exempt)))
	}
}
