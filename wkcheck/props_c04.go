package main

import (
	"fmt"
	"go/types"
	"strings"

	"golang.org/x/tools/go/ssa"
)

func init() {
	register(&PropSpec{
		ID:        "C04",
		Pkgs:      []string{"./pkg/channel/replication", "./pkg/channel/machine", "./pkg/channel/reactor"},
		Technique: "static analysis: SSA edge-dominance guards (authority / write-fence / ready checks) + who-may-write and who-may-call confinement + struct-field coverage of the authority comparators + same-critical-section check",
		Explain: "Decides the fencing clauses on every CFG path: (1) quorumLog.Commit reaches sealing, a durability round, a retry, a reconcile or any non-rejecting return only behind state.ready, proposal.Expected == state.authority.ID and !state.authority.WriteFence.Set(), with check and use inside one critical section of the channel mutex; (2) state.authority is written only by fenceQuorumChannel, which is called only from Install and only when compareAuthorityID(new, installed) == 1 or nothing is installed; every later step of Install is behind compareAuthorityID != -1 (the -1 arm returns) and behind the fence call or sameAuthority, and Install opens the channel (ready=true / success) only behind !authority.WriteFence.Set(); (3) compareAuthorityID returns only -1/0/1 and compares the three AuthorityID fields lexicographically in declaration order, sameAuthority and the reactor's sameQuorumAuthority read every Authority field and can be true only behind each field equality; (4) ChannelState.ApplyMeta mutates state only behind ValidateMeta == nil and ValidateMeta accepts only non-regressing epoch / leader epoch and no same-epoch leader switch; (5) reactor append admission enqueues only behind validateAppendEvent == nil, which succeeds only for role leader, CommitReady, no write fence and matching expected epochs; CommitReady is re-opened only by ApplyMeta or a quorum-install result that passed the generation/epoch/op fences, with value !WriteFence.Set(). " +
			"NOT decided: concurrent Commit/Install interleavings as behaviour (the lock discipline they rely on is C03-R4 plus the same-section rule here), that already admitted appends reach a terminal result, that control-plane metadata itself is monotone, and anything in the worker pool between admission and Commit.",
		Run: c04,
		Mutants: []Mutant{
			{Name: "commit-drop-authority-check", File: "pkg/channel/replication/quorum_log.go",
				Old: "\tif proposal.Expected != state.authority.ID {\n\t\treturn Receipt{}, ch.ErrStaleMeta\n\t}\n", New: "", Expect: "C04/R1-commit*"},
			{Name: "commit-drop-fence-check", File: "pkg/channel/replication/quorum_log.go",
				Old: "\tif state.authority.WriteFence.Set() {\n\t\treturn Receipt{}, ch.ErrWriteFenced\n\t}\n\n\tif retained, ok", New: "\tif retained, ok", Expect: "C04/R1-commit*"},
			{Name: "commit-retained-before-authority", File: "pkg/channel/replication/quorum_log.go",
				Old: "\tif !state.ready {\n\t\treturn Receipt{}, ch.ErrNotReady\n\t}\n\tif proposal.Expected != state.authority.ID {", New: "\tif !state.ready {\n\t\treturn Receipt{}, ch.ErrNotReady\n\t}\n\tif hit, ok := state.retained[proposal.CommandID]; ok && hit.durable {\n\t\treturn hit.receipt, nil\n\t}\n\tif proposal.Expected != state.authority.ID {", Expect: "C04/R1-commit*"},
			{Name: "commit-unlock-before-round", File: "pkg/channel/replication/quorum_log.go",
				Old: "\tpending := retainedProposal{proposal: durable}\n\tstate.pending = &pending\n", New: "\tpending := retainedProposal{proposal: durable}\n\tstate.pending = &pending\n\tstate.mu.Unlock()\n\tstate.mu.Lock()\n", Expect: "C04/R1-commit*"},
			{Name: "install-accept-equal-or-older", File: "pkg/channel/replication/quorum_log.go",
				Old: "\t\tcase -1:\n\t\t\treturn Installed{}, ch.ErrStaleMeta\n", New: "\t\tcase -1:\n\t\t\tfenceQuorumChannel(state, authority, l.cfg.MaxRetainedCommands)\n\t\t\tauthorityAdvanced = true\n", Expect: "C04/R2-fence*"},
			{Name: "install-compare-swapped", File: "pkg/channel/replication/quorum_log.go",
				Old: "switch compareAuthorityID(authority.ID, state.authority.ID) {", New: "switch compareAuthorityID(state.authority.ID, authority.ID) {", Expect: "C04/R2-fence*"},
			{Name: "install-skip-same-authority", File: "pkg/channel/replication/quorum_log.go",
				Old: "\t\t\tif !sameAuthority(authority, state.authority) {\n\t\t\t\treturn Installed{}, ch.ErrLogConflict\n\t\t\t}\n", New: "", Expect: "C04/R2-fence*"},
			{Name: "authority-written-in-commit", File: "pkg/channel/replication/quorum_log.go",
				Old: "\tstate.pending = &pending\n", New: "\tstate.pending = &pending\n\tstate.authority.ID = proposal.Expected\n", Expect: "C04/R2-fence*"},
			{Name: "install-drop-fence-check", File: "pkg/channel/replication/quorum_log.go",
				Old: "\tif authority.WriteFence.Set() {\n\t\treturn Installed{}, ch.ErrWriteFenced\n\t}\n\n\tselection, err :=", New: "\tselection, err :=", Expect: "C04/R3-installfence*"},
			{Name: "compare-skip-fence-version", File: "pkg/channel/replication/quorum_log.go",
				Old: "\t\t{left.FenceVersion, right.FenceVersion},\n", New: "", Expect: "C04/R4-compare*"},
			{Name: "compare-term-before-epoch", File: "pkg/channel/replication/quorum_log.go",
				Old: "\t\t{left.ChannelEpoch, right.ChannelEpoch},\n\t\t{left.LeaderTerm, right.LeaderTerm},\n", New: "\t\t{left.LeaderTerm, right.LeaderTerm},\n\t\t{left.ChannelEpoch, right.ChannelEpoch},\n", Expect: "C04/R4-compare*"},
			{Name: "compare-inverted", File: "pkg/channel/replication/quorum_log.go",
				Old: "\t\tif pair[0] < pair[1] {\n\t\t\treturn -1", New: "\t\tif pair[0] > pair[1] {\n\t\t\treturn -1", Expect: "C04/R4-compare*"},
			{Name: "same-authority-ignores-fence", File: "pkg/channel/replication/quorum_log.go",
				Old: "left.WriteQuorum == right.WriteQuorum && left.WriteFence == right.WriteFence && reflect.DeepEqual", New: "left.WriteQuorum == right.WriteQuorum && reflect.DeepEqual", Expect: "C04/R4-compare*"},
			{Name: "meta-accept-leader-epoch-regression", File: "pkg/channel/machine/meta.go",
				Old: "\tif meta.Epoch < s.Epoch ||\n\t\t(meta.Epoch == s.Epoch && meta.LeaderEpoch < s.LeaderEpoch) {", New: "\tif meta.Epoch < s.Epoch {", Expect: "C04/R5-meta*"},
			{Name: "meta-accept-same-epoch-leader-switch", File: "pkg/channel/machine/meta.go",
				Old: "\tif meta.Epoch == s.Epoch && meta.LeaderEpoch == s.LeaderEpoch && meta.Leader != s.Leader {\n\t\treturn ch.ErrStaleMeta\n\t}\n", New: "", Expect: "C04/R5-meta*"},
			{Name: "meta-apply-before-validate", File: "pkg/channel/machine/meta.go",
				Old: "\tif err := s.ValidateMeta(meta); err != nil {\n\t\treturn Decision{Err: err}\n\t}\n", New: "\ts.WriteFence = meta.WriteFence\n\tif err := s.ValidateMeta(meta); err != nil {\n\t\treturn Decision{Err: err}\n\t}\n", Expect: "C04/R5-meta*"},
			{Name: "admission-drop-fence-check", File: "pkg/channel/reactor/append.go",
				Old: "\tif rc.state.WriteFence.Set() {\n\t\treturn ch.ErrWriteFenced\n\t}\n", New: "", Expect: "C04/R6-admission*"},
			{Name: "admission-drop-role-check", File: "pkg/channel/reactor/append.go",
				Old: "\tif rc.state.Role != ch.RoleLeader {\n\t\treturn ch.ErrNotLeader\n\t}\n", New: "", Expect: "C04/R6-admission*"},
			{Name: "install-result-ignores-stale-epoch", File: "pkg/channel/reactor/quorum_runtime.go",
				Old: "if result.Fence.Generation != rc.state.Generation || result.Fence.Epoch != rc.state.Epoch ||\n\t\tresult.Fence.LeaderEpoch != rc.state.LeaderEpoch || result.Fence.OpID != pending.opID {", New: "if result.Fence.Generation != rc.state.Generation || result.Fence.OpID != pending.opID {", Expect: "C04/R6-admission*"},
			{Name: "install-result-opens-fenced", File: "pkg/channel/reactor/quorum_runtime.go",
				Old: "\trc.state.CommitReady = !pending.authority.WriteFence.Set()\n", New: "\trc.state.CommitReady = true\n", Expect: "C04/R6-admission*"},
		},
	})
}

// c04FieldStore: effect matching a store to struct field "pkg/path.T.F" (resolved
// by *types.Var, so the name of the base object does not matter). valNot, if
// set, excludes stores whose value renders to that glob.
func c04FieldStore(c *Ctx, q, val, valNot string) Effect {
	fv := c.Field(q)
	name := "store " + q[strings.LastIndex(q, "/")+1:]
	if val != "" {
		name += " = " + val
	}
	if valNot != "" {
		name += " ≠ " + valNot
	}
	return InstrFn{Name: name, F: func(in ssa.Instruction) bool {
		if fv == nil {
			return false
		}
		st, ok := in.(*ssa.Store)
		if !ok {
			return false
		}
		fa, ok := st.Addr.(*ssa.FieldAddr)
		if !ok || fieldVar(fa.X.Type(), fa.Field) != fv {
			return false
		}
		p := Path(st.Val)
		if val != "" && !glob(val, p) {
			return false
		}
		return valNot == "" || !glob(valNot, p)
	}}
}

// c04FieldStoreValues: every store to field q (anywhere in the loaded packages)
// that is not of an exempt value renders to one of shapes.
func c04FieldStoreValues(c *Ctx, rule, q string, min int, exemptFuncs []string, shapes ...string) {
	fv := c.Field(q)
	if fv == nil {
		return
	}
	n := 0
	var bad []string
	badPos := ""
	for _, s := range c.fieldStores(fv) {
		if s.literal || globAny(exemptFuncs, c.P.Name(s.fn)) {
			continue
		}
		n++
		if p := Path(s.val); !globAny(shapes, p) {
			bad = append(bad, fmt.Sprintf("%s in %s at %s", p, c.P.Name(s.fn), c.P.InstrPos(s.in)))
			if badPos == "" {
				badPos = c.P.InstrPos(s.in)
			}
		}
	}
	construct := "storevalues:" + q
	switch {
	case len(bad) > 0:
		c.add("shape", rule, construct, Violated, badPos, fmt.Sprintf("store to %s has a value outside %v: %s", q, shapes, strings.Join(bad, "; ")))
	case n < min:
		c.add("shape", rule, construct, Undecided, "", fmt.Sprintf("%d store(s) found, hand-confirmed minimum %d", n, min))
	default:
		c.add("shape", rule, construct, Held, "", fmt.Sprintf("%d store(s), every value of shape %v", n, shapes))
	}
}

// c04CompareShape decides that fn (compareAuthorityID) is the lexicographic
// three-way comparison of struct T's fields in declaration order: it builds the
// pair list {left.F_k, right.F_k} for k = 0..n-1 in field order, returns only
// the constants -1/0/1, -1 only behind pair[0] < pair[1], 1 only behind
// pair[0] > pair[1], and tests "<" before ">" before moving to the next pair.
func c04CompareShape(c *Ctx, rule string, fn *ssa.Function, structName string) {
	if fn == nil {
		return
	}
	fname := c.P.Name(fn)
	T := c.lookupType(structName)
	if T == nil {
		c.add("anchor", "anchor", structName, Undecided, "", "struct not found")
		return
	}
	fields := structFields(T)
	// (a) only -1 / 0 / 1 are returned
	var badRet []string
	nret := 0
	for _, in := range instrsMatching(fn, AnyRet{}) {
		nret++
		ret := in.(*ssa.Return)
		if len(ret.Results) != 1 {
			badRet = append(badRet, c.P.InstrPos(in))
			continue
		}
		if p := Path(retOperand(ret, 0)); p != "-1" && p != "0" && p != "1" {
			badRet = append(badRet, p+" at "+c.P.InstrPos(in))
		}
	}
	if len(badRet) > 0 || nret == 0 {
		c.add("shape", rule, fname+"#returns∈{-1,0,1}", Violated, c.P.Pos(fn.Pos()), "a return is not one of the constants -1, 0, 1: "+strings.Join(badRet, "; "))
	} else {
		c.add("shape", rule, fname+"#returns∈{-1,0,1}", Held, c.P.Pos(fn.Pos()), fmt.Sprintf("%d return(s), each a constant in {-1,0,1}", nret))
	}
	// (b) the ordered pair list
	type pair struct{ l, r string }
	pairOf := map[*ssa.Alloc]*pair{}
	var order []*ssa.Alloc
	slot := map[int64]*ssa.Alloc{}
	for _, b := range fn.Blocks {
		for _, in := range b.Instrs {
			st, ok := in.(*ssa.Store)
			if !ok {
				continue
			}
			ia, ok := st.Addr.(*ssa.IndexAddr)
			if !ok {
				continue
			}
			k, ok := ia.Index.(*ssa.Const)
			if !ok || k.Value == nil {
				continue
			}
			idx := k.Int64()
			if a, ok := ia.X.(*ssa.Alloc); ok {
				if _, isArr := a.Type().Underlying().(*types.Pointer).Elem().Underlying().(*types.Array); isArr {
					if u, ok := st.Val.(*ssa.UnOp); ok {
						if src, ok := u.X.(*ssa.Alloc); ok && pairOf[src] != nil {
							// slicelit[k] = pair
							slot[idx] = src
							continue
						}
					}
					if pairOf[a] == nil {
						pairOf[a] = &pair{}
						order = append(order, a)
					}
					if idx == 0 {
						pairOf[a].l = Path(st.Val)
					} else if idx == 1 {
						pairOf[a].r = Path(st.Val)
					}
				}
			}
		}
	}
	var got []string
	ok := len(slot) == len(fields)
	for k := range fields {
		a := slot[int64(k)]
		if a == nil || pairOf[a] == nil {
			ok = false
			got = append(got, "<missing>")
			continue
		}
		p := pairOf[a]
		got = append(got, "{"+p.l+", "+p.r+"}")
		if p.l != "left."+fields[k] || p.r != "right."+fields[k] {
			ok = false
		}
	}
	construct := fname + "#lexicographic-over:" + structName
	if !ok {
		c.add("cover", rule, construct, Violated, c.P.Pos(fn.Pos()), fmt.Sprintf("the compared pair list is %v, expected {left.F, right.F} for F in declaration order %v (field skipped, reordered, or operands crossed; if the function was rewritten in another style update c04CompareShape)", got, fields))
	} else {
		c.add("cover", rule, construct, Held, c.P.Pos(fn.Pos()), fmt.Sprintf("pairs %v in declaration order of %v", got, fields))
	}
}

func c04(c *Ctx) {
	const R = "pkg/channel/replication."
	const M = "pkg/channel/machine."
	const X = "pkg/channel/reactor."
	rejects := []string{"pkg/channel.Err*", "context.Context.Err(ctx)"}

	// ---- R1: Commit does nothing for a deposed / fenced / not-ready authority
	commit := c.Fn(R + "quorumLog.Commit")
	acts := OneOf{
		RetNot{Idx: -1, Globs: rejects},
		CallTo{R + "sealBusinessProposal"}, CallTo{R + "runDurableRound"}, CallTo{R + "quorumLog.retryPending"},
		CallTo{R + "quorumLog.finishCommit"}, CallTo{R + "quorumLog.reconcileCommandConflict"},
		c04FieldStore(c, R+"quorumChannel.pending", "", ""),
	}
	c.Guard("R1-commit", commit, acts,
		"*.ready == true",
		"proposal.Expected == *.authority.ID",
		"!pkg/channel.WriteFence.Set(*.authority.WriteFence)",
	)
	use := OneOf{RetNil{}, CallTo{R + "runDurableRound"}, CallTo{R + "quorumLog.retryPending"}, CallTo{R + "quorumLog.finishCommit"}, CallTo{R + "quorumLog.reconcileCommandConflict"}}
	c.SameSection("R1-commit", commit, "*.mu", LoadOf{"*.authority.ID"}, use)
	c.SameSection("R1-commit", commit, "*.mu", LoadOf{"*.ready"}, use)
	c.Min("R1-commit", 5)

	// ---- R2: authority only moves forward, only through fenceQuorumChannel
	install := c.Fn(R + "quorumLog.Install")
	fence := CallTo{R + "fenceQuorumChannel"}
	cmp := "*compareAuthorityID(authority.ID, *.authority.ID)"
	none := "*.authority.ID == zero:AuthorityID"
	c.ConfineStores("R2-fence", R+"quorumChannel.authority", true, R+"fenceQuorumChannel")
	for _, f := range []string{"ID", "WriteFence", "WriteQuorum", "Voters", "Leader"} {
		// no in-place edit of the installed authority either (stores through state.authority.F)
		c04NoNestedStore(c, "R2-fence", R+"quorumChannel.authority", f)
	}
	c.ConfineCalls("R2-fence", R+"fenceQuorumChannel", 2, R+"quorumLog.Install")
	c.StoreShape("R2-fence", c.Fn(R+"fenceQuorumChannel"), "state.authority", "*cloneAuthority(authority)")
	c.CallShape("R2-fence", install, R+"fenceQuorumChannel", R+"fenceQuorumChannel(*, authority, *)")
	c.Guard("R2-fence", install, fence, cmp+" == 1 || "+none)
	ready := c04FieldStore(c, R+"quorumChannel.ready", "true", "")
	proceed := OneOf{RetNil{}, fence, CallTo{R + "recoverQuorumPrefix"}, CallTo{R + "followerRepairAuthorityOwner.InstallAuthority"}, ready}
	c.Guard("R2-fence", install, proceed, cmp+" != -1 || "+none)
	c.Guard("R2-fence", install, OneOf{RetNil{}, ready, CallTo{R + "recoverQuorumPrefix"}},
		"after: "+R+"fenceQuorumChannel || *sameAuthority(authority, *.authority) == true || "+cmp+" != 1")
	c.Guard("R2-fence", install, Ret{Idx: -1, Glob: "pkg/channel.ErrStaleMeta"}, cmp+" == -1")
	c.Min("R2-fence", 12)

	// ---- R3: a fenced authority is installed (recorded) but never opened
	c.Guard("R3-installfence", install, OneOf{RetNil{}, ready, CallTo{R + "recoverQuorumPrefix"}}, "!pkg/channel.WriteFence.Set(authority.WriteFence)")
	c.Min("R3-installfence", 1)

	// ---- R4: the comparators look at everything
	cmpFn := c.Fn(R + "compareAuthorityID")
	c04CompareShape(c, "R4-compare", cmpFn, R+"AuthorityID")
	c.Cover("R4-compare", []*ssa.Function{cmpFn}, R+"AuthorityID", nil)
	c.Guard("R4-compare", cmpFn, Ret{Idx: 0, Glob: "-1"}, "*[0] < *[1]")
	c.Guard("R4-compare", cmpFn, Ret{Idx: 0, Glob: "1"}, "*[0] > *[1]")
	c.Guard("R4-compare", cmpFn, Ret{Idx: 0, Glob: "0"}, "* >= len(*)") // equal only after every pair was inspected
	same := c.Fn(R + "sameAuthority")
	c.Cover("R4-compare", []*ssa.Function{same}, R+"Authority", nil)
	xsame := c.Fn(X + "sameQuorumAuthority")
	c.Cover("R4-compare", []*ssa.Function{xsame}, R+"Authority", nil)
	for _, f := range []string{"Key", "ChannelID", "ID", "Leader", "WriteQuorum", "WriteFence"} {
		c.GuardTrue("R4-compare", same, 0, "left."+f+" == right."+f)
		c.GuardTrue("R4-compare", xsame, 0, "left."+f+" == right."+f)
	}
	c.GuardTrue("R4-compare", same, 0, "reflect.DeepEqual(left.Voters, right.Voters) == true")
	c.GuardTrue("R4-compare", xsame, 0, "slices.Equal*(left.Voters, right.Voters) == true")
	c.Min("R4-compare", 22)

	// ---- R5: channel metadata fences
	validate := c.Fn(M + "ChannelState.ValidateMeta")
	c.Guard("R5-meta", validate, RetNil{},
		"meta.Epoch >= s.Epoch",
		"meta.LeaderEpoch >= s.LeaderEpoch || meta.Epoch != s.Epoch",
		"meta.Leader == s.Leader || meta.LeaderEpoch != s.LeaderEpoch || meta.Epoch != s.Epoch",
		"meta.Key == s.Key || meta.Key == \"\"",
		"meta.ID == s.ID || s.ID == zero:ChannelID",
		"meta.MinISR > 0",
		"meta.MinISR <= len(meta.ISR)",
	)
	apply := c.Fn(M + "ChannelState.ApplyMeta")
	c.Guard("R5-meta", apply, OneOf{StoreTo{Addr: "s.*"}, CallTo{M + "ChannelState.clearAppendState"}}, M+"ChannelState.ValidateMeta(s, meta) == nil")
	for _, f := range []string{"Epoch", "LeaderEpoch", "Leader", "WriteFence"} {
		c.ConfineStores("R5-meta", M+"ChannelState."+f, false, M+"ChannelState.ApplyMeta")
		c.StoreShape("R5-meta", apply, "s."+f, "meta."+f)
	}
	c.Min("R5-meta", 16)

	// ---- R6: reactor admission
	vae := c.Fn(X + "Reactor.validateAppendEvent")
	leader := c04ConstOf(c, "pkg/channel", "RoleLeader")
	deleted, deleting := c04ConstOf(c, "pkg/channel", "StatusDeleted"), c04ConstOf(c, "pkg/channel", "StatusDeleting")
	c.Guard("R6-admission", vae, RetNil{},
		"rc.state.Role == "+leader,
		"rc.state.CommitReady == true",
		"!pkg/channel.WriteFence.Set(rc.state.WriteFence)",
		"rc.state.Status != "+deleted,
		"rc.state.Status != "+deleting,
		"event.Append.ExpectedChannelEpoch == rc.state.Epoch || event.Append.ExpectedChannelEpoch == 0",
		"event.Append.ExpectedLeaderEpoch == rc.state.LeaderEpoch || event.Append.ExpectedLeaderEpoch == 0",
		"*AllowChannelAppend(*) == nil || r.appendAdmissionGuard == nil",
	)
	handle := c.Fn(X + "Reactor.handleAppend")
	c.Guard("R6-admission", handle, OneOf{CallTo{X + "Reactor.enqueueAppendRequest"}, CallTo{X + "Reactor.tryFlushAppend"}},
		X+"Reactor.validateAppendEvent(*) == nil", X+"Reactor.lookupLoadedChannel(*)#1 == nil")
	c.ConfineCalls("R6-admission", X+"Reactor.enqueueAppendRequest", 1, X+"Reactor.handleAppend")
	// CommitReady: who may (re)open it, and with which value
	c.ConfineStores("R6-admission", M+"ChannelState.CommitReady", false,
		M+"ChannelState.ApplyMeta", X+"Reactor.startQuorumInstall", X+"Reactor.handleQuorumInstallResult",
		X+"Reactor.applyLoadedRuntimeMeta", X+"Reactor.completeApplyMetaStoreLoad") // the last two only close it (value rule below)
	// outside ApplyMeta (whose stores are behind ValidateMeta, R5) admission is only ever closed, or opened as "not write-fenced"
	c04FieldStoreValues(c, "R6-admission", M+"ChannelState.CommitReady", 4, []string{M + "ChannelState.ApplyMeta"},
		"false", "!pkg/channel.WriteFence.Set(*.WriteFence)")
	hq := c.Fn(X + "Reactor.handleQuorumInstallResult")
	open := c04FieldStore(c, M+"ChannelState.CommitReady", "", "false")
	c.Guard("R6-admission", hq, open,
		"result.Fence.Generation == *.state.Generation",
		"result.Fence.Epoch == *.state.Epoch",
		"result.Fence.LeaderEpoch == *.state.LeaderEpoch",
		"result.Fence.OpID == *.opID",
		"phi(result.Err*) == nil",
	)
	c.Guard("R6-admission", hq, StoreTo{Addr: "*.quorumAuthority"},
		"result.Fence.Epoch == *.state.Epoch", "result.Fence.LeaderEpoch == *.state.LeaderEpoch", "result.Fence.OpID == *.opID", "phi(result.Err*) == nil")
	sq := c.Fn(X + "Reactor.startQuorumInstall")
	c.Guard("R6-admission", sq, open, X+"sameQuorumAuthority(*.quorumAuthority, *) == true", X+"quorumAuthorityFromMeta(meta)#1 == nil")
	c.Min("R6-admission", 24)
}

// c04ConstOf renders the value of a package-level constant the way Path does
// (so rule tables can name enum members instead of hard-coding numbers).
func c04ConstOf(c *Ctx, pkg, name string) string {
	for _, sp := range c.P.SSA.AllPackages() {
		if shortPkg(sp.Pkg.Path()) != pkg {
			continue
		}
		if k, ok := sp.Pkg.Scope().Lookup(name).(*types.Const); ok {
			return k.Val().ExactString()
		}
	}
	c.add("anchor", "anchor", pkg+"."+name, Undecided, "", "constant not found")
	return "<missing:" + name + ">"
}

// c04NoNestedStore: no store through <x>.outer.inner where outer is the struct
// field "pkg/path.T.outer" (in-place edits of a sub-field of the installed authority).
func c04NoNestedStore(c *Ctx, rule, outerQ, inner string) {
	fv := c.Field(outerQ)
	if fv == nil {
		return
	}
	var bad []string
	n := 0
	for _, fn := range c.P.AllFuncs {
		for _, b := range fn.Blocks {
			for _, in := range b.Instrs {
				st, ok := in.(*ssa.Store)
				if !ok {
					continue
				}
				n++
				// walk the address chain outwards
				addr := st.Addr
				for {
					fa, ok := addr.(*ssa.FieldAddr)
					if !ok {
						if ia, ok := addr.(*ssa.IndexAddr); ok {
							addr = ia.X
							continue
						}
						break
					}
					if base, ok := fa.X.(*ssa.FieldAddr); ok && fieldVar(base.X.Type(), base.Field) == fv && fieldName(fa.X.Type(), fa.Field) == inner {
						bad = append(bad, c.P.Name(fn)+" at "+c.P.InstrPos(in))
					}
					addr = fa.X
				}
			}
		}
	}
	construct := "no-inplace-store:" + outerQ + "." + inner
	if len(bad) > 0 {
		c.add("confine", rule, construct, Violated, "", "the installed authority is edited in place: "+strings.Join(bad, "; "))
		return
	}
	c.add("confine", rule, construct, Held, "", fmt.Sprintf("%d store instruction(s) scanned, none writes through %s.%s", n, outerQ, inner))
}
