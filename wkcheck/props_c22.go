package main

import (
	"fmt"
	"go/token"
	"sort"
	"strings"

	"golang.org/x/tools/go/ssa"
)

func init() {
	register(&PropSpec{
		ID:        "C22",
		Pkgs:      []string{"./pkg/protocol/codec", "./pkg/protocol/frame"},
		Technique: "static analysis: sibling agreement of encoder / decoder / size functions by extracting (guard, wire token, field) lists from the typed AST through a primitive table; enum exhaustiveness of the dispatch tables; SSA bit-layout agreement of the fixed header; loop-constant agreement of the variable-length codec",
		Explain: "Decides layout agreement, not values: (R1) for each of CONNECT, CONNACK, SEND, SENDACK, RECV, RECVACK, DISCONNECT, SUB, SUBACK, EVENT the encoder, the decoder and the size function yield the same ordered list of (presence guard over version / setting flags, wire token width, message field) — a swapped, dropped, re-typed or differently guarded field in one sibling is reported with its position in the layout; the message-seq helper triple (encode/decode/size) agrees on its version switch and widths; (R2) the decode registry, the encode switch and the size switch cover every frame type constant (PING/PONG/UNKNOWN exempt: handled before dispatch) and each dispatch arm pairs the encoder with its own size function; (R3) the fixed-header byte: encoder and decoder agree on (bit, flag) for the generic flags and on the CONNACK server-version bit, frame type in the high nibble; (R4) the variable-length remaining-length codec: encoder, size function and both decoders share radix 128 / 7-bit steps / continuation bit 0x80 and DecodeFrame reports consumed = 1 + length-bytes + remaining. NOT decided: equality of values, limits (int16 string length, uint32(ClientSeq) truncation), that the Encoder/Decoder primitives are mutual inverses (small functions, trusted and listed).",
		Run:       c22,
		Mutants: []Mutant{
			{Name: "send-swap-fields", File: "pkg/protocol/codec/send.go", Old: "\tenc.WriteString(sendPacket.ChannelID)\n\t// 频道类型\n\tenc.WriteUint8(sendPacket.ChannelType)", New: "\tenc.WriteUint8(sendPacket.ChannelType)\n\tenc.WriteString(sendPacket.ChannelID)", Expect: "C22/R1*SEND*"},
			{Name: "send-size-forgets-topic", File: "pkg/protocol/codec/send.go", Old: "\tif sendPacket.Setting.IsSet(frame.SettingTopic) {\n\t\tsize += len(sendPacket.Topic) + frame.StringFixLenByteSize\n\t}\n", New: "", Expect: "C22/R1*SEND*"},
			{Name: "send-dec-expire-version", File: "pkg/protocol/codec/send.go", Old: "\tif version >= 3 {\n\t\tif sendPacket.Expire, err = dec.Uint32(); err != nil {", New: "\tif version >= 4 {\n\t\tif sendPacket.Expire, err = dec.Uint32(); err != nil {", Expect: "C22/R1*SEND*"},
			{Name: "recv-enc-timestamp-width", File: "pkg/protocol/codec/recv.go", Old: "\tenc.WriteInt32(recvPacket.Timestamp)", New: "\tenc.WriteInt64(int64(recvPacket.Timestamp))", Expect: "C22/R1*RECV*"},
			{Name: "recv-dec-wrong-field", File: "pkg/protocol/codec/recv.go", Old: "\tif recvPacket.FromUID, err = dec.String(); err != nil {\n\t\treturn nil, errors.Wrap(err, \"解码FromUID失败！\")\n\t}\n\t// 频道ID\n\tif recvPacket.ChannelID, err = dec.String(); err != nil {", New: "\tif recvPacket.ChannelID, err = dec.String(); err != nil {\n\t\treturn nil, errors.Wrap(err, \"解码FromUID失败！\")\n\t}\n\t// 频道ID\n\tif recvPacket.FromUID, err = dec.String(); err != nil {", Expect: "C22/R1*RECV*"},
			{Name: "connack-size-nodeid-version", File: "pkg/protocol/codec/connack.go", Old: "\tif version >= 4 {\n\t\tsize += frame.NodeIdByteSize\n\t}", New: "\tif version > 4 {\n\t\tsize += frame.NodeIdByteSize\n\t}", Expect: "C22/R1*CONNACK*"},
			{Name: "msgseq-legacy-boundary", File: "pkg/protocol/codec/message_seq.go", Old: "func messageSeqSize(version uint8) int {\n\tif version <= frame.LegacyMessageSeqVersion {", New: "func messageSeqSize(version uint8) int {\n\tif version < frame.LegacyMessageSeqVersion {", Expect: "C22/R1*msgseq*"},
			{Name: "sendack-enc-width", File: "pkg/protocol/codec/sendack.go", Old: "\tenc.WriteUint32(uint32(sendackPacket.ClientSeq))", New: "\tenc.WriteUint64(sendackPacket.ClientSeq)", Expect: "C22/R1*SENDACK*"},
			{Name: "sendack-size-guard", File: "pkg/protocol/codec/sendack.go", Old: "\tif packet.ClientMsgNo != \"\" {\n\t\tsize += len(packet.ClientMsgNo) + frame.StringFixLenByteSize\n\t}", New: "\tsize += len(packet.ClientMsgNo) + frame.StringFixLenByteSize", Expect: "C22/R1*SENDACK*"},
			{Name: "connack-decodes-generic-flags", File: "pkg/protocol/codec/common.go", Old: "\tdefault:\n\t\tp.NoPersist = (v & 0x01) > 0", New: "\t}\n\t{\n\t\tp.NoPersist = (v & 0x01) > 0", Expect: "C22/R3*aliasing*"},
			{Name: "dispatch-wrong-size", File: "pkg/protocol/codec/protocol.go", Old: "l.encodeFrame(packet, enc, uint32(encodeSubackSize(packet, version)))", New: "l.encodeFrame(packet, enc, uint32(encodeSubSize((*frame.SubPacket)(nil), version)))", Expect: "C22/R2*"},
			{Name: "header-bit-swap", File: "pkg/protocol/codec/common.go", Old: "p.RedDot = (v >> 1 & 0x01) > 0\n\t\tp.SyncOnce = (v >> 2 & 0x01) > 0", New: "p.RedDot = (v >> 2 & 0x01) > 0\n\t\tp.SyncOnce = (v >> 1 & 0x01) > 0", Expect: "C22/R3*"},
			{Name: "varint-decode-mask", File: "pkg/protocol/codec/protocol.go", Old: "\t\trLength |= uint32(digit&127) << multiplier\n\t\tif (digit & 128) == 0 {\n\t\t\tbreak\n\t\t}\n\t\tmultiplier += 7\n\t\toffset++", New: "\t\trLength |= uint32(digit&127) << multiplier\n\t\tif (digit & 128) == 0 {\n\t\t\tbreak\n\t\t}\n\t\tmultiplier += 8\n\t\toffset++", Expect: "C22/R4*"},
		},
	})
}

var wkprotoCodec = &wireCodec{
	EncType: "Encoder", DecType: "Decoder",
	EncTok: map[string]string{
		"WriteByte": "u8", "WriteUint8": "u8", "WriteInt16": "i16", "WriteUint16": "u16", "WriteInt32": "i32", "WriteUint32": "u32",
		"WriteInt64": "i64", "WriteUint64": "u64", "WriteString": "str", "WriteBytes": "raw", "WriteBinary": "bin", "WriteStringAll": "strall", "WriteVariable": "varint",
	},
	DecTok: map[string]string{
		"Uint8": "u8", "Int16": "i16", "Uint16": "u16", "Int32": "i32", "Uint32": "u32", "Int64": "i64", "Uint64": "u64",
		"String": "str", "BinaryAll": "rest", "Binary": "bin", "StringAll": "strall", "Variable": "varint",
	},
	EncPair:   map[string]string{"encodeMessageSeq": "msgseq"},
	DecPair:   map[string]string{"decodeMessageSeq": "msgseq"},
	SizePair:  map[string]string{"messageSeqSize": "msgseq"},
	TokWidth:  map[string]int64{"u8": 1, "i16": 2, "u16": 2, "i32": 4, "u32": 4, "i64": 8, "u64": 8},
	StrPrefix: 2,
	GuardAlias: map[string]string{
		// decodeSendackBodyCoreFirst reads the optional trailing string when bytes remain; the encoder writes it when non-empty
		"dec.Len() > 0": "$.ClientMsgNo != \"\"",
	},
}

type c22Frame struct{ name, dec, enc, size string }

var c22Frames = []c22Frame{
	{"CONNECT", "decodeConnect", "encodeConnect", "encodeConnectSize"},
	{"CONNACK", "decodeConnack", "encodeConnack", "encodeConnackSize"},
	{"SEND", "decodeSend", "encodeSend", "encodeSendSize"},
	{"SENDACK", "decodeSendack", "encodeSendack", "encodeSendackSize"},
	{"RECV", "decodeRecv", "encodeRecv", "encodeRecvSize"},
	{"RECVACK", "decodeRecvack", "encodeRecvack", "encodeRecvackSize"},
	{"DISCONNECT", "decodeDisConnect", "encodeDisConnect", "encodeDisConnectSize"},
	{"SUB", "decodeSub", "encodeSub", "encodeSubSize"},
	{"SUBACK", "decodeSuback", "encodeSuback", "encodeSubackSize"},
	{"EVENT", "decodeEvent", "encodeEvent", "encodeEventSize"},
}

const c22pkg = "pkg/protocol/codec."

func c22Extract(c *Ctx, fn, kind string) ([]wireItem, []string) {
	x := newWireExtractor(c, wkprotoCodec, c22pkg+fn)
	if x == nil {
		return nil, []string{"function not found"}
	}
	x.markMsgParams("*Packet", "Frame")
	switch kind {
	case "enc", "dec":
		x.extractCoder(kind)
	case "size":
		x.extractSize("size")
	}
	return x.items, x.errs
}

func c22(c *Ctx) {
	for _, f := range c22Frames {
		enc, e1 := c22Extract(c, f.enc, "enc")
		dec, e2 := c22Extract(c, f.dec, "dec")
		size, e3 := c22Extract(c, f.size, "size")
		if f.name == "SENDACK" {
			// the decoder reads the tail into a body and parses it with the core-first body decoder
			body, e4 := c22Extract(c, "decodeSendackBodyCoreFirst", "dec")
			e2 = append(e2, e4...)
			if n := len(dec); n > 0 && dec[n-1].Tok == "rest" {
				dec = append(dec[:n-1], body...)
			} else {
				e2 = append(e2, "decodeSendack does not end with a BinaryAll body read")
			}
		}
		pos := ""
		if _, fd := c.funcDecl(c22pkg + f.enc); fd != nil {
			pos = c.P.Pos(fd.Pos())
		}
		errs := append(append(e1, e2...), e3...)
		if len(errs) > 0 {
			c.add("wire", "R1-layout", f.name+"#extract", Undecided, pos, "the codec extractor cannot read a sibling any more: "+strings.Join(errs, "; "))
			continue
		}
		if len(enc) == 0 {
			c.add("wire", "R1-layout", f.name+"#extract", Undecided, pos, "encoder yields no wire items (vacuous)")
			continue
		}
		if why := compareCoders(enc, dec, map[string]string{"raw": "rest"}); why != "" {
			c.add("wire", "R1-layout", f.name+"#enc=dec", Violated, pos, fmt.Sprintf("%s and %s disagree on the wire layout: %s", f.enc, f.dec, why))
		} else {
			c.add("wire", "R1-layout", f.name+"#enc=dec", Held, pos, fmt.Sprintf("%d items agree: %s", len(enc), itemsString(enc)))
		}
		if why := compareSize(wkprotoCodec, enc, size); why != "" {
			c.add("wire", "R1-layout", f.name+"#enc=size", Violated, pos, fmt.Sprintf("%s and %s disagree: %s", f.enc, f.size, why))
		} else {
			c.add("wire", "R1-layout", f.name+"#enc=size", Held, pos, fmt.Sprintf("%d items, widths and guards agree", len(size)))
		}
	}
	c22MsgSeq(c)
	c22Dispatch(c)
	c22HeaderBits(c)
	c22Varint(c)
	c.Min("R1-layout", 21)
}

// c22MsgSeq: the three message-seq helpers switch on the same version test with 4 / 8 byte widths.
func c22MsgSeq(c *Ctx) {
	enc, e1 := c22Extract(c, "encodeMessageSeq", "enc")
	dec, e2 := c22Extract(c, "decodeMessageSeq", "dec")
	construct := "msgseq#triple"
	if len(e1)+len(e2) > 0 {
		c.add("wire", "R1-layout", construct, Undecided, "", strings.Join(append(e1, e2...), "; "))
		return
	}
	// encoder: [version <= L] u32 then (fallthrough) u64 ; decoder same shape
	shape := func(items []wireItem) string {
		var s []string
		for _, it := range items {
			s = append(s, strings.Join(it.Guards, "&")+"→"+it.Tok)
		}
		return strings.Join(s, " ; ")
	}
	if shape(enc) != shape(dec) {
		c.add("wire", "R1-layout", construct, Violated, "", "encodeMessageSeq and decodeMessageSeq disagree: "+shape(enc)+" vs "+shape(dec))
		return
	}
	// size sibling: constant 4 behind the same guard, else 8
	fn := c.Fn(c22pkg + "messageSeqSize")
	if fn == nil {
		return
	}
	got := map[string]string{}
	for _, b := range fn.Blocks {
		for _, in := range b.Instrs {
			if r, ok := in.(*ssa.Return); ok {
				lim := ""
				// which branch: walk single predecessor with an If
				if len(b.Preds) == 1 {
					if iff, ok := b.Preds[0].Instrs[len(b.Preds[0].Instrs)-1].(*ssa.If); ok {
						truth := b.Preds[0].Succs[0] == b
						if a, ok := condAtom(iff.Cond, truth); ok {
							lim = a.String()
						}
					}
				}
				got[lim] = Path(r.Results[0])
			}
		}
	}
	encGuard := ""
	if len(enc) > 0 && len(enc[0].Guards) == 1 {
		encGuard = enc[0].Guards[0]
	}
	ok := len(enc) == 2 && enc[0].Tok == "u32" && enc[1].Tok == "u64" && got[encGuard] == "4" && got[negateAtomString(encGuard)] == "8"
	if !ok {
		c.add("wire", "R1-layout", construct, Violated, c.P.Pos(fn.Pos()), fmt.Sprintf("message-seq helpers disagree: coder %s, size function %v", shape(enc), got))
		return
	}
	c.add("wire", "R1-layout", construct, Held, c.P.Pos(fn.Pos()), "encode/decode/size agree: "+shape(enc)+"; size 4/8 on the same version test")
}

func negateAtomString(s string) string {
	sp := parseAtomSpec(s)
	return sp.L + " " + negOp[sp.Op] + " " + sp.R
}

// c22Dispatch: registries cover all frame types and pair each encoder with its own size function.
func c22Dispatch(c *Ctx) {
	exempt := map[string]string{"UNKNOWN": "not a wire frame", "PING": "1-byte frame handled before dispatch", "PONG": "1-byte frame handled before dispatch"}
	initFns := c.Fns("pkg/protocol/codec.init")
	c.Exhaustive("R2-dispatch", initFns, "pkg/protocol/frame", "FrameType", "", exempt)
	c.Exhaustive("R2-dispatch", []*ssa.Function{c.Fn("pkg/protocol/codec.WKProto.encodeFrameWithWriter")}, "pkg/protocol/frame", "FrameType", "", map[string]string{"UNKNOWN": "not a wire frame"})
	c.Exhaustive("R2-dispatch", []*ssa.Function{c.Fn("pkg/protocol/codec.encodedFrameBodySize")}, "pkg/protocol/frame", "FrameType", "", exempt)
	// pairing: in each block of the encode switch that calls encodeX, the size passed to encodeFrame is encodeXSize
	fn := c.Fn("pkg/protocol/codec.WKProto.encodeFrameWithWriter")
	if fn == nil {
		return
	}
	pairs := map[string]string{}
	for _, f := range c22Frames {
		pairs[c22pkg+f.enc] = c22pkg + f.size
	}
	n := 0
	var bad []string
	for _, b := range fn.Blocks {
		var encCallee, sizeCallee string
		for _, in := range b.Instrs {
			call, ok := in.(*ssa.Call)
			if !ok {
				continue
			}
			name := calleeName(&call.Call)
			if _, ok := pairs[name]; ok {
				encCallee = name
			}
			if strings.HasSuffix(name, "Size") && strings.HasPrefix(name, c22pkg+"encode") {
				sizeCallee = name
			}
		}
		if encCallee == "" {
			continue
		}
		n++
		if pairs[encCallee] != sizeCallee {
			bad = append(bad, fmt.Sprintf("%s is framed with %s (want %s)", encCallee, sizeCallee, pairs[encCallee]))
		}
	}
	construct := "pkg/protocol/codec.WKProto.encodeFrameWithWriter#encoder-size-pairs"
	switch {
	case len(bad) > 0:
		c.add("wire", "R2-dispatch", construct, Violated, c.P.Pos(fn.Pos()), strings.Join(bad, "; "))
	case n != len(c22Frames):
		c.add("wire", "R2-dispatch", construct, Undecided, c.P.Pos(fn.Pos()), fmt.Sprintf("%d dispatch arms found, want %d", n, len(c22Frames)))
	default:
		c.add("wire", "R2-dispatch", construct, Held, c.P.Pos(fn.Pos()), fmt.Sprintf("%d arms, each frames the body with its own size function", n))
	}
	// same for the size switch
	fn2 := c.Fn("pkg/protocol/codec.encodedFrameBodySize")
	if fn2 != nil {
		seen := map[string]bool{}
		for _, b := range fn2.Blocks {
			for _, in := range b.Instrs {
				if call, ok := in.(*ssa.Call); ok {
					seen[calleeName(&call.Call)] = true
				}
			}
		}
		var miss []string
		for _, f := range c22Frames {
			if !seen[c22pkg+f.size] {
				miss = append(miss, f.size)
			}
		}
		if len(miss) > 0 {
			c.add("wire", "R2-dispatch", "pkg/protocol/codec.encodedFrameBodySize#uses-all-size-functions", Violated, c.P.Pos(fn2.Pos()), fmt.Sprintf("size dispatch does not use %v", miss))
		} else {
			c.add("wire", "R2-dispatch", "pkg/protocol/codec.encodedFrameBodySize#uses-all-size-functions", Held, c.P.Pos(fn2.Pos()), "all size functions dispatched")
		}
	}
}

// c22HeaderBits compares the bit layout of ToFixHeaderUint8 and FramerFromUint8.
func c22HeaderBits(c *Ctx) {
	enc := c.Fn("pkg/protocol/codec.ToFixHeaderUint8")
	dec := c.Fn("pkg/protocol/codec.FramerFromUint8")
	if enc == nil || dec == nil {
		return
	}
	// encoder: collect (getter → shift) pairs from encodeBool(f.GetX()) << k terms, split by the CONNACK override
	type bits map[string]int
	collect := func(v ssa.Value) bits {
		out := bits{}
		var walk func(v ssa.Value, shift int)
		walk = func(v ssa.Value, shift int) {
			switch x := v.(type) {
			case *ssa.BinOp:
				switch x.Op {
				case token.OR:
					walk(x.X, shift)
					walk(x.Y, shift)
				case token.SHL:
					if k, ok := constUint(x.Y); ok {
						walk(x.X, shift+int(k))
					}
				}
			case *ssa.Convert:
				walk(x.X, shift)
			case *ssa.Call:
				if strings.HasSuffix(calleeName(&x.Call), ".encodeBool") && len(x.Call.Args) == 1 {
					if g, ok := x.Call.Args[0].(*ssa.Call); ok {
						out[strings.TrimPrefix(g.Call.Method.Name(), "Get")] = shift
					}
				}
			}
		}
		walk(v, 0)
		return out
	}
	var generic, connack bits
	typeShift := -1
	for _, in := range instrsMatching(enc, AnyRet{}) {
		ret := in.(*ssa.Return)
		v := stripConv(ret.Results[0])
		or, ok := v.(*ssa.BinOp)
		if !ok || or.Op != token.OR {
			continue
		}
		for _, side := range []ssa.Value{or.X, or.Y} {
			side = stripConv(side)
			if phi, ok := side.(*ssa.Phi); ok && len(phi.Edges) == 2 {
				a, b := collect(phi.Edges[0]), collect(phi.Edges[1])
				if len(a) < len(b) {
					a, b = b, a
				}
				generic, connack = a, b
			} else if sh, ok := side.(*ssa.BinOp); ok && sh.Op == token.SHL {
				if k, ok := constUint(sh.Y); ok && strings.Contains(Path(sh.X), "GetFrameType") {
					typeShift = int(k)
				}
			}
		}
	}
	// decoder: stores p.F = ((v >> k) & 1) > 0
	decBits := bits{}
	decType := -1
	connackDec := bits{}
	connackVal := ""
	if v, ok := c.constsOfType("pkg/protocol/frame", "FrameType", "")["CONNACK"]; ok {
		connackVal = v.ExactString()
	}
	// the frame type as the decoder has it: the stored field, or the shifted header byte itself (a local copy of it)
	connackGuard := func(op string) string {
		return "*.FrameType " + op + " " + connackVal + " || (v >> *) " + op + " " + connackVal
	}
	for _, b := range dec.Blocks {
		// a store belongs to the CONNACK layout when its block is reachable only over `frame type == CONNACK`
		removed, _ := guardEdges(dec, parseGuard(connackGuard("==")))
		_, reachableWithout := reachUnguarded(dec, removed, nil)[b]
		inConnack := len(removed) > 0 && !reachableWithout
		for _, in := range b.Instrs {
			st, ok := in.(*ssa.Store)
			if !ok {
				continue
			}
			fa, ok := st.Addr.(*ssa.FieldAddr)
			if !ok {
				continue
			}
			name := fieldName(fa.X.Type(), fa.Field)
			val := stripConv(st.Val)
			if name == "FrameType" {
				if sh, ok := val.(*ssa.BinOp); ok && sh.Op == token.SHR {
					if k, ok := constUint(sh.Y); ok {
						decType = int(k)
					}
				}
				continue
			}
			cmp, ok := val.(*ssa.BinOp)
			if !ok || cmp.Op != token.GTR {
				continue
			}
			and, ok := stripConv(cmp.X).(*ssa.BinOp)
			if !ok || and.Op != token.AND {
				continue
			}
			if m, ok := constUint(and.Y); !ok || m != 1 {
				continue
			}
			shift := 0
			if sh, ok := stripConv(and.X).(*ssa.BinOp); ok && sh.Op == token.SHR {
				if k, ok := constUint(sh.Y); ok {
					shift = int(k)
				}
			}
			if inConnack {
				connackDec[name] = shift
			} else {
				decBits[name] = shift
			}
		}
	}
	norm := func(b bits) string {
		var s []string
		for k, v := range b {
			s = append(s, fmt.Sprintf("%s@%d", strings.ToLower(k), v))
		}
		sort.Strings(s)
		return strings.Join(s, ",")
	}
	pos := c.P.Pos(dec.Pos())
	if len(generic) == 0 || len(decBits) == 0 || typeShift < 0 {
		c.add("wire", "R3-header", "fixed-header#extract", Undecided, pos, fmt.Sprintf("cannot read the header bit layout (enc %s / dec %s / type shift %d)", norm(generic), norm(decBits), typeShift))
		return
	}
	if norm(generic) != norm(decBits) || typeShift != decType {
		c.add("wire", "R3-header", "fixed-header#generic-flags", Violated, pos, fmt.Sprintf("ToFixHeaderUint8 packs %s type<<%d but FramerFromUint8 unpacks %s type>>%d", norm(generic), typeShift, norm(decBits), decType))
	} else {
		c.add("wire", "R3-header", "fixed-header#generic-flags", Held, pos, fmt.Sprintf("flags %s, frame type in bits %d..7 on both sides", norm(generic), typeShift))
	}
	if norm(connack) != norm(connackDec) {
		c.add("wire", "R3-header", "fixed-header#connack-server-version-bit", Violated, pos, fmt.Sprintf("CONNACK: encoder packs %s, decoder unpacks %s", norm(connack), norm(connackDec)))
	} else {
		c.add("wire", "R3-header", "fixed-header#connack-server-version-bit", Held, pos, "CONNACK server-version flag: "+norm(connack)+" on both sides")
	}
	// the CONNACK override replaces the generic flags on encode; on decode the generic flag fields must not be
	// populated from those bits for a CONNACK (otherwise decode(encode(f)) sets NoPersist from the server-version bit)
	overlap := []string{}
	for name, bit := range decBits {
		for _, cb := range connack {
			if bit == cb {
				overlap = append(overlap, strings.ToLower(name))
			}
		}
	}
	sort.Strings(overlap)
	var unguarded []string
	for _, name := range overlap {
		for _, b := range dec.Blocks {
			for _, in := range b.Instrs {
				st, ok := in.(*ssa.Store)
				if !ok {
					continue
				}
				fa, ok := st.Addr.(*ssa.FieldAddr)
				if !ok || strings.ToLower(fieldName(fa.X.Type(), fa.Field)) != name {
					continue
				}
				removed, _ := guardEdges(dec, parseGuard(connackGuard("!=")))
				limit := reachUnguarded(dec, removed, nil)
				if lim, ok := limit[b]; ok && indexIn(b, in) < lim {
					unguarded = append(unguarded, name)
				}
			}
		}
	}
	if len(unguarded) > 0 {
		c.add("wire", "R3-header", "fixed-header#connack-bit-aliasing", Violated, pos, fmt.Sprintf("for a CONNACK the encoder writes only %s into the low nibble, but FramerFromUint8 also decodes generic flag(s) %v from the same bit on a path not excluded by FrameType != CONNACK: decode(encode(CONNACK{HasServerVersion:true})) has %v=true", norm(connack), unguarded, unguarded))
	} else {
		c.add("wire", "R3-header", "fixed-header#connack-bit-aliasing", Held, pos, fmt.Sprintf("generic flag(s) %v share a bit with the CONNACK server-version flag and are decoded only behind FrameType != CONNACK", overlap))
	}
}

// c22Varint: the remaining-length codec siblings share radix/step/continuation constants.
func c22Varint(c *Ctx) {
	consts := func(name string) (map[string]bool, *ssa.Function) {
		fn := c.Fn(c22pkg + name)
		out := map[string]bool{}
		if fn == nil {
			return out, nil
		}
		for _, b := range fn.Blocks {
			for _, in := range b.Instrs {
				if bo, ok := in.(*ssa.BinOp); ok {
					for _, op := range []ssa.Value{bo.X, bo.Y} {
						if k, ok := constUint(op); ok {
							out[fmt.Sprintf("%s%d", bo.Op.String(), k)] = true
						}
					}
				}
			}
		}
		return out, fn
	}
	type want struct {
		fn   string
		need []string
	}
	wants := []want{
		{"encodeVariable2", []string{"%128", "/128", "|128", ">0"}},
		{"encodeVariable", []string{"%128", "/128", "|128", ">0"}},
		{"encodedVariableSize", []string{"/128", ">0", "+1"}},
		{"decodeLength", []string{"&127", "&128", "+7", "<27", "==0"}},
		{"decodeLengthWithConn", []string{"&127", "&128", "+7", "<27", "==0"}},
	}
	for _, w := range wants {
		got, fn := consts(w.fn)
		if fn == nil {
			continue
		}
		var miss []string
		for _, n := range w.need {
			if !got[n] {
				miss = append(miss, n)
			}
		}
		construct := c22pkg + w.fn + "#radix-128"
		if len(miss) > 0 {
			c.add("wire", "R4-varint", construct, Violated, c.P.Pos(fn.Pos()), fmt.Sprintf("variable-length codec sibling lacks the shared 7-bit constants %v (has %v)", miss, sortedKeys(got)))
		} else {
			c.add("wire", "R4-varint", construct, Held, c.P.Pos(fn.Pos()), fmt.Sprintf("uses %v", w.need))
		}
	}
	// DecodeFrame: progress only behind len(data) >= msgLen; consumed = 1 + lengthBytes + remaining
	df := c.Fn("pkg/protocol/codec.WKProto.DecodeFrame")
	// (the body is cut out of data — and handed to a decoder, here or in a helper — only behind the length test)
	bodySlice := InstrFn{Name: "slice data[…:msgLen]", F: func(in ssa.Instruction) bool {
		sl, ok := in.(*ssa.Slice)
		if !ok || sl.High == nil {
			return false
		}
		p, isParam := sl.X.(*ssa.Parameter)
		return isParam && p.Name() == "data"
	}}
	c.Guard("R4-varint", df, bodySlice, "len(data) >= (*)")
	// encodedFrameSize = 1 + encodedVariableSize(body) + body
	efs := c.Fn("pkg/protocol/codec.encodedFrameSize")
	if efs != nil {
		ok := false
		// some return is the sum of exactly: the constant 1, a body size, and the length-prefix size of that body —
		// the latter either encodedVariableSize(body) or the same count computed in place (a loop over /128)
		inPlace, _ := consts("encodedFrameSize")
		for _, in := range instrsMatching(efs, AnyRet{}) {
			var terms []ssa.Value
			var flat func(v ssa.Value)
			flat = func(v ssa.Value) {
				if b, isBin := stripConv(v).(*ssa.BinOp); isBin && b.Op == token.ADD {
					flat(b.X)
					flat(b.Y)
					return
				}
				terms = append(terms, stripConv(v))
			}
			flat(in.(*ssa.Return).Results[0])
			if len(terms) != 3 {
				continue
			}
			one, varlen, body := 0, 0, 0
			for _, t := range terms {
				switch x := t.(type) {
				case *ssa.Const:
					if k, isK := constUint(x); isK && k == 1 {
						one++
					}
				case *ssa.Call:
					if strings.HasSuffix(calleeName(&x.Call), ".encodedVariableSize") {
						varlen++
					}
				case *ssa.Phi:
					if inPlace["/128"] && inPlace[">0"] && inPlace["+1"] {
						varlen++
					}
				default:
					body++
				}
			}
			if one == 1 && varlen == 1 && body == 1 {
				ok = true
			}
		}
		if ok {
			c.add("wire", "R4-varint", c22pkg+"encodedFrameSize#1+varlen+body", Held, c.P.Pos(efs.Pos()), "size = 1 + encodedVariableSize(body) + body")
		} else {
			c.add("wire", "R4-varint", c22pkg+"encodedFrameSize#1+varlen+body", Violated, c.P.Pos(efs.Pos()), "encodedFrameSize is no longer 1 + encodedVariableSize(bodySize) + bodySize")
		}
	}
}
